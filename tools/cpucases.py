"""CPU-level case generators (C02-C07, C12, C13, C18) and their monitors."""
import itertools

from asm import *  # noqa
from cases import G, BOUNDARY32, PROPS
import monitors

F_C, F_V, F_Z, F_N = 1 << 18, 1 << 19, 1 << 20, 1 << 21
PC0 = 0x700100
DATA = 0x720000      # scratch data area
STK = 0x730000       # stack area

BVAL = {1: [0, 1, 2, 0x7f, 0x80, 0xfe, 0xff],
        2: [0, 1, 2, 0x7f, 0x80, 0xff, 0x100, 0x7fff, 0x8000, 0xfffe, 0xffff],
        4: [0, 1, 2, 0x7f, 0x80, 0xff, 0x7fff, 0x8000, 0xffff, 0x10000, 0x7fffffff, 0x80000000, 0xfffffffe, 0xffffffff]}
SIZES = {'W': 4, 'H': 2, 'B': 1}


def psw_of(flags, ipl=15, extra=0):
    n, z, v, c = flags
    return (F_N if n else 0) | (F_Z if z else 0) | (F_V if v else 0) | (F_C if c else 0) | (ipl << 13) | extra


def allflags():
    return list(itertools.product([0, 1], repeat=4))


def setup_ops(regs, mem, code, pc=PC0):
    ops = []
    for a, bs in mem:
        ops.append('ld:%x:%s' % (a, hexs(bs)))
    ops.append('ld:%x:%s' % (pc, hexs(code)))
    for i in sorted(regs):
        ops.append('r:%x:%x' % (i, regs[i] & 0xffffffff))
    ops.append('r:f:%x' % pc)
    return ops


def be(v, n):
    return [(v >> (8 * (n - 1 - i))) & 0xff for i in range(n)]


def rnd_regs(r, psw):
    regs = {i: (r.choice(BOUNDARY32) if r.random() < 0.3 else r.randrange(1 << 32)) for i in range(9)}
    regs[9] = STK + 0x400
    regs[10] = STK + 0x800
    regs[11] = psw
    regs[12] = STK
    regs[13] = 0x740000
    regs[14] = 0x741000
    return regs


# ----------------------------------------------------------------------------- C05

def gen_c05(tier, seed):
    g = G('j', seed)
    r = g.rnd
    bdisp = [0, 1, 2, 0x7f, 0x80, 0xfe, 0xff]
    hdisp = [0, 1, 3, 0x7f, 0x80, 0xff, 0x100, 0x7fff, 0x8000, 0xfffe, 0xffff]
    for cname, (rets, hs, bs) in COND.items():
        for fl in allflags():
            psw = psw_of(fl)
            for opc in bs:
                for d in bdisp:
                    g.add(setup_ops(rnd_regs(r, psw), [], [opc, d] + [0x70] * 4) + ['st'], 'bcc-b')
            for opc in hs:
                for d in hdisp:
                    g.add(setup_ops(rnd_regs(r, psw), [], [opc] + le(d, 2) + [0x70] * 4) + ['st'], 'bcc-h')
            for opc in rets:
                for tgt in [0x700200, 0, 0xffffffff, r.randrange(1 << 32)]:
                    regs = rnd_regs(r, psw)
                    sp = r.choice([STK + 0x10, STK + 0x104, 0x7ffffc, 0x700004])
                    regs[12] = sp
                    g.add(setup_ops(regs, [(sp - 4, be(tgt, 4)), (sp, be(0x11223344, 4))], [opc] + [0x70] * 4) + ['st', 'rw:%x' % (sp - 4)], 'rcc')
    # unconditional transfers
    for fl in allflags():
        psw = psw_of(fl)
        for d in bdisp:
            g.add(setup_ops(rnd_regs(r, psw), [], [0x7b, d]) + ['st'], 'brb')
            g.add(setup_ops(rnd_regs(r, psw), [], [0x37, d]) + ['st', 'rw:%x' % STK], 'bsbb')
        for d in hdisp:
            g.add(setup_ops(rnd_regs(r, psw), [], [0x7a] + le(d, 2)) + ['st'], 'brh')
            g.add(setup_ops(rnd_regs(r, psw), [], [0x36] + le(d, 2)) + ['st', 'rw:%x' % STK], 'bsbh')
        for tgt in [0x700200, 0x12345678, 0, PC0, PC0 + 1, PC0 - 1, PC0 + 6]:
            g.add(setup_ops(rnd_regs(r, psw), [], ins(0x24, absa(tgt))) + ['st'], 'jmp')
            g.add(setup_ops(rnd_regs(r, psw), [], ins(0x34, absa(tgt))) + ['st', 'rw:%x' % STK], 'jsb')
            regs = rnd_regs(r, psw)
            regs[3] = tgt
            g.add(setup_ops(regs, [], ins(0x24, regdef(3))) + ['st'], 'jmp')
            g.add(setup_ops(regs, [(STK + 0x20, be(tgt, 4))], ins(0x34, absdef(STK + 0x20))) + ['st'], 'jsb')
        regs = rnd_regs(r, psw)
        g.add(setup_ops(regs, [(STK - 4 + 0x10, be(0x700300, 4))], [0x78]) + ['st'], 'rsb')
        # targets computed from the stack pointer (JSB changes it while it runs) and through words on the stack
        import asm as _asm
        for opnd in (_asm.bdisp(12, 8), _asm.bdisp(12, 0), _asm.bdisp(12, 0xfc), bdispdef(12, 0xfc), bdispdef(12, 0), bdispdef(12, 4), regdef(12),
                     wdisp(12, 0x100), _asm.hdisp(12, 0x7ff0), absdef(STK), absdef(STK - 4)):
            regs = rnd_regs(r, psw)
            mem = [(STK - 8, be(0x700400, 4) + be(0x700500, 4) + be(0x700600, 4) + be(0x700700, 4))]
            g.add(setup_ops(regs, mem, ins(0x34, opnd)) + ['st', 'rw:%x' % STK], 'jsb-sp-relative')
            g.add(setup_ops(regs, mem, ins(0x24, opnd)) + ['st'], 'jmp-sp-relative')
    # code placement / alignment
    if tier == 'thorough':
        for pc in range(0x700100, 0x700108):
            for cname, (rets, hs, bs) in COND.items():
                for fl in allflags():
                    g.add(setup_ops(rnd_regs(r, psw_of(fl)), [], [hs[0]] + le(0x1234, 2), pc) + ['st'], 'align')
    return g.result('Every conditional branch/return opcode (byte and halfword forms, duplicate encodings included) x all 16 '
                    'condition-code combinations x boundary displacements / stack contents and stack positions; every '
                    'unconditional transfer (BRB BRH BSBB BSBH JMP JSB RSB) with boundary targets, JSB / JMP targets computed from the stack pointer '
                    'and through words on the stack.')


def mon_c05(case, obs):
    """expected PC/SP from the architected condition table"""
    toks = case.split()[1:]
    out, fin = monitors.split_obs(obs)
    if fin is None or 'st' not in toks:
        return None
    regs = {}
    code = None
    mem = {}
    for t in toks:
        f = t.split(':')
        if f[0] == 'r':
            regs[int(f[1], 16)] = int(f[2], 16)
        elif f[0] == 'ld':
            a = int(f[1], 16)
            for i, b in enumerate(bytes.fromhex(f[2])):
                mem[a + i] = b
    pc = regs[15]
    opc = mem.get(pc)
    psw = regs[11]
    n, z, v, c = bool(psw & F_N), bool(psw & F_Z), bool(psw & F_V), bool(psw & F_C)
    sp = regs[12]
    exp_pc = exp_sp = None
    for cname, (rets, hs, bs) in COND.items():
        taken = cond_holds(cname, n, z, v, c)
        if opc in bs:
            d = mem[pc + 1]
            d = d - 256 if d >= 128 else d
            exp_pc, exp_sp = ((pc + d) if taken else pc + 2) & 0xffffffff, sp
        elif opc in hs:
            d = mem[pc + 1] | (mem[pc + 2] << 8)
            d = d - 65536 if d >= 32768 else d
            exp_pc, exp_sp = ((pc + d) if taken else pc + 3) & 0xffffffff, sp
        elif opc in rets:
            if taken:
                w = 0
                for i in range(4):
                    w = (w << 8) | mem.get(sp - 4 + i, 0)
                exp_pc, exp_sp = w, sp - 4
            else:
                exp_pc, exp_sp = pc + 1, sp
    if exp_pc is None:
        return None
    st_i = toks.index('st')
    if out[st_i] != 'ok':
        return 'step of a conditional transfer returned %s' % out[st_i]
    fr = [int(x, 16) for x in monitors.final_fields(fin)['R'].split(',')]
    if (fr[15], fr[12]) != (exp_pc, exp_sp):
        return 'opcode %02x with NZVC=%d%d%d%d: PC/SP = %x/%x, architected %x/%x' % (opc, n, z, v, c, fr[15], fr[12], exp_pc, exp_sp)
    return None


# ----------------------------------------------------------------------------- C02

ALU2 = ['ADD', 'SUB', 'MUL', 'DIV', 'MOD', 'AND', 'OR', 'XOR']
UN_SD = ['MOV', 'MCOM', 'MNEG']          # src, dst
UN_D = ['CLR', 'INC', 'DEC']             # dst only
SRC1 = ['TST']
SRC2 = ['CMP', 'BIT']


def src_forms(r, sz, val, slot):
    """ways to present a source operand of the instruction's own type holding val (low sz bytes)"""
    forms = []
    reg_no = [0, 1, 2][slot]
    full = (val & ((1 << (8 * sz)) - 1))
    hi = r.randrange(1 << 32) & ~((1 << (8 * sz)) - 1) & 0xffffffff
    forms.append(('reg', reg(reg_no), {reg_no: full | hi}, []))
    a = DATA + 0x40 * slot
    forms.append(('abs', absa(a), {}, [(a, be(full, sz))]))
    if sz == 4:
        forms.append(('imm', immw(full), {}, []))
    elif sz == 2:
        forms.append(('imm', immh(full), {}, []))
    else:
        forms.append(('imm', immb(full), {}, []))
    return forms


def dst_forms(r, sz, val, slot):
    reg_no = [3, 4, 5][slot % 3]
    full = (val & ((1 << (8 * sz)) - 1))
    hi = r.randrange(1 << 32) & ~((1 << (8 * sz)) - 1) & 0xffffffff
    a = DATA + 0x100 + 0x40 * slot
    return [('reg', reg(reg_no), {reg_no: full | hi}, [], ('r', reg_no)),
            ('abs', absa(a), {}, [(a - 4, be(0xa5a5a5a5, 4)), (a, be(full, sz)), (a + sz, be(0x5a5a5a5a, 4))], ('m', a)),
            ('regdef', regdef(6), {6: a}, [(a, be(full, sz))], ('m', a))]


def gen_c02(tier, seed):
    g = G('l', seed)
    r = g.rnd
    per = 40 if tier == 'quick' else 900

    def emit(opname, code_ops, regsx, memx, kind, psw=None, readback=None):
        fl = r.choice(allflags())
        regs = rnd_regs(r, psw_of(fl) if psw is None else psw)
        regs.update(regsx)
        ops = setup_ops(regs, memx, ins(OP[opname], *code_ops) + [0x70, 0x70]) + ['st']
        if readback:
            ops.append('rw:%x' % (readback & ~3))
        g.add(ops, kind)

    def pick(sz):
        return r.choice(BVAL[sz]) if r.random() < 0.75 else r.randrange(1 << (8 * sz))

    for sfx, sz in SIZES.items():
        for base in ALU2:
            for _ in range(per):
                a, b = pick(sz), pick(sz)
                if base in ('DIV', 'MOD') and r.random() < 0.15:
                    a = 0
                if base in ('DIV', 'MOD') and r.random() < 0.15:
                    a, b = (1 << (8 * sz)) - 1, 1 << (8 * sz - 1)
                s = r.choice(src_forms(r, sz, a, 0))
                d = r.choice(dst_forms(r, sz, b, 0))
                regsx = dict(s[2]); regsx.update(d[2])
                emit(base + sfx + '2', [s[1], d[1]], regsx, s[3] + d[3], base + '2', readback=d[4][1] if d[4][0] == 'm' else None)
                s2 = r.choice(src_forms(r, sz, b, 1))
                d3 = r.choice(dst_forms(r, sz, pick(sz), 1))
                regsx = dict(s[2]); regsx.update(s2[2]); regsx.update(d3[2])
                emit(base + sfx + '3', [s[1], s2[1], d3[1]], regsx, s[3] + s2[3] + d3[3], base + '3', readback=d3[4][1] if d3[4][0] == 'm' else None)
        for base in UN_SD:
            for _ in range(per):
                s = r.choice(src_forms(r, sz, pick(sz), 0))
                d = r.choice(dst_forms(r, sz, pick(sz), 0))
                regsx = dict(s[2]); regsx.update(d[2])
                emit(base + sfx, [s[1], d[1]], regsx, s[3] + d[3], base, readback=d[4][1] if d[4][0] == 'm' else None)
        for base in UN_D:
            for _ in range(per):
                d = r.choice(dst_forms(r, sz, pick(sz), 0))
                emit(base + sfx, [d[1]], d[2], d[3], base, readback=d[4][1] if d[4][0] == 'm' else None)
        for base in SRC1:
            for _ in range(per):
                s = r.choice(src_forms(r, sz, pick(sz), 0))
                emit(base + sfx, [s[1]], s[2], s[3], base)
        # SWAPxI: the operand and %r0 change places (operand forms include ones addressed through %r0 itself)
        for _ in range(per):
            d = r.choice(dst_forms(r, sz, pick(sz), 0))
            regsx = dict(d[2]); regsx[0] = r.randrange(1 << 32)
            emit('SWAP' + sfx + 'I', [d[1]], regsx, d[3], 'SWAP', readback=d[4][1] if d[4][0] == 'm' else None)
            a = DATA + 0x100 + 4 * r.randrange(8)
            o, base0 = r.choice([(regdef(0), a), (wdisp(0, 8), a - 8), (bdispdef(0, 4), DATA + 0x180 - 4)])
            emit('SWAP' + sfx + 'I', [o], {0: base0}, [(DATA + 0x100, [r.randrange(256) for _ in range(0x40)]), (DATA + 0x180, be(a, 4))],
                 'SWAP-via-r0', readback=a)
        for base in SRC2:
            for _ in range(per * 2):
                s = r.choice(src_forms(r, sz, pick(sz), 0))
                s2 = r.choice(src_forms(r, sz, pick(sz), 1))
                regsx = dict(s[2]); regsx.update(s2[2])
                emit(base + sfx, [s[1], s2[1]], regsx, s[3] + s2[3], base)
        # shifts and fields at this size
        for base in ['ARS', 'LLS'] + (['ALS', 'LRS', 'ROT'] if sz == 4 else []):
            name = {'ROT': 'ROTW', 'ALS': 'ALSW3', 'LRS': 'LRSW3'}.get(base, base + sfx + '3')
            for cnt in range(32):
                for _ in range(2 if tier == 'quick' else 30):
                    cs = r.choice([lit(cnt), reg(0), immw(cnt | (r.randrange(8) << 5))])
                    s2 = r.choice(src_forms(r, sz, pick(sz), 1))
                    d3 = r.choice(dst_forms(r, sz, pick(sz), 1))
                    regsx = {0: cnt | (r.randrange(1 << 27) << 5)}
                    regsx.update(s2[2]); regsx.update(d3[2])
                    emit(name, [cs, s2[1], d3[1]], regsx, s2[3] + d3[3], base, readback=d3[4][1] if d3[4][0] == 'm' else None)
        for base in ['INSF', 'EXTF']:
            for width in range(32):
                for off in ([0, 1, 31 - width, r.randrange(32)] if tier == 'quick' else range(32)):
                    off = max(0, min(31, off))
                    s3 = r.choice(src_forms(r, sz, pick(sz), 2))
                    d4 = r.choice(dst_forms(r, sz, pick(sz), 2))
                    regsx = dict(s3[2]); regsx.update(d4[2])
                    emit(base + sfx, [lit(width) if r.random() < 0.7 else immw(width | 0xe0), lit(off), s3[1], d4[1]], regsx,
                         s3[3] + d4[3], base, readback=d4[4][1] if d4[4][0] == 'm' else None)
    # zero divisors, systematically: every divide / remainder opcode x every source form x all 16 condition-code states
    # (the fault must change nothing, the condition codes included)
    for sfx, sz in SIZES.items():
        for base in ('DIV', 'MOD'):
            for form in ('2', '3'):
                for fl in allflags():
                    for k in range(3):
                        s = src_forms(r, sz, 0, 0)[k % len(src_forms(r, sz, 0, 0))]
                        d = r.choice(dst_forms(r, sz, pick(sz), 1))
                        regs = rnd_regs(r, psw_of(fl))
                        regs.update(s[2]); regs.update(d[2])
                        mem = s[3] + d[3]
                        opsx = [s[1], d[1]] if form == '2' else [s[1], r.choice(src_forms(r, sz, pick(sz), 2))[1], d[1]]
                        ops = setup_ops(regs, mem, ins(OP[base + sfx + form], *opsx) + [0x70, 0x70]) + ['st']
                        g.add(ops, 'zero-divisor')
    # divide overflow written with unsigned expanded types (the only way both operands reach the halfword / byte arms
    # without sign extension): {uhalf}0xffff into {uhalf}0x8000 and neighbours, all flag states
    for name in ('DIVH2', 'DIVH3', 'DIVB2', 'DIVB3', 'MODH3', 'DIVW3'):
        for (et, a, b) in (('uhalf', 0xffff, 0x8000), ('uhalf', 0xffff, 0x7fff), ('uhalf', 0xfffe, 0x8000), ('byte', 0xff, 0x80),
                           ('uword', 0xffffffff, 0x80000000), ('sbyte', 0xff, 0x80), ('half', 0xffff, 0x8000)):
            for fl in allflags():
                regs = rnd_regs(r, psw_of(fl))
                regs[0], regs[1] = a | (r.randrange(1 << 32) & ~0xffff if et != 'uword' else 0), b
                o = [ex(et, reg(0)), ex(et, reg(1))] + ([reg(2)] if name.endswith('3') else [])
                g.add(setup_ops(regs, [], ins(OP[name], *o) + [0x70, 0x70]) + ['st'], 'divide-overflow-expanded')
    return g.result('Every data-processing opcode (CLR MOV MCOM MNEG INC DEC TST BIT CMP, 2- and 3-operand ADD SUB MUL DIV MOD '
                    'AND OR XOR, ARS LLS ALS LRS ROT, INSF EXTF) at B/H/W x register / memory / immediate operand forms x '
                    'boundary-value pairs and random values x random initial condition codes x all shift counts 0-31 x all '
                    'field widths; divide-by-zero and MIN/-1 included; every divide / remainder opcode with a zero divisor in every source form under all 16 '
                    'condition-code states.')


# ----------------------------------------------------------------------------- C03

MODES_SRC = ['lit', 'neglit', 'immb', 'immh', 'immw', 'reg', 'regdef', 'fpoff', 'apoff', 'bdisp', 'bdispdef',
             'hdisp', 'hdispdef', 'wdisp', 'wdispdef', 'abs', 'absdef']


def operand_for(r, mode, target, val, sz, regsx, memx, ptr_area):
    """build an operand of the given mode that refers to address `target` holding val"""
    base_reg = r.choice([0, 1, 2, 3, 4, 5, 6, 7, 8, 9, 10, 12])
    if mode == 'lit':
        return lit(r.randrange(0, 64))
    if mode == 'neglit':
        return lit(r.randrange(-16, 0))
    if mode == 'immb':
        return immb(val & 0xff)
    if mode == 'immh':
        return immh(val & 0xffff)
    if mode == 'immw':
        return immw(val & 0xffffffff)
    if mode == 'reg':
        rr = r.choice([0, 1, 2, 3, 4, 5, 6, 7, 8])
        regsx[rr] = val & 0xffffffff
        return reg(rr)
    memx.append((target, be(val & ((1 << (8 * sz)) - 1), sz)))
    if mode == 'abs':
        return absa(target)
    if mode == 'absdef':
        memx.append((ptr_area, be(target, 4)))
        return absdef(ptr_area)
    if mode == 'regdef':
        rr = r.choice([0, 1, 2, 3, 4, 5, 6, 7, 8, 9, 10, 12])
        regsx[rr] = target
        return regdef(rr)
    if mode == 'fpoff':
        o = r.randrange(0, 15)
        regsx[9] = (target - o) & 0xffffffff
        return fpoff(o)
    if mode == 'apoff':
        o = r.randrange(0, 15)
        regsx[10] = (target - o) & 0xffffffff
        return apoff(o)
    width = {'b': 1, 'h': 2, 'w': 4}[mode[0]]
    d = r.choice([0, 1, (1 << (8 * width - 1)) - 1, 1 << (8 * width - 1), (1 << (8 * width)) - 1, r.randrange(1 << (8 * width))])
    sd = d - (1 << (8 * width)) if d >> (8 * width - 1) else d
    if mode.endswith('def'):
        regsx[base_reg] = (ptr_area - sd) & 0xffffffff
        memx.append((ptr_area, be(target, 4)))
    else:
        regsx[base_reg] = (target - sd) & 0xffffffff
    fn = {'bdisp': bdisp, 'bdispdef': bdispdef, 'hdisp': hdisp, 'hdispdef': hdispdef, 'wdisp': wdisp, 'wdispdef': wdispdef}[mode]
    return fn(base_reg, d)


def gen_c03(tier, seed):
    g = G('m', seed)
    r = g.rnd
    n = 3 if tier == 'quick' else 60
    for opname, sz in (('MOVW', 4), ('MOVH', 2), ('MOVB', 1)):
        for smode in MODES_SRC:
            for dmode in MODES_SRC:
                for et_s in [None] + list(ETYPE):
                    for _ in range(n if et_s is None else 1):
                        et_d = r.choice([None] + list(ETYPE)) if r.random() < 0.4 else None
                        regsx, memx = {}, []
                        val = r.choice(BVAL[4]) if r.random() < 0.6 else r.randrange(1 << 32)
                        ssz = {'uword': 4, 'word': 4, 'uhalf': 2, 'half': 2, 'byte': 1, 'sbyte': 1}.get(et_s, sz)
                        so = operand_for(r, smode, DATA + 0x10 + 4 * r.randrange(4), val, ssz, regsx, memx, DATA + 0x200)
                        regsd = {}
                        do = operand_for(r, dmode, DATA + 0x100 + 4 * r.randrange(4), 0x55aa55aa, 4, regsd, memx, DATA + 0x240)
                        for k, v in regsd.items():
                            if k not in regsx:
                                regsx[k] = v
                            elif regsx[k] != v:
                                do = absa(DATA + 0x100)
                        if et_s:
                            so = ex(et_s, so)
                        if et_d:
                            do = ex(et_d, do)
                        regs = rnd_regs(r, psw_of(r.choice(allflags())))
                        regs.update(regsx)
                        g.add(setup_ops(regs, memx, ins(OP[opname], so, do) + [0x70, 0x70]) + ['st', 'rw:%x' % (DATA + 0x100), 'rw:%x' % (DATA + 0x104), 'rw:%x' % (DATA + 0xfc)], 'mov')
    for smode in MODES_SRC:
        for _ in range(n * 4):
            regsx, memx = {}, []
            so = operand_for(r, smode, r.choice([DATA + 0x10, 0xfffffffc, 0x10, 0x7ffffffc]), 0x12345678, 4, regsx, [], DATA + 0x200)
            regs = rnd_regs(r, psw_of(r.choice(allflags())))
            regs.update(regsx)
            g.add(setup_ops(regs, memx, ins(OP['MOVAW'], so, reg(8)) + [0x70]) + ['st'], 'movaw')
            g.add(setup_ops(regs, memx, ins(OP['PUSHAW'], so) + [0x70]) + ['st', 'rw:%x' % STK], 'pushaw')
            g.add(setup_ops(regs, memx, ins(0x0c, so, reg(8)) + [0x70]) + ['st'], 'movtrw')      # MOVTRW: the address, like MOVAW
    # operand positions 2 and 3 through the four-operand field instructions
    for smode in MODES_SRC:
        for dmode in MODES_SRC:
            regsx, memx = {}, []
            so = operand_for(r, smode, DATA + 0x10, r.randrange(1 << 32), 4, regsx, memx, DATA + 0x200)
            regsd = {}
            do = operand_for(r, dmode, DATA + 0x100, r.randrange(1 << 32), 4, regsd, memx, DATA + 0x240)
            if any(k in regsx and regsx[k] != v for k, v in regsd.items()):
                do = absa(DATA + 0x100)
            else:
                regsx.update(regsd)
            regs = rnd_regs(r, psw_of(r.choice(allflags())))
            regs.update(regsx)
            g.add(setup_ops(regs, memx, ins(OP['EXTFW'], lit(7), lit(4), so, do) + [0x70]) + ['st', 'rw:%x' % (DATA + 0x100)], 'pos23')
    # expanded types across three and four operands: X on one operand, a different Y later, then un-prefixed operands
    ets = list(ETYPE)
    for x in ets:
        for y in ets:
            for opname in ('ADDW3', 'ORW3', 'SUBH3', 'ANDB3', 'MULW3'):
                for pat in ((x, y, None), (x, None, None), (None, y, None), (x, None, y)):
                    regs = rnd_regs(r, psw_of(r.choice(allflags())))
                    regs[0] = r.choice(BVAL[4]); regs[1] = r.choice(BVAL[4]); regs[2] = DATA + 0x100
                    o = [reg(0), reg(1), r.choice([regdef(2), reg(3), absa(DATA + 0x104)])]
                    o = [ex(t, oo) if t else oo for t, oo in zip(pat, o)]
                    g.add(setup_ops(regs, [(DATA + 0xfc, be(0xa5a5a5a5, 4) * 4)], ins(OP[opname], *o) + [0x70, 0x70]) +
                          ['st', 'rw:%x' % (DATA + 0x100), 'rw:%x' % (DATA + 0x104), 'rw:%x' % (DATA + 0xfc)], 'etype3')
            for pat in ((x, y, None, None), (None, x, y, None), (x, None, y, None)):
                regs = rnd_regs(r, psw_of(r.choice(allflags())))
                regs[0] = r.randrange(32); regs[1] = r.randrange(32); regs[2] = r.choice(BVAL[4]); regs[4] = DATA + 0x100
                o = [reg(0), reg(1), reg(2), r.choice([regdef(4), reg(3)])]
                o = [ex(t, oo) if t else oo for t, oo in zip(pat, o)]
                g.add(setup_ops(regs, [(DATA + 0xfc, be(0xa5a5a5a5, 4) * 4)], ins(OP['EXTFW'], *o) + [0x70, 0x70]) +
                      ['st', 'rw:%x' % (DATA + 0x100), 'rw:%x' % (DATA + 0x104), 'rw:%x' % (DATA + 0xfc)], 'etype4')
    # every opcode of the table with operands in randomly chosen addressing modes (all 17), random expanded-type
    # prefixes, random registers and condition codes: one step, whole state compared with the model
    for o in sorted(ARCH_SIG):
        sig = ARCH_SIG[o]
        if 'd' not in sig:
            continue
        for _ in range(8 if tier == 'quick' else 150):
            regsx, memx = {}, []
            code = [o] if o < 0x100 else [o >> 8, o & 0xff]
            slot = 0
            for kch in sig:
                if kch in 'BHW':
                    code += [r.randrange(256) for _b in range({'B': 1, 'H': 2, 'W': 4}[kch])]
                    continue
                mode = r.choice(MODES_SRC)
                val = r.choice(BVAL[4]) if r.random() < 0.5 else r.randrange(1 << 32)
                opnd = operand_for(r, mode, DATA + 0x20 * slot + 4 * r.randrange(4), val, 4, regsx, memx, DATA + 0x200 + 8 * slot)
                if r.random() < 0.25:
                    opnd = ex(r.choice(list(ETYPE)), opnd)
                code += opnd
                slot += 1
            regs = rnd_regs(r, psw_of(r.choice(allflags())))
            regs.update(regsx)
            g.add(setup_ops(regs, [(DATA, [r.randrange(256) for _b in range(0x100)])] + memx, code + [0x70] * 4) +
                  ['st', 'gr', 'rw:%x' % DATA, 'rw:%x' % (DATA + 0x20), 'rw:%x' % (DATA + 0x40), 'rw:%x' % (DATA + 0x60)], 'opcode-soup')
    # instructions that read and write one operand and also change a register (SWAPxI exchanges it with %r0, INC / DEC /
    # CLR / MCOM in place): the operand addressed through each base register, %r0 included -- the store must go to the
    # address the operand had when the instruction started
    for opname in ('SWAPWI', 'SWAPHI', 'SWAPBI', 'INCW', 'DECH', 'CLRB', 'MNEGW', 'MCOMB'):
        for base in (0, 1, 2, 9, 10, 12):
            for form in ('regdef', 'bdisp', 'wdisp', 'bdispdef', 'hdispdef'):
                regs = rnd_regs(r, psw_of(r.choice(allflags())))
                a = DATA + 0x40 + 4 * r.randrange(8)
                mem = [(DATA, [r.randrange(256) for _ in range(0x100)])]
                if form == 'regdef':
                    if base in (9, 10, 12) and form == 'regdef' and base == 12:
                        pass
                    regs[base] = a
                    o = regdef(base)
                elif form == 'bdisp':
                    regs[base] = a - 8
                    o = bdisp(base, 8)
                elif form == 'wdisp':
                    regs[base] = (a + 0x100) & 0xffffffff
                    o = wdisp(base, 0xffffff00)
                elif form == 'bdispdef':
                    regs[base] = DATA + 0x80 - 4
                    mem.append((DATA + 0x80, be(a, 4)))
                    o = bdispdef(base, 4)
                else:
                    regs[base] = DATA + 0x90 - 0x10
                    mem.append((DATA + 0x90, be(a, 4)))
                    o = hdispdef(base, 0x10)
                code = ins(OP[opname], o, o) if opname in ('MNEGW', 'MCOMB') else ins(OP[opname], o)
                g.add(setup_ops(regs, mem, code + [0x70, 0x70]) + ['st', 'rw:%x' % (a & ~3), 'rw:%x' % ((a & ~3) + 4), 'gr'], 'read-modify-write')
    return g.result('MOVB/MOVH/MOVW with every pair of the 17 source x 17 destination addressing-mode forms (literal and immediate '
                    'destinations included), with and without each expanded-type prefix on either operand, all base registers, '
                    'boundary displacements of every width, MOVAW / PUSHAW address probes at wrap-around addresses, operand '
                    'positions 2-3 via EXTFW, and every ordered pair of expanded types spread over three- and four-operand instructions '
                    '(prefix, different prefix, then un-prefixed operands); read-modify-write instructions (SWAPxI, INC, DEC, CLR, MNEG, MCOM) '
                    'addressed through every base register including %r0; MOVTRW address probes; and every opcode of the table with operands in '
                    'randomly chosen addressing modes and expanded types (one step, whole state compared).')


# ----------------------------------------------------------------------------- C04 (decode engine)

SIG = {}   # opcode -> (size of literal operands, [kinds])  kinds: 'd' descriptor, 'l' literal of the opcode's size
for _n, _o in OP.items():
    pass


def arch_signature():
    s = {}
    two = ['MOV', 'MCOM', 'MNEG']
    for sfx in 'WHB':
        for b in ALU2:
            s[OP[b + sfx + '2']] = 'dd'
            s[OP[b + sfx + '3']] = 'ddd'
        for b in two:
            s[OP[b + sfx]] = 'dd'
        for b in UN_D:
            s[OP[b + sfx]] = 'd'
        s[OP['TST' + sfx]] = 'd'
        s[OP['CMP' + sfx]] = 'dd'
        s[OP['BIT' + sfx]] = 'dd'
        s[OP['ARS' + sfx + '3']] = 'ddd'
        s[OP['LLS' + sfx + '3']] = 'ddd'
        s[OP['INSF' + sfx]] = 'dddd'
        s[OP['EXTF' + sfx]] = 'dddd'
        s[OP['SWAP' + sfx + 'I']] = 'd'
    for n in ('ALSW3', 'LRSW3', 'ROTW'):
        s[OP[n]] = 'ddd'
    for n in ('MOVAW', 'MOVTRW', 'CALL'):
        s[OP[n]] = 'dd'
    for n in ('SAVE', 'RESTORE', 'POPW', 'JMP', 'JSB', 'PUSHW', 'PUSHAW'):
        s[OP[n]] = 'd'
    for n in ('RET', 'NOP', 'NOP2', 'NOP3', 'RSB'):
        s[OP[n]] = ''
    for o in (0x00, 0x27, 0x2e, 0x2f, 0x14):
        s[o] = ''                     # HALT CFLUSH BPT WAIT EXTOP(as tabled)
    for o in (0x02, 0x06, 0x22):
        s[o] = 'Wd'                   # SPOPRD SPOPRT SPOPRS: word literal + source
    for o in (0x03, 0x07, 0x23):
        s[o] = 'Wdd'
    for o in (0x13, 0x17, 0x33):
        s[o] = 'Wd'
    s[0x32] = 'W'
    s[0x36] = 'H'
    s[0x37] = 'B'
    s[0x7a] = 'H'
    s[0x7b] = 'B'
    for cname, (rets, hs, bs) in COND.items():
        for o in rets:
            s[o] = ''
        for o in hs:
            s[o] = 'H'
        for o in bs:
            s[o] = 'B'
    for n in ('MVERNO', 'ENBVJMP', 'DISVJMP', 'MOVBLW', 'STREND', 'INTACK', 'STRCPY', 'RETG', 'GATE', 'CALLPS', 'RETPS'):
        s[OP[n]] = ''
    return s


ARCH_SIG = arch_signature()


def desc_len(d0, prefixed=False):
    """bytes consumed by a descriptor starting with byte d0 (None = reserved/illegal)"""
    m, rr = d0 >> 4, d0 & 15
    if m <= 3 or m == 15:
        return 1
    if m == 4:
        return 5 if rr == 15 else 1
    if m == 5:
        return 3 if rr == 15 else (None if rr == 11 else 1)
    if m == 6:
        return 2 if rr == 15 else 1
    if m == 7:
        return 5 if rr == 15 else 1
    if m in (8, 9):
        return None if rr == 11 else 5
    if m in (10, 11):
        return None if rr == 11 else 3
    if m in (12, 13):
        return None if rr == 11 else 2
    if m == 14:
        if rr == 15:
            return 5
        if prefixed or rr not in (0, 2, 3, 4, 6, 7):
            return None
        return 'prefix'
    return None


def arch_length(bs):
    """architected length of the instruction at the start of bs, or None when illegal"""
    if not bs:
        return None
    i = 1
    opc = bs[0]
    if opc == 0x30:
        opc = 0x3000 | bs[1]
        i = 2
    if opc not in ARCH_SIG:
        return None
    for k in ARCH_SIG[opc]:
        if k in 'BHW':
            i += {'B': 1, 'H': 2, 'W': 4}[k]
            continue
        if i >= len(bs):
            return None
        dl = desc_len(bs[i])
        if dl == 'prefix':
            i += 1
            if i >= len(bs):
                return None
            dl = desc_len(bs[i], True)
            if dl == 'prefix':
                return None
        if dl is None:
            return None
        i += dl
    return i


def gen_c04(tier, seed):
    g = G('n', seed)
    r = g.rnd
    fill = lambda n: [r.randrange(256) for _ in range(n)]

    def dec(bs, pc=PC0, kind='dec'):
        g.add(['ld:%x:%s' % (pc, hexs(bs)), 'r:f:%x' % pc, 'dc'], kind)
    for b1 in range(256):
        for _ in range(2 if tier == 'quick' else 20):
            dec([b1] + fill(30), kind='first-byte')
        dec([0x30, b1] + fill(4), kind='second-byte')
    sigs = sorted(set(ARCH_SIG.values()))
    rep = {}
    for o, s in ARCH_SIG.items():
        rep.setdefault(s, []).append(o)
    opcodes = sorted(ARCH_SIG) if tier == 'thorough' else [v[0] for v in rep.values()] + [v[-1] for v in rep.values()]
    for o in opcodes:
        s = ARCH_SIG[o]
        npos = len([k for k in s if k == 'd'])
        for pos in range(npos):
            for d0 in range(256):
                for pfx in [None] + [0xe0 | x for x in range(16)]:
                    if pfx is not None and tier == 'quick' and r.random() < 0.6:
                        continue
                    bs = [o] if o < 0x100 else [o >> 8, o & 0xff]
                    di = 0
                    for k in s:
                        if k in 'BHW':
                            bs += fill({'B': 1, 'H': 2, 'W': 4}[k])
                        else:
                            if di == pos:
                                if pfx is not None:
                                    bs.append(pfx)
                                bs.append(d0)
                                bs += fill(4)
                                # the remaining operands: simple registers so that the tail decodes
                                bs += [0x40 + r.randrange(9) for _ in range(4)]
                                break
                            bs.append(r.choice([0x40, 0x05, 0xf1, 0x53, 0x62, 0x71]))
                            di += 1
                    dec(bs + fill(8), pc=PC0 + r.randrange(4), kind='descriptor')
    # longest encodings and random strings
    for _ in range(200 if tier == 'quick' else 5000):
        o = r.choice([0xc8, 0xca, 0xcb, 0xcc, 0xce, 0xcf])
        bs = [o]
        for _ in range(4):
            bs += [0xe0 | r.choice([0, 2, 3, 4, 6, 7]), r.choice([0x4f, 0x7f, 0xef, 0x80 | r.randrange(11), 0x90 | r.randrange(11)])] + fill(4)
        dec(bs + fill(4), kind='longest')
    for _ in range(2000 if tier == 'quick' else 100000):
        dec(fill(32), pc=PC0 + r.randrange(4), kind='random')
    # code rewritten between decodes / decode independent of the rest of the machine
    for _ in range(200 if tier == 'quick' else 3000):
        a, b = fill(12), fill(12)
        ops = ['ld:%x:%s' % (PC0, hexs(a)), 'r:f:%x' % PC0, 'dc', 'ld:%x:%s' % (PC0, hexs(b)), 'dc',
               'r:0:%x' % r.randrange(1 << 32), 'r:b:%x' % r.randrange(1 << 32), 'ld:%x:%s' % (PC0, hexs(a)), 'dc']
        g.add(ops, 'rewrite')
    # executing a non-branching instruction advances PC by its length
    for _ in range(300 if tier == 'quick' else 5000):
        o = r.choice([0x84, 0x86, 0x87, 0x9c, 0xdc, 0xcc, 0x28, 0x3c, 0x80])
        s = ARCH_SIG[o]
        code = [o]
        for k in s:
            code += r.choice([reg(r.randrange(9)), absa(DATA + 4 * r.randrange(8)), wdisp(9, 8), ex('word', reg(r.randrange(9))), lit(5)])
        if code[-1] < 0x40 or code[-1] >= 0xf0:
            code[-1:] = reg(3)
        regs = rnd_regs(r, psw_of(r.choice(allflags())))
        regs[9] = DATA + 0x80
        g.add(setup_ops(regs, [], code + [0x70] * 2) + ['dc', 'st'], 'pc-advance')
    # ... for EVERY opcode of the table (no-operand opcodes such as NOP2 / NOP3 included): one step, whole state compared
    for o in sorted(ARCH_SIG):
        for _ in range(2 if tier == 'quick' else 12):
            s = ARCH_SIG[o]
            code = [o] if o < 0x100 else [o >> 8, o & 0xff]
            for k in s:
                if k in 'BHW':
                    code += fill({'B': 1, 'H': 2, 'W': 4}[k])
                else:
                    code += r.choice([reg(r.randrange(9)), reg(r.randrange(9)), absa(DATA + 4 * r.randrange(8)), lit(r.randrange(1, 60))])
            if s and s[-1] == 'd' and (code[-1] < 0x40 or code[-1] >= 0xf0):
                code[-1:] = reg(3)
            regs = rnd_regs(r, psw_of(r.choice(allflags())))
            regs[9] = DATA + 0x80
            g.add(setup_ops(regs, [], code + [0x70] * 4) + ['dc', 'st'], 'pc-advance-every-opcode')
    return g.result('Decode-only runs: all 256 first bytes, all 256 second bytes after 0x30, for every operand signature (every '
                    'opcode in the thorough tier) and operand position all 256 descriptor bytes alone and after each of the 16 '
                    '0xE? prefixes followed by random constants, four code alignments, longest encodings, random strings, code '
                    'rewritten between decodes, and one executed step of EVERY opcode of the table (PC advance, whole state compared).')


def mon_c04(case, obs):
    """length/legality from the architected encoding rules, written independently of the implementation"""
    toks = case.split()[1:]
    out, fin = monitors.split_obs(obs)
    mem = {}
    pc = None
    for i, t in enumerate(toks):
        if i >= len(out):
            break
        f = t.split(':')
        if out[i] == 'p':
            return 'op %d (%s) panicked' % (i, t)
        if f[0] == 'ld':
            a = int(f[1], 16)
            for j, b in enumerate(bytes.fromhex(f[2])):
                mem[a + j] = b
        elif f[0] == 'r' and int(f[1], 16) == 15:
            pc = int(f[2], 16)
        elif f[0] == 'dc' and pc is not None:
            bs = [mem.get(pc + j, 0) for j in range(40)]
            al = arch_length(bs)
            o = out[i]
            if al is None:
                if o.startswith('ok'):
                    return 'op %d: bytes %s are not a defined encoding but decoded as %s' % (i, hexs(bs[:8]), o[:40])
            else:
                if not o.startswith('ok:'):
                    return 'op %d: bytes %s are a defined %d-byte encoding but decode returned %s' % (i, hexs(bs[:al]), al, o)
                ff = o.split(':')
                opc, ln = int(ff[1], 16), int(ff[2], 16)
                eo = bs[0] if bs[0] != 0x30 else 0x3000 | bs[1]
                if opc != eo or ln != al:
                    return 'op %d: bytes %s: decoded opcode %x length %d, architected opcode %x length %d' % (i, hexs(bs[:al]), opc, ln, eo, al)
    return None


# ----------------------------------------------------------------------------- C06

class Prog:
    """a straight-line main program plus subroutines placed at fresh addresses"""

    def __init__(self, r, base):
        self.r = r
        self.mem = []
        self.next_sub = base + 0x1000
        self.steps = 0
        # all subroutines must fit below the stack area (0x730000): at most 150 blocks of 0x400 bytes
        self.budget = 150

    def block(self, depth, kinds):
        r = self.r
        code = []
        for _ in range(r.randrange(1, 3) if depth > 0 else 1):
            k = r.choice(kinds) if depth > 0 and self.budget > 0 else 'leaf'
            self.budget -= 1
            if k == 'leaf':
                # clobber a saved register or scratch so that restores are observable
                reg_no = r.choice([0, 1, 2])
                code += ins(OP['MOVW'], immw(r.randrange(1 << 32)), reg(reg_no))
                self.steps += 1
            elif k == 'push':
                src = r.choice([immw(r.randrange(1 << 32)), reg(r.randrange(9)), lit(r.randrange(64)),
                                ex(r.choice(list(ETYPE)), reg(r.randrange(9))), ex(r.choice(list(ETYPE)), absa(DATA + 4 * r.randrange(8)))])
                code += ins(OP['PUSHW'], src)
                self.steps += 1
                code += self.block(depth - 1, kinds)
                code += ins(OP['POPW'], reg(r.choice([0, 1, 2])))
                self.steps += 1
            elif k == 'save':
                n = r.choice([3, 4, 5, 6, 7, 8, 9])
                code += ins(OP['SAVE'], reg(n))
                self.steps += 1
                # clobber registers the RESTORE must bring back
                for rr in range(n, 9):
                    if r.random() < 0.6:
                        code += ins(OP['MOVW'], immw(r.randrange(1 << 32)), reg(rr))
                        self.steps += 1
                code += self.block(depth - 1, kinds)
                code += ins(OP['RESTORE'], reg(n))
                self.steps += 1
            elif k in ('jsb', 'bsbh', 'bsbb'):
                sub = self.next_sub
                self.next_sub += 0x400
                body = self.block(depth - 1, kinds) + [0x78]
                self.steps += 1
                self.mem.append((sub, body))
                if k == 'jsb':
                    code += ins(OP['JSB'], absa(sub))
                else:
                    code += ['BSB', k, sub]
                self.steps += 1
            elif k == 'call':
                sub = self.next_sub
                self.next_sub += 0x400
                body = self.block(depth - 1, kinds) + [0x08]
                self.steps += 1
                self.mem.append((sub, body))
                nargs = r.randrange(0, 3)
                for _ in range(nargs):
                    code += ins(OP['PUSHW'], immw(r.randrange(1 << 32)))
                    self.steps += 1
                code += ins(OP['CALL'], bdisp(12, (-4 * nargs) & 0xff), absa(sub))
                self.steps += 1
        return code


def resolve(code, base):
    """replace the ['BSB', kind, target] placeholders by BSBH / BSBB with the right displacement"""
    out = []
    i = 0
    while i < len(code):
        if code[i] == 'BSB':
            kind, tgt = code[i + 1], code[i + 2]
            here = base + len(out)
            d = tgt - here
            if kind == 'bsbb' and -128 <= d <= 127:
                out += [0x37, d & 0xff]
            else:
                out += [0x36] + le(d & 0xffff, 2) if -32768 <= d <= 32767 else ins(OP['JSB'], absa(tgt))
            i += 3
        else:
            out.append(code[i])
            i += 1
    return out


def gen_c06(tier, seed):
    g = G('q', seed)
    r = g.rnd
    n = 500 if tier == 'quick' else 12000
    maxdepth = 6 if tier == 'quick' else 24
    kinds = ['leaf', 'push', 'save', 'jsb', 'bsbh', 'call', 'push', 'save', 'call']
    for i in range(n):
        p = Prog(r, PC0)
        depth = r.randrange(1, maxdepth + 1) if r.random() < 0.8 else maxdepth
        main = p.block(min(depth, 12) if tier == 'quick' else depth, kinds)
        main = resolve(main, PC0)
        if len(main) > 0xf00:
            continue
        mem = [(a, resolve(b, a)) for a, b in p.mem]
        psw = psw_of(r.choice(allflags()))
        regs = rnd_regs(r, psw)
        # small nests also run with the stack just above the main program or near the end of RAM; big ones need room
        sp = r.choice([STK, STK + 0x100, 0x7f0000, 0x7ffe00 if depth < 4 else STK, 0x700800 if p.steps < 40 and len(main) < 0x400 else STK])
        regs[12] = sp
        regs[9] = r.choice([sp - 0x40, STK + 0x4000, r.randrange(1 << 30) * 4])
        regs[10] = r.choice([sp - 0x80, STK + 0x5000, r.randrange(1 << 30) * 4])
        end = PC0 + len(main)
        ops = setup_ops(regs, mem, main + [0x70] * 4) + ['k:3e8', 'run:%x' % p.steps, 'gr', 'rw:%x' % ((sp - 4) & ~3), 'rw:%x' % ((sp - 8) & ~3)]
        g.add(ops + ['X:%x' % end], 'nest-depth-%d' % min(depth, 8))
    # subroutine branches in both directions and at the limits of their displacement fields: BSBB / BSBH d ; ... ; RSB
    for opc, lo, hi in ((0x37, -128, 127), (0x36, -32768, 32767)):
        ds = [lo, lo + 1, -0x81 if opc == 0x36 else -0x7f, -0x40, -0x10, -3, 5, 0x10, 0x40, 0x7f, hi - 1, hi] + \
             [r.randrange(lo, hi + 1) for _ in range(6 if tier == 'quick' else 60)]
        for d in ds:
            if -3 <= d <= 4:
                continue
            site = 0x710000
            tgt = site + d
            main = [opc] + ([d & 0xff] if opc == 0x37 else [d & 0xff, (d >> 8) & 0xff]) + [0x70] * 6
            sub = ins(OP['MOVW'], immw(r.randrange(1 << 32)), reg(r.choice([0, 1, 2]))) + [0x78]
            if tgt < site + len(main) and tgt + len(sub) > site:
                continue
            regs = rnd_regs(r, psw_of(r.choice(allflags())))
            regs[12] = STK
            ops = setup_ops(regs, [(tgt, sub)], main, site) + ['k:3e8', 'st', 'gr', 'rw:%x' % STK, 'st', 'st', 'gr']
            g.add(ops, 'bsb-displacement')
    # subroutines that leave through a conditional return (every condition x every flag combination): taken, it is an RSB;
    # not taken, the next instruction (an RSB) returns; either way control is back behind the call with %sp as before
    for cr in (0x40, 0x44, 0x48, 0x4c, 0x50, 0x54, 0x58, 0x5c, 0x60, 0x64, 0x68, 0x6c, 0x74, 0x78, 0x7c):
        for fl in allflags():
            site = 0x710000
            tgt = 0x712000 + 4 * r.randrange(16)
            call = r.choice([ins(OP['JSB'], absa(tgt)), [0x36, (tgt - site) & 0xff, ((tgt - site) >> 8) & 0xff]])
            regs = rnd_regs(r, psw_of(fl))
            regs[12] = STK
            ops = setup_ops(regs, [(tgt, [cr, 0x78, 0x70, 0x70])], call + [0x70] * 6, site) + ['k:3e8', 'st', 'gr', 'rw:%x' % STK, 'st', 'gr', 'st', 'gr']
            g.add(ops, 'conditional-return')
    # CALL / JSB whose operands are computed from %sp, %pc or through words on the stack (the linkage words are written and
    # %sp moves while the instruction runs), and CALL / JSB whose target cannot be resolved
    import asm as _asm
    for opnd_t in (_asm.bdisp(12, 0xf8), _asm.bdisp(12, 0x40), bdispdef(12, 0xf8), bdispdef(12, 0xfc), regdef(12), _asm.bdisp(15, 0x20),
                   _asm.hdisp(15, 0x100), bdispdef(15, 0x10), absdef(STK - 8), absdef(0x300000), absa(0x300000), wdisp(12, 0x100)):
        for opnd_a in (_asm.bdisp(12, 0xfc), regdef(12), _asm.bdisp(12, 0xf8), absa(STK - 0x20)):
            for _ in range(1 if tier == 'quick' else 6):
                regs = rnd_regs(r, psw_of(r.choice(allflags())))
                regs[12] = STK
                mem = [(STK - 0x10, be(0x700400, 4) + be(0x700500, 4) + be(0x700600, 4) + be(0x700700, 4)),
                       (0x700110, be(0x700800, 4) * 4)]
                g.add(setup_ops(regs, mem, ins(OP['CALL'], opnd_a, opnd_t) + [0x70] * 4) + ['st', 'gr', 'rw:%x' % STK, 'rw:%x' % (STK + 4)], 'call-operands')
        regs = rnd_regs(r, psw_of(r.choice(allflags())))
        regs[12] = STK
        mem = [(STK - 0x10, be(0x700400, 4) + be(0x700500, 4) + be(0x700600, 4) + be(0x700700, 4)), (0x700110, be(0x700800, 4) * 4)]
        g.add(setup_ops(regs, mem, ins(OP['JSB'], opnd_t) + [0x70] * 4) + ['st', 'gr', 'rw:%x' % STK], 'jsb-operands')
    # single instructions at the edges of RAM and with odd pointers (faults are compared with the model)
    for _ in range(200 if tier == 'quick' else 4000):
        psw = psw_of(r.choice(allflags()))
        regs = rnd_regs(r, psw)
        regs[12] = r.choice([0x7ffffc, 0x7ffff8, 0x7fffe4, 0x700000, 0x700004, 0x6ffffc, 0x800000, STK + 1, STK + 2, 0x20000, 0xfffffffc, 0])
        regs[9] = r.choice([regs[12], 0x700000, 0x70001c, 0x700018, 0x7ffffc, STK + 0x20, 0x10, 0xfffffffc])
        code = r.choice([ins(OP['PUSHW'], immw(0x11223344)), ins(OP['POPW'], reg(1)), ins(OP['SAVE'], reg(r.choice([3, 6, 9]))),
                         ins(OP['RESTORE'], reg(r.choice([3, 6, 9]))), ins(OP['CALL'], bdisp(12, 0xf8), absa(0x700400)), [0x08], [0x78],
                         ins(OP['JSB'], absa(0x700400)), [0x37, 0x10], ins(OP['PUSHAW'], absa(0x12345678)),
                         ins(OP['POPW'], bdisp(12, 0xf8)), ins(OP['POPW'], absa(0x100)), ins(OP['PUSHW'], bdisp(12, 0xfc))])
        g.add(setup_ops(regs, [(STK - 0x40, [r.randrange(256) for _ in range(0x80)])], code + [0x70] * 2) + ['st', 'gr', 'rw:%x' % (regs[12] & 0xfffffc if regs[12] < 0x800000 else 0x700000)], 'edge')
    return g.result('Balanced nests generated from B ::= leaf | B B | PUSHW v; B; POPW | SAVE %rN; clobber; B; RESTORE %rN | JSB/BSBH/BSBB sub(B; RSB) | '
                    'PUSHW args; CALL -4n(%sp), sub(B; RET), to the stated depth, with random stack/frame/argument pointers in RAM and random '
                    'registers, run to completion; plus single stack / linkage instructions with pointers at the edges of RAM, unaligned, '
                    'in ROM and in unmapped space; BSBB / BSBH displacement sweep in both directions up to the field limits; pushes of expanded-type operands.')


def mon_c06(case, obs):
    """a balanced nest returns with PC at the end of the main program and SP, AP, FP, r3-r8 as they started"""
    toks = case.split()[1:]
    if not toks or not toks[-1].startswith('X:'):
        return None
    end = int(toks[-1][2:], 16)
    out, fin = monitors.split_obs(obs)
    regs = {}
    for t in toks:
        f = t.split(':')
        if f[0] == 'r':
            regs[int(f[1], 16)] = int(f[2], 16)
    ri = toks.index('gr')
    if out[ri - 1] != 'ok':
        return 'balanced nest did not run to completion: %s' % out[ri - 1]
    fr = [int(x, 16) for x in out[ri][2:].split(',')]
    if fr[15] != end:
        return 'balanced nest ended at PC %x, expected %x' % (fr[15], end)
    for i in (3, 4, 5, 6, 7, 8, 9, 10, 12):
        if fr[i] != regs[i]:
            return 'after a balanced nest register %d is %x, was %x' % (i, fr[i], regs[i])
    return None


PROPS['C06'] = {'gen': gen_c06, 'monitors': [mon_c06]}
# ----------------------------------------------------------------------------- C13

GATE = 0x750000
HPCB_ = 0x748000
HCODE_ = 0x705000
OLDPCB_ = 0x740000
ISTK_ = 0x741000
HANDLER = 0x704000
UNMAPPED = [0x300000, 0x20000, 0x200040, 0x400004, 0x500004, 0x602000, 0x800000, 0x1000000, 0xfffffffc, 0x4ffffc]
ROMADDR = [0x1000, 0x0, 0x1fffc, 0x8000]


def exc_setup(r, handler_code=None):
    hpsw = r.choice([0x0281e100, 0x00000000, 0x003c1e00, 0x0001e000]) & 0xffffffff
    return [(0, be(GATE, 4)), (GATE + 40, be(hpsw, 4) + be(HANDLER, 4)), (HANDLER, (handler_code or []) + [0x30, 0x45, 0x70, 0x70])]


def gen_c13(tier, seed):
    g = G('s', seed)
    r = g.rnd
    n = 12 if tier == 'quick' else 300
    two = ['ADDW2', 'SUBW2', 'ANDW2', 'ORW2', 'XORW2', 'MULW2', 'DIVW2', 'MODW2', 'ADDH2', 'ADDB2', 'SUBH2', 'ANDB2', 'MOVW', 'MOVH', 'MOVB',
           'MCOMW', 'MNEGW', 'CMPW', 'BITW', 'CMPH']
    three = ['ADDW3', 'SUBW3', 'ANDW3', 'ORW3', 'XORW3', 'MULW3', 'DIVW3', 'MODW3', 'ADDH3', 'SUBB3', 'ALSW3', 'ARSW3', 'LLSW3', 'LRSW3', 'ROTW']
    one = ['CLRW', 'CLRH', 'CLRB', 'INCW', 'DECW', 'INCB', 'DECH', 'TSTW', 'TSTB', 'PUSHW', 'POPW', 'SWAPWI']

    def good_src():
        return r.choice([immw(r.choice(BVAL[4])), reg(r.randrange(9)), absa(DATA + 4 * r.randrange(8)), lit(r.randrange(64))])

    def good_dst():
        return r.choice([reg(r.randrange(9)), absa(DATA + 0x100 + 4 * r.randrange(8))])

    def bad(write):
        a = r.choice(UNMAPPED + (ROMADDR if write else []))
        c = r.random()
        if c < 0.5:
            return absa(a), {}
        if c < 0.75:
            rr = r.randrange(9)
            return regdef(rr), {rr: a}
        rr = r.randrange(9)
        return wdisp(rr, 0x10), {rr: (a - 0x10) & 0xffffffff}

    for name, arity in [(x, 2) for x in two] + [(x, 3) for x in three] + [(x, 1) for x in one]:
        for pos in range(arity):
            for _ in range(n):
                is_dst = (pos == arity - 1) and name not in ('CMPW', 'BITW', 'CMPH', 'TSTW', 'TSTB', 'PUSHW')
                regsx = {}
                opsx = []
                for k in range(arity):
                    if k == pos:
                        o, rx = bad(is_dst)
                        regsx.update(rx)
                        opsx.append(o)
                    elif k == 0 and name[:3] in ('DIV', 'MOD'):
                        opsx.append(immw(r.choice([1, 2, 3, 7, 0xffffffff, 0x10000])))   # a zero divisor is a different exception
                    elif k == arity - 1 and name not in ('CMPW', 'BITW', 'CMPH', 'TSTW', 'TSTB', 'PUSHW'):
                        opsx.append(good_dst())
                    else:
                        opsx.append(good_src())
                code = ins(OP[name], *opsx)
                fl = r.choice(allflags())
                psw = psw_of(fl, ipl=r.choice([0, 15, 15]), extra=r.choice([0, 0x800, 0x1800, 0x1000]))
                regs = rnd_regs(r, psw)
                regs.update(regsx)
                sp = r.choice([STK, STK + 0x100, 0x7ffff8 - 0x100, 0x700800]) + r.choice([0, 4])     # word aligned, 8-byte aligned or not
                regs[12] = sp
                hcode = r.choice([[], ins(OP['CMPW'], immw(1), immw(0)), ins(OP['MOVW'], immw(0xffffffff), reg(0)) + ins(OP['MOVW'], reg(0), reg(0))])
                if hcode and OP['MOVW'] == hcode[0]:
                    hcode = ins(OP['CMPW'], lit(1), lit(0))
                mem = exc_setup(r, hcode) + [(DATA, [r.randrange(256) for _ in range(0x140)])]
                nh = 1 if hcode else 0
                ops = setup_ops(regs, mem, code + [0x70] * 4) + ['k:3e8', 'sx', 'gr', 'rw:%x' % sp, 'rw:%x' % (sp + 4)] + ['sx'] * nh + ['sx', 'gr', 'X:%x' % nh]
                g.add(ops, 'fault-%s' % ('dst' if is_dst else 'src'))
    # divide overflow (most negative / -1) and remainder with a faulting destination: flags must not move
    for name, mn, neg1 in (('DIVW3', 0x80000000, 0xffffffff), ('DIVH3', 0x8000, 0xffff), ('DIVB3', 0x80, 0xff), ('MODW3', 0x80000000, 0xffffffff),
                           ('DIVW2', 0x80000000, 0xffffffff), ('DIVH2', 0x8000, 0xffff), ('MODH3', 0x8000, 0xffff)):
        for fl in allflags():
            for _ in range(1 if tier == 'quick' else 6):
                three_op = name.endswith('3')
                do, rx = bad(True)
                regs = rnd_regs(r, psw_of(fl, ipl=15))
                regs.update(rx)
                srcs = [r.choice([immw(neg1), lit(-1)]), immw(mn)] if three_op else [r.choice([immw(neg1), lit(-1)])]
                if not three_op:
                    # two-operand form: the destination is also the dividend; a faulting destination faults on the read already
                    continue
                sp = STK
                regs[12] = sp
                mem = exc_setup(r, []) + [(DATA, [r.randrange(256) for _ in range(0x140)])]
                ops = setup_ops(regs, mem, ins(OP[name], *(srcs + [do])) + [0x70] * 4) + ['k:3e8', 'sx', 'gr', 'rw:%x' % sp, 'rw:%x' % (sp + 4), 'sx', 'gr', 'X:0']
                g.add(ops, 'fault-div-overflow')
    # a return whose pop faults: the stack pointer sits at the bottom of RAM, the popped word would come from the hole below
    for code in ([0x78], [0x7c], [0x6c], [0x4c], [0x44], [0x40], [0x5c], [0x54], ins(OP['POPW'], reg(1)), [0x08]):
        for fl in allflags():
            regs = rnd_regs(r, psw_of(fl, ipl=15))
            regs[12] = 0x700000
            regs[9] = 0x700000
            mem = exc_setup(r, []) + [(DATA, [r.randrange(256) for _ in range(0x140)])]
            ops = setup_ops(regs, mem, code + [0x70] * 4) + ['k:3e8', 'sx', 'gr', 'rw:700000', 'rw:700004', 'sx', 'gr', 'X:9']
            g.add(ops, 'fault-in-pop')
        # ... or one or two words above it: an instruction that pops several words (RET, RESTORE, RETG) reads the first
        # ones and faults on a later one; whatever it read must not have been committed
        for sp in (0x700004, 0x700008, 0x70000c):
            for fp in (sp, 0x700004, 0x700018):
                regs = rnd_regs(r, psw_of(r.choice(allflags()), ipl=15))
                regs[12] = sp
                regs[9] = fp
                # the words at the bottom of RAM are what a pop that succeeds loads (a return address, FP, AP, saved registers):
                # all point into the NOP sled behind the instruction, so the step after a successful return is well defined
                mem = exc_setup(r, []) + [(DATA, [r.randrange(256) for _ in range(0x140)])] + [(0x700000, be(0x700110, 4) * 8)]
                ops = setup_ops(regs, mem, code + [0x70] * 0x20) + ['k:3e8', 'sx', 'gr', 'rw:%x' % sp, 'rw:%x' % (sp + 4), 'sx', 'gr', 'X:b']
                g.add(ops, 'fault-in-later-pop')
    # a zero divisor together with a faulting second source: the operands are read in order, the bus fault comes first
    for name in ('MODW3', 'MODH3', 'MODB3', 'DIVW3', 'DIVH3', 'DIVB3', 'MODW2', 'DIVW2'):
        for _ in range(3 if tier == 'quick' else 30):
            regs = rnd_regs(r, psw_of(r.choice(allflags()), ipl=15))
            ob, rx = bad(False)
            regs.update(rx)
            regs[12] = STK
            o = [r.choice([lit(0), immw(0)]), ob] + ([absa(DATA + 0x20)] if name.endswith('3') else [])
            mem = exc_setup(r, []) + [(DATA, [r.randrange(256) for _ in range(0x140)])]
            ops = setup_ops(regs, mem, ins(OP[name], *o) + [0x70] * 4) + ['k:3e8', 'sx', 'gr', 'rw:%x' % STK, 'rw:%x' % (STK + 4), 'sx', 'gr', 'X:0']
            g.add(ops, 'zero-divisor-and-fault')
    # an interrupt is accepted at the start of a step and the first instruction of its handler takes a bus fault in that
    # same step: the exception frame must name the handler's instruction (compared with the model)
    for _ in range(12 if tier == 'quick' else 200):
        regs = rnd_regs(r, psw_of(r.choice(allflags()), ipl=r.choice([0, 5, 13])))
        regs[13] = OLDPCB_; regs[14] = ISTK_; regs[12] = STK
        ob, rx = bad(r.random() < 0.5)
        hcode = r.choice([ins(OP['MOVW'], ob, reg(3)), ins(OP['TSTW'], ob), ins(OP['CLRW'], ob)])
        hregs = rx
        regs.update(hregs)
        pcb = be((15 << 13), 4) + be(HCODE_, 4) + be(0x760000, 4) + [0] * 80
        mem = exc_setup(r, []) + [(0x8c, be(HPCB_, 4) * 64), (HPCB_, pcb), (HCODE_, hcode + [0x30, 0xc8, 0x70, 0x70]),
                                  (OLDPCB_, [0] * 0x60), (ISTK_ - 8, [0] * 0x30)]
        ops = setup_ops(regs, mem, [0x70] * 8) + ['k:3e8', 'md:1', 'gi', 'sx', 'gr', 'rw:760000', 'rw:760004', 'sx', 'gr', 'sx', 'gr']
        g.add(ops, 'interrupt-then-fault')
    # STREND / MOVBLW running into a hole or into ROM: the fault must be taken (not swallowed) and the registers must be
    # what the model says they are at the fault (compared with the model; not judged by the monitor)
    for _ in range(40 if tier == 'quick' else 800):
        regs = rnd_regs(r, psw_of(r.choice(allflags()), ipl=15))
        which = r.choice(['strend-hole', 'strend-unterminated', 'movblw-src', 'movblw-dst-rom', 'movblw-dst-hole', 'movblw-later'])
        mem = exc_setup(r, [])
        if which == 'strend-hole':
            regs[0] = r.choice(UNMAPPED)
            code = [0x30, 0x1f]
        elif which == 'strend-unterminated':
            regs[0] = 0x601ff8
            mem.append((0x601ff8, [0x41] * 8))
            code = [0x30, 0x1f]
        else:
            code = [0x30, 0x19]
            regs[2] = r.choice([1, 2, 3, 5])
            regs[0], regs[1] = DATA, DATA + 0x100
            if which == 'movblw-src':
                regs[0] = r.choice(UNMAPPED)
            elif which == 'movblw-dst-rom':
                regs[1] = r.choice(ROMADDR)
            elif which == 'movblw-dst-hole':
                regs[1] = r.choice(UNMAPPED)
            else:
                regs[0] = 0x7ffff8          # two words, then the end of RAM
                regs[2] = 4
            mem.append((DATA, [r.randrange(256) for _ in range(0x40)]))
        regs[12] = STK
        ops = setup_ops(regs, mem, code + [0x70] * 4) + ['k:3e8', 'sx', 'gr', 'rw:%x' % STK, 'rw:%x' % (STK + 4), 'sx', 'gr']
        g.add(ops, which)
    return g.result('Every data-processing / move / stack instruction class (B/H/W forms) with each operand in turn pointing at unmapped space '
                    '(holes after every device, above RAM, top of the address space) or, for destinations, ROM, through absolute, register-deferred '
                    'and displacement modes; gate tables and a handler (optionally disturbing the flags) ending in RETG; stepped with Cpu::step '
                    'through the fault and the return; stack in several RAM positions (8-byte aligned or not), IPL and execution level varied; returns and pops '
                    'whose stack word lies in the hole below RAM; STREND / MOVBLW running into holes and ROM.')


def mon_c13(case, obs):
    toks = case.split()[1:]
    if not toks[-1].startswith('X:'):
        return None
    out, fin = monitors.split_obs(obs)
    regs = {}
    mem = {}
    for t in toks:
        f = t.split(':')
        if f[0] == 'r':
            regs[int(f[1], 16)] = int(f[2], 16)
        elif f[0] == 'ld':
            a = int(f[1], 16)
            for i, b in enumerate(bytes.fromhex(f[2])):
                mem[a + i] = b
    i1 = toks.index('sx')
    if any(o == 'p' for o in out):
        return 'host panic on a guest bus fault'
    if len(out) < len(toks):
        return None
    r1 = [int(x, 16) for x in out[i1 + 1][2:].split(',')]
    pc0, sp0, psw0 = regs[15], regs[12], regs[11]
    w0, w4 = out[i1 + 2], out[i1 + 3]
    if r1[15] != HANDLER and toks[-1] == 'X:b':
        return None      # fault-in-later-pop: the instruction pops fewer words than it would take to reach the hole
    if r1[15] != HANDLER:
        # the instruction did not fault (e.g. a source in a hole that the instruction does not read): nothing to judge
        if r1[15] != pc0 and r1[12] == sp0:
            return None
        return 'after the faulting step PC=%x SP=%x (handler %x, SP+8 %x)' % (r1[15], r1[12], HANDLER, sp0 + 8)
    if r1[12] != sp0 + 8:
        return 'exception entry moved SP from %x to %x' % (sp0, r1[12])
    if w0 != 'v%x' % pc0:
        return 'stacked PC is %s, faulting instruction at %x' % (w0, pc0)
    pushed = int(w4[1:], 16)
    NZVC_CM = 0x3c0000 | 0x1800
    if (pushed & NZVC_CM) != (psw0 & NZVC_CM):
        return 'stacked PSW %x does not carry the condition codes / level of the fault (%x)' % (pushed, psw0)
    for i in range(11):
        if r1[i] != regs[i]:
            return 'faulting instruction changed r%d from %x to %x' % (i, regs[i], r1[i])
    r2 = [int(x, 16) for x in out[-2][2:].split(',')]
    if r2[15] != pc0 or r2[12] != sp0:
        return 'RETG resumed at PC=%x SP=%x, fault was at PC=%x SP=%x' % (r2[15], r2[12], pc0, sp0)
    if (r2[11] & NZVC_CM) != (psw0 & NZVC_CM):
        return 'after RETG the condition codes / level are %x, at the fault %x' % (r2[11] & NZVC_CM, psw0 & NZVC_CM)
    for i in range(11):
        if r2[i] != regs[i]:
            return 'after RETG r%d is %x, was %x' % (i, r2[i], regs[i])
    return None


PROPS['C13'] = {'gen': gen_c13, 'monitors': [mon_c13]}
# ----------------------------------------------------------------------------- C07

HPCB = 0x748000      # handler control block
HCODE = 0x705000     # handler code
OLDPCB = 0x740000
ISTK = 0x741000


def gen_c07(tier, seed):
    g = G('t', seed)
    r = g.rnd
    n = 1 if tier == 'quick' else 20
    events = [[], ['md:0'], ['md:1'], ['md:2'], ['mu:0'], ['md:7'], ['wb:20002b:5', 'qb:41', 't:1e8480', 'sv'],
              ['wb:20000b:5', 'qa:42', 't:1e8480', 'sv'], ['t:fe5028'], ['wb:20000b:4'], ['md:0', 'wb:20002b:5', 'qb:31', 't:2dc6c0', 'sv'],
              ['md:1', 't:fe5028'],
              # both receivers ready at the same boundary, in either arrival order, with and without a mouse event
              ['wb:20000b:5', 'wb:20002b:5', 'qa:42', 'qb:41', 't:1e8480', 'sv'],
              ['wb:20000b:5', 'wb:20002b:5', 'qb:41', 't:1e8480', 'sv', 'qa:42', 't:3d0900', 'sv'],
              ['wb:20000b:5', 'wb:20002b:5', 'qa:42', 't:1e8480', 'sv', 'qb:41', 't:3d0900', 'sv', 'md:2'],
              # a request that was presented (latched by an interrupt poll at a masked boundary) and is then withdrawn by a
              # disable command before it can be delivered: only that source's request goes away
              ['wb:20000b:5', 'wb:20002b:5', 'qa:42', 'qb:41', 't:1e8480', 'sv', 'gi', 'wb:20000b:2'],
              ['wb:20000b:5', 'wb:20002b:5', 'qa:42', 'qb:41', 't:1e8480', 'sv', 'gi', 'wb:20002b:2'],
              ['wb:20000b:5', 'qa:42', 't:1e8480', 'sv', 'gi', 'wb:20000b:2'],
              ['wb:20002b:5', 'qb:41', 't:1e8480', 'sv', 'gi', 'wb:20002b:2'],
              ['wb:20000b:5', 'wb:20002b:5', 'qb:41', 't:1e8480', 'sv', 'gi', 'wb:20000b:2'],
              ['wb:20000b:4', 'gi', 'wb:20000b:8'], ['wb:20000b:4', 'md:1', 'gi', 'wb:20000b:8']]
    for ipl in range(16):
        for ev in events:
            for flags in (0, 0x100, 0x80, 0x180):           # handler PSW: none / R / I / R+I
                for _ in range(n):
                    fl = r.choice(allflags())
                    cm = r.choice([0, 0, 0, 1, 3])
                    # R may be left set by an earlier R handler; the PSW bits around the priority field (trace enable at 17,
                    # the cache / overflow-enable bits 22-25, exception type / ISC bits 0-6) must not influence delivery
                    other = r.choice([0, 0, 1 << 17, (1 << 17) | (1 << 25), (r.randrange(1 << 26) & 0x3c2007b)])
                    psw = psw_of(fl, ipl=ipl, extra=(cm << 11) | (cm << 9) | r.choice([0, 0, 0x100]) | other)
                    regs = rnd_regs(r, psw)
                    regs[13] = OLDPCB
                    regs[14] = ISTK + 4 * r.randrange(4)
                    regs[12] = r.choice([STK, STK + 0x40])
                    hpsw = (15 << 13) | flags | r.choice([0, 0x3c0000])
                    hsp = 0x760000
                    # a handler block with R: the block-move list at +64 is empty (count 0)
                    pcb = be(hpsw, 4) + be(HCODE, 4) + be(hsp, 4) + [0] * 52 + be(0, 4) + [0] * 16
                    # with I the initial context is skipped: a second copy of the block follows at +12 (not used by RETPS)
                    mem = [(0x8c, be(HPCB, 4) * 64), (HPCB, pcb), (HCODE, [0x30, 0xc8, 0x70, 0x70]),
                           (OLDPCB, [r.randrange(256) for _ in range(0x40)] + [0] * 0x20), (ISTK - 8, [r.randrange(256) for _ in range(0x30)])]
                    main = r.choice([[0x70], ins(OP['MOVW'], immw(r.randrange(1 << 32)), reg(3)), ins(OP['ADDW2'], lit(1), reg(4)), [0x7b, 0x02]])
                    ops = setup_ops(regs, mem, main + [0x70] * 6) + ['k:3e8'] + ev + ['gi', 'gr', 'st', 'gr', 'rw:%x' % OLDPCB, 'rw:%x' % (OLDPCB + 4),
                                                                              'rw:%x' % (OLDPCB + 8), 'rw:%x' % regs[14], 'st', 'gr', 'X:0']
                    g.add(ops, 'irq-ipl%d' % ipl)
    # handler control blocks with the R flag and a block-move list of 0-3 entries (count, destination, words ..., 0)
    for ipl in (0, 5, 13, 14):
        for nent in (0, 1, 2, 3):
            for flags in (0x100, 0x180):
                for _ in range(2 * n):
                    psw = psw_of(r.choice(allflags()), ipl=ipl, extra=r.choice([0, 0x100]))
                    regs = rnd_regs(r, psw)
                    regs[13] = OLDPCB
                    regs[14] = ISTK + 4 * r.randrange(4)
                    regs[12] = STK
                    hpsw = (15 << 13) | flags
                    lst = []
                    dests = []
                    for e in range(nent):
                        cnt = r.randrange(1, 5)
                        dst = DATA + 0x100 + 0x40 * e
                        dests.append((dst, cnt))
                        lst += be(cnt, 4) + be(dst, 4)
                        for _w in range(cnt):
                            lst += be(r.randrange(1 << 32), 4)
                    lst += be(0, 4)
                    pcb = be(hpsw, 4) + be(HCODE, 4) + be(0x760000, 4) + [0] * 52 + lst + [0] * 16
                    # the handler overwrites registers before it returns (an R block must bring r0-r8, FP, AP back)
                    hcode = []
                    nh = r.randrange(0, 5)
                    for _h in range(nh):
                        hcode += ins(OP['MOVW'], immw(r.randrange(1 << 32)), reg(r.choice([0, 1, 2, 3, 4, 5, 6, 7, 8, 9, 10])))
                    mem = [(0x8c, be(HPCB, 4) * 64), (HPCB, pcb), (HCODE, hcode + [0x30, 0xc8, 0x70, 0x70]),
                           (OLDPCB, [r.randrange(256) for _ in range(0x40)] + [0] * 0x20), (ISTK - 8, [r.randrange(256) for _ in range(0x30)])]
                    ops = setup_ops(regs, mem, [0x70] * 8) + ['k:3e8', 'md:1', 'gi', 'gr', 'st', 'gr'] + ['st', 'gr'] * nh
                    for dst, cnt in dests:
                        ops += ['rw:%x' % (dst + 4 * w) for w in range(cnt)]
                    ops += ['st', 'gr', 'X:2']
                    g.add(ops, 'irq-block-move-%d' % nent)
    # privileged instructions outside kernel level; CALLPS / RETPS pairs in kernel level
    for opc in (0x30ac, 0x30c8, 0x300d, 0x3013):
        for cm in range(4):
            for pm in range(4):
                for _ in range(3 * n):
                    psw = psw_of(r.choice(allflags()), ipl=r.randrange(16), extra=(cm << 11) | (pm << 9))
                    regs = rnd_regs(r, psw)
                    regs[0] = r.choice([HPCB, 0x700300])
                    regs[13] = OLDPCB
                    regs[14] = ISTK
                    pcb = be((15 << 13), 4) + be(HCODE, 4) + be(0x760000, 4) + [0] * 80
                    mem = [(HPCB, pcb), (HCODE, [0x30, 0xc8, 0x70]), (OLDPCB, be(psw & ~0x180, 4) + be(0x700200, 4) + be(STK, 4) + [0] * 64),
                           (ISTK - 4, be(OLDPCB, 4))]
                    g.add(setup_ops(regs, mem, [opc >> 8, opc & 0xff, 0x70, 0x70]) + ['k:3e8', 'gr', 'st', 'gr', 'st', 'gr', 'X:1'], 'priv-%x' % opc)
    return g.result('Every processor priority level 0-15 x interrupt source combinations raised through the DUART (mouse buttons, keyboard / RS-232 '
                    'receive, transmitter ready, vertical blank by time, none) x handler control blocks with and without the R and I flags x '
                    'kernel / non-kernel interrupted level x random registers; the handler returns at once with RETPS; plus CALLPS / RETPS / '
                    'ENBVJMP / DISVJMP at every current / previous level combination; interrupted PSWs with the bits around the priority field set; '
                    'handler blocks with block-move lists of 0-3 entries; both receivers pending at one boundary.')


def irq_level_doc(val):
    v = val & 63
    return 0 if v == 0 else (14 if v < 8 else 15)


def mon_c07(case, obs):
    toks = case.split()[1:]
    if not toks[-1].startswith('X:'):
        return None
    out, fin = monitors.split_obs(obs)
    if any(o == 'p' for o in out):
        return 'host panic'
    if len(out) < len(toks):
        return None
    regs = {}
    for t in toks:
        f = t.split(':')
        if f[0] == 'r':
            regs[int(f[1], 16)] = int(f[2], 16)
    grs = [i for i, t in enumerate(toks) if t == 'gr']
    parse = lambda o: [int(x, 16) for x in o[2:].split(',')]
    if toks[-1] == 'X:2':
        return None          # block-move lists: judged by the comparison with the model
    if toks[-1] == 'X:1':
        # privileged instruction: refused outside kernel level with no state change
        opc_tok = [t for t in toks if t.startswith('ld:%x:' % PC0)][0]
        psw = regs[11]
        cm = (psw >> 11) & 3
        st1 = out[grs[0] + 1]
        before, after = parse(out[grs[0]]), parse(out[grs[1]])
        if cm != 0:
            if st1 != 'xP':
                return 'privileged instruction at level %d returned %s' % (cm, st1)
            if before != after:
                return 'refused privileged instruction changed registers'
        elif st1 == 'xP':
            return 'privileged instruction refused at kernel level'
        return None
    gi = out[len(toks) - 1 - toks[::-1].index('gi')]      # the poll just before the step (earlier polls only latch requests)
    before, after = parse(out[grs[0]]), parse(out[grs[1]])
    ipl = (regs[11] >> 13) & 15
    cm = (regs[11] >> 11) & 3
    pending = gi != 'i-'
    level = irq_level_doc(int(gi[1:], 16)) if pending else 0
    st1 = out[grs[0] + 1]
    if pending and ipl < level:
        # delivered; the handler's RETPS runs in the same step (handler PSW is kernel level): transparent
        if st1 != 'ok':
            return 'interrupt delivery + RETPS returned %s' % st1
        for i in list(range(11)) + [12, 13, 14, 15]:
            if before[i] != after[i]:
                return 'after interrupt and RETPS register %d is %x, was %x (ipl %d, request %s)' % (i, after[i], before[i], ipl, gi)
        keep = 0x3c0000 | 0x1e000 | 0x1800
        if (before[11] & keep) != (after[11] & keep):
            return 'after interrupt and RETPS the PSW is %x, was %x' % (after[11], before[11])
    else:
        # not delivered: the interrupted program's own instruction ran; PCBP / ISP untouched
        if after[13] != before[13] or after[14] != before[14]:
            return 'no interrupt was due (ipl %d, request %s) but PCBP/ISP changed' % (ipl, gi)
        if after[15] == HCODE or after[15] == HCODE + 2:
            return 'interrupt delivered at ipl %d although the request %s has level %d' % (ipl, gi, level)
    return None


PROPS['C07'] = {'gen': gen_c07, 'monitors': [mon_c07]}
# ----------------------------------------------------------------------------- C18

def gen_c18(tier, seed):
    g = G('u', seed)
    r = g.rnd
    n = 6 if tier == 'quick' else 150
    blank = [(DATA, [0] * 0x200)]

    def pair(kind, codeA, codeB, regs, mem, stepsA=1, stepsB=1, pcA=PC0, pcB=PC0):
        base = blank + mem
        rb = ['rw:%x' % a for a in (DATA + 0xfc, DATA + 0x100, DATA + 0x104, DATA + 0x13c, DATA + 0x140, DATA + 0x144, DATA + 0xc0, DATA + 0x80)]
        ops = setup_ops(regs, base, codeA + [0x70] * 4, pcA) + ['st'] * stepsA + ['fs'] + rb
        ops += setup_ops(regs, base, codeB + [0x70] * 4, pcB) + ['st'] * stepsB + ['fs'] + rb + ['X:' + kind]
        g.add(ops, kind)

    def pick(sz):
        return r.choice(BVAL[sz]) if r.random() < 0.75 else r.randrange(1 << (8 * sz))

    for sfx, sz in SIZES.items():
        for base in ALU2:
            for _ in range(n):
                a, b = pick(sz), pick(sz)
                if base in ('DIV', 'MOD') and r.random() < 0.2:
                    a, b = (1 << (8 * sz)) - 1, 1 << (8 * sz - 1)
                s = r.choice(src_forms(r, sz, a, 0))
                d = r.choice(dst_forms(r, sz, b, 0))
                regs = rnd_regs(r, psw_of(r.choice(allflags())))
                regs.update(s[2]); regs.update(d[2])
                pair('same', ins(OP[base + sfx + '2'], s[1], d[1]), ins(OP[base + sfx + '3'], s[1], d[1], d[1]), regs, s[3] + d[3])
                if _ < 3 and base not in ('DIV', 'MOD'):
                    # an expanded type written on the destination of the two-operand form = on the second operand of the
                    # three-operand form, whose third operand inherits it
                    et = r.choice(list(ETYPE))
                    pair('same', ins(OP[base + sfx + '2'], s[1], ex(et, d[1])), ins(OP[base + sfx + '3'], s[1], ex(et, d[1]), d[1]), regs, s[3] + d[3])
                # unusual destinations: the PSW itself (the stored result and the condition codes land in the same register)
                # and an unwritable address (the write faults: neither form may have touched the condition codes)
                if _ < 2:
                    regs3 = rnd_regs(r, psw_of(r.choice(allflags())))
                    regs3.update(s[2])
                    for dd in (reg(11), absa(0x1000 + 4 * r.randrange(64)), absa(0x300000)):
                        pair('same', ins(OP[base + sfx + '2'], s[1], dd), ins(OP[base + sfx + '3'], s[1], dd, dd), regs3, s[3])
                # register operands vs memory operands holding the same values (result at operand size + flags)
                hi = 0 if sz == 4 else (r.randrange(1 << 32) & ~((1 << (8 * sz)) - 1))
                regs2 = rnd_regs(r, psw_of(r.choice(allflags())))
                regs2[0] = a | hi
                regs2[3] = b | (0 if sz == 4 else (r.randrange(1 << 32) & ~((1 << (8 * sz)) - 1)))
                memv = [(DATA + 0x40, be(a, sz)), (DATA + 0x80, be(b, sz))]

                def memform(addr, rb, slot):
                    # the memory operand through every addressing mode, negative displacements included
                    import asm as _asm
                    k = r.randrange(9)
                    ptr = DATA + 0x1c0 + 8 * slot
                    if k == 0:
                        return absa(addr), {}, []
                    if k == 1:
                        return regdef(rb), {rb: addr}, []
                    if k == 2:
                        return _asm.bdisp(rb, (-8) & 0xff), {rb: addr + 8}, []
                    if k == 3:
                        return _asm.hdisp(rb, (-0x200) & 0xffff), {rb: addr + 0x200}, []
                    if k == 4:
                        return wdisp(rb, (-0x12340) & 0xffffffff), {rb: addr + 0x12340}, []
                    if k == 5:
                        return bdispdef(rb, (-4) & 0xff), {rb: ptr + 4}, [(ptr, be(addr, 4))]
                    if k == 6:
                        return hdispdef(rb, (-0x200) & 0xffff), {rb: ptr + 0x200}, [(ptr, be(addr, 4))]
                    if k == 7:
                        return wdispdef(rb, (-0x8000) & 0xffffffff), {rb: ptr + 0x8000}, [(ptr, be(addr, 4))]
                    return absdef(ptr), {}, [(ptr, be(addr, 4))]
                ma, ra, xa = memform(DATA + 0x40, 6, 0)
                mb, rb_, xb = memform(DATA + 0x80, 7, 1)
                regs2.update(ra); regs2.update(rb_)
                pair('value:%d' % sz, ins(OP[base + sfx + '2'], reg(0), reg(3)),
                     ins(OP[base + sfx + '2'], ma, mb), regs2, memv + xa + xb, 1, 1)
        for _ in range(n * 3):
            v = pick(sz)
            d = r.choice(dst_forms(r, sz, v, 0))
            regs = rnd_regs(r, psw_of(r.choice(allflags())))
            regs.update(d[2])
            pair('same', ins(OP['INC' + sfx], d[1]), ins(OP['ADD' + sfx + '2'], lit(1), d[1]), regs, d[3])
            pair('same', ins(OP['DEC' + sfx], d[1]), ins(OP['SUB' + sfx + '2'], lit(1), d[1]), regs, d[3])
            pair('same', ins(OP['CLR' + sfx], d[1]), ins(OP['MOV' + sfx], lit(0), d[1]), regs, d[3])
            s = r.choice(src_forms(r, sz, v, 0))
            regs = rnd_regs(r, psw_of(r.choice(allflags())))
            regs.update(s[2])
            pair('same', ins(OP['TST' + sfx], s[1]), ins(OP['CMP' + sfx], lit(0), s[1]), regs, s[3])
            d2 = r.choice(dst_forms(r, sz, pick(sz), 1))
            regs = rnd_regs(r, psw_of(r.choice(allflags())))
            regs.update(s[2]); regs.update(d2[2])
            pair('same', ins(OP['MCOM' + sfx], s[1], d2[1]), ins(OP['XOR' + sfx + '3'], lit(-1), s[1], d2[1]), regs, s[3] + d2[3])
            s2 = r.choice(src_forms(r, sz, pick(sz), 1))
            regs = rnd_regs(r, psw_of(r.choice(allflags())))
            regs.update(s[2]); regs.update(s2[2]); regs[5] = r.randrange(1 << 32)
            pair('nz', ins(OP['BIT' + sfx], s[1], s2[1]), ins(OP['AND' + sfx + '3'], s[1], s2[1], reg(5)), regs, s[3] + s2[3])
    for cnt in range(64):
        for _ in range(2 if tier == 'quick' else 20):
            v = pick(4)
            cs = r.choice([lit(cnt) if cnt < 64 else immw(cnt), immw(cnt | (r.randrange(1 << 26) << 6)), reg(0)])
            s2 = r.choice(src_forms(r, 4, v, 1))
            d3 = r.choice(dst_forms(r, 4, pick(4), 1))
            regs = rnd_regs(r, psw_of(r.choice(allflags())))
            regs[0] = cnt | (r.randrange(1 << 26) << 6)
            regs.update(s2[2]); regs.update(d3[2])
            pair('same', ins(OP['ALSW3'], cs, s2[1], d3[1]), ins(OP['LLSW3'], cs, s2[1], d3[1]), regs, s2[3] + d3[3])
    # push then pop = move (registers and flags; the dead stack word is the only other difference)
    for _ in range(n * 6):
        v = pick(4)
        s = r.choice(src_forms(r, 4, v, 0))
        regs = rnd_regs(r, psw_of(r.choice(allflags())))
        regs.update(s[2])
        rd = r.choice([3, 4, 5, 6, 7, 8])
        pair('regs', ins(OP['PUSHW'], s[1]) + ins(OP['POPW'], reg(rd)), ins(OP['MOVW'], s[1], reg(rd)), regs, s[3], 2, 1)
    # the same instruction wherever it is placed and at whatever alignment
    for _ in range(n * 8):
        base = r.choice(ALU2 + ['MOV'])
        sfx = r.choice('WHB')
        sz = SIZES[sfx]
        s = r.choice(src_forms(r, sz, pick(sz), 0))
        d = r.choice(dst_forms(r, sz, pick(sz), 0))
        regs = rnd_regs(r, psw_of(r.choice(allflags())))
        regs.update(s[2]); regs.update(d[2])
        code = ins(OP[base + sfx + ('2' if base != 'MOV' else '')], s[1], d[1])
        pair('same', code, code, regs, s[3] + d[3], 1, 1, PC0, r.choice([PC0 + 1, PC0 + 2, PC0 + 3, 0x7c0001, 0x700000, 0x7ffe02]))
    return g.result('Both forms of every equivalent pair run from identical initial states in one case (memory and registers re-established in '
                    'between) and compared with each other and with the model: 2-operand vs 3-operand with the destination repeated (ADD SUB MUL '
                    'DIV MOD AND OR XOR x B/H/W, register / memory / immediate operands, boundary cross product incl. MIN/-1), register vs memory '
                    'operands holding the same values, INC/ADD 1, DEC/SUB 1, TST/CMP 0, CLR/MOV 0, MCOM/XOR -1, BIT/AND (N Z), ALSW3/LLSW3 for all '
                    'counts 0-63 and huge counts, PUSHW+POPW vs MOVW, and the same instruction at different addresses and alignments; all 16 '
                    'initial condition-code combinations sampled.')


def mon_c18(case, obs):
    toks = case.split()[1:]
    if not toks[-1].startswith('X:'):
        return None
    kind = toks[-1][2:]
    out, fin = monitors.split_obs(obs)
    if len(out) < len(toks):
        return 'a form crashed the host' if 'p' in out else None
    fs = [out[i] for i, t in enumerate(toks) if t == 'fs']
    sts = [out[i] for i, t in enumerate(toks) if t == 'st']
    if len(fs) != 2:
        return None
    fa, fb = monitors.final_fields_str(fs[0]), monitors.final_fields_str(fs[1])
    ra = [int(x, 16) for x in fa['R'].split(',')]
    rb = [int(x, 16) for x in fb['R'].split(',')]
    na = toks.index('fs')
    okA = all(o == 'ok' for o in sts[:toks[:na].count('st')])
    okB = all(o == 'ok' for o in sts[toks[:na].count('st'):])
    if okA != okB:
        return 'one form completed and the other did not: %s' % sts
    if not okA:
        if sts[toks[:na].count('st') - 1] != sts[-1]:
            return 'the two forms fail differently: %s' % sts
    NZVC = 0x3c0000
    if kind == 'same':
        if ra[:15] != rb[:15]:
            return 'registers differ between the two forms: %s vs %s' % (fa['R'], fb['R'])
        for k in ('nv', 'vid'):
            if fa[k] != fb[k]:
                return '%s differs between the two forms' % k
        ia = [i for i, t in enumerate(toks) if t == 'fs']
        da, db = out[ia[0] + 1: ia[0] + 9], out[ia[1] + 1: ia[1] + 9]
        if da != db:
            return 'data memory differs between the two forms: %s vs %s' % (da, db)
    elif kind == 'regs':
        if ra[:15] != rb[:15]:
            return 'registers differ between push+pop and move: %s vs %s' % (fa['R'], fb['R'])
    elif kind == 'nz':
        if (ra[11] & 0x300000) != (rb[11] & 0x300000):
            return 'BIT and AND set different N/Z: %x vs %x' % (ra[11], rb[11])
    elif kind.startswith('value'):
        if (ra[11] & NZVC) != (rb[11] & NZVC):
            return 'register and memory operand forms set different condition codes: %x vs %x' % (ra[11], rb[11])
        ia = [i for i, t in enumerate(toks) if t == 'fs']
        sz = int(kind.split(':')[1])
        vb = out[ia[1] + 8]
        if okA and vb.startswith('v') and (ra[3] & ((1 << (8 * sz)) - 1)) != (int(vb[1:], 16) >> (8 * (4 - sz))):
            return 'register and memory operand forms computed different results: r3=%x vs memory %s' % (ra[3], vb)
    return None


PROPS['C18'] = {'gen': gen_c18, 'monitors': [mon_c18]}
# ----------------------------------------------------------------------------- C12

HOSTILE_PTR = [0, 4, 0x80, 0x1fffc, 0x20000, 0x200000, 0x200003, 0x20000f, 0x20003c, 0x200040, 0x400000, 0x400002, 0x400004, 0x500000, 0x500002,
               0x600000, 0x601ffc, 0x602000, 0x6ffffc, 0x700000, 0x700001, 0x700002, 0x7ffffc, 0x7ffffe, 0x800000, 0x80000000, 0xfffffffc, 0xffffffff]


def gen_c12(tier, seed):
    g = G('w', seed)
    r = g.rnd
    n = 2500 if tier == 'quick' else 120000

    def hostile_regs():
        regs = {}
        for i in range(16):
            c = r.random()
            regs[i] = r.choice(HOSTILE_PTR) if c < 0.45 else (r.choice(BOUNDARY32) if c < 0.6 else r.randrange(1 << 32))
        return regs

    def duart_writes():
        ops = []
        for _ in range(r.randrange(0, 6)):
            ops.append('wb:%x:%x' % (0x200000 + r.choice([3, 7, 0xb, 0xf, 0x13, 0x17, 0x23, 0x27, 0x2b, 0x2f, 0x3b, 0x3f, r.randrange(64)]), r.randrange(256)))
        if r.random() < 0.3:
            ops += ['qa:%x' % r.randrange(256), 'qb:%x' % r.randrange(256)]
        if r.random() < 0.3:
            ops += ['md:%x' % r.randrange(256), 't:%x' % r.randrange(1 << 28)]
        return ops

    all_opcodes = sorted(set(OP.values()))
    for i in range(n):
        regs = hostile_regs()
        pc = r.choice([PC0, PC0 + 1, 0x7ffff0, 0x7ffffd, 0x1fff8, 0x601ff8, r.choice(HOSTILE_PTR)]) if r.random() < 0.8 else r.randrange(1 << 32)
        c = r.random()
        if c < 0.35:
            code = [r.randrange(256) for _ in range(40)]
            kind = 'random-bytes'
        elif c < 0.75:
            # a defined opcode with random descriptors (mostly decodable) and hostile operand addresses
            o = r.choice(all_opcodes)
            code = ([o] if o < 0x100 else [o >> 8, o & 0xff])
            for _ in range(4):
                code += r.choice([reg(r.randrange(15)), regdef(r.choice([0, 1, 2, 3, 9, 10, 12, 13, 14])), absa(r.choice(HOSTILE_PTR)), absdef(r.choice(HOSTILE_PTR)),
                                  wdisp(r.randrange(11), r.choice(HOSTILE_PTR)), bdispdef(r.randrange(11), r.randrange(256)), immw(r.choice(BOUNDARY32)),
                                  lit(r.randrange(-16, 64)), ex(r.choice(list(ETYPE)), reg(r.randrange(9))), [r.randrange(256)], hdisp(12, r.randrange(65536))])
            code += [r.randrange(256) for _ in range(8)]
            kind = 'opcode-hostile-operands'
        elif c < 0.9:
            # the looping / string / process-switch instructions with hostile r0-r2, PCBP, ISP
            o = r.choice([OP['MOVBLW'], OP['STREND'], OP['STRCPY'], OP['CALLPS'], OP['RETPS'], OP['RETG'], OP['GATE'], OP['INTACK'], OP['ENBVJMP'],
                          OP['SAVE'], OP['RESTORE'], OP['CALL'], OP['RET'], 0x00, 0x2e, 0x2f, 0x14])
            code = ([o] if o < 0x100 else [o >> 8, o & 0xff]) + reg(r.randrange(12)) + absa(r.choice(HOSTILE_PTR)) + [0x70] * 4
            regs[2] = r.choice([0, 1, 2, 0x40000, 0xffffffff, 0x3ffff])
            regs[11] = regs[11] & ~0x1800 if r.random() < 0.7 else regs[11]
            kind = 'loops-and-switches'
        else:
            # divide / modulo with every zero / minimum combination at all sizes and expanded types
            o = OP[r.choice(['DIV', 'MOD']) + r.choice('WHB') + r.choice('23')]
            a = r.choice([0, 1, 0xff, 0xffff, 0xffffffff, 0x100, 0x10000, 0x80, 0x8000, 0x80000000])
            b = r.choice([0, 0x80, 0x8000, 0x80000000, 0xff, 0xffff, 0xffffffff, 1])
            regs[0], regs[1] = a, b
            ops3 = [r.choice([reg(0), ex(r.choice(list(ETYPE)), reg(0)), immw(a)]), r.choice([reg(1), ex(r.choice(list(ETYPE)), reg(1))]), reg(2)]
            code = [o] + sum(ops3[:(3 if o >= 0xe0 else 2)], []) + [0x70] * 4
            kind = 'divide'
        pre = duart_writes()
        # Bus::load is a host-side set-up call (not part of the property): only load where the code fits in a memory device
        ops = []
        room = 0
        for lo, hi in ((0, 0x20000), (0x600000, 0x602000), (0x700000, 0x800000)):
            if lo <= pc < hi:
                room = hi - pc
        if room > 0:
            ops.append('ld:%x:%s' % (pc, hexs(code[:room])))
        for i2 in sorted(regs):
            ops.append('r:%x:%x' % (i2, regs[i2]))
        ops.append('r:f:%x' % pc)
        ops += pre + ['k:%x' % r.choice([0, 1000, 1000000, 20000000]), 'st', 'st']
        g.add(ops, kind)
    # every divide / modulo opcode x divisor x dividend corner value (systematic, not sampled)
    for name in ['DIV', 'MOD']:
        for sfx in 'WHB':
            for form in '23':
                for a in (0, 1, 0xff, 0xffff, 0xffffffff, 0x100, 0x10000, 0x80, 0x8000, 0x80000000):
                    for b in (0, 0x80, 0x8000, 0x80000000, 0xff, 0xffff, 0xffffffff, 1):
                        o = OP[name + sfx + form]
                        regs = hostile_regs()
                        regs[0], regs[1] = a, b
                        code = [o] + reg(0) + reg(1) + (reg(2) if form == '3' else []) + [0x70] * 4
                        ops = ['ld:%x:%s' % (PC0, hexs(code))] + ['r:%x:%x' % (i2, regs[i2]) for i2 in sorted(regs)] + ['r:f:%x' % PC0, 'st']
                        g.add(ops, 'divide-systematic')
    # chains of expanded-type prefixes of every kind and length (instruction buffer overrun)
    for pfx in range(0xe0, 0xf0):
        for nrep in (1, 2, 3, 8, 24, 29, 30, 31, 32, 33, 40, 64):
            code = [0x84] + [pfx] * nrep + [0x40, 0x41] + [0x70] * 4
            regs = hostile_regs()
            ops = ['ld:%x:%s' % (PC0, hexs(code))] + ['r:%x:%x' % (i2, regs[i2]) for i2 in sorted(regs)] + ['r:f:%x' % PC0, 'dc', 'st']
            g.add(ops, 'prefix-chain')
    # every opcode with every register descriptor (quick: %r0-%r15 / immediate 0x4f; thorough: all 256 descriptor bytes)
    # as its first operand, with sane pointers elsewhere: register-number-dependent loops and table indexing
    descs = list(range(0x40, 0x50)) if tier == 'quick' else list(range(256))
    sane = {i: 0x710000 + 0x100 * i for i in range(16)}
    sane[11] = 0x2800100; sane[12] = 0x730000; sane[13] = 0x740000; sane[14] = 0x741000; sane[9] = 0x730400; sane[10] = 0x730800
    for o in all_opcodes:
        for dsc in descs:
            code = ([o] if o < 0x100 else [o >> 8, o & 0xff]) + [dsc] + [0x41, 0x42, 0x43] + [0x70] * 6
            ops = ['ld:%x:%s' % (PC0, hexs(code))] + ['r:%x:%x' % (i2, sane[i2]) for i2 in sorted(sane)] + ['r:f:%x' % PC0, 'st']
            g.add(ops, 'opcode-x-descriptor')
    # DUART register access histories: every register address read / written several times in a row (pointer-driven
    # registers such as MR1/MR2 advance on each access), then random mixed histories
    for a in range(0x200000, 0x200040):
        for pat in ('rrrr', 'wwww', 'rwrw', 'wrrr'):
            ops = []
            for ch in pat:
                ops.append('rb:%x' % a if ch == 'r' else 'wb:%x:%x' % (a, r.randrange(256)))
            g.add(ops + ['ds'], 'duart-register-history')
    for i in range(200 if tier == 'quick' else 20000):
        ops = []
        for _ in range(r.randrange(8, 40)):
            a = 0x200000 + (r.choice([3, 7, 0xb, 0xf, 0x13, 0x17, 0x1b, 0x1f, 0x23, 0x27, 0x2b, 0x2f, 0x33, 0x37, 0x3b, 0x3f]) if r.random() < 0.8 else r.randrange(64))
            c = r.random()
            if c < 0.5:
                ops.append(r.choice(['rb', 'rb', 'rb', 'rh', 'rw', 'oh', 'ow']) + ':%x' % a)
            elif c < 0.85:
                ops.append(r.choice(['wb', 'wb', 'wb', 'wh', 'ww']) + ':%x:%x' % (a, r.randrange(256)))
            else:
                ops.append(r.choice(['qa:%x' % r.randrange(256), 'qb:%x' % r.randrange(256), 't:%x' % r.randrange(1 << 30), 'sv', 'gi', 'md:1', 'mu:1']))
        g.add(ops + ['ds'], 'duart-register-history')
    # the longest legal encodings (four operands of six bytes: prefix, descriptor, four constant bytes) and one byte more
    for o in (0xc8, 0xca, 0xcb, 0xcc, 0xce, 0xcf):
        for nops in (4, 5):
            for _ in range(2 if tier == 'quick' else 40):
                code = [o]
                for _k in range(nops):
                    code += [0xe0 | r.choice([0, 2, 3, 4, 6, 7]), r.choice([0x4f, 0x7f, 0xef, 0x80 | r.randrange(11), 0x90 | r.randrange(11)])] + [r.randrange(256) for _b in range(4)]
                regs = hostile_regs()
                ops = ['ld:%x:%s' % (PC0, hexs(code + [0x70] * 4))] + ['r:%x:%x' % (i2, regs[i2]) for i2 in sorted(regs)] + ['r:f:%x' % PC0, 'dc', 'st']
                g.add(ops, 'longest-encoding')
    # structured DUART receive / transmit histories (the C08 / C09 generators: bursts of arrivals, paced service, gated
    # reads, fill levels up to FIFO + holding register + overrun, resets): none may panic
    import cases as _cases
    for flav, cnt in (('c08', 400 if tier == 'quick' else 20000), ('c09', 200 if tier == 'quick' else 10000)):
        sub = _cases.gen_duart('zz', tier, seed + 31, cnt, cnt, flav)
        for c in sub.cases:
            g.add(c.split()[1:], 'duart-%s-history' % flav)
    # host-side bus reads at any address and width, and host input calls with any argument
    for i in range(300 if tier == 'quick' else 20000):
        ops = []
        for _ in range(12):
            a = r.choice(HOSTILE_PTR) + r.randrange(-4, 5) if r.random() < 0.7 else r.randrange(1 << 34)
            a = max(0, a)
            ops.append(r.choice(['db', 'dw', 'rb', 'rh', 'rw', 'oh', 'ow']) + ':%x' % a)
            if r.random() < 0.3:
                ops.append(r.choice(['wb', 'wh', 'ww']) + ':%x:%x' % (a, r.randrange(1 << 32)))
        ops += ['mm:%x:%x' % (r.randrange(65536), r.randrange(65536)), 'md:%x' % r.randrange(256), 'mu:%x' % r.randrange(256), 'qa:%x' % r.randrange(256),
                'qb:%x' % r.randrange(256), 'ns:%x:%x' % (r.randrange(1 << 32), r.choice([0, 1, 8191, 8192, 8193, 20000])), 'ng', 'vr', 'vd', 'pa', 'pb',
                'g1:%x' % r.randrange(256), 'wh:500000:%x' % r.choice([0, 0xffff, 0xf9c0, 0xf9c1, 0x8000]), 'vr', 'rs:%x' % r.randrange(256), 'gp']
        g.add(ops, 'host-api')
    return g.result('Hostile single steps through Cpu::step_with_error under catch_unwind: random byte strings as code; every defined opcode with '
                    'random descriptors and operands pointing at device, unmapped, edge-of-device and unaligned addresses; looping / string / '
                    'process-switch instructions with hostile r0-r2, PCBP, ISP; divide / modulo with every zero / minimum combination and '
                    'expanded types; arbitrary register files (pointers into every device and hole); code placed at RAM / ROM / NVRAM edges; '
                    'random DUART register writes and host events before the step.  Host API: bus reads and writes of every width at and around '
                    'every device boundary and above 2^32, Dmd::read_*, mouse / keyboard / RS-232 / NVRAM (0..20000 bytes) / video / reset calls '
                    'with arbitrary arguments.')


def mon_c12(case, obs):
    out, fin = monitors.split_obs(obs)
    toks = case.split()[1:]
    for i, o in enumerate(out):
        if o == 'p':
            return 'host panic at op %d (%s)' % (i, toks[i] if i < len(toks) else '?')
        if o == 'FUEL':
            return 'instruction did not terminate at op %d' % i
    return None


PROPS['C12'] = {'gen': gen_c12, 'monitors': [mon_c12]}
PROPS['C05'] = {'gen': gen_c05, 'monitors': [mon_c05]}
PROPS['C02'] = {'gen': gen_c02, 'monitors': []}
PROPS['C03'] = {'gen': gen_c03, 'monitors': []}
PROPS['C04'] = {'gen': gen_c04, 'monitors': [mon_c04]}
