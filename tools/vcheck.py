#!/usr/bin/env python3
"""bin/check <ID> quick|thorough   |   bin/check <ID> --replay <file>

One run = regenerate Gen/ from /repo, rebuild harness + model + driver, build the
property's theorems (Print Assumptions must be closed), run the property's
correspondence slice on implementation and model, judge differences, write
evidence.  Exit 0: held on everything explored.  Exit 1: VIOLATION line(s).
Exit 2: the machinery itself failed (not a verdict).
"""
import fcntl
import hashlib
import json
import glob
import os
import re
import subprocess
import sys
import time

V = '/verif'
sys.path.insert(0, os.path.join(V, 'tools'))
import cases as casegen  # noqa: E402
import monitors  # noqa: E402

BUILD = os.path.join(V, 'build')
HARNESS = os.path.join(BUILD, 'cargo/release/dmd_verif_harness')
DRIVER = os.path.join(BUILD, 'ocaml/driver')
NPROC = 16

TRUSTED = [
    'Coq 8.16.1 kernel (coqc); vm_compute inside proofs over finite tables; no native_compute',
    'axioms: none (Print Assumptions of every property theorem must say "Closed under the global context")',
    'tools/gen.py: translator of constants, opcode tables, dispatch arm patterns, branch conditions, get_device ranges, C wrapper shapes, ROM arrays',
    'extraction: Require Extraction + ExtrOcamlBasic only (no Extract Constant / Extract Inductive of our own); OCaml 4.13.1; ocaml/driver.ml (token parser / printer)',
    'harness/src/main.rs (executor for the implementation, catch_unwind), cfg(dmd_core_verif) hooks in /repo (virtual clock, read-only snapshots)',
    'tools/cases.py generators and tools/monitors.py (used only to search for failing inputs and to validate the model against the code)',
    'modelled, not verified: Rust semantics of casts/wrapping/VecDeque/Vec indexing, std::sync::Mutex, std::time::Instant in the unguarded build',
]


class Machinery(Exception):
    pass


def sh(cmd, timeout=3600, cwd=None, env=None):
    e = dict(os.environ)
    e['CARGO_NET_OFFLINE'] = 'true'
    if env:
        e.update(env)
    p = subprocess.run(cmd, shell=True, cwd=cwd, env=e, stdout=subprocess.PIPE, stderr=subprocess.STDOUT,
                       timeout=timeout, text=True, errors='replace')
    return p.returncode, p.stdout


class Lock:
    def __enter__(self):
        os.makedirs(BUILD, exist_ok=True)
        self.f = open(os.path.join(BUILD, '.lock'), 'w')
        fcntl.flock(self.f, fcntl.LOCK_EX)
        return self

    def __exit__(self, *a):
        fcntl.flock(self.f, fcntl.LOCK_UN)
        self.f.close()


# ----------------------------------------------------------------- builds

def build_all(pid, log):
    """returns dict: gen_ok, gen_msg, harness_ok, model_ok, proof_ok, proof_out"""
    st = {}
    with Lock():
        rc, out = sh('python3 %s/tools/gen.py' % V)
        st['gen_ok'] = (rc == 0)
        st['gen_msg'] = out.strip()
        log.append('gen: ' + out.strip())
        rc, out = sh('RUSTFLAGS="--cfg dmd_core_verif" cargo build --release --offline --target-dir %s/cargo 2>&1 | tail -30' % BUILD,
                     cwd=os.path.join(V, 'harness'))
        st['harness_ok'] = os.path.exists(HARNESS) and ('error' not in out.lower() or 'Finished' in out)
        if 'Finished' not in out:
            st['harness_ok'] = False
        st['harness_msg'] = out[-2000:]
        if not st['gen_ok']:
            st['model_ok'] = os.path.exists(DRIVER)
            st['proof_ok'] = False
            st['proof_out'] = 'translator failed: ' + st['gen_msg']
            return st
        rc, out = sh('%s/bin/build-model 2>&1 | tail -40' % V, timeout=3000)
        st['model_ok'] = (rc == 0 and os.path.exists(DRIVER))
        st['model_msg'] = out[-3000:]
        # property theorems
        pf = 'Props/%s.vo' % pid
        sh('rm -f %s/coq/%s' % (V, pf))
        rc, out = sh('timeout 3000 make -j%d %s 2>&1' % (NPROC, pf), cwd=os.path.join(V, 'coq'), timeout=3100)
        st['proof_ok'] = (rc == 0)
        st['proof_out'] = out
    return st


def check_assumptions(pid, proof_out):
    """returns (theorem names, list of problems)"""
    src = open(os.path.join(V, 'coq/Props/%s.v' % pid)).read()
    thms = re.findall(r'^Theorem\s+(\w+)', src, re.M)
    prints = re.findall(r'^Print Assumptions\s+(\w+)\.', src, re.M)
    problems = []
    for t in thms:
        if t not in prints:
            problems.append('theorem %s has no Print Assumptions' % t)
    closed = len(re.findall(r'Closed under the global context', proof_out))
    if closed != len(prints):
        problems.append('Print Assumptions: %d of %d closed; output: %s' % (closed, len(prints), proof_out[-800:]))
    # hygiene: no Admitted/admit/Axiom/Parameter anywhere in the development
    rc, out = sh(r"grep -rnE '\b(Admitted|admit|Axiom|Parameter|Conjecture|Hypothesis|Variable)\b|Unset Guard|bypass_check|type-in-type' "
                 r"--include=*.v %s/coq | grep -vE '^\S+:[0-9]+:\s*\(\*' || true" % V)
    for line in out.splitlines():
        # Variables / Hypotheses are allowed inside Sections only; check crudely that the file has a Section
        m = re.match(r'^(\S+?):(\d+):(.*)$', line)
        if not m:
            continue
        f, ln, txt = m.groups()
        if re.search(r'\b(Variable|Hypothesis)\b', txt) and not re.search(r'\b(Admitted|admit|Axiom|Parameter|Conjecture)\b', txt):
            body = open(f).read()
            upto = '\n'.join(body.split('\n')[:int(ln)])
            if upto.count('Section ') > len(re.findall(r'^End ', upto, re.M)):
                continue
        problems.append('forbidden declaration: ' + line.strip())
    return thms, problems


def run_coqchk(pid):
    """thorough tier: re-check the compiled property file and everything it depends on with the independent checker;
    returns (summary line, list of problems)"""
    rc, out = sh('cd %s/coq && timeout 3000 coqchk -o -silent -Q . Dmd Dmd.Props.%s 2>&1' % (V, pid))
    problems = []
    m = re.search(r'\* Axioms:\s*(.*?)\n\s*\n', out, re.S)
    ax = m.group(1).strip() if m else None
    if rc != 0 or ax is None:
        problems.append('coqchk did not complete: ' + out[-600:])
        return 'coqchk failed', problems
    if ax != '<none>':
        problems.append('coqchk reports axioms: ' + ax[:600])
    for key in ('type-in-type', 'unsafe (co)fixpoints', 'positivity is assumed'):
        mm = re.search(r'%s:\s*(.*?)\n' % re.escape(key), out)
        if mm and mm.group(1).strip() != '<none>':
            problems.append('coqchk: %s: %s' % (key, mm.group(1).strip()[:200]))
    return 'coqchk -o Dmd.Props.%s: axioms %s' % (pid, ax), problems


# ----------------------------------------------------------------- running cases

HUNG = []     # ids of cases the implementation never came back from

def run_cases(case_lines, tag):
    """run all cases on implementation and model (sharded); returns (impl_lines, model_lines) dicts by id"""
    tmp = os.path.join(BUILD, 'run', tag)
    sh('rm -rf %s && mkdir -p %s' % (tmp, tmp))
    # few cases can still be slow ones (resets, boots): spread them over all cores
    n = max(1, min(NPROC, len(case_lines) // 4 + 1))
    shards = [[] for _ in range(n)]
    for i, l in enumerate(case_lines):
        shards[i % n].append(l)
    procs = []
    for i, sl in enumerate(shards):
        cf = os.path.join(tmp, 'c%d' % i)
        with open(cf, 'w') as f:
            f.write('\n'.join(sl) + '\n')
        p1 = subprocess.Popen([HARNESS, cf, cf + '.impl'], stdout=subprocess.PIPE, stderr=subprocess.STDOUT)
        p2 = subprocess.Popen('ulimit -s unlimited 2>/dev/null; exec %s %s %s.model %s/rom' % (DRIVER, cf, cf, BUILD),
                              shell=True, stdout=subprocess.PIPE, stderr=subprocess.STDOUT)
        procs.append((cf, p1, p2))
    impl, model = {}, {}
    deadline = time.time() + (600 if 'thorough' not in tag else 14400)
    for cf, p1, p2 in procs:
        try:
            o1, _ = p1.communicate(timeout=max(5, deadline - time.time()))
        except subprocess.TimeoutExpired:
            # the implementation did not come back from a case (a call that never returns): the case is the first one
            # of the shard without an output line; it is reported as a hang, the rest of the shard is not run
            p1.kill()
            p1.communicate()
            done = set()
            if os.path.exists(cf + '.impl'):
                done = set(l.split(' ', 1)[0] for l in open(cf + '.impl') if l.strip())
            hung = None
            with open(cf + '.impl', 'a') as f:
                for l in open(cf):
                    k = l.split(' ', 1)[0]
                    if l.strip() and k not in done:
                        if hung is None:
                            hung = k
                            f.write('%s HANG\n' % k)
                        else:
                            f.write('%s NOTRUN\n' % k)
            HUNG.append(hung)
            o1 = b''
            p1.returncode = 0
        o2, _ = p2.communicate()
        if p1.returncode != 0:
            raise Machinery('harness failed on %s: %s' % (cf, o1.decode(errors='replace')[-500:]))
        if p2.returncode != 0:
            raise Machinery('model driver failed on %s: %s' % (cf, o2.decode(errors='replace')[-500:]))
        for path, d in ((cf + '.impl', impl), (cf + '.model', model)):
            for line in open(path):
                line = line.rstrip('\n')
                if not line:
                    continue
                k, _, rest = line.partition(' ')
                d[k] = rest
    return impl, model


def write_replay(pid, n, rec):
    os.makedirs(os.path.join(V, 'replays'), exist_ok=True)
    path = os.path.join(V, 'replays', '%s-%d.json' % (pid, n))
    rec = dict(rec)
    rec['property'] = pid
    rec['replay_cmd'] = 'bin/check %s --replay %s' % (pid, path)
    with open(path, 'w') as f:
        json.dump(rec, f, indent=1)
    return path


def known_findings():
    res = []
    p = os.path.join(V, 'known_findings.txt')
    if os.path.exists(p):
        for line in open(p):
            m = re.match(r'^finding:\s+property=(\w+)\s+key=(\S+)\s+(.*)$', line.strip())
            if m:
                res.append(m.groups())
    return res


def main():
    if len(sys.argv) < 3:
        print(__doc__)
        sys.exit(2)
    pid = sys.argv[1]
    t0 = time.time()
    if sys.argv[2] == '--replay':
        return replay(pid, sys.argv[3])
    tier = sys.argv[2]
    if tier not in ('quick', 'thorough'):
        tier = os.environ.get('VERIF_TIER', 'quick')
    seed = int(os.environ.get('VERIF_SEED', '1') or '1')
    spec = casegen.PROPS[pid]
    # replay files of earlier runs of this property are stale
    for f in glob.glob(os.path.join(V, 'replays', '%s-*.json' % pid)):
        os.remove(f)
    log = []
    violations = []   # (kind, replay path, tail)
    known_hit = []
    nrep = [0]

    def violate(rec, found):
        # known findings are matched by their key (a substring of the case line)
        case = rec.get('case', '')
        for (kp, key, what) in known_findings():
            if kp == pid and key in case:
                known_hit.append((kp, what))
                return
        nrep[0] += 1
        path = write_replay(pid, nrep[0], rec)
        violations.append((path, found))

    st = build_all(pid, log)
    if not st['harness_ok']:
        # the code does not build with the hooks: nothing can be checked
        print('MACHINERY: harness build failed\n' + st.get('harness_msg', ''))
        sys.exit(2)
    if st.get('gen_ok') and not st['model_ok']:
        print('MACHINERY: model build failed\n' + st.get('model_msg', ''))
        sys.exit(2)

    thms, problems = [], []
    chk_note = ''
    if os.path.exists(os.path.join(V, 'coq/Props/%s.v' % pid)):
        thms, problems = check_assumptions(pid, st['proof_out'] if st['proof_ok'] else '')
        if tier == 'thorough' and st['proof_ok']:
            chk_note, p2 = run_coqchk(pid)
            problems += p2
    proof_broken = None
    if not st['gen_ok']:
        proof_broken = 'translator (tools/gen.py) could not read the source: ' + st['gen_msg']
    elif not st['proof_ok']:
        m = re.search(r'File "([^"]+)", line (\d+)[^\n]*\n(.*)', st['proof_out'], re.S)
        proof_broken = 'proof obligation no longer checks: ' + (st['proof_out'][-1500:] if not m else
                                                                 '%s line %s: %s' % (m.group(1), m.group(2), m.group(3)[:1200]))
    elif problems:
        proof_broken = '; '.join(problems)

    # ---- correspondence slice
    gen = spec['gen'](tier, seed)
    case_lines = gen['cases']
    corpus = casegen.corpus_cases(pid)
    all_lines = corpus + case_lines
    ids = [l.split(' ', 1)[0] for l in all_lines]
    if len(set(ids)) != len(ids):
        raise Machinery('duplicate case ids')
    byid = {l.split(' ', 1)[0]: l for l in all_lines}
    impl, model = run_cases(all_lines, '%s-%s' % (pid, tier))
    diffs = []
    for k in ids:
        if k not in impl or k not in model:
            raise Machinery('case %s missing from an output' % k)
        if impl[k] == 'NOTRUN':
            continue          # behind a hung case in its shard
        if impl[k] == 'HANG':
            diffs.append(k)   # a call that never returned
            continue
        if byid[k].split(' ', 2)[1:2] in (['T'], ['S']):
            continue          # concurrent C-API runs: judged by the linearisation monitor, not replayed on the model
        if impl[k] != model[k]:
            diffs.append(k)
    # property monitors judge the implementation's own observations (independent of the model)
    mon_fail = []
    mon_count = 0
    for mon in spec.get('monitors', []):
        for k in ids:
            if impl[k] in ('HANG', 'NOTRUN'):
                continue
            r = mon(byid[k], impl[k])
            mon_count += 1
            if r:
                mon_fail.append((k, r))
    proj = spec.get('project', lambda case, obs: obs)
    reported = set()
    for k, why in mon_fail[:5]:
        reported.add(k)
        violate({'kind': 'impl-violates-spec', 'monitor': why, 'case': byid[k], 'observed': impl[k],
                 'model': model.get(k)}, True)
    corr_only = []
    for k in diffs:
        if k in reported:
            continue
        if proj(byid[k], impl[k]) != proj(byid[k], model[k]):
            if len(reported) < 5:
                reported.add(k)
                violate({'kind': 'impl-differs-from-proved-model',
                         'explanation': spec.get('why_projection', 'the compared observables are determined by the property; the model is proved to produce the value the property prescribes'),
                         'case': byid[k], 'observed': impl[k], 'expected': model[k]}, True)
        else:
            corr_only.append(k)
    if corr_only and not reported:
        k = corr_only[0]
        violate({'kind': 'correspondence-broken', 'slice': pid,
                 'explanation': 'implementation and model differ outside the observables the property determines; the property is no longer shown to hold for this code',
                 'case': byid[k], 'observed': impl[k], 'model': model[k], 'n_differing_cases': len(corr_only)}, False)
    if proof_broken and not reported:
        # a proof broke and no disagreeing input was found in the slice: report without a failing input
        violate({'kind': 'proof-broken', 'theorem': proof_broken, 'case': ''}, False)
    elif proof_broken:
        log.append('proof also broken: ' + proof_broken[:300])

    # ---- evidence
    nontriv = set()
    for k in ids:
        o = model[k]
        toks = o.split(' | ')[0].split()
        if any(t not in ('-', 'ok') and not t.startswith('e') for t in toks) or ' | ' in o:
            nontriv.add(byid[k].split(' ', 1)[1] if ' ' in byid[k] else '')
    wall = time.time() - t0
    ev = {
        'property_id': pid, 'tier': tier, 'seed': seed,
        'level': spec.get('level', 'proof'),
        'coverage': {
            'obligations': max(1, len(thms)),
            'discharged': len(thms) if (st['proof_ok'] and not problems and thms) else 0,
            'theorems': thms,
            'checker_cmd': 'cd /verif/coq && make Props/%s.vo   (coqc 8.16.1; Print Assumptions under every theorem)' % pid + ('; ' + chk_note if chk_note else ''),
            'trusted_base': TRUSTED,
            'evaluations': len(ids),
            'distinct_nontrivial': len(nontriv),
            'rule': gen.get('rule', '') + ' A case counts as non-trivial when the model run reaches its end state and at least one operation returns something other than "-"/"ok"/an error; distinct = distinct operation lists.',
            'samples': [byid[k] for k in ids[:3]] + [byid[k] for k in ids[len(ids) // 2: len(ids) // 2 + 2]],
            'input_distribution': gen.get('dist', {}),
            'disagreements_checked': len(diffs),
            'monitor_evaluations': mon_count,
            'corpus_cases': len(corpus),
            'explanation': spec.get('explanation', ''),
        },
        'assumptions': spec.get('assumptions', []),
        'wall_s': round(wall, 2),
        'violations': len(violations),
    }
    if ev['level'] == 'proof' and ev['coverage']['discharged'] == 0:
        ev['coverage']['discharged'] = 0
    os.makedirs(os.path.join(V, 'evidence'), exist_ok=True)
    with open(os.path.join(V, 'evidence', '%s.json' % pid), 'w') as f:
        json.dump(ev, f, indent=1)

    for (kp, what) in sorted(set(known_hit)):
        print('KNOWN-FINDING: property=%s %s' % (kp, what))
    if violations:
        for path, found in violations:
            print('VIOLATION property=%s replay=%s%s' % (pid, path, '' if found else ' no-failing-input-found'))
        sys.exit(1)
    print('OK property=%s tier=%s theorems=%d cases=%d diffs=0 wall=%.1fs' % (pid, tier, len(thms), len(ids), wall))
    sys.exit(0)


def replay(pid, path):
    rec = json.load(open(path))
    case = rec.get('case', '')
    log = []
    st = build_all(pid, log)
    if not case:
        print('replay: no input recorded; theorem/correspondence that failed: %s' % rec.get('theorem', rec.get('slice')))
        print('proof builds now: %s' % st.get('proof_ok'))
        sys.exit(0 if st.get('proof_ok') else 1)
    impl, model = run_cases([case], '%s-replay' % pid)
    k = case.split(' ', 1)[0]
    print('case     : ' + case)
    print('impl     : ' + impl.get(k, '?'))
    print('model    : ' + model.get(k, '?'))
    same = impl.get(k) == model.get(k)
    bad = False
    for mon in casegen.PROPS[pid].get('monitors', []):
        r = mon(case, impl[k])
        if r:
            print('monitor  : ' + r)
            bad = True
    print('verdict  : ' + ('agree' if same and not bad else 'DIFFER'))
    sys.exit(0 if same and not bad else 1)


if __name__ == '__main__':
    try:
        main()
    except Machinery as e:
        print('MACHINERY: %s' % e)
        sys.exit(2)
