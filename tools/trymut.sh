#!/bin/sh
# trymut.sh <patch> <ID>... : apply a seeded change to /repo, run the quick checks, undo it
patch=$1; shift
git -C /repo apply "$patch" || exit 3
for id in "$@"; do
  /verif/bin/check $id quick 2>&1 | grep -E "^(VIOLATION|OK|MACHINERY|KNOWN)" | head -3
done
git -C /repo checkout -- .
