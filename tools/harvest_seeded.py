#!/usr/bin/env python3
"""Collect confirmed seeded changes (scratch worktrees under /tmp/wt, results under /var/tmp/mutres) into /verif/seeded/<ID>-<n>/."""
import json, os, re, shutil, sys
# delivered but not kept: the change does not break the property as stated
SKIP = {'c04-14': 'alters only the raw byte buffer Instruction.data (used by the Display impl); opcode, operands, modes, registers, constants, types and length -- what C04 states -- are unchanged'}
NOTES = {
 'c20-14': 'round 5; missed at first (no guest write to the output-port set / reset registers between a button event and the input-port read); caught after those writes were added to the event-then-traffic slice of C20',
 'c15-14': 'round 5; missed at first (window writes were only made by host-side pokes of the bus); caught after instruction-made stores (MOVBLW across both window edges, MOVW / MOVH / MOVB, PUSHW) were added to C15',
 'c15-15': 'round 5; at first caught only through the translated shape of Dmd::reset (no failing input); a failing input is found since the reset-keeps-dirty slice was added to C15',
 'c16-13': 'round 5; missed at first (resets were only issued with the control-block pointer where the firmware leaves it after a few steps); caught after the reset-mid-flight slice (PCBP, stack pointers and PSW flags anywhere, RAM full of markers) was added to C16',
 'c19-13': 'round 5; missed at first (no dmd_read_word at an address that is 2 mod 4); caught after the read-alignment slice was added to C19',
 'c19-14': 'round 5; missed at first (the dirty query was never repeated while the display was dirty); caught after the sequential tail of the boot case repeats it and mon_capi requires the same answer until the frame is fetched',
 'c09-13': 'round 5; missed at first (no loop-back transmission after a receiver reset with the receive FIFO pointers off zero); caught after the loop-back-after-receiver-reset slice was added to C09',
 'c13-15': 'round 5; missed at first (returns were only tried with the stack pointer at the very bottom of RAM); caught after the fault-in-a-later-pop slice was added to C13',
 'c17-13': 'round 5; missed at first (no transmitter / receiver reset after the rate was programmed); caught after C17 histories gained reset + re-enable commands',
 'c17-15': 'round 5; missed at first (the interrupt status register was never read between a tick and its acknowledgement); caught after C17 histories gained non-acknowledging reads',
 'c14-13': 'round 5; missed at first (DUART histories never ran the processor); caught after the masked-processor slice (NOP sled at priority level 15 with arrivals) was added to C14',
 'c07-14': 'round 5; missed at first (a presented request was never withdrawn by a disable command before delivery); caught after those events were added to C07 (and mon_c07 reads the last interrupt poll)',
 'c06-13': 'round 5; at first caught only through the translated dispatch arms (no failing input found by C06); a failing input is found since the conditional-return slice (every condition x every flag combination) was added to C06',
 'c08-10': 'round 4; missed at first (no case programmed remote loop-back, MR2 bits 7:6 = 11); caught after the mode x receiver-enable slice was added to C08',
 'c09-11': 'round 4; missed at first (no transmit history with four unread characters on the same channel); caught after the transmit-with-receive-backlog slice was added to C09',
 'c09-12': 'round 4; missed at first (loop-back was only exercised with the receiver enabled); caught after the mode x receiver-state slice was added to C09',
 'c20-10': 'round 4; missed at first (no channel command between a button event and its acknowledgement); caught after the event-then-command slice was added to C20',
 'c13-1': 'missed by the first C13 slice (no divide-overflow case with a faulting destination); caught after the generator gained that case',
 'c07-1': 'missed by the first C07 slice (the interrupted PSW never had R set); caught after the generator varies the R bit of the interrupted PSW',
 'c12-1': 'missed by the first C12 slice; caught after the hostile streams gained chains of expanded-type prefixes',
 'c12-3': 'missed by the first C12 slice; caught after divide / remainder cases became systematic over sizes and the extreme operands',
 'c01-1': 'missed by the first C01 slice (only the default 9600 baud option); caught after the end-to-end generator varies the saved baud option',
 'c01-2': 'missed by the first C01 slice; caught after the scroll scenario (130 line feeds) was added',
 'c12-5': 'round 2; missed at first; caught after the opcode x register-descriptor sweep was added',
 'c12-6': 'round 2; missed at first; caught after DUART register-access histories were added to the hostile cases',
 'c19-5': 'round 2; missed at first; caught after the key-burst scenario (FIFO and holding register full before the firmware reads)',
 'c04-6': 'round 2; missed at first (pc-advance cases covered 9 opcodes); caught after every opcode is stepped once',
 'c07-4': 'round 2; missed at first; caught after the interrupted PSW also varies the bits around the priority field',
 'c07-5': 'round 2; missed at first; caught after handler blocks with block-move lists of 1-3 entries were added',
 'c11-4': 'round 2; missed at first; caught after overrunning host loads (lx) followed by guest ROM writes were added',
 'c11-5': 'round 2; missed at first; caught after bus reads are made with every access code',
 'c13-5': 'round 2; missed at first; caught after stacks that are word- but not 8-byte-aligned were added',
 'c13-6': 'round 2; missed at first; caught after returns / pops with the stack pointer at the bottom of RAM were added',
 'c15-5': 'round 2; missed at first; caught after long in-window write runs (counts around 2^16) were added',
 'c16-5': 'round 2; missed at first; caught after constant NVRAM images (all zero / all ones) were added',
 'c17-4': 'round 2; missed at first; caught after loop-back pacing cases were added',
 'c18-4': 'round 2; missed at first; caught after PSW and unwritable destinations were added to the 2-/3-operand pairs',
 'c01-4': 'round 2; missed by C01 at first (no host traffic during power-on), caught by C14 at once; C01 catches it after the dense-traffic-during-boot scenario was added',
 'c01-5': 'round 2; missed by C01 at first (scrolling only on firmware 2 in the quick tier), caught by C05 at once; C01 catches it after the firmware-1 scroll scenario was added to the quick tier',
 'c01-6': 'round 2; missed by C01 at first (the harness stepped itself), caught by C19 at once; C01 catches it after Dmd::run (rn op) was added to the lock-step cases',
 'c02-8': 'round 3; missed at first; caught after zero divisors became systematic over opcodes, source forms and all 16 flag states',
 'c06-8': 'round 3; missed at first; caught after pushes of expanded-type operands were added',
 'c06-9': 'round 3; missed at first (generated subroutines were always far ahead); caught after the BSBB / BSBH displacement sweep',
 'c03-9': 'round 3; missed at first; caught after read-modify-write instructions addressed through every base register (%r0 included)',
 'c05-7': 'round 3; missed at first; caught after JSB / JMP targets computed from the stack pointer were added',
 'c13-7': 'round 3; missed at first; caught after STREND / MOVBLW running into holes and ROM were added',
 'c13-9': 'round 3; missed at first; caught after STREND / MOVBLW running into holes and ROM were added',
 'c07-9': 'round 3; missed at first; caught after both receivers are pending at one boundary (C14 caught it at once)',
 'c12-7': 'round 3; missed at first; caught after the structured DUART histories were added to the no-panic cases (C08 caught it at once)',
 'c19-7': 'round 3; not caught by the C19 check (the C interface cannot put a channel into loop-back; only firmware 1 does); caught by C14',
 'c19-8': 'round 3; a call that never returns: caught by the hang watchdog added for it (the case is reported as HANG)',
 'c17-7': 'round 3; missed at first; caught after per-character commands (re-enable, reset error) were added to the pacing runs',
 'c17-9': 'round 3; missed at first; caught after the vertical-blank deadline is also observed while the processor runs at priority level 15',
 'c18-9': 'round 3; missed at first; caught after the memory operand of the register-vs-memory pairs goes through every addressing mode (C03 caught it at once)',
 'c01-7': 'round 3; missed by C01 at first (no function keys were typed), caught by C02 at once; C01 catches it after the special-key scenario was added',
 'c01-8': 'round 3; missed by C01 at first (only printable keys were typed), caught by C09 at once; C01 catches it after arrow keys (multi-byte sequences) were added',
 'c02-10': 'round 4; missed at first (SWAPxI was not among the C02 opcodes); caught after SWAP cases, also through %r0, were added',
 'c03-12': 'round 4; missed at first; caught after MOVTRW address probes were added',
 'c06-10': 'round 4; missed at first; caught after CALL / JSB operands computed from %sp / %pc were added',
 'c12-11': 'round 4; missed at first; caught after the longest legal encodings were added to the no-panic cases (C04 caught it at once)',
 'c05-10': 'round 4; missed at first; caught after jumps to their own address were added',
 'c07-10': 'round 4; caught by the translated priority table (proof obligation breaks); no failing input found by the quick generator',
 'c07-11': 'round 4; missed at first; caught after handlers that overwrite registers before RETPS were added',
 'c17-12': 'round 4; missed at first; caught after receiver-disable commands during the pacing runs were added (C14 caught it at once)',
 'c19-10': 'round 4; caught by the translated shape of Dmd::reset (proof obligation breaks); no failing input found by the C19 generator',
 'c19-11': 'round 4; missed at first; caught after a key injected while the firmware boots was added (C08 caught it at once)',
 'c13-10': 'round 4; missed at first; caught after zero divisors with a faulting second source were added',
 'c13-11': 'round 4; missed at first; caught after interrupts whose handler faults in the same step were added',
 'c18-11': 'round 4; missed at first; caught after expanded types on the second operand of the 2-/3-operand pairs were added (C03 caught it at once)',
 'c03-3': 'missed by the first C03 slice (only two-operand probes); caught after expanded types are spread over 3- and 4-operand instructions',
}
for f in sorted(os.listdir('/var/tmp/mutres')):
    tag = f[:-4]
    if tag in SKIP:
        print('skip (outside the property):', tag)
        continue
    p, n = tag.split('-')
    wt = '/tmp/wt/%s/out' % p
    txt = open('/var/tmp/mutres/' + f).read()
    conf = re.search(r'^CONFIRM (.*)$', txt, re.M)
    checks = re.findall(r'^CHECK (\w+) \((\d+)s\): (.*)$', txt, re.M)
    if not conf or 'tests_with_mutation=[57 passed; 0 failed] demo_on_clean_exit=0 demo_with_mutation_exit=1' not in conf.group(1):
        print('skip (not confirmed):', tag, conf.group(1) if conf else '')
        continue
    if not os.path.exists('%s/m%s.diff' % (wt, n)):
        print('skip (no patch):', tag)
        continue
    d = '/verif/seeded/%s-%s' % (p.upper(), n)
    os.makedirs(d, exist_ok=True)
    shutil.copy('%s/m%s.diff' % (wt, n), d + '/patch.diff')
    if os.path.exists('%s/demo%s.diff' % (wt, n)):
        shutil.copy('%s/demo%s.diff' % (wt, n), d + '/demo.diff')
    try:
        am = json.load(open('%s/meta%s.json' % (wt, n)))
    except Exception:
        am = {}
    caught = [c for c in checks if c[2].startswith('VIOLATION')]
    meta = {
        'property': p.upper(),
        'summary': am.get('summary', ''),
        'needs_to_manifest': am.get('needs', ''),
        'files': am.get('files', []),
        'confirmed': {'existing_tests_with_change': '57 passed; 0 failed', 'demo_without_change': 'pass', 'demo_with_change': 'fail',
                      'how': 'tools/confirm_mut.sh in a scratch worktree of /repo (cargo test --offline; demo applied as demo.diff)'},
        'checks_run': [{'check': 'bin/check %s quick' % c[0], 'seconds': int(c[1]), 'result': c[2].split(' replay=')[0]} for c in checks],
        'detected': bool(caught),
        'how_run': 'tools/muttest.sh: snapshot of /verif bound over /verif and the patched worktree bound over /repo in a private mount namespace',
    }
    if tag in NOTES:
        meta['note'] = NOTES[tag]
    json.dump(meta, open(d + '/meta.json', 'w'), indent=1)
    print(tag, 'detected' if caught else 'MISSED')
