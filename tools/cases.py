"""Case generators (one slice per property) for the correspondence check.

Every generator is a pure function of (tier, seed) and returns
  {'cases': [line, ...], 'rule': str, 'dist': {...}}
A case line is `<id> <op> <op> ...` in the op language of harness/src/main.rs.
All numbers are lower-case hex.
"""
import os
import random
from collections import Counter

import monitors
from asm import *  # noqa: F401,F403  (instruction encoder)

V = '/verif'

RANGES = [(0x0, 0x20000, 'rom'), (0x200000, 0x200040, 'duart'), (0x400000, 0x400004, 'mouse'),
          (0x500000, 0x500002, 'vid'), (0x600000, 0x602000, 'nvram'), (0x700000, 0x800000, 'ram')]
BOUNDARY32 = [0, 1, 2, 0x7f, 0x80, 0xff, 0x100, 0x7fff, 0x8000, 0xffff, 0x10000, 0x7fffffff, 0x80000000,
              0xfffffffe, 0xffffffff]


def hx(v):
    return '%x' % v


def corpus_cases(pid):
    p = os.path.join(V, 'corpus', pid + '.cases')
    res = []
    if os.path.exists(p):
        for i, l in enumerate(open(p)):
            l = l.strip()
            if l and not l.startswith('#'):
                res.append('k%s_%d %s' % (pid, i, l.split(' ', 1)[1] if l.split(' ', 1)[0].startswith('k') else l))
    return res


class G:
    """collects cases with unique ids and an op histogram"""

    def __init__(self, prefix, seed):
        self.prefix = prefix
        self.rnd = random.Random(seed * 1000003 + sum(map(ord, prefix)))
        self.cases = []
        self.ops = Counter()
        self.lens = Counter()
        self.kinds = Counter()

    def add(self, ops, kind='misc'):
        self.cases.append('%s%d %s' % (self.prefix, len(self.cases), ' '.join(ops)))
        for o in ops:
            self.ops[o.split(':')[0]] += 1
        self.lens[min(len(ops) // 8 * 8, 256)] += 1
        self.kinds[kind] += 1

    def result(self, rule):
        return {'cases': self.cases, 'rule': rule,
                'dist': {'op_histogram': dict(self.ops), 'case_kinds': dict(self.kinds),
                         'case_length_histogram(bucketed by 8)': {str(k): v for k, v in sorted(self.lens.items())}}}


# --------------------------------------------------------------------------- bus level

def rand_addr(r, bias=None):
    c = r.random()
    if c < 0.55:
        lo, hi, _ = r.choice(RANGES if bias is None else bias)
        span = hi - lo
        if r.random() < 0.5:
            return lo + r.choice([0, 1, 2, 3, 4, span - 4, span - 3, span - 2, span - 1, span, span + 1]) if span >= 4 else lo + r.randrange(-2, span + 3)
        return lo + r.randrange(span)
    if c < 0.75:
        lo, hi, _ = r.choice(RANGES)
        return max(0, r.choice([lo, hi]) + r.randrange(-8, 9))
    if c < 0.9:
        return r.randrange(0, 1 << 24)
    return r.randrange(0, 1 << 32)


def rand_val(r):
    return r.choice(BOUNDARY32) if r.random() < 0.4 else r.randrange(1 << 32)


ACC = ['rb', 'rh', 'rw', 'wb', 'wh', 'ww', 'oh', 'ow']


def acc_op(kind, a, v=0):
    if kind[0] == 'w':
        return '%s:%x:%x' % (kind, a, v)
    return '%s:%x' % (kind, a)


def prior_history(r, n):
    ops = []
    for _ in range(n):
        k = r.choice(['wb', 'wh', 'ww'])
        dev = r.choice([(0x700000, 0x100000), (0x600000, 0x2000), (0x500000, 2), (0x200000, 0x40)])
        a = dev[0] + r.randrange(dev[1])
        if k == 'wh':
            a &= ~1
        if k == 'ww':
            a &= ~3
        ops.append(acc_op(k, a, rand_val(r)))
    return ops


def gen_c10(tier, seed):
    g = G('a', seed)
    r = g.rnd
    # 1. every range boundary +-4 at every width and direction, after a short write history
    for lo, hi, name in RANGES:
        for edge in (lo, hi):
            for d in range(-5, 6):
                a = edge + d
                if a < 0:
                    continue
                for k in ACC:
                    g.add(prior_history(r, 3) + [acc_op(k, a, rand_val(r)), 'rb:%x' % max(0, a - 1), 'rb:%x' % (a + 1)], 'boundary-' + name)
    # 2. aliases of every device window (mask-style decoding errors): base + j*2^k
    for lo, hi, name in RANGES:
        span = hi - lo
        offs = sorted(set([0, 1, 2, 3, min(span - 1, 0x3b), span - 1]))
        for kk in range(17, 33):
            for j in (1, 2, 3, 5, 0xf):
                ops = []
                for o in offs:
                    a = lo + o + (j << kk)
                    if any(l <= a < h for l, h, _ in RANGES):
                        continue
                    ops += ['rb:%x' % a, 'wb:%x:ff' % a, 'ww:%x:aa55aa55' % (a & ~3), 'rh:%x' % (a & ~1)]
                if ops:
                    g.add(ops + ['do', 'rb:200003'], 'alias-' + name)
    # 3. stride over the whole 32-bit space and just above it
    stride = 0x10000 if tier == 'quick' else 0x800
    per = 256
    addrs = list(range(0, (1 << 32) + 0x20000, stride))
    off = r.randrange(stride)
    for i in range(0, len(addrs), per):
        ops = []
        for a in addrs[i:i + per]:
            k = r.choice(ACC)
            ops.append(acc_op(k, a + (off if r.random() < 0.5 else 0), 0xa5a5a5a5))
        g.add(ops, 'stride')
    # 4. random accesses after random histories
    n = 1500 if tier == 'quick' else 60000
    for _ in range(n):
        ops = prior_history(r, r.randrange(0, 6))
        for _ in range(r.randrange(4, 24)):
            ops.append(acc_op(r.choice(ACC), rand_addr(r), rand_val(r)))
        g.add(ops, 'random')
    # 5. host-side reads (Dmd::read_byte / read_word) incl. addresses above 2^32
    for _ in range(200 if tier == 'quick' else 4000):
        ops = []
        for _ in range(16):
            a = rand_addr(r) if r.random() < 0.8 else (1 << 32) + r.randrange(1 << 24)
            ops.append('%s:%x' % (r.choice(['db', 'dw']), a))
        g.add(ops, 'host-read')
    return g.result('Boundary sweep of every device range (+-5, 8 access kinds), alias probes base+j*2^k, a stride of the '
                    'whole address space, random accesses after random write histories, host-side reads.')


def gen_c11(tier, seed):
    g = G('b', seed)
    r = g.rnd
    mems = [(0x700000, 0x100000, 'ram'), (0x600000, 0x2000, 'nvram'), (0x0, 0x20000, 'rom')]
    n = 2500 if tier == 'quick' else 80000
    for i in range(n):
        base, size, name = r.choice(mems)
        ops = []
        if name == 'rom' or r.random() < 0.2:
            # host load gives the ROM contents (bypasses the read-only guard)
            la = r.choice([0, 0x10, size - 64, r.randrange(size - 64)]) & ~3
            ops.append('ld:%x:%s' % (la if name == 'rom' else base + la, ''.join('%02x' % r.randrange(256) for _ in range(r.randrange(4, 40)))))
        # a cluster of addresses so that accesses overlap
        c = r.choice([0, size - 16, r.randrange(size - 16)]) & ~3
        for _ in range(r.randrange(8, 40)):
            a = base + c + r.randrange(-2, 20)
            if a < 0:
                a = 0
            k = r.choice(ACC)
            ops.append(acc_op(k, a, rand_val(r)))
        g.add(ops, name)
    # reads with every access code (the answer must not depend on it), aligned and unaligned
    for i in range(300 if tier == 'quick' else 8000):
        base, size, name = r.choice(mems)
        ops = ['ld:%x:%s' % (base + 0x40, ''.join('%02x' % r.randrange(256) for _ in range(32)))]
        for _ in range(r.randrange(8, 30)):
            a = base + 0x40 + r.randrange(0, 32)
            k = r.choice(['rb', 'rh', 'rw', 'rh', 'rw'])
            ops.append('%s:%x:%x' % (k, a, r.randrange(16)))
            if r.random() < 0.2:
                ops.append(acc_op(r.choice(['wb', 'wh', 'ww']), a, rand_val(r)))
        g.add(ops, name + '-access-codes')
    # host loads that run past the end of their device (a panic by design; the bytes that fit are stored), then guest
    # writes of every width into ROM: ROM must still be read-only
    for i in range(150 if tier == 'quick' else 4000):
        base, size, name = r.choice(mems + [(0x0, 0x20000, 'rom')] * 2)
        over = r.randrange(1, 9)
        fit = r.randrange(0, 12)
        la = base + size - fit
        ops = ['lx:%x:%s' % (la, ''.join('%02x' % r.randrange(256) for _ in range(fit + over)))] if fit > 0 else \
              ['lx:%x:%s' % (base + size - 4, ''.join('%02x' % r.randrange(256) for _ in range(4 + over)))]
        for _ in range(r.randrange(6, 24)):
            a = r.choice([0, 4, 0x100, 0x1fff0, 0x1fffc, r.randrange(0x20000)])
            k = r.choice(ACC)
            if k == 'wh':
                a &= ~1
            if k == 'ww':
                a &= ~3
            ops.append(acc_op(k, a, rand_val(r)))
        g.add(ops, name + '-load-overrun')
    # a host load longer than the whole device is refused (Range) and stores nothing
    for base, size in ((0x600000, 0x2000), (0x500000, 2)):
        for extra in (1, 7):
            g.add(['rb:%x' % base, 'lx:%x:%s' % (base, '5a' * (size + extra)), 'rb:%x' % base, 'rb:%x' % (base + size - 1)], 'oversized-load')
    return g.result('Interleaved mixed-width reads/writes/instruction fetches on overlapping addresses in RAM, NVRAM and ROM '
                    '(device edges, unaligned addresses, ROM preloaded by the host), judged against a flat byte array.')


def gen_c15(tier, seed):
    g = G('c', seed)
    r = g.rnd
    regs = [0, 1, 2, 0xff, 0x100, 0x3fff, 0x4000, 0x4001, 0x7fff, 0x8000, 0xc000, 0xe6ff, 0xe700, 0xfffe, 0xffff]
    n = 1200 if tier == 'quick' else 40000

    def setreg(v):
        c = r.random()
        if c < 0.5:
            return ['wh:500000:%x' % v]
        if c < 0.75:
            return ['wb:500000:%x' % (v >> 8), 'wb:500001:%x' % (v & 0xff)]
        if c < 0.9:
            return ['wb:500001:%x' % (v & 0xff)]
        return ['ww:500000:%x' % (v << 16)]
    for i in range(n):
        ops = []
        v = r.choice(regs) if r.random() < 0.6 else r.randrange(0x10000)
        cur = 0
        for _ in range(r.randrange(6, 30)):
            c = r.random()
            if c < 0.15:
                v = r.choice(regs) if r.random() < 0.6 else r.randrange(0x10000)
                ops += setreg(v)
            elif c < 0.3:
                ops.append('vd')
            elif c < 0.4:
                ops.append('vr')
            elif c < 0.45:
                ops.append('rh:500000')
            else:
                # a write relative to the current (intended) window edges
                start = 0x700000 + 4 * v
                edge = r.choice([start, start + 0x19000])
                a = edge + r.randrange(-6, 7) if r.random() < 0.7 else 0x700000 + r.randrange(0x100000)
                k = r.choice(['wb', 'wh', 'ww'])
                ops.append(acc_op(k, a, rand_val(r) | 1))
                if r.random() < 0.5:
                    ops.append('vd')
        ops += ['vd', 'vr', 'vd']
        g.add(ops, 'window')
    # every display-start value once (thorough) / a stride (quick): frame digest after a marker write
    step = 257 if tier == 'quick' else 1
    for v in range(0, 0x10000, step):
        start = 0x700000 + 4 * v
        g.add(['wh:500000:%x' % v, 'wb:%x:11' % start, 'wb:%x:22' % (start + 0x18fff), 'wb:%x:33' % (start + 0x19000),
               'wb:%x:44' % max(0x700000, start - 1), 'vd', 'vr', 'vd'], 'allregs')
    # long runs of in-window writes between two fetches (counts around powers of two): dirty must read true after any
    # non-zero number of writes
    for cnt in (1, 255, 256, 257, 65535, 65536, 65537, 131072) + ((1 << 20, (1 << 24)) if tier != 'quick' else ()):
        for v in (0, 0x1234):
            start = 0x700000 + 4 * v
            g.add(['wh:500000:%x' % v, 'vr', 'vd', 'wn:%x:%x' % (start + 0x40, cnt), 'vd', 'vr', 'vd', 'wn:%x:%x' % (start + 0x19000, cnt), 'vd'], 'write-count')
    # a machine reset between a write into the window and the host's next look: reset keeps RAM and the display-start
    # register, and only a fetch may clear the indication
    for v in (0, 0x1234, 0x8000):
        start = 0x700000 + 4 * v
        for ver in (1, 2):
            for pre in ([], ['vr']):
                g.add(['rs:%x' % ver, 'wh:500000:%x' % v] + pre + ['wb:%x:5a' % (start + 0x123), 'vd', 'rs:%x' % ver, 'vd', 'rh:500000', 'vr', 'vd',
                       'rs:%x' % (3 - ver), 'vd'], 'reset-keeps-dirty')
    # stores made by instructions (not by host-side pokes): block moves that start below the window and run into it or
    # start inside and run out of it, word / halfword / byte moves and pushes at both window edges
    for v in (0x40, 0x1234):
        start = 0x700000 + 4 * v
        end = start + 0x19000
        code_at = 0x7f0000
        for edge in (start, end):
            for off in (-16, -8, -4, 0, 4):
                for cnt in (1, 2, 3, 5):
                    dst = edge + off
                    base = ['wh:500000:%x' % v, 'vr', 'vd', 'ld:7e0000:%s' % ''.join('%02x' % r.randrange(1, 256) for _ in range(32))]
                    regs = ['r:0:7e0000', 'r:1:%x' % dst, 'r:2:%x' % cnt, 'r:b:1e000', 'r:c:7e8000', 'r:f:%x' % code_at]
                    g.add(base + ['ld:%x:301970707070' % code_at] + regs + ['k:3e8', 'st', 'vd', 'vr', 'vd'], 'block-move-into-window')
            for off in (-4, -2, -1, 0, 1):
                dst = edge + off
                for code in ('844051', '864051', '874051'):
                    base = ['wh:500000:%x' % v, 'vr', 'vd']
                    regs = ['r:0:%x' % (r.randrange(1 << 32) | 0x01010101), 'r:1:%x' % (dst & ~3 if code == '844051' else dst & ~1 if code == '864051' else dst),
                            'r:b:1e000', 'r:c:7e8000', 'r:f:%x' % code_at]
                    g.add(base + ['ld:%x:%s70707070' % (code_at, code)] + regs + ['k:3e8', 'st', 'vd', 'vr', 'vd'], 'move-into-window')
            for off in (-8, -4, 0):
                base = ['wh:500000:%x' % v, 'vr', 'vd']
                regs = ['r:0:%x' % (r.randrange(1 << 32) | 0x01010101), 'r:b:1e000', 'r:c:%x' % (edge + off), 'r:f:%x' % code_at]
                g.add(base + ['ld:%x:a04070707070' % code_at] + regs + ['k:3e8', 'st', 'vd', 'vr', 'vd'], 'push-into-window')
    return g.result('Histories of display-start changes (halfword, split byte, low-byte-only, word), writes of all widths at '
                    'the window edges +-6 and at random RAM addresses, dirty polls and frame fetches; plus a sweep of '
                    'display-start values with marker bytes at both window edges.')


def gen_c20(tier, seed):
    g = G('d', seed)
    r = g.rnd
    n = 1500 if tier == 'quick' else 50000
    coords = [0, 1, 0x7f, 0xff, 0x100, 0x3ff, 0x7fff, 0x8000, 0xfffe, 0xffff]
    t = 0
    for i in range(n):
        ops = []
        t = 0
        for _ in range(r.randrange(5, 40)):
            c = r.random()
            if c < 0.25:
                x = r.choice(coords) if r.random() < 0.5 else r.randrange(0x10000)
                y = r.choice(coords) if r.random() < 0.5 else r.randrange(0x10000)
                ops.append('mm:%x:%x' % (x, y))
            elif c < 0.4:
                ops.append('md:%x' % (r.choice([0, 1, 2]) if r.random() < 0.7 else r.randrange(256)))
            elif c < 0.55:
                ops.append('mu:%x' % (r.choice([0, 1, 2]) if r.random() < 0.7 else r.randrange(256)))
            elif c < 0.65:
                ops.append(r.choice(['rh:400000', 'rh:400002']))
            elif c < 0.75:
                ops.append(r.choice(['rb:200013', 'rb:200037', 'rb:200017']))
            elif c < 0.85:
                ops.append('gi')
            elif c < 0.93:
                t += r.choice([1000, 1000000, 16666666, 16666667, 20000000])
                ops += ['t:%x' % t, 'sv', 'gi']
            else:
                ops.append(r.choice(['rb:200007', 'rb:20000f', 'wb:20000b:5', 'wb:20002b:5', 'rb:20002f', 'wb:20000f:41',
                                     'rb:400000', 'rw:400000', 'wh:400000:1234', 'rh:400001']))
        ops += ['rh:400000', 'rh:400002', 'rb:200037', 'gi', 'rb:200013', 'gi']
        g.add(ops, 'mouse')
    # a button event followed by any channel command (receiver / transmitter enable, disable, resets) or other guest
    # register traffic before the guest acknowledges it: the request must stay until IPCR is read
    cmds = [0x01, 0x02, 0x04, 0x05, 0x08, 0x0a, 0x10, 0x15, 0x20, 0x22, 0x30, 0x40, 0x45, 0x50]
    others = ['rb:200007', 'rb:20000f', 'rb:20002f', 'rb:200017', 'rb:200037', 'wb:200017:0', 'wb:200017:ff', 'wb:20000f:41',
              'wb:20003b:ff', 'wb:20003f:ff', 'wb:20003b:b', 'wb:20003f:b', 'wb:200037:ff', 'wb:200013:ff', 'wh:20003c:b', 'ww:20003c:ff',
              'wb:20002f:41', 'qa:41', 'qb:41', 'pa', 'pb', 'mm:10:20', 'rh:400000']
    for ev in ('md:0', 'md:1', 'md:2', 'mu:0', 'mu:1', 'mu:2', 'md:7'):
        for pre in ([], ['md:1', 'rb:200013'], ['wb:20000b:5', 'wb:20002b:5']):
            for reg in (0x20000b, 0x20002b):
                for c in cmds:
                    g.add(pre + [ev, 'gi', 'wb:%x:%x' % (reg, c), 'gi', 'rb:200017', 'rb:200037', 'rb:200013', 'gi'], 'event-then-command')
            for o in others:
                g.add(pre + [ev, 'gi', o, 'gi', 'rb:200017', 'rb:200037', 'rb:200013', 'gi'], 'event-then-traffic')
    return g.result('Histories of mouse_move/mouse_down/mouse_up (buttons 0-2 and arbitrary numbers, boundary and random '
                    'coordinates) interleaved with guest reads of the mouse, input-port, IPCR and ISR registers, '
                    'interrupt polls, vertical-blank ticks and unrelated DUART traffic.')


def gen_c16(tier, seed):
    g = G('e', seed)
    r = g.rnd
    n = 60 if tier == 'quick' else 1200
    for i in range(n):
        ops = []
        if r.random() < 0.5:
            ops.append('ns:%x:%x' % (r.randrange(1 << 32), r.choice([8192, 8192, 100, 0, 9000])))
        for _ in range(r.randrange(2, 6)):
            v = r.choice([1, 2, 2, 0, 3, 0xff])
            ops += ['rs:%x' % v, 'gr', 'rw:80', 'rb:0', 'rb:ffff', 'rb:1ffff']
            c = r.random()
            if c < 0.5:
                ops += ['k:3e8', 'run:%x' % r.choice([1, 10, 200, 1500])]
            if r.random() < 0.5:
                ops += ['wb:%x:5a' % r.randrange(0x20000), 'ww:%x:deadbeef' % (r.randrange(0x20000) & ~3)]
            if r.random() < 0.5:
                a = 0x600000 + r.randrange(0x2000)
                ops += ['wb:%x:%x' % (a, r.randrange(256)), 'ng', 'rb:%x' % a]
            if r.random() < 0.3:
                ops += ['ns:%x:2000' % r.randrange(1 << 32), 'ng', 'rb:600000', 'rb:601fff', 'rw:600ffc']
            if r.random() < 0.3:
                ops += ['ww:%x:%x' % (0x700000 + (r.randrange(0x100000) & ~3), r.randrange(1 << 32))]
        ops += ['ng']
        g.add(ops, 'reset')
    # restoring constant images (all zero, all ones, one non-zero byte) over whatever NVRAM holds
    for i in range(8 if tier == 'quick' else 300):
        ops = ['rs:2']
        for _ in range(r.randrange(2, 5)):
            c = r.random()
            if c < 0.4:
                img = '00' * 8192
            elif c < 0.6:
                img = 'ff' * 8192
            elif c < 0.8:
                k = r.randrange(8192)
                img = '00' * k + '%02x' % r.randrange(1, 256) + '00' * (8191 - k)
            else:
                img = None
            if img is None:
                ops += ['ns:%x:2000' % r.randrange(1 << 32)]
            else:
                ops += ['nx:' + img]
            a = 0x600000 + r.randrange(0x2000)
            ops += ['ng', 'rb:600000', 'rb:601fff', 'rb:%x' % a]
            if r.random() < 0.4:
                ops += ['wb:%x:%x' % (a, r.randrange(256)), 'ng']
        g.add(ops, 'constant-images')
    # a reset of a machine that is in the middle of anything: processor registers (control-block pointer, stack pointers,
    # PSW with any flags) pointing anywhere in RAM, RAM and NVRAM filled with markers; reset must not write a byte of either
    for i in range(24 if tier == 'quick' else 600):
        ver = r.choice([1, 2])
        ops = ['rs:%x' % ver, 'ld:700000:%s' % ''.join('%02x' % r.randrange(1, 256) for _ in range(0x100)),
               'ld:7ff000:%s' % ''.join('%02x' % r.randrange(1, 256) for _ in range(0x100))]
        pcbp = r.choice([0x700000, 0x700040, 0x7ff000, 0x7fffc0, 0x7ffffc, 0x700000 + 4 * r.randrange(0x40)])
        ops += ['r:d:%x' % pcbp, 'r:e:%x' % r.choice([0x700080, 0x7ff080]), 'r:c:%x' % r.choice([0x7000c0, 0x7ff0c0]),
                'r:9:%x' % r.choice([0x7000a0, 0x7ff0a0]), 'r:a:%x' % r.choice([0x7000b0, 0x7ff0b0]),
                'r:b:%x' % r.choice([0, 0x100, 0x180, 0x1e100, 0x281e180, r.randrange(1 << 26)]),
                'r:f:%x' % r.choice([0x700010, 0x1274])]
        for k in range(9):
            ops.append('r:%x:%x' % (k, r.randrange(1 << 32)))
        ops += ['rs:%x' % r.choice([ver, 3 - ver]), 'gr', 'rw:%x' % (pcbp & ~3), 'rw:700000', 'rw:700040', 'rw:7ff000', 'ng']
        g.add(ops, 'reset-mid-flight')
    return g.result('Histories of reset(version) for versions 1, 2 and other numbers in any order, interleaved with guest '
                    'execution of the firmware (1 to 1500 steps), guest ROM-write attempts, guest NVRAM/RAM writes and host '
                    'NVRAM restore/snapshot calls; registers, ROM digest, NVRAM digest compared after every prefix.')


# the per-property table is completed at the bottom of the file (CPU and DUART slices follow)
PROPS = {}

PROPS['C10'] = {'gen': gen_c10, 'monitors': [monitors.mon_flat_memory],
                'why_projection': 'routing and the value/fault of every access are fixed by the documented map (theorems C10_*) and the flat-memory semantics'}
PROPS['C11'] = {'gen': gen_c11, 'monitors': [monitors.mon_flat_memory]}
PROPS['C15'] = {'gen': gen_c15, 'monitors': [monitors.mon_flat_memory, monitors.mon_video]}
PROPS['C20'] = {'gen': gen_c20, 'monitors': [monitors.mon_mouse]}
PROPS['C16'] = {'gen': gen_c16, 'monitors': [monitors.mon_reset]}


# --------------------------------------------------------------------------- DUART histories

REGS_MEANINGFUL = [0x03, 0x07, 0x0b, 0x0f, 0x13, 0x17, 0x23, 0x27, 0x2b, 0x2f, 0x37, 0x3b, 0x3f]
CMDS = [0x01, 0x02, 0x04, 0x08, 0x05, 0x0a, 0x03, 0x0c, 0x10, 0x20, 0x30, 0x40, 0x50, 0x60, 0x70, 0x15, 0x25, 0x35, 0x45, 0x00, 0xff]
MODES = [0x00, 0x13, 0x80, 0x93, 0xc0, 0x40, 0x07]
ALPHA = [0x00, 0x01, 0x02, 0x41, 0x7f, 0x80, 0xff]
TSTEPS = [50, 1000, 100000, 999999, 1000000, 1000001, 1100000, 5000000, 16666666, 16666667, 20000000, 166666666]


class DuartGen:
    def __init__(self, g, allow_loopback=True, allow_reset=True):
        self.g = g
        self.r = g.rnd
        self.t = 0
        self.lb = allow_loopback
        self.rst = allow_reset

    def adv(self, ops, dt=None):
        self.t += dt if dt is not None else self.r.choice(TSTEPS)
        ops += ['t:%x' % self.t, 'sv']

    def byte(self):
        return self.r.choice(ALPHA) if self.r.random() < 0.7 else self.r.randrange(256)

    def chan(self):
        return self.r.choice([0, 0x20])

    def cmd(self):
        c = self.r.choice(CMDS) if self.r.random() < 0.8 else self.r.randrange(256)
        if not self.rst and ((c >> 4) & 7) in (2, 3):
            c &= 0x8f
        return c

    def mode(self):
        m = self.r.choice(MODES) if self.r.random() < 0.8 else self.r.randrange(256)
        if not self.lb and (m & 0xc0) == 0x80:
            m &= 0x3f
        return m

    def random_op(self, ops):
        r = self.r
        c = r.random()
        ch = self.chan()
        if c < 0.10:
            ops.append('q%s:%x' % ('a' if r.random() < 0.5 else 'b', self.byte()))
        elif c < 0.25:
            self.adv(ops)
        elif c < 0.33:
            ops += ['rb:%x' % (0x200007 + ch), 'rb:%x' % (0x20000f + ch)]
        elif c < 0.38:
            ops.append('rb:%x' % (0x20000f + ch))
        elif c < 0.46:
            ops += ['rb:%x' % (0x200007 + ch), 'wb:%x:%x' % (0x20000f + ch, self.byte())]
        elif c < 0.50:
            ops.append('wb:%x:%x' % (0x20000f + ch, self.byte()))
        elif c < 0.60:
            ops.append('wb:%x:%x' % (0x20000b + ch, self.cmd()))
        elif c < 0.64:
            ops.append('wb:%x:%x' % (0x200003 + ch, self.mode()))
        elif c < 0.68:
            ops.append('wb:%x:%x' % (0x200007 + ch, r.randrange(256)))
        elif c < 0.72:
            ops.append(r.choice(['pa', 'pb']))
        elif c < 0.80:
            ops.append('gi')
        elif c < 0.84:
            ops.append('rb:%x' % (0x200000 + r.choice(REGS_MEANINGFUL)))
        elif c < 0.88:
            ops.append('wb:%x:%x' % (0x200000 + r.choice(REGS_MEANINGFUL), r.randrange(256)))
        elif c < 0.90:
            off = r.randrange(0x40)
            k = r.choice(ACC[:6])
            a = 0x200000 + off
            if k[1] == 'h':
                a &= ~1
            if k[1] == 'w':
                a &= ~3
            ops.append(acc_op(k, a, r.randrange(1 << 32)))
        elif c < 0.93:
            ops.append(r.choice(['md', 'mu']) + ':%x' % r.choice([0, 1, 2, 3, 0xff]))
        elif c < 0.97:
            ops.append('ds')
        else:
            ops.append('do')


def gen_duart(prefix, tier, seed, nq, nt, flavour):
    g = G(prefix, seed)
    r = g.rnd
    n = nq if tier == 'quick' else nt
    for i in range(n):
        dg = DuartGen(g, allow_loopback=(flavour in ('c14', 'c17') or r.random() < 0.25),
                      allow_reset=(flavour != 'c09' or r.random() < 0.2))
        ops = []
        if r.random() < 0.85:
            ops += ['wb:20000b:%x' % r.choice([5, 5, 1, 4, 0x15]), 'wb:20002b:%x' % r.choice([5, 5, 1, 4, 0x15])]
        if flavour == 'c08':
            # receive path: bursts of arrivals, paced service, gated reads, fill levels up to 3+1+overrun
            for _ in range(r.randrange(3, 12)):
                c = r.random()
                ch = dg.chan()
                q = 'qa' if ch == 0 else 'qb'
                if c < 0.45:
                    for _ in range(r.randrange(1, 7)):
                        ops.append('%s:%x' % (q, dg.byte()))
                    for _ in range(r.randrange(0, 7)):
                        dg.adv(ops, r.choice([1000000, 1000001, 2000000, 500000]))
                elif c < 0.8:
                    for _ in range(r.randrange(1, 6)):
                        ops += ['rb:%x' % (0x200007 + ch), 'rb:%x' % (0x20000f + ch)]
                else:
                    for _ in range(r.randrange(1, 4)):
                        dg.random_op(ops)
        elif flavour == 'c09':
            for _ in range(r.randrange(3, 12)):
                c = r.random()
                ch = dg.chan()
                if c < 0.5:
                    for _ in range(r.randrange(1, 5)):
                        ops += ['rb:%x' % (0x200007 + ch), 'wb:%x:%x' % (0x20000f + ch, dg.byte())]
                        for _ in range(r.randrange(0, 4)):
                            dg.adv(ops, r.choice([1000000, 1000001, 2000000, 500000]))
                elif c < 0.7:
                    ops += [r.choice(['pa', 'pb']) for _ in range(r.randrange(1, 4))]
                else:
                    for _ in range(r.randrange(1, 4)):
                        dg.random_op(ops)
        elif flavour == 'c17':
            # pacing: pick a rate, queue bytes both ways, step time at a fixed granularity, snapshot after every step
            ch = dg.chan()
            code = r.randrange(16)
            if r.random() < 0.5:
                ops.append('wb:200013:%x' % r.choice([0, 0x80]))
            ops.append('wb:%x:%x' % (0x200007 + ch, (code << 4) | r.randrange(16)))
            loop = r.random() < 0.3
            if loop:
                # local loop-back (MR2 bits 7:6 = 10): transmitted characters come back to the channel's own receiver, paced
                # like any other transmission
                ops += ['wb:%x:10' % (0x20000b + ch), 'wb:%x:13' % (0x200003 + ch), 'wb:%x:%x' % (0x200003 + ch, 0x80 | r.randrange(16))]
            for _ in range(r.randrange(2, 6)):
                ops.append('%s:%x' % ('qa' if ch == 0 else 'qb', dg.byte()))
            gran = r.choice([50, 1000, 50000, 1000000, 217013, 4000000])
            for k in range(r.randrange(10, 60)):
                if r.random() < (0.5 if loop else 0.2):
                    ops += ['rb:%x' % (0x200007 + ch), 'wb:%x:%x' % (0x20000f + ch, dg.byte())]
                if r.random() < 0.2:
                    ops += ['rb:%x' % (0x200007 + ch), 'rb:%x' % (0x20000f + ch)]
                if r.random() < 0.12:
                    # commands from a per-character handler: re-arm the receiver / transmitter, reset the error status
                    ops += ['wb:%x:%x' % (0x20000b + ch, r.choice([0x01, 0x05, 0x45, 0x04, 0x15, 0x02, 0x0a, 0x22, 0x08]))]
                if r.random() < 0.06:
                    # a transmitter / receiver reset followed by re-enabling: the programmed rate must survive it
                    ops += ['wb:%x:%x' % (0x20000b + ch, r.choice([0x30, 0x20, 0x34, 0x21])), 'wb:%x:5' % (0x20000b + ch)]
                mult = r.choice([1, 1, 1, 10, 100, 1000]) if gran < 100000 else 1
                dg.adv(ops, gran * mult)
                ops += ['gi', 'ds']
                if r.random() < 0.1:
                    ops.append('rb:200013')
                if r.random() < 0.15:
                    # reads that acknowledge nothing: interrupt status, input port
                    ops += [r.choice(['rb:200017', 'rb:200037']), 'gi']
        else:
            for _ in range(r.randrange(6, 60)):
                dg.random_op(ops)
        ops.append('ds')
        g.add(ops, flavour)
    return g


def gen_c08(tier, seed):
    g = gen_duart('f', tier, seed, 2500, 80000, 'c08')
    # exhaustive short histories over a tiny alphabet on channel A
    import itertools
    alpha = ['qa:41', 'qa:42', 't+', 'rd', 'wb:20000b:20', 'wb:20000b:1']
    depth = 5 if tier == 'quick' else 7
    for combo in itertools.product(alpha, repeat=depth):
        ops = ['wb:20000b:1']
        t = 0
        for c in combo:
            if c == 't+':
                t += 1000000
                ops += ['t:%x' % t, 'sv']
            elif c == 'rd':
                ops += ['rb:200007', 'rb:20000f']
            else:
                ops.append(c)
        ops += ['rb:200007', 'rb:20000f', 'ds']
        g.add(ops, 'exhaustive')
    # fill level x command x refill scenarios (every fill level 0..5 incl. 3+1 and 3+1+overrun)
    r = g.rnd
    cmds = [[0x20], [0x20, 0x01], [0x21], [0x02], [0x02, 0x01], [0x40], [0x0a, 0x05], [0x30], [0x10], [0x01], [0x22]]
    for ch in (0, 0x20):
        q = 'qa' if ch == 0 else 'qb'
        for fill in range(0, 7):
            for nread in range(0, 5):
                for cs in cmds:
                    for more in (1, 2, 4):
                        ops = ['wb:%x:1' % (0x20000b + ch)]
                        t = 0
                        for k in range(fill):
                            ops.append('%s:%x' % (q, 0x31 + k))
                        for k in range(fill):
                            t += 1000000
                            ops += ['t:%x' % t, 'sv']
                        for k in range(nread):
                            ops += ['rb:%x' % (0x200007 + ch), 'rb:%x' % (0x20000f + ch)]
                        for c in cs:
                            ops.append('wb:%x:%x' % (0x20000b + ch, c))
                        ops.append('wb:%x:1' % (0x20000b + ch))
                        for k in range(more):
                            ops.append('%s:%x' % (q, 0x61 + k))
                        for k in range(more + 1):
                            t += 1000000
                            ops += ['t:%x' % t, 'sv']
                        for k in range(more + 2):
                            ops += ['rb:%x' % (0x200007 + ch), 'rb:%x' % (0x20000f + ch), 'gi']
                        ops.append('ds')
                        g.add(ops, 'fill-cmd-refill')
    # every channel mode (MR2 bits 7:6: normal, automatic echo, local loop-back, remote loop-back) x receiver enabled or not:
    # host bytes and the guest's own transmissions arrive (or not) exactly as the mode says
    for ch in (0, 0x20):
        q = 'qa' if ch == 0 else 'qb'
        pl = 'pa' if ch == 0 else 'pb'
        for mr2 in (0x07, 0x47, 0x87, 0xc7, 0x80, 0xc0, 0xbf, 0xff):
            for en in (0x05, 0x04, 0x01, 0x06, 0x09):
                for nhost in (0, 1, 2, 4):
                    for ntx in (0, 1, 2):
                        ops = ['wb:%x:10' % (0x20000b + ch), 'wb:%x:13' % (0x200003 + ch), 'wb:%x:%x' % (0x200003 + ch, mr2),
                               'wb:%x:%x' % (0x20000b + ch, en)]
                        t = 0
                        for k in range(nhost):
                            ops.append('%s:%x' % (q, 0x31 + k))
                        for k in range(ntx):
                            ops += ['rb:%x' % (0x200007 + ch), 'wb:%x:%x' % (0x20000f + ch, 0x61 + k)]
                            for _ in range(2):
                                t += 1000000
                                ops += ['t:%x' % t, 'sv']
                        for k in range(nhost + 1):
                            t += 1000000
                            ops += ['t:%x' % t, 'sv']
                        for k in range(nhost + ntx + 1):
                            ops += ['rb:%x' % (0x200007 + ch), 'rb:%x' % (0x20000f + ch), 'gi']
                        ops += [pl, pl, pl, 'ds']
                        g.add(ops, 'mode-x-enable')
    return g.result('Receive-path histories on both channels: fill level (0-6 arrivals) x reads (0-4) x command sequence (reset/disable/enable/reset-error) x refill scenarios; bursts of host enqueues, paced service calls, status-gated and '
                    'ungated RHR reads, enable/disable/reset commands, all FIFO fill levels up to 3+1+overrun, plus all '
                    'histories of length 5 (quick) / 7 (thorough) over {enqueue 2 values, 1 ms step, gated read, reset rx, enable rx}.')


def gen_c09(tier, seed):
    g = gen_duart('g', tier, seed, 2500, 80000, 'c09')
    # the transmitter while the receiver of the same channel has a backlog (0-6 unread characters): a write, a read of
    # the receive register before the next service, the status, a second write
    for ch in (0, 0x20):
        q = 'qa' if ch == 0 else 'qb'
        pl = 'pa' if ch == 0 else 'pb'
        for fill in range(0, 7):
            for nrd in (0, 1, 2):
                for gap in (0, 1, 2):
                    ops = ['wb:%x:5' % (0x20000b + ch)]
                    t = 0
                    for k in range(fill):
                        ops.append('%s:%x' % (q, 0x31 + k))
                    for k in range(fill):
                        t += 1000000
                        ops += ['t:%x' % t, 'sv']
                    ops += ['rb:%x' % (0x200007 + ch), 'wb:%x:58' % (0x20000f + ch)]
                    for k in range(gap):
                        t += 100000
                        ops += ['t:%x' % t, 'sv']
                    for k in range(nrd):
                        ops += ['rb:%x' % (0x20000f + ch), 'rb:%x' % (0x200007 + ch), 'gi']
                    ops += ['wb:%x:59' % (0x20000f + ch), 'rb:%x' % (0x200007 + ch)]
                    for k in range(4):
                        t += 1000000
                        ops += ['t:%x' % t, 'sv', 'rb:%x' % (0x200007 + ch)]
                    ops += [pl, pl, pl, 'ds']
                    g.add(ops, 'tx-with-rx-backlog')
    # every channel mode x receiver state (never enabled, enabled, disabled again, reset) x 1-3 gated writes: where each
    # completed character goes (host queue, the channel's own receiver, or nowhere)
    for ch in (0, 0x20):
        pl = 'pa' if ch == 0 else 'pb'
        for mr2 in (0x07, 0x47, 0x87, 0xc7):
            for rxs in ([0x04], [0x05], [0x05, 0x02], [0x05, 0x20], [0x05, 0x02, 0x01], [0x06]):
                for nw in (1, 2, 3):
                    ops = ['wb:%x:10' % (0x20000b + ch), 'wb:%x:13' % (0x200003 + ch), 'wb:%x:%x' % (0x200003 + ch, mr2)]
                    ops += ['wb:%x:%x' % (0x20000b + ch, c) for c in rxs]
                    t = 0
                    for k in range(nw):
                        ops += ['rb:%x' % (0x200007 + ch), 'wb:%x:%x' % (0x20000f + ch, 0x41 + k)]
                        for _ in range(2):
                            t += 1000000
                            ops += ['t:%x' % t, 'sv']
                    for k in range(nw + 1):
                        ops += ['rb:%x' % (0x200007 + ch), 'rb:%x' % (0x20000f + ch)]
                    ops += [pl, pl, pl, pl, 'ds']
                    g.add(ops, 'mode-x-receiver-state')
    # local loop-back across a receiver reset: k characters looped back and j of them read (so the receive FIFO's
    # pointers stand anywhere), reset + re-enable the receiver, then two more characters must come back, in order
    for ch in (0, 0x20):
        pl = 'pa' if ch == 0 else 'pb'
        for k in range(0, 6):
            for j in range(0, min(k, 4) + 1):
                for rst in ([0x20, 0x01], [0x21], [0x02, 0x01], [0x20, 0x10, 0x01]):
                    ops = ['wb:%x:10' % (0x20000b + ch), 'wb:%x:13' % (0x200003 + ch), 'wb:%x:87' % (0x200003 + ch), 'wb:%x:5' % (0x20000b + ch)]
                    t = 0
                    for i in range(k):
                        ops += ['rb:%x' % (0x200007 + ch), 'wb:%x:%x' % (0x20000f + ch, 0x41 + i)]
                        for _ in range(2):
                            t += 1000000
                            ops += ['t:%x' % t, 'sv']
                    for i in range(j):
                        ops += ['rb:%x' % (0x200007 + ch), 'rb:%x' % (0x20000f + ch)]
                    ops += ['wb:%x:%x' % (0x20000b + ch, c) for c in rst]
                    for i in range(2):
                        ops += ['rb:%x' % (0x200007 + ch), 'wb:%x:%x' % (0x20000f + ch, 0x51 + i)]
                        for _ in range(2):
                            t += 1000000
                            ops += ['t:%x' % t, 'sv']
                    for i in range(4):
                        ops += ['rb:%x' % (0x200007 + ch), 'rb:%x' % (0x20000f + ch)]
                    ops += [pl, pl, 'ds']
                    g.add(ops, 'loopback-after-receiver-reset')
    return g.result('Transmit-path histories on both channels: status-gated and ungated THR writes, service at and around the '
                    'character time, host polls, enable/disable/reset-transmitter and mode (loop-back) commands.')


def gen_c14(tier, seed):
    g = gen_duart('h', tier, seed, 3000, 100000, 'c14')
    return g.result('Random histories over all DUART operations: reads/writes of every register offset with any value and width, '
                    'host enqueues/polls, mouse-button events, time steps straddling deadlines, interrupt polls, snapshots.')


def gen_c17(tier, seed):
    g = gen_duart('i', tier, seed, 1200, 30000, 'c17')
    r = g.rnd
    # the vertical-blank tick while the processor runs with interrupts masked (priority level 15): the 1/60 s deadline
    # must keep advancing whatever the processor's level is (a sled of NOPs stepped at 0.1 - 2 ms per instruction)
    for i in range(24 if tier == 'quick' else 400):
        tick = r.choice([100000, 500000, 1000000, 2000000])
        nsteps = r.choice([20, 40, 90, 200])
        ops = ['ld:700100:%s' % ('70' * 240), 'r:f:700100', 'r:b:%x' % ((15 << 13) | r.choice([0, 0x3c0000])), 'r:c:730000',
               'k:%x' % tick]
        for _ in range(4):
            ops += ['run:%x' % (nsteps // 4), 'ds']
            if r.random() < 0.3:
                ops += ['rb:200013', 'ds']
            if r.random() < 0.4:
                ops += [r.choice(['rb:200017', 'rb:200037']), 'ds']
        g.add(ops, 'c17-vblank-masked')
    return g.result('Pacing runs: every clock-select code (0-15) x both baud sets x both channels x both directions, time '
                    'advanced at granularities from 50 ns to 4 ms, snapshot after every service call.')


PROPS['C08'] = {'gen': gen_c08, 'monitors': [monitors.mon_rx_path]}
PROPS['C09'] = {'gen': gen_c09, 'monitors': [monitors.mon_tx_path]}
def gen_c14_plus(tier, seed):
    a = gen_c14(tier, seed)
    b = gen_c08(tier, seed + 7)
    extra = [l for l in b['cases'] if l.split(' ', 1)[0].startswith('f')]
    sel = [('h' + l) for l in extra if 'gi' in l][:6000]
    a['cases'] = a['cases'] + sel
    # the same truths while the processor runs with every interrupt masked (priority level 15, a sled of NOPs): characters
    # that arrive and transmitters that become ready must still show in the interrupt status register on the next step
    g = G('hm', seed + 11)
    r = g.rnd
    for i in range(40 if tier == 'quick' else 800):
        ops = ['wb:20000b:%x' % r.choice([5, 1, 4, 5]), 'wb:20002b:%x' % r.choice([5, 1, 4, 5]),
               'ld:700100:%s' % ('70' * 200), 'r:f:700100', 'r:b:%x' % ((15 << 13) | r.choice([0, 0x3c0000, 0x180])), 'r:c:730000',
               'k:%x' % r.choice([1000, 100000, 1000000])]
        for _ in range(r.randrange(2, 7)):
            c = r.random()
            if c < 0.4:
                ops.append(r.choice(['qa', 'qb']) + ':%x' % r.choice([0x41, 0x80, 0xff, 0x02]))
            elif c < 0.55:
                ch = r.choice([0, 0x20])
                ops += ['rb:%x' % (0x200007 + ch), 'wb:%x:%x' % (0x20000f + ch, r.choice([0x41, 0x5a]))]
            elif c < 0.7:
                ch = r.choice([0, 0x20])
                ops += ['rb:%x' % (0x200007 + ch), 'rb:%x' % (0x20000f + ch)]
            elif c < 0.8:
                ops.append(r.choice(['md:1', 'mu:1', 'rb:200013']))
            ops += ['run:%x' % r.choice([1, 2, 3, 8]), 'rb:200017', 'rb:200007', 'rb:200027', 'ds']
        g.add(ops, 'c14-masked-processor')
    a['cases'] = a['cases'] + g.result('x')['cases']
    a['rule'] += ' Plus the fill-level x command x refill scenarios of the receive path (with interrupt polls).'
    return a


PROPS['C14'] = {'gen': gen_c14_plus, 'monitors': [monitors.mon_status_truth, monitors.mon_rx_path]}
PROPS['C17'] = {'gen': gen_c17, 'monitors': [monitors.mon_pacing], 'assumptions': ['virtual clock only: std::time::Instant of the unguarded build is not modelled']}


# --------------------------------------------------------------------------- C19 (C interface)

def gen_c19(tier, seed):
    g = G('v', seed)
    r = g.rnd
    nseq = 150 if tier == 'quick' else 3000
    addrs = [0, 0x80, 0x1fffc, 0x20000, 0x200003, 0x200007, 0x20000f, 0x200013, 0x200037, 0x400000, 0x400002, 0x500000, 0x600000, 0x601fff,
             0x602000, 0x700000, 0x700101, 0x7ffffc, 0x800000, 0xfffffffc, 0xffffffff]
    # reads at every alignment at the start, inside and at the end of every device, and in the holes between them
    for base in (0, 0x1fffc, 0x20000, 0x200000, 0x20003c, 0x400000, 0x500000, 0x600000, 0x601ffc, 0x602000, 0x700000, 0x7ffffc, 0x800000):
        ops = ['init:2']
        for off in range(8):
            ops += ['rdw:%x' % (base + off), 'rdb:%x' % (base + off)]
        g.add(['C'] + ops, 'read-alignment')
    for i in range(nseq):
        # every list starts by loading a firmware image: Cpu::step panics by design on CPU errors other than bus faults
        # (an all-zero ROM is HALT), and a panic under the lock poisons the process-global machine for good
        ops = ['init:%x' % r.choice([1, 2, 2, 0, 0xff])]
        for _ in range(r.randrange(4, 40)):
            c = r.random()
            if c < 0.12:
                ops += ['t:%x' % r.randrange(0, 40000000), 'step']
            elif c < 0.18:
                ops.append('loop:%x' % r.choice([0, 1, 7, 100, 500]))
            elif c < 0.26:
                ops.append('pc' if r.random() < 0.4 else 'reg:%x' % r.choice(list(range(16)) + [16, 17, 31, 32, 0x7f, 0x80, 0xf0, 0xff]))
            elif c < 0.36:
                a = r.choice(addrs) if r.random() < 0.7 else r.randrange(1 << 32)
                ops.append(r.choice(['rdw', 'rdb']) + ':%x' % a)
            elif c < 0.46:
                ops.append(r.choice(['mm:%x:%x' % (r.choice([0, 1, 0x7fff, 0xffff, r.randrange(65536)]), r.randrange(65536)),
                                     'md:%x' % r.choice([0, 1, 2, 3, 0xff]), 'mu:%x' % r.choice([0, 1, 2, 7])]))
            elif c < 0.62:
                ops.append(r.choice(['qa', 'qb']) + ':%x' % r.choice([0, 1, 0x41, 0x7f, 0x80, 0xff, r.randrange(256)]))
            elif c < 0.80:
                ops += ['snap', r.choice(['pa', 'pb'])]
            elif c < 0.86:
                ops.append(r.choice(['dirty', 'vram', 'oport']))
            elif c < 0.93:
                sd = r.randrange(1 << 32)
                ops += ['nvset:%x' % sd, 'nvget']
            else:
                ops.append('nvget')
        g.add(['C'] + ops, 'sequential')
    # calls on a machine whose mutex a panicking call has poisoned (stepping an uninitialised machine executes HALT from
    # the zeroed ROM, which Cpu::step turns into a panic by design): every later call must report failure and leave its
    # output parameters alone
    for i in range(6 if tier == 'quick' else 60):
        ops = [r.choice(['step', 'loop:1', 'loop:5'])]
        for _ in range(r.randrange(8, 30)):
            ops.append(r.choice(['step', 'loop:2', 'pc', 'reg:%x' % r.randrange(20), 'rdw:%x' % r.choice(addrs), 'rdb:%x' % r.choice(addrs),
                                 'mm:1:2', 'md:1', 'mu:1', 'qa:41', 'qb:42', 'pa', 'pb', 'dirty', 'vram', 'oport', 'nvget',
                                 'nvset:%x' % r.randrange(1 << 32), 'init:2', 'init:1']))
        g.add(['C'] + ops, 'poisoned')
    # concurrent callers: a stepping thread, an input thread and a second input / polling thread
    ncon = 40 if tier == 'quick' else 1500
    for i in range(ncon):
        steps = ['step'] * r.randrange(0, 60) + ['loop:%x' % r.choice([1, 10, 100, 1000])] * r.randrange(0, 8)
        r.shuffle(steps)
        n1, n2 = r.randrange(1, 60), r.randrange(1, 60)
        t1, t2 = [], []
        for k in range(n1):
            t1.append(r.choice(['qb:%x' % (k % 128), 'qb:%x' % (k % 128), 'qa:%x' % (k % 128), 'mm:%x:%x' % (k, k), 'md:%x' % (k % 3), 'mu:%x' % (k % 3)]))
        for k in range(n2):
            t2.append(r.choice(['qb:%x' % (128 + k % 128), 'qa:%x' % (128 + k % 128), 'pa', 'pb', 'dirty', 'pc', 'reg:%x' % r.randrange(16), 'rdw:%x' % r.choice([0, 0x700000, 0x300000]),
                                'rdb:400000', 'oport']))
        g.add(['T', '%x' % r.randrange(1 << 32), '%x' % r.choice([1, 2]), ','.join(steps) + '/' + ','.join(t1) + '/' + ','.join(t2)], 'threads')
    # boot under contention: the stepper boots firmware 2 while two threads poll the keyboard transmit queue
    nboot = 1 if tier == 'quick' else 12
    for i in range(nboot):
        st = []
        for k in range(5200):
            st += ['t:%x' % ((k + 1) * 1000000), 'loop:3e8']
        polls = ['pb'] * 6000
        g.add(['T', '%x' % r.randrange(1 << 32), '2', ','.join(st) + '/' + ','.join(polls) + '/' + ','.join(polls)], 'boot-contention')
        # the same, then keys typed through the C interface once the terminal is up (the stepping thread injects them
        # between its own steps), and afterwards the RS-232 transmit queue is drained by sequential polls
        st2 = list(st)
        # a key injected while the firmware is still booting (between its two receiver resets): the firmware discards it;
        # it must not come back later
        at = 2 * r.choice([3400, 3900, 4300])
        st2[at:at] = ['qb:5a']
        k0 = 5200 + 1600      # boot + 1.6 s of emulated time
        for k in range(5200, k0):
            st2 += ['t:%x' % ((k + 1) * 1000000), 'loop:3e8']
        keys = [r.choice(range(0x21, 0x7f)) for _ in range(r.randrange(3, 8))]
        k = k0
        for kc in keys:
            st2.append('qb:%x' % kc)
            for _ in range(30):
                k += 1
                st2 += ['t:%x' % ((k + 1) * 1000000), 'loop:3e8']
        for _ in range(200):
            k += 1
            st2 += ['t:%x' % ((k + 1) * 1000000), 'loop:3e8']
        g.add(['T', '%x' % r.randrange(1 << 32), '2', ','.join(st2) + '/' + ','.join(['pb'] * 3000) + '/' + ','.join(['dirty'] * 3000) + '/!' + ','.join(['pa'] * 40 + ['dirty', 'dirty', 'dirty', 'vram', 'dirty', 'dirty'])],
              'boot-then-keys')
    # injected keys in bursts: several keyboard bytes queued back to back (as an input thread does), the receiver FIFO and
    # holding register fill before the firmware reads; each must come out exactly once, in order (end-to-end on the
    # implementation, judged by mon_sys; the scenario is the one of C01's burst cases)
    for c in gen_c01(tier, seed + 77)['cases']:
        toks = c.split()
        if toks[1] == 'S' and any(t == 'k:1e8480' for t in toks):
            g.add(toks[1:], 'key-burst-end-to-end')
    return g.result('Sequential call lists over all 19 exported functions with edge arguments (every version number class, register numbers 0-255, '
                    'addresses in and between all devices, all button numbers, NVRAM set/get round trips, transmit polls preceded by a snapshot of '
                    'the queues); three real threads (stepper / input / input+poller) with seeded yields, queues snapshotted before and after; '
                    'firmware boot by a stepping thread while two threads poll the keyboard transmit queue.')


PROPS['C19'] = {'gen': gen_c19, 'monitors': [monitors.mon_capi, monitors.mon_sys]}

# --------------------------------------------------------------------------- C01 (whole system)

def gen_c01(tier, seed):
    g = G('y', seed)
    r = g.rnd
    # (a) lock step: the first instructions of both firmware images on implementation AND model, full state compared
    win = 0x8000 if tier == 'quick' else 0x40000
    nwin = 6 if tier == 'quick' else 24
    for v in (1, 2):
        for k in ((1000, 250) if tier == 'quick' else (50, 100, 250, 1000, 4000)):
            ops = ['rs:%x' % v, 'k:%x' % k]
            for w in range(nwin):
                ops += ['run:%x' % win, 'gr', 'gi' if False else 'vd']
                # the host API's own stepping call, at its finest grain and in small batches
                ops += ['rn:1', 'rn:1', 'rn:%x' % r.choice([2, 3, 7, 64]), 'rn:0', 'gr']
                if w == 2:
                    ops += ['qb:41', 'qa:42', 'mm:12:34', 'md:1']
            g.add(ops + ['ng', 'do'], 'lockstep-v%d' % v)
    # (b) end to end on the implementation: boot, keyboard initialised, frame populated, keys echoed once in order,
    #     printable bytes drawn and reported dirty, mouse events in between
    combos = []
    if tier == 'quick':
        combos = [(2, 1000, 'blank'), (2, 250, 'saved'), (1, 1000, 'blank'), (2, 4000, 'blank'), (2, 50, 'blank')]
    else:
        for v in (1, 2):
            for k in (50, 100, 250, 1000, 4000):
                for nv in ('blank', 'saved', 'blank'):
                    combos += [(v, k, nv)] * (3 if v == 2 else 1)
    # firmware-saved NVRAM with each valid host-speed option (offset 2: 0..5; 5 = 300 baud, where a character takes
    # longer than the 20 ms key spacing), and a full window of line feeds (scrolling) before the typing starts
    bursts = [(2, 1000, 'burst', nb) for nb in (3, 4)] if tier == 'quick' else [(v, k, 'burst', nb) for v in (1, 2) for k in (250, 1000) for nb in (2, 3, 4)]
    extra = [(2, 1000, 'opt5', 0), (2, 1000, 'blank', 130), (1, 1000, 'blank', 130), (1, 1000, 'traffic', 2), (1, 1000, 'traffic', 25), (2, 1000, 'traffic', 2), (2, 1000, 'special', 0), (1, 1000, 'special', 0), (1, 1000, 'arrows', 0), (2, 1000, 'arrows', 0)] if tier == 'quick' else \
            [(v, k, 'traffic', d) for v in (1, 2) for k in (250, 1000) for d in (1, 2, 5, 25)] + [(v, k, 'special', 0) for v in (1, 2) for k in (250, 1000, 4000)] + [(v, k, 'arrows', 0) for v in (1, 2) for k in (250, 1000, 4000)] + \
            [(2, k, 'opt%d' % o, 0) for o in range(6) for k in (250, 1000)] + [(v, k, 'blank', 130) for v in (1, 2) for k in (250, 1000, 4000)]
    for (v, k, nv, nlf) in [(a, b, c, 0) for (a, b, c) in combos] + extra + bursts:
        nlf_burst, nlf = (nlf, 0) if nv == 'burst' else (0, nlf)
        nlf_traffic, nlf = (nlf, 0) if nv == 'traffic' else (0, nlf)
        t20 = max(1, 20000000 // k)          # steps per 20 ms of emulated time
        maxboot = 0x8000000
        ops = []
        # the firmware only starts consuming host input about one second of EMULATED time after reset (measured: at
        # 100 ns per instruction a byte sent right after the idle loop is reached is drawn 0.29 s later, at 250 ns at
        # once); the interactive state is therefore taken to be: priority level 0 AND 1.5 s of emulated time later
        settle = 'run:%x' % (1500000000 // k)
        if nv == 'saved':
            ops += ['rs:%x' % v, 'k:%x' % k, 'bt:%x' % maxboot, settle, 'dk', 'nsv', 'rs:%x' % v, 'nrs']
        elif nv.startswith('opt'):
            ops += ['rs:%x' % v, 'k:%x' % k, 'bt:%x' % maxboot, settle, 'dk', 'nsv', 'nsp:2:%x' % int(nv[3:]), 'rs:%x' % v, 'nrs']
        if nv == 'traffic':
            # the host keeps sending while the terminal powers up (one byte every 25 ms; for firmware 1, whose power-on
            # self-test puts the DUART in loop-back for a while, during the first 20 s of emulated time, which covers
            # the whole boot): the terminal must still become interactive; what it does with those bytes is not judged
            ops += ['rs:%x' % v, 'k:%x' % k]
            dense = nlf_traffic
            ops += ['rq:%x:%x:55' % (20000000000 // k if v == 1 else 2000000000 // k, max(1, dense * 1000000 // k))]
            ops += ['bt:%x' % maxboot, settle, settle, 'dk', 'vr', 'vd']
        else:
            ops += ['rs:%x' % v, 'k:%x' % k, 'bt:%x' % maxboot, settle, 'dk', 'vr', 'vd']
        for _ in range(nlf):
            ops += ['qa:a', 'run:%x' % max(1, t20 // 4)]
        if nlf:
            # let the terminal finish scrolling before the typing starts (firmware 1 moves the whole window per line feed
            # and falls behind a line feed every 5 ms; the host queue holds the rest): 60 ms of emulated time per line
            ops += ['run:%x' % (3 * t20 * nlf)]
        keys = [r.choice(list(range(0x20, 0x7f))) for _ in range(r.randrange(5, 12) if not nv.startswith('opt') else 12)]
        if nv == 'special':
            # function, cursor and keypad key codes (0x80-0x9f) and control codes first: the terminal sends their escape
            # sequences (not judged: dx drains them); it must survive them and still echo ordinary keys afterwards
            # (0x8e and 0x8f are left out: after either, firmware 8;7;5 no longer transmits typed keys -- they look like
            # the set-up / hold keys; what they do is outside the property)
            for kc in list(range(0x80, 0x8e)) + list(range(0x90, 0xa0)) + [0x00, 0x1b, 0x7f, 0xff]:
                ops += ['qb:%x' % kc, 'run:%x' % (t20 * 2)]
            ops += ['run:%x' % (t20 * 10), 'dx']
        if nv == 'burst':
            # a burst: several keys queued at once, then a few instructions that each take a whole character time, so
            # that the receiver FIFO (3) and the holding register fill before the firmware's handler reads; at most 4 such
            # instructions: a fifth character would overrun the holding register, which is a flagged (legitimate) loss
            keys = keys[:6]
            ops += ['qb:%x' % kc for kc in keys]
            ops += ['k:%x' % 2000000, 'run:%x' % nlf_burst, 'k:%x' % k, 'run:%x' % (t20 * 8)]
            keys_typed = []
        elif nv == 'arrows':
            # the four arrow keys and ordinary keys mixed: each arrow key must come out as its ANSI cursor sequence
            # (ESC [ A / B / C / D), whole and in order, on both firmware images
            ARROW = {0x92: [0x1b, 0x5b, 0x41], 0x90: [0x1b, 0x5b, 0x42], 0x9b: [0x1b, 0x5b, 0x43], 0x9a: [0x1b, 0x5b, 0x44]}
            keys_typed = []
            for kc in keys:
                keys_typed.append(kc)
                if r.random() < 0.6:
                    keys_typed.append(r.choice(list(ARROW)))
            keys = sum([ARROW.get(kc, [kc]) for kc in keys_typed], [])
        else:
            keys_typed = keys
        for kc in keys_typed:
            ops += ['qb:%x' % kc]
            pause = t20 * r.choice([1, 1, 2, 3])
            if r.random() < 0.5:
                # mouse events at a random instant inside the pause
                cut = r.randrange(1, pause)
                ops += ['run:%x' % cut, r.choice(['mm:%x:%x' % (r.randrange(1024), r.randrange(1024)), 'md:%x' % r.randrange(3), 'mu:%x' % r.randrange(3)]), 'run:%x' % (pause - cut)]
            else:
                ops += ['run:%x' % pause]
        ops += ['run:%x' % (t20 * (3 if not nv.startswith('opt') else 30)), 'da', 'vr', 'vd']
        chars = [r.choice(list(range(0x21, 0x7f))) for _ in range(r.randrange(2, 6))]
        for ch in chars:
            ops += ['qa:%x' % ch, 'run:%x' % (t20 * 2)]
            if r.random() < 0.4:
                ops += ['mm:%x:%x' % (r.randrange(1024), r.randrange(1024))]
            ops += ['vd', 'vr']
        ops += ['da', 'X:%s' % ','.join('%x' % kc for kc in keys)]
        g.add(['S'] + ops, 'end-to-end-v%d-%dns-%s' % (v, k, nv))
    return g.result('Lock step of implementation and model on the first instructions of both firmware images (windows of 32 Ki / 256 Ki steps, full '
                    'state compared after each window, host events injected in between); and end-to-end runs on the implementation under the '
                    'virtual clock: both images x emulated time per instruction from 50 ns to 4 us x blank / firmware-saved NVRAM, boot until the '
                    'priority level stays 0, then 5-11 keys at one per 20-60 ms with mouse events at random instants, then 2-5 printable RS-232 '
                    'bytes.')


PROPS['C01'] = {'gen': gen_c01, 'monitors': [monitors.mon_sys], 'level': 'other',
                'explanation': 'Partial: two Coq theorems (host mouse events change only the mouse / input-port / request registers, for any guest) plus evaluation, not proof, of the firmware-dependent conjuncts: the implementation is run under the virtual clock on both images (boot to priority level 0 + 1.5 s of emulated time, keyboard init 02 12, window non-blank, typed keys echoed once in order, printable bytes drawn and reported dirty, mouse events interleaved) and compared in lock step with the extracted Coq model on the first instructions of both images.',
                'assumptions': ['virtual clock only (std::time::Instant of the unguarded build is not modelled)',
                                'the firmware images are binaries without source: their behaviour is evaluated on sampled configurations and schedules, not proved']}

import cpucases  # noqa: E402,F401  (registers C02-C05)
