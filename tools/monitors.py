"""Spec-level monitors.  Each takes (case line, implementation observation line)
and returns None when the property held on that case, or a short reason when the
implementation's own observations contradict the property.  They do not look at
the model; they are used to turn a broken proof/correspondence into a concrete
failing input (and run on every case anyway).
"""
import os

FNV_OFF = 0xcbf29ce484222325
FNV_PRIME = 0x100000001b3
M64 = (1 << 64) - 1


def digest_pairs(pairs):
    h = FNV_OFF
    n = 0
    for i, b in pairs:
        if b:
            n += 1
            for x in ((i >> 16) & 255, (i >> 8) & 255, i & 255, b):
                h = ((h ^ x) * FNV_PRIME) & M64
    return '%x.%016x' % (n, h)


def split_obs(obs):
    if ' | ' in obs:
        a, b = obs.split(' | ', 1)
        return a.split(), b
    return obs.split(), None


def final_fields(fin):
    d = {}
    if fin:
        for t in fin.split():
            if ':' in t:
                k, v = t.split(':', 1)
                d[k] = v
    return d


MEMS = {'rom': (0x0, 0x20000, True), 'vid': (0x500000, 2, False), 'nv': (0x600000, 0x2000, False),
        'ram': (0x700000, 0x100000, False)}


def route(a):
    if a < 0x20000:
        return 'rom'
    if 0x200000 <= a < 0x200040:
        return 'duart'
    if 0x400000 <= a < 0x400004:
        return 'mouse'
    if 0x500000 <= a < 0x500002:
        return 'vid'
    if 0x600000 <= a < 0x602000:
        return 'nv'
    if 0x700000 <= a < 0x800000:
        return 'ram'
    return None


UNMODELLED = ('st', 'sx', 'run', 'rs', 'dc')


class Flat:
    """the flat byte-array reference for the memories"""

    def __init__(self):
        self.m = {k: {} for k in MEMS}

    def get(self, dev, off):
        return self.m[dev].get(off, 0)

    def digest(self, dev):
        return digest_pairs(sorted(self.m[dev].items()))


def lcg_bytes(seed, n):
    x = seed
    out = []
    for _ in range(n):
        x = (x * 6364136223846793005 + 1442695040888963407) & M64
        out.append(x >> 56)
    return out


def expect_access(flat, kind, a, v):
    """expected observation token for a bus access on a memory device, or None if not judged"""
    width = {'b': 1, 'h': 2, 'w': 4}[kind[1]]
    fetch = kind[0] == 'o'
    if not fetch and width == 2 and a & 1:
        return 'eA'
    if not fetch and width == 4 and a & 3:
        return 'eA'
    dev = route(a)
    if dev is None:
        return 'eN'
    if dev in ('duart', 'mouse'):
        return None
    base, size, ro = MEMS[dev]
    if kind[0] == 'w':
        if ro:
            return 'eW'
        if a + width > base + size:
            return 'eG'
        for i in range(width):
            flat.m[dev][a - base + i] = (v >> (8 * (width - 1 - i))) & 0xff
        return 'ok'
    if a + width > base + size:
        return 'eG'
    bs = [flat.get(dev, a - base + i) for i in range(width)]
    if fetch:
        val = sum(b << (8 * i) for i, b in enumerate(bs))
    else:
        val = 0
        for b in bs:
            val = (val << 8) | b
    return 'v%x' % val


def mon_flat_memory(case, obs):
    toks = case.split()[1:]
    if any(t.split(':')[0] in UNMODELLED for t in toks):
        return None
    out, fin = split_obs(obs)
    flat = Flat()
    for i, t in enumerate(toks):
        if i >= len(out):
            break
        f = t.split(':')
        k = f[0]
        o = out[i]
        if k == 'wn':
            a, n = int(f[1], 16), int(f[2], 16)
            if n > 0:
                e = expect_access(flat, 'wb', a, (n - 1) & 255)
                if e is not None and e != o:
                    return 'op %d (%s): flat byte-array reference expects %s, implementation gave %s' % (i, t, e, o)
            continue
        if k == 'lx':
            # a host load allowed to run past the end of its device (a panic by design): the bytes that fit are stored
            a = int(f[1], 16)
            data = bytes.fromhex(f[2])
            dev = route(a)
            if dev in MEMS:
                base, size, _ = MEMS[dev]
                if len(data) <= size:
                    for j, b in enumerate(data):
                        if a - base + j < size:
                            flat.m[dev][a - base + j] = b
                    want = 'ok' if a - base + len(data) <= size else 'p'
                    if o != want:
                        return 'op %d (%s): host load expected %s, got %s' % (i, t, want, o)
                    continue
                if o != 'eG':
                    return 'op %d: a host load longer than the device must be refused (Range), got %s' % (i, o)
                continue
            return None
        if o == 'p':
            return 'op %d (%s): the library panicked' % (i, t)
        if k in ('rb', 'rh', 'rw', 'oh', 'ow', 'wb', 'wh', 'ww'):
            a = int(f[1], 16)
            v = int(f[2], 16) if len(f) > 2 and k[0] == 'w' else 0
            e = expect_access(flat, k, a, v)
            if e is not None and e != o:
                return 'op %d (%s): flat byte-array reference expects %s, implementation gave %s' % (i, t, e, o)
        elif k in ('db', 'dw'):
            a = int(f[1], 16)
            e = expect_access(flat, 'rb' if k == 'db' else 'rw', a, 0)
            if e is not None:
                e2 = e if e.startswith('v') else 'n'
                if e2 != o:
                    return 'op %d (%s): host read expects %s, got %s' % (i, t, e2, o)
        elif k == 'ld':
            a = int(f[1], 16)
            data = bytes.fromhex(f[2])
            dev = route(a)
            if dev in MEMS:
                base, size, _ = MEMS[dev]
                if len(data) <= size and a - base + len(data) <= size:
                    for j, b in enumerate(data):
                        flat.m[dev][a - base + j] = b
                else:
                    return None
            else:
                return None
        elif k == 'ns':
            data = lcg_bytes(int(f[1], 16), int(f[2], 16))
            for j, b in enumerate(data[:0x2000]):
                flat.m['nv'][j] = b
        elif k == 'nx':
            for j, b in enumerate(bytes.fromhex(f[1])[:0x2000]):
                flat.m['nv'][j] = b
        elif k == 'ng':
            e = 'n2000.' + flat.digest('nv')
            if o != e:
                return 'op %d: get_nvram digest %s differs from the bytes the guest sees %s' % (i, o, e)
    if fin:
        ff = final_fields(fin)
        for dev in ('ram', 'rom', 'nv'):
            if ff.get(dev) != flat.digest(dev):
                return 'final %s digest %s differs from the flat byte-array reference %s' % (dev, ff.get(dev), flat.digest(dev))
        vidv = '%02x%02x' % (flat.get('vid', 0), flat.get('vid', 1))
        if ff.get('vid') != vidv:
            return 'display-start register %s differs from reference %s' % (ff.get('vid'), vidv)
    return None


def mon_video(case, obs):
    """C15: frame = RAM[4*reg .. +0x19000); dirty = some successful write since the last fetch landed in the window
    current at that write; cleared only by the fetch."""
    toks = case.split()[1:]
    if any(t.split(':')[0] in UNMODELLED for t in toks):
        return None
    out, fin = split_obs(obs)
    flat = Flat()
    dirty = False
    for i, t in enumerate(toks):
        if i >= len(out):
            break
        f = t.split(':')
        k = f[0]
        o = out[i]
        if k in ('wb', 'wh', 'ww'):
            a = int(f[1], 16)
            v = int(f[2], 16)
            width = {'b': 1, 'h': 2, 'w': 4}[k[1]]
            reg = (flat.get('vid', 0) << 8) | flat.get('vid', 1)
            start = 0x700000 + 4 * reg
            e = expect_access(flat, k, a, v)
            if o == 'ok' and any(start <= a + j < start + 0x19000 for j in range(width)):
                dirty = True
        elif k == 'wn':
            a, n = int(f[1], 16), int(f[2], 16)
            reg = (flat.get('vid', 0) << 8) | flat.get('vid', 1)
            start = 0x700000 + 4 * reg
            if n > 0:
                expect_access(flat, 'wb', a, (n - 1) & 255)
                if o == 'ok' and start <= a < start + 0x19000:
                    dirty = True
        elif k == 'vd':
            if o != 'd%d' % (1 if dirty else 0):
                return 'op %d: dirty indication %s, but writes into the window since the last fetch: %s' % (i, o, dirty)
        elif k == 'vr':
            reg = (flat.get('vid', 0) << 8) | flat.get('vid', 1)
            st = 4 * reg
            pairs = sorted((off - st, b) for off, b in flat.m['ram'].items() if st <= off < st + 0x19000)
            e = 'f19000.' + digest_pairs(pairs)
            if o != e:
                return 'op %d: fetched frame %s is not RAM[4*%x .. +0x19000) = %s' % (i, o, reg, e)
            dirty = False
    if fin:
        ff = final_fields(fin)
        if ff.get('dirty') != ('1' if dirty else '0'):
            return 'final dirty flag %s, expected %s' % (ff.get('dirty'), dirty)
    return None


def mon_mouse(case, obs):
    """C20"""
    toks = case.split()[1:]
    out, fin = split_obs(obs)
    x = y = 0
    req = False          # input-port-change request asserted
    lvl = {}             # button -> pressed?
    for i, t in enumerate(toks):
        if i >= len(out):
            break
        f = t.split(':')
        k = f[0]
        o = out[i]
        if k == 'mm':
            x, y = int(f[1], 16) & 0xffff, int(f[2], 16) & 0xffff
        elif k in ('md', 'mu'):
            b = int(f[1], 16) & 0xff
            req = True
            if b <= 2:
                lvl = {b: (k == 'md')}     # only the reported button's level is asserted by the property
                lvl['chg'] = b
            else:
                lvl = {}
        elif k == 'rh' and f[1] == '400000':
            if o != 'v%x' % y:
                return 'op %d: vertical mouse register %s, last reported y=%x' % (i, o, y)
        elif k == 'rh' and f[1] == '400002':
            if o != 'v%x' % x:
                return 'op %d: horizontal mouse register %s, last reported x=%x' % (i, o, x)
        elif k == 'rb' and f[1] == '200037' and o.startswith('v'):
            v = int(o[1:], 16)
            bit = {0: 8, 1: 2, 2: 1}
            for b, pressed in lvl.items():
                if b == 'chg':
                    continue
                if bool(v & bit[b]) == pressed:
                    return 'op %d: input port %02x shows button %d %s after it was reported %s' % (
                        i, v, b, 'released' if v & bit[b] else 'pressed', 'pressed' if pressed else 'released')
        elif k == 'rb' and f[1] == '200013' and o.startswith('v'):
            v = int(o[1:], 16)
            if 'chg' in lvl:
                cb = {0: 0x80, 1: 0x20, 2: 0x10}[lvl['chg']]
                if not v & cb:
                    return 'op %d: IPCR %02x lacks the change bit of button %d' % (i, v, lvl['chg'])
            req = False
            lvl.pop('chg', None)
        elif k == 'gi':
            if req and (o == 'i-' or not int(o[1:], 16) & 2):
                return 'op %d: input-port-change request not presented (%s) although a button event is unacknowledged' % (i, o)
        elif k in ('t', 'sv'):
            pass
    if fin:
        ff = final_fields(fin)
        if ff.get('mouse') != '%x,%x' % (x, y):
            return 'final mouse position %s, last reported %x,%x' % (ff.get('mouse'), x, y)
    return None


_IMG = {}


def image(version):
    if version not in _IMG:
        d = '/verif/build/rom'
        v = 1 if version == 1 else 2
        lo = open(os.path.join(d, 'LO_ROM_V%d.bin' % v), 'rb').read()
        hi = open(os.path.join(d, 'HI_ROM_V%d.bin' % v), 'rb').read()
        _IMG[version] = lo + hi
    return _IMG[version]


def pinned_ok():
    import hashlib
    pins = {}
    for l in open('/verif/pins/rom.sha256'):
        h, n = l.split()
        pins[n] = h
    for n, h in pins.items():
        data = open('/verif/build/rom/%s.bin' % n, 'rb').read()
        if hashlib.sha256(data).hexdigest() != h:
            return 'firmware array %s does not match the pinned published image' % n
    return None


def mon_reset(case, obs):
    """C16: after reset(v) the ROM prefix is the selected image, registers come from the reset PCB; NVRAM host view =
    guest view; reset never alters NVRAM."""
    p = pinned_ok()
    if p:
        return p
    toks = case.split()[1:]
    out, fin = split_obs(obs)
    rom = {}
    nv = {}
    nv_known = True
    ran = False
    last_reset = None
    for i, t in enumerate(toks):
        if i >= len(out):
            break
        f = t.split(':')
        k = f[0]
        o = out[i]
        if k == 'rs':
            v = int(f[1], 16) & 0xff
            img = image(1 if v == 1 else 2)
            for j, b in enumerate(img):
                rom[j] = b
            if o != 'ok':
                return 'op %d: reset(%d) returned %s' % (i, v, o)
            last_reset = (i, img)
            ran = False
        elif k == 'gr' and last_reset and last_reset[0] == i - 1:
            img = last_reset[1]
            w = lambda a: int.from_bytes(img[a:a + 4], 'big')
            pcb = w(0x80)
            psw, pc, sp = w(pcb), w(pcb + 4), w(pcb + 8)
            if psw & 0x80:
                psw &= ~0x80
                pcb += 12
            psw = (psw & ~0x78) | (3 << 3)
            regs = [int(x, 16) for x in o[2:].split(',')]
            if (regs[13], regs[11], regs[15], regs[12]) != (pcb, psw, pc, sp):
                return 'op %d: after reset PCBP/PSW/PC/SP = %x/%x/%x/%x, the reset control block prescribes %x/%x/%x/%x' % (
                    i, regs[13], regs[11], regs[15], regs[12], pcb, psw, pc, sp)
        elif k == 'rb' and o.startswith('v'):
            a = int(f[1], 16)
            if a < 0x20000 and rom.get(a, 0) != int(o[1:], 16):
                return 'op %d: ROM byte at %x reads %s, image has %02x' % (i, a, o, rom.get(a, 0))
            if 0x600000 <= a < 0x602000 and nv_known and nv.get(a - 0x600000, 0) != int(o[1:], 16):
                return 'op %d: guest reads NVRAM[%x]=%s, host image has %02x' % (i, a - 0x600000, o, nv.get(a - 0x600000, 0))
        elif k in ('run', 'st', 'sx'):
            nv_known = False   # the firmware may write NVRAM
            ran = True
        elif k == 'wb':
            a = int(f[1], 16)
            if 0x600000 <= a < 0x602000 and o == 'ok':
                nv[a - 0x600000] = int(f[2], 16) & 0xff
        elif k == 'ns':
            data = lcg_bytes(int(f[1], 16), int(f[2], 16))
            for j, b in enumerate(data[:0x2000]):
                nv[j] = b
            if len(data) >= 0x2000:
                nv_known = True
        elif k == 'nx':
            data = bytes.fromhex(f[1])
            for j, b in enumerate(data[:0x2000]):
                nv[j] = b
            if len(data) >= 0x2000:
                nv_known = True
        elif k == 'ng':
            if nv_known:
                e = 'n2000.' + digest_pairs(sorted(nv.items()))
                if o != e:
                    return 'op %d: host NVRAM snapshot %s differs from what was stored %s' % (i, o, e)
    if fin:
        ff = final_fields(fin)
        e = digest_pairs(sorted(rom.items()))
        if ff.get('rom') != e:
            return 'final ROM digest %s is not the selected image (%s)' % (ff.get('rom'), e)
    return None


# --------------------------------------------------------------------------- DUART monitors

def parse_snap(tok):
    """D:... -> dict with both ports and the DUART-level registers"""
    v = [int(x) for x in tok[2:].split(',')]
    i = 0
    ports = []
    for _ in range(2):
        p = {}
        p['mode0'], p['mode1'], p['mode_ptr'], p['stat'], p['conf'] = v[i:i + 5]
        i += 5
        n = v[i]; i += 1
        p['fifo'] = v[i:i + n]; i += n
        p['rx_shift'], p['tx_hold'], p['tx_shift'] = v[i:i + 3]; i += 3
        n = v[i]; i += 1
        p['rxq'] = v[i:i + n]; i += n
        n = v[i]; i += 1
        p['txq'] = v[i:i + n]; i += n
        p['char_delay'], p['next_tx'], p['next_rx'] = v[i:i + 3]; i += 3
        ports.append(p)
    d = dict(zip(['acr', 'ipcr', 'inprt', 'outprt', 'isr', 'imr', 'ivec', 'next_vblank'], v[i:i + 8]))
    d['ports'] = ports
    return d


def final_snap(fin):
    if not fin:
        return None
    for t in fin.split():
        if t.startswith('D:'):
            return parse_snap(t)
    return None


def duart_events(case, obs):
    toks = case.split()[1:]
    out, fin = split_obs(obs)
    return toks, out, fin


def is_subseq(a, b):
    it = iter(b)
    return all(any(x == y for y in it) for x in a)


def chan_of(addr):
    off = addr - 0x200000
    if 0 <= off < 0x20:
        return 0, off
    if 0x20 <= off < 0x40:
        return 1, off - 0x20
    return None, off


def mon_rx_path(case, obs):
    """C08: bytes read while RxRDY form an in-order subsequence of the bytes queued; exact conservation when no
    overrun was flagged, no receiver reset was issued and no ungated read consumed a byte."""
    toks, out, fin = duart_events(case, obs)
    enq = [[], []]
    deliv = [[], []]
    lossy = [False, False]        # reset / ungated read / loop-back seen
    loopback = [False, False]
    mode_ptr = [0, 0]
    last_status = [None, None]
    for i, t in enumerate(toks):
        if i >= len(out):
            break
        f = t.split(':')
        k = f[0]
        o = out[i]
        if o == 'p':
            return 'op %d (%s) panicked' % (i, t)
        if k == 'qa':
            enq[0].append(int(f[1], 16) & 0xff)
        elif k == 'qb':
            enq[1].append(int(f[1], 16) & 0xff)
        elif k in ('rb', 'rh', 'rw', 'wb', 'wh', 'ww'):
            a = int(f[1], 16) + {'b': 0, 'h': 2, 'w': 3}[k[1]]
            ch, off = chan_of(a)
            if ch is None or not (0x200000 <= int(f[1], 16) < 0x200040):
                continue
            if k[0] == 'r':
                if off == 0x07 and o.startswith('v'):
                    last_status[ch] = int(o[1:], 16)
                    continue
                if off == 0x0f and o.startswith('v'):
                    if last_status[ch] is not None and last_status[ch] & 1:
                        deliv[ch].append(int(o[1:], 16))
                    else:
                        lossy[ch] = True
                if off == 0x03:
                    mode_ptr[ch] ^= 1
            else:
                v = int(f[2], 16) & 0xff
                if off == 0x03:
                    if mode_ptr[ch] == 1 and (v & 0xc0) == 0x80:
                        loopback[ch] = True
                    if mode_ptr[ch] == 1 and (v & 0xc0) != 0x80 and loopback[ch]:
                        pass
                    mode_ptr[ch] ^= 1
                if off == 0x0b:
                    x = (v >> 4) & 7
                    if x == 1:
                        mode_ptr[ch] = 0
                    if x == 2:
                        lossy[ch] = True
                    if x == 4:
                        lossy[ch] = True      # reset-error may clear an overrun flag that was raised: no exact accounting
            last_status[ch] = None if not (k[0] == 'r' and off == 0x07) else last_status[ch]
        if k not in ('rb',):
            pass
    snap = final_snap(fin)
    for ch in (0, 1):
        if loopback[ch]:
            continue
        if not is_subseq(deliv[ch], enq[ch]):
            return 'channel %s: bytes read while RxRDY %s are not an in-order subsequence of the bytes queued %s' % (
                'AB'[ch], ['%02x' % x for x in deliv[ch]], ['%02x' % x for x in enq[ch]])
        if snap and not lossy[ch]:
            p = snap['ports'][ch]
            pipe = deliv[ch] + p['fifo'] + ([p['rx_shift']] if p['rx_shift'] >= 0 else []) + p['rxq']
            if pipe != enq[ch] and not (p['stat'] & 0x10):
                return 'channel %s: delivered+buffered %s differs from queued %s and no overrun is flagged' % (
                    'AB'[ch], ['%02x' % x for x in pipe], ['%02x' % x for x in enq[ch]])
    return None


def mon_tx_path(case, obs):
    """C09: bytes written while TxRDY reach the host exactly once, in order (no reset-transmitter, no loop-back)."""
    toks, out, fin = duart_events(case, obs)
    written = [[], []]
    polled = [[], []]
    skip = [False, False]
    mode_ptr = [0, 0]
    last_status = [None, None]
    for i, t in enumerate(toks):
        if i >= len(out):
            break
        f = t.split(':')
        k = f[0]
        o = out[i]
        if o == 'p':
            return 'op %d (%s) panicked' % (i, t)
        if k in ('pa', 'pb'):
            ch = 0 if k == 'pa' else 1
            if o != 'c-':
                polled[ch].append(int(o[1:], 16))
            continue
        if k in ('rb', 'rh', 'rw', 'wb', 'wh', 'ww') and 0x200000 <= int(f[1], 16) < 0x200040:
            a = int(f[1], 16) + {'b': 0, 'h': 2, 'w': 3}[k[1]]
            ch, off = chan_of(a)
            if ch is None:
                continue
            if k[0] == 'r':
                if off == 0x07 and o.startswith('v'):
                    last_status[ch] = int(o[1:], 16)
                    continue
                if off == 0x03:
                    mode_ptr[ch] ^= 1
            else:
                v = int(f[2], 16) & 0xff
                if off == 0x0f:
                    if last_status[ch] is not None and last_status[ch] & 4:
                        written[ch].append(v)
                    else:
                        skip[ch] = True     # ungated write: may overwrite, outside the property
                if off == 0x03:
                    if mode_ptr[ch] == 1 and (v & 0xc0) == 0x80:
                        skip[ch] = True
                    mode_ptr[ch] ^= 1
                if off == 0x0b:
                    x = (v >> 4) & 7
                    if x == 1:
                        mode_ptr[ch] = 0
                    if x == 3:
                        skip[ch] = True
            last_status[ch] = None
    snap = final_snap(fin)
    for ch in (0, 1):
        if skip[ch] or not snap:
            continue
        p = snap['ports'][ch]
        pipe = polled[ch] + p['txq'] + ([p['tx_shift']] if p['tx_shift'] >= 0 else []) + ([p['tx_hold']] if p['tx_hold'] >= 0 else [])
        if pipe != written[ch]:
            return 'channel %s: polled+pending %s differs from the bytes written while TxRDY %s' % (
                'AB'[ch], ['%02x' % x for x in pipe], ['%02x' % x for x in written[ch]])
    return None


def mon_status_truth(case, obs):
    """C14 (adjacent-op patterns): status shows ready -> the very next interrupt poll names the source;
    after a draining read / a disable command, the next poll and ISR read show the source withdrawn;
    in every snapshot: RxRDY implies a non-empty FIFO and an enabled receiver, TxRDY implies an empty holding register."""
    toks, out, fin = duart_events(case, obs)
    n = min(len(toks), len(out))
    for i in range(n):
        if out[i] == 'p':
            return 'op %d (%s) panicked' % (i, toks[i])
        t = toks[i]
        if out[i].startswith('D:'):
            s = parse_snap(out[i])
            for ch, p in enumerate(s['ports']):
                if p['stat'] & 1 and (not p['fifo'] or not p['conf'] & 2):
                    return 'op %d: channel %s reports RxRDY with fifo=%s conf=%x' % (i, 'AB'[ch], p['fifo'], p['conf'])
                if p['stat'] & 4 and p['tx_hold'] >= 0:
                    return 'op %d: channel %s reports TxRDY while the holding register holds %02x' % (i, 'AB'[ch], p['tx_hold'])
        if i + 1 < n and toks[i + 1] == 'gi' and out[i].startswith('v'):
            if t == 'rb:200007':
                st = int(out[i][1:], 16)
                iv = 0 if out[i + 1] == 'i-' else int(out[i + 1][1:], 16)
                if st & 1 and not iv & 0x20:
                    return 'op %d: receiver A ready (status %02x) but the next interrupt poll gave %s' % (i, st, out[i + 1])
                if st & 4 and not iv & 0x10:
                    return 'op %d: transmitter A ready (status %02x) but the next interrupt poll gave %s' % (i, st, out[i + 1])
            if t == 'rb:200027':
                st = int(out[i][1:], 16)
                iv = 0 if out[i + 1] == 'i-' else int(out[i + 1][1:], 16)
                if st & 1 and not iv & 0x04:
                    return 'op %d: receiver B ready (status %02x) but the next interrupt poll gave %s' % (i, st, out[i + 1])
        # drain pattern: RHR read ; status read (not ready) ; gi
        if i + 2 < n and t in ('rb:20000f', 'rb:20002f') and toks[i + 2] == 'gi':
            ch = 0 if t == 'rb:20000f' else 1
            if toks[i + 1] == 'rb:%x' % (0x200007 + 0x20 * ch) and out[i + 1].startswith('v'):
                st = int(out[i + 1][1:], 16)
                iv = 0 if out[i + 2] == 'i-' else int(out[i + 2][1:], 16)
                bit = 0x20 if ch == 0 else 0x04
                if not st & 1 and iv & bit:
                    return 'op %d: receiver %s drained (status %02x) but its request is still presented (%s)' % (i, 'AB'[ch], st, out[i + 2])
    snap = final_snap(fin)
    if snap:
        for ch, p in enumerate(snap['ports']):
            if p['stat'] & 1 and (not p['fifo'] or not p['conf'] & 2):
                return 'final state: channel %s reports RxRDY with fifo=%s conf=%x' % ('AB'[ch], p['fifo'], p['conf'])
            if p['stat'] & 4 and p['tx_hold'] >= 0:
                return 'final state: channel %s reports TxRDY with the holding register occupied' % 'AB'[ch]
    return None


DS_RATES = ([50, 110, 134.5, 200, 300, 600, 1200, 1050, 2400, 4800, 7200, 9600, 38400],
            [75, 110, 134.5, 150, 300, 600, 1200, 2000, 2400, 4800, 1800, 9600, 19200])


def mon_pacing(case, obs):
    """C17: from the snapshots taken after each service call: successive transfers on a channel are at least one
    character time apart; the character time programmed by a CSR write is 8..12 bit times of the data-sheet rate;
    the vertical-blank deadline advances by 1/60 s and only after it has passed."""
    toks, out, fin = duart_events(case, obs)
    n = min(len(toks), len(out))
    stepped = any(t.split(':')[0] in ('run', 'st', 'sx') for t in toks)
    now = 0
    acr = 0
    last_snap = None
    last_rx = [None, None]
    last_txdone = [None, None]
    for i in range(n):
        t = toks[i]
        f = t.split(':')
        if out[i] == 'p':
            return 'op %d (%s) panicked' % (i, t)
        if f[0] == 't':
            now = int(f[1], 16)
        elif f[0] == 'wb' and f[1] == '200013':
            acr = int(f[2], 16) & 0xff
        elif f[0] == 'wb' and f[1] in ('200007', '200027') and i + 1 <= n:
            # find the next snapshot to read the programmed delay
            code = (int(f[2], 16) >> 4) & 0xf
            for j in range(i + 1, n):
                if out[j].startswith('D:'):
                    ch = 0 if f[1] == '200007' else 1
                    dly = parse_snap(out[j])['ports'][ch]['char_delay']
                    if code <= 12:
                        rate = DS_RATES[1 if acr & 0x80 else 0][code]
                        if not (8e9 / rate <= dly + 1 and dly <= 12e9 / rate):
                            return 'op %d: clock-select %d (set %d) gives a character time of %d ns: outside 8..12 bit times at %s baud' % (
                                i, code, 2 if acr & 0x80 else 1, dly, rate)
                    break
                if toks[j].split(':')[0] == 'wb' and toks[j].split(':')[1] in (f[1], '200013'):
                    break
        elif out[i].startswith('D:'):
            s = parse_snap(out[i])
            if last_snap is not None:
                for ch in (0, 1):
                    p0, p1 = last_snap['ports'][ch], s['ports'][ch]
                    if len(p1['rxq']) < len(p0['rxq']):
                        if last_rx[ch] is not None and now - last_rx[ch][0] < last_rx[ch][1]:
                            return 'op %d: channel %s received two characters %d ns apart, character time %d ns' % (
                                i, 'AB'[ch], now - last_rx[ch][0], last_rx[ch][1])
                        last_rx[ch] = (now, p1['char_delay'])
                if s['next_vblank'] != last_snap['next_vblank'] and not stepped:
                    # (cases that step the processor advance the clock inside `run`: judged against the model only)
                    if not (now > last_snap['next_vblank'] and s['next_vblank'] == now + 16666666):
                        return 'op %d: vertical-blank deadline moved from %d to %d at time %d' % (
                            i, last_snap['next_vblank'], s['next_vblank'], now)
            last_snap = s
    return None


def final_fields_str(tok):
    """fields of an `fs` observation (tokens joined by spaces inside one op output)"""
    d = {}
    for t in tok.split(';'):
        k, _, v = t.partition(':')
        d[k] = v
    return d


# ----------------------------------------------------------------------------- C19

def _merge_ok(final, pre, seqs):
    """final == pre ++ (some interleaving of the sequences in seqs)"""
    if final[:len(pre)] != pre:
        return False
    rest = final[len(pre):]
    if len(rest) != sum(len(x) for x in seqs):
        return False
    # greedy does not work for equal heads; sequences here carry disjoint alphabets per thread, so greedy is exact
    idx = [0] * len(seqs)
    for b in rest:
        for j, sq in enumerate(seqs):
            if idx[j] < len(sq) and sq[idx[j]] == b:
                idx[j] += 1
                break
        else:
            return False
    return True


def _rc_ok(op, res):
    name = op.split(':')[0]
    if res == 'p':
        return 'call %s panicked' % op
    if name in ('init', 'step', 'loop', 'mm', 'md', 'mu', 'qa', 'qb', 'nvset'):
        return None if res == '0' else '%s returned %s (expected 0)' % (op, res)
    if name in ('pc', 'reg', 'oport'):
        return None if res.startswith('0:') else '%s returned %s' % (op, res)
    if name in ('rdw', 'rdb'):
        sentinel = 'deadbeef' if name == 'rdw' else 'a5'
        if res.startswith('0:') or res == '1:' + sentinel:
            return None
        return '%s returned %s (0:<value> or 1 with the output untouched)' % (op, res)
    if name in ('pa', 'pb'):
        if res == '2:a5' or (res.startswith('0:') and len(res) <= 4):
            return None
        return 'transmit poll returned %s (0:<byte> or 2 with the output untouched)' % res
    if name == 'dirty':
        return None if res in ('0', '1') else 'dirty returned ' + res
    if name == 'vram':
        return None if res.startswith('f') else 'video_ram returned ' + res
    if name == 'nvget':
        return None if res.startswith('0:') else 'nvget returned ' + res
    return None


def mon_capi(case, obs):
    toks = case.split()[1:]
    if toks[0] == 'C':
        ops = toks[1:]
        out = obs.split()
        last_snap = None
        last_nvset = None
        inited = False
        poisoned = False
        for i, op in enumerate(ops):
            if i >= len(out):
                break
            res = out[i]
            name = op.split(':')[0]
            if name in ('t',):
                continue
            if poisoned:
                # a call panicked under the lock: every later call must report failure, outputs untouched
                want = {'pc': '1:deadbeef', 'reg': '1:deadbeef', 'rdw': '1:deadbeef', 'rdb': '1:a5', 'oport': '1:a5', 'pa': '1:a5',
                        'pb': '1:a5', 'dirty': '0', 'vram': 'null'}.get(name)
                if name == 'nvget':
                    if not res.startswith('1:'):
                        return 'op %d: %s on a poisoned machine returned %s (expected failure)' % (i, op, res)
                elif name == 'snap':
                    pass
                elif res != (want or '1'):
                    return 'op %d: %s on a poisoned machine returned %s (expected %s)' % (i, op, res, want or '1')
                continue
            if res == 'p' and name in ('step', 'loop') and not inited:
                poisoned = True      # stepping a machine that was never initialised panics by design (HALT from zeroed ROM)
                continue
            if name == 'init' and res == '0':
                inited = True
            if name == 'snap':
                last_snap = parse_snap(res) if res.startswith('D:') else None
                continue
            e = _rc_ok(op, res)
            if e:
                return 'op %d: %s' % (i, e)
            if name in ('pa', 'pb') and last_snap is not None:
                q = last_snap['ports'][0 if name == 'pa' else 1]['txq']
                if (res == '2:a5') != (len(q) == 0):
                    return 'op %d: %s returned %s but %d bytes were pending' % (i, op, res, len(q))
                if q and res != '0:%x' % q[0]:
                    return 'op %d: %s returned %s, the oldest pending byte is %x' % (i, op, res, q[0])
            if name == 'nvset':
                last_nvset = digest_pairs(list(enumerate(lcg_bytes(int(op.split(':')[1], 16), 8192))))
            elif name == 'nvget':
                if last_nvset is not None and i > 0 and ops[i - 1].startswith('nvset') and res != '0:' + last_nvset:
                    return 'op %d: NVRAM image read back (%s) is not the image just stored (%s)' % (i, res, last_nvset)
            if name != 'snap':
                last_snap = None if name not in ('pa', 'pb') else None
        return None
    if toks[0] == 'T':
        spec = toks[3].split('/')
        parts = obs.split(' / ')
        if len(parts) != len(spec) + 2:
            return 'a thread did not finish (deadlock or crash): %s' % obs[:120]
        if not parts[0].startswith('D:') or not parts[-1].startswith('D:'):
            return 'the machine was left poisoned: %s ... %s' % (parts[0][:20], parts[-1][:20])
        pre, post = parse_snap(parts[0]), parse_snap(parts[-1])
        tail_ix = [i for i, s in enumerate(spec) if s.startswith('!')]
        spec = [s[1:] if s.startswith('!') else s for s in spec]      # '!': sequential tail after the threads
        thr_ops = [s.split(',') if s else [] for s in spec]
        thr_out = [p.split(',') if p else [] for p in parts[1:-1]]
        polled = {0: [], 1: []}
        enq = {0: [[] for _ in spec], 1: [[] for _ in spec]}
        for ti, (ops, outs) in enumerate(zip(thr_ops, thr_out)):
            if outs == ['p']:
                return 'thread %d panicked' % ti
            if len(ops) != len(outs):
                return 'thread %d: %d calls, %d results' % (ti, len(ops), len(outs))
            for op, res in zip(ops, outs):
                name = op.split(':')[0]
                if name == 't':
                    continue
                e = _rc_ok(op, res)
                if e:
                    return 'thread %d: %s' % (ti, e)
                if name in ('qa', 'qb'):
                    enq[0 if name == 'qa' else 1][ti].append(int(op.split(':')[1], 16))
                if name in ('pa', 'pb') and res.startswith('0:'):
                    polled[0 if name == 'pa' else 1].append((ti, int(res[2:], 16)))
        # the sequential tail runs alone: between two calls nothing steps the machine, so the dirty query must keep
        # answering the same until the frame is fetched (which alone resets it), and 0 after that
        for ti in tail_ix:
            last = None
            for op, res in zip(thr_ops[ti], thr_out[ti]):
                name = op.split(':')[0]
                if name == 'dirty':
                    if last is not None and res != last:
                        return 'tail: dirty answered %s and then %s with no step, write or frame fetch in between' % (last, res)
                    last = res
                elif name == 'vram':
                    last = '0'
                elif name in ('step', 'loop', 'init'):
                    last = None
        stepped = any(o.split(':')[0] in ('step', 'loop') for o in thr_ops[0])
        boot = sum(1 for o in thr_ops[0] if o.startswith('loop')) > 1000
        for ch in (0, 1):
            name = 'AB'[ch]
            pq = post['ports'][ch]
            if not boot:
                # nothing consumes the receive queue while the firmware is still in its first instructions:
                # every injected byte must be there, once, in per-thread order
                if not _merge_ok(pq['rxq'], pre['ports'][ch]['rxq'], enq[ch]):
                    return 'channel %s receive queue %s is not the old queue %s followed by an interleaving of the threads\' injections %s' % (
                        name, pq['rxq'], pre['ports'][ch]['rxq'], enq[ch])
                # polled bytes come off the front of the old transmit queue, each handed to exactly one poller
                got = [b for (_, b) in polled[ch]]
                old = pre['ports'][ch]['txq']
                if sorted(got + pq['txq']) != sorted(old):
                    return 'channel %s: polled %s + still pending %s is not what was pending before %s' % (name, got, pq['txq'], old)
        if boot:
            # keys typed by the stepping thread after the boot are transmitted on RS-232 once each, in order, and every
            # transmitted byte is handed out exactly once (polls + what is still pending)
            typed = []
            nloops = 0
            for o in thr_ops[0]:
                if o.startswith('loop'):
                    nloops += 1
                elif o.startswith('qb:') and nloops >= 5200:
                    typed.append(int(o.split(':')[1], 16))      # keys injected while the firmware still boots are not judged
            if typed:
                got0 = [b for (_, b) in polled[0]] + post['ports'][0]['txq']
                if got0 != pre['ports'][0]['txq'] + typed:
                    return 'keys typed after boot %s; RS-232 bytes handed to the pollers %s + pending %s' % (
                        typed, [b for (_, b) in polled[0]], post['ports'][0]['txq'])
            got = [b for (_, b) in polled[1]] + post['ports'][1]['txq']
            if sorted(got) != sorted(pre['ports'][1]['txq'] + [0x02, 0x12]) and sorted(got) != sorted(pre['ports'][1]['txq']):
                return 'keyboard bytes handed to the pollers %s (+ pending %s): the firmware sends 02 12 exactly once' % (polled[1], post['ports'][1]['txq'])
        return None
    return None


# ----------------------------------------------------------------------------- C01

def mon_sys(case, obs):
    toks = case.split()[1:]
    if toks and toks[0] in ('C', 'T'):
        return None          # C-interface call lists: judged by mon_capi
    if not toks or toks[0] != 'S':
        out, fin = split_obs(obs)
        if any(o == 'p' for o in out):
            return 'host panic while running the firmware'
        return None
    ops = toks[1:]
    out, fin = split_obs(obs)
    if any(o == 'p' for o in out):
        return 'host-side failure (panic) at op %d (%s)' % (out.index('p'), ops[out.index('p')] if out.index('p') < len(ops) else '?')
    if len(out) < len(ops):
        return None
    keys = [int(x, 16) for x in ops[-1][2:].split(',')] if ops[-1].startswith('X:') else []
    # the LAST boot in the case is the one that is judged
    bts = [i for i, o in enumerate(ops) if o.startswith('bt:')]
    for i in bts:
        if out[i] == 'bx':
            return 'firmware did not reach the interactive state (priority level 0) within the step budget'
    b = bts[-1]
    dk = ops.index('dk', b)
    kb = out[dk]
    if kb != 't2,12':
        return 'keyboard initialisation bytes after boot are %s (expected 02 12)' % kb
    vr0 = ops.index('vr', b)
    frame0 = out[vr0]
    if frame0.split('.')[1] == '0':
        return 'the display window is blank after boot'
    das = [i for i, o in enumerate(ops) if o == 'da' and i > b]
    echoed = [int(x, 16) for x in out[das[0]][1:].split(',') if x]
    if echoed != keys:
        return 'keys typed %s, transmitted on RS-232 %s' % (['%x' % k for k in keys], ['%x' % k for k in echoed])
    # frame unchanged by typing (no local echo), then every printable byte changes the frame and sets dirty
    prev = None
    i = das[0] + 1
    while i < len(ops):
        if ops[i] == 'vr' and prev is None:
            prev = out[i]
        elif ops[i].startswith('qa:'):
            j = ops.index('vd', i)
            kk = ops.index('vr', j)
            if out[j] != 'd1':
                return 'printable byte %s was not reported dirty' % ops[i]
            if out[kk] == prev:
                return 'printable byte %s did not change the display window' % ops[i]
            prev = out[kk]
            i = kk
        i += 1
    extra = [x for x in out[das[-1]][1:].split(',') if x]
    if len(das) > 1 and extra:
        return 'bytes %s were transmitted on RS-232 although no key was typed' % extra
    return None
