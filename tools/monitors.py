"""Spec-level monitors.  Each takes (case line, implementation observation line)
and returns None when the property held on that case, or a short reason when the
implementation's own observations contradict the property.  They do not look at
the model; they are used to turn a broken proof/correspondence into a concrete
failing input (and run on every case anyway).
"""
import os

FNV_OFF = 0xcbf29ce484222325
FNV_PRIME = 0x100000001b3
M64 = (1 << 64) - 1


def digest_pairs(pairs):
    h = FNV_OFF
    n = 0
    for i, b in pairs:
        if b:
            n += 1
            for x in ((i >> 16) & 255, (i >> 8) & 255, i & 255, b):
                h = ((h ^ x) * FNV_PRIME) & M64
    return '%x.%016x' % (n, h)


def split_obs(obs):
    if ' | ' in obs:
        a, b = obs.split(' | ', 1)
        return a.split(), b
    return obs.split(), None


def final_fields(fin):
    d = {}
    if fin:
        for t in fin.split():
            if ':' in t:
                k, v = t.split(':', 1)
                d[k] = v
    return d


MEMS = {'rom': (0x0, 0x20000, True), 'vid': (0x500000, 2, False), 'nv': (0x600000, 0x2000, False),
        'ram': (0x700000, 0x100000, False)}


def route(a):
    if a < 0x20000:
        return 'rom'
    if 0x200000 <= a < 0x200040:
        return 'duart'
    if 0x400000 <= a < 0x400004:
        return 'mouse'
    if 0x500000 <= a < 0x500002:
        return 'vid'
    if 0x600000 <= a < 0x602000:
        return 'nv'
    if 0x700000 <= a < 0x800000:
        return 'ram'
    return None


UNMODELLED = ('st', 'sx', 'run', 'rs', 'dc')


class Flat:
    """the flat byte-array reference for the memories"""

    def __init__(self):
        self.m = {k: {} for k in MEMS}

    def get(self, dev, off):
        return self.m[dev].get(off, 0)

    def digest(self, dev):
        return digest_pairs(sorted(self.m[dev].items()))


def lcg_bytes(seed, n):
    x = seed
    out = []
    for _ in range(n):
        x = (x * 6364136223846793005 + 1442695040888963407) & M64
        out.append(x >> 56)
    return out


def expect_access(flat, kind, a, v):
    """expected observation token for a bus access on a memory device, or None if not judged"""
    width = {'b': 1, 'h': 2, 'w': 4}[kind[1]]
    fetch = kind[0] == 'o'
    if not fetch and width == 2 and a & 1:
        return 'eA'
    if not fetch and width == 4 and a & 3:
        return 'eA'
    dev = route(a)
    if dev is None:
        return 'eN'
    if dev in ('duart', 'mouse'):
        return None
    base, size, ro = MEMS[dev]
    if kind[0] == 'w':
        if ro:
            return 'eW'
        if a + width > base + size:
            return 'eG'
        for i in range(width):
            flat.m[dev][a - base + i] = (v >> (8 * (width - 1 - i))) & 0xff
        return 'ok'
    if a + width > base + size:
        return 'eG'
    bs = [flat.get(dev, a - base + i) for i in range(width)]
    if fetch:
        val = sum(b << (8 * i) for i, b in enumerate(bs))
    else:
        val = 0
        for b in bs:
            val = (val << 8) | b
    return 'v%x' % val


def mon_flat_memory(case, obs):
    toks = case.split()[1:]
    if any(t.split(':')[0] in UNMODELLED for t in toks):
        return None
    out, fin = split_obs(obs)
    flat = Flat()
    for i, t in enumerate(toks):
        if i >= len(out):
            break
        f = t.split(':')
        k = f[0]
        o = out[i]
        if o == 'p':
            return 'op %d (%s): the library panicked' % (i, t)
        if k in ('rb', 'rh', 'rw', 'oh', 'ow', 'wb', 'wh', 'ww'):
            a = int(f[1], 16)
            v = int(f[2], 16) if len(f) > 2 else 0
            e = expect_access(flat, k, a, v)
            if e is not None and e != o:
                return 'op %d (%s): flat byte-array reference expects %s, implementation gave %s' % (i, t, e, o)
        elif k in ('db', 'dw'):
            a = int(f[1], 16)
            e = expect_access(flat, 'rb' if k == 'db' else 'rw', a, 0)
            if e is not None:
                e2 = e if e.startswith('v') else 'n'
                if e2 != o:
                    return 'op %d (%s): host read expects %s, got %s' % (i, t, e2, o)
        elif k == 'ld':
            a = int(f[1], 16)
            data = bytes.fromhex(f[2])
            dev = route(a)
            if dev in MEMS:
                base, size, _ = MEMS[dev]
                if len(data) <= size and a - base + len(data) <= size:
                    for j, b in enumerate(data):
                        flat.m[dev][a - base + j] = b
                else:
                    return None
            else:
                return None
        elif k == 'ns':
            data = lcg_bytes(int(f[1], 16), int(f[2], 16))
            for j, b in enumerate(data[:0x2000]):
                flat.m['nv'][j] = b
        elif k == 'nx':
            for j, b in enumerate(bytes.fromhex(f[1])[:0x2000]):
                flat.m['nv'][j] = b
        elif k == 'ng':
            e = 'n2000.' + flat.digest('nv')
            if o != e:
                return 'op %d: get_nvram digest %s differs from the bytes the guest sees %s' % (i, o, e)
    if fin:
        ff = final_fields(fin)
        for dev in ('ram', 'rom', 'nv'):
            if ff.get(dev) != flat.digest(dev):
                return 'final %s digest %s differs from the flat byte-array reference %s' % (dev, ff.get(dev), flat.digest(dev))
        vidv = '%02x%02x' % (flat.get('vid', 0), flat.get('vid', 1))
        if ff.get('vid') != vidv:
            return 'display-start register %s differs from reference %s' % (ff.get('vid'), vidv)
    return None


def mon_video(case, obs):
    """C15: frame = RAM[4*reg .. +0x19000); dirty = some successful write since the last fetch landed in the window
    current at that write; cleared only by the fetch."""
    toks = case.split()[1:]
    if any(t.split(':')[0] in UNMODELLED for t in toks):
        return None
    out, fin = split_obs(obs)
    flat = Flat()
    dirty = False
    for i, t in enumerate(toks):
        if i >= len(out):
            break
        f = t.split(':')
        k = f[0]
        o = out[i]
        if k in ('wb', 'wh', 'ww'):
            a = int(f[1], 16)
            v = int(f[2], 16)
            width = {'b': 1, 'h': 2, 'w': 4}[k[1]]
            reg = (flat.get('vid', 0) << 8) | flat.get('vid', 1)
            start = 0x700000 + 4 * reg
            e = expect_access(flat, k, a, v)
            if o == 'ok' and any(start <= a + j < start + 0x19000 for j in range(width)):
                dirty = True
        elif k == 'vd':
            if o != 'd%d' % (1 if dirty else 0):
                return 'op %d: dirty indication %s, but writes into the window since the last fetch: %s' % (i, o, dirty)
        elif k == 'vr':
            reg = (flat.get('vid', 0) << 8) | flat.get('vid', 1)
            st = 4 * reg
            pairs = sorted((off - st, b) for off, b in flat.m['ram'].items() if st <= off < st + 0x19000)
            e = 'f19000.' + digest_pairs(pairs)
            if o != e:
                return 'op %d: fetched frame %s is not RAM[4*%x .. +0x19000) = %s' % (i, o, reg, e)
            dirty = False
    if fin:
        ff = final_fields(fin)
        if ff.get('dirty') != ('1' if dirty else '0'):
            return 'final dirty flag %s, expected %s' % (ff.get('dirty'), dirty)
    return None


def mon_mouse(case, obs):
    """C20"""
    toks = case.split()[1:]
    out, fin = split_obs(obs)
    x = y = 0
    req = False          # input-port-change request asserted
    lvl = {}             # button -> pressed?
    for i, t in enumerate(toks):
        if i >= len(out):
            break
        f = t.split(':')
        k = f[0]
        o = out[i]
        if k == 'mm':
            x, y = int(f[1], 16) & 0xffff, int(f[2], 16) & 0xffff
        elif k in ('md', 'mu'):
            b = int(f[1], 16) & 0xff
            req = True
            if b <= 2:
                lvl = {b: (k == 'md')}     # only the reported button's level is asserted by the property
                lvl['chg'] = b
            else:
                lvl = {}
        elif k == 'rh' and f[1] == '400000':
            if o != 'v%x' % y:
                return 'op %d: vertical mouse register %s, last reported y=%x' % (i, o, y)
        elif k == 'rh' and f[1] == '400002':
            if o != 'v%x' % x:
                return 'op %d: horizontal mouse register %s, last reported x=%x' % (i, o, x)
        elif k == 'rb' and f[1] == '200037' and o.startswith('v'):
            v = int(o[1:], 16)
            bit = {0: 8, 1: 2, 2: 1}
            for b, pressed in lvl.items():
                if b == 'chg':
                    continue
                if bool(v & bit[b]) == pressed:
                    return 'op %d: input port %02x shows button %d %s after it was reported %s' % (
                        i, v, b, 'released' if v & bit[b] else 'pressed', 'pressed' if pressed else 'released')
        elif k == 'rb' and f[1] == '200013' and o.startswith('v'):
            v = int(o[1:], 16)
            if 'chg' in lvl:
                cb = {0: 0x80, 1: 0x20, 2: 0x10}[lvl['chg']]
                if not v & cb:
                    return 'op %d: IPCR %02x lacks the change bit of button %d' % (i, v, lvl['chg'])
            req = False
            lvl.pop('chg', None)
        elif k == 'gi':
            if req and (o == 'i-' or not int(o[1:], 16) & 2):
                return 'op %d: input-port-change request not presented (%s) although a button event is unacknowledged' % (i, o)
        elif k in ('t', 'sv'):
            pass
    if fin:
        ff = final_fields(fin)
        if ff.get('mouse') != '%x,%x' % (x, y):
            return 'final mouse position %s, last reported %x,%x' % (ff.get('mouse'), x, y)
    return None


_IMG = {}


def image(version):
    if version not in _IMG:
        d = '/verif/build/rom'
        v = 1 if version == 1 else 2
        lo = open(os.path.join(d, 'LO_ROM_V%d.bin' % v), 'rb').read()
        hi = open(os.path.join(d, 'HI_ROM_V%d.bin' % v), 'rb').read()
        _IMG[version] = lo + hi
    return _IMG[version]


def pinned_ok():
    import hashlib
    pins = {}
    for l in open('/verif/pins/rom.sha256'):
        h, n = l.split()
        pins[n] = h
    for n, h in pins.items():
        data = open('/verif/build/rom/%s.bin' % n, 'rb').read()
        if hashlib.sha256(data).hexdigest() != h:
            return 'firmware array %s does not match the pinned published image' % n
    return None


def mon_reset(case, obs):
    """C16: after reset(v) the ROM prefix is the selected image, registers come from the reset PCB; NVRAM host view =
    guest view; reset never alters NVRAM."""
    p = pinned_ok()
    if p:
        return p
    toks = case.split()[1:]
    out, fin = split_obs(obs)
    rom = {}
    nv = {}
    nv_known = True
    ran = False
    last_reset = None
    for i, t in enumerate(toks):
        if i >= len(out):
            break
        f = t.split(':')
        k = f[0]
        o = out[i]
        if k == 'rs':
            v = int(f[1], 16) & 0xff
            img = image(1 if v == 1 else 2)
            for j, b in enumerate(img):
                rom[j] = b
            if o != 'ok':
                return 'op %d: reset(%d) returned %s' % (i, v, o)
            last_reset = (i, img)
            ran = False
        elif k == 'gr' and last_reset and last_reset[0] == i - 1:
            img = last_reset[1]
            w = lambda a: int.from_bytes(img[a:a + 4], 'big')
            pcb = w(0x80)
            psw, pc, sp = w(pcb), w(pcb + 4), w(pcb + 8)
            if psw & 0x80:
                psw &= ~0x80
                pcb += 12
            psw = (psw & ~0x78) | (3 << 3)
            regs = [int(x, 16) for x in o[2:].split(',')]
            if (regs[13], regs[11], regs[15], regs[12]) != (pcb, psw, pc, sp):
                return 'op %d: after reset PCBP/PSW/PC/SP = %x/%x/%x/%x, the reset control block prescribes %x/%x/%x/%x' % (
                    i, regs[13], regs[11], regs[15], regs[12], pcb, psw, pc, sp)
        elif k == 'rb' and o.startswith('v'):
            a = int(f[1], 16)
            if a < 0x20000 and rom.get(a, 0) != int(o[1:], 16):
                return 'op %d: ROM byte at %x reads %s, image has %02x' % (i, a, o, rom.get(a, 0))
            if 0x600000 <= a < 0x602000 and nv_known and nv.get(a - 0x600000, 0) != int(o[1:], 16):
                return 'op %d: guest reads NVRAM[%x]=%s, host image has %02x' % (i, a - 0x600000, o, nv.get(a - 0x600000, 0))
        elif k in ('run', 'st', 'sx'):
            nv_known = False   # the firmware may write NVRAM
            ran = True
        elif k == 'wb':
            a = int(f[1], 16)
            if 0x600000 <= a < 0x602000 and o == 'ok':
                nv[a - 0x600000] = int(f[2], 16) & 0xff
        elif k == 'ns':
            data = lcg_bytes(int(f[1], 16), int(f[2], 16))
            for j, b in enumerate(data[:0x2000]):
                nv[j] = b
            if len(data) >= 0x2000:
                nv_known = True
        elif k == 'ng':
            if nv_known:
                e = 'n2000.' + digest_pairs(sorted(nv.items()))
                if o != e:
                    return 'op %d: host NVRAM snapshot %s differs from what was stored %s' % (i, o, e)
    if fin:
        ff = final_fields(fin)
        e = digest_pairs(sorted(rom.items()))
        if ff.get('rom') != e:
            return 'final ROM digest %s is not the selected image (%s)' % (ff.get('rom'), e)
    return None
