#!/bin/sh
# muttest.sh <worktree> <n> <PID> [<PID>...]
# Confirm seeded change n of a scratch worktree (tests still pass; demo passes without, fails with), then run the
# quick checks of the given properties against it in a private mount namespace: a snapshot of /verif is bound
# over /verif and the worktree over /repo, so neither the real /repo nor the real /verif is touched.
wt=$1; n=$2; shift 2
tag=$(basename $wt)-$n
res=/var/tmp/mutres/$tag.txt
: > $res
# bring the scratch worktree to /repo's current HEAD (hook commits may have been added since it was created)
(cd $wt && git checkout -q -- . && git checkout -q --detach $(git -C /repo rev-parse HEAD))
conf=$(/verif/tools/confirm_mut.sh $wt $n 2>&1 | tail -1)
echo "CONFIRM $conf" >> $res
snap=/var/tmp/mv_$tag
rm -rf $snap; mkdir -p $snap
rsync -a --exclude .git /verif/ $snap/
(cd $wt && git checkout -q -- . && git apply out/m$n.diff) || { echo "APPLYFAIL" >> $res; exit 1; }
for pid in "$@"; do
  t0=$(date +%s)
  out=$(unshare -m sh -c "mount --bind $snap /verif && mount --bind $wt /repo && cd /verif && timeout 3000 bin/check $pid quick 2>&1" | grep -E "^(VIOLATION|OK|MACHINERY|KNOWN)" | head -4)
  t1=$(date +%s)
  echo "CHECK $pid ($((t1-t0))s): $out" >> $res
  for f in $snap/replays/$pid-*.json; do
    [ -f "$f" ] && { echo "--- $(basename $f)" >> $res; head -c 1500 "$f" >> $res; echo >> $res; }
  done
done
(cd $wt && git checkout -q -- .)
rm -rf $snap
cat $res | cut -c1-400
