#!/usr/bin/env python3
"""Regenerate MANIFEST.json from the table below (kept valid at all times)."""
import json

CLAIMED = {
 'C10': ('proof', 'Theorems over the model for all addresses (routing = documented map, no-device no-effect, device frame, no crash) plus routing translated from the source on every run; model tied to the code by differential runs (boundaries, aliases, stride of the address space, random histories) and a flat-memory monitor.',
         'Coq proof (routing by interval reasoning, frames) + translator + differential correspondence', 'DESIGN.md 7 C10'),
 'C11': ('proof', 'Theorems: big-endian composition, exact-bytes writes, read-back, unaligned faults unchanged, ROM writes rejected and ROM unchanged by any guest write, fetch = data bytes; correspondence on mixed-width histories with a flat byte-array monitor.',
         'Coq proof over the sparse-map memory + differential correspondence + flat-array monitor', 'DESIGN.md 7 C11'),
 'C15': ('proof', 'Theorems: frame = RAM[4*reg, +102400) for every register value (no panic), aligned accesses never straddle the window, dirty = landed-write-since-last-fetch by induction over all histories, invariant reachable; correspondence + independent window/dirty monitor.',
         'Coq proof by induction over write/fetch histories + differential correspondence + monitor', 'DESIGN.md 7 C15'),
}
NOTE = 'Trusted: Coq kernel, tools/gen.py, extraction (ExtrOcamlBasic only) + ocaml/driver.ml, harness + cfg hooks, Rust semantics as modelled. See DESIGN.md section 9.'

def main():
    m = json.load(open('/verif/MANIFEST.json'))
    m['checks'] = []
    for pid in sorted(CLAIMED):
        cat, text, tech, ref = CLAIMED[pid]
        m['checks'].append({
            'property_id': pid,
            'quick_cmd': 'bin/check %s quick' % pid,
            'thorough_cmd': 'bin/check %s thorough' % pid,
            'evidence_file': '/verif/evidence/%s.json' % pid,
            'replay_cmd_template': 'bin/check %s --replay {path}' % pid,
            'engine': 'coq+correspondence',
            'level_claimed': {'category': cat, 'text': text, 'design_ref': ref},
            'level_note': NOTE,
            'technique': tech,
        })
    m['not_applicable'] = [{'property_id': 'C%02d' % i, 'reason': 'check not built yet (work in progress; see DESIGN.md section 7)'}
                           for i in range(1, 21) if 'C%02d' % i not in CLAIMED]
    m['engines'] = [{'name': 'coq+correspondence', 'path': 'tools/vcheck.py', 'serves_properties': sorted(CLAIMED),
                     'kind_free_text': 'Coq theorems over a hand-written executable model; model tied to the code by regenerated tables (tools/gen.py) and by running the extracted model and the implementation on the same operation lists'}]
    json.dump(m, open('/verif/MANIFEST.json', 'w'), indent=1)

main()
