#!/usr/bin/env python3
"""Regenerate MANIFEST.json from the table below (kept valid at all times)."""
import json

CLAIMED = {
 'C02': ('proof', 'Theorems: results modulo 2^size, add carry (word/byte), word add overflow formula = signed overflow, borrow (incl. sign-extension preserving unsigned order), compare flags at each size, truncating division/remainder, MIN/-1 wraps, zero divide faults before any write, shift results for every count, opcode -> arm; model tied to the code on every data-processing opcode x operand forms x boundary/random values x flags.',
         'Coq proof of the arithmetic of each dispatch arm + differential correspondence over all ALU opcodes', 'DESIGN.md 7 C02'),
 'C03': ('proof', 'Theorems for every operand, register file and memory: effective address of the 7 direct and 4 deferred memory modes = architected (base + displacement sign-extended from its encoded width) mod 2^32; sources extended by the (expanded) operand type (bytes unsigned, halfwords/words signed); literals/immediates sign-extended from their encoded size; literal/immediate destinations rejected with no state change; a memory store is one bus write of the destination size that changes exactly 4/2/1 RAM bytes big-endian and no register; a register store changes that register only; expanded types: prefix type on the operand, inherited type otherwise, handed on to the following operands. Correspondence: MOVx with all 17x17 mode pairs x expanded types x base registers x boundary displacements, MOVAW/PUSHAW probes, operand positions 2-3.',
         'Coq proof over effective_address / read_op / write_op / decoder + differential correspondence', 'DESIGN.md 7 C03'),
 'C04': ('proof', 'Theorems: the opcode tables translated from the source on every run equal the architected opcode map (all 256 first bytes, all 256 second bytes after 0x30: defined-ness, operand size, operand kinds); for EVERY byte string the decoder returns an instruction of 1..26 bytes or an error, never overruns its 32-byte buffer, never exhausts its recursion bound (also for any non-crashing byte source); reserved descriptors and nested prefixes are rejected. Partial: no encoder round-trip theorem yet; operand contents are tied to the architected encoding by exhaustive-by-signature differential runs and an independent length/legality monitor.',
         'Coq proof (table equality by computation lifted to all bytes; totality and length bound by structural induction) + differential correspondence + architected-length monitor', 'DESIGN.md 7 C04'),
 'C05': ('proof', 'The branch/return conditions are translated from the source on every run and proved equal to the architected predicate for all 42 opcodes x 16 flag states; the model executes exactly that predicate with the prescribed PC/SP effect; exhaustive correspondence over opcode x flags x displacements plus an independent architected-predicate monitor.',
         'Coq proof over predicates regenerated from the source + exhaustive differential correspondence', 'DESIGN.md 7 C05'),
 'C06': ('proof', 'Theorems over exec of the model for ALL register and memory contents (pointers word-aligned in RAM): explicit final states of PUSHW, CALL, SAVE, RESTORE, RSB; the inverse pairs PUSHW/POPW, JSB|BSBB|BSBH/RSB, CALL/RET, SAVE/RESTORE for every save range restore SP/AP/FP/saved registers and return to the byte after the call site; SP moves by exactly +4/-4/+8/+28; bytes outside the architected words are unchanged (frame). Correspondence on generated balanced nests (depth 6 quick / 24 thorough) and edge-of-RAM single instructions; monitor: balanced nest restores SP, AP, FP, r3-r8 and ends at the expected PC. Not yet proved: the induction over arbitrary nesting derivations (covered by the generated nests).',
         'Coq proof by symbolic execution of the model with a load/store theory of RAM + differential correspondence on generated nests + balance monitor', 'DESIGN.md 7 C06'),
 'C07': ('proof', 'Theorems: a step polls the request once, before decode, and takes it exactly when IPL(PSW) < level(request) (level table translated from the source = documented levels); interrupt entry effect (old PCBP stacked on the interrupt stack, PC/PSW/SP saved in the old control block, new ones loaded from the block the vector table names; nothing else written); RETPS effect; interrupt + RETPS restores PC, SP, r0-r10, PCBP, ISP, NZVC, IPL, CM/PM, I for every machine state with aligned disjoint control blocks in RAM (handler block without R and I; blocks with R / I and CALLPS are covered by the differential runs and the transparency monitor, not yet by a theorem); CALLPS/RETPS/ENBVJMP/DISVJMP outside kernel level are refused with no state change.',
         'Coq proof by symbolic execution of on_interrupt / context switches / RETPS + generated level table + differential correspondence + transparency monitor', 'DESIGN.md 7 C07'),
 'C08': ('proof', 'Payload-polymorphic theorems by induction over all histories: delivered-while-ready ++ pipeline is an in-order subsequence of queued (no invention, duplication, reordering), loss only by flagged overrun / receiver reset / unready read, overrun flag sticky, FIFO refinement, invariant reachable; correspondence on receive-path histories incl. exhaustive short ones and fill x command x refill scenarios; conservation monitor.',
         'Coq proof by induction over port-operation histories (ghost queues) + differential correspondence + monitor', 'DESIGN.md 7 C08'),
 'C09': ('proof', 'Theorems: TxRDY implies empty holding register; gated writes reach the host queue exactly once in order (polled ++ pipeline = written) over all histories without reset-tx/loop-back; poll returns none iff empty; loop-back delivers to own receiver and never to the host; correspondence + monitor.',
         'Coq proof by induction over port-operation histories + differential correspondence + monitor', 'DESIGN.md 7 C09'),
 'C10': ('proof', 'Theorems over the model for all addresses (routing = documented map, no-device no-effect, device frame, no crash) plus routing translated from the source on every run; model tied to the code by differential runs (boundaries, aliases, stride of the address space, random histories) and a flat-memory monitor.',
         'Coq proof (routing by interval reasoning, frames) + translator + differential correspondence', 'DESIGN.md 7 C10'),
 'C11': ('proof', 'Theorems: big-endian composition, exact-bytes writes, read-back, unaligned faults unchanged, ROM writes rejected and ROM unchanged by any guest write, fetch = data bytes; correspondence on mixed-width histories with a flat byte-array monitor.',
         'Coq proof over the sparse-map memory + differential correspondence + flat-array monitor', 'DESIGN.md 7 C11'),
 'C13': ('proof', 'Theorems for all machine states (stack and second-level gate entry word-aligned in RAM, disjoint): Cpu::step maps NoDevice/Read/Write errors to on_exception; exception entry pushes the faulting PC and the PSW (ET 0, ISC 3, condition codes/CM/PM/I/IPL of the fault) at SP, SP+8, new PC/PSW from the gate tables; RETG effect; fault -> entry -> RETG restores PC, SP, NZVC, CM/PM and r0-r10; precision: operand reads never change registers or memories, a failing store stores nothing, faulting AND/OR/XOR/MUL/ALS-shape, MOV and ADD instructions leave all registers (PSW included) and memories unchanged. Correspondence on every instruction class x each operand faulting (unmapped / ROM) through the fault and RETG; independent monitor.',
         'Coq proof by symbolic execution over the load/store theory + PSW bit-field lemmas + differential correspondence + monitor', 'DESIGN.md 7 C13'),
 'C14': ('proof', 'Status invariant (RxRDY => data and enabled receiver, TxRDY => empty holding register) over all histories of every DUART operation; no phantom data; no lost wake-up (closed form of get_interrupt); no stuck request after drain or disable; correspondence on random register-level histories; monitors.',
         'Coq proof of a DUART invariant over all operation histories + differential correspondence + monitors', 'DESIGN.md 7 C14'),
 'C15': ('proof', 'Theorems: frame = RAM[4*reg, +102400) for every register value (no panic), aligned accesses never straddle the window, dirty = landed-write-since-last-fetch by induction over all histories, invariant reachable; correspondence + independent window/dirty monitor.',
         'Coq proof by induction over write/fetch histories + differential correspondence + monitor', 'DESIGN.md 7 C15'),
 'C16': ('proof', 'Theorems (parametric in the four firmware arrays, lengths as declared in the source): reset from any state leaves ROM[0, 64K or 128K) = low ++ high image of the selected version, never fails in the loads, leaves RAM/NVRAM/display register untouched; Cpu::reset state from the control block at 0x80 with the I-bit and ISC adjustments; idempotent; host NVRAM snapshot = guest view byte for byte in every well-formed state; restored image visible to the guest; published images pinned by SHA-256; correspondence on reset/run/ROM-write/NVRAM histories + monitor.',
         'Coq proof over the reset / load / NVRAM model + SHA-256 pin of the images + differential correspondence', 'DESIGN.md 7 C16'),
 'C17': ('proof', 'Theorems (virtual clock): source baud tables = model tables, every valid clock-select code x both sets gives 8..12 bit times of the data-sheet rate, receive transfers only after the deadline and re-armed one character time later, due byte moves on the next service, vertical blank only after its deadline and re-armed 1/60 s later, withdrawn on acknowledge; correspondence on pacing runs; partial: std::time::Instant of the unguarded build is not modelled.',
         'Coq proof over the timed DUART model (virtual clock) + differential correspondence + pacing monitor', 'DESIGN.md 7 C17'),
 'C18': ('proof', 'Theorems, each for EVERY machine state, operand mode and type (outcome = full final state or the error and the state it left): 2-operand = 3-operand with the destination repeated for ADD SUB MUL DIV MOD AND OR XOR x W/H/B; INC = ADD 1 (overflow test proved symmetric); DEC = SUB 1; TSTW = CMPW 0; CLR = MOV 0; MCOM = XOR with all ones; ALSW3 = LLSW3 (side-effect-free operand reads); operand access depends on the named slot only. Correspondence + monitor: both forms run from identical states in one case for all pairs incl. register-vs-memory operands, BIT/AND (N,Z), PUSHW+POPW vs MOVW and code placement / alignment, all 16 initial flag states sampled.',
         'Coq proof of pairwise equality of the model arms + differential correspondence + pair monitor', 'DESIGN.md 7 C18'),
 'C20': ('proof', 'Theorems: mouse registers return the last reported coordinates and nothing else changes them, every button event raises the request, buttons 0-2 show level and change bit, other buttons only raise the request, the request persists across every operation but the IPCR read; correspondence + monitor.',
         'Coq proof over bus and DUART model + differential correspondence + monitor', 'DESIGN.md 7 C20'),
}
NOTE = 'Trusted: Coq kernel, tools/gen.py, extraction (ExtrOcamlBasic only) + ocaml/driver.ml, harness + cfg hooks, Rust semantics as modelled. See DESIGN.md section 9.'

def main():
    m = json.load(open('/verif/MANIFEST.json'))
    m['checks'] = []
    for pid in sorted(CLAIMED):
        cat, text, tech, ref = CLAIMED[pid]
        m['checks'].append({
            'property_id': pid,
            'quick_cmd': 'bin/check %s quick' % pid,
            'thorough_cmd': 'bin/check %s thorough' % pid,
            'evidence_file': '/verif/evidence/%s.json' % pid,
            'replay_cmd_template': 'bin/check %s --replay {path}' % pid,
            'engine': 'coq+correspondence',
            'level_claimed': {'category': cat, 'text': text, 'design_ref': ref},
            'level_note': NOTE,
            'technique': tech,
        })
    m['not_applicable'] = [{'property_id': 'C%02d' % i, 'reason': 'check not built yet (work in progress; see DESIGN.md section 7)'}
                           for i in range(1, 21) if 'C%02d' % i not in CLAIMED]
    m['engines'] = [{'name': 'coq+correspondence', 'path': 'tools/vcheck.py', 'serves_properties': sorted(CLAIMED),
                     'kind_free_text': 'Coq theorems over a hand-written executable model; model tied to the code by regenerated tables (tools/gen.py) and by running the extracted model and the implementation on the same operation lists'}]
    json.dump(m, open('/verif/MANIFEST.json', 'w'), indent=1)

main()
