"""A small WE32100 encoder used by the case generators (spec side: written from the
architecture's encoding rules, not from the implementation)."""


def le(v, n):
    return [(v >> (8 * i)) & 0xff for i in range(n)]


def lit(n):
    """positive literal 0..63 or negative literal -16..-1"""
    assert -16 <= n <= 63
    return [n & 0xff]


def reg(r):
    assert 0 <= r <= 14
    return [0x40 | r]


def regdef(r):
    assert r not in (11, 15)
    return [0x50 | r]


def fpoff(n):
    assert 0 <= n <= 14
    return [0x60 | n]


def apoff(n):
    assert 0 <= n <= 14
    return [0x70 | n]


def immw(v):
    return [0x4f] + le(v, 4)


def immh(v):
    return [0x5f] + le(v, 2)


def immb(v):
    return [0x6f] + le(v, 1)


def absa(a):
    return [0x7f] + le(a, 4)


def absdef(a):
    return [0xef] + le(a, 4)


def wdisp(r, d):
    return [0x80 | r] + le(d, 4)


def wdispdef(r, d):
    return [0x90 | r] + le(d, 4)


def hdisp(r, d):
    return [0xa0 | r] + le(d, 2)


def hdispdef(r, d):
    return [0xb0 | r] + le(d, 2)


def bdisp(r, d):
    return [0xc0 | r] + le(d, 1)


def bdispdef(r, d):
    return [0xd0 | r] + le(d, 1)


ETYPE = {'uword': 0, 'uhalf': 2, 'byte': 3, 'word': 4, 'half': 6, 'sbyte': 7}


def ex(t, operand):
    return [0xe0 | ETYPE[t]] + operand


def ins(opcode, *operands):
    b = [opcode] if opcode < 0x100 else [opcode >> 8, opcode & 0xff]
    for o in operands:
        b += o
    return b


def hexs(bs):
    return ''.join('%02x' % b for b in bs)


# opcode numbers (WE32100 architecture)
OP = dict(
    MOVAW=0x04, RET=0x08, MOVTRW=0x0c, SAVE=0x10, RESTORE=0x18, SWAPWI=0x1c, SWAPHI=0x1e, SWAPBI=0x1f,
    POPW=0x20, JMP=0x24, TSTW=0x28, TSTH=0x2a, TSTB=0x2b, CALL=0x2c, JSB=0x34, BSBH=0x36, BSBB=0x37,
    BITW=0x38, BITH=0x3a, BITB=0x3b, CMPW=0x3c, CMPH=0x3e, CMPB=0x3f, NOP=0x70, NOP3=0x72, NOP2=0x73,
    RSB=0x78, BRH=0x7a, BRB=0x7b,
    CLRW=0x80, CLRH=0x82, CLRB=0x83, MOVW=0x84, MOVH=0x86, MOVB=0x87, MCOMW=0x88, MCOMH=0x8a, MCOMB=0x8b,
    MNEGW=0x8c, MNEGH=0x8e, MNEGB=0x8f, INCW=0x90, INCH=0x92, INCB=0x93, DECW=0x94, DECH=0x96, DECB=0x97,
    ADDW2=0x9c, ADDH2=0x9e, ADDB2=0x9f, PUSHW=0xa0, MODW2=0xa4, MODH2=0xa6, MODB2=0xa7,
    MULW2=0xa8, MULH2=0xaa, MULB2=0xab, DIVW2=0xac, DIVH2=0xae, DIVB2=0xaf, ORW2=0xb0, ORH2=0xb2, ORB2=0xb3,
    XORW2=0xb4, XORH2=0xb6, XORB2=0xb7, ANDW2=0xb8, ANDH2=0xba, ANDB2=0xbb, SUBW2=0xbc, SUBH2=0xbe, SUBB2=0xbf,
    ALSW3=0xc0, ARSW3=0xc4, ARSH3=0xc6, ARSB3=0xc7, INSFW=0xc8, INSFH=0xca, INSFB=0xcb,
    EXTFW=0xcc, EXTFH=0xce, EXTFB=0xcf, LLSW3=0xd0, LLSH3=0xd2, LLSB3=0xd3, LRSW3=0xd4, ROTW=0xd8,
    ADDW3=0xdc, ADDH3=0xde, ADDB3=0xdf, PUSHAW=0xe0, MODW3=0xe4, MODH3=0xe6, MODB3=0xe7,
    MULW3=0xe8, MULH3=0xea, MULB3=0xeb, DIVW3=0xec, DIVH3=0xee, DIVB3=0xef, ORW3=0xf0, ORH3=0xf2, ORB3=0xf3,
    XORW3=0xf4, XORH3=0xf6, XORB3=0xf7, ANDW3=0xf8, ANDH3=0xfa, ANDB3=0xfb, SUBW3=0xfc, SUBH3=0xfe, SUBB3=0xff,
    MVERNO=0x3009, ENBVJMP=0x300d, DISVJMP=0x3013, MOVBLW=0x3019, STREND=0x301f, INTACK=0x302f, STRCPY=0x3035,
    RETG=0x3045, GATE=0x3061, CALLPS=0x30ac, RETPS=0x30c8,
)

# conditional branches / returns: condition name -> (return opcode(s), halfword branch opcode(s), byte branch opcode(s))
COND = {
    'GE':  ([0x40], [0x42], [0x43]),        # signed >=
    'GT':  ([0x44], [0x46], [0x47]),        # signed >
    'LT':  ([0x48], [0x4a], [0x4b]),        # signed <
    'LE':  ([0x4c], [0x4e], [0x4f]),        # signed <=
    'GEU': ([0x50], [0x52], [0x53]),        # carry clear
    'GTU': ([0x54], [0x56], [0x57]),        # unsigned >
    'LTU': ([0x58], [0x5a], [0x5b]),        # carry set
    'LEU': ([0x5c], [0x5e], [0x5f]),        # unsigned <=
    'VC':  ([0x60], [0x62], [0x63]),
    'NE':  ([0x64, 0x74], [0x66, 0x76], [0x67, 0x77]),
    'VS':  ([0x68], [0x6a], [0x6b]),
    'EQ':  ([0x6c, 0x7c], [0x6e, 0x7e], [0x6f, 0x7f]),
}


def cond_holds(c, n, z, v, cf):
    """architected predicates over N, Z, V, C"""
    return {
        'GE': (not n) or z, 'GT': not (n or z), 'LT': n and not z, 'LE': n or z,
        'GEU': not cf, 'GTU': not (cf or z), 'LTU': cf, 'LEU': cf or z,
        'VC': not v, 'VS': v, 'NE': not z, 'EQ': z,
    }[c]
