#!/usr/bin/env python3
"""corr.py <ID> [tier]: run only the correspondence slice + monitors (no proofs), print a summary"""
import sys, os
sys.path.insert(0, '/verif/tools')
import cases, vcheck
pid = sys.argv[1]; tier = sys.argv[2] if len(sys.argv) > 2 else 'quick'
spec = cases.PROPS[pid]
g = spec['gen'](tier, int(os.environ.get('VERIF_SEED', '1')))
lines = g['cases']
impl, model = vcheck.run_cases(lines, pid + '-corr')
byid = {l.split(' ', 1)[0]: l for l in lines}
d = [k for k in byid if impl[k] != model[k]]
print('cases', len(lines), 'diffs', len(d))
for k in d[:int(os.environ.get('NSHOW', '3'))]:
    print('CASE ', byid[k][:600]); print('IMPL ', impl[k][:700]); print('MODEL', model[k][:700])
nm = 0
for mon in spec.get('monitors', []):
    for k in byid:
        r = mon(byid[k], impl[k])
        if r:
            nm += 1
            if nm <= 3:
                print('MON', k, r); print('   ', byid[k][:300]); print('   ', impl[k][:300])
print('monitor failures', nm)
