#!/bin/sh
# confirm_mut.sh <worktree> <n>   -- confirm mutation n (m<n>.diff + demo<n>) in the scratch worktree
wt=$1; n=$2
cd $wt || exit 9
export CARGO_NET_OFFLINE=true
git checkout -q -- . 2>/dev/null
res=""
rundemo() {
  if [ -d $wt/demo$n ]; then
    (cd $wt/demo$n && RUSTFLAGS="--cfg dmd_core_verif" cargo run --offline --release >/dev/null 2>&1; echo $?)
  elif [ -f $wt/out/demo$n.diff ]; then
    git apply $wt/out/demo$n.diff || { echo applyfail; return; }
    name=$(grep -o "mod demo_[a-z0-9_]*" $wt/out/demo$n.diff | head -1 | cut -d' ' -f2)
    cargo test --offline $name 2>&1 | grep -q "test result: ok" && echo 0 || echo 1
    git apply -R $wt/out/demo$n.diff
  else echo nodemo; fi
}
[ -d $wt/out/demo$n ] && [ ! -d $wt/demo$n ] && cp -r $wt/out/demo$n $wt/demo$n
clean=$(rundemo)
git apply $wt/out/m$n.diff || { echo "$wt m$n: patch does not apply"; exit 1; }
tests=$(cargo test --offline 2>&1 | grep "test result" | head -1 | grep -o "[0-9]* passed; [0-9]* failed")
mut=$(rundemo)
git checkout -q -- .
echo "$wt m$n: tests_with_mutation=[$tests] demo_on_clean_exit=$clean demo_with_mutation_exit=$mut"
