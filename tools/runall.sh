#!/bin/sh
# run every registered quick (or thorough) check in turn and print one line each
tier=${1:-quick}
for p in C01 C02 C03 C04 C05 C06 C07 C08 C09 C10 C11 C12 C13 C14 C15 C16 C17 C18 C19 C20; do
  /verif/bin/check $p $tier 2>&1 | grep -E "^(OK|VIOLATION|MACHINERY|KNOWN)" | head -3
done
