#!/usr/bin/env python3
"""Regenerate DESIGN.md section 0.1 (theorems per property) from coq/Props/*.v."""
import re, os
root = os.path.dirname(os.path.dirname(os.path.abspath(__file__)))
p = os.path.join(root, 'DESIGN.md')
lines = open(p).read().split('\n')
s = next(i for i, l in enumerate(lines) if l.startswith('### 0.1 '))
e = next(i for i, l in enumerate(lines) if l.startswith('### 0.2 '))
out = [lines[s], '']
for k in range(1, 21):
    pid = 'C%02d' % k
    f = os.path.join(root, 'coq', 'Props', pid + '.v')
    th = re.findall(r'^Theorem (\w+)', open(f).read(), re.M) if os.path.exists(f) else []
    out.append('* **%s** (%d): %s' % (pid, len(th), ', '.join('`%s`' % t for t in th)))
out.append('')
lines[s:e] = out
open(p, 'w').write('\n'.join(lines))
