#!/usr/bin/env python3
"""Regenerate the seeded-change table of DESIGN.md section 0.6 from seeded/*/meta.json."""
import json, os
root = os.path.dirname(os.path.dirname(os.path.abspath(__file__)))
p = os.path.join(root, 'DESIGN.md')
lines = open(p).read().split('\n')
start = next(i for i, l in enumerate(lines) if l.startswith('| id | change | quick check | note |'))
end = start + 2
while end < len(lines) and lines[end].startswith('| C'):
    end += 1
rows = []
for d in sorted(os.listdir(os.path.join(root, 'seeded'))):
    m = json.load(open(os.path.join(root, 'seeded', d, 'meta.json')))
    res = '; '.join('%s: %s' % (c['check'].split()[1], ('VIOLATION no-failing-input-found' if 'no-failing' in c['result'] else 'VIOLATION')
                                if 'VIOLATION' in c['result'] else c['result'][:20]) for c in m['checks_run'])
    rows.append('| %s | %s | %s | %s |' % (d, m['summary'][:150].replace('|', '//'), res, m.get('note', '')))
lines[start + 2:end] = rows
open(p, 'w').write('\n'.join(lines))
print(len(rows), 'rows')
