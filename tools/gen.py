#!/usr/bin/env python3
"""Translate the declarative parts of /repo/src into Gallina (coq/Gen/*.v).

Run on every check.  The translator never guesses: when the source leaves the
shape it understands it raises GenError, and the caller reports the affected
properties as no longer shown to hold.

Usage: gen.py [--repo /repo] [--out /verif/coq/Gen] [--bin /verif/build/rom]
"""
import hashlib
import os
import re
import sys


class GenError(Exception):
    pass


# ---------------------------------------------------------------- tokenizer

def strip_comments(src):
    """Remove // and /* */ comments and blank out string literals' contents
    (keeping the quotes) so that brace matching is safe."""
    out = []
    i = 0
    n = len(src)
    while i < n:
        c = src[i]
        if src.startswith('//', i):
            j = src.find('\n', i)
            if j < 0:
                j = n
            i = j
        elif src.startswith('/*', i):
            depth = 1
            i += 2
            while i < n and depth:
                if src.startswith('/*', i):
                    depth += 1
                    i += 2
                elif src.startswith('*/', i):
                    depth -= 1
                    i += 2
                else:
                    i += 1
        elif c == '"':
            j = i + 1
            while j < n and src[j] != '"':
                if src[j] == '\\':
                    j += 1
                j += 1
            out.append(src[i:j + 1])
            i = j + 1
        elif c == "'" and i + 2 < n and (src[i + 2] == "'" or (src[i + 1] == '\\' and src.find("'", i + 2) - i <= 4)):
            j = src.find("'", i + 2 if src[i + 1] == '\\' else i + 1)
            out.append(src[i:j + 1])
            i = j + 1
        else:
            out.append(c)
            i += 1
    return ''.join(out)


def match_delim(s, i):
    """s[i] is an opening delimiter; return index of the matching closer."""
    pairs = {'(': ')', '[': ']', '{': '}'}
    stack = []
    n = len(s)
    j = i
    while j < n:
        c = s[j]
        if c == '"':
            j += 1
            while s[j] != '"':
                if s[j] == '\\':
                    j += 1
                j += 1
        elif c in pairs:
            stack.append(pairs[c])
        elif c in ')]}':
            if not stack or stack[-1] != c:
                raise GenError('unbalanced delimiter at %d' % j)
            stack.pop()
            if not stack:
                return j
        j += 1
    raise GenError('unterminated delimiter at %d' % i)


def split_top(s, sep=','):
    """split on sep at nesting depth 0"""
    parts = []
    depth = 0
    cur = []
    i = 0
    while i < len(s):
        c = s[i]
        if c == '"':
            j = i + 1
            while s[j] != '"':
                if s[j] == '\\':
                    j += 1
                j += 1
            cur.append(s[i:j + 1])
            i = j + 1
            continue
        if c in '([{':
            depth += 1
        elif c in ')]}':
            depth -= 1
        if c == sep and depth == 0:
            parts.append(''.join(cur))
            cur = []
        else:
            cur.append(c)
        i += 1
    if ''.join(cur).strip():
        parts.append(''.join(cur))
    return [p.strip() for p in parts]


def parse_int(tok):
    t = tok.strip().replace('_', '')
    t = re.sub(r'(u8|u16|u32|u64|usize|i32|i64)$', '', t)
    try:
        if t.lower().startswith('0x'):
            return int(t, 16)
        return int(t)
    except ValueError:
        raise GenError('not an integer literal: %r' % tok)


def consts_of(src):
    """all `const NAME: T = <int literal>;`"""
    res = {}
    for m in re.finditer(r'\bconst\s+([A-Z_0-9a-z]+)\s*:\s*[A-Za-z0-9_]+\s*=\s*([^;]+);', src):
        name, val = m.group(1), m.group(2).strip()
        try:
            res[name] = parse_int(val)
        except GenError:
            pass
    return res


def array_of(src, name):
    m = re.search(r'\b(?:const|static)\s+' + name + r'\s*:\s*\[[^\]]*\]\s*=\s*\[', src)
    if not m:
        raise GenError('array %s not found' % name)
    i = m.end() - 1
    j = match_delim(src, i)
    return split_top(src[i + 1:j])


# ---------------------------------------------------------------- cpu.rs

DT = {'None': 'DNone', 'Byte': 'DByte', 'Half': 'DHalf', 'Word': 'DWord',
      'SByte': 'DSByte', 'UHalf': 'DUHalf', 'UWord': 'DUWord'}
OT = {'Lit': 'OLit', 'Src': 'OSrc', 'Dest': 'ODest', 'None': 'ONone'}


def parse_mnemonic(entry):
    e = re.sub(r'\s+', ' ', entry.strip())
    if e == 'None':
        return None
    m = re.match(r'^Some\(\s*mn!\((.*)\)\s*,?\s*\)$', e)
    if not m:
        raise GenError('mnemonic entry not understood: %r' % entry[:80])
    parts = split_top(m.group(1))
    if len(parts) != 4:
        raise GenError('mnemonic entry has %d fields' % len(parts))
    opcode = parse_int(parts[0])
    dm = re.match(r'^Data::(\w+)$', parts[1])
    if not dm or dm.group(1) not in DT:
        raise GenError('bad data type %r' % parts[1])
    name = parts[2].strip('"')
    om = re.match(r'^\[(.*)\]$', parts[3])
    if not om:
        raise GenError('bad operand list %r' % parts[3])
    ops = []
    for o in split_top(om.group(1)):
        mm = re.match(r'^OpType::(\w+)$', o)
        if not mm or mm.group(1) not in OT:
            raise GenError('bad operand type %r' % o)
        ops.append(OT[mm.group(1)])
    if len(ops) != 4:
        raise GenError('operand list length %d' % len(ops))
    return (opcode, DT[dm.group(1)], name, ops)


def coq_mn(e, names):
    if e is None:
        return 'None'
    opcode, dt, name, ops = e
    if name not in names:
        names.append(name)
    return 'Some (mkMn %d %s %d [%s])' % (opcode, dt, names.index(name), '; '.join(ops))


def find_fn(src, name):
    m = re.search(r'\bfn\s+' + name + r'\s*(<[^>]*>)?\s*\(', src)
    if not m:
        raise GenError('fn %s not found' % name)
    i = src.index('{', match_delim(src, m.end() - 1))
    j = match_delim(src, i)
    return src[i + 1:j]


def dispatch_arms(cpu):
    body = find_fn(cpu, 'dispatch')
    m = re.search(r'match\s+self\.ir\.opcode\s*\{', body)
    if not m:
        raise GenError('match self.ir.opcode not found')
    i = m.end() - 1
    j = match_delim(body, i)
    inner = body[i + 1:j]
    arms = []
    k = 0
    n = len(inner)
    while k < n:
        # skip whitespace/commas
        while k < n and inner[k] in ' \t\r\n,':
            k += 1
        if k >= n:
            break
        a = inner.find('=>', k)
        if a < 0:
            raise GenError('arm without =>')
        pat = inner[k:a].strip()
        b = a + 2
        while inner[b] in ' \t\r\n':
            b += 1
        if inner[b] == '{':
            e = match_delim(inner, b)
            arm_body = inner[b + 1:e]
            k = e + 1
        else:
            # expression arm: up to the comma at depth 0 (may itself contain a match block)
            depth = 0
            e = b
            while e < n:
                c = inner[e]
                if c in '([{':
                    e = match_delim(inner, e)
                elif c == ',' :
                    break
                e += 1
            arm_body = inner[b:e]
            k = e + 1
        arms.append((pat, arm_body))
    return arms


def cond_to_coq(c):
    """grammar: e ::= self.{n,z,v,c}_flag() | !e | e && e | e || e | (e)"""
    toks = re.findall(r'self\.[nzvc]_flag\(\)|&&|\|\||!|\(|\)', c)
    if ''.join(toks) != re.sub(r'\s+', '', c):
        raise GenError('branch condition outside the grammar: %r' % c)
    pos = [0]

    def peek():
        return toks[pos[0]] if pos[0] < len(toks) else None

    def eat():
        t = toks[pos[0]]
        pos[0] += 1
        return t

    def p_or():
        l = p_and()
        while peek() == '||':
            eat()
            r = p_and()
            l = '(orb %s %s)' % (l, r)
        return l

    def p_and():
        l = p_not()
        while peek() == '&&':
            eat()
            r = p_not()
            l = '(andb %s %s)' % (l, r)
        return l

    def p_not():
        if peek() == '!':
            eat()
            return '(negb %s)' % p_not()
        if peek() == '(':
            eat()
            e = p_or()
            if eat() != ')':
                raise GenError('missing ) in %r' % c)
            return e
        t = eat()
        return {'n': 'fn', 'z': 'fz', 'v': 'fv', 'c': 'fc'}[t[5]]

    e = p_or()
    if pos[0] != len(toks):
        raise GenError('trailing tokens in %r' % c)
    return e


def write_if_changed(path, text):
    if os.path.exists(path) and open(path).read() == text:
        return False
    with open(path, 'w') as f:
        f.write(text)
    return True


def zlist(xs):
    return '[' + '; '.join(str(x) for x in xs) + ']'


def gen_all(repo, out, bindir):
    os.makedirs(out, exist_ok=True)
    os.makedirs(bindir, exist_ok=True)
    rd = lambda f: strip_comments(open(os.path.join(repo, 'src', f)).read())
    cpu, bus, duart, dmd, instr, mem, mouse, utils = (rd(f) for f in
        ('cpu.rs', 'bus.rs', 'duart.rs', 'dmd.rs', 'instr.rs', 'mem.rs', 'mouse.rs', 'utils.rs'))
    hdr = '(* GENERATED by tools/gen.py from /repo/src -- do not edit *)\nFrom Dmd Require Import Model.Bits Model.Types.\n\n'

    # ---- constants
    cc = consts_of(cpu)
    need = ['F_ET', 'F_TM', 'F_ISC', 'F_I', 'F_R', 'F_PM', 'F_CM', 'F_IPL', 'F_C', 'F_V', 'F_Z', 'F_N',
            'F_CD', 'F_QIE', 'F_CFD', 'O_ET', 'O_TM', 'O_ISC', 'R_FP', 'R_AP', 'R_PSW', 'R_SP', 'R_PCBP',
            'R_ISP', 'R_PC', 'WE32100_VERSION', 'HALFWORD_MNEMONIC_COUNT']
    t = hdr
    for k in need:
        if k not in cc:
            raise GenError('cpu.rs constant %s missing' % k)
        t += 'Definition g_%s : Z := %d.\n' % (k, cc[k])
    ipl = [parse_int(x) for x in array_of(cpu, 'IPL_TABLE')]
    t += 'Definition g_IPL_TABLE : list Z := %s.\n' % zlist(ipl)
    bc = consts_of(bus)
    t += 'Definition g_NVRAM_SIZE : Z := %d.\n' % bc['NVRAM_SIZE']
    # Bus::new device layout
    newb = find_fn(bus, 'new')
    devs = {}
    for m in re.finditer(r'(\w+)\s*:\s*Mem::new\(\s*([^,]+),\s*([^,]+),\s*(true|false)\s*\)', newb):
        nm, base, size, ro = m.groups()
        devs[nm] = (base.strip(), size.strip(), ro)
    for nm in ('rom', 'vid', 'bbram', 'ram'):
        if nm not in devs:
            raise GenError('Bus::new: device %s not found' % nm)
    m = re.search(r'Bus::new\(\s*([^)]+)\)', find_fn(dmd, 'new'))
    if not m:
        raise GenError('Dmd::new: Bus::new(size) not found')
    ramsize = parse_int(m.group(1))
    for nm in ('rom', 'vid', 'bbram', 'ram'):
        base, size, ro = devs[nm]
        sz = ramsize if size == 'mem_size' else parse_int(size)
        t += 'Definition g_dev_%s : Z * Z * bool := (%d, %d, %s).\n' % (nm, parse_int(base), sz, ro)
    # video window
    vr = find_fn(bus, 'video_ram_range')
    m = re.search(r'let\s+start\s*=\s*vid_register\s*\*\s*(\w+)\s*;\s*let\s+end\s*=\s*start\s*\+\s*(\w+)\s*;', vr)
    m2 = re.search(r'let\s+vid_register\s*=\s*\(u16::from\(self\.vid\[0\]\)\s*<<\s*8\s*\|\s*u16::from\(self\.vid\[1\]\)\)\s*as\s+usize\s*;', vr)
    if not m or not m2:
        raise GenError('video_ram_range not of the expected shape')
    t += 'Definition g_video_mul : Z := %d.\nDefinition g_video_len : Z := %d.\n' % (parse_int(m.group(1)), parse_int(m.group(2)))
    iv = find_fn(bus, 'is_video_ram')
    m = re.search(r'\((\w+)\.\.(\w+)\)\.contains\(&address\)\s*&&\s*self\.video_ram_range\(\)\.contains\(&\(address\s*-\s*(\w+)\)\)', iv)
    if not m:
        raise GenError('is_video_ram not of the expected shape')
    t += 'Definition g_video_guard : Z * Z * Z := (%d, %d, %d).\n' % tuple(parse_int(x) for x in m.groups())
    dc = consts_of(dmd)
    for k in ('SUCCESS', 'ERROR', 'BUSY'):
        t += 'Definition g_%s : Z := %d.\n' % (k, dc[k])
    write_if_changed(os.path.join(out, 'GenConsts.v'), t)

    # ---- opcode tables + instr.rs constants
    names = []
    bm = [parse_mnemonic(e) for e in array_of(cpu, 'BYTE_MNEMONICS')]
    hm = [parse_mnemonic(e) for e in array_of(cpu, 'HALFWORD_MNEMONICS')]
    if len(bm) != 256:
        raise GenError('BYTE_MNEMONICS has %d entries' % len(bm))
    t = hdr
    t += 'Definition g_byte_mnemonics : list (option mnemonic) :=\n  [' + ';\n   '.join(coq_mn(e, names) for e in bm) + '].\n\n'
    t += 'Definition g_halfword_mnemonics : list (option mnemonic) :=\n  [' + ';\n   '.join(coq_mn(e, names) for e in hm) + '].\n\n'
    ic = consts_of(instr)
    t += 'Definition g_instr_consts : list (nat * Z) := (* index into g_const_names *)\n  [' + '; '.join(
        '(%d%%nat, %d)' % (i, v) for i, (k, v) in enumerate(sorted(ic.items()))) + '].\n'
    for k, v in sorted(ic.items()):
        t += 'Definition op_%s : Z := %d.\n' % (k, v)
    write_if_changed(os.path.join(out, 'GenOpcodes.v'), t)
    with open(os.path.join(bindir, 'names.txt'), 'w') as f:
        f.write('\n'.join(names) + '\n')

    # ---- dispatch arms and branch predicates
    arms = dispatch_arms(cpu)
    t = hdr + 'From Dmd Require Import Gen.GenOpcodes.\n\n'
    armlist = []
    branch = []
    for pat, body in arms:
        if pat == '_':
            continue
        ops = [p.strip() for p in pat.split('|')]
        for o in ops:
            if o not in ic:
                raise GenError('dispatch arm pattern %r is not an instr.rs constant' % o)
        armlist.append(ops)
    t += 'Definition g_dispatch_arms : list (list Z) :=\n  [' + ';\n   '.join(
        '[' + '; '.join('op_' + o for o in ops) + ']' for ops in armlist) + '].\n\n'
    # conditional branch / return arms: `if COND { pc_increment = sign_extend_X(...) }` or `{ self.r[R_PC] = self.stack_pop(bus)?; pc_increment = 0; }`
    for pat, body in arms:
        b = re.sub(r'\s+', ' ', body.strip())
        m = re.match(r'^if (.*?) \{ pc_increment = sign_extend_(halfword|byte)\(self\.ir\.operands\[0\]\.embedded as u(16|8)\) as i32; \}$', b)
        kind = None
        if m:
            kind = 'BrH' if m.group(2) == 'halfword' else 'BrB'
            if (m.group(2) == 'halfword') != (m.group(3) == '16'):
                raise GenError('branch arm %s: width mismatch' % pat)
            cond = m.group(1)
        else:
            m = re.match(r'^if (.*?) \{ self\.r\[R_PC\] = self\.stack_pop\(bus\)\?; pc_increment = 0; \}$', b)
            if m:
                kind = 'Ret'
                cond = m.group(1)
        if kind:
            ce = cond_to_coq(cond)
            for o in [p.strip() for p in pat.split('|')]:
                branch.append((o, kind, ce))
    t += 'Inductive brkind := BrB | BrH | Ret.\n'
    t += 'Definition g_branch_arms : list (Z * brkind) :=\n  [' + '; '.join('(op_%s, %s)' % (o, k) for o, k, _ in branch) + '].\n\n'
    t += 'Definition g_branch_pred (opcode : Z) (fn fz fv fc : bool) : option bool :=\n'
    for o, k, ce in branch:
        t += '  if opcode =? op_%s then Some %s else\n' % (o, ce)
    t += '  None.\n'
    write_if_changed(os.path.join(out, 'GenDispatch.v'), t)

    # ---- memory map
    gd = find_fn(bus, 'get_device')
    tests = []
    for m in re.finditer(r'if\s+(address\s*<\s*(\w+)|\((\w+)\.\.(\w+)\)\.contains\(&address\))\s*\{\s*return\s+Ok\(&mut\s+self\.(\w+)\)\s*;\s*\}', gd):
        if m.group(2):
            tests.append((0, parse_int(m.group(2)), m.group(5)))
        else:
            tests.append((parse_int(m.group(3)), parse_int(m.group(4)), m.group(5)))
    if not re.search(r'Err\(BusError::NoDevice\(address\)\)\s*$', gd.strip()):
        raise GenError('get_device does not end in NoDevice')
    if len(tests) != len(re.findall(r'\bif\b', gd)):
        raise GenError('get_device: unrecognised test')
    devname = {'rom': 'GRom', 'duart': 'GDuart', 'mouse': 'GMouse', 'vid': 'GVid', 'bbram': 'GBbram', 'ram': 'GRam'}
    t = hdr + 'Inductive gdev := GRom | GDuart | GMouse | GVid | GBbram | GRam.\n'
    t += 'Definition g_get_device (a : Z) : option gdev :=\n'
    for lo, hi, d in tests:
        if d not in devname:
            raise GenError('unknown device field %s' % d)
        t += '  if (%d <=? a) && (a <? %d) then Some %s else\n' % (lo, hi, devname[d])
    t += '  None.\n'
    t += 'Definition g_ranges : list (Z * Z) := [' + '; '.join('(%d, %d)' % (lo, hi) for lo, hi, _ in tests) + '].\n'
    write_if_changed(os.path.join(out, 'GenMemMap.v'), t)

    # ---- DUART constants
    du = consts_of(duart)
    t = hdr
    for k in sorted(du):
        t += 'Definition gd_%s : Z := %d.\n' % (k, du[k])
    t += 'Definition gd_BAUD_RATES_A : list Z := %s.\n' % zlist(parse_int(x) for x in array_of(duart, 'BAUD_RATES_A'))
    t += 'Definition gd_BAUD_RATES_B : list Z := %s.\n' % zlist(parse_int(x) for x in array_of(duart, 'BAUD_RATES_B'))
    # ---- DUART register map: the arms of `match (address - START_ADDR) as u8` in read_byte / write_byte, and for each arm
    # the channels (PORT_n) it names, the interrupt-status bits it clears (`self.isr &= !X`) and whether it touches ivec
    def reg_arms(fname):
        body = find_fn(duart, fname)
        m = re.search(r'match\s+\(address\s*-\s*START_ADDR\)\s+as\s+u8\s*\{', body)
        if not m:
            raise GenError('%s: match (address - START_ADDR) as u8 not found' % fname)
        i = m.end() - 1
        inner = body[i + 1:match_delim(body, i)]
        arms = []
        k = 0
        while True:
            while k < len(inner) and inner[k] in ' \t\r\n,':
                k += 1
            if k >= len(inner):
                break
            a = inner.find('=>', k)
            if a < 0:
                raise GenError('%s: arm without =>' % fname)
            pat = inner[k:a].strip()
            b = a + 2
            while inner[b] in ' \t\r\n':
                b += 1
            if inner[b] != '{':
                raise GenError('%s: arm %s is not a block' % (fname, pat))
            e = match_delim(inner, b)
            arms.append((pat, inner[b + 1:e]))
            k = e + 1
        if not arms or arms[-1][0] != '_':
            raise GenError('%s: last arm is not the wildcard' % fname)
        res = []
        for pat, ab in arms[:-1]:
            if pat not in du:
                raise GenError('%s: arm label %s is not a constant' % (fname, pat))
            ports = sorted(set(int(x) for x in re.findall(r'\bPORT_(\d)\b', ab)))
            for q in ports:
                if ('PORT_%d' % q) not in du or du['PORT_%d' % q] != q:
                    raise GenError('PORT_%d is not %d' % (q, q))
            clr = 0
            for x in re.findall(r'self\.isr\s*&=\s*!\s*(\w+)\s*;', ab):
                if x not in du:
                    raise GenError('%s: isr mask %s unknown' % (fname, x))
                clr |= du[x]
            res.append((du[pat], ports, clr))
        return res, arms[-1][1]
    # a failure here is confined to the theorems that consume these lists (C08 / C09 / C14 register-map ties): the lists
    # are then written empty, which those theorems cannot be proved from
    try:
        rd, rd_default = reg_arms('read_byte')
        wr, wr_default = reg_arms('write_byte')
        if 'NoDevice' not in rd_default:
            raise GenError('read_byte: the wildcard arm does not return NoDevice')
    except (GenError, ValueError, IndexError, KeyError, AttributeError) as ex:
        sys.stderr.write('gen: DUART register map not translated: %s\n' % ex)
        t += '(* TRANSLATION FAILED: %s *)\n' % str(ex).replace('*)', '* )')
        rd, wr = [], []
    def arm_list(xs):
        return '[' + '; '.join('(%d, %s, %d)' % (o, zlist(ps), c) for o, ps, c in xs) + ']'
    t += '(* (register offset, channels named in the arm, interrupt-status bits the arm clears), in source order *)\n'
    t += 'Definition gd_read_arms : list (Z * list Z * Z) := %s.\n' % arm_list(rd)
    t += 'Definition gd_write_arms : list (Z * list Z * Z) := %s.\n' % arm_list(wr)
    write_if_changed(os.path.join(out, 'GenDuart.v'), t)

    # ---- Port helper functions translated statement by statement: enable_tx / disable_tx / enable_rx / disable_rx (field
    # updates, `if self.<reg>.is_none() { .. }`) and the predicates loopback / rx_enabled
    PFIELD = {'conf': 'conf', 'stat': 'stat'}
    PREG = {'tx_holding_reg': 'tx_hold', 'tx_shift_reg': 'tx_shift', 'rx_shift_reg': 'rx_shift'}

    def p_value(tok):
        tok = tok.strip()
        if tok.startswith('(') and tok.endswith(')') and match_delim(tok, 0) == len(tok) - 1:
            return p_value(tok[1:-1])
        parts = split_top(tok, '|')
        if len(parts) > 1:
            e = p_value(parts[0])
            for q in parts[1:]:
                e = 'Z.lor (%s) (%s)' % (e, p_value(q))
            return e
        if re.fullmatch(r'0x[0-9a-fA-F_]+|\d+', tok):
            return str(parse_int(tok))
        if tok in du:
            return 'gd_' + tok
        raise GenError('port: value %r not understood' % tok)

    def p_block(body, what):
        body = body.strip()
        outl = []
        k = 0
        while k < len(body):
            while k < len(body) and body[k] in ' \t\r\n;':
                k += 1
            if k >= len(body):
                break
            m = re.match(r'if\s+self\.(\w+)\.(is_none|is_some)\(\)\s*\{', body[k:])
            if m:
                if m.group(1) not in PREG:
                    raise GenError('%s: register %s unknown' % (what, m.group(1)))
                b = k + m.end() - 1
                e = match_delim(body, b)
                inner = p_block(body[b + 1:e], what)
                c = 'is_some (%s p)' % PREG[m.group(1)]
                if m.group(2) == 'is_none':
                    c = 'negb (%s)' % c
                outl.append('let p := if %s then (%s p) else p in' % (c, ' '.join(inner)))
                k = e + 1
                if re.match(r'\s*else\b', body[k:]):
                    raise GenError('%s: else branch not understood' % what)
                continue
            e = body.find(';', k)
            if e < 0:
                raise GenError('%s: trailing text %r' % (what, body[k:k + 40]))
            st = body[k:e].strip()
            m = re.fullmatch(r'self\.(\w+)\s*(\|=|&=)\s*(!?)\s*(.+)', st, re.S)
            if not m or m.group(1) not in PFIELD:
                raise GenError('%s: statement %r not understood' % (what, st))
            f, op, neg, val = PFIELD[m.group(1)], m.group(2), m.group(3), p_value(m.group(4))
            if op == '|=' and not neg:
                outl.append('let p := with_%s p (Z.lor (%s p) (%s)) in' % (f, f, val))
            elif op == '&=' and neg:
                outl.append('let p := with_%s p (clr8 (%s p) (%s)) in' % (f, f, val))
            else:
                raise GenError('%s: operator in %r not understood' % (what, st))
            k = e + 1
        return outl

    t = '(* GENERATED by tools/gen.py from /repo/src/duart.rs -- do not edit *)\n'
    t += 'From Coq Require Import ZArith Bool.\nFrom Dmd Require Import Model.Bits Model.Fifo Model.Mem Model.Duart Gen.GenDuart.\nOpen Scope Z_scope.\n\n'
    try:
        for fn in ('enable_tx', 'disable_tx', 'enable_rx', 'disable_rx'):
            t += 'Definition g_%s {A : Type} (p : port A) : port A :=\n' % fn
            for l in p_block(find_fn(duart, fn), fn):
                t += '  ' + l + '\n'
            t += '  p.\n\n'
        m = re.fullmatch(r'\(self\.mode\[1\]\s*&\s*(\w+)\)\s*==\s*(\w+)', find_fn(duart, 'loopback').strip())
        if not m:
            raise GenError('loopback: body not understood')
        t += 'Definition g_loopback {A : Type} (p : port A) : bool := Z.land (mode1 p) %s =? %s.\n' % (p_value(m.group(1)), p_value(m.group(2)))
        m = re.fullmatch(r'\(self\.conf\s*&\s*(\w+)\)\s*!=\s*0', find_fn(duart, 'rx_enabled').strip())
        if not m:
            raise GenError('rx_enabled: body not understood')
        t += 'Definition g_rx_enabled {A : Type} (p : port A) : bool := negb (Z.land (conf p) %s =? 0).\n' % p_value(m.group(1))
    except (GenError, ValueError, IndexError, KeyError, AttributeError) as ex:
        sys.stderr.write('gen: port helpers not translated: %s\n' % ex)
        t = t[:t.index('Open Scope Z_scope.') + len('Open Scope Z_scope.')] + '\n\n(* TRANSLATION FAILED: %s *)\n' % str(ex).replace('*)', '* )')
        for fn in ('enable_tx', 'disable_tx', 'enable_rx', 'disable_rx'):
            t += 'Definition g_%s {A : Type} (p : port A) : port A := with_stat p (-1).\n' % fn
        t += 'Definition g_loopback {A : Type} (p : port A) : bool := negb (Z.land (mode1 p) 192 =? 128).\n'
        t += 'Definition g_rx_enabled {A : Type} (p : port A) : bool := false.\n'
    write_if_changed(os.path.join(out, 'GenPort.v'), t)

    # ---- Duart::handle_command translated statement by statement.  State threaded: d (the Duart's own fields isr / ivec)
    # and p (the port the command addresses); grammar: log macros (skipped), `port.<helper>()`, `self.F op= v`,
    # `port.F op= v`, `port.F = 0 / None`, `port.rx_fifo.clear()`, if / else if / else on `cmd & K != 0`,
    # `port_no == PORT_n`, `port.loopback()`, and one `match (cmd >> 4) & 7 { K => {..} .. _ => {} }`
    def hc_translate():
        body = find_fn(duart, 'handle_command')
        m = re.search(r'let\s+port\s*=\s*&mut\s+self\.ports\[port_no\]\s*;', body)
        if not m:
            raise GenError('handle_command: `let port = &mut self.ports[port_no];` not found')
        rest = body[m.end():]
        m = re.match(r'\s*let\s*\(\s*(\w+)\s*,\s*(\w+)\s*,\s*(\w+)\s*\)\s*=\s*match\s+port_no\s*\{\s*PORT_0\s*=>\s*\(\s*(\w+)\s*,\s*(\w+)\s*,\s*(\w+)\s*\)\s*,\s*_\s*=>\s*\(\s*(\w+)\s*,\s*(\w+)\s*,\s*(\w+)\s*\)\s*,?\s*\}\s*;', rest)
        if not m:
            raise GenError('handle_command: the per-port table of interrupt-status bits was not found')
        loc = {}
        for i in range(3):
            a, b = m.group(4 + i), m.group(7 + i)
            if a not in du or b not in du:
                raise GenError('handle_command: %s / %s not constants' % (a, b))
            loc[m.group(1 + i)] = '(if port_no =? gd_PORT_0 then gd_%s else gd_%s)' % (a, b)
        rest = rest[m.end():]

        def val(tok):
            tok = tok.strip()
            if tok.startswith('(') and tok.endswith(')') and match_delim(tok, 0) == len(tok) - 1:
                return val(tok[1:-1])
            parts = split_top(tok, '|')
            if len(parts) > 1:
                e = val(parts[0])
                for q in parts[1:]:
                    e = 'Z.lor (%s) (%s)' % (e, val(q))
                return e
            if tok in loc:
                return loc[tok]
            if re.fullmatch(r'0x[0-9a-fA-F_]+|\d+', tok):
                return str(parse_int(tok))
            if tok in du:
                return 'gd_' + tok
            raise GenError('handle_command: value %r not understood' % tok)

        def cond(c, var):
            c = c.strip()
            m = re.fullmatch(r'cmd\s*&\s*(\w+)\s*!=\s*0', c)
            if m:
                return 'negb (Z.land cmd %s =? 0)' % val(m.group(1))
            m = re.fullmatch(r'port_no\s*==\s*(\w+)', c)
            if m:
                return 'port_no =? %s' % val(m.group(1))
            if re.fullmatch(r'port\.loopback\(\)', c):
                return 'g_loopback p' if var == 'p' else 'lb'
            raise GenError('handle_command: condition %r not understood' % c)

        def block(txt, var):
            # var = 'p': only the statements that update the port; var = 'd': only those that update the Duart's own
            # fields.  Returns a Gallina expression of the type of var, in which var is bound.  Sound because no port
            # statement depends on the Duart's fields, and the only Duart-side dependence on the port is the loop-back
            # test, which reads the mode registers that no statement here writes (checked below): it is passed in as lb.
            txt = txt.strip()
            k = 0
            lets = []
            while k < len(txt):
                while k < len(txt) and txt[k] in ' \t\r\n;':
                    k += 1
                if k >= len(txt):
                    break
                m = re.match(r'(debug|trace|info|warn|error)!\s*\(', txt[k:])
                if m:
                    e = match_delim(txt, k + m.end() - 1)
                    k = e + 1
                    continue
                if re.match(r'if\b', txt[k:]):
                    chain = []
                    els = None
                    while True:
                        b = txt.index('{', k)
                        c = cond(txt[k + 2:b], var)
                        e = match_delim(txt, b)
                        chain.append((c, block(txt[b + 1:e], var)))
                        k = e + 1
                        m = re.match(r'\s*else\s*', txt[k:])
                        if not m:
                            break
                        k += m.end()
                        if re.match(r'if\b', txt[k:]):
                            continue
                        b = k
                        if txt[b] != '{':
                            raise GenError('handle_command: else without a block')
                        e = match_delim(txt, b)
                        els = block(txt[b + 1:e], var)
                        k = e + 1
                        break
                    ex = els if els is not None else var
                    for c, blk in reversed(chain):
                        ex = '(if %s then %s else %s)' % (c, blk, ex)
                    lets.append('let %s := %s in' % (var, ex))
                    continue
                m = re.match(r'match\s*\(cmd\s*>>\s*4\)\s*&\s*7\s*\{', txt[k:])
                if m:
                    b = k + m.end() - 1
                    e = match_delim(txt, b)
                    inner = txt[b + 1:e]
                    arms = []
                    j = 0
                    while True:
                        while j < len(inner) and inner[j] in ' \t\r\n,':
                            j += 1
                        if j >= len(inner):
                            break
                        a = inner.find('=>', j)
                        pat = inner[j:a].strip()
                        bb = inner.index('{', a)
                        ee = match_delim(inner, bb)
                        arms.append((pat, inner[bb + 1:ee]))
                        j = ee + 1
                    if not arms or arms[-1][0] != '_' or arms[-1][1].strip():
                        raise GenError('handle_command: the command match does not end in an empty wildcard arm')
                    ex = var
                    for pat, ab in reversed(arms[:-1]):
                        ex = '(if Z.land (Z.shiftr cmd 4) 7 =? %s then %s else %s)' % (val(pat), block(ab, var), ex)
                    lets.append('let %s := %s in' % (var, ex))
                    k = e + 1
                    continue
                e = txt.find(';', k)
                if e < 0:
                    e = len(txt)
                st = txt[k:e].strip()
                k = e + 1
                out_p = None
                out_d = None
                m = re.fullmatch(r'port\.(disable_tx|enable_tx|disable_rx|enable_rx)\(\)', st)
                if m:
                    out_p = 'let p := g_%s p in' % m.group(1)
                elif re.fullmatch(r'port\.rx_fifo\.clear\(\)', st):
                    out_p = 'let p := with_fifo p (fifo_clear (rx_fifo p)) in'
                elif re.fullmatch(r'port\.(\w+)\s*=\s*None', st) and re.fullmatch(r'port\.(\w+)\s*=\s*None', st).group(1) in PREG:
                    out_p = 'let p := with_%s p None in' % PREG[re.fullmatch(r'port\.(\w+)\s*=\s*None', st).group(1)]
                elif re.fullmatch(r'port\.mode_ptr\s*=\s*0', st):
                    out_p = 'let p := with_mode_ptr p 0 in'
                else:
                    m = re.fullmatch(r'(self|port)\.(\w+)\s*(\|=|&=)\s*(!?)\s*(.+)', st, re.S)
                    if not m:
                        raise GenError('handle_command: statement %r not understood' % st)
                    who, f, op, neg, v = m.group(1), m.group(2), m.group(3), m.group(4), val(m.group(5))
                    if who == 'self' and f in ('isr', 'ivec'):
                        v2 = 'd'
                    elif who == 'port' and f in ('stat', 'conf'):
                        v2 = 'p'
                    else:
                        raise GenError('handle_command: field %s.%s not understood' % (who, f))
                    if op == '|=' and not neg:
                        o = 'let %s := with_%s %s (Z.lor (%s %s) (%s)) in' % (v2, f, v2, f, v2, v)
                    elif op == '&=' and neg:
                        o = 'let %s := with_%s %s (clr8 (%s %s) (%s)) in' % (v2, f, v2, f, v2, v)
                    else:
                        raise GenError('handle_command: statement %r not understood' % st)
                    if v2 == 'p':
                        out_p = o
                    else:
                        out_d = o
                if var == 'p' and out_p:
                    lets.append(out_p)
                if var == 'd' and out_d:
                    lets.append(out_d)
            return '(' + ' '.join(lets) + ' ' + var + ')'
        if re.search(r'port\.mode\b|\.mode\[', rest):
            raise GenError('handle_command: a statement touches the mode registers')
        t = 'Definition g_cmd_port {A : Type} (cmd port_no : Z) (p : port A) : port A :=\n  %s.\n\n' % block(rest, 'p')
        t += 'Definition g_cmd_duart (cmd port_no : Z) (lb : bool) (d : duart) : duart :=\n  %s.\n\n' % block(rest, 'd')
        t += 'Definition g_handle_command (cmd port_no : Z) (d : duart) : duart :=\n'
        t += '  let p := if port_no =? gd_PORT_0 then pa d else pb d in\n'
        t += '  let d1 := g_cmd_duart cmd port_no (g_loopback p) d in\n'
        t += '  if port_no =? gd_PORT_0 then with_pa d1 (g_cmd_port cmd port_no p) else with_pb d1 (g_cmd_port cmd port_no p).\n'
        return t
    t = '(* GENERATED by tools/gen.py from /repo/src/duart.rs -- do not edit *)\n'
    t += 'From Coq Require Import ZArith Bool.\nFrom Dmd Require Import Model.Bits Model.Fifo Model.Mem Model.Duart Gen.GenDuart Gen.GenPort.\nOpen Scope Z_scope.\n\n'
    try:
        t += hc_translate()
    except (GenError, ValueError, IndexError, KeyError, AttributeError) as ex:
        sys.stderr.write('gen: handle_command not translated: %s\n' % ex)
        t += '(* TRANSLATION FAILED: %s *)\nDefinition g_handle_command (cmd port_no : Z) (d : duart) : duart := with_isr d (-1).\n' % str(ex).replace('*)', '* )')
    write_if_changed(os.path.join(out, 'GenCmd.v'), t)

    # ---- the eight condition-code helpers of Cpu (set_{c,v,z,n}_flag, {c,v,z,n}_flag) translated from their bodies
    t = '(* GENERATED by tools/gen.py from /repo/src/cpu.rs -- do not edit *)\n'
    t += 'From Coq Require Import ZArith Bool.\nFrom Dmd Require Import Model.Bits Model.Types Model.Cpu Gen.GenConsts.\nOpen Scope Z_scope.\n\n'
    try:
        for fl in 'cvzn':
            body = find_fn(cpu, 'set_%s_flag' % fl).strip()
            m = re.fullmatch(r'if\s+set\s*\{\s*self\.r\[(\w+)\]\s*\|=\s*(\w+)\s*;\s*\}\s*else\s*\{\s*self\.r\[(\w+)\]\s*&=\s*!\s*(\w+)\s*;\s*\}', body)
            if not m:
                raise GenError('set_%s_flag: body not understood' % fl)
            for nm in m.groups():
                if nm not in cc:
                    raise GenError('set_%s_flag: %s is not a constant' % (fl, nm))
            t += ('Definition g_set_%s_flag (m : mach) (set : bool) : mach :=\n  if set then setR m g_%s (Z.lor (R m g_%s) g_%s) else setR m g_%s (clr32 (R m g_%s) g_%s).\n'
                  % (fl, m.group(1), m.group(1), m.group(2), m.group(3), m.group(3), m.group(4)))
            body = find_fn(cpu, '%s_flag' % fl).strip()
            m = re.fullmatch(r'\(\(self\.r\[(\w+)\]\s*&\s*(\w+)\)\s*>>\s*(\d+)\)\s*==\s*1', body)
            if not m or m.group(1) not in cc or m.group(2) not in cc:
                raise GenError('%s_flag: body not understood' % fl)
            t += 'Definition g_%s_flag (m : mach) : bool := Z.shiftr (Z.land (R m g_%s) g_%s) %s =? 1.\n\n' % (fl, m.group(1), m.group(2), m.group(3))
    except (GenError, ValueError, IndexError, KeyError, AttributeError) as ex:
        sys.stderr.write('gen: flag helpers not translated: %s\n' % ex)
        t = t[:t.index('Open Scope Z_scope.') + len('Open Scope Z_scope.')] + '\n\n(* TRANSLATION FAILED: %s *)\n' % str(ex).replace('*)', '* )')
        for fl in 'cvzn':
            t += 'Definition g_set_%s_flag (m : mach) (set : bool) : mach := setR m 0 (-1).\nDefinition g_%s_flag (m : mach) : bool := negb (flag 0 m).\n' % (fl, fl)
    write_if_changed(os.path.join(out, 'GenFlags.v'), t)

    # ---- census of the constructs that can panic in a release build: explicit (unwrap / expect / panic! / unimplemented! /
    # unreachable! / assert!), indexing and slicing, integer division and remainder; per function, test modules and the
    # cfg(dmd_core_verif) instrumentation excluded.  Consumed by C12 (Spec/PanicSites.v pins what the model accounts for).
    explicit, indexes, divs = [], [], []
    for fname in ('bus.rs', 'cpu.rs', 'dmd.rs', 'duart.rs', 'err.rs', 'instr.rs', 'lib.rs', 'mem.rs', 'mouse.rs', 'utils.rs'):
        pth = os.path.join(repo, 'src', fname)
        if not os.path.exists(pth):
            continue
        src = strip_comments(open(pth).read())
        m = re.search(r'#\[cfg\(test\)\]\s*mod\s+\w+\s*\{', src)
        if m:
            src = src[:m.start()]
        for fm in re.finditer(r'\bfn\s+(\w+)\s*(<[^>]*>)?\s*\(', src):
            name = fm.group(1)
            if name.startswith('verif_'):
                continue
            try:
                close = match_delim(src, fm.end() - 1)
                semi = src.find(';', close)
                i = src.index('{', close)
                if 0 <= semi < i:
                    continue          # a declaration without a body
                j = match_delim(src, i)
            except (ValueError, GenError):
                continue
            body = src[i + 1:j]
            key = '%s::%s' % (fname, name)
            for kind, pat in (('unwrap', r'\.unwrap\(\)'), ('expect', r'\.expect\('), ('panic', r'\bpanic!'),
                              ('unimplemented', r'\bunimplemented!'), ('unreachable', r'\bunreachable!'),
                              ('assert', r'\bassert(_eq|_ne)?!')):
                n = len(re.findall(pat, body))
                if n:
                    explicit.append((key, kind, n))
            n = len(re.findall(r'[\w\)\]]\[', body))
            if n:
                indexes.append((key, n))
            n = len(re.findall(r'[^/]/[^/=*]|%[^=]|\.(?:wrapping_|checked_|overflowing_)?(?:div|rem)(?:_euclid)?\(', body))
            if n:
                divs.append((key, n))
    t = '(* GENERATED by tools/gen.py from /repo/src -- do not edit *)\nFrom Coq Require Import ZArith String List.\nImport ListNotations.\nOpen Scope string_scope.\nOpen Scope Z_scope.\n\n'
    t += 'Definition g_explicit_panics : list (string * string * Z) :=\n  [' + ';\n   '.join('("%s", "%s", %d)' % e for e in explicit) + '].\n\n'
    t += 'Definition g_index_sites : list (string * Z) :=\n  [' + ';\n   '.join('("%s", %d)' % e for e in indexes) + '].\n\n'
    t += 'Definition g_division_sites : list (string * Z) :=\n  [' + ';\n   '.join('("%s", %d)' % e for e in divs) + '].\n'
    write_if_changed(os.path.join(out, 'GenPanic.v'), t)

    # ---- Duart::mouse_down / mouse_up translated statement by statement (straight-line field updates and one match)
    FIELDS = ('ipcr', 'inprt', 'isr', 'ivec', 'outprt', 'acr', 'imr')

    def tr_value(tok):
        tok = tok.strip()
        if re.fullmatch(r'0x[0-9a-fA-F_]+|\d+', tok):
            return str(parse_int(tok))
        if tok in du:
            return 'gd_' + tok
        raise GenError('mouse: value %r not understood' % tok)

    def tr_stmts(body, what):
        body = body.strip()
        outl = []
        for st in [x.strip() for x in body.split(';')]:
            if not st:
                continue
            m = re.fullmatch(r'self\.(\w+)\s*(=|\|=|&=)\s*(!?)\s*\(?\s*([\w]+)\s*\)?', st)
            if not m or m.group(1) not in FIELDS:
                raise GenError('%s: statement %r not understood' % (what, st))
            f, op, neg, val = m.group(1), m.group(2), m.group(3), tr_value(m.group(4))
            if op == '=' and not neg:
                e = val
            elif op == '|=' and not neg:
                e = 'Z.lor (%s d) %s' % (f, val)
            elif op == '&=' and neg:
                e = 'clr8 (%s d) %s' % (f, val)
            else:
                raise GenError('%s: operator in %r not understood' % (what, st))
            outl.append('let d := with_%s d (%s) in' % (f, e))
        return outl

    def tr_mouse(fname):
        body = find_fn(duart, fname)
        m = re.search(r'match\s+button\s*\{', body)
        if not m:
            raise GenError('%s: match button not found' % fname)
        j = match_delim(body, m.end() - 1)
        if body[j + 1:].strip():
            raise GenError('%s: code after the match' % fname)
        pre = tr_stmts(body[:m.start()], fname)
        inner = body[m.end():j]
        arms = []
        k = 0
        while True:
            while k < len(inner) and inner[k] in ' \t\r\n,':
                k += 1
            if k >= len(inner):
                break
            a = inner.find('=>', k)
            pat = inner[k:a].strip()
            b = inner.index('{', a)
            e = match_delim(inner, b)
            arms.append((pat, inner[b + 1:e]))
            k = e + 1
        if not arms or arms[-1][0] != '_' or arms[-1][1].strip():
            raise GenError('%s: the last arm is not an empty wildcard' % fname)
        t = 'Definition g_%s (d : duart) (button : Z) : duart :=\n' % fname
        for l in pre:
            t += '  ' + l + '\n'
        for pat, ab in arms[:-1]:
            if not re.fullmatch(r'\d+', pat):
                raise GenError('%s: arm %r not understood' % (fname, pat))
            t += '  if button =? %s then (%s d) else\n' % (pat, ' '.join(tr_stmts(ab, fname)))
        t += '  d.\n'
        return t
    t = '(* GENERATED by tools/gen.py from /repo/src/duart.rs -- do not edit *)\n'
    t += 'From Coq Require Import ZArith.\nFrom Dmd Require Import Model.Bits Model.Fifo Model.Mem Model.Duart Gen.GenDuart.\nOpen Scope Z_scope.\n\n'
    # a failure here is confined to C20's tie theorem: the functions are then written as the identity, which the
    # model's functions are not equal to
    try:
        t += tr_mouse('mouse_down') + '\n' + tr_mouse('mouse_up')
    except (GenError, ValueError, IndexError, KeyError, AttributeError) as ex:
        sys.stderr.write('gen: mouse_down / mouse_up not translated: %s\n' % ex)
        t += '(* TRANSLATION FAILED: %s *)\n' % str(ex).replace('*)', '* )')
        t += 'Definition g_mouse_down (d : duart) (button : Z) : duart := d.\nDefinition g_mouse_up (d : duart) (button : Z) : duart := d.\n'
    write_if_changed(os.path.join(out, 'GenMouse.v'), t)

    # ---- C API wrappers
    t = hdr + 'Inductive cshape := CS (locks : nat) (calls_wrapper : bool) (err_code : Z).\n'
    wrappers = []
    raw_dmd = dmd
    for m in re.finditer(r'#\[no_mangle\]\s*fn\s+(dmd_\w+)\s*\(([^)]*)\)\s*(->\s*[^{]+)?\{', raw_dmd):
        name = m.group(1)
        i = m.end() - 1
        j = match_delim(raw_dmd, i)
        body = re.sub(r'\s+', ' ', raw_dmd[i + 1:j].strip())
        locks = len(re.findall(r'DMD\.lock\(\)', body))
        mm = re.match(r'^match DMD\.lock\(\) \{ Ok\((mut )?dmd\) => (.*) Err\(_\) => (ERROR|ptr::null\(\)|0), \}$', body)
        if not mm:
            raise GenError('C wrapper %s is not a single match on DMD.lock()' % name)
        calls = bool(re.search(r'\bdmd_\w+\s*\(', mm.group(2)))
        errc = {'ERROR': dc['ERROR'], 'ptr::null()': -1, '0': 0}[mm.group(3)]
        wrappers.append((name, locks, calls, errc, mm.group(2)))
    t += 'Definition g_capi : list (nat * cshape) :=\n  [' + ';\n   '.join(
        '(%d%%nat, CS %d %s (%d))' % (i, l, 'true' if c else 'false', e) for i, (n, l, c, e, _) in enumerate(wrappers)) + '].\n'
    t += 'Definition g_capi_count : nat := %d.\n' % len(wrappers)
    # return-code shapes for the transmit polls
    for nm in ('dmd_rs232_tx', 'dmd_keyboard_tx'):
        w = [x for x in wrappers if x[0] == nm]
        if not w:
            raise GenError('%s missing' % nm)
        okb = w[0][4]
        mm = re.match(r'^match dmd\.(rs232_tx|keyboard_tx)\(\) \{ Some\(c\) => \{ \*tx_char = c; SUCCESS \} None => BUSY, \},$', okb)
        if not mm or ('dmd_' + mm.group(1)) != nm:
            raise GenError('%s body not of the expected shape' % nm)
    t += 'Definition g_capi_poll_shape_ok : bool := true.\n'
    write_if_changed(os.path.join(out, 'GenCapi.v'), t)
    with open(os.path.join(bindir, 'capi_names.txt'), 'w') as f:
        f.write('\n'.join(w[0] for w in wrappers) + '\n')

    # ---- ROM images
    t = hdr
    shas = {}
    for fn, arrs in (('rom_lo.rs', ('LO_ROM_V1', 'LO_ROM_V2')), ('rom_hi.rs', ('HI_ROM_V1', 'HI_ROM_V2'))):
        src = strip_comments(open(os.path.join(repo, 'src', fn)).read())
        cs = consts_of(src)
        for a in arrs:
            data = bytes(parse_int(x) for x in array_of(src, a))
            if a + '_LEN' not in cs or cs[a + '_LEN'] != len(data):
                raise GenError('%s length constant mismatch' % a)
            shas[a] = hashlib.sha256(data).hexdigest()
            with open(os.path.join(bindir, a + '.bin'), 'wb') as f:
                f.write(data)
            t += 'Definition g_%s_LEN : Z := %d.\n' % (a, len(data))
            if a.startswith('LO'):
                w = lambda o: int.from_bytes(data[o:o + 4], 'big')
                pcb = w(0x80)
                t += 'Definition g_%s_reset : Z * Z * Z * Z := (%d, %d, %d, %d).\n' % (
                    a, pcb, w(pcb) if pcb + 12 <= len(data) else -1,
                    w(pcb + 4) if pcb + 12 <= len(data) else -1, w(pcb + 8) if pcb + 12 <= len(data) else -1)
    # Dmd::reset shape: version 1 => V1 lo at 0, hi at LO_ROM_V1_LEN; _ => V2
    rs = re.sub(r'\s+', ' ', find_fn(dmd, 'reset'))
    exp = ('match version { 1 => { self.bus.load(0, &LO_ROM_V1)?; self.bus.load(LO_ROM_V1_LEN, &HI_ROM_V1)?; } '
           '_ => { self.bus.load(0, &LO_ROM_V2)?; self.bus.load(LO_ROM_V2_LEN, &HI_ROM_V2)?; } } '
           'self.cpu.reset(&mut self.bus)?; Ok(())')
    if rs.strip() != exp:
        raise GenError('Dmd::reset is not of the expected shape')
    t += 'Definition g_reset_shape_ok : bool := true.\n'
    write_if_changed(os.path.join(out, 'GenRom.v'), t)
    with open(os.path.join(bindir, 'rom.sha256'), 'w') as f:
        for a in sorted(shas):
            f.write('%s  %s\n' % (shas[a], a))
    return {'sha': shas, 'arms': len(armlist), 'branch_arms': len(branch), 'wrappers': len(wrappers)}


if __name__ == '__main__':
    repo, out, bindir = '/repo', '/verif/coq/Gen', '/verif/build/rom'
    a = sys.argv[1:]
    while a:
        if a[0] == '--repo':
            repo = a[1]
        elif a[0] == '--out':
            out = a[1]
        elif a[0] == '--bin':
            bindir = a[1]
        a = a[2:]
    try:
        info = gen_all(repo, out, bindir)
    except GenError as e:
        print('GENERROR: %s' % e)
        sys.exit(3)
    print('gen ok: %d dispatch arms, %d branch/return predicates, %d C wrappers' % (
        info['arms'], info['branch_arms'], info['wrappers']))
