(* Extraction of the executable model (ExtrOcamlBasic only: bool, option, unit,
   list, prod, sumbool map to OCaml natives; Z, positive, N, nat stay inductive). *)
Require Extraction.
Require ExtrOcamlBasic.
From Coq Require Import FSets.FMapPositive.
From Dmd Require Import Model.Bits Model.Types Model.Fifo Model.Mem Model.Mouse Model.Duart Model.Bus
     Model.Decode Model.Cpu Model.Dmd.
Extraction Language OCaml.
Extraction "model.ml"
  run_op run_ops h_new capi_step mach_new
  PositiveMap.elements fifo_contents
  Z.of_nat Z.to_nat Pos.of_nat.
