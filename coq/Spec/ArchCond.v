(* The WE32100 condition predicates over N, Z, V, C and the conditional branch / return opcodes
   (byte displacement, halfword displacement, return), duplicates included.  Hand-written specification. *)
From Dmd Require Import Model.Bits Model.Types Gen.GenOpcodes Gen.GenDispatch.

Inductive cond := GE | GT | LT | LE | GEU | GTU | LTU | LEU | VC | VS | NE | EQ.

Definition cond_holds (c : cond) (n z v cf : bool) : bool :=
  match c with
  | GE => negb n || z          (* signed >=            *)
  | GT => negb (n || z)        (* signed >             *)
  | LT => n && negb z          (* signed <             *)
  | LE => n || z               (* signed <=            *)
  | GEU => negb cf             (* unsigned >= (carry clear) *)
  | GTU => negb (cf || z)      (* unsigned >           *)
  | LTU => cf                  (* unsigned <  (carry set)   *)
  | LEU => cf || z             (* unsigned <=          *)
  | VC => negb v
  | VS => v
  | NE => negb z
  | EQ => z
  end.

Definition arch_branch_table : list (Z * cond * brkind) :=
  [ (0x40, GE, Ret);  (0x42, GE, BrH);  (0x43, GE, BrB);
    (0x44, GT, Ret);  (0x46, GT, BrH);  (0x47, GT, BrB);
    (0x48, LT, Ret);  (0x4A, LT, BrH);  (0x4B, LT, BrB);
    (0x4C, LE, Ret);  (0x4E, LE, BrH);  (0x4F, LE, BrB);
    (0x50, GEU, Ret); (0x52, GEU, BrH); (0x53, GEU, BrB);
    (0x54, GTU, Ret); (0x56, GTU, BrH); (0x57, GTU, BrB);
    (0x58, LTU, Ret); (0x5A, LTU, BrH); (0x5B, LTU, BrB);
    (0x5C, LEU, Ret); (0x5E, LEU, BrH); (0x5F, LEU, BrB);
    (0x60, VC, Ret);  (0x62, VC, BrH);  (0x63, VC, BrB);
    (0x64, NE, Ret);  (0x66, NE, BrH);  (0x67, NE, BrB);
    (0x68, VS, Ret);  (0x6A, VS, BrH);  (0x6B, VS, BrB);
    (0x6C, EQ, Ret);  (0x6E, EQ, BrH);  (0x6F, EQ, BrB);
    (0x74, NE, Ret);  (0x76, NE, BrH);  (0x77, NE, BrB);
    (0x7C, EQ, Ret);  (0x7E, EQ, BrH);  (0x7F, EQ, BrB) ].

Definition all_flags : list (bool * bool * bool * bool) :=
  flat_map (fun n => flat_map (fun z => flat_map (fun v => map (fun c => (n, z, v, c)) [false; true])
                                                 [false; true]) [false; true]) [false; true].

Definition brkind_eqb (a b : brkind) : bool :=
  match a, b with BrB, BrB | BrH, BrH | Ret, Ret => true | _, _ => false end.

Definition opt_bool_eqb (a : option bool) (b : bool) : bool :=
  match a with Some x => Bool.eqb x b | None => false end.

(* boolean form of "the predicate translated from the source is the architected one, for every opcode and flags" *)
Definition branch_preds_ok : bool :=
  forallb (fun e =>
    let '(opc, c, k) := e in
    forallb (fun f => let '(n, z, v, cf) := f in
                      opt_bool_eqb (g_branch_pred opc n z v cf) (cond_holds c n z v cf)) all_flags
    && match find (fun p => fst p =? opc) g_branch_arms with
       | Some (_, k') => brkind_eqb k k'
       | None => false end) arch_branch_table.
