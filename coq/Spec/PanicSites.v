(* The constructs of /repo/src that can panic in a release build, as the model accounts for them (C12).
   Hand-maintained; Gen/GenPanic.v is the same census taken from the source on every run, and
   C12_panic_census_is_the_modelled_one demands that the two are equal -- a new unwrap / expect / panic! / unimplemented! /
   unreachable! / assert!, a new indexing or slicing expression, or a new division in any non-test function makes the
   proof fail until the model (and this list) account for it.

   Explicit constructs and where the model has them:
   - cpu.rs::fmt (8 unwraps): Display impls, host-side debug printing only; not reachable from step_with_error, the bus
     functions or the Dmd / C interface; not modelled.
   - cpu.rs::step (unwrap + panic!): Cpu::step panics by design on CPU errors other than bus faults; the model's `step`
     returns Panic there; C12 is stated for step_with_error, which the Dmd and C interfaces use.
   - cpu.rs::decode_instruction (unwrap): on the mnemonic table lookup, after the opcode was found in the table; the model's
     decoder has the same lookup and `decode_total` / C12_decoder_on_machine_never_panics show it cannot fail.
   - duart.rs::load, mouse.rs::load (unimplemented!): Bus::load routed to the DUART or the mouse; the model's bus_load
     returns Panic for DDuart / DMouse; host-only call (C11 states it, C12's guest-reachable functions never call it).
   Indexing / slicing: Mem accessors (range-checked first: MemProofs), Bus::video_ram_range (Panic outcome of
   bus_video_ram when the window runs past RAM), register file r[..] with constant or 4-bit indices, IPL_TABLE[v & 0x3f],
   BAUD_RATES[min(.., 12)], FifoQueue slots modulo 3, ports[PORT_n], mode[mode_ptr] with mode_ptr in {0,1} (PInv).
   Division: Cpu::div / Cpu::modulo (wrapping_div / wrapping_rem; every DIV / MOD arm rejects a zero divisor first -- the
   model has the same guard and an IntegerZeroDivide exception, C02 / C13), delay_rate (constant non-zero table entries / 8),
   FifoQueue (% FIFO_LEN = 3), the DUART register decode
   `(address - START_ADDR) as u8` is not a division (the census counts the `/`-like tokens of range patterns there). *)
From Coq Require Import ZArith String List.
Import ListNotations.
Open Scope string_scope.
Open Scope Z_scope.

Definition pinned_explicit_panics : list (string * string * Z) :=
  [("cpu.rs::fmt", "unwrap", 8);
   ("cpu.rs::step", "unwrap", 1);
   ("cpu.rs::step", "panic", 1);
   ("cpu.rs::decode_instruction", "unwrap", 1);
   ("duart.rs::load", "unimplemented", 1);
   ("mouse.rs::load", "unimplemented", 1)].

Definition pinned_index_sites : list (string * Z) :=
  [("bus.rs::video_ram_range", 2);
   ("bus.rs::set_nvram", 1);
   ("cpu.rs::fmt", 2);
   ("cpu.rs::reset", 10);
   ("cpu.rs::effective_address", 13);
   ("cpu.rs::read_op", 6);
   ("cpu.rs::write_op", 6);
   ("cpu.rs::context_switch_1", 33);
   ("cpu.rs::context_switch_2", 11);
   ("cpu.rs::context_switch_3", 20);
   ("cpu.rs::add", 1);
   ("cpu.rs::div", 1);
   ("cpu.rs::modulo", 1);
   ("cpu.rs::on_interrupt", 6);
   ("cpu.rs::dispatch", 127);
   ("cpu.rs::gate", 5);
   ("cpu.rs::on_exception", 11);
   ("cpu.rs::step", 6);
   ("cpu.rs::step_with_error", 2);
   ("cpu.rs::set_pc", 1);
   ("cpu.rs::set_operand", 6);
   ("cpu.rs::accumulate_instruction_byte", 2);
   ("cpu.rs::accumulate_instruction_half", 3);
   ("cpu.rs::accumulate_instruction_word", 5);
   ("cpu.rs::decode_instruction", 3);
   ("cpu.rs::set_v_flag_op", 1);
   ("cpu.rs::set_nz_flags", 1);
   ("cpu.rs::set_c_flag", 2);
   ("cpu.rs::c_flag", 1);
   ("cpu.rs::set_v_flag", 2);
   ("cpu.rs::v_flag", 1);
   ("cpu.rs::set_z_flag", 2);
   ("cpu.rs::z_flag", 1);
   ("cpu.rs::set_n_flag", 2);
   ("cpu.rs::n_flag", 1);
   ("cpu.rs::set_isc", 2);
   ("cpu.rs::set_priv_level", 5);
   ("cpu.rs::priv_level", 1);
   ("cpu.rs::stack_push", 2);
   ("cpu.rs::stack_pop", 2);
   ("cpu.rs::irq_push", 2);
   ("cpu.rs::irq_pop", 2);
   ("cpu.rs::get_pc", 1);
   ("cpu.rs::get_ap", 1);
   ("cpu.rs::get_psw", 1);
   ("dmd.rs::get_register", 1);
   ("duart.rs::loopback", 1);
   ("duart.rs::delay_rate", 2);
   ("duart.rs::get_interrupt", 3);
   ("duart.rs::service", 4);
   ("duart.rs::rs232_rx", 1);
   ("duart.rs::keyboard_rx", 1);
   ("duart.rs::rs232_tx", 1);
   ("duart.rs::keyboard_tx", 1);
   ("duart.rs::handle_command", 1);
   ("duart.rs::read_byte", 8);
   ("duart.rs::write_byte", 8);
   ("mem.rs::as_slice", 1);
   ("mem.rs::read_byte", 1);
   ("mem.rs::read_half", 2);
   ("mem.rs::read_word", 4);
   ("mem.rs::write_byte", 1);
   ("mem.rs::write_half", 2);
   ("mem.rs::write_word", 4);
   ("mem.rs::load", 1);
   ("mem.rs::index", 1);
   ("mem.rs::index_mut", 1);
   ("utils.rs::push", 1);
   ("utils.rs::pop", 1)].

Definition pinned_division_sites : list (string * Z) :=
  [("cpu.rs::fmt", 10);
   ("cpu.rs::div", 6);
   ("cpu.rs::modulo", 6);
   ("cpu.rs::dispatch", 6);
   ("duart.rs::delay_rate", 2);
   ("duart.rs::read_byte", 2);
   ("duart.rs::write_byte", 2);
   ("utils.rs::push", 1);
   ("utils.rs::pop", 1)].
