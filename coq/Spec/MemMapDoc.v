(* The documented memory map (bus.rs header comment / property C10), as a table
   of inclusive address ranges.  Hand-written: this is the specification. *)
From Dmd Require Import Model.Bits.

Inductive docdev := DocRom | DocDuart | DocMouse | DocVid | DocNvram | DocRam.

Definition doc_map : list (Z * Z * docdev) :=
  [ (0x000000, 0x01ffff, DocRom);
    (0x200000, 0x20003f, DocDuart);
    (0x400000, 0x400003, DocMouse);
    (0x500000, 0x500001, DocVid);
    (0x600000, 0x601fff, DocNvram);
    (0x700000, 0x7fffff, DocRam) ].

Definition doc_route (a : Z) : option docdev :=
  match find (fun e => (fst (fst e) <=? a) && (a <=? snd (fst e))) doc_map with
  | Some e => Some (snd e)
  | None => None
  end.
