(* SCN2681 data sheet: baud rates selected by the clock-select code (CSR bits 7:4 for the receiver)
   and the baud-set bit ACR[7].  Rates are stored doubled so that 134.5 baud is exact.  Hand-written. *)
From Dmd Require Import Model.Bits.

Definition ds_rate2_set1 : list Z :=   (* ACR[7] = 0 *)
  [100; 220; 269; 400; 600; 1200; 2400; 2100; 4800; 9600; 14400; 19200; 76800].
Definition ds_rate2_set2 : list Z :=   (* ACR[7] = 1 *)
  [150; 220; 269; 300; 600; 1200; 2400; 4000; 4800; 9600; 3600; 19200; 38400].

(* one character time lies between 8 and 12 bit times: in nanoseconds, allowing one nanosecond of rounding *)
Definition char_time_ok (delay_ns rate2 : Z) : bool :=
  (16000000000 <=? (delay_ns + 1) * rate2) && (delay_ns * rate2 <=? 24000000000).
