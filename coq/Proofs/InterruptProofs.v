(* Interrupt delivery: masking by priority at the instruction boundary, privilege checks (C07). *)
From Coq Require Import ZArith Lia Bool List ZifyBool.
From Dmd Require Import Model.Bits Model.Types Model.Mem Model.Duart Model.Bus Model.Decode Model.Cpu.
From Dmd Require Import Gen.GenOpcodes Gen.GenDispatch Gen.GenConsts.
From Dmd Require Import Proofs.BitsLemmas Proofs.BitKit Proofs.MemProofs Proofs.BusProofs Proofs.VideoProofs
     Proofs.RegKit Proofs.MachKit Proofs.LinkageProofs Proofs.ResetProofs Proofs.ExceptionProofs.
Open Scope Z_scope.

(* the priority level an interrupt request byte is delivered at: 0 = never *)
Definition irq_level (val : Z) : Z := nth (Z.to_nat (Z.land val 63)) IPL_TABLE 0.
Definition cpu_ipl (m : mach) : Z := Z.land (Z.shiftr (PSW m) 13) 15.

(* the documented levels: no request bits -> 0; only bits 0-2 -> 14; any of bits 3-5 -> 15 *)
Lemma ipl_table_levels :
  forallb (fun v => irq_level v =? (if v mod 64 =? 0 then 0 else if v mod 64 <? 8 then 14 else 15))
          (map Z.of_nat (seq 0 256)) = true.
Proof. vm_compute. reflexivity. Qed.

Lemma irq_level_spec v : 0 <= v < 256 ->
  irq_level v = if v mod 64 =? 0 then 0 else if v mod 64 <? 8 then 14 else 15.
Proof.
  intros H. pose proof ipl_table_levels as K. rewrite forallb_forall in K.
  specialize (K v). apply Z.eqb_eq. apply K. apply in_map_iff. exists (Z.to_nat v). split; [lia|].
  apply in_seq. lia.
Qed.

Lemma ipl_table_is_source : IPL_TABLE = g_IPL_TABLE.
Proof. reflexivity. Qed.

(* dispatch: devices are serviced, the request is polled ONCE, before the instruction is decoded; it is taken
   exactly when the processor level is below the request's level; then decode and execute *)
Lemma dispatch_structure now m :
  dispatch now m =
  let b := bus_service now (mbus m) in
  let (o, b) := bus_get_interrupts now b in
  let m := with_bus m b in
  bind (match o with
        | Some val => if cpu_ipl m <? irq_level val then on_interrupt (Z.land (not8 val) 63) m else Ok tt m
        | None => Ok tt m
        end) (fun _ m => bind (decode m) (fun ir m => exec ir m)).
Proof. reflexivity. Qed.

(* no pending request, or level not below the request's: the instruction at PC runs from the serviced state *)
Lemma no_interrupt_when_masked now m o b :
  bus_get_interrupts now (bus_service now (mbus m)) = (o, b) ->
  (match o with Some val => irq_level val <= cpu_ipl (with_bus m b) | None => True end) ->
  dispatch now m = bind (decode (with_bus m b)) (fun ir m => exec ir m).
Proof.
  intros E H. rewrite dispatch_structure. cbv zeta. rewrite E.
  destruct o as [val|]; cbn [bind]; [|reflexivity].
  replace (cpu_ipl (with_bus m b) <? irq_level val) with false by lia. reflexivity.
Qed.

Lemma interrupt_when_unmasked now m val b :
  bus_get_interrupts now (bus_service now (mbus m)) = (Some val, b) ->
  cpu_ipl (with_bus m b) < irq_level val ->
  dispatch now m = bind (on_interrupt (Z.land (not8 val) 63) (with_bus m b))
                        (fun _ m => bind (decode m) (fun ir m => exec ir m)).
Proof.
  intros E H. rewrite dispatch_structure. cbv zeta. rewrite E.
  replace (cpu_ipl (with_bus m b) <? irq_level val) with true by lia. reflexivity.
Qed.

(* level 15 masks everything; a request with no source bits is never delivered *)
Lemma level15_masks_all m val : 0 <= val < 256 -> cpu_ipl m = 15 -> irq_level val <= cpu_ipl m.
Proof.
  intros Hv H. rewrite H, irq_level_spec by exact Hv.
  destruct (val mod 64 =? 0); [lia|]. destruct (val mod 64 <? 8); lia.
Qed.

(* ---- privilege ---- *)
Lemma callps_refused ir m : iopcode ir = 12460 -> is_kernel m = false ->
  exec ir m = Err (EExc PrivilegedOpcode) m.
Proof. intros H K. unfold exec. rewrite H. cbn. rewrite K. reflexivity. Qed.
Lemma retps_refused ir m : iopcode ir = 12488 -> is_kernel m = false ->
  exec ir m = Err (EExc PrivilegedOpcode) m.
Proof. intros H K. unfold exec. rewrite H. cbn. rewrite K. reflexivity. Qed.
Lemma enbvjmp_refused ir m : iopcode ir = 12301 -> is_kernel m = false ->
  exec ir m = Err (EExc PrivilegedOpcode) m.
Proof. intros H K. unfold exec. rewrite H. cbn. rewrite K. reflexivity. Qed.
Lemma disvjmp_refused ir m : iopcode ir = 12307 -> is_kernel m = false ->
  exec ir m = Err (EExc PrivilegedOpcode) m.
Proof. intros H K. unfold exec. rewrite H. cbn. rewrite K. reflexivity. Qed.

(* kernel level = current-mode field (bits 12-11) zero *)
Lemma is_kernel_spec m : 0 <= PSW m ->
  is_kernel m = negb (Z.testbit (PSW m) 11) && negb (Z.testbit (PSW m) 12).
Proof.
  intros Hp. unfold is_kernel, F_CM.
  set (x := Z.land (Z.shiftr (Z.land (PSW m) 6144) 11) 3).
  assert (B0 : Z.testbit x 0 = Z.testbit (PSW m) 11).
  { unfold x. rewrite Z.land_spec, Z.shiftr_spec, Z.land_spec by lia. cbn. now rewrite !andb_true_r. }
  assert (B1 : Z.testbit x 1 = Z.testbit (PSW m) 12).
  { unfold x. rewrite Z.land_spec, Z.shiftr_spec, Z.land_spec by lia. cbn. now rewrite !andb_true_r. }
  assert (Hx : 0 <= x < 4) by (unfold x; rewrite land3_mod; apply Z.mod_pos_bound; lia).
  assert (Ex : x = 0 \/ x = 1 \/ x = 2 \/ x = 3) by lia.
  rewrite <- B0, <- B1. destruct Ex as [->|[->|[->| ->]]]; reflexivity.
Qed.

(* ---- RETPS from a kernel-level state whose interrupt stack names a control block without R and I ---- *)
Lemma bset_R x : bset x F_R = Z.testbit x 8.
Proof. unfold F_R. change 256 with (2 ^ 8). apply bset_pow2. lia. Qed.
Lemma bset_I x : bset x F_I = Z.testbit x 7.
Proof. unfold F_I. change 128 with (2 ^ 7). apply bset_pow2. lia. Qed.

Lemma exec_retps_kernel ir m : iopcode ir = 12488 -> is_kernel m = true ->
  exec ir m =
  bind (irq_pop m) (fun new_pcbp m => bind (rd_word new_pcbp m) (fun new_psw m =>
    let m := setPSW m (Z.lor (clr32 (PSW m) F_R) (Z.land new_psw F_R)) in
    bind (context_switch_2 new_pcbp m) (fun _ m => bind (context_switch_3 m) (fun _ m =>
      if bset (PSW m) F_R then
        bind (rd_word (add32 new_pcbp 24) m) (fun v m => let m := setR m R_FP v in
        bind (rd_word (add32 new_pcbp 28) m) (fun v m => let m := setR m 0 v in
        bind (rd_word (add32 new_pcbp 32) m) (fun v m => let m := setR m 1 v in
        bind (rd_word (add32 new_pcbp 36) m) (fun v m => let m := setR m 2 v in
        bind (rd_word (add32 new_pcbp 40) m) (fun v m => let m := setR m 3 v in
        bind (rd_word (add32 new_pcbp 44) m) (fun v m => let m := setR m 4 v in
        bind (rd_word (add32 new_pcbp 48) m) (fun v m => let m := setR m 5 v in
        bind (rd_word (add32 new_pcbp 52) m) (fun v m => let m := setR m 6 v in
        bind (rd_word (add32 new_pcbp 56) m) (fun v m => let m := setR m 7 v in
        bind (rd_word (add32 new_pcbp 60) m) (fun v m => let m := setR m 8 v in
        bind (rd_word (add32 new_pcbp 20) m) (fun v m => let m := setR m R_AP v in
        Ok 0 m)))))))))))
      else Ok 0 m)))).
Proof. intros H K. unfold exec. rewrite H. cbn. rewrite K. reflexivity. Qed.

Lemma retps_effect ir m :
  iopcode ir = 12488 -> is_kernel m = true -> bus_wf (mbus m) ->
  4 <= R m R_ISP < 4294967296 -> in_ram_w (R m R_ISP - 4) ->
  let P := ldw m (R m R_ISP - 4) in
  in_ram_w P -> in_ram_w (P + 4) -> in_ram_w (P + 8) ->
  let Q := ldw m P in
  Z.testbit Q 8 = false -> Z.testbit Q 7 = false ->
  exists m', exec ir m = Ok 0 m' /\ mbus m' = mbus m
    /\ R m' R_ISP = R m R_ISP - 4 /\ R m' R_PCBP = P /\ PSW m' = clr32 Q F_TM
    /\ R m' R_PC = ldw m (P + 4) /\ R m' R_SP = ldw m (P + 8)
    /\ (forall i, 0 <= i <= 10 -> R m' i = R m i).
Proof.
  intros Ho K W Hisp Hs P HP0 HP4 HP8 Q QR QI.
  rewrite exec_retps_kernel by assumption.
  unfold irq_pop. rconst.
  assert (E4 : sub32 (R m 14) 4 = R m 14 - 4) by (unfold sub32, w32; rewrite Z.mod_small; lia).
  rewrite E4, R_setR_same.
  rewrite rd_word_ram by (first [cbn [mbus setR with_regs]; assumption | assumption]). cbn [bind].
  rewrite ldw_setR. fold P.
  rewrite rd_word_ram by (first [cbn [mbus setR with_regs]; assumption | assumption]). cbn [bind].
  rewrite ldw_setR. fold Q. cbv zeta.
  unfold context_switch_2, setPSW, PSW. rconst.
  rewrite !R_setR_same.
  rewrite rd_word_ram by (first [cbn [mbus setR with_regs]; assumption | assumption]). cbn [bind].
  rewrite !ldw_setR. fold Q. rewrite !R_setR_other by lia. rewrite R_setR_same.
  assert (A4 : add32 P 4 = P + 4) by (destruct HP4 as [? [? ?]]; unfold add32, w32; rewrite Z.mod_small; unfold RAMB, RAME in *; lia).
  assert (A8 : add32 P 8 = P + 8) by (destruct HP8 as [? [? ?]]; unfold add32, w32; rewrite Z.mod_small; unfold RAMB, RAME in *; lia).
  rewrite A4.
  rewrite rd_word_ram by (first [cbn [mbus setR with_regs]; assumption | assumption]). cbn [bind].
  rewrite !ldw_setR. rewrite !R_setR_other by lia. rewrite R_setR_same. rewrite A8.
  rewrite rd_word_ram by (first [cbn [mbus setR with_regs]; assumption | assumption]). cbn [bind].
  rewrite !ldw_setR. rewrite !R_setR_other by lia. rewrite R_setR_same.
  assert (BI : bset (clr32 Q F_TM) F_I = false).
  { rewrite bset_I, testbit_clr32, QI. reflexivity. }
  assert (BR : bset (clr32 Q F_TM) F_R = false).
  { rewrite bset_R, testbit_clr32, QR. reflexivity. }
  rewrite BI. cbn [bind].
  unfold context_switch_3, PSW. rconst. rewrite !R_setR_other by lia. rewrite R_setR_same. rewrite BR. cbn [bind].
  rewrite !R_setR_other by lia. rewrite R_setR_same. rewrite BR.
  eexists. split; [reflexivity|]. split; [reflexivity|].
  split; [rewrite !R_setR_other by lia; apply R_setR_same|].
  split; [rewrite !R_setR_other by lia; apply R_setR_same|].
  split; [rewrite !R_setR_other by lia; apply R_setR_same|].
  split; [rewrite !R_setR_other by lia; apply R_setR_same|].
  split; [apply R_setR_same|].
  intros i Hi. rewrite !R_setR_other by lia. reflexivity.
Qed.

(* ---- interrupt entry through a handler control block without the R and I flags ---- *)
Definition psw1 (psw : Z) : Z := Z.lor (clr32 psw (F_ISC + F_TM + F_ET)) 1.
(* the PSW saved in the interrupted process's control block *)
Definition saved_psw (psw h : Z) : Z := Z.lor (clr32 (psw1 psw) F_R) (Z.land h F_R).
(* the PSW the handler starts with *)
Definition handler_psw (h : Z) : Z := Z.lor (Z.lor (clr32 (clr32 h F_TM) (F_ISC + F_TM + F_ET)) 56) 3.

Lemma cs2_effect N m :
  bus_wf (mbus m) -> in_ram_w N -> in_ram_w (N + 4) -> in_ram_w (N + 8) ->
  Z.testbit (ldw m N) 7 = false ->
  context_switch_2 N m =
  Ok tt (setR (setR (setR (setR m 13 N) 11 (clr32 (ldw m N) F_TM)) 15 (ldw m (N + 4))) 12 (ldw m (N + 8))).
Proof.
  intros W H0 H4 H8 HI. pose proof H4 as [a1 [a2 a3]]. pose proof H8 as [b1 [b2 b3]].
  assert (N4 : add32 N 4 = N + 4) by (unfold add32, w32; rewrite Z.mod_small; unfold RAMB, RAME in *; lia).
  assert (N8 : add32 N 8 = N + 8) by (unfold add32, w32; rewrite Z.mod_small; unfold RAMB, RAME in *; lia).
  unfold context_switch_2, setPSW, PSW. rconst. rewrite !R_setR_same.
  rewrite rd_word_ram by (first [cbn [mbus setR with_regs]; assumption | assumption]). cbn [bind].
  rewrite !ldw_setR. rewrite !R_setR_other by lia. rewrite R_setR_same. rewrite N4.
  rewrite rd_word_ram by (first [cbn [mbus setR with_regs]; assumption | assumption]). cbn [bind].
  rewrite !ldw_setR. rewrite !R_setR_other by lia. rewrite R_setR_same. rewrite N8.
  rewrite rd_word_ram by (first [cbn [mbus setR with_regs]; assumption | assumption]). cbn [bind].
  rewrite !ldw_setR. rewrite !R_setR_other by lia. rewrite R_setR_same.
  assert (BI : bset (clr32 (ldw m N) F_TM) F_I = false) by (rewrite bset_I, testbit_clr32, HI; reflexivity).
  rewrite BI. reflexivity.
Qed.

Lemma cs1_effect_noR N P m :
  bus_wf (mbus m) -> R m R_PCBP = P ->
  in_ram_w P -> in_ram_w (P + 4) -> in_ram_w (P + 8) -> in_ram_w N -> (P + 8 <= N \/ N + 4 <= P + 4) ->
  Z.testbit (ldw m N) 8 = false ->
  context_switch_1 N m =
  Ok tt (stw (stw (setR (stw m (P + 4) (R m R_PC)) 11 (Z.lor (clr32 (PSW m) F_R) (Z.land (ldw m N) F_R))) P
                  (Z.lor (clr32 (PSW m) F_R) (Z.land (ldw m N) F_R))) (P + 8) (R m R_SP)).
Proof.
  intros W EP H0 H4 H8 HN D HR. subst P. set (P := R m R_PCBP) in *. pose proof H4 as [a1 [a2 a3]]. pose proof H8 as [b1 [b2 b3]].
  pose proof HN as [n1 [n2 n3]]. pose proof H0 as [p1 [p2 p3]].
  assert (P4 : add32 P 4 = P + 4) by (unfold add32, w32; rewrite Z.mod_small; unfold RAMB, RAME in *; lia).
  assert (P8 : add32 P 8 = P + 8) by (unfold add32, w32; rewrite Z.mod_small; unfold RAMB, RAME in *; lia).
  unfold context_switch_1, setPSW, PSW. unfold P in *. rconst. rewrite P4.
  rewrite wr_word_ram by assumption. cbn [bind]. rewrite !R_stw.
  rewrite rd_word_ram by (first [cbn [mbus setR with_regs]; apply wf_stw; assumption | assumption]). cbn [bind].
  rewrite ldw_setR. rewrite ldw_stw_other by (unfold RAMB in *; lia).
  rewrite !R_setR_same. rewrite !R_setR_other by lia. rewrite !R_stw.
  rewrite wr_word_ram by (first [cbn [mbus setR with_regs]; apply wf_stw; assumption | assumption]). cbn [bind].
  rewrite !R_stw. rewrite !R_setR_other by lia. rewrite !R_stw. rewrite P8.
  rewrite wr_word_ram by (first [apply wf_stw; cbn [mbus setR with_regs]; apply wf_stw; assumption | assumption]).
  cbn [bind]. rewrite !R_stw, R_setR_same.
  assert (QR : bset (Z.lor (clr32 (R m 11) F_R) (Z.land (ldw m N) F_R)) F_R = false).
  { rewrite bset_R, Z.lor_spec, testbit_clr32, Z.land_spec, HR. psw_consts. eval_closed_bits.
    now rewrite andb_false_r. }
  rewrite QR. unfold PSW. rconst.
  rewrite setR_setR_same. reflexivity.
Qed.

(* the state after the old control-block pointer has been stacked and the PSW marked (irq_push; psw_enter_1) *)
Definition entry0 (m : mach) : mach :=
  let S := R m R_ISP in
  setPSW (setR (stw m S (R m R_PCBP)) R_ISP (S + 4)) (psw1 (PSW m)).

Lemma entry0_eq m : bus_wf (mbus m) -> in_ram_w (R m R_ISP) -> R m R_ISP + 4 < 4294967296 ->
  bind (irq_push (R m R_PCBP) m) (fun _ m1 => Ok tt (psw_enter_1 m1)) = Ok tt (entry0 m).
Proof.
  intros W HS Hlt. pose proof HS as [s1 [s2 s3]].
  unfold irq_push. rewrite wr_word_ram by assumption. cbn [bind]. rewrite R_stw.
  assert (A4 : add32 (R m R_ISP) 4 = R m R_ISP + 4) by (unfold add32, w32; rewrite Z.mod_small; unfold RAMB, RAME in *; lia).
  rewrite A4. unfold psw_enter_1, entry0, psw1, setPSW, PSW. cbv zeta. rconst.
  rewrite R_setR_other by lia. rewrite R_stw. reflexivity.
Qed.

Lemma entry0_wf m : bus_wf (mbus m) -> bus_wf (mbus (entry0 m)).
Proof. intros W. unfold entry0, setPSW. cbv zeta. cbn [mbus setR with_regs]. now apply wf_stw. Qed.
Lemma entry0_R m i : 0 <= i <= 15 -> i <> 11 -> i <> 14 -> R (entry0 m) i = R m i.
Proof. intros. unfold entry0, setPSW. cbv zeta. rconst. rewrite !R_setR_other by lia. apply R_stw. Qed.
Lemma entry0_isp m : R (entry0 m) R_ISP = R m R_ISP + 4.
Proof. unfold entry0, setPSW. cbv zeta. rconst. rewrite R_setR_other by lia. apply R_setR_same. Qed.
Lemma entry0_psw m : PSW (entry0 m) = psw1 (PSW m).
Proof. unfold entry0, setPSW, PSW. cbv zeta. apply R_setR_same. Qed.
Lemma entry0_ldw m a : RAMB <= R m R_ISP -> RAMB <= a -> (a + 4 <= R m R_ISP \/ R m R_ISP + 4 <= a) ->
  ldw (entry0 m) a = ldw m a.
Proof. intros. unfold entry0, setPSW. cbv zeta. rewrite !ldw_setR. now apply ldw_stw_other. Qed.
Lemma entry0_ldw_isp m : RAMB <= R m R_ISP -> ldw (entry0 m) (R m R_ISP) = w32 (R m R_PCBP).
Proof. intros. unfold entry0, setPSW. cbv zeta. rewrite !ldw_setR. now apply ldw_stw_same. Qed.
Lemma entry0_ramb m a : RAMB <= R m R_ISP -> RAMB <= a -> (a < R m R_ISP \/ R m R_ISP + 4 <= a) ->
  ramb (entry0 m) a = ramb m a.
Proof. intros. unfold entry0, setPSW. cbv zeta. rewrite !ramb_setR. now apply ramb_stw_other. Qed.

(* the state after context_switch_1 (no R): PC, PSW, SP stored in the old control block *)
Definition entry5 (m0 : mach) (P q pc sp : Z) : mach :=
  stw (stw (setR (stw m0 (P + 4) pc) 11 q) P q) (P + 8) sp.

Lemma entry5_wf m0 P q pc sp : bus_wf (mbus m0) -> bus_wf (mbus (entry5 m0 P q pc sp)).
Proof. intros W. unfold entry5. apply wf_stw. apply wf_stw. cbn [mbus setR with_regs]. now apply wf_stw. Qed.
Lemma entry5_R m0 P q pc sp i : 0 <= i <= 15 -> i <> 11 -> R (entry5 m0 P q pc sp) i = R m0 i.
Proof. intros. unfold entry5. rewrite !R_stw, R_setR_other by lia. apply R_stw. Qed.
Lemma entry5_ldw_other m0 P q pc sp a : RAMB <= P -> RAMB <= a -> (a + 4 <= P \/ P + 12 <= a) ->
  ldw (entry5 m0 P q pc sp) a = ldw m0 a.
Proof.
  intros. unfold entry5. rewrite !ldw_stw_other by lia. rewrite ldw_setR. apply ldw_stw_other; lia.
Qed.
Lemma entry5_ldw0 m0 P q pc sp : RAMB <= P -> ldw (entry5 m0 P q pc sp) P = w32 q.
Proof. intros. unfold entry5. rewrite ldw_stw_other by lia. now apply ldw_stw_same. Qed.
Lemma entry5_ldw4 m0 P q pc sp : RAMB <= P -> ldw (entry5 m0 P q pc sp) (P + 4) = w32 pc.
Proof. intros. unfold entry5. rewrite !ldw_stw_other by lia. rewrite ldw_setR. apply ldw_stw_same. lia. Qed.
Lemma entry5_ldw8 m0 P q pc sp : RAMB <= P -> ldw (entry5 m0 P q pc sp) (P + 8) = w32 sp.
Proof. intros. unfold entry5. apply ldw_stw_same. lia. Qed.
Lemma entry5_ramb m0 P q pc sp a : RAMB <= P -> RAMB <= a -> (a < P \/ P + 12 <= a) ->
  ramb (entry5 m0 P q pc sp) a = ramb m0 a.
Proof.
  intros. unfold entry5. rewrite !ramb_stw_other by lia. rewrite ramb_setR. apply ramb_stw_other; lia.
Qed.

(* the final register loads (context_switch_2, psw_enter_2, context_switch_3 without R) *)
Lemma entry_tail N m5 :
  bus_wf (mbus m5) -> in_ram_w N -> in_ram_w (N + 4) -> in_ram_w (N + 8) ->
  Z.testbit (ldw m5 N) 8 = false -> Z.testbit (ldw m5 N) 7 = false ->
  bind (context_switch_2 N m5) (fun _ m => context_switch_3 (psw_enter_2 m)) =
  Ok tt (setR (setR (setR (setR m5 13 N) 15 (ldw m5 (N + 4))) 12 (ldw m5 (N + 8))) 11 (handler_psw (ldw m5 N))).
Proof.
  intros W H0 H4 H8 HR HI. rewrite cs2_effect by assumption. cbn [bind].
  unfold psw_enter_2, context_switch_3, setPSW, PSW, handler_psw. rconst. rsimp.
  assert (BR : bset (Z.lor (Z.lor (clr32 (clr32 (ldw m5 N) F_TM) (F_ISC + F_TM + F_ET)) 56) 3) F_R = false).
  { rewrite bset_R, !Z.lor_spec, !testbit_clr32, HR. reflexivity. }
  rewrite BR. f_equal.
Qed.

Lemma on_interrupt_effect_gen v m N P S H :
  bus_wf (mbus m) -> 0 <= v -> in_rom_w (140 + 4 * v) ->
  romw m (140 + 4 * v) = N -> R m R_PCBP = P -> R m R_ISP = S -> ldw m N = H ->
  in_ram_w N -> in_ram_w (N + 4) -> in_ram_w (N + 8) ->
  in_ram_w P -> in_ram_w (P + 4) -> in_ram_w (P + 8) -> in_ram_w S -> S + 4 < 4294967296 ->
  (P + 12 <= N \/ N + 12 <= P) -> (S + 4 <= P \/ P + 12 <= S) -> (S + 4 <= N \/ N + 12 <= S) ->
  Z.testbit H 8 = false -> Z.testbit H 7 = false ->
  exists m1, on_interrupt v m = Ok tt m1
    /\ bus_wf (mbus m1)
    /\ R m1 R_ISP = S + 4 /\ R m1 R_PCBP = N /\ PSW m1 = handler_psw H
    /\ R m1 R_PC = ldw m (N + 4) /\ R m1 R_SP = ldw m (N + 8)
    /\ (forall i, 0 <= i <= 10 -> R m1 i = R m i)
    /\ ldw m1 S = w32 P /\ ldw m1 P = w32 (saved_psw (PSW m) H)
    /\ ldw m1 (P + 4) = w32 (R m R_PC) /\ ldw m1 (P + 8) = w32 (R m R_SP)
    /\ (forall a, RAMB <= a -> (a < S \/ S + 4 <= a) -> (a < P \/ P + 12 <= a) -> ramb m1 a = ramb m a).
Proof.
  intros W Hv Hrom EN EP ES EH HN0 HN4 HN8 HP0 HP4 HP8 HS Hlt D1 D2 D3 HR HI.
  pose proof HN0 as [n1 [n2 n3]]. pose proof HP0 as [p1 [p2 p3]]. pose proof HS as [s1 [s2 s3]].
  pose proof HN8 as [n81 [n82 n83]]. pose proof HP8 as [p81 [p82 p83]].
  assert (HS' : in_ram_w (R m R_ISP)) by (rewrite ES; exact HS).
  assert (Hlt' : R m R_ISP + 4 < 4294967296) by (rewrite ES; exact Hlt).
  assert (E0 : on_interrupt v m =
               bind (context_switch_1 N (entry0 m)) (fun _ m => bind (context_switch_2 N m) (fun _ m =>
                 context_switch_3 (psw_enter_2 m)))).
  { unfold on_interrupt. rewrite rd_word_rom by assumption. cbn [bind]. rewrite EN.
    pose proof (entry0_eq m W HS' Hlt') as K.
    destruct (irq_push (R m R_PCBP) m) as [u mx|e mx| |]; cbn [bind] in *; try discriminate.
    assert (K' : psw_enter_1 mx = entry0 m) by congruence. cbv zeta. rewrite K'. reflexivity. }
  rewrite E0. clear E0.
  pose proof (entry0_wf m W) as W0.
  assert (E13 : R (entry0 m) R_PCBP = P) by (rewrite entry0_R by (unfold R_PCBP; lia); exact EP).
  assert (LN : forall k, k = 0 \/ k = 4 \/ k = 8 -> ldw (entry0 m) (N + k) = ldw m (N + k)).
  { intros k Hk. apply entry0_ldw; rewrite ?ES; unfold RAMB in *; lia. }
  assert (LN0 : ldw (entry0 m) N = H) by (replace N with (N + 0) by lia; rewrite LN by lia; rewrite Z.add_0_r; exact EH).
  assert (HR0 : Z.testbit (ldw (entry0 m) N) 8 = false) by (rewrite LN0; exact HR).
  assert (D1' : P + 8 <= N \/ N + 4 <= P + 4) by lia.
  rewrite (cs1_effect_noR N P (entry0 m) W0 E13 HP0 HP4 HP8 HN0 D1' HR0). cbn [bind].
  rewrite LN0, entry0_psw. rewrite !entry0_R by (unfold R_PC, R_SP; lia).
  fold (saved_psw (PSW m) H).
  fold (entry5 (entry0 m) P (saved_psw (PSW m) H) (R m R_PC) (R m R_SP)).
  pose proof (entry5_wf (entry0 m) P (saved_psw (PSW m) H) (R m R_PC) (R m R_SP) W0) as W5.
  assert (L5N : forall k, k = 0 \/ k = 4 \/ k = 8 ->
            ldw (entry5 (entry0 m) P (saved_psw (PSW m) H) (R m R_PC) (R m R_SP)) (N + k) = ldw m (N + k)).
  { intros k Hk. rewrite entry5_ldw_other by (unfold RAMB in *; lia). now apply LN. }
  assert (L5N0 : ldw (entry5 (entry0 m) P (saved_psw (PSW m) H) (R m R_PC) (R m R_SP)) N = H)
    by (replace N with (N + 0) by lia; rewrite L5N by lia; rewrite Z.add_0_r; exact EH).
  rewrite (entry_tail N _ W5 HN0 HN4 HN8) by (rewrite L5N0; assumption).
  rewrite L5N0, !L5N by lia.
  eexists. split; [reflexivity|].
  split; [rewrite !mbus_setR; exact W5|].
  split.
  { unfold R_ISP. rewrite !R_setR_other by lia. rewrite entry5_R by lia. change 14 with R_ISP. rewrite entry0_isp. lia. }
  split; [unfold R_PCBP; rewrite !R_setR_other by lia; apply R_setR_same|].
  split; [unfold PSW, R_PSW; apply R_setR_same|].
  split; [unfold R_PC; rewrite !R_setR_other by lia; apply R_setR_same|].
  split; [unfold R_SP; rewrite !R_setR_other by lia; apply R_setR_same|].
  split; [intros i Hi; rewrite !R_setR_other by lia; rewrite entry5_R by lia; apply entry0_R; lia|].
  rewrite !ldw_setR.
  split.
  { rewrite entry5_ldw_other by (unfold RAMB in *; lia). rewrite <- ES, <- EP. apply entry0_ldw_isp. rewrite ES. exact s1. }
  split; [apply entry5_ldw0; lia|].
  split; [apply entry5_ldw4; lia|].
  split; [apply entry5_ldw8; lia|].
  intros a Ha D4 D5. rewrite !ramb_setR. rewrite entry5_ramb by (unfold RAMB in *; lia).
  apply entry0_ramb; rewrite ?ES; assumption.
Qed.

Lemma on_interrupt_effect v m :
  bus_wf (mbus m) -> 0 <= v -> in_rom_w (140 + 4 * v) ->
  let N := romw m (140 + 4 * v) in
  let P := R m R_PCBP in
  let S := R m R_ISP in
  in_ram_w N -> in_ram_w (N + 4) -> in_ram_w (N + 8) ->
  in_ram_w P -> in_ram_w (P + 4) -> in_ram_w (P + 8) -> in_ram_w S -> S + 4 < 4294967296 ->
  (P + 12 <= N \/ N + 12 <= P) -> (S + 4 <= P \/ P + 12 <= S) -> (S + 4 <= N \/ N + 12 <= S) ->
  let H := ldw m N in
  Z.testbit H 8 = false -> Z.testbit H 7 = false ->
  exists m1, on_interrupt v m = Ok tt m1
    /\ bus_wf (mbus m1)
    /\ R m1 R_ISP = S + 4 /\ R m1 R_PCBP = N /\ PSW m1 = handler_psw H
    /\ R m1 R_PC = ldw m (N + 4) /\ R m1 R_SP = ldw m (N + 8)
    /\ (forall i, 0 <= i <= 10 -> R m1 i = R m i)
    /\ ldw m1 S = w32 P /\ ldw m1 P = w32 (saved_psw (PSW m) H)
    /\ ldw m1 (P + 4) = w32 (R m R_PC) /\ ldw m1 (P + 8) = w32 (R m R_SP)
    /\ (forall a, RAMB <= a -> (a < S \/ S + 4 <= a) -> (a < P \/ P + 12 <= a) -> ramb m1 a = ramb m a).
Proof.
  intros W Hv Hrom N P S. intros. eapply on_interrupt_effect_gen; eauto.
Qed.

(* bits of the PSW that survive the save / restore through the control block *)
Lemma saved_psw_keeps_bit psw h k :
  In k [21; 20; 19; 18; 16; 15; 14; 13; 12; 11; 10; 9; 7] ->
  Z.testbit (clr32 (w32 (saved_psw psw h)) F_TM) k = Z.testbit psw k.
Proof.
  intros Hk. rewrite testbit_clr32. unfold w32. change 4294967296 with (2 ^ 32). cbn [In] in Hk.
  repeat (destruct Hk as [Hk|Hk];
          [subst k; rewrite Z.mod_pow2_bits_low with (n := 32) by lia; unfold saved_psw, psw1;
           repeat (rewrite Z.lor_spec || rewrite Z.land_spec || rewrite testbit_clr32); psw_consts; eval_closed_bits;
           rewrite ?andb_true_r, ?andb_false_r, ?orb_false_r; reflexivity|]).
  contradiction.
Qed.

Lemma handler_psw_kernel h : 0 <= h -> Z.testbit h 11 = false -> Z.testbit h 12 = false ->
  forall m, PSW m = handler_psw h -> is_kernel m = true.
Proof.
  intros Hh H11 H12 m E. rewrite is_kernel_spec.
  - rewrite E. unfold handler_psw. rewrite !Z.lor_spec, !testbit_clr32, H11, H12. reflexivity.
  - rewrite E. unfold handler_psw. apply Z.lor_nonneg. split; [|lia]. apply Z.lor_nonneg. split; [|lia].
    unfold clr32. apply Z.land_nonneg. left. apply Z.land_nonneg. left. exact Hh.
Qed.

(* interrupt delivered, handler (control block without R and I, kernel level) returns at once with RETPS:
   the interrupted program continues with PC, SP, r0-r10, PCBP, ISP, condition codes, priority level and
   execution level exactly as they were *)
Lemma interrupt_retps_transparent ir v m :
  iopcode ir = 12488 ->
  bus_wf (mbus m) -> 0 <= v -> in_rom_w (140 + 4 * v) ->
  let N := romw m (140 + 4 * v) in
  let P := R m R_PCBP in
  let S := R m R_ISP in
  in_ram_w N -> in_ram_w (N + 4) -> in_ram_w (N + 8) ->
  in_ram_w P -> in_ram_w (P + 4) -> in_ram_w (P + 8) -> in_ram_w S -> S + 4 < 4294967296 ->
  (P + 12 <= N \/ N + 12 <= P) -> (S + 4 <= P \/ P + 12 <= S) -> (S + 4 <= N \/ N + 12 <= S) ->
  let H := ldw m N in
  0 <= H -> Z.testbit H 8 = false -> Z.testbit H 7 = false -> Z.testbit H 11 = false -> Z.testbit H 12 = false ->
  Z.testbit (PSW m) 7 = false ->
  0 <= R m R_PC < 4294967296 -> 0 <= R m R_SP < 4294967296 ->
  exists m1 m2,
    on_interrupt v m = Ok tt m1 /\ exec ir m1 = Ok 0 m2
    /\ R m2 R_PC = R m R_PC /\ R m2 R_SP = R m R_SP /\ R m2 R_PCBP = P /\ R m2 R_ISP = S
    /\ (forall i, 0 <= i <= 10 -> R m2 i = R m i)
    /\ (forall k, In k [21; 20; 19; 18; 16; 15; 14; 13; 12; 11; 10; 9; 7] -> Z.testbit (PSW m2) k = Z.testbit (PSW m) k)
    /\ (forall a, RAMB <= a -> (a < S \/ S + 4 <= a) -> (a < P \/ P + 12 <= a) -> ramb m2 a = ramb m a).
Proof.
  intros Ho W Hv Hrom N P S HN0 HN4 HN8 HP0 HP4 HP8 HS Hlt D1 D2 D3 H H0 HR HI H11 H12 PI Hpc Hsp.
  destruct (on_interrupt_effect_gen v m N P S H W Hv Hrom eq_refl eq_refl eq_refl eq_refl HN0 HN4 HN8 HP0 HP4 HP8 HS Hlt D1 D2 D3 HR HI)
    as [m1 [E1 [W1 [Isp1 [Pcbp1 [Psw1 [Pc1 [Sp1 [Rg1 [LS [LP [LP4 [LP8 Fr]]]]]]]]]]]]].
  pose proof HP0 as [p1 [p2 p3]]. pose proof HS as [s1 [s2 s3]].
  assert (Pr : 0 <= P < 4294967296) by (unfold RAMB, RAME in *; lia).
  assert (EP : ldw m1 (R m1 R_ISP - 4) = P).
  { rewrite Isp1. replace (S + 4 - 4) with S by lia. rewrite LS. now apply w32_id. }
  destruct (retps_effect ir m1 Ho) as [m2 [E2 [B2 [Isp2 [Pcbp2 [Psw2 [Pc2 [Sp2 Rg2]]]]]]]].
  - eapply handler_psw_kernel; eauto.
  - exact W1.
  - rewrite Isp1. unfold RAMB in *. lia.
  - rewrite Isp1. replace (S + 4 - 4) with S by lia. exact HS.
  - rewrite EP. exact HP0.
  - rewrite EP. exact HP4.
  - rewrite EP. exact HP8.
  - rewrite EP, LP. unfold w32. rewrite Z.mod_pow2_bits_low with (n := 32) by lia.
    unfold saved_psw. rewrite Z.lor_spec, testbit_clr32, Z.land_spec, HR. psw_consts. eval_closed_bits.
    now rewrite andb_false_r.
  - rewrite EP, LP. unfold w32. rewrite Z.mod_pow2_bits_low with (n := 32) by lia.
    unfold saved_psw, psw1. repeat (rewrite Z.lor_spec || rewrite Z.land_spec || rewrite testbit_clr32).
    rewrite PI. psw_consts. eval_closed_bits. rewrite ?andb_false_r, ?andb_true_r, ?orb_false_r. reflexivity.
  - rewrite EP in *. exists m1, m2.
    split; [exact E1|]. split; [exact E2|].
    split; [rewrite Pc2, LP4; now apply w32_id|].
    split; [rewrite Sp2, LP8; now apply w32_id|].
    split; [exact Pcbp2|].
    split; [rewrite Isp2, Isp1; lia|].
    split; [intros i Hi; rewrite Rg2 by lia; now apply Rg1|].
    split.
    + intros k Hk. rewrite Psw2, LP. now apply saved_psw_keeps_bit.
    + intros a Ha Da Db. unfold ramb. rewrite B2. fold (ramb m1 a). now apply Fr.
Qed.
