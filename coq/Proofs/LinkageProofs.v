(* Stack and procedure linkage (C06): the effect of each instruction as an explicit final state, and the
   inverse pairs. *)
From Coq Require Import ZArith Lia Bool List ZifyBool.
From Dmd Require Import Model.Bits Model.Types Model.Mem Model.Bus Model.Decode Model.Cpu.
From Dmd Require Import Gen.GenOpcodes Gen.GenDispatch.
From Dmd Require Import Proofs.BitsLemmas Proofs.MemProofs Proofs.BusProofs Proofs.VideoProofs Proofs.RegKit
     Proofs.MachKit Proofs.BranchProofs.
Open Scope Z_scope.

Ltac arm := intros H; unfold exec; rewrite H; reflexivity.
Ltac splits := repeat match goal with |- _ /\ _ => split end.

(* the flag updates common to PUSHW / POPW / PUSHAW: N, Z from the value, C and V cleared *)
Definition nz_clear_cv (v : Z) (o : operand) (m : mach) : mach :=
  set_v false (set_c false (set_nz_flags v o m)).

Lemma R_nz_clear_cv v o m i : 0 <= i <= 15 -> i <> 11 -> R (nz_clear_cv v o m) i = R m i.
Proof.
  intros Hi N. unfold nz_clear_cv, set_v, set_c, set_nz_flags, set_z, set_n.
  destruct (otype o); rewrite ?R_setf_other by lia; reflexivity.
Qed.
Lemma mbus_nz_clear_cv v o m : mbus (nz_clear_cv v o m) = mbus m.
Proof. unfold nz_clear_cv, set_nz_flags, set_z, set_n. destruct (otype o); reflexivity. Qed.
Lemma ldw_nz_clear_cv v o m a : ldw (nz_clear_cv v o m) a = ldw m a.
Proof. unfold ldw, ramb. now rewrite mbus_nz_clear_cv. Qed.
Lemma ramb_nz_clear_cv v o m a : ramb (nz_clear_cv v o m) a = ramb m a.
Proof. unfold ramb. now rewrite mbus_nz_clear_cv. Qed.

(* ---- the dispatch arms ---- *)
Lemma exec_pushw ir m : iopcode ir = 160 ->
  exec ir m = bind (read_op ir 0 m) (fun v m => bind (stack_push v m) (fun _ m =>
              Ok (ilen ir) (nz_clear_cv v (op0 ir) m))).
Proof. arm. Qed.

Lemma exec_popw ir m : iopcode ir = 32 ->
  exec ir m = bind (rd_word (usub (R m R_SP) 4) m) (fun v m => bind (write_op ir 0 v m) (fun _ m =>
              Ok (ilen ir) (nz_clear_cv v (op0 ir) (setR m R_SP (sub32 (R m R_SP) 4))))).
Proof. arm. Qed.

Lemma exec_call ir m : iopcode ir = 44 ->
  exec ir m = bind (effective_address ir 0 m) (fun a m => bind (effective_address ir 1 m) (fun b m =>
              let rp := w32 (R m R_PC + ilen ir) in
              bind (wr_word (add32 (R m R_SP) 4) (R m R_AP) m) (fun _ m =>
              bind (wr_word (R m R_SP) rp m) (fun _ m =>
              Ok 0 (setR (setR (setR m R_SP (add32 (R m R_SP) 8)) R_PC b) R_AP a))))).
Proof. arm. Qed.

Lemma exec_ret ir m : iopcode ir = 8 ->
  exec ir m = bind (rd_word (sub32 (R m R_SP) 4) m) (fun b m1 => bind (rd_word (sub32 (R m1 R_SP) 8) m1) (fun c m2 =>
              Ok 0 (setR (setR (setR m2 R_AP b) R_PC c) R_SP (R m R_AP)))).
Proof. arm. Qed.

Fixpoint save_loop (n : nat) (r off : Z) (m : mach) : res mach unit :=
  match n with
  | O => Ok tt m
  | S n' => if r <? R_FP then
              bind (wr_word (R m R_SP + off) (R m r) m) (fun _ m => save_loop n' (r + 1) (off + 4) m)
            else Ok tt m
  end.
Fixpoint restore_loop (n : nat) (r c : Z) (m : mach) : res mach unit :=
  match n with
  | O => Ok tt m
  | S n' => if r <? R_FP then
              bind (rd_word c m) (fun v m => restore_loop n' (r + 1) (add32 c 4) (setR m r v))
            else Ok tt m
  end.

Lemma exec_save ir m : iopcode ir = 16 ->
  exec ir m = bind (wr_word (R m R_SP) (R m R_FP) m) (fun _ m =>
              match oreg (op0 ir) with
              | None => illegalM m
              | Some r => bind (save_loop 9 r 4 m) (fun _ m =>
                          let m := setR m R_SP (add32 (R m R_SP) 28) in Ok (ilen ir) (setR m R_FP (R m R_SP)))
              end).
Proof. arm. Qed.

Lemma exec_restore ir m : iopcode ir = 24 ->
  exec ir m = bind (rd_word (sub32 (R m R_FP) 28) m) (fun b m1 =>
              match oreg (op0 ir) with
              | None => illegalM m1
              | Some r => bind (restore_loop 9 r (sub32 (R m1 R_FP) 24) m1) (fun _ m2 =>
                          Ok (ilen ir) (setR (setR m2 R_FP b) R_SP (sub32 (R m R_FP) 28)))
              end).
Proof. arm. Qed.

(* ---- stack primitives on RAM ---- *)
Lemma stack_push_ram v m : bus_wf (mbus m) -> in_ram_w (R m R_SP) ->
  stack_push v m = Ok tt (setR (stw m (R m R_SP) v) R_SP (add32 (R m R_SP) 4)).
Proof.
  intros W H. unfold stack_push. rewrite wr_word_ram by assumption. reflexivity.
Qed.
Lemma stack_pop_ram m : bus_wf (mbus m) -> in_ram_w (sub32 (R m R_SP) 4) ->
  stack_pop m = Ok (ldw m (sub32 (R m R_SP) 4)) (setR m R_SP (sub32 (R m R_SP) 4)).
Proof.
  intros W H. unfold stack_pop. rewrite rd_word_ram by assumption. reflexivity.
Qed.

(* machine states the stack instructions produce *)
Definition pushed (m : mach) (v : Z) : mach := setR (stw m (R m R_SP) v) R_SP (add32 (R m R_SP) 4).

Lemma R_pushed_sp m v : R (pushed m v) R_SP = add32 (R m R_SP) 4.
Proof. unfold pushed. apply R_setR_same. Qed.
Lemma R_pushed_other m v i : 0 <= i <= 15 -> i <> 12 -> R (pushed m v) i = R m i.
Proof. intros. unfold pushed. rewrite R_setR_other by (unfold R_SP; lia). reflexivity. Qed.
Lemma ldw_pushed_top m v : RAMB <= R m R_SP -> ldw (pushed m v) (R m R_SP) = w32 v.
Proof. intros. unfold pushed. rewrite ldw_setR. now apply ldw_stw_same. Qed.
Lemma ramb_pushed_other m v a : RAMB <= R m R_SP -> RAMB <= a -> (a < R m R_SP \/ R m R_SP + 4 <= a) ->
  ramb (pushed m v) a = ramb m a.
Proof. intros. unfold pushed. rewrite ramb_setR. now apply ramb_stw_other. Qed.
Lemma wf_pushed m v : bus_wf (mbus m) -> bus_wf (mbus (pushed m v)).
Proof. intros W. unfold pushed. cbn [mbus setR with_regs]. now apply wf_stw. Qed.

(* ---- PUSHW ---- *)
Lemma pushw_effect ir m v :
  iopcode ir = 160 -> bus_wf (mbus m) -> in_ram_w (R m R_SP) -> read_op ir 0 m = Ok v m ->
  exec ir m = Ok (ilen ir) (nz_clear_cv v (op0 ir) (pushed m v)).
Proof.
  intros Ho W Hs Hr. rewrite exec_pushw by exact Ho. rewrite Hr. cbn [bind].
  rewrite stack_push_ram by assumption. reflexivity.
Qed.

(* ---- POPW into a general register ---- *)
Lemma popw_effect_reg ir m r :
  iopcode ir = 32 -> bus_wf (mbus m) -> in_ram_w (R m R_SP - 4) -> 4 <= R m R_SP < 4294967296 ->
  omode (op0 ir) = MRegister -> oreg (op0 ir) = Some r ->
  exec ir m = Ok (ilen ir) (nz_clear_cv (ldw m (R m R_SP - 4)) (op0 ir)
                              (setR (setR m r (ldw m (R m R_SP - 4))) R_SP
                                    (sub32 (R (setR m r (ldw m (R m R_SP - 4))) R_SP) 4))).
Proof.
  intros Ho W Hs Hsp Hm Hr. rewrite exec_popw by exact Ho.
  assert (E : usub (R m R_SP) 4 = R m R_SP - 4) by (unfold usub, w64; rewrite Z.mod_small; lia).
  rewrite E. rewrite rd_word_ram by assumption. cbn [bind].
  unfold write_op. change (get_op ir 0) with (op0 ir). rewrite Hm, Hr. cbn [bind]. reflexivity.
Qed.

(* PUSHW then POPW %r: r receives the pushed word, SP is back, and only the (now dead) word at the old SP changed *)
Lemma pushw_popw ir1 ir2 m v r :
  iopcode ir1 = 160 -> iopcode ir2 = 32 -> bus_wf (mbus m) ->
  in_ram_w (R m R_SP) -> R m R_SP + 4 < 4294967296 ->
  read_op ir1 0 m = Ok v m ->
  omode (op0 ir2) = MRegister -> oreg (op0 ir2) = Some r -> 0 <= r <= 10 ->
  exists m1 m2,
    exec ir1 m = Ok (ilen ir1) m1 /\ exec ir2 m1 = Ok (ilen ir2) m2
    /\ R m2 r = w32 v /\ R m2 R_SP = R m R_SP
    /\ (forall i, 0 <= i <= 15 -> i <> r -> i <> 11 -> i <> 12 -> R m2 i = R m i)
    /\ (forall a, RAMB <= a -> (a < R m R_SP \/ R m R_SP + 4 <= a) -> ramb m2 a = ramb m a).
Proof.
  intros Ho1 Ho2 W Hs Hlt Hr Hm Hreg Hr10.
  pose proof Hs as [Hs1 [Hs2 Hs3]].
  set (m1 := nz_clear_cv v (op0 ir1) (pushed m v)).
  assert (Sp1 : R m1 R_SP = R m R_SP + 4).
  { unfold m1. rewrite R_nz_clear_cv by (unfold R_SP; lia). rewrite R_pushed_sp.
    unfold add32, w32. rewrite Z.mod_small; unfold RAMB in *; lia. }
  assert (W1 : bus_wf (mbus m1)) by (unfold m1; rewrite mbus_nz_clear_cv; now apply wf_pushed).
  assert (L1 : ldw m1 (R m1 R_SP - 4) = w32 v).
  { rewrite Sp1. replace (R m R_SP + 4 - 4) with (R m R_SP) by lia. unfold m1.
    rewrite ldw_nz_clear_cv. apply ldw_pushed_top. lia. }
  exists m1. eexists. split; [now apply pushw_effect|]. split.
  - apply popw_effect_reg with (r := r); auto.
    + rewrite Sp1. replace (R m R_SP + 4 - 4) with (R m R_SP) by lia. exact Hs.
    + rewrite Sp1. unfold RAMB in *. lia.
  - rewrite L1.
    assert (Nr12 : r <> 12) by lia. assert (Nr11 : r <> 11) by lia.
    splits.
    + rewrite R_nz_clear_cv by lia. rewrite R_setR_other by (unfold R_SP; lia). apply R_setR_same.
    + rewrite R_nz_clear_cv by (unfold R_SP; lia). rewrite R_setR_same.
      rewrite R_setR_other by (unfold R_SP; lia). rewrite Sp1. unfold sub32, w32.
      replace (R m R_SP + 4 - 4) with (R m R_SP) by lia. rewrite Z.mod_small; unfold RAMB in *; lia.
    + intros i Hi N1 N2 N3. rewrite R_nz_clear_cv by lia. rewrite R_setR_other by (unfold R_SP; lia).
      rewrite R_setR_other by lia. unfold m1. rewrite R_nz_clear_cv by lia. now apply R_pushed_other.
    + intros a Ha Hd. rewrite ramb_nz_clear_cv. rewrite !ramb_setR. unfold m1.
      rewrite ramb_nz_clear_cv. apply ramb_pushed_other; lia.
Qed.

(* ---- subroutine entry / return ---- *)
Lemma bsb_push ir m :
  bus_wf (mbus m) -> in_ram_w (R m R_SP) ->
  stack_push (w32 (R m R_PC + ilen ir)) m = Ok tt (pushed m (w32 (R m R_PC + ilen ir))).
Proof. intros. now apply stack_push_ram. Qed.

Lemma rsb_effect ir m :
  iopcode ir = 120 -> bus_wf (mbus m) -> in_ram_w (sub32 (R m R_SP) 4) ->
  exec ir m = Ok 0 (setR (setR m R_SP (sub32 (R m R_SP) 4)) R_PC (ldw m (sub32 (R m R_SP) 4))).
Proof.
  intros Ho W Hs. rewrite exec_rsb by exact Ho. unfold cond_return.
  rewrite stack_pop_ram by assumption. reflexivity.
Qed.

(* BSBB / BSBH / JSB followed (after any code that leaves SP and the stacked word alone) by RSB *)
Lemma entry_then_rsb ir2 m ret :
  iopcode ir2 = 120 -> bus_wf (mbus m) -> in_ram_w (R m R_SP) -> R m R_SP + 4 < 4294967296 ->
  let m1 := pushed m ret in
  exists m2, exec ir2 m1 = Ok 0 m2 /\ R m2 R_PC = w32 ret /\ R m2 R_SP = R m R_SP
    /\ (forall i, 0 <= i <= 14 -> i <> 12 -> R m2 i = R m i)
    /\ (forall a, RAMB <= a -> (a < R m R_SP \/ R m R_SP + 4 <= a) -> ramb m2 a = ramb m a).
Proof.
  intros Ho W Hs Hlt m1. pose proof Hs as [Hs1 [Hs2 Hs3]].
  assert (Sp1 : sub32 (R m1 R_SP) 4 = R m R_SP).
  { unfold m1. rewrite R_pushed_sp. unfold sub32, add32, w32.
    rewrite (Z.mod_small (R m R_SP + 4)) by (unfold RAMB in *; lia).
    replace (R m R_SP + 4 - 4) with (R m R_SP) by lia. rewrite Z.mod_small; unfold RAMB in *; lia. }
  eexists. split.
  - apply rsb_effect; [exact Ho | now apply wf_pushed | rewrite Sp1; exact Hs].
  - rewrite Sp1. splits.
    + rewrite R_setR_same. unfold m1. apply ldw_pushed_top. lia.
    + rewrite R_setR_other by (unfold R_PC, R_SP; lia). apply R_setR_same.
    + intros i Hi N. rewrite !R_setR_other by (unfold R_PC, R_SP; lia). unfold m1. apply R_pushed_other; lia.
    + intros a Ha Hd. rewrite !ramb_setR. unfold m1. apply ramb_pushed_other; lia.
Qed.

(* ---- CALL / RET ---- *)
Definition called (m : mach) (a b ret : Z) : mach :=
  setR (setR (setR (stw (stw m (add32 (R m R_SP) 4) (R m R_AP)) (R m R_SP) ret) R_SP (add32 (R m R_SP) 8)) R_PC b) R_AP a.

Lemma call_effect ir m a b :
  iopcode ir = 44 -> bus_wf (mbus m) -> in_ram_w (R m R_SP) -> in_ram_w (R m R_SP + 4) ->
  effective_address ir 0 m = Ok a m -> effective_address ir 1 m = Ok b m ->
  exec ir m = Ok 0 (called m a b (w32 (R m R_PC + ilen ir))).
Proof.
  intros Ho W Hs Hs4 Ha Hb. rewrite exec_call by exact Ho. rewrite Ha. cbn [bind]. rewrite Hb. cbn [bind].
  assert (E : add32 (R m R_SP) 4 = R m R_SP + 4).
  { unfold add32, w32. destruct Hs4 as [? [? ?]]. rewrite Z.mod_small; unfold RAMB, RAME in *; lia. }
  cbv zeta. rewrite E. rewrite wr_word_ram by assumption. cbn [bind].
  rewrite R_stw. rewrite wr_word_ram; [| now apply wf_stw | exact Hs]. cbn [bind].
  unfold called. rewrite E, !R_stw. reflexivity.
Qed.

(* CALL ... RET (the body leaves SP, AP and the two linkage words as CALL left them): control returns to the
   byte after the CALL, AP is restored, and SP is the address of CALL's first operand *)
Lemma call_then_ret ir2 m a b ret :
  iopcode ir2 = 8 -> bus_wf (mbus m) -> in_ram_w (R m R_SP) -> in_ram_w (R m R_SP + 4) ->
  0 <= R m R_AP < 4294967296 ->
  let m1 := called m a b ret in
  exists m2, exec ir2 m1 = Ok 0 m2 /\ R m2 R_PC = w32 ret /\ R m2 R_AP = R m R_AP /\ R m2 R_SP = a
    /\ (forall i, 0 <= i <= 9 -> R m2 i = R m i)
    /\ (forall x, RAMB <= x -> (x < R m R_SP \/ R m R_SP + 8 <= x) -> ramb m2 x = ramb m x).
Proof.
  intros Ho W Hs Hs4 Hap m1. pose proof Hs as [Hs1 [Hs2 Hs3]]. pose proof Hs4 as [Hq1 [Hq2 Hq3]].
  assert (E4 : add32 (R m R_SP) 4 = R m R_SP + 4) by (unfold add32, w32; rewrite Z.mod_small; unfold RAMB, RAME in *; lia).
  assert (E8 : add32 (R m R_SP) 8 = R m R_SP + 8) by (unfold add32, w32; rewrite Z.mod_small; unfold RAMB, RAME in *; lia).
  assert (Sp1 : R m1 R_SP = R m R_SP + 8).
  { unfold m1, called. rewrite !R_setR_other by (unfold R_AP, R_PC, R_SP; lia). rewrite R_setR_same. exact E8. }
  assert (Ap1 : R m1 R_AP = a) by (unfold m1, called; apply R_setR_same).
  assert (W1 : bus_wf (mbus m1)).
  { unfold m1, called. cbn [mbus setR with_regs]. apply wf_stw. now apply wf_stw. }
  assert (S4 : sub32 (R m1 R_SP) 4 = R m R_SP + 4).
  { rewrite Sp1. unfold sub32, w32. rewrite Z.mod_small; unfold RAMB, RAME in *; lia. }
  assert (S8 : sub32 (R m1 R_SP) 8 = R m R_SP).
  { rewrite Sp1. unfold sub32, w32. rewrite Z.mod_small; unfold RAMB, RAME in *; lia. }
  assert (L4 : ldw m1 (R m R_SP + 4) = R m R_AP).
  { unfold m1, called. rewrite !ldw_setR. rewrite E4.
    rewrite ldw_stw_other by (unfold RAMB in *; lia). rewrite ldw_stw_same by lia. now apply w32_id. }
  assert (L0 : ldw m1 (R m R_SP) = w32 ret).
  { unfold m1, called. rewrite !ldw_setR. apply ldw_stw_same. lia. }
  eexists. split.
  - rewrite exec_ret by exact Ho. rewrite S4. rewrite rd_word_ram by assumption. cbn [bind].
    rewrite S8. rewrite rd_word_ram by assumption. cbn [bind]. reflexivity.
  - rewrite L4, L0, Ap1. splits.
    + rewrite R_setR_other by (unfold R_PC, R_SP; lia). apply R_setR_same.
    + rewrite !R_setR_other by (unfold R_AP, R_PC, R_SP; lia). apply R_setR_same.
    + apply R_setR_same.
    + intros i Hi. rewrite !R_setR_other by (unfold R_AP, R_PC, R_SP; lia).
      unfold m1, called. rewrite !R_setR_other by (unfold R_AP, R_PC, R_SP; lia). reflexivity.
    + intros x Hx Hd. rewrite !ramb_setR. unfold m1, called. rewrite !ramb_setR.
      rewrite ramb_stw_other by (unfold RAMB in *; lia). rewrite E4.
      apply ramb_stw_other; unfold RAMB in *; lia.
Qed.

(* ---- SAVE / RESTORE ---- *)
Ltac Zify.zify_post_hook ::= Z.div_mod_to_equations.

Lemma ldw_stw m a v a' : RAMB <= a -> RAMB <= a' -> a mod 4 = 0 -> a' mod 4 = 0 ->
  ldw (stw m a v) a' = if a' =? a then w32 v else ldw m a'.
Proof.
  intros Ha Ha' Ma Ma'. destruct (a' =? a) eqn:E.
  - replace a' with a by lia. now apply ldw_stw_same.
  - apply ldw_stw_other; lia.
Qed.

Ltac wf_tac := repeat apply wf_stw; assumption.
Ltac wr_step :=
  rewrite ?R_stw; rewrite wr_word_ram by (first [wf_tac | ramw]); cbn [bind].
Ltac rd_step :=
  rewrite rd_word_ram by (first [wf_tac | cbn [mbus setR with_regs]; wf_tac | ramw]); cbn [bind].

Ltac red_consts := cbn [Z.ltb Z.compare Z.add Z.sub Z.opp Z.pos_sub Z.succ_double Z.pred_double Z.double Pos.pred_double
                           Pos.add Pos.succ Pos.add_carry Pos.compare Pos.compare_cont bind].

(* SAVE %r: the explicit final state *)
Definition saved_mem (m : mach) (r : Z) : mach :=
  let s := R m R_SP in
  let m0 := stw m s (R m R_FP) in
  let st k mm := if r <=? k then stw mm (s + (4 + 4 * (k - r))) (R m k) else mm in
  st 8 (st 7 (st 6 (st 5 (st 4 (st 3 m0))))).

Lemma save_effect ir m r :
  iopcode ir = 16 -> oreg (op0 ir) = Some r -> 3 <= r <= 9 ->
  bus_wf (mbus m) -> in_ram_w (R m R_SP) -> R m R_SP + 28 <= RAME ->
  exec ir m = Ok (ilen ir) (setR (setR (saved_mem m r) R_SP (R m R_SP + 28)) R_FP (R m R_SP + 28)).
Proof.
  intros Ho Hr1 Hr W Hs Hend. pose proof Hs as [Hs1 [Hs2 Hs3]].
  assert (E28 : add32 (R m R_SP) 28 = R m R_SP + 28)
    by (unfold add32, w32; rewrite Z.mod_small; unfold RAMB, RAME in *; lia).
  assert (Er : r = 3 \/ r = 4 \/ r = 5 \/ r = 6 \/ r = 7 \/ r = 8 \/ r = 9) by lia.
  rewrite exec_save by exact Ho. rewrite Hr1. wr_step.
  repeat (destruct Er as [Er|Er]); subst r; cbn [save_loop]; unfold R_FP; red_consts;
    repeat wr_step; cbv zeta; rewrite ?R_stw, ?E28; rewrite R_setR_same;
    unfold saved_mem, R_FP; cbv zeta; cbn [Z.leb Z.compare Pos.compare Pos.compare_cont]; red_consts;
    cbn [Z.mul Pos.mul]; red_consts; reflexivity.
Qed.

(* RESTORE %r from any state whose frame pointer addresses a save area in RAM *)
Lemma restore_effect ir m r :
  iopcode ir = 24 -> oreg (op0 ir) = Some r -> 3 <= r <= 9 -> bus_wf (mbus m) ->
  RAMB + 28 <= R m R_FP -> R m R_FP <= RAME -> R m R_FP mod 4 = 0 ->
  exists m2, exec ir m = Ok (ilen ir) m2 /\ mbus m2 = mbus m
    /\ R m2 R_SP = R m R_FP - 28 /\ R m2 R_FP = ldw m (R m R_FP - 28)
    /\ (forall k, r <= k <= 8 -> R m2 k = ldw m (R m R_FP - 24 + 4 * (k - r)))
    /\ (forall i, 0 <= i <= 15 -> i <> 9 -> i <> 12 -> (i < r \/ 8 < i) -> R m2 i = R m i).
Proof.
  intros Ho Hr1 Hr W H1 H2 H3. rewrite exec_restore by exact Ho. unfold R_FP in *.
  assert (S28 : sub32 (R m 9) 28 = R m 9 - 28)
    by (unfold sub32, w32; rewrite Z.mod_small; unfold RAMB, RAME in *; lia).
  assert (S24 : sub32 (R m 9) 24 = R m 9 - 24)
    by (unfold sub32, w32; rewrite Z.mod_small; unfold RAMB, RAME in *; lia).
  assert (A : forall k, 0 <= k <= 24 -> add32 (R m 9 - 24 + k) 4 = R m 9 - 24 + (k + 4)).
  { intros k Hk. unfold add32, w32. rewrite Z.mod_small; unfold RAMB, RAME in *; lia. }
  assert (Er : r = 3 \/ r = 4 \/ r = 5 \/ r = 6 \/ r = 7 \/ r = 8 \/ r = 9) by lia.
  rewrite Hr1, S28. rd_step. rewrite S24.
  replace (R m 9 - 24) with (R m 9 - 24 + 0) by lia.
  repeat (destruct Er as [Er|Er]); subst r; cbn [restore_loop]; unfold R_FP; red_consts;
    repeat (rd_step; rewrite ?ldw_setR; rewrite ?A by lia; red_consts);
    (eexists; split; [reflexivity|]); cbn [mbus setR with_regs];
    (split; [reflexivity|]); (split; [apply R_setR_same|]);
    (split; [rewrite R_setR_other by (unfold R_SP; lia); apply R_setR_same|]); split.
  all: try (intros k Hk;
            assert (Ek : k = 3 \/ k = 4 \/ k = 5 \/ k = 6 \/ k = 7 \/ k = 8) by lia;
            repeat (destruct Ek as [Ek|Ek]); subst k; try lia; unfold R_SP;
            repeat first [rewrite R_setR_same | rewrite R_setR_other by lia]; f_equal; lia).
  all: intros i Hi N9 N12 Hd;
       assert (Ei : i = 0 \/ i = 1 \/ i = 2 \/ i = 3 \/ i = 4 \/ i = 5 \/ i = 6 \/ i = 7 \/ i = 8 \/ i = 9 \/ i = 10
                  \/ i = 11 \/ i = 12 \/ i = 13 \/ i = 14 \/ i = 15) by lia;
       repeat (destruct Ei as [Ei|Ei]); subst i; try lia; unfold R_SP;
       repeat first [rewrite R_setR_same | rewrite R_setR_other by lia]; reflexivity.
Qed.

Lemma wf_saved_mem m r : bus_wf (mbus m) -> bus_wf (mbus (saved_mem m r)).
Proof.
  intros W. unfold saved_mem. cbv zeta.
  repeat match goal with |- context [if ?c then _ else _] => destruct c end; repeat apply wf_stw; exact W.
Qed.
Lemma R_saved_mem m r i : R (saved_mem m r) i = R m i.
Proof.
  unfold saved_mem. cbv zeta.
  repeat match goal with |- context [if ?c then _ else _] => destruct c end; rewrite ?R_stw; reflexivity.
Qed.

Lemma saved_mem_contents m r :
  3 <= r <= 9 -> in_ram_w (R m R_SP) -> R m R_SP + 28 <= RAME ->
  ldw (saved_mem m r) (R m R_SP) = w32 (R m R_FP)
  /\ (forall k, r <= k <= 8 -> ldw (saved_mem m r) (R m R_SP + 4 + 4 * (k - r)) = w32 (R m k))
  /\ (forall a, RAMB <= a -> (a < R m R_SP \/ R m R_SP + 28 <= a) -> ramb (saved_mem m r) a = ramb m a).
Proof.
  intros Hr [Hs1 [Hs2 Hs3]] Hend.
  assert (Er : r = 3 \/ r = 4 \/ r = 5 \/ r = 6 \/ r = 7 \/ r = 8 \/ r = 9) by lia.
  repeat (destruct Er as [Er|Er]); subst r; unfold saved_mem; cbv zeta;
    cbn [Z.leb Z.compare Pos.compare Pos.compare_cont]; red_consts; cbn [Z.mul Pos.mul]; red_consts;
    (split; [repeat (rewrite ldw_stw by ramw);
             repeat match goal with |- context [?a =? ?b] =>
               first [replace (a =? b) with true by lia | replace (a =? b) with false by lia] end; reflexivity|]);
    split.
  all: try (intros a Ha Hd; repeat (rewrite ramb_stw_other by ramw); reflexivity).
  all: intros k Hk; assert (Ek : k = 3 \/ k = 4 \/ k = 5 \/ k = 6 \/ k = 7 \/ k = 8) by lia;
       repeat (destruct Ek as [Ek|Ek]); subst k; try lia; red_consts; cbn [Z.mul Pos.mul]; red_consts;
       repeat (rewrite ldw_stw by ramw);
       repeat match goal with |- context [?a =? ?b] =>
         first [replace (a =? b) with true by lia | replace (a =? b) with false by lia] end; reflexivity.
Qed.

(* SAVE %r ... RESTORE %r (the body leaves FP and the save area alone): r..r8, FP, AP and SP are back, and
   nothing outside the 7-word save area was written *)
Lemma save_then_restore ir1 ir2 m r :
  iopcode ir1 = 16 -> iopcode ir2 = 24 -> oreg (op0 ir1) = Some r -> oreg (op0 ir2) = Some r -> 3 <= r <= 9 ->
  bus_wf (mbus m) -> in_ram_w (R m R_SP) -> R m R_SP + 28 <= RAME ->
  (forall i, 0 <= i <= 15 -> 0 <= R m i < 4294967296) ->
  exists m1 m2,
    exec ir1 m = Ok (ilen ir1) m1 /\ R m1 R_SP = R m R_SP + 28 /\ R m1 R_FP = R m R_SP + 28
    /\ (forall i, 0 <= i <= 15 -> i <> 9 -> i <> 12 -> R m1 i = R m i)
    /\ exec ir2 m1 = Ok (ilen ir2) m2
    /\ (forall i, 0 <= i <= 15 -> R m2 i = R m i)
    /\ (forall a, RAMB <= a -> (a < R m R_SP \/ R m R_SP + 28 <= a) -> ramb m2 a = ramb m a).
Proof.
  intros Ho1 Ho2 Hr1 Hr2 Hr W Hs Hend Hrng. pose proof Hs as [Hs1 [Hs2 Hs3]].
  set (m1 := setR (setR (saved_mem m r) R_SP (R m R_SP + 28)) R_FP (R m R_SP + 28)).
  assert (Fp1 : R m1 R_FP = R m R_SP + 28) by (unfold m1; apply R_setR_same).
  assert (W1 : bus_wf (mbus m1)) by (unfold m1; cbn [mbus setR with_regs]; now apply wf_saved_mem).
  destruct (saved_mem_contents m r Hr Hs Hend) as [C0 [Ck Cf]].
  destruct (restore_effect ir2 m1 r Ho2 Hr2 Hr W1) as [m2 [E2 [B2 [Sp2 [Fp2 [Rk Ro]]]]]];
    [rewrite Fp1; unfold RAMB in *; lia | rewrite Fp1; lia | rewrite Fp1; lia |].
  exists m1, m2.
  split; [now apply save_effect|].
  split; [unfold m1; rewrite R_setR_other by (unfold R_FP, R_SP; lia); apply R_setR_same|].
  split; [exact Fp1|].
  split; [intros i Hi N9 N12; unfold m1; rewrite !R_setR_other by (unfold R_FP, R_SP; lia); apply R_saved_mem|].
  split; [exact E2|]. split.
  - intros i Hi.
    destruct (Z.eq_dec i 12) as [->|N12].
    { change 12 with R_SP. rewrite Sp2, Fp1. lia. }
    destruct (Z.eq_dec i 9) as [->|N9].
    { change 9 with R_FP. rewrite Fp2, Fp1. replace (R m R_SP + 28 - 28) with (R m R_SP) by lia.
      unfold m1. rewrite !ldw_setR, C0. apply w32_id. apply Hrng. unfold R_FP; lia. }
    destruct (Z_le_dec r i) as [Hri|Hri]; [destruct (Z_le_dec i 8) as [Hi8|Hi8]|].
    + rewrite Rk by lia. rewrite Fp1. unfold m1. rewrite !ldw_setR.
      replace (R m R_SP + 28 - 24 + 4 * (i - r)) with (R m R_SP + 4 + 4 * (i - r)) by lia.
      rewrite Ck by lia. apply w32_id. apply Hrng. lia.
    + rewrite Ro by lia. unfold m1. rewrite !R_setR_other by (unfold R_FP, R_SP; lia). apply R_saved_mem.
    + rewrite Ro by lia. unfold m1. rewrite !R_setR_other by (unfold R_FP, R_SP; lia). apply R_saved_mem.
  - intros a Ha Hd. unfold ramb. rewrite B2. fold (ramb m1 a). unfold m1. rewrite !ramb_setR. now apply Cf.
Qed.
