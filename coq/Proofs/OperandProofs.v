(* Operand addressing, extension and stores (C03). *)
From Coq Require Import ZArith Lia Bool List ZifyBool.
From Dmd Require Import Model.Bits Model.Types Model.Mem Model.Bus Model.Decode Model.Cpu.
From Dmd Require Import Proofs.BitsLemmas Proofs.MemProofs Proofs.BusProofs Proofs.VideoProofs Proofs.RegKit
     Proofs.MachKit Proofs.DecodeProofs.
Open Scope Z_scope.

Ltac Zify.zify_post_hook ::= Z.div_mod_to_equations.

(* adding a sign-extended displacement = adding the signed value, modulo 2^32 *)
Lemma add_offset_sext8 v e : add_offset v (sext8 e) = (v + s8 e) mod 2 ^ 32.
Proof.
  unfold add_offset, w32. rewrite sext8_spec. unfold w32.
  change 4294967296 with (2 ^ 32). rewrite Zplus_mod_idemp_r. reflexivity.
Qed.
Lemma add_offset_sext16 v e : add_offset v (sext16 e) = (v + s16 e) mod 2 ^ 32.
Proof.
  unfold add_offset, w32. rewrite sext16_spec. unfold w32.
  change 4294967296 with (2 ^ 32). rewrite Zplus_mod_idemp_r. reflexivity.
Qed.
Lemma add_offset_word v e : 0 <= e < 4294967296 -> add_offset v e = (v + s32 e) mod 2 ^ 32.
Proof. intros H. rewrite add_offset_signed by exact H. reflexivity. Qed.

(* the architected effective address of each memory mode, as a function of the base register value and the
   embedded constant; None for the modes that first fetch a pointer *)
Definition arch_ea_direct (mode : addrmode) (base emb : Z) : option Z :=
  match mode with
  | MRegDeferred => Some base
  | MAbsolute => Some emb
  | MFpShort | MApShort | MByteDisp => Some ((base + s8 emb) mod 2 ^ 32)
  | MHalfDisp => Some ((base + s16 emb) mod 2 ^ 32)
  | MWordDisp => Some ((base + s32 emb) mod 2 ^ 32)
  | _ => None
  end.
Definition arch_ea_pointer (mode : addrmode) (base emb : Z) : option Z :=
  match mode with
  | MAbsoluteDeferred => Some emb
  | MByteDispDef => Some ((base + s8 emb) mod 2 ^ 32)
  | MHalfDispDef => Some ((base + s16 emb) mod 2 ^ 32)
  | MWordDispDef => Some ((base + s32 emb) mod 2 ^ 32)
  | _ => None
  end.

(* the register a mode is based on *)
Definition base_value (m : mach) (o : operand) : Z :=
  match omode o with
  | MFpShort => R m R_FP
  | MApShort => R m R_AP
  | _ => match oreg o with Some r => R m r | None => 0 end
  end.

Lemma ea_direct ir k m a :
  let o := get_op ir k in
  0 <= oemb o < 4294967296 ->
  (match omode o with MFpShort | MApShort | MAbsolute => True | _ => oreg o <> None end) ->
  arch_ea_direct (omode o) (base_value m o) (oemb o) = Some a ->
  effective_address ir k m = Ok a m.
Proof.
  intros o He Hr H. unfold effective_address. fold o. cbv zeta. unfold base_value in H.
  destruct (omode o) eqn:Em; cbn [arch_ea_direct] in H; try discriminate.
  - inversion H. reflexivity.
  - destruct (oreg o) as [r|]; [|exfalso; now apply Hr]. inversion H. unfold ret. now rewrite add_offset_sext8.
  - destruct (oreg o) as [r|]; [|exfalso; now apply Hr]. inversion H. unfold ret. now rewrite add_offset_sext16.
  - destruct (oreg o) as [r|]; [|exfalso; now apply Hr]. inversion H. unfold ret. now rewrite add_offset_word.
  - inversion H. now rewrite add_offset_sext8.
  - inversion H. now rewrite add_offset_sext8.
  - destruct (oreg o) as [r|]; [|exfalso; now apply Hr]. inversion H. reflexivity.
Qed.

Lemma ea_deferred ir k m p :
  let o := get_op ir k in
  0 <= oemb o < 4294967296 ->
  (match omode o with MAbsoluteDeferred => True | _ => oreg o <> None end) ->
  arch_ea_pointer (omode o) (base_value m o) (oemb o) = Some p ->
  effective_address ir k m = rd_word p m.
Proof.
  intros o He Hr H. unfold effective_address. fold o. cbv zeta. unfold base_value in H.
  destruct (omode o) eqn:Em; cbn [arch_ea_pointer] in H; try discriminate.
  - inversion H. reflexivity.
  - destruct (oreg o) as [r|]; [|exfalso; now apply Hr]. inversion H. now rewrite add_offset_sext8.
  - destruct (oreg o) as [r|]; [|exfalso; now apply Hr]. inversion H. now rewrite add_offset_sext16.
  - destruct (oreg o) as [r|]; [|exfalso; now apply Hr]. inversion H. now rewrite add_offset_word.
Qed.

(* extension by operand type: what a value of each type becomes in the 32-bit datapath *)
Definition arch_extend (t : dtype) (raw : Z) : option Z :=
  match t with
  | DWord | DUWord => Some raw
  | DHalf => Some ((s16 raw) mod 2 ^ 32)      (* signed halfword *)
  | DUHalf => Some (raw mod 2 ^ 16)
  | DByte => Some (raw mod 2 ^ 8)             (* bytes are unsigned *)
  | DSByte => Some ((s8 raw) mod 2 ^ 32)
  | DNone => None
  end.

Lemma read_register_extension ir k m r :
  let o := get_op ir k in
  omode o = MRegister -> oreg o = Some r ->
  read_op ir k m = match arch_extend (data_type o) (R m r) with
                   | Some v => Ok v m
                   | None => Err (EExc IllegalOpcode) m end.
Proof.
  intros o Hm Hr. unfold read_op. fold o. cbv zeta. rewrite Hm, Hr.
  destruct (data_type o); cbn [arch_extend]; try reflexivity.
  - now rewrite sext16_spec.
  - now rewrite sext8_spec.
Qed.

Lemma read_literal_extension ir k m :
  let o := get_op ir k in
  (omode o = MPosLit \/ omode o = MNegLit \/ omode o = MByteImm -> read_op ir k m = Ok ((s8 (oemb o)) mod 2 ^ 32) m)
  /\ (omode o = MHalfImm -> read_op ir k m = Ok ((s16 (oemb o)) mod 2 ^ 32) m)
  /\ (omode o = MWordImm -> read_op ir k m = Ok (oemb o) m).
Proof.
  intros o. unfold read_op. fold o. cbv zeta. split; [|split].
  - intros [H|[H|H]]; rewrite H; now rewrite sext8_spec.
  - intros H; rewrite H; now rewrite sext16_spec.
  - intros H; now rewrite H.
Qed.

(* memory sources: the access width and the extension follow the operand's (possibly expanded) type *)
Lemma read_memory_extension ir k m eff m1 :
  let o := get_op ir k in
  (match omode o with MRegister | MPosLit | MNegLit | MWordImm | MHalfImm | MByteImm => False | _ => True end) ->
  effective_address ir k m = Ok eff m1 ->
  read_op ir k m =
  match data_type o with
  | DWord | DUWord => rd_word eff m1
  | DHalf => bind (rd_half eff m1) (fun v m => Ok ((s16 v) mod 2 ^ 32) m)
  | DUHalf => rd_half eff m1
  | DByte => rd_byte eff m1
  | DSByte => bind (rd_byte eff m1) (fun v m => Ok ((s8 v) mod 2 ^ 32) m)
  | DNone => Err (EExc IllegalOpcode) m1
  end.
Proof.
  intros o Hm He. unfold read_op. fold o. cbv zeta.
  destruct (omode o); try contradiction; rewrite He; cbn [bind]; destruct (data_type o); try reflexivity;
    try (destruct (rd_half eff m1); cbn [bind]; try reflexivity; now rewrite sext16_spec);
    try (destruct (rd_byte eff m1); cbn [bind]; try reflexivity; now rewrite sext8_spec).
Qed.

(* literal and immediate destinations are rejected, nothing changes *)
Lemma write_literal_illegal ir k v m :
  let o := get_op ir k in
  omode o = MPosLit \/ omode o = MNegLit \/ omode o = MByteImm \/ omode o = MHalfImm \/ omode o = MWordImm ->
  write_op ir k v m = Err (EExc IllegalOpcode) m.
Proof.
  intros o H. unfold write_op. fold o. cbv zeta.
  destruct H as [H|[H|[H|[H|H]]]]; rewrite H; reflexivity.
Qed.

(* a register destination receives the value; nothing else changes *)
Lemma write_register ir k v m r :
  let o := get_op ir k in
  omode o = MRegister -> oreg o = Some r -> write_op ir k v m = Ok tt (setR m r v).
Proof. intros o Hm Hr. unfold write_op. fold o. cbv zeta. now rewrite Hm, Hr. Qed.

(* a memory destination is written with exactly the access of the destination's size *)
Lemma write_memory_size ir k v m eff m1 :
  let o := get_op ir k in
  (match omode o with MRegister | MPosLit | MNegLit | MWordImm | MHalfImm | MByteImm => False | _ => True end) ->
  effective_address ir k m = Ok eff m1 ->
  write_op ir k v m =
  match data_type o with
  | DWord | DUWord => wr_word eff v m1
  | DHalf | DUHalf => wr_half eff (v mod 2 ^ 16) m1
  | DByte | DSByte => wr_byte eff (v mod 2 ^ 8) m1
  | DNone => Err (EExc IllegalOpcode) m1
  end.
Proof.
  intros o Hm He. unfold write_op. fold o. cbv zeta.
  destruct (omode o); try contradiction; rewrite He; cbn [bind]; destruct (data_type o); reflexivity.
Qed.

(* ... and such a store changes exactly size bytes of RAM: *)
Lemma store_word_exact m a v a' : bus_wf (mbus m) -> in_ram_w a -> RAMB <= a' ->
  exists m', wr_word a v m = Ok tt m' /\ mregs m' = mregs m
    /\ ramb m' a' = if (a <=? a') && (a' <? a + 4) then w8 (w32 v / 2 ^ (8 * (a + 3 - a'))) else ramb m a'.
Proof.
  intros W H Ha'. pose proof H as [h1 [h2 h3]]. exists (stw m a v). split; [now apply wr_word_ram|]. split; [reflexivity|].
  rewrite ramb_stw by lia.
  destruct (a' =? a) eqn:E0; [replace a' with a by lia; replace ((a <=? a) && (a <? a + 4)) with true by lia;
                              replace (a + 3 - a) with 3 by lia; reflexivity|].
  destruct (a' =? a + 1) eqn:E1; [replace a' with (a + 1) by lia; replace ((a <=? a + 1) && (a + 1 <? a + 4)) with true by lia;
                              replace (a + 3 - (a + 1)) with 2 by lia; reflexivity|].
  destruct (a' =? a + 2) eqn:E2; [replace a' with (a + 2) by lia; replace ((a <=? a + 2) && (a + 2 <? a + 4)) with true by lia;
                              replace (a + 3 - (a + 2)) with 1 by lia; reflexivity|].
  destruct (a' =? a + 3) eqn:E3; [replace a' with (a + 3) by lia; replace ((a <=? a + 3) && (a + 3 <? a + 4)) with true by lia;
                              replace (a + 3 - (a + 3)) with 0 by lia; cbn; now rewrite Z.div_1_r|].
  replace ((a <=? a') && (a' <? a + 4)) with false by lia. reflexivity.
Qed.

Lemma store_half_exact m a v a' : bus_wf (mbus m) -> in_ram_h a -> RAMB <= a' ->
  exists m', wr_half a v m = Ok tt m' /\ mregs m' = mregs m
    /\ ramb m' a' = if a' =? a then w8 (w16 v / 256) else if a' =? a + 1 then w8 (w16 v) else ramb m a'.
Proof.
  intros W H Ha'. pose proof H as [h1 [h2 h3]]. exists (sth m a v). split; [now apply wr_half_ram|]. split; [reflexivity|].
  apply ramb_sth; lia.
Qed.

Lemma store_byte_exact m a v a' : bus_wf (mbus m) -> in_ram_b a -> RAMB <= a' ->
  exists m', wr_byte a v m = Ok tt m' /\ mregs m' = mregs m
    /\ ramb m' a' = if a' =? a then w8 v else ramb m a'.
Proof.
  intros W H Ha'. pose proof H as [h1 h2]. exists (stb m a v). split; [now apply wr_byte_ram|]. split; [reflexivity|].
  apply ramb_stb; lia.
Qed.

(* ---- expanded types in the decoder ---- *)
(* a descriptor without its own prefix carries the type handed down from the previous operand; one with a
   prefix carries the prefix's type, and whichever it carries is handed on *)
Section Etype.
Variable St : Type.
Variable f1 f2 f4 : Z -> St -> res St Z.

Lemma descriptor_inner_etype fuel dt et len s o l s' :
  decode_descriptor St f1 f2 f4 fuel dt et true len s = Ok (o, l) s' -> oetype o = et /\ otype o = dt.
Proof.
  destruct fuel as [|fuel]; [discriminate|]. cbn [decode_descriptor]. cbv zeta.
  destruct (acc_byte St f1 len s) as [[d l1] s1| | |]; cbn [bind fst snd]; try discriminate.
  unfold illegal. cbn [andb negb].
  destruct (d mod 16 =? 15); cbn [negb];
  repeat match goal with
         | |- (if ?c then _ else _) = _ -> _ => destruct c
         end; try discriminate;
  try (intros H; inversion H; subst; cbn; auto; fail);
  try (destruct (acc_word St f4 l1 s1) as [[w l2] s2| | |]; cbn [bind fst snd]; try discriminate;
       intros H; inversion H; subst; cbn; auto; fail);
  try (destruct (acc_half St f2 l1 s1) as [[w l2] s2| | |]; cbn [bind fst snd]; try discriminate;
       intros H; inversion H; subst; cbn; auto; fail);
  try (destruct (acc_byte St f1 l1 s1) as [[w l2] s2| | |]; cbn [bind fst snd]; try discriminate;
       intros H; inversion H; subst; cbn; auto; fail).
Qed.

Lemma descriptor_etype fuel dt et len s o l s' :
  decode_descriptor St f1 f2 f4 fuel dt et false len s = Ok (o, l) s' ->
  otype o = dt /\
  (oetype o = et \/ exists d, f1 len s = Ok d (match f1 len s with Ok _ s1 => s1 | _ => s end)
                               /\ d / 16 = 14 /\ d mod 16 <> 15 /\ oetype o = etype_of (d mod 16)).
Proof.
  destruct fuel as [|fuel]; [discriminate|]. cbn [decode_descriptor]. cbv zeta.
  unfold acc_byte at 1. destruct (f1 len s) as [d s1| | |] eqn:F; cbn [bind]; try discriminate.
  destruct (len >=? 32); [discriminate|]. cbn [bind fst snd]. unfold illegal. cbn [andb negb].
  destruct (d / 16 =? 14) eqn:E14.
  - assert (M : d / 16 = 14) by lia. rewrite M. cbn [Z.leb Z.eqb Z.compare Pos.compare Pos.compare_cont Pos.eqb].
    destruct (d mod 16 =? 15) eqn:E15.
    + destruct (acc_word St f4 (len + 1) s1) as [[w l2] s2| | |]; cbn [bind fst snd]; try discriminate.
      intros H; inversion H; subst; cbn; auto.
    + destruct (etype_of (d mod 16)) as [t|] eqn:Et; [|discriminate].
      intros H. apply descriptor_inner_etype in H. destruct H as [H1 H2]. split; [exact H2|].
      right. exists d. repeat split; auto; try lia. now rewrite H1.
  - repeat match goal with
           | |- (if ?c then _ else _) = _ -> _ => destruct c eqn:?
           end; try discriminate; try lia;
    try (intros H; inversion H; subst; cbn; auto; fail);
    try (destruct (acc_word St f4 (len + 1) s1) as [[w l2] s2| | |]; cbn [bind fst snd]; try discriminate;
         intros H; inversion H; subst; cbn; auto; fail);
    try (destruct (acc_half St f2 (len + 1) s1) as [[w l2] s2| | |]; cbn [bind fst snd]; try discriminate;
         intros H; inversion H; subst; cbn; auto; fail);
    try (destruct (acc_byte St f1 (len + 1) s1) as [[w l2] s2| | |]; cbn [bind fst snd]; try discriminate;
         intros H; inversion H; subst; cbn; auto; fail).
Qed.

(* the type an operand carries is the one handed to the decoding of the NEXT operand *)
Lemma etype_handed_on mn ot rest et len s o os l s' :
  ot <> ONone ->
  decode_ops St f1 f2 f4 mn (ot :: rest) et len s = Ok (o :: os, l) s' ->
  exists l1 s1, decode_operand St f1 f2 f4 mn ot et len s = Ok (o, l1) s1
    /\ decode_ops St f1 f2 f4 mn rest (oetype o) l1 s1 = Ok (os, l) s'.
Proof.
  intros N H. cbn [decode_ops] in H. destruct ot; try congruence;
    destruct (decode_operand St f1 f2 f4 mn _ et len s) as [[o1 l1] s1| | |]; cbn [bind fst snd] in H; try discriminate;
    destruct (decode_ops St f1 f2 f4 mn rest (oetype o1) l1 s1) as [[r l2] s2| | |] eqn:E; cbn [bind fst snd] in H; try discriminate;
    inversion H; subst; exists l1, s1; auto.
Qed.
End Etype.
