(* Memory lemmas: the sparse map behaves as a byte array (C11 foundation). *)
From Coq Require Import ZArith Lia Bool FSets.FMapPositive.
From Dmd Require Import Model.Bits Model.Mem Proofs.BitsLemmas.
Open Scope Z_scope.

Lemma mget_mset_same m off v : mget (mset m off v) off = v.
Proof. unfold mget, mset; cbn. now rewrite PositiveMap.gss. Qed.

Lemma mget_mset_other m off off' v :
  0 <= off -> 0 <= off' -> off <> off' -> mget (mset m off v) off' = mget m off'.
Proof.
  intros H1 H2 H3. unfold mget, mset; cbn. rewrite PositiveMap.gso; [reflexivity|].
  intro E. apply H3. apply (f_equal Z.pos) in E. rewrite !Z2Pos.id in E by lia. lia.
Qed.

Lemma mset_base m off v : mbase (mset m off v) = mbase m. Proof. reflexivity. Qed.
Lemma mset_size m off v : msize (mset m off v) = msize m. Proof. reflexivity. Qed.
Lemma mset_ro m off v : mro (mset m off v) = mro m. Proof. reflexivity. Qed.
Lemma mset_end m off v : mend (mset m off v) = mend m. Proof. reflexivity. Qed.
Lemma in_vec_mset m off v o : in_vec (mset m off v) o = in_vec m o. Proof. reflexivity. Qed.

Lemma in_vec_spec m o : in_vec m o = true <-> 0 <= o < msize m.
Proof. unfold in_vec. rewrite andb_true_iff, Z.leb_le, Z.ltb_lt. tauto. Qed.

(* the bytes of a memory as a function of the absolute address *)
Definition byte_at (m : mem) (a : Z) : Z := mget m (a - mbase m).

(* ---- reads decompose big-endian into byte reads ---- *)
Lemma read_half_compose m a v :
  mem_read_half m a = ROk v ->
  mem_read_byte m a = ROk (byte_at m a) /\ mem_read_byte m (a + 1) = ROk (byte_at m (a + 1))
  /\ v = byte_at m a * 256 + byte_at m (a + 1).
Proof.
  unfold mem_read_half, mem_read_byte, byte_at.
  destruct (a + 1 >=? mend m) eqn:E1; [discriminate|].
  destruct (in_vec m (a - mbase m) && in_vec m (a - mbase m + 1)) eqn:E2; [|discriminate].
  apply andb_true_iff in E2 as [I1 I2]. intros H; inversion H; subst; clear H.
  assert (a >=? mend m = false) as -> by lia.
  rewrite I1. replace (a + 1 - mbase m) with (a - mbase m + 1) by lia. rewrite I2. auto.
Qed.

Lemma read_word_compose m a v :
  mem_read_word m a = ROk v ->
  mem_read_byte m a = ROk (byte_at m a) /\ mem_read_byte m (a + 1) = ROk (byte_at m (a + 1))
  /\ mem_read_byte m (a + 2) = ROk (byte_at m (a + 2)) /\ mem_read_byte m (a + 3) = ROk (byte_at m (a + 3))
  /\ v = byte_at m a * 16777216 + byte_at m (a + 1) * 65536 + byte_at m (a + 2) * 256 + byte_at m (a + 3).
Proof.
  unfold mem_read_word, mem_read_byte, byte_at.
  destruct (a + 3 >=? mend m) eqn:E1; [discriminate|].
  destruct (in_vec m (a - mbase m) && in_vec m (a - mbase m + 3)) eqn:E2; [|discriminate].
  apply andb_true_iff in E2 as [I1 I2]. apply in_vec_spec in I1, I2.
  intros H; inversion H; subst; clear H.
  assert (a >=? mend m = false) as -> by lia.
  assert (a + 1 >=? mend m = false) as -> by lia.
  assert (a + 2 >=? mend m = false) as -> by lia.
  assert (in_vec m (a - mbase m) = true) as -> by (apply in_vec_spec; lia).
  assert (in_vec m (a + 1 - mbase m) = true) as -> by (apply in_vec_spec; lia).
  assert (in_vec m (a + 2 - mbase m) = true) as -> by (apply in_vec_spec; lia).
  assert (in_vec m (a + 3 - mbase m) = true) as -> by (apply in_vec_spec; lia).
  replace (a + 1 - mbase m) with (a - mbase m + 1) by lia.
  replace (a + 2 - mbase m) with (a - mbase m + 2) by lia.
  replace (a + 3 - mbase m) with (a - mbase m + 3) by lia. auto 10.
Qed.

(* ---- writes: exactly the addressed bytes change ---- *)
Lemma write_byte_spec m a v m' :
  mem_write_byte m a v = ROk m' ->
  mro m = false /\ mbase m <= a < mend m /\ mbase m' = mbase m /\ msize m' = msize m /\ mro m' = mro m
  /\ byte_at m' a = w8 v
  /\ (forall x, mbase m <= x -> x <> a -> byte_at m' x = byte_at m x).
Proof.
  unfold mem_write_byte, byte_at. destruct (mro m) eqn:Ro; [discriminate|].
  destruct (a >=? mend m) eqn:E1; [discriminate|].
  destruct (in_vec m (a - mbase m)) eqn:I; [|discriminate]. apply in_vec_spec in I.
  intros H; inversion H; subst; clear H. cbn [mbase msize mro mset].
  repeat split; try lia; try reflexivity; try assumption.
  - apply mget_mset_same.
  - intros x Hx Hne. apply mget_mset_other; lia.
Qed.

Lemma write_half_spec m a v m' :
  mem_write_half m a v = ROk m' ->
  mro m = false /\ mbase m <= a /\ a + 1 < mend m /\ mbase m' = mbase m /\ msize m' = msize m /\ mro m' = mro m
  /\ byte_at m' a = w8 (v / 256) /\ byte_at m' (a + 1) = w8 v
  /\ (forall x, mbase m <= x -> x <> a -> x <> a + 1 -> byte_at m' x = byte_at m x).
Proof.
  unfold mem_write_half, byte_at. destruct (mro m) eqn:Ro; [discriminate|].
  destruct (a + 1 >=? mend m) eqn:E1; [discriminate|].
  destruct (in_vec m (a - mbase m) && in_vec m (a - mbase m + 1)) eqn:I; [|discriminate].
  apply andb_true_iff in I as [I1 I2]. apply in_vec_spec in I1, I2.
  intros H; inversion H; subst; clear H. cbn [mbase msize mro mset].
  repeat split; try lia; try reflexivity; try assumption.
  - rewrite mget_mset_other by lia. apply mget_mset_same.
  - replace (a + 1 - mbase m) with (a - mbase m + 1) by lia. apply mget_mset_same.
  - intros x Hx N1 N2. rewrite !mget_mset_other by lia. reflexivity.
Qed.

Lemma write_word_spec m a v m' :
  mem_write_word m a v = ROk m' ->
  mro m = false /\ mbase m <= a /\ a + 3 < mend m /\ mbase m' = mbase m /\ msize m' = msize m /\ mro m' = mro m
  /\ byte_at m' a = w8 (v / 16777216) /\ byte_at m' (a + 1) = w8 (v / 65536)
  /\ byte_at m' (a + 2) = w8 (v / 256) /\ byte_at m' (a + 3) = w8 v
  /\ (forall x, mbase m <= x -> (x < a \/ a + 3 < x) -> byte_at m' x = byte_at m x).
Proof.
  unfold mem_write_word, byte_at. destruct (mro m) eqn:Ro; [discriminate|].
  destruct (a + 3 >=? mend m) eqn:E1; [discriminate|].
  destruct (in_vec m (a - mbase m) && in_vec m (a - mbase m + 3)) eqn:I; [|discriminate].
  apply andb_true_iff in I as [I1 I2]. apply in_vec_spec in I1, I2.
  intros H; inversion H; subst; clear H. cbn [mbase msize mro mset].
  repeat split; try lia; try reflexivity; try assumption.
  - rewrite !mget_mset_other by lia. apply mget_mset_same.
  - replace (a + 1 - mbase m) with (a - mbase m + 1) by lia.
    rewrite !mget_mset_other by lia. apply mget_mset_same.
  - replace (a + 2 - mbase m) with (a - mbase m + 2) by lia.
    rewrite !mget_mset_other by lia. apply mget_mset_same.
  - replace (a + 3 - mbase m) with (a - mbase m + 3) by lia. apply mget_mset_same.
  - intros x Hx N. rewrite !mget_mset_other by lia. reflexivity.
Qed.

(* ---- read-only guard: no write of any width succeeds or changes anything ---- *)
Lemma ro_write_byte m a v : mro m = true -> mem_write_byte m a v = RErr BWrite.
Proof. unfold mem_write_byte; now intros ->. Qed.
Lemma ro_write_half m a v : mro m = true -> mem_write_half m a v = RErr BWrite.
Proof. unfold mem_write_half; now intros ->. Qed.
Lemma ro_write_word m a v : mro m = true -> mem_write_word m a v = RErr BWrite.
Proof. unfold mem_write_word; now intros ->. Qed.

(* a memory whose bytes are all in 0..255 *)
Definition bytes_ok (m : mem) : Prop := forall x, 0 <= byte_at m x < 256.

(* written value read back at the same width *)
Lemma write_read_half m a v m' :
  mem_write_half m a v = ROk m' -> mem_read_half m' a = ROk (w16 v).
Proof.
  intros H. pose proof (write_half_spec _ _ _ _ H) as (Ro & L & U & B & S & _ & B0 & B1 & _).
  unfold mem_read_half, mend, in_vec. rewrite B, S.
  unfold mend in U. unfold byte_at in B0, B1. rewrite B in B0, B1.
  assert (a + 1 >=? mbase m + msize m = false) as -> by lia.
  assert ((0 <=? a - mbase m) && (a - mbase m <? msize m) && ((0 <=? a - mbase m + 1) && (a - mbase m + 1 <? msize m)) = true) as ->.
  { rewrite !andb_true_iff, !Z.leb_le, !Z.ltb_lt. lia. }
  replace (a - mbase m + 1) with (a + 1 - mbase m) by lia. rewrite B0, B1.
  f_equal. unfold w8, w16. lia.
Qed.

Lemma write_read_word m a v m' :
  mem_write_word m a v = ROk m' -> mem_read_word m' a = ROk (w32 v).
Proof.
  intros H. pose proof (write_word_spec _ _ _ _ H) as (Ro & L & U & B & S & _ & B0 & B1 & B2 & B3 & _).
  unfold mem_read_word, mend, in_vec. rewrite B, S.
  unfold mend in U. unfold byte_at in B0, B1, B2, B3. rewrite B in B0, B1, B2, B3.
  assert (a + 3 >=? mbase m + msize m = false) as -> by lia.
  assert ((0 <=? a - mbase m) && (a - mbase m <? msize m) && ((0 <=? a - mbase m + 3) && (a - mbase m + 3 <? msize m)) = true) as ->.
  { rewrite !andb_true_iff, !Z.leb_le, !Z.ltb_lt. lia. }
  replace (a - mbase m + 1) with (a + 1 - mbase m) by lia.
  replace (a - mbase m + 2) with (a + 2 - mbase m) by lia.
  replace (a - mbase m + 3) with (a + 3 - mbase m) by lia.
  rewrite B0, B1, B2, B3. f_equal. unfold w8, w32. lia.
Qed.

Lemma write_read_byte m a v m' :
  mem_write_byte m a v = ROk m' -> mem_read_byte m' a = ROk (w8 v).
Proof.
  intros H. pose proof (write_byte_spec _ _ _ _ H) as (Ro & L & B & S & _ & B0 & _).
  unfold mem_read_byte, mend, in_vec. rewrite B, S. unfold mend in L. unfold byte_at in B0. rewrite B in B0.
  assert (a >=? mbase m + msize m = false) as -> by lia.
  assert ((0 <=? a - mbase m) && (a - mbase m <? msize m) = true) as ->.
  { rewrite !andb_true_iff, !Z.leb_le, !Z.ltb_lt. lia. }
  now rewrite B0.
Qed.
