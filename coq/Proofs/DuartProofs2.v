(* DUART-level pacing and mouse-button theorems (C17, C20). *)
From Coq Require Import ZArith Lia Bool List.
From Dmd Require Import Model.Bits Model.Fifo Model.Mem Model.Duart.
From Dmd Require Import Proofs.BitsLemmas Proofs.BitKit Proofs.FifoProofs Proofs.PortProofs Proofs.DuartProofs.
Open Scope Z_scope.

Local Arguments bset : simpl never.
Local Arguments clr8 : simpl never.
Local Arguments Z.lor : simpl never.
Local Arguments Z.land : simpl never.
Local Arguments Z.gtb : simpl never.

(* ---- C17: pacing ---- *)
From Dmd Require Import Spec.Scn2681.

Definition all_codes : list Z := [0; 1; 2; 3; 4; 5; 6; 7; 8; 9; 10; 11; 12].

Lemma delay_table_ok :
  forallb (fun code => char_time_ok (delay_rate (code * 16) 0) (nth (Z.to_nat code) ds_rate2_set1 0)
                       && char_time_ok (delay_rate (code * 16) 128) (nth (Z.to_nat code) ds_rate2_set2 0))
          all_codes = true.
Proof. vm_compute. reflexivity. Qed.

Lemma delay_rate_low_bits csr acr : 0 <= csr < 256 ->
  delay_rate csr acr = delay_rate ((csr / 16) * 16) (if Z.land acr 128 =? 0 then 0 else 128).
Proof.
  intros H. unfold delay_rate.
  assert (E : Z.land (Z.shiftr csr 4) 15 = Z.land (Z.shiftr (csr / 16 * 16) 4) 15).
  { rewrite !Z.shiftr_div_pow2 by lia. change (2 ^ 4) with 16. rewrite Z.div_mul by lia. reflexivity. }
  rewrite <- E. destruct (Z.land acr 128 =? 0); reflexivity.
Qed.

Lemma vblank_spacing tm d :
  (tm > next_vblank d -> next_vblank (vb_stage tm d) = tm + VERTICAL_BLANK_DELAY
                         /\ bset (ivec (vb_stage tm d)) MOUSE_BLANK_INT = true
                         /\ bset (isr (vb_stage tm d)) ISTS_IPC = true)
  /\ (tm <= next_vblank d -> vb_stage tm d = d).
Proof.
  unfold vb_stage, vertical_blank, isr_set, ivec_set. split; intros H.
  - replace (tm >? next_vblank d) with true by (symmetry; apply Z.gtb_lt; lia).
    cbn. destruct (Z.land _ 4 =? 0); cbn; repeat split; dbits.
  - replace (tm >? next_vblank d) with false; [reflexivity|]. symmetry. rewrite Z.gtb_ltb. apply Z.ltb_ge. lia.
Qed.

Lemma get_interrupt_vblank tm d :
  next_vblank (snd (get_interrupt tm d)) = next_vblank (vb_stage tm d)
  /\ (tm > next_vblank d -> bset (ivec (snd (get_interrupt tm d))) MOUSE_BLANK_INT = true).
Proof.
  split.
  - unfold get_interrupt. fold (vb_stage tm d). set (d0 := vb_stage tm d). clearbody d0.
    repeat match goal with |- context [if ?b then _ else _] => destruct b end; reflexivity.
  - intros H. destruct (get_interrupt_spec tm d) as (_ & _ & Iv & _). rewrite Iv.
    destruct (vblank_spacing tm d) as ((_ & B & _) & _); [exact H|].
    destruct (bset (stat (pa d)) STS_RXR); destruct (bset (stat (pb d)) STS_RXR);
      destruct (bset (stat (pa d)) STS_TXR); cbn [opt_bit]; dbits.
Qed.

Lemma ipcr_read_withdraws d :
  let d1 := dstep (DRead 19) d in ivec d1 = 0 /\ bset (isr d1) ISTS_IPC = false.
Proof. cbn. unfold isr_clr. cbn. split; [reflexivity | dbits]. Qed.

(* ---- C20: buttons ---- *)
Lemma button_event_raises_request d b :
  bset (ivec (mouse_down d b)) MOUSE_BLANK_INT = true /\ bset (isr (mouse_down d b)) ISTS_IPC = true
  /\ bset (ivec (mouse_up d b)) MOUSE_BLANK_INT = true /\ bset (isr (mouse_up d b)) ISTS_IPC = true.
Proof.
  unfold mouse_down, mouse_up, isr_set, ivec_set.
  repeat match goal with |- context [if ?c then _ else _] => destruct c end; cbn; repeat split; dbits.
Qed.

Definition button_bit (b : Z) : Z := if b =? 0 then 8 else if b =? 1 then 2 else 1.
Definition change_bit (b : Z) : Z := if b =? 0 then 128 else if b =? 1 then 32 else 16.

Lemma button_levels d b : b = 0 \/ b = 1 \/ b = 2 ->
  bset (inprt (mouse_down d b)) (button_bit b) = false        (* pressed: input low *)
  /\ bset (ipcr (mouse_down d b)) (change_bit b) = true
  /\ bset (inprt (mouse_up d b)) (button_bit b) = true        (* released: input high *)
  /\ bset (ipcr (mouse_up d b)) (change_bit b) = true.
Proof.
  intros [-> | [-> | ->]]; unfold mouse_down, mouse_up, isr_set, ivec_set, button_bit, change_bit; cbn;
    repeat split; bits.
Qed.

Lemma other_buttons_only_request d b : b <> 0 -> b <> 1 -> b <> 2 ->
  ipcr (mouse_down d b) = 0 /\ ipcr (mouse_up d b) = 0
  /\ inprt (mouse_down d b) = Z.lor (inprt d) 11 /\ inprt (mouse_up d b) = Z.lor (inprt d) 11
  /\ pa (mouse_down d b) = pa d /\ pb (mouse_down d b) = pb d /\ pa (mouse_up d b) = pa d /\ pb (mouse_up d b) = pb d.
Proof.
  intros N0 N1 N2. unfold mouse_down, mouse_up, isr_set, ivec_set.
  apply Z.eqb_neq in N0, N1, N2. rewrite N0, N1, N2. cbn. auto 10.
Qed.

(* the request stays asserted across every operation except the read of the input-port-change register *)
Lemma request_until_ipcr_read o d :
  bset (ivec d) MOUSE_BLANK_INT = true ->
  (forall off, o = DRead off -> w8 off <> 19) ->
  bset (ivec (dstep o d)) MOUSE_BLANK_INT = true.
Proof.
  intros H Hn. destruct o; cbn [dstep].
  - specialize (Hn off eq_refl). apply Z.eqb_neq in Hn. unfold duart_read_byte. rewrite Hn.
    unfold isr_clr, ivec_clr.
    repeat match goal with |- context [if ?c then _ else _] => destruct c end; cbn; try exact H.
    all: try (destruct (rx_read_char _); cbn); dbits.
  - unfold duart_write_byte, handle_command, isr_clr, isr_set, ivec_clr, ivec_set.
    repeat match goal with |- context [if ?c then _ else _] => destruct c end; cbn; try exact H; dbits.
  - exact H.
  - destruct (get_interrupt_spec tm d) as (_ & _ & Iv & _). rewrite Iv.
    destruct (vb_stage_spec tm d) as (_ & _ & [E1|E1] & _); rewrite E1;
      destruct (bset (stat (pa d)) STS_RXR); destruct (bset (stat (pb d)) STS_RXR);
      destruct (bset (stat (pa d)) STS_TXR); cbn [opt_bit]; dbits.
  - exact H.
  - exact H.
  - unfold duart_rs232_tx. destruct (host_poll (pa d)); exact H.
  - unfold duart_keyboard_tx. destruct (host_poll (pb d)); exact H.
  - apply button_event_raises_request.
  - apply button_event_raises_request.
Qed.
