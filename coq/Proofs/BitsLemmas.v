(* Basic range and wrap facts about Bits.v *)
From Coq Require Import ZArith Lia Bool.
From Dmd Require Import Model.Bits.
Open Scope Z_scope.

Ltac Zify.zify_post_hook ::= Z.div_mod_to_equations.

Lemma w8_range x : 0 <= w8 x < 256.
Proof. unfold w8; lia. Qed.
Lemma w16_range x : 0 <= w16 x < 65536.
Proof. unfold w16; lia. Qed.
Lemma w32_range x : 0 <= w32 x < 4294967296.
Proof. unfold w32; lia. Qed.
Lemma w8_id x : 0 <= x < 256 -> w8 x = x.
Proof. unfold w8; intros; rewrite Z.mod_small; lia. Qed.
Lemma w16_id x : 0 <= x < 65536 -> w16 x = x.
Proof. unfold w16; intros; rewrite Z.mod_small; lia. Qed.
Lemma w32_id x : 0 <= x < 4294967296 -> w32 x = x.
Proof. unfold w32; intros; rewrite Z.mod_small; lia. Qed.

Lemma sext8_range x : 0 <= sext8 x < 4294967296.
Proof. unfold sext8; pose proof (w8_range x); destruct (w8 x <? 128) eqn:E; lia. Qed.
Lemma sext16_range x : 0 <= sext16 x < 4294967296.
Proof. unfold sext16; pose proof (w16_range x); destruct (w16 x <? 32768) eqn:E; lia. Qed.

(* sign extension is the two's-complement value, modulo 2^32 *)
Lemma sext8_spec x : sext8 x = w32 (s8 x).
Proof.
  unfold sext8, s8, w32; pose proof (w8_range x).
  destruct (w8 x <? 128) eqn:E.
  - rewrite Z.mod_small; lia.
  - replace (w8 x - 256) with (w8 x + 4294967040 + (-1) * 4294967296) by lia.
    rewrite Z.mod_add by lia. rewrite Z.mod_small; lia.
Qed.
Lemma sext16_spec x : sext16 x = w32 (s16 x).
Proof.
  unfold sext16, s16, w32; pose proof (w16_range x).
  destruct (w16 x <? 32768) eqn:E.
  - rewrite Z.mod_small; lia.
  - replace (w16 x - 65536) with (w16 x + 4294901760 + (-1) * 4294967296) by lia.
    rewrite Z.mod_add by lia. rewrite Z.mod_small; lia.
Qed.

Lemma s8_range x : -128 <= s8 x < 128.
Proof. unfold s8; pose proof (w8_range x); destruct (w8 x <? 128) eqn:E; lia. Qed.
Lemma s16_range x : -32768 <= s16 x < 32768.
Proof. unfold s16; pose proof (w16_range x); destruct (w16 x <? 32768) eqn:E; lia. Qed.
Lemma s32_range x : 0 <= x < 4294967296 -> -2147483648 <= s32 x < 2147483648.
Proof. unfold s32; intros; destruct (x <? 2147483648) eqn:E; lia. Qed.

(* add_offset is addition of the signed offset modulo 2^32 *)
Lemma add_offset_spec v off : add_offset v off = (v + off) mod 2 ^ 32.
Proof. reflexivity. Qed.
Lemma add_offset_signed v off :
  0 <= off < 4294967296 -> add_offset v off = w32 (v + s32 off).
Proof.
  intros H; unfold add_offset, s32, w32. destruct (off <? 2147483648) eqn:E; [reflexivity|].
  replace (v + (off - 4294967296)) with (v + off + (-1) * 4294967296) by lia.
  now rewrite Z.mod_add by lia.
Qed.
