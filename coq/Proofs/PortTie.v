(* The port helper functions of the model against their statement-by-statement translation from /repo/src/duart.rs
   (Gen/GenPort.v, regenerated on every run): enable / disable transmitter and receiver, loop-back and
   receiver-enabled predicates. *)
From Coq Require Import ZArith Bool.
From Dmd Require Import Model.Bits Model.Fifo Model.Mem Model.Duart Gen.GenDuart Gen.GenPort.
Open Scope Z_scope.

Ltac gconsts := unfold gd_CNF_ETX, gd_CNF_ERX, gd_STS_TXR, gd_STS_TXE, gd_STS_RXR, CNF_ETX, CNF_ERX, STS_TXR, STS_TXE, STS_RXR.

Lemma enable_tx_is_source {A} (p : port A) : enable_tx p = g_enable_tx p.
Proof. unfold enable_tx, g_enable_tx, stat_set. gconsts. cbv zeta. reflexivity. Qed.
Lemma disable_tx_is_source {A} (p : port A) : disable_tx p = g_disable_tx p.
Proof. unfold disable_tx, g_disable_tx, stat_clr. gconsts. cbv zeta. reflexivity. Qed.
Lemma enable_rx_is_source {A} (p : port A) : enable_rx p = g_enable_rx p.
Proof. unfold enable_rx, g_enable_rx, stat_clr. gconsts. cbv zeta. reflexivity. Qed.
Lemma disable_rx_is_source {A} (p : port A) : disable_rx p = g_disable_rx p.
Proof. unfold disable_rx, g_disable_rx, stat_clr. gconsts. cbv zeta. reflexivity. Qed.
Lemma loopback_is_source {A} (p : port A) : loopback p = g_loopback p.
Proof. reflexivity. Qed.
Lemma rx_enabled_is_source {A} (p : port A) : rx_enabled p = g_rx_enabled p.
Proof. reflexivity. Qed.
