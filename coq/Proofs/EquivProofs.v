(* Equivalent instruction forms leave identical machine state (C18). *)
From Coq Require Import ZArith Lia Bool List ZifyBool.
From Dmd Require Import Model.Bits Model.Types Model.Mem Model.Bus Model.Decode Model.Cpu.
From Dmd Require Import Gen.GenOpcodes Gen.GenDispatch.
From Dmd Require Import Proofs.BitsLemmas Proofs.BitKit Proofs.AluProofs Proofs.RegKit.
Open Scope Z_scope.

(* the outcome of an instruction apart from its own length *)
Definition strip {A} (r : res mach A) : res mach unit :=
  match r with Ok _ m => Ok tt m | Err e m => Err e m | Panic => Panic | OutOfFuel => OutOfFuel end.

Lemma bind_strip_ext {A B C} (r : res mach A) (k : A -> mach -> res mach B) (k' : A -> mach -> res mach C) :
  (forall a m, strip (k a m) = strip (k' a m)) -> strip (bind r k) = strip (bind r k').
Proof. intros H. destruct r; cbn; auto. Qed.

(* operand access depends on the instruction only through the operand slot it names *)
Lemma effective_address_ext ir ir' k k' m : get_op ir k = get_op ir' k' ->
  effective_address ir k m = effective_address ir' k' m.
Proof. intros H. unfold effective_address. cbv zeta. now rewrite H. Qed.
Lemma read_op_ext ir ir' k k' m : get_op ir k = get_op ir' k' -> read_op ir k m = read_op ir' k' m.
Proof.
  intros H. unfold read_op. cbv zeta. rewrite H.
  destruct (omode (get_op ir' k')); try reflexivity; now rewrite (effective_address_ext ir ir' k k' m H).
Qed.
Lemma write_op_ext ir ir' k k' v m : get_op ir k = get_op ir' k' -> write_op ir k v m = write_op ir' k' v m.
Proof.
  intros H. unfold write_op. cbv zeta. rewrite H.
  destruct (omode (get_op ir' k')); try reflexivity; now rewrite (effective_address_ext ir ir' k k' m H).
Qed.

(* two- and three-operand forms: same sources, destination repeated *)
Definition dst_repeated (ir2 ir3 : instr) : Prop :=
  get_op ir3 0 = get_op ir2 0 /\ get_op ir3 1 = get_op ir2 1 /\ get_op ir3 2 = get_op ir2 1.

Lemma alu_std_ext ir ir' f d d' m :
  get_op ir 0 = get_op ir' 0 -> get_op ir 1 = get_op ir' 1 -> get_op ir d = get_op ir' d' ->
  strip (alu_std ir f d m) = strip (alu_std ir' f d' m).
Proof.
  intros H0 H1 Hd. unfold alu_std.
  rewrite (read_op_ext ir ir' 0 0 m H0). apply bind_strip_ext. intros a m1.
  rewrite (read_op_ext ir ir' 1 1 m1 H1). apply bind_strip_ext. intros b m2.
  rewrite (write_op_ext ir ir' d d' _ m2 Hd). apply bind_strip_ext. intros u m3.
  cbn [strip]. now rewrite Hd.
Qed.

Lemma add_op_ext ir ir' a b d d' m : get_op ir d = get_op ir' d' ->
  add_op ir a b d m = add_op ir' a b d' m.
Proof.
  intros Hd. unfold add_op. cbv zeta. rewrite (write_op_ext ir ir' d d' _ m Hd).
  destruct (write_op ir' d' (w32 (a + b)) m); cbn [bind]; try reflexivity. now rewrite Hd.
Qed.
Lemma sub_op_ext ir ir' a b d d' m : get_op ir d = get_op ir' d' ->
  sub_op ir a b d m = sub_op ir' a b d' m.
Proof.
  intros Hd. unfold sub_op. cbv zeta. rewrite (write_op_ext ir ir' d d' _ m Hd).
  destruct (write_op ir' d' (w32 (a - b)) m); cbn [bind]; try reflexivity. now rewrite Hd.
Qed.

Lemma div_arm_ext ir ir' d d' oa ob m :
  get_op ir 0 = get_op ir' 0 -> get_op ir 1 = get_op ir' 1 -> get_op ir d = get_op ir' d' ->
  strip (div_arm ir d oa ob m) = strip (div_arm ir' d' oa ob m).
Proof.
  intros H0 H1 Hd. unfold div_arm.
  rewrite (read_op_ext ir ir' 0 0 m H0). apply bind_strip_ext. intros a m1.
  rewrite (read_op_ext ir ir' 1 1 m1 H1). apply bind_strip_ext. intros b m2.
  destruct (a =? 0); [reflexivity|]. rewrite H1.
  destruct (div_val a b (otype (get_op ir' 1))); [|reflexivity].
  rewrite (write_op_ext ir ir' d d' _ m2 Hd). apply bind_strip_ext. intros u m3.
  cbn [strip]. now rewrite Hd.
Qed.
Lemma mod_arm_ext ir ir' d d' m :
  get_op ir 0 = get_op ir' 0 -> get_op ir 1 = get_op ir' 1 -> get_op ir d = get_op ir' d' ->
  strip (mod_arm ir d m) = strip (mod_arm ir' d' m).
Proof.
  intros H0 H1 Hd. unfold mod_arm.
  rewrite (read_op_ext ir ir' 0 0 m H0). apply bind_strip_ext. intros a m1.
  rewrite (read_op_ext ir ir' 1 1 m1 H1). apply bind_strip_ext. intros b m2.
  destruct (a =? 0); [reflexivity|]. rewrite H1.
  destruct (mod_val a b (otype (get_op ir' 1))); [|reflexivity].
  rewrite (write_op_ext ir ir' d d' _ m2 Hd). apply bind_strip_ext. intros u m3.
  cbn [strip]. now rewrite Hd.
Qed.

(* opcode pairs (2-operand, 3-operand) of the eight binary operations at the three sizes *)
Definition op23_pairs : list (Z * Z) :=
  [(156, 220); (158, 222); (159, 223);      (* ADD W H B *)
   (188, 252); (190, 254); (191, 255);      (* SUB *)
   (168, 232); (170, 234); (171, 235);      (* MUL *)
   (172, 236); (174, 238); (175, 239);      (* DIV *)
   (164, 228); (166, 230); (167, 231);      (* MOD *)
   (184, 248); (186, 250); (187, 251);      (* AND *)
   (176, 240); (178, 242); (179, 243);      (* OR *)
   (180, 244); (182, 246); (183, 247)].     (* XOR *)

Lemma op2_eq_op3 ir2 ir3 m p :
  In p op23_pairs -> iopcode ir2 = fst p -> iopcode ir3 = snd p -> dst_repeated ir2 ir3 ->
  strip (exec ir2 m) = strip (exec ir3 m).
Proof.
  intros Hin H2 H3 [E0 [E1 E2]]. symmetry in E0, E1, E2.
  assert (E2' : get_op ir2 1 = get_op ir3 2) by exact E2.
  cbn [op23_pairs In] in Hin.
  repeat (destruct Hin as [Hin|Hin]; [subst p; cbn [fst snd] in H2, H3|]); try contradiction.
  (* ADD *)
  1-3: rewrite (exec_add2 ir2 m) by tauto; rewrite (exec_add3 ir3 m) by tauto;
       rewrite (read_op_ext ir2 ir3 0 0 m E0); apply bind_strip_ext; intros a m1;
       rewrite (read_op_ext ir2 ir3 1 1 m1 E1); apply bind_strip_ext; intros b m2;
       rewrite (add_op_ext ir2 ir3 a b 1 2 m2 E2'); apply bind_strip_ext; intros; reflexivity.
  (* SUB *)
  1-3: rewrite (exec_sub2 ir2 m) by tauto; rewrite (exec_sub3 ir3 m) by tauto;
       rewrite (read_op_ext ir2 ir3 1 1 m E1); apply bind_strip_ext; intros a m1;
       rewrite (read_op_ext ir2 ir3 0 0 m1 E0); apply bind_strip_ext; intros b m2;
       rewrite (sub_op_ext ir2 ir3 a b 1 2 m2 E2'); apply bind_strip_ext; intros; reflexivity.
  (* MUL *)
  1-3: rewrite (exec_mul2 ir2 m) by tauto; rewrite (exec_mul3 ir3 m) by tauto; now apply alu_std_ext.
  (* DIV *)
  1: destruct (exec_div ir2 m) as [A _]; destruct (exec_div ir3 m) as [_ [_ [_ [B _]]]];
     rewrite A, B by assumption; now apply div_arm_ext.
  1: destruct (exec_div ir2 m) as [_ [A _]]; destruct (exec_div ir3 m) as [_ [_ [_ [_ [B _]]]]];
     rewrite A, B by assumption; now apply div_arm_ext.
  1: destruct (exec_div ir2 m) as [_ [_ [A _]]]; destruct (exec_div ir3 m) as [_ [_ [_ [_ [_ B]]]]];
     rewrite A, B by assumption; now apply div_arm_ext.
  (* MOD *)
  1-3: destruct (exec_mod ir2 m) as [A _]; destruct (exec_mod ir3 m) as [_ B];
       rewrite A, B by tauto; now apply mod_arm_ext.
  (* AND OR XOR *)
  1-3: rewrite (exec_and2 ir2 m) by tauto; rewrite (exec_and3 ir3 m) by tauto; now apply alu_std_ext.
  1-3: rewrite (exec_or2 ir2 m) by tauto; rewrite (exec_or3 ir3 m) by tauto; now apply alu_std_ext.
  1-3: rewrite (exec_xor2 ir2 m) by tauto; rewrite (exec_xor3 ir3 m) by tauto; now apply alu_std_ext.
Qed.

(* ---- the overflow test of add_op is symmetric in its two addends ---- *)
Lemma add_overflow_symmetric a b k : 0 <= a < 4294967296 -> 0 <= b < 4294967296 -> 0 <= k < 32 ->
  Z.testbit (Z.land (Z.lxor a (not32 b)) (Z.lxor a (w32 (a + b)))) k
  = Z.testbit (Z.land (Z.lxor b (not32 a)) (Z.lxor b (w32 (b + a)))) k.
Proof.
  intros Ha Hb Hk. rewrite !Z.land_spec, !Z.lxor_spec, !not32_testbit by lia.
  replace (b + a) with (a + b) by lia.
  destruct (Z.testbit a k), (Z.testbit b k), (Z.testbit (w32 (a + b)) k); reflexivity.
Qed.

Lemma bset_testbit x k : 0 <= k -> bset x (2 ^ k) = Z.testbit x k.
Proof. intros. now apply bset_pow2. Qed.

Lemma add_op_comm ir a b d m : 0 <= a < 4294967296 -> 0 <= b < 4294967296 ->
  add_op ir a b d m = add_op ir b a d m.
Proof.
  intros Ha Hb. unfold add_op. cbv zeta. replace (b + a) with (a + b) by lia.
  destruct (write_op ir d (w32 (a + b)) m); cbn [bind]; try reflexivity.
  change 2147483648 with (2 ^ 31). change 32768 with (2 ^ 15). change 128 with (2 ^ 7).
  rewrite !bset_testbit by lia.
  rewrite (add_overflow_symmetric a b 31), (add_overflow_symmetric a b 15), (add_overflow_symmetric a b 7) by lia.
  replace (b + a) with (a + b) by lia. reflexivity.
Qed.

(* INC d  =  ADD2 &1, d   and   DEC d  =  SUB2 &1, d *)
Definition literal_one (o : operand) : Prop := omode o = MPosLit /\ oemb o = 1.

Lemma read_literal_one ir k m : literal_one (get_op ir k) -> read_op ir k m = Ok 1 m.
Proof. intros [Hm He]. unfold read_op. cbv zeta. rewrite Hm, He. reflexivity. Qed.

Lemma inc_eq_add1 iri ira m :
  (iopcode iri = 144 /\ iopcode ira = 156) \/ (iopcode iri = 146 /\ iopcode ira = 158) \/ (iopcode iri = 147 /\ iopcode ira = 159) ->
  literal_one (get_op ira 0) -> get_op ira 1 = get_op iri 0 ->
  (forall a m1, read_op iri 0 m = Ok a m1 -> 0 <= a < 4294967296) ->
  strip (exec iri m) = strip (exec ira m).
Proof.
  intros Ho L1 E Hrange.
  rewrite (exec_inc iri m) by tauto. rewrite (exec_add2 ira m) by tauto.
  rewrite (read_literal_one ira 0 m L1). cbn [bind].
  rewrite (read_op_ext ira iri 1 0 m E).
  destruct (read_op iri 0 m) as [a m1|e m1| |] eqn:R0; cbn [bind strip]; try reflexivity.
  rewrite (add_op_ext ira iri 1 a 1 0 m1 E). rewrite (add_op_comm iri 1 a 0 m1) by (try lia; eapply Hrange; eauto).
  destruct (add_op iri a 1 0 m1); reflexivity.
Qed.

Lemma dec_eq_sub1 ird irs m :
  (iopcode ird = 148 /\ iopcode irs = 188) \/ (iopcode ird = 150 /\ iopcode irs = 190) \/ (iopcode ird = 151 /\ iopcode irs = 191) ->
  literal_one (get_op irs 0) -> get_op irs 1 = get_op ird 0 ->
  strip (exec ird m) = strip (exec irs m).
Proof.
  intros Ho L1 E.
  rewrite (exec_dec ird m) by tauto. rewrite (exec_sub2 irs m) by tauto.
  rewrite (read_op_ext irs ird 1 0 m E).
  destruct (read_op ird 0 m) as [a m1|e m1| |] eqn:R0; cbn [bind strip]; try reflexivity.
  rewrite (read_literal_one irs 0 m1 L1). cbn [bind].
  rewrite (sub_op_ext irs ird a 1 1 0 m1 E).
  destruct (sub_op ird a 1 0 m1); reflexivity.
Qed.

(* ---- TST s  =  CMP &0, s ---- *)
Definition literal_zero (o : operand) : Prop := omode o = MPosLit /\ oemb o = 0.
Lemma read_literal_zero ir k m : literal_zero (get_op ir k) -> read_op ir k m = Ok 0 m.
Proof. intros [Hm He]. unfold read_op. cbv zeta. rewrite Hm, He. reflexivity. Qed.

Lemma exec_tstw ir m : iopcode ir = 40 ->
  exec ir m = bind (read_op ir 0 m) (fun a m =>
    Ok (ilen ir) (set_v false (set_c false (set_z (a =? 0) (set_n (s32 a <? 0) m))))).
Proof. intros H. unfold exec. rewrite H. reflexivity. Qed.
Lemma exec_cmpw ir m : iopcode ir = 60 ->
  exec ir m = bind (read_op ir 0 m) (fun a m => bind (read_op ir 1 m) (fun b m =>
    Ok (ilen ir) (set_v false (set_c (b <? a) (set_n (s32 b <? s32 a) (set_z (b =? a) m)))))).
Proof. intros H. unfold exec. rewrite H. reflexivity. Qed.

(* N and Z are written to different PSW bits: the order of the two updates does not matter *)
Lemma testbit_small x n : 0 <= x < 4294967296 -> 32 <= n -> Z.testbit x n = false.
Proof.
  intros Hx Hn. destruct (Z.eq_dec x 0) as [->|N0]; [apply Z.bits_0|].
  apply Z.bits_above_log2; [lia|]. apply Z.lt_le_trans with 32; [|lia]. apply Z.log2_lt_pow2; lia.
Qed.

Lemma set_n_z_comm a b m : set_n a (set_z b m) = set_z b (set_n a m).
Proof.
  unfold set_n, set_z, setf, setPSW, PSW. rewrite !R_setR_same. rewrite !setR_setR_same. f_equal.
  unfold clr32, F_N, F_Z. change 2097152 with (2 ^ 21). change 1048576 with (2 ^ 20).
  apply Z.bits_inj'. intros n Hn.
  destruct (Z.lt_ge_cases n 32) as [L|G].
  - destruct a, b; rewrite ?Z.lor_spec, ?Z.land_spec, ?Z.lor_spec, ?Z.land_spec;
      rewrite ?not32_testbit by (cbn; lia); rewrite ?Z.pow2_bits_eqb by lia;
      destruct (Z.eqb_spec 21 n), (Z.eqb_spec 20 n); try lia; destruct (Z.testbit (R m R_PSW) n); reflexivity.
  - assert (T21 : Z.testbit (2 ^ 21) n = false) by (apply testbit_small; cbn; lia).
    assert (T20 : Z.testbit (2 ^ 20) n = false) by (apply testbit_small; cbn; lia).
    assert (N21 : Z.testbit (not32 (2 ^ 21)) n = false) by (apply testbit_small; unfold not32; cbn; lia).
    assert (N20 : Z.testbit (not32 (2 ^ 20)) n = false) by (apply testbit_small; unfold not32; cbn; lia).
    destruct a, b; rewrite ?Z.lor_spec, ?Z.land_spec, ?Z.lor_spec, ?Z.land_spec;
      rewrite ?T21, ?T20, ?N21, ?N20; destruct (Z.testbit (R m R_PSW) n); reflexivity.
Qed.

Lemma tstw_eq_cmpw0 irt irc m :
  iopcode irt = 40 -> iopcode irc = 60 -> literal_zero (get_op irc 0) -> get_op irc 1 = get_op irt 0 ->
  (forall a m1, read_op irt 0 m = Ok a m1 -> 0 <= a) ->
  strip (exec irt m) = strip (exec irc m).
Proof.
  intros Ht Hc L0 E Hr. rewrite (exec_tstw irt m Ht), (exec_cmpw irc m Hc).
  rewrite (read_literal_zero irc 0 m L0). cbn [bind]. rewrite (read_op_ext irc irt 1 0 m E).
  destruct (read_op irt 0 m) as [a m1|e m1| |] eqn:R0; cbn [bind strip]; try reflexivity.
  replace (a <? 0) with false by (specialize (Hr _ _ eq_refl); lia).
  change (s32 0) with 0. now rewrite set_n_z_comm.
Qed.

(* ---- CLR d  =  MOV &0, d  (word) ---- *)
Lemma exec_clr ir m : iopcode ir = 128 \/ iopcode ir = 130 \/ iopcode ir = 131 ->
  exec ir m = bind (write_op ir 0 0 m) (fun _ m =>
    Ok (ilen ir) (set_v false (set_c false (set_z true (set_n false m))))).
Proof. intros [H|[H|H]]; unfold exec; rewrite H; reflexivity. Qed.
Lemma exec_movx ir m : iopcode ir = 135 \/ iopcode ir = 134 \/ iopcode ir = 132 ->
  exec ir m = bind (read_op ir 0 m) (fun v m => bind (write_op ir 1 v m) (fun _ m =>
    Ok (ilen ir) (set_v_flag_op v (op1 ir) (set_c false (set_nz_flags v (op1 ir) m))))).
Proof. intros [H|[H|H]]; unfold exec; rewrite H; reflexivity. Qed.

Lemma clr_eq_mov0 irc irm m :
  (iopcode irc = 128 /\ iopcode irm = 132) \/ (iopcode irc = 130 /\ iopcode irm = 134) \/ (iopcode irc = 131 /\ iopcode irm = 135) ->
  literal_zero (get_op irm 0) -> get_op irm 1 = get_op irc 0 -> otype (get_op irc 0) <> DNone ->
  strip (exec irc m) = strip (exec irm m).
Proof.
  intros Ho L0 E Ht. rewrite (exec_clr irc m) by tauto. rewrite (exec_movx irm m) by tauto.
  rewrite (read_literal_zero irm 0 m L0). cbn [bind]. rewrite (write_op_ext irm irc 1 0 0 m E).
  destruct (write_op irc 0 0 m) as [u m1|e m1| |]; cbn [bind strip]; try reflexivity.
  change (op1 irm) with (get_op irm 1). rewrite E.
  unfold set_nz_flags, set_v_flag_op.
  change (bset 0 2147483648) with false. change (bset 0 32768) with false. change (bset 0 128) with false.
  change (0 =? 0) with true. change (w16 0 =? 0) with true. change (w8 0 =? 0) with true.
  change (0 >? 65535) with false. change (0 >? 255) with false.
  destruct (otype (get_op irc 0)); try congruence; reflexivity.
Qed.

(* ---- MCOM s, d  =  XOR3 &-1, s, d ---- *)
Lemma lxor_ones a : 0 <= a < 4294967296 -> Z.lxor 4294967295 a = not32 a.
Proof.
  intros H. apply Z.bits_inj'. intros n Hn. rewrite Z.lxor_spec.
  destruct (Z.lt_ge_cases n 32) as [L|G].
  - rewrite not32_testbit by lia. change 4294967295 with (Z.ones 32). rewrite Z.ones_spec_low by lia. reflexivity.
  - change 4294967295 with (Z.ones 32). rewrite Z.ones_spec_high by lia.
    assert (Ta : Z.testbit a n = false).
    { destruct (Z.eq_dec a 0) as [->|N0]; [apply Z.bits_0|]. apply Z.bits_above_log2; [lia|].
      apply Z.lt_le_trans with 32; [|lia]. apply Z.log2_lt_pow2; lia. }
    assert (Tn : Z.testbit (not32 a) n = false).
    { unfold not32. destruct (Z.eq_dec (4294967295 - a) 0) as [->|N0]; [apply Z.bits_0|].
      apply Z.bits_above_log2; [lia|]. apply Z.lt_le_trans with 32; [|lia]. apply Z.log2_lt_pow2; lia. }
    now rewrite Ta, Tn.
Qed.

Definition literal_minus_one (o : operand) : Prop := omode o = MNegLit /\ oemb o = 255.
Lemma read_literal_minus_one ir k m : literal_minus_one (get_op ir k) -> read_op ir k m = Ok 4294967295 m.
Proof. intros [Hm He]. unfold read_op. cbv zeta. rewrite Hm, He. reflexivity. Qed.

Lemma exec_mcom ir m : iopcode ir = 136 \/ iopcode ir = 138 \/ iopcode ir = 139 ->
  exec ir m = bind (read_op ir 0 m) (fun a m => bind (write_op ir 1 (not32 a) m) (fun _ m =>
    Ok (ilen ir) (set_v_flag_op (not32 a) (op1 ir) (set_c false (set_nz_flags (not32 a) (op1 ir) m))))).
Proof. intros [H|[H|H]]; unfold exec; rewrite H; reflexivity. Qed.

Lemma mcom_eq_xor_ones irm irx m :
  (iopcode irm = 136 /\ iopcode irx = 244) \/ (iopcode irm = 138 /\ iopcode irx = 246) \/ (iopcode irm = 139 /\ iopcode irx = 247) ->
  literal_minus_one (get_op irx 0) -> get_op irx 1 = get_op irm 0 -> get_op irx 2 = get_op irm 1 ->
  (forall a m1, read_op irm 0 m = Ok a m1 -> 0 <= a < 4294967296) ->
  strip (exec irm m) = strip (exec irx m).
Proof.
  intros Ho L E1 E2 Hr. rewrite (exec_mcom irm m) by tauto. rewrite (exec_xor3 irx m) by tauto.
  unfold alu_std. rewrite (read_literal_minus_one irx 0 m L). cbn [bind].
  rewrite (read_op_ext irx irm 1 0 m E1).
  destruct (read_op irm 0 m) as [a m1|e m1| |] eqn:R0; cbn [bind strip]; try reflexivity.
  rewrite (lxor_ones a) by (eapply Hr; eauto).
  rewrite (write_op_ext irx irm 2 1 _ m1 E2).
  destruct (write_op irm 1 (not32 a) m1) as [u m2|e m2| |]; cbn [bind strip]; try reflexivity.
  change (op1 irm) with (get_op irm 1). now rewrite E2.
Qed.

(* ---- ALSW3  =  LLSW3 when the operand reads are free of side effects ---- *)
Lemma exec_llsw3 ir m : iopcode ir = 208 ->
  exec ir m = bind (read_op ir 1 m) (fun a m => bind (read_op ir 0 m) (fun b m =>
    let result := w32 (Z.shiftl a (Z.land b 31)) in
    bind (write_op ir 2 result m) (fun _ m =>
    Ok (ilen ir) (set_v_flag_op result (op2 ir) (set_c false (set_nz_flags result (op2 ir) m)))))).
Proof. intros H. unfold exec. rewrite H. reflexivity. Qed.
Lemma exec_alsw3 ir m : iopcode ir = 192 ->
  exec ir m = alu_std ir (fun a b => w32 (Z.shiftl b (Z.land a 31))) 2 m.
Proof. intros H. unfold exec. rewrite H. reflexivity. Qed.

Lemma als_eq_lls ira irl m cnt v :
  iopcode ira = 192 -> iopcode irl = 208 ->
  get_op irl 0 = get_op ira 0 -> get_op irl 1 = get_op ira 1 -> get_op irl 2 = get_op ira 2 ->
  read_op ira 0 m = Ok cnt m -> read_op ira 1 m = Ok v m ->
  strip (exec ira m) = strip (exec irl m).
Proof.
  intros Ha Hl E0 E1 E2 R0 R1. rewrite (exec_alsw3 ira m Ha), (exec_llsw3 irl m Hl).
  unfold alu_std. rewrite R0. cbn [bind]. rewrite R1. cbn [bind].
  rewrite (read_op_ext irl ira 1 1 m E1), R1. cbn [bind].
  rewrite (read_op_ext irl ira 0 0 m E0), R0. cbn [bind]. cbv zeta.
  rewrite (write_op_ext irl ira 2 2 _ m E2).
  destruct (write_op ira 2 (w32 (Z.shiftl v (Z.land cnt 31))) m); cbn [bind strip]; try reflexivity.
  change (op2 irl) with (get_op irl 2). rewrite E2. reflexivity.
Qed.

(* ---- BIT sets the same N and Z as AND ---- *)
Lemma exec_bit ir m : iopcode ir = 56 \/ iopcode ir = 58 \/ iopcode ir = 59 ->
  exec ir m = bind (read_op ir 0 m) (fun a m => bind (read_op ir 1 m) (fun b m =>
    Ok (ilen ir) (set_v false (set_c false (set_nz_flags (Z.land a b) (op1 ir) m))))).
Proof. intros [H|[H|H]]; unfold exec; rewrite H; reflexivity. Qed.
