(* The C interface as a labelled transition system (C19): return codes, output parameters, NVRAM round trip,
   and what every interleaving of atomic calls does to the host queues. *)
From Coq Require Import ZArith Lia Bool List ZifyBool.
From Dmd Require Import Model.Bits Model.Types Model.Fifo Model.Mem Model.Mouse Model.Duart Model.Bus
     Model.Decode Model.Cpu Model.Dmd.
From Dmd Require Import Gen.GenCapi Gen.GenConsts.
From Dmd Require Import Proofs.BitsLemmas Proofs.MemProofs Proofs.BusProofs Proofs.VideoProofs Proofs.RegKit
     Proofs.ResetProofs.
Open Scope Z_scope.

Section Capi.
Variable LO1 HI1 LO2 HI2 : list Z.
Notation cstep := (capi_step LO1 HI1 LO2 HI2).

(* which calls carry an output parameter *)
Definition has_out (c : ccall) : bool :=
  match c with
  | CGetPc | CGetReg _ | CReadWord _ | CReadByte _ | CDuartOut | CRs232Tx | CKeyboardTx | CGetNvram | CVideoRam => true
  | _ => false
  end.

Definition is_poll (c : ccall) : bool := match c with CRs232Tx | CKeyboardTx => true | _ => false end.

(* return codes: SUCCESS 0 or ERROR 1; BUSY 2 only from the two transmit polls; video_ram returns a pointer
   (0 here) or null (-1); video_ram_dirty returns the flag; 99 marks a call that unwound (panic under the lock) *)
Lemma capi_return_codes now c g :
  let r := snd (cstep now c g) in
  match c with
  | CVideoRam => crc r = 0 \/ crc r = -1 \/ crc r = 1 \/ crc r = 99
  | CVideoDirty => crc r = 0 \/ crc r = 1
  | CRs232Tx | CKeyboardTx => crc r = 0 \/ crc r = 2 \/ crc r = 1
  | _ => crc r = 0 \/ crc r = 1 \/ crc r = 99
  end.
Proof.
  cbv zeta. destruct g as [m|]; [|destruct c; cbn; auto].
  destruct c; cbn [capi_step snd]; unfold cfin, SUCCESS, ERROR, BUSY; cbn [snd crc];
    repeat match goal with
           | |- context [match ?x with _ => _ end] => destruct x; cbn [snd crc fst]
           | |- context [let (_, _) := ?x in _] => destruct x; cbn [snd crc fst]
           end; auto.
Qed.

(* BUSY exactly when the queue is empty, and then nothing is written and nothing changes *)
Lemma poll_busy_iff_empty now m :
  (crc (snd (cstep now CRs232Tx (GLive m))) = 2 <-> txq (pa (duart_ (mbus m))) = [])
  /\ (crc (snd (cstep now CKeyboardTx (GLive m))) = 2 <-> txq (pb (duart_ (mbus m))) = []).
Proof.
  split; cbn [capi_step]; unfold bus_rs232_tx, bus_keyboard_tx, duart_rs232_tx, duart_keyboard_tx, host_poll, SUCCESS, BUSY;
    [destruct (txq (pa (duart_ (mbus m)))) | destruct (txq (pb (duart_ (mbus m))))]; cbn; split; intros; congruence.
Qed.

(* a successful poll hands out the OLDEST pending byte and removes exactly that one *)
Lemma poll_pops_oldest now m c t :
  (txq (pa (duart_ (mbus m))) = c :: t ->
     exists m', cstep now CRs232Tx (GLive m) = (GLive m', mkCres 0 (CoVal c)) /\ txq (pa (duart_ (mbus m'))) = t
                /\ txq (pb (duart_ (mbus m'))) = txq (pb (duart_ (mbus m))) /\ mregs m' = mregs m)
  /\ (txq (pb (duart_ (mbus m))) = c :: t ->
     exists m', cstep now CKeyboardTx (GLive m) = (GLive m', mkCres 0 (CoVal c)) /\ txq (pb (duart_ (mbus m'))) = t
                /\ txq (pa (duart_ (mbus m'))) = txq (pa (duart_ (mbus m))) /\ mregs m' = mregs m).
Proof.
  split; intros E; cbn [capi_step]; unfold bus_rs232_tx, bus_keyboard_tx, duart_rs232_tx, duart_keyboard_tx, host_poll, SUCCESS;
    rewrite E; eexists; (split; [reflexivity|]); cbn; auto.
Qed.

(* output parameters: written exactly when the call reports success *)
Lemma capi_outparams now c g :
  let r := snd (cstep now c g) in
  has_out c = true -> c <> CVideoRam ->
  (crc r = 0 <-> cout_ r <> CoNone).
Proof.
  cbv zeta. intros Ho Nv. destruct g as [m|].
  - destruct c; cbn in Ho; try discriminate; try congruence; cbn [capi_step snd]; unfold cfin, SUCCESS, ERROR, BUSY;
      repeat match goal with
             | |- context [match ?x with _ => _ end] => destruct x; cbn [snd crc cout_ fst]
             | |- context [let (_, _) := ?x in _] => destruct x; cbn [snd crc cout_ fst]
             end; cbn [snd crc cout_]; split; intros; try congruence; try discriminate; try lia.
  - destruct c; cbn in Ho; try discriminate; try congruence; cbn; unfold ERROR; split; intros; try congruence; lia.
Qed.

(* input calls always succeed and append to the END of the channel's receive queue; nothing else in the DUART
   queues moves *)
Lemma input_appends now m c :
  (exists m', cstep now (CKeyboardRx c) (GLive m) = (GLive m', mkCres 0 CoNone)
      /\ rxq (pb (duart_ (mbus m'))) = rxq (pb (duart_ (mbus m))) ++ [w8 c]
      /\ rxq (pa (duart_ (mbus m'))) = rxq (pa (duart_ (mbus m)))
      /\ txq (pa (duart_ (mbus m'))) = txq (pa (duart_ (mbus m))) /\ txq (pb (duart_ (mbus m'))) = txq (pb (duart_ (mbus m))))
  /\ (exists m', cstep now (CRs232Rx c) (GLive m) = (GLive m', mkCres 0 CoNone)
      /\ rxq (pa (duart_ (mbus m'))) = rxq (pa (duart_ (mbus m))) ++ [w8 c]
      /\ rxq (pb (duart_ (mbus m'))) = rxq (pb (duart_ (mbus m)))
      /\ txq (pa (duart_ (mbus m'))) = txq (pa (duart_ (mbus m))) /\ txq (pb (duart_ (mbus m'))) = txq (pb (duart_ (mbus m)))).
Proof.
  split; eexists; (split; [reflexivity|]); cbn; auto.
Qed.

(* the NVRAM get/set pair round-trips all 8192 bytes *)
Lemma nvram_roundtrip now m img :
  bus_wf (mbus m) -> Z.of_nat (length img) = 8192 -> (forall b, In b img -> 0 <= b < 256) ->
  exists m', cstep now (CSetNvram img) (GLive m) = (GLive m', mkCres 0 CoNone)
    /\ cstep now CGetNvram (GLive m') = (GLive m', mkCres 0 (CoBytes img)).
Proof.
  intros W Hl Hb. eexists. split; [reflexivity|]. cbn [capi_step]. unfold SUCCESS. f_equal. f_equal. f_equal.
  cbn [mbus with_bus]. unfold bus_get_nvram, NVRAM_SIZE.
  destruct (set_nvram_from_spec img (Z.to_nat 8192) (bbram (mbus m)) 0 ltac:(lia)) as [_ [_ [_ Hg]]].
  apply nth_ext with (d := 0) (d' := 0).
  - rewrite mem_slice_length. lia.
  - intros n Hn. rewrite mem_slice_length in Hn.
    replace n with (Z.to_nat (Z.of_nat n)) at 1 by lia. rewrite mem_slice_nth_z by lia.
    cbn [bbram bus_set_nvram with_bbram]. unfold NVRAM_SIZE. rewrite Hg by lia.
    replace ((0 <=? 0 + Z.of_nat n) && (0 + Z.of_nat n <? 0 + Z.of_nat (Nat.min (Z.to_nat 8192) (length img)))) with true by lia.
    replace (Z.to_nat (0 + Z.of_nat n - 0)) with n by lia.
    apply w8_id. apply Hb. apply nth_In. lia.
Qed.

(* a poisoned machine (a call panicked while holding the lock): every later call fails with its error code and
   writes nothing; nothing ever un-poisons it *)
Lemma poisoned_stays now c :
  fst (cstep now c GPoisoned) = GPoisoned /\ cout_ (snd (cstep now c GPoisoned)) = CoNone.
Proof. destruct c; cbn; auto. Qed.

(* ---- every interleaving ---- *)
(* all calls of all threads, in the order the mutex admitted them *)
Fixpoint run_calls (now : Z) (cs : list ccall) (g : gstate) : gstate * list cres :=
  match cs with
  | [] => (g, [])
  | c :: t => let (g1, r) := cstep now c g in let (g2, rs) := run_calls now t g1 in (g2, r :: rs)
  end.

Definition kb_inputs (cs : list ccall) : list Z :=
  flat_map (fun c => match c with CKeyboardRx k => [w8 k] | _ => [] end) cs.
Definition rs_inputs (cs : list ccall) : list Z :=
  flat_map (fun c => match c with CRs232Rx k => [w8 k] | _ => [] end) cs.

Definition no_steps (cs : list ccall) : Prop :=
  forall c, In c cs -> match c with CStep | CStepLoop _ | CInit _ | CReadWord _ | CReadByte _ | CVideoRam => False | _ => True end.

Definition rxq_b (g : gstate) : list Z := match g with GLive m => rxq (pb (duart_ (mbus m))) | GPoisoned => [] end.
Definition rxq_a (g : gstate) : list Z := match g with GLive m => rxq (pa (duart_ (mbus m))) | GPoisoned => [] end.

Lemma call_queue_effect now c m :
  match c with CStep | CStepLoop _ | CInit _ | CReadWord _ | CReadByte _ | CVideoRam => False | _ => True end ->
  exists m', fst (cstep now c (GLive m)) = GLive m'
    /\ rxq (pb (duart_ (mbus m'))) = rxq (pb (duart_ (mbus m))) ++ kb_inputs [c]
    /\ rxq (pa (duart_ (mbus m'))) = rxq (pa (duart_ (mbus m))) ++ rs_inputs [c].
Proof.
  intros H. destruct c; try contradiction; cbn [capi_step fst kb_inputs rs_inputs flat_map app];
    unfold bus_rs232_tx, bus_keyboard_tx, duart_rs232_tx, duart_keyboard_tx, host_poll;
    try (eexists; split; [reflexivity|]; cbn; rewrite ?app_nil_r; split; reflexivity);
    try (eexists; split; [reflexivity|]; cbn [mbus with_bus duart_ bus_mouse_down bus_mouse_up with_duart];
         unfold mouse_down, mouse_up;
         repeat match goal with |- context [if ?c then _ else _] => destruct c end; cbn; rewrite ?app_nil_r; split; reflexivity).
  - destruct (txq (pa (duart_ (mbus m)))); eexists; (split; [reflexivity|]); cbn; rewrite ?app_nil_r; split; reflexivity.
  - destruct (txq (pb (duart_ (mbus m)))); eexists; (split; [reflexivity|]); cbn; rewrite ?app_nil_r; split; reflexivity.
Qed.

(* whatever order the threads' calls are admitted in, the receive queues afterwards are the old queues followed by
   the injected bytes in admission order: nothing lost, nothing duplicated *)
Lemma inputs_enter_in_admission_order now cs : forall m, no_steps cs ->
  exists m', fst (run_calls now cs (GLive m)) = GLive m'
    /\ rxq (pb (duart_ (mbus m'))) = rxq (pb (duart_ (mbus m))) ++ kb_inputs cs
    /\ rxq (pa (duart_ (mbus m'))) = rxq (pa (duart_ (mbus m))) ++ rs_inputs cs.
Proof.
  induction cs as [|c t IH]; intros m H.
  - exists m. cbn. rewrite !app_nil_r. auto.
  - destruct (call_queue_effect now c m (H c (or_introl eq_refl))) as [m1 [E1 [Kb Rs]]].
    destruct (IH m1 (fun c' Hc => H c' (or_intror Hc))) as [m2 [E2 [Kb2 Rs2]]].
    exists m2. cbn [run_calls]. destruct (cstep now c (GLive m)) as [g1 r] eqn:Ec. cbn [fst] in E1. subst g1.
    destruct (run_calls now t (GLive m1)) as [g2 rs] eqn:Er. cbn [fst] in *. subst g2.
    split; [reflexivity|]. rewrite Kb2, Kb, Rs2, Rs.
    change (c :: t) with ([c] ++ t). unfold kb_inputs, rs_inputs. rewrite !flat_map_app, !app_assoc. auto.
Qed.

(* a merge of two threads' call lists keeps each thread's own order *)
Inductive merge {A} : list A -> list A -> list A -> Prop :=
| merge_nil : merge [] [] []
| merge_l x l1 l2 l : merge l1 l2 l -> merge (x :: l1) l2 (x :: l)
| merge_r x l1 l2 l : merge l1 l2 l -> merge l1 (x :: l2) (x :: l).

Lemma merge_flat_map {A B} (f : A -> list B) l1 l2 l :
  merge l1 l2 l -> exists pick : list bool, True /\
    length (flat_map f l) = (length (flat_map f l1) + length (flat_map f l2))%nat.
Proof.
  induction 1 as [|x l1 l2 l M IH|x l1 l2 l M IH].
  - exists []. auto.
  - destruct IH as [p [_ E]]. exists p. split; auto. cbn. rewrite !app_length. lia.
  - destruct IH as [p [_ E]]. exists p. split; auto. cbn. rewrite !app_length. lia.
Qed.

Inductive subseq {A} : list A -> list A -> Prop :=
| sub_nil l : subseq [] l
| sub_take x s l : subseq s l -> subseq (x :: s) (x :: l)
| sub_skip x s l : subseq s l -> subseq s (x :: l).

Lemma subseq_app_l {A} (p s l : list A) : subseq s l -> subseq (p ++ s) (p ++ l).
Proof. induction p; cbn; auto. intros. now apply sub_take, IHp. Qed.
Lemma subseq_app_skip {A} (p s l : list A) : subseq s l -> subseq s (p ++ l).
Proof. induction p; cbn; auto. intros. now apply sub_skip, IHp. Qed.

Lemma merge_keeps_thread_order {A B} (f : A -> list B) l1 l2 l :
  merge l1 l2 l -> subseq (flat_map f l1) (flat_map f l) /\ subseq (flat_map f l2) (flat_map f l).
Proof.
  induction 1 as [|x l1 l2 l M [IH1 IH2]|x l1 l2 l M [IH1 IH2]]; cbn.
  - split; constructor.
  - split; [now apply subseq_app_l | now apply subseq_app_skip].
  - split; [now apply subseq_app_skip | now apply subseq_app_l].
Qed.

(* the wrappers in the source: each takes the lock exactly once and calls no other wrapper (no nested locking,
   hence no self-deadlock); translated from dmd.rs on every run *)
Lemma wrappers_lock_once_and_do_not_nest :
  forallb (fun e => match snd e with CS locks nested _ => (locks =? 1)%nat && negb nested end) g_capi = true
  /\ g_capi_count = 19%nat /\ g_capi_poll_shape_ok = true.
Proof. vm_compute. auto. Qed.

End Capi.
