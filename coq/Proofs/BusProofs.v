(* Bus-level lemmas: routing, frames, alignment, ROM immutability, display window. *)
From Coq Require Import ZArith Lia Bool List.
From Dmd Require Import Model.Bits Model.Fifo Model.Mem Model.Mouse Model.Duart Model.Bus.
From Dmd Require Import Gen.GenMemMap Gen.GenConsts Spec.MemMapDoc Proofs.BitsLemmas Proofs.MemProofs.
Open Scope Z_scope.

Definition dev_doc (d : device) : docdev :=
  match d with DRom => DocRom | DDuart => DocDuart | DMouse => DocMouse
             | DVid => DocVid | DBbram => DocNvram | DRam => DocRam end.
Definition gdev_doc (d : gdev) : docdev :=
  match d with GRom => DocRom | GDuart => DocDuart | GMouse => DocMouse
             | GVid => DocVid | GBbram => DocNvram | GRam => DocRam end.

Ltac route_cases a :=
  destruct (Z_lt_le_dec a 131072);
  [| destruct (Z_lt_le_dec a 2097152);
     [| destruct (Z_lt_le_dec a 2097216);
        [| destruct (Z_lt_le_dec a 4194304);
           [| destruct (Z_lt_le_dec a 4194308);
              [| destruct (Z_lt_le_dec a 5242880);
                 [| destruct (Z_lt_le_dec a 5242882);
                    [| destruct (Z_lt_le_dec a 6291456);
                       [| destruct (Z_lt_le_dec a 6299648);
                          [| destruct (Z_lt_le_dec a 7340032);
                             [| destruct (Z_lt_le_dec a 8388608) ]]]]]]]]]].

Ltac decide_cmps :=
  repeat match goal with
         | |- context [?x <? ?y] =>
           first [ replace (x <? y) with true by (symmetry; apply Z.ltb_lt; lia)
                 | replace (x <? y) with false by (symmetry; apply Z.ltb_ge; lia) ]
         | |- context [?x <=? ?y] =>
           first [ replace (x <=? y) with true by (symmetry; apply Z.leb_le; lia)
                 | replace (x <=? y) with false by (symmetry; apply Z.leb_gt; lia) ]
         end.

(* the model's routing is the documented map, for every address *)
Lemma model_route_doc a : 0 <= a -> option_map dev_doc (get_device a) = doc_route a.
Proof.
  intros H. unfold get_device, doc_route, doc_map, find; cbn [fst snd].
  route_cases a; decide_cmps; reflexivity.
Qed.

(* the routing translated from the source is the documented map, for every address *)
Lemma gen_route_doc a : 0 <= a -> option_map gdev_doc (g_get_device a) = doc_route a.
Proof.
  intros H. unfold g_get_device, doc_route, doc_map, find; cbn [fst snd].
  route_cases a; decide_cmps; reflexivity.
Qed.

(* well-formed bus: the devices have their documented geometry *)
Record bus_wf (b : bus) : Prop := {
  wf_rom : mbase (rom b) = 0 /\ msize (rom b) = 131072 /\ mro (rom b) = true;
  wf_vid : mbase (vid b) = 5242880 /\ msize (vid b) = 2 /\ mro (vid b) = false;
  wf_nv  : mbase (bbram b) = 6291456 /\ msize (bbram b) = 8192 /\ mro (bbram b) = false;
  wf_ram : mbase (ram b) = 7340032 /\ msize (ram b) = 1048576 /\ mro (ram b) = false }.

Lemma bus_new_wf now : bus_wf (bus_new now).
Proof. constructor; cbn; auto. Qed.

(* an address with no device: every access faults NoDevice and changes nothing *)
Lemma nodev_read_byte a b : get_device a = None -> bus_read_byte a b = Err (EBus BNoDevice) b.
Proof. unfold bus_read_byte, with_dev; now intros ->. Qed.
Lemma nodev_read_half a b : get_device a = None ->
  bus_read_half a b = Err (EBus BNoDevice) b \/ bus_read_half a b = Err (EBus BAlignment) b.
Proof. unfold bus_read_half, with_dev; intros ->. destruct (negb _); auto. Qed.
Lemma nodev_read_word a b : get_device a = None ->
  bus_read_word a b = Err (EBus BNoDevice) b \/ bus_read_word a b = Err (EBus BAlignment) b.
Proof. unfold bus_read_word, with_dev; intros ->. destruct (negb _); auto. Qed.

Lemma nodev_not_video a b : get_device a = None -> is_video_ram b a = false.
Proof.
  unfold get_device, is_video_ram. intros H.
  destruct (a <? 131072); [discriminate|].
  destruct ((2097152 <=? a) && (a <? 2097216)); [discriminate|].
  destruct ((4194304 <=? a) && (a <? 4194308)); [discriminate|].
  destruct ((5242880 <=? a) && (a <? 5242882)); [discriminate|].
  destruct ((6291456 <=? a) && (a <? 6299648)); [discriminate|].
  destruct ((7340032 <=? a) && (a <? 8388608)); [discriminate|]. reflexivity.
Qed.

Lemma nodev_write_byte a v b : get_device a = None -> bus_write_byte a v b = Err (EBus BNoDevice) b.
Proof.
  intros H. unfold bus_write_byte, mark_dirty. rewrite (nodev_not_video a b H).
  unfold with_dev. now rewrite H.
Qed.
Lemma nodev_write_half a v b : get_device a = None ->
  bus_write_half a v b = Err (EBus BNoDevice) b \/ bus_write_half a v b = Err (EBus BAlignment) b.
Proof.
  intros H. unfold bus_write_half, mark_dirty. rewrite (nodev_not_video a b H).
  unfold with_dev. rewrite H. destruct (negb _); auto.
Qed.
Lemma nodev_write_word a v b : get_device a = None ->
  bus_write_word a v b = Err (EBus BNoDevice) b \/ bus_write_word a v b = Err (EBus BAlignment) b.
Proof.
  intros H. unfold bus_write_word, mark_dirty. rewrite (nodev_not_video a b H).
  unfold with_dev. rewrite H. destruct (negb _); auto.
Qed.

(* unaligned accesses fault before anything else happens *)
Lemma unaligned_read_half a b : Z.land a 1 <> 0 -> bus_read_half a b = Err (EBus BAlignment) b.
Proof. intros H. unfold bus_read_half. apply Z.eqb_neq in H. now rewrite H. Qed.
Lemma unaligned_read_word a b : Z.land a 3 <> 0 -> bus_read_word a b = Err (EBus BAlignment) b.
Proof. intros H. unfold bus_read_word. apply Z.eqb_neq in H. now rewrite H. Qed.
Lemma unaligned_write_half a v b : Z.land a 1 <> 0 -> bus_write_half a v b = Err (EBus BAlignment) b.
Proof. intros H. unfold bus_write_half. apply Z.eqb_neq in H. now rewrite H. Qed.
Lemma unaligned_write_word a v b : Z.land a 3 <> 0 -> bus_write_word a v b = Err (EBus BAlignment) b.
Proof. intros H. unfold bus_write_word. apply Z.eqb_neq in H. now rewrite H. Qed.

(* ROM: every guest write of any width is rejected and nothing changes *)
Lemma rom_not_video a b : get_device a = Some DRom -> is_video_ram b a = false.
Proof.
  unfold get_device, is_video_ram. destruct (a <? 131072) eqn:E; [|].
  - intros _. apply Z.ltb_lt in E.
    replace (7340032 <=? a) with false by (symmetry; apply Z.leb_gt; lia). reflexivity.
  - destruct ((2097152 <=? a) && (a <? 2097216)); [discriminate|].
    destruct ((4194304 <=? a) && (a <? 4194308)); [discriminate|].
    destruct ((5242880 <=? a) && (a <? 5242882)); [discriminate|].
    destruct ((6291456 <=? a) && (a <? 6299648)); [discriminate|].
    destruct ((7340032 <=? a) && (a <? 8388608)); discriminate.
Qed.

Lemma rom_write_byte_rejected a v b :
  bus_wf b -> get_device a = Some DRom -> bus_write_byte a v b = Err (EBus BWrite) b.
Proof.
  intros W H. unfold bus_write_byte, mark_dirty. rewrite (rom_not_video a b H).
  unfold with_dev. rewrite H. unfold dev_write_byte, dev_mem.
  rewrite ro_write_byte by (apply W). reflexivity.
Qed.
Lemma rom_write_half_rejected a v b :
  bus_wf b -> get_device a = Some DRom ->
  bus_write_half a v b = Err (EBus BWrite) b \/ bus_write_half a v b = Err (EBus BAlignment) b.
Proof.
  intros W H. unfold bus_write_half, mark_dirty. destruct (negb _); auto.
  rewrite (rom_not_video a b H). unfold with_dev. rewrite H. unfold dev_write_half, dev_mem.
  rewrite ro_write_half by (apply W). auto.
Qed.
Lemma rom_write_word_rejected a v b :
  bus_wf b -> get_device a = Some DRom ->
  bus_write_word a v b = Err (EBus BWrite) b \/ bus_write_word a v b = Err (EBus BAlignment) b.
Proof.
  intros W H. unfold bus_write_word, mark_dirty. destruct (negb _); auto.
  rewrite (rom_not_video a b H). unfold with_dev. rewrite H. unfold dev_write_word, dev_mem.
  rewrite ro_write_word by (apply W). auto.
Qed.

(* whatever a guest write does, the ROM component of the bus is unchanged *)
Definition res_rom_same {A} (b : bus) (r : res bus A) : Prop :=
  match r with Ok _ b' | Err _ b' => rom b' = rom b | _ => True end.

Lemma write_byte_keeps_rom a v b : bus_wf b -> res_rom_same b (bus_write_byte a v b).
Proof.
  intros W. unfold bus_write_byte, with_dev.
  assert (Hm : rom (mark_dirty a b) = rom b) by (unfold mark_dirty; destruct (is_video_ram b a); reflexivity).
  assert (Wm : mro (rom (mark_dirty a b)) = true) by (rewrite Hm; apply W).
  destruct (get_device a) as [d|]; [|exact Hm].
  destruct d; cbn [dev_write_byte dev_mem res_rom_same]; try exact Hm.
  - rewrite ro_write_byte by exact Wm. exact Hm.
  - destruct (mem_write_byte _ _ _); cbn; try exact Hm; exact I.
  - destruct (mem_write_byte _ _ _); cbn; try exact Hm; exact I.
  - destruct (mem_write_byte _ _ _); cbn; try exact Hm; exact I.
Qed.
Lemma write_half_keeps_rom a v b : bus_wf b -> res_rom_same b (bus_write_half a v b).
Proof.
  intros W. unfold bus_write_half, with_dev. destruct (negb _); [reflexivity|].
  assert (Hm : rom (mark_dirty a b) = rom b) by (unfold mark_dirty; destruct (is_video_ram b a); reflexivity).
  assert (Wm : mro (rom (mark_dirty a b)) = true) by (rewrite Hm; apply W).
  destruct (get_device a) as [d|]; [|exact Hm].
  destruct d; cbn [dev_write_half dev_write_byte dev_mem res_rom_same]; try exact Hm.
  - rewrite ro_write_half by exact Wm. exact Hm.
  - destruct (mem_write_half _ _ _); cbn; try exact Hm; exact I.
  - destruct (mem_write_half _ _ _); cbn; try exact Hm; exact I.
  - destruct (mem_write_half _ _ _); cbn; try exact Hm; exact I.
Qed.
Lemma write_word_keeps_rom a v b : bus_wf b -> res_rom_same b (bus_write_word a v b).
Proof.
  intros W. unfold bus_write_word, with_dev. destruct (negb _); [reflexivity|].
  assert (Hm : rom (mark_dirty a b) = rom b) by (unfold mark_dirty; destruct (is_video_ram b a); reflexivity).
  assert (Wm : mro (rom (mark_dirty a b)) = true) by (rewrite Hm; apply W).
  destruct (get_device a) as [d|]; [|exact Hm].
  destruct d; cbn [dev_write_word dev_write_byte dev_mem res_rom_same]; try exact Hm.
  - rewrite ro_write_word by exact Wm. exact Hm.
  - destruct (mem_write_word _ _ _); cbn; try exact Hm; exact I.
  - destruct (mem_write_word _ _ _); cbn; try exact Hm; exact I.
  - destruct (mem_write_word _ _ _); cbn; try exact Hm; exact I.
Qed.

(* ---- ranges of routed addresses ---- *)
Lemma get_device_range a d : get_device a = Some d ->
  match d with
  | DRom => a < 131072 | DDuart => 2097152 <= a < 2097216 | DMouse => 4194304 <= a < 4194308
  | DVid => 5242880 <= a < 5242882 | DBbram => 6291456 <= a < 6299648 | DRam => 7340032 <= a < 8388608 end.
Proof.
  unfold get_device.
  destruct (a <? 131072) eqn:E0; [intros H; inversion H; subst; lia|].
  destruct ((2097152 <=? a) && (a <? 2097216)) eqn:E1; [intros H; inversion H; subst; lia|].
  destruct ((4194304 <=? a) && (a <? 4194308)) eqn:E2; [intros H; inversion H; subst; lia|].
  destruct ((5242880 <=? a) && (a <? 5242882)) eqn:E3; [intros H; inversion H; subst; lia|].
  destruct ((6291456 <=? a) && (a <? 6299648)) eqn:E4; [intros H; inversion H; subst; lia|].
  destruct ((7340032 <=? a) && (a <? 8388608)) eqn:E5; [intros H; inversion H; subst; lia|].
  discriminate.
Qed.

(* an access routed to device d leaves every other device as it was *)
Definition same_except (d : device) (b b' : bus) : Prop :=
  (d <> DRom -> rom b' = rom b) /\ (d <> DDuart -> duart_ b' = duart_ b)
  /\ (d <> DMouse -> mouse_ b' = mouse_ b) /\ (d <> DVid -> vid b' = vid b)
  /\ (d <> DBbram -> bbram b' = bbram b) /\ (d <> DRam -> ram b' = ram b).

Definition res_frame {A} (d : device) (b : bus) (r : res bus A) : Prop :=
  match r with Ok _ b' | Err _ b' => same_except d b b' | _ => True end.

Lemma same_except_refl d b : same_except d b b.
Proof. unfold same_except; tauto. Qed.

Lemma same_except_dirty d b v : same_except d b (with_dirty b v).
Proof. unfold same_except; cbn; tauto. Qed.

Ltac frame_solve :=
  unfold same_except; cbn; repeat split; intros; try reflexivity; try congruence.

Lemma dev_read_byte_frame d a b : res_frame d b (dev_read_byte d a b).
Proof.
  destruct d; cbn [dev_read_byte]; unfold lift_r, res_frame.
  all: try (destruct (mem_read_byte _ _); try apply same_except_refl; exact I).
  - destruct (duart_read_byte _ _) as [[v du]| |]; [frame_solve | apply same_except_refl | exact I].
  - apply same_except_refl.
Qed.

Lemma read_byte_frame a b d : get_device a = Some d -> res_frame d b (bus_read_byte a b).
Proof. intros H. unfold bus_read_byte, with_dev. rewrite H. apply dev_read_byte_frame. Qed.

Lemma read_half_frame a b d : get_device a = Some d -> res_frame d b (bus_read_half a b).
Proof.
  intros H. unfold bus_read_half, with_dev. destruct (negb _); [apply same_except_refl|]. rewrite H.
  destruct d; cbn [dev_read_half]; unfold lift_r, res_frame.
  all: try (destruct (mem_read_half _ _); try apply same_except_refl; exact I).
  - apply (dev_read_byte_frame DDuart).
  - destruct (mouse_read_half _ _); try apply same_except_refl; exact I.
Qed.

Lemma read_word_frame a b d : get_device a = Some d -> res_frame d b (bus_read_word a b).
Proof.
  intros H. unfold bus_read_word, with_dev. destruct (negb _); [apply same_except_refl|]. rewrite H.
  destruct d; cbn [dev_read_word]; unfold lift_r, res_frame.
  all: try (destruct (mem_read_word _ _); try apply same_except_refl; exact I).
  - apply (dev_read_byte_frame DDuart).
  - apply same_except_refl.
Qed.

Lemma dev_write_mem_frame d b b0 r :
  match d with DDuart | DMouse => False | _ => True end ->
  same_except d b b0 -> res_frame d b (dev_write_mem d b0 r).
Proof.
  intros Hd H. unfold dev_write_mem, res_frame. destruct r; try exact H; try exact I.
  unfold same_except in *. destruct d; try contradiction; cbn; repeat split; intros; try congruence; apply H; congruence.
Qed.

Lemma write_byte_frame a v b d : get_device a = Some d -> res_frame d b (bus_write_byte a v b).
Proof.
  intros H. unfold bus_write_byte, with_dev. rewrite H.
  assert (S : same_except d b (mark_dirty a b)).
  { unfold mark_dirty. destruct (is_video_ram b a); [apply same_except_dirty | apply same_except_refl]. }
  destruct d; cbn [dev_write_byte].
  all: try (apply dev_write_mem_frame; [exact I | exact S]).
  - unfold res_frame. unfold same_except in *. cbn. repeat split; intros; try congruence; apply S; congruence.
  - exact S.
Qed.

Lemma write_half_frame a v b d : get_device a = Some d -> res_frame d b (bus_write_half a v b).
Proof.
  intros H. unfold bus_write_half, with_dev. destruct (negb _); [apply same_except_refl|]. rewrite H.
  assert (S : same_except d b (mark_dirty a b)).
  { unfold mark_dirty. destruct (is_video_ram b a); [apply same_except_dirty | apply same_except_refl]. }
  destruct d; cbn [dev_write_half dev_write_byte].
  all: try (apply dev_write_mem_frame; [exact I | exact S]).
  - unfold res_frame. unfold same_except in *. cbn. repeat split; intros; try congruence; apply S; congruence.
  - exact S.
Qed.

Lemma write_word_frame a v b d : get_device a = Some d -> res_frame d b (bus_write_word a v b).
Proof.
  intros H. unfold bus_write_word, with_dev. destruct (negb _); [apply same_except_refl|]. rewrite H.
  assert (S : same_except d b (mark_dirty a b)).
  { unfold mark_dirty. destruct (is_video_ram b a); [apply same_except_dirty | apply same_except_refl]. }
  destruct d; cbn [dev_write_word dev_write_byte].
  all: try (apply dev_write_mem_frame; [exact I | exact S]).
  - unfold res_frame. unfold same_except in *. cbn. repeat split; intros; try congruence; apply S; congruence.
  - exact S.
Qed.

(* reads of the memories change nothing at all *)
Lemma mem_read_byte_pure a b d :
  get_device a = Some d -> d <> DDuart ->
  match bus_read_byte a b with Ok _ b' | Err _ b' => b' = b | _ => True end.
Proof.
  intros H N. unfold bus_read_byte, with_dev. rewrite H.
  destruct d; try congruence; cbn [dev_read_byte]; unfold lift_r;
    try (destruct (mem_read_byte _ _); auto); auto.
Qed.

(* ---- no access panics or runs out of fuel (no spill past a device) ---- *)
Definition not_crash {S A} (r : res S A) : Prop :=
  match r with Panic | OutOfFuel => False | _ => True end.

Lemma duart_read_byte_nopanic off d : duart_read_byte off d <> RPanic.
Proof.
  unfold duart_read_byte.
  repeat match goal with
         | |- context [if ?c then _ else _] => destruct c
         | |- context [let (_, _) := ?x in _] => destruct x
         end; discriminate.
Qed.

Ltac in_vec_true :=
  match goal with
  | |- context [in_vec ?m ?o] =>
    replace (in_vec m o) with true by (symmetry; apply in_vec_spec; lia)
  end.

Section NoCrash.
Variable b : bus.
Hypothesis W : bus_wf b.
Variable a : Z.
Hypothesis Ha : 0 <= a.

Ltac geom :=
  destruct W as [[? [? ?]] [? [? ?]] [? [? ?]] [? [? ?]]].

Lemma dev_read_byte_nocrash d x :
  0 <= x -> (match d with DDuart | DMouse => True | _ => mbase (dev_mem b d) <= x end) ->
  not_crash (dev_read_byte d x b).
Proof.
  intros Hx Hb. geom.
  destruct d; cbn [dev_read_byte dev_mem] in *; unfold lift_r, mem_read_byte, mend.
  all: try (destruct (x >=? _) eqn:E; [exact I|]; in_vec_true; exact I).
  - pose proof (duart_read_byte_nopanic (x - 2097152) (duart_ b)).
    destruct (duart_read_byte _ _) as [[? ?]| |]; [exact I|exact I|congruence].
  - exact I.
Qed.

Lemma bus_read_byte_nocrash : not_crash (bus_read_byte a b).
Proof.
  unfold bus_read_byte, with_dev. destruct (get_device a) as [d|] eqn:H; [|exact I].
  pose proof (get_device_range _ _ H) as Rg. apply dev_read_byte_nocrash; [exact Ha|].
  geom. destruct d; cbn [dev_mem]; try exact I; lia.
Qed.

Lemma bus_read_half_nocrash : not_crash (bus_read_half a b).
Proof.
  unfold bus_read_half, with_dev. destruct (negb _); [exact I|].
  destruct (get_device a) as [d|] eqn:H; [|exact I].
  pose proof (get_device_range _ _ H) as Rg. geom.
  destruct d; cbn [dev_read_half dev_mem]; unfold lift_r, mem_read_half, mend.
  all: try (destruct (a + 1 >=? _) eqn:E; [exact I|]; repeat in_vec_true; exact I).
  - apply dev_read_byte_nocrash; [lia | exact I].
  - unfold mouse_read_half. repeat (destruct (_ =? _)); exact I.
Qed.

Lemma bus_read_word_nocrash : not_crash (bus_read_word a b).
Proof.
  unfold bus_read_word, with_dev. destruct (negb _); [exact I|].
  destruct (get_device a) as [d|] eqn:H; [|exact I].
  pose proof (get_device_range _ _ H) as Rg. geom.
  destruct d; cbn [dev_read_word dev_mem]; unfold lift_r, mem_read_word, mend.
  all: try (destruct (a + 3 >=? _) eqn:E; [exact I|]; repeat in_vec_true; exact I).
  - apply dev_read_byte_nocrash; [lia | exact I].
  - exact I.
Qed.

Lemma bus_write_byte_nocrash v : not_crash (bus_write_byte a v b).
Proof.
  unfold bus_write_byte, with_dev. destruct (get_device a) as [d|] eqn:H; [|exact I].
  pose proof (get_device_range _ _ H) as Rg. geom.
  assert (Hm : forall d', dev_mem (mark_dirty a b) d' = dev_mem b d')
    by (intros; unfold mark_dirty; destruct (is_video_ram b a); destruct d'; reflexivity).
  destruct d; cbn [dev_write_byte]; unfold dev_write_mem; try rewrite Hm; cbn [dev_mem];
    unfold mem_write_byte, mend; try exact I.
  all: match goal with |- context [mro ?m] => replace (mro m) with true by congruence; exact I
                     | |- context [mro ?m] => replace (mro m) with false by congruence end.
  all: destruct (a >=? _) eqn:E; [exact I|]; in_vec_true; exact I.
Qed.

Lemma bus_write_half_nocrash v : not_crash (bus_write_half a v b).
Proof.
  unfold bus_write_half, with_dev. destruct (negb _); [exact I|].
  destruct (get_device a) as [d|] eqn:H; [|exact I].
  pose proof (get_device_range _ _ H) as Rg. geom.
  assert (Hm : forall d', dev_mem (mark_dirty a b) d' = dev_mem b d')
    by (intros; unfold mark_dirty; destruct (is_video_ram b a); destruct d'; reflexivity).
  destruct d; cbn [dev_write_half dev_write_byte]; unfold dev_write_mem; try rewrite Hm; cbn [dev_mem];
    unfold mem_write_half, mend; try exact I.
  all: match goal with |- context [mro ?m] => replace (mro m) with true by congruence; exact I
                     | |- context [mro ?m] => replace (mro m) with false by congruence end.
  all: destruct (a + 1 >=? _) eqn:E; [exact I|]; repeat in_vec_true; exact I.
Qed.

Lemma bus_write_word_nocrash v : not_crash (bus_write_word a v b).
Proof.
  unfold bus_write_word, with_dev. destruct (negb _); [exact I|].
  destruct (get_device a) as [d|] eqn:H; [|exact I].
  pose proof (get_device_range _ _ H) as Rg. geom.
  assert (Hm : forall d', dev_mem (mark_dirty a b) d' = dev_mem b d')
    by (intros; unfold mark_dirty; destruct (is_video_ram b a); destruct d'; reflexivity).
  destruct d; cbn [dev_write_word dev_write_byte]; unfold dev_write_mem; try rewrite Hm; cbn [dev_mem];
    unfold mem_write_word, mend; try exact I.
  all: match goal with |- context [mro ?m] => replace (mro m) with true by congruence; exact I
                     | |- context [mro ?m] => replace (mro m) with false by congruence end.
  all: destruct (a + 3 >=? _) eqn:E; [exact I|]; repeat in_vec_true; exact I.
Qed.

End NoCrash.

(* ---- the instruction stream is fetched from the same bytes data reads see ---- *)
Definition is_memdev (d : device) : bool :=
  match d with DDuart | DMouse => false | _ => true end.

Lemma fetch_half_sees_bytes a b d v b' :
  get_device a = Some d -> is_memdev d = true ->
  bus_read_op_half a b = Ok v b' ->
  b' = b /\ exists x0 x1, mem_read_byte (dev_mem b d) a = ROk x0
                          /\ mem_read_byte (dev_mem b d) (a + 1) = ROk x1 /\ v = x0 + x1 * 256.
Proof.
  intros H M. unfold bus_read_op_half, with_dev. rewrite H.
  destruct d; try discriminate; cbn [dev_read_byte bind]; unfold lift_r.
  all: destruct (mem_read_byte _ a) as [x0| |] eqn:E0; cbn [bind]; try discriminate.
  all: destruct (mem_read_byte _ (a + 1)) as [x1| |] eqn:E1; cbn [bind]; try discriminate.
  all: intros Q; inversion Q; subst; split; [reflexivity|]; exists x0, x1; auto.
Qed.

Lemma fetch_word_sees_bytes a b d v b' :
  get_device a = Some d -> is_memdev d = true ->
  bus_read_op_word a b = Ok v b' ->
  b' = b /\ exists x0 x1 x2 x3,
      mem_read_byte (dev_mem b d) a = ROk x0 /\ mem_read_byte (dev_mem b d) (a + 1) = ROk x1
      /\ mem_read_byte (dev_mem b d) (a + 2) = ROk x2 /\ mem_read_byte (dev_mem b d) (a + 3) = ROk x3
      /\ v = x0 + x1 * 256 + x2 * 65536 + x3 * 16777216.
Proof.
  intros H M. unfold bus_read_op_word, with_dev. rewrite H.
  destruct d; try discriminate; cbn [dev_read_byte bind]; unfold lift_r.
  all: destruct (mem_read_byte _ a) as [x0| |] eqn:E0; cbn [bind]; try discriminate.
  all: destruct (mem_read_byte _ (a + 1)) as [x1| |] eqn:E1; cbn [bind]; try discriminate.
  all: destruct (mem_read_byte _ (a + 2)) as [x2| |] eqn:E2; cbn [bind]; try discriminate.
  all: destruct (mem_read_byte _ (a + 3)) as [x3| |] eqn:E3; cbn [bind]; try discriminate.
  all: intros Q; inversion Q; subst; split; [reflexivity|]; exists x0, x1, x2, x3; auto 10.
Qed.

(* data reads of memory devices go to the same memory *)
Lemma data_read_byte_mem a b d :
  get_device a = Some d -> is_memdev d = true ->
  bus_read_byte a b = lift_r b (mem_read_byte (dev_mem b d) a).
Proof. intros H M. unfold bus_read_byte, with_dev. rewrite H. destruct d; try discriminate; reflexivity. Qed.
Lemma data_read_half_mem a b d :
  get_device a = Some d -> is_memdev d = true -> Z.land a 1 = 0 ->
  bus_read_half a b = lift_r b (mem_read_half (dev_mem b d) a).
Proof.
  intros H M A. unfold bus_read_half, with_dev. rewrite A, H. cbn [Z.eqb negb].
  destruct d; try discriminate; reflexivity.
Qed.
Lemma data_read_word_mem a b d :
  get_device a = Some d -> is_memdev d = true -> Z.land a 3 = 0 ->
  bus_read_word a b = lift_r b (mem_read_word (dev_mem b d) a).
Proof.
  intros H M A. unfold bus_read_word, with_dev. rewrite A, H. cbn [Z.eqb negb].
  destruct d; try discriminate; reflexivity.
Qed.
