(* The DUART behind the bus: every guest data access (byte / halfword / word, read / write, any address, any value)
   acts on the DUART as the device operations `bacc_dops` names -- one register read or write when the access is
   aligned and decodes to the DUART's 64 bytes (a halfword at a is the register at a+2, a word the register at a+3),
   and nothing otherwise.  With DeviceRefine.v this carries the per-channel history theorems from port operations to
   guest addresses. *)
From Coq Require Import ZArith Lia Bool List.
From Dmd Require Import Model.Bits Model.Fifo Model.Mem Model.Mouse Model.Duart Model.Bus.
From Dmd Require Import Proofs.BitsLemmas Proofs.PortProofs Proofs.DuartProofs Proofs.BusProofs Proofs.DeviceRefine.
Import ListNotations.
Open Scope Z_scope.

Inductive bacc :=
| ARb (a : Z) | ARh (a : Z) | ARw (a : Z) | AWb (a v : Z) | AWh (a v : Z) | AWw (a v : Z).

Definition st_of {A} (b : bus) (r : res bus A) : bus :=
  match r with Ok _ s | Err _ s => s | _ => b end.

Definition bus_do (x : bacc) (b : bus) : bus :=
  match x with
  | ARb a => st_of b (bus_read_byte a b)
  | ARh a => st_of b (bus_read_half a b)
  | ARw a => st_of b (bus_read_word a b)
  | AWb a v => st_of b (bus_write_byte a v b)
  | AWh a v => st_of b (bus_write_half a v b)
  | AWw a v => st_of b (bus_write_word a v b)
  end.

Definition DUART_BASE := 2097152.    (* 0x200000 *)
Definition in_duart (a : Z) : bool := (DUART_BASE <=? a) && (a <? DUART_BASE + 64).

Definition bacc_dops (x : bacc) : list dop :=
  match x with
  | ARb a => if in_duart a then [DRead (a - DUART_BASE)] else []
  | ARh a => if in_duart a && (Z.land a 1 =? 0) then [DRead (a + 2 - DUART_BASE)] else []
  | ARw a => if in_duart a && (Z.land a 3 =? 0) then [DRead (a + 3 - DUART_BASE)] else []
  | AWb a v => if in_duart a then [DWrite (a - DUART_BASE) (w8 v)] else []
  | AWh a v => if in_duart a && (Z.land a 1 =? 0) then [DWrite (a + 2 - DUART_BASE) (w8 (w16 v))] else []
  | AWw a v => if in_duart a && (Z.land a 3 =? 0) then [DWrite (a + 3 - DUART_BASE) (w8 (w32 v))] else []
  end.

Lemma get_device_duart a : in_duart a = true -> get_device a = Some DDuart.
Proof.
  unfold in_duart, DUART_BASE, get_device. intros H. apply andb_true_iff in H as [H1 H2].
  apply Z.leb_le in H1. apply Z.ltb_lt in H2.
  destruct (Z.ltb_spec a 131072); [lia|].
  destruct (Z.leb_spec 2097152 a); [|lia]. destruct (Z.ltb_spec a 2097216); [|lia]. reflexivity.
Qed.

Lemma get_device_not_duart a : in_duart a = false -> get_device a <> Some DDuart.
Proof.
  unfold in_duart, DUART_BASE. intros H G. apply get_device_range in G.
  apply andb_false_iff in H as [H|H]; [apply Z.leb_gt in H | apply Z.ltb_ge in H]; cbn in G; lia.
Qed.

Lemma frame_duart {A} d b (r : res bus A) : d <> DDuart -> res_frame d b r -> duart_ (st_of b r) = duart_ b.
Proof. intros N F. destruct r; cbn in *; try reflexivity; destruct F as (_ & F & _); auto. Qed.

Lemma mark_dirty_duart a b : duart_ (mark_dirty a b) = duart_ b.
Proof. unfold mark_dirty. destruct (is_video_ram b a); reflexivity. Qed.

Lemma dev_read_byte_duart a b :
  duart_ (st_of b (dev_read_byte DDuart a b)) = dstep (DRead (a - DUART_BASE)) (duart_ b).
Proof.
  cbn [dev_read_byte dstep]. unfold DUART_BASE.
  destruct (duart_read_byte (a - 2097152) (duart_ b)) as [[v du]| |]; reflexivity.
Qed.

Lemma st_of_other {A} a b (r : res bus A) :
  in_duart a = false -> (forall d, get_device a = Some d -> res_frame d b r) ->
  (get_device a = None -> st_of b r = b) -> duart_ (st_of b r) = duart_ b.
Proof.
  intros N F Z0. destruct (get_device a) as [d|] eqn:G.
  - apply (frame_duart d); [intros ->; exact (get_device_not_duart a N G) | exact (F d eq_refl)].
  - now rewrite Z0.
Qed.

(* every data access = the device operations the address decode names, on the DUART; nothing else touches it *)
Theorem bus_do_duart x b : duart_ (bus_do x b) = drun (bacc_dops x) (duart_ b).
Proof.
  destruct x; cbn [bus_do bacc_dops].
  - destruct (in_duart a) eqn:D; cbn [drun].
    + unfold bus_read_byte, with_dev. rewrite (get_device_duart a D). apply dev_read_byte_duart.
    + apply (st_of_other a); [exact D | intros d G; apply read_byte_frame; exact G|].
      intros G. now rewrite nodev_read_byte.
  - destruct (Z.land a 1 =? 0) eqn:Al.
    2:{ rewrite andb_false_r. cbn [drun]. rewrite unaligned_read_half by (apply Z.eqb_neq; exact Al). reflexivity. }
    rewrite andb_true_r. destruct (in_duart a) eqn:D; cbn [drun].
    + unfold bus_read_half, with_dev. rewrite Al. cbn [negb]. rewrite (get_device_duart a D).
      cbn [dev_read_half]. rewrite dev_read_byte_duart. reflexivity.
    + apply (st_of_other a); [exact D | intros d G; apply read_half_frame; exact G|].
      intros G. destruct (nodev_read_half a b G) as [-> | ->]; reflexivity.
  - destruct (Z.land a 3 =? 0) eqn:Al.
    2:{ rewrite andb_false_r. cbn [drun]. rewrite unaligned_read_word by (apply Z.eqb_neq; exact Al). reflexivity. }
    rewrite andb_true_r. destruct (in_duart a) eqn:D; cbn [drun].
    + unfold bus_read_word, with_dev. rewrite Al. cbn [negb]. rewrite (get_device_duart a D).
      cbn [dev_read_word]. rewrite dev_read_byte_duart. reflexivity.
    + apply (st_of_other a); [exact D | intros d G; apply read_word_frame; exact G|].
      intros G. destruct (nodev_read_word a b G) as [-> | ->]; reflexivity.
  - destruct (in_duart a) eqn:D; cbn [drun].
    + unfold bus_write_byte, with_dev. cbv zeta. rewrite (get_device_duart a D).
      cbn [dev_write_byte st_of duart_ with_duart dstep]. rewrite mark_dirty_duart. reflexivity.
    + apply (st_of_other a); [exact D | intros d G; apply write_byte_frame; exact G|].
      intros G. now rewrite nodev_write_byte.
  - destruct (Z.land a 1 =? 0) eqn:Al.
    2:{ rewrite andb_false_r. cbn [drun]. rewrite unaligned_write_half by (apply Z.eqb_neq; exact Al). reflexivity. }
    rewrite andb_true_r. destruct (in_duart a) eqn:D; cbn [drun].
    + unfold bus_write_half, with_dev. rewrite Al. cbn [negb]. cbv zeta. rewrite (get_device_duart a D).
      cbn [dev_write_half dev_write_byte st_of duart_ with_duart dstep]. rewrite mark_dirty_duart. reflexivity.
    + apply (st_of_other a); [exact D | intros d G; apply write_half_frame; exact G|].
      intros G. destruct (nodev_write_half a v b G) as [-> | ->]; reflexivity.
  - destruct (Z.land a 3 =? 0) eqn:Al.
    2:{ rewrite andb_false_r. cbn [drun]. rewrite unaligned_write_word by (apply Z.eqb_neq; exact Al). reflexivity. }
    rewrite andb_true_r. destruct (in_duart a) eqn:D; cbn [drun].
    + unfold bus_write_word, with_dev. rewrite Al. cbn [negb]. cbv zeta. rewrite (get_device_duart a D).
      cbn [dev_write_word dev_write_byte st_of duart_ with_duart dstep]. rewrite mark_dirty_duart. reflexivity.
    + apply (st_of_other a); [exact D | intros d G; apply write_word_frame; exact G|].
      intros G. destruct (nodev_write_word a v b G) as [-> | ->]; reflexivity.
Qed.

(* the value a guest byte read of a DUART register returns is the device read's value *)
Lemma bus_read_byte_duart_value a b :
  in_duart a = true ->
  bus_read_byte a b = match duart_read_byte (a - DUART_BASE) (duart_ b) with
                      | ROk (v, du) => Ok (w8 v) (with_duart b du)
                      | RErr e => Err (EBus e) b
                      | RPanic => Panic end.
Proof. intros D. unfold bus_read_byte, with_dev. rewrite (get_device_duart a D). reflexivity. Qed.

(* histories: guest accesses interleaved with the host-side and time-driven device operations *)
Inductive sysop := SGuest (x : bacc) | SDev (o : dop).

Definition sys_step (s : sysop) (b : bus) : bus :=
  match s with SGuest x => bus_do x b | SDev o => with_duart b (dstep o (duart_ b)) end.
Definition sys_dops (s : sysop) : list dop :=
  match s with SGuest x => bacc_dops x | SDev o => [o] end.

Lemma drun_app l1 l2 d : drun (l1 ++ l2) d = drun l2 (drun l1 d).
Proof. revert d. induction l1 as [|o t IH]; intros d; cbn; [reflexivity | apply IH]. Qed.

Theorem sys_run_duart ops b :
  duart_ (fold_left (fun s o => sys_step o s) ops b) = drun (flat_map sys_dops ops) (duart_ b).
Proof.
  revert b. induction ops as [|s t IH]; intros b; cbn [fold_left flat_map]; [reflexivity|].
  rewrite IH, drun_app. f_equal. destruct s; cbn [sys_step sys_dops]; [apply bus_do_duart | reflexivity].
Qed.

(* C08 for guest addresses: over every interleaving of guest bus accesses (any width, address, value) with host
   enqueues / polls, service calls, interrupt polls and mouse events, the bytes read at a channel's receive register
   while its status showed ready are an in-order subsequence of the bytes the host queued for it *)
Theorem guest_rx_delivered_subseq chan ops now :
  forallb (dev_no_lb chan) (flat_map sys_dops ops) = true ->
  let '(d', E', D') := drx_run chan (flat_map sys_dops ops) (duart_ (bus_new now)) [] [] in
  subseq D' E' /\ d' = duart_ (fold_left (fun s o => sys_step o s) ops (bus_new now)).
Proof.
  intros Ok. pose proof (device_rx_delivered_subseq chan (flat_map sys_dops ops) now Ok) as H.
  change (duart_ (bus_new now)) with (duart_new now).
  assert (Hd : forall l d E D, fst (fst (drx_run chan l d E D)) = drun l d).
  { induction l as [|o t IH]; intros d E D; cbn [drx_run drun]; [reflexivity | apply IH]. }
  specialize (Hd (flat_map sys_dops ops) (duart_new now) [] []).
  destruct (drx_run chan (flat_map sys_dops ops) (duart_new now) [] []) as [[d' E'] D'].
  split; [exact H|]. cbn in Hd. rewrite Hd, sys_run_duart. reflexivity.
Qed.

(* C09 for guest addresses: over every such interleaving in which the writes to a channel's transmit register are
   made while its status shows TxRDY (and the channel's transmitter is not reset nor put in loop-back): what the
   host's polls returned ++ what is still in the channel's pipeline = what the guest wrote, exactly and in order *)
Theorem guest_tx_exactly_once chan ops now :
  match dtx_run chan (flat_map sys_dops ops) (duart_ (bus_new now)) [] [] with
  | Some (d', W', Q') =>
    Q' ++ tx_pipe (port_of chan d') = W' /\ d' = duart_ (fold_left (fun s o => sys_step o s) ops (bus_new now))
  | None => True
  end.
Proof.
  change (duart_ (bus_new now)) with (duart_new now).
  pose proof (device_tx_exactly_once_in_order chan (flat_map sys_dops ops) (duart_new now) [] [] (dinv_new now)) as H.
  assert (Hd : forall l d W Q d' W' Q', dtx_run chan l d W Q = Some (d', W', Q') -> d' = drun l d).
  { induction l as [|o t IH]; intros d W Q d' W' Q'; cbn [dtx_run drun].
    - intros E; inversion E; reflexivity.
    - destruct (dev_tx_ok chan d o); [apply IH | discriminate]. }
  destruct (dtx_run chan (flat_map sys_dops ops) (duart_new now) [] []) as [[[d' W'] Q']|] eqn:E; [|exact I].
  split.
  - apply H; destruct chan; reflexivity.
  - rewrite (Hd _ _ _ _ _ _ _ E), sys_run_duart. reflexivity.
Qed.
