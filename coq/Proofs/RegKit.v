(* Register file and machine-state lemmas: get/set, projections through setR / with_bus. *)
From Coq Require Import ZArith Lia Bool List.
From Dmd Require Import Model.Bits Model.Types Model.Mem Model.Bus Model.Cpu.
Open Scope Z_scope.

Lemma rget_rset_same r i v : rget (rset r i v) i = v.
Proof.
  unfold rget, rset.
  repeat (destruct (i =? _); [reflexivity|]). reflexivity.
Qed.

Ltac enum16 i H :=
  assert (i = 0 \/ i = 1 \/ i = 2 \/ i = 3 \/ i = 4 \/ i = 5 \/ i = 6 \/ i = 7 \/ i = 8 \/ i = 9 \/ i = 10
          \/ i = 11 \/ i = 12 \/ i = 13 \/ i = 14 \/ i = 15) as H by lia.

Lemma rget_rset_other r i j v : 0 <= i <= 15 -> 0 <= j <= 15 -> i <> j -> rget (rset r i v) j = rget r j.
Proof.
  intros Hi Hj N. enum16 i Ei. enum16 j Ej.
  repeat (destruct Ei as [Ei|Ei]); subst i;
    repeat (destruct Ej as [Ej|Ej]); subst j; try reflexivity; try (exfalso; apply N; reflexivity).
Qed.

Lemma R_setR_same m i v : R (setR m i v) i = v.
Proof. unfold R, setR, with_regs; cbn [mregs]. apply rget_rset_same. Qed.

Lemma R_setR_other m i j v : 0 <= i <= 15 -> 0 <= j <= 15 -> i <> j -> R (setR m i v) j = R m j.
Proof. intros. unfold R, setR, with_regs; cbn [mregs]. now apply rget_rset_other. Qed.

Lemma mbus_setR m i v : mbus (setR m i v) = mbus m.
Proof. reflexivity. Qed.
Lemma mbus_setPSW m v : mbus (setPSW m v) = mbus m.
Proof. reflexivity. Qed.
Lemma mbus_with_bus m b : mbus (with_bus m b) = b.
Proof. reflexivity. Qed.
Lemma mregs_with_bus m b : mregs (with_bus m b) = mregs m.
Proof. reflexivity. Qed.
Lemma R_with_bus m b i : R (with_bus m b) i = R m i.
Proof. reflexivity. Qed.
Lemma mbus_setf mask v m : mbus (setf mask v m) = mbus m.
Proof. reflexivity. Qed.
Lemma R_setf_other mask v m j : 0 <= j <= 15 -> j <> 11 -> R (setf mask v m) j = R m j.
Proof. intros. unfold setf, setPSW. apply R_setR_other; unfold R_PSW; lia. Qed.

(* a bus operation lifted to the machine leaves the registers alone *)
Lemma liftb_regs {A} (f : bus -> res bus A) m :
  match liftb f m with
  | Ok _ m' | Err _ m' => mregs m' = mregs m
  | _ => True
  end.
Proof. unfold liftb. destruct (f (mbus m)); cbn; auto. Qed.

Lemma liftb_ok {A} (f : bus -> res bus A) m a m' :
  liftb f m = Ok a m' -> f (mbus m) = Ok a (mbus m') /\ mregs m' = mregs m.
Proof.
  unfold liftb. destruct (f (mbus m)) eqn:E; intros H; inversion H; subst; cbn; auto.
Qed.
Lemma liftb_err {A} (f : bus -> res bus A) m e m' :
  liftb f m = Err e m' -> f (mbus m) = Err e (mbus m') /\ mregs m' = mregs m.
Proof.
  unfold liftb. destruct (f (mbus m)) eqn:E; intros H; inversion H; subst; cbn; auto.
Qed.

Lemma R_of_regs m m' i : mregs m' = mregs m -> R m' i = R m i.
Proof. unfold R. now intros ->. Qed.

Lemma rset_rset_same r i a b : rset (rset r i a) i b = rset r i b.
Proof.
  unfold rset. repeat (destruct (i =? _); [reflexivity|]). reflexivity.
Qed.
Lemma setR_setR_same m i a b : setR (setR m i a) i b = setR m i b.
Proof. unfold setR, with_regs. cbn [mregs mbus]. now rewrite rset_rset_same. Qed.
