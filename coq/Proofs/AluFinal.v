(* Final machine state of the data-processing arms (C02): destination value and all four condition codes, for
   register destinations and side-effect-free operand reads. *)
From Coq Require Import ZArith Lia Bool List ZifyBool.
From Dmd Require Import Model.Bits Model.Types Model.Mem Model.Bus Model.Decode Model.Cpu.
From Dmd Require Import Gen.GenOpcodes Gen.GenDispatch.
From Dmd Require Import Proofs.BitsLemmas Proofs.BitKit Proofs.AluProofs Proofs.RegKit Proofs.EquivProofs.
Open Scope Z_scope.

(* ---- reading a condition code back after the flag updates ---- *)
Lemma flag_setf_same k v m : 0 <= k < 32 -> flag (2 ^ k) (setf (2 ^ k) v m) = v.
Proof.
  intros Hk. unfold flag, setf, setPSW, PSW. rewrite R_setR_same. rewrite bset_testbit by lia.
  destruct v.
  - rewrite Z.lor_spec, Z.pow2_bits_true by lia. apply orb_true_r.
  - unfold clr32. rewrite Z.land_spec.
    assert (T : Z.testbit (not32 (2 ^ k)) k = false).
    { rewrite not32_testbit; [rewrite Z.pow2_bits_true by lia; reflexivity | | lia].
      split; [apply Z.pow_nonneg; lia|]. apply Z.pow_lt_mono_r with (c := 32); lia. }
    rewrite T. apply andb_false_r.
Qed.

Lemma flag_setf_other k j v m : 0 <= k < 32 -> 0 <= j < 32 -> k <> j -> flag (2 ^ j) (setf (2 ^ k) v m) = flag (2 ^ j) m.
Proof.
  intros Hk Hj N. unfold flag, setf, setPSW, PSW. rewrite R_setR_same. rewrite !bset_testbit by lia.
  destruct v.
  - rewrite Z.lor_spec, Z.pow2_bits_false by lia. apply orb_false_r.
  - unfold clr32. rewrite Z.land_spec.
    assert (T : Z.testbit (not32 (2 ^ k)) j = true).
    { rewrite not32_testbit; [rewrite Z.pow2_bits_false by lia; reflexivity | | lia].
      split; [apply Z.pow_nonneg; lia|]. apply Z.pow_lt_mono_r with (c := 32); lia. }
    rewrite T. apply andb_true_r.
Qed.

Lemma bset_31 x : bset x 2147483648 = Z.testbit x 31.
Proof. exact (bset_pow2 x 31 ltac:(lia)). Qed.

Definition FN := 2 ^ 21. Definition FZ := 2 ^ 20. Definition FV := 2 ^ 19. Definition FC := 2 ^ 18.
Lemma F_masks : F_N = 2 ^ 21 /\ F_Z = 2 ^ 20 /\ F_V = 2 ^ 19 /\ F_C = 2 ^ 18.
Proof. repeat split. Qed.

Ltac flags :=
  unfold set_n, set_z, set_v, set_c, F_N, F_Z, F_V, F_C;
  change 2097152 with (2 ^ 21); change 1048576 with (2 ^ 20); change 524288 with (2 ^ 19); change 262144 with (2 ^ 18);
  repeat first [rewrite flag_setf_same by lia | rewrite flag_setf_other by lia].

(* the condition codes after  set_v v (set_c c (set_z z (set_n n m))) *)
Lemma nzvc_after n z v c m :
  let m' := set_v v (set_c c (set_z z (set_n n m))) in
  flag F_N m' = n /\ flag F_Z m' = z /\ flag F_V m' = v /\ flag F_C m' = c.
Proof. cbv zeta. repeat split; flags; reflexivity. Qed.

Lemma R_flags_other n z v c m i : 0 <= i <= 15 -> i <> 11 ->
  R (set_v v (set_c c (set_z z (set_n n m)))) i = R m i.
Proof. intros. unfold set_v, set_c, set_z, set_n. rewrite !R_setf_other by lia. reflexivity. Qed.

(* ---- the architected result and condition codes of a word-size two-source operation ---- *)
Record word_outcome (m m' : mach) (r res : Z) (n z v c : bool) : Prop := {
  wo_dest : R m' r = res;
  wo_n : flag F_N m' = n; wo_z : flag F_Z m' = z; wo_v : flag F_V m' = v; wo_c : flag F_C m' = c;
  wo_regs : forall i, 0 <= i <= 15 -> i <> r -> i <> 11 -> R m' i = R m i;
  wo_bus : mbus m' = mbus m }.

Section Final.
Variable ir : instr.

Lemma write_reg dst r v m : omode (get_op ir dst) = MRegister -> oreg (get_op ir dst) = Some r ->
  write_op ir dst v m = Ok tt (setR m r v).
Proof. intros Hm Hr. unfold write_op. cbv zeta. now rewrite Hm, Hr. Qed.

(* AND / OR / XOR / MUL / ALS (alu_std): result f a b in the destination register, N = bit 31, Z = (result = 0),
   C = 0, V = 0 *)
Lemma alu_std_word_final f dst r m a b :
  read_op ir 0 m = Ok a m -> read_op ir 1 m = Ok b m ->
  omode (get_op ir dst) = MRegister -> oreg (get_op ir dst) = Some r -> 0 <= r <= 10 ->
  otype (get_op ir dst) = DWord ->
  exists m', alu_std ir f dst m = Ok (ilen ir) m'
    /\ word_outcome m m' r (f a b) (Z.testbit (f a b) 31) (f a b =? 0) false false.
Proof.
  intros R0 R1 Hm Hr Hr10 Ht. unfold alu_std. rewrite R0. cbn [bind]. rewrite R1. cbn [bind].
  rewrite (write_reg dst r _ m Hm Hr). cbn [bind]. eexists. split; [reflexivity|].
  unfold set_nz_flags, set_v_flag_op. rewrite Ht.
  rewrite bset_31.
  set (res := f a b).
  destruct (nzvc_after (Z.testbit res 31) (res =? 0) false false (setR m r res)) as [A [B [C D]]].
  constructor; auto.
  - rewrite R_flags_other by lia. apply R_setR_same.
  - intros i Hi N1 N2. rewrite R_flags_other by lia. apply R_setR_other; lia.
Qed.

(* ADD (2- and 3-operand, INC): result (a + b) mod 2^32, N, Z from it, C = unsigned carry out, V = signed overflow *)
Lemma add_op_word_final a b dst r m :
  omode (get_op ir dst) = MRegister -> oreg (get_op ir dst) = Some r -> 0 <= r <= 10 ->
  otype (get_op ir dst) = DWord -> oetype (get_op ir dst) = None ->
  0 <= a < 4294967296 -> 0 <= b < 4294967296 ->
  exists m', add_op ir a b dst m = Ok tt m'
    /\ word_outcome m m' r ((a + b) mod 2 ^ 32) (Z.testbit ((a + b) mod 2 ^ 32) 31) ((a + b) mod 2 ^ 32 =? 0)
         (negb ((-2147483648 <=? s32 a + s32 b) && (s32 a + s32 b <? 2147483648)))
         (2 ^ 32 <=? a + b).
Proof.
  intros Hm Hr Hr10 Ht He Ha Hb. unfold add_op. cbv zeta.
  rewrite (write_reg dst r _ m Hm Hr). cbn [bind].
  unfold data_type. rewrite He, Ht. eexists. split; [reflexivity|].
  unfold set_nz_flags. rewrite Ht.
  rewrite add_overflow_word by assumption.
  rewrite bset_31.
  change (w32 (a + b)) with ((a + b) mod 2 ^ 32).
  set (res := (a + b) mod 2 ^ 32).
  replace (a + b >? 4294967295) with (2 ^ 32 <=? a + b) by lia.
  destruct (nzvc_after (Z.testbit res 31) (res =? 0)
              (negb ((-2147483648 <=? s32 a + s32 b) && (s32 a + s32 b <? 2147483648))) (2 ^ 32 <=? a + b) (setR m r res)) as [A [B [C D]]].
  constructor; auto.
  - rewrite R_flags_other by lia. apply R_setR_same.
  - intros i Hi N1 N2. rewrite R_flags_other by lia. apply R_setR_other; lia.
Qed.

(* SUB / DEC / (CMP uses its own arm): result (a - b) mod 2^32, C = unsigned borrow *)
Lemma sub_op_word_final a b dst r m :
  omode (get_op ir dst) = MRegister -> oreg (get_op ir dst) = Some r -> 0 <= r <= 10 ->
  otype (get_op ir dst) = DWord ->
  exists m', sub_op ir a b dst m = Ok tt m'
    /\ R m' r = (a - b) mod 2 ^ 32
    /\ flag F_N m' = Z.testbit ((a - b) mod 2 ^ 32) 31 /\ flag F_Z m' = ((a - b) mod 2 ^ 32 =? 0)
    /\ flag F_C m' = (a <? b) /\ flag F_V m' = false
    /\ (forall i, 0 <= i <= 15 -> i <> r -> i <> 11 -> R m' i = R m i) /\ mbus m' = mbus m.
Proof.
  intros Hm Hr Hr10 Ht. unfold sub_op. cbv zeta.
  rewrite (write_reg dst r _ m Hm Hr). cbn [bind]. eexists. split; [reflexivity|].
  unfold set_nz_flags, set_v_flag_op. rewrite Ht.
  rewrite bset_31.
  change (w32 (a - b)) with ((a - b) mod 2 ^ 32). set (res := (a - b) mod 2 ^ 32).
  replace (b >? a) with (a <? b) by lia.
  split; [unfold set_v, set_c, set_z, set_n; rewrite !R_setf_other by lia; apply R_setR_same|].
  split; [flags; reflexivity|]. split; [flags; reflexivity|]. split; [flags; reflexivity|]. split; [flags; reflexivity|].
  split; [|reflexivity].
  intros i Hi N1 N2. unfold set_v, set_c, set_z, set_n. rewrite !R_setf_other by lia. apply R_setR_other; lia.
Qed.
End Final.

(* ---- whole-instruction statements: register-to-register word forms ---- *)
Definition reg_word (ir : instr) (k r : Z) : Prop :=
  omode (get_op ir k) = MRegister /\ oreg (get_op ir k) = Some r
  /\ otype (get_op ir k) = DWord /\ oetype (get_op ir k) = None.

Lemma read_reg_word ir k r m : reg_word ir k r -> read_op ir k m = Ok (R m r) m.
Proof.
  intros [Hm [Hr [Ht He]]]. unfold read_op. cbv zeta. rewrite Hm, Hr. unfold data_type. now rewrite He, Ht.
Qed.

Definition word (v : Z) : Prop := 0 <= v < 4294967296.

(* ADDW2 %rs,%rd  and  ADDW3 %rs,%rt,%rd *)
Theorem addw2_final ir m rs rd : iopcode ir = 156 -> reg_word ir 0 rs -> reg_word ir 1 rd -> 0 <= rd <= 10 ->
  word (R m rs) -> word (R m rd) ->
  let a := R m rs in let b := R m rd in
  exists m', exec ir m = Ok (ilen ir) m'
    /\ word_outcome m m' rd ((a + b) mod 2 ^ 32) (Z.testbit ((a + b) mod 2 ^ 32) 31) ((a + b) mod 2 ^ 32 =? 0)
         (negb ((-2147483648 <=? s32 a + s32 b) && (s32 a + s32 b <? 2147483648))) (2 ^ 32 <=? a + b).
Proof.
  intros Ho S D Hd Wa Wb a b. subst a b. rewrite exec_add2 by tauto.
  rewrite (read_reg_word ir 0 rs m S). cbn [bind]. rewrite (read_reg_word ir 1 rd m D). cbn [bind].
  destruct D as [Dm [Dr [Dt De]]].
  destruct (add_op_word_final ir (R m rs) (R m rd) 1 rd m Dm Dr Hd Dt De Wa Wb) as [m' [E O]].
  exists m'. rewrite E. cbn [bind]. auto.
Qed.

Theorem addw3_final ir m rs rt rd : iopcode ir = 220 -> reg_word ir 0 rs -> reg_word ir 1 rt -> reg_word ir 2 rd ->
  0 <= rd <= 10 -> word (R m rs) -> word (R m rt) ->
  let a := R m rs in let b := R m rt in
  exists m', exec ir m = Ok (ilen ir) m'
    /\ word_outcome m m' rd ((a + b) mod 2 ^ 32) (Z.testbit ((a + b) mod 2 ^ 32) 31) ((a + b) mod 2 ^ 32 =? 0)
         (negb ((-2147483648 <=? s32 a + s32 b) && (s32 a + s32 b <? 2147483648))) (2 ^ 32 <=? a + b).
Proof.
  intros Ho S T D Hd Wa Wb a b. subst a b. rewrite exec_add3 by tauto.
  rewrite (read_reg_word ir 0 rs m S). cbn [bind]. rewrite (read_reg_word ir 1 rt m T). cbn [bind].
  destruct D as [Dm [Dr [Dt De]]].
  destruct (add_op_word_final ir (R m rs) (R m rt) 2 rd m Dm Dr Hd Dt De Wa Wb) as [m' [E O]].
  exists m'. rewrite E. cbn [bind]. auto.
Qed.

(* SUBW2 %rs,%rd : rd <- rd - rs ;  SUBW3 %rs,%rt,%rd : rd <- rt - rs *)
Theorem subw2_final ir m rs rd : iopcode ir = 188 -> reg_word ir 0 rs -> reg_word ir 1 rd -> 0 <= rd <= 10 ->
  let a := R m rd in let b := R m rs in
  exists m', exec ir m = Ok (ilen ir) m'
    /\ R m' rd = (a - b) mod 2 ^ 32
    /\ flag F_N m' = Z.testbit ((a - b) mod 2 ^ 32) 31 /\ flag F_Z m' = ((a - b) mod 2 ^ 32 =? 0)
    /\ flag F_C m' = (a <? b) /\ flag F_V m' = false
    /\ (forall i, 0 <= i <= 15 -> i <> rd -> i <> 11 -> R m' i = R m i) /\ mbus m' = mbus m.
Proof.
  intros Ho S D Hd a b. subst a b. rewrite exec_sub2 by tauto.
  rewrite (read_reg_word ir 1 rd m D). cbn [bind]. rewrite (read_reg_word ir 0 rs m S). cbn [bind].
  destruct D as [Dm [Dr [Dt De]]].
  destruct (sub_op_word_final ir (R m rd) (R m rs) 1 rd m Dm Dr Hd Dt) as [m' [E O]].
  exists m'. rewrite E. cbn [bind]. auto.
Qed.

Theorem subw3_final ir m rs rt rd : iopcode ir = 252 -> reg_word ir 0 rs -> reg_word ir 1 rt -> reg_word ir 2 rd ->
  0 <= rd <= 10 ->
  let a := R m rt in let b := R m rs in
  exists m', exec ir m = Ok (ilen ir) m'
    /\ R m' rd = (a - b) mod 2 ^ 32
    /\ flag F_N m' = Z.testbit ((a - b) mod 2 ^ 32) 31 /\ flag F_Z m' = ((a - b) mod 2 ^ 32 =? 0)
    /\ flag F_C m' = (a <? b) /\ flag F_V m' = false
    /\ (forall i, 0 <= i <= 15 -> i <> rd -> i <> 11 -> R m' i = R m i) /\ mbus m' = mbus m.
Proof.
  intros Ho S T D Hd a b. subst a b. rewrite exec_sub3 by tauto.
  rewrite (read_reg_word ir 1 rt m T). cbn [bind]. rewrite (read_reg_word ir 0 rs m S). cbn [bind].
  destruct D as [Dm [Dr [Dt De]]].
  destruct (sub_op_word_final ir (R m rt) (R m rs) 2 rd m Dm Dr Hd Dt) as [m' [E O]].
  exists m'. rewrite E. cbn [bind]. auto.
Qed.

(* the logical and multiply word forms, two- and three-operand: result f a b, N = bit 31, Z, C = V = 0 *)
Definition std_word_arm (opc : Z) : option ((Z -> Z -> Z) * Z) :=
  if opc =? 184 then Some (Z.land, 1) else if opc =? 248 then Some (Z.land, 2)
  else if opc =? 176 then Some (Z.lor, 1) else if opc =? 240 then Some (Z.lor, 2)
  else if opc =? 180 then Some (Z.lxor, 1) else if opc =? 244 then Some (Z.lxor, 2)
  else if opc =? 168 then Some ((fun a b => w32 (a * b)), 1) else if opc =? 232 then Some ((fun a b => w32 (a * b)), 2)
  else None.

Lemma std_word_arm_exec ir m f dst : std_word_arm (iopcode ir) = Some (f, dst) -> exec ir m = alu_std ir f dst m.
Proof.
  unfold std_word_arm. intros H.
  repeat match type of H with
  | (if ?c then _ else _) = _ => destruct c eqn:?
  end; try discriminate; injection H as <- <-.
  - apply exec_and2; lia. - apply exec_and3; lia. - apply exec_or2; lia. - apply exec_or3; lia.
  - apply exec_xor2; lia. - apply exec_xor3; lia. - apply exec_mul2; lia. - apply exec_mul3; lia.
Qed.

Theorem logic_mul_word_final ir m f dst rs rt rd :
  std_word_arm (iopcode ir) = Some (f, dst) -> reg_word ir 0 rs -> reg_word ir 1 rt -> reg_word ir dst rd ->
  0 <= rd <= 10 ->
  let res := f (R m rs) (R m rt) in
  exists m', exec ir m = Ok (ilen ir) m' /\ word_outcome m m' rd res (Z.testbit res 31) (res =? 0) false false.
Proof.
  intros Ha S T D Hd res. rewrite (std_word_arm_exec ir m f dst Ha).
  destruct D as [Dm [Dr [Dt De]]].
  exact (alu_std_word_final ir f dst rd m (R m rs) (R m rt) (read_reg_word ir 0 rs m S) (read_reg_word ir 1 rt m T)
           Dm Dr Hd Dt).
Qed.

(* ---- halfword and byte forms (register destination): N and Z describe the result at the operand size ---- *)
Definition sign_bit (t : dtype) : Z :=
  match t with DWord | DUWord => 31 | DHalf | DUHalf => 15 | _ => 7 end.
Definition trunc_to (t : dtype) (v : Z) : Z :=
  match t with DWord | DUWord => v | DHalf | DUHalf => w16 v | _ => w8 v end.
Definition too_big (t : dtype) (v : Z) : bool :=
  match t with DWord | DUWord => false | DHalf | DUHalf => v >? 65535 | _ => v >? 255 end.

Lemma bset_15 x : bset x 32768 = Z.testbit x 15.
Proof. exact (bset_pow2 x 15 ltac:(lia)). Qed.
Lemma bset_7 x : bset x 128 = Z.testbit x 7.
Proof. exact (bset_pow2 x 7 ltac:(lia)). Qed.

Lemma set_nz_flags_sized val o m : otype o <> DNone ->
  set_nz_flags val o m = set_z (trunc_to (otype o) val =? 0) (set_n (Z.testbit val (sign_bit (otype o))) m).
Proof.
  intros N. unfold set_nz_flags, trunc_to, sign_bit.
  destruct (otype o); try congruence; rewrite ?bset_31, ?bset_15, ?bset_7; reflexivity.
Qed.
Lemma set_v_flag_op_sized val o m : otype o <> DNone ->
  set_v_flag_op val o m = set_v (too_big (otype o) val) m.
Proof. intros N. unfold set_v_flag_op, too_big. destruct (otype o); try congruence; reflexivity. Qed.

(* AND / OR / XOR / MUL / ALS at every size: result f a b in the register, N = sign bit at the operand size,
   Z = (result truncated to the operand size = 0), C = 0, V = result does not fit the operand size *)
Lemma alu_std_sized_final ir f dst r m a b :
  read_op ir 0 m = Ok a m -> read_op ir 1 m = Ok b m ->
  omode (get_op ir dst) = MRegister -> oreg (get_op ir dst) = Some r -> 0 <= r <= 10 ->
  otype (get_op ir dst) <> DNone ->
  let t := otype (get_op ir dst) in
  exists m', alu_std ir f dst m = Ok (ilen ir) m'
    /\ word_outcome m m' r (f a b) (Z.testbit (f a b) (sign_bit t)) (trunc_to t (f a b) =? 0) (too_big t (f a b)) false.
Proof.
  intros R0 R1 Hm Hr Hr10 Ht t. unfold alu_std. rewrite R0. cbn [bind]. rewrite R1. cbn [bind].
  rewrite (write_reg ir dst r _ m Hm Hr). cbn [bind]. eexists. split; [reflexivity|].
  rewrite set_nz_flags_sized, set_v_flag_op_sized by exact Ht. fold t.
  set (res := f a b).
  destruct (nzvc_after (Z.testbit res (sign_bit t)) (trunc_to t res =? 0) (too_big t res) false (setR m r res)) as [A [B [C D]]].
  constructor; auto.
  - rewrite R_flags_other by lia. apply R_setR_same.
  - intros i Hi N1 N2. rewrite R_flags_other by lia. apply R_setR_other; lia.
Qed.

(* SUB / DEC at every size: C = unsigned borrow of the operands as read *)
Lemma sub_op_sized_final ir a b dst r m :
  omode (get_op ir dst) = MRegister -> oreg (get_op ir dst) = Some r -> 0 <= r <= 10 ->
  otype (get_op ir dst) <> DNone ->
  let t := otype (get_op ir dst) in
  let res := w32 (a - b) in
  exists m', sub_op ir a b dst m = Ok tt m'
    /\ word_outcome m m' r res (Z.testbit res (sign_bit t)) (trunc_to t res =? 0) (too_big t res) (a <? b).
Proof.
  intros Hm Hr Hr10 Ht t res. unfold sub_op. cbv zeta.
  rewrite (write_reg ir dst r _ m Hm Hr). cbn [bind]. eexists. split; [reflexivity|].
  rewrite set_nz_flags_sized, set_v_flag_op_sized by exact Ht. fold t. fold res.
  replace (b >? a) with (a <? b) by lia.
  destruct (nzvc_after (Z.testbit res (sign_bit t)) (trunc_to t res =? 0) (too_big t res) (a <? b) (setR m r res)) as [A [B [C D]]].
  constructor; auto.
  - rewrite R_flags_other by lia. apply R_setR_same.
  - intros i Hi N1 N2. rewrite R_flags_other by lia. apply R_setR_other; lia.
Qed.

(* ADD / INC at halfword and byte size: C = carry out of the operand size *)
Lemma add_op_sized_final ir a b dst r m :
  omode (get_op ir dst) = MRegister -> oreg (get_op ir dst) = Some r -> 0 <= r <= 10 ->
  oetype (get_op ir dst) = None ->
  let t := otype (get_op ir dst) in
  (t = DHalf \/ t = DByte) ->
  let res := w32 (a + b) in
  let top := if dtype_eqb t DHalf then 15 else 7 in
  exists m', add_op ir a b dst m = Ok tt m'
    /\ word_outcome m m' r res (Z.testbit res top) (trunc_to t res =? 0)
         (Z.testbit (Z.land (Z.lxor a (not32 b)) (Z.lxor a res)) top)
         (a + b >? (if dtype_eqb t DHalf then 65535 else 255)).
Proof.
  intros Hm Hr Hr10 He t Ht res top. unfold add_op. cbv zeta.
  rewrite (write_reg ir dst r _ m Hm Hr). cbn [bind].
  unfold data_type. rewrite He. fold t. fold res.
  assert (Nn : otype (get_op ir dst) <> DNone) by (fold t; destruct Ht as [-> | ->]; discriminate).
  rewrite set_nz_flags_sized by exact Nn. fold t.
  subst top. destruct Ht as [E|E]; rewrite E in *; cbn [dtype_eqb sign_bit trunc_to];
    rewrite ?bset_15, ?bset_7; (eexists; split; [reflexivity|]).
  - destruct (nzvc_after (Z.testbit res 15) (w16 res =? 0)
                (Z.testbit (Z.land (Z.lxor a (not32 b)) (Z.lxor a res)) 15) (a + b >? 65535) (setR m r res)) as [A [B [C D]]].
    constructor; auto.
    + rewrite R_flags_other by lia. apply R_setR_same.
    + intros i Hi N1 N2. rewrite R_flags_other by lia. apply R_setR_other; lia.
  - destruct (nzvc_after (Z.testbit res 7) (w8 res =? 0)
                (Z.testbit (Z.land (Z.lxor a (not32 b)) (Z.lxor a res)) 7) (a + b >? 255) (setR m r res)) as [A [B [C D]]].
    constructor; auto.
    + rewrite R_flags_other by lia. apply R_setR_same.
    + intros i Hi N1 N2. rewrite R_flags_other by lia. apply R_setR_other; lia.
Qed.

(* all sizes of AND / OR / XOR / MUL, two- and three-operand *)
Definition std_arm (opc : Z) : option ((Z -> Z -> Z) * Z) :=
  let one l := existsb (Z.eqb opc) l in
  if one [184; 186; 187] then Some (Z.land, 1) else if one [248; 250; 251] then Some (Z.land, 2)
  else if one [176; 178; 179] then Some (Z.lor, 1) else if one [240; 242; 243] then Some (Z.lor, 2)
  else if one [180; 182; 183] then Some (Z.lxor, 1) else if one [244; 246; 247] then Some (Z.lxor, 2)
  else if one [168; 170; 171] then Some ((fun a b => w32 (a * b)), 1)
  else if one [232; 234; 235] then Some ((fun a b => w32 (a * b)), 2)
  else None.

Lemma one_of_three opc x y z : existsb (Z.eqb opc) [x; y; z] = true -> opc = x \/ opc = y \/ opc = z.
Proof. cbn [existsb]. rewrite !orb_true_iff, !Z.eqb_eq. intros [H|[H|[H|H]]]; auto. discriminate. Qed.

Lemma std_arm_exec ir m f dst : std_arm (iopcode ir) = Some (f, dst) -> exec ir m = alu_std ir f dst m.
Proof.
  unfold std_arm. cbv zeta. intros H.
  repeat match type of H with
  | (if ?c then _ else _) = _ => let E := fresh "E" in destruct c eqn:E; [apply one_of_three in E|clear E]
  end; try discriminate; injection H as <- <-.
  - now apply exec_and2. - now apply exec_and3. - now apply exec_or2. - now apply exec_or3.
  - now apply exec_xor2. - now apply exec_xor3. - now apply exec_mul2. - now apply exec_mul3.
Qed.

Theorem logic_mul_sized_final ir m f dst r a b :
  std_arm (iopcode ir) = Some (f, dst) -> read_op ir 0 m = Ok a m -> read_op ir 1 m = Ok b m ->
  omode (get_op ir dst) = MRegister -> oreg (get_op ir dst) = Some r -> 0 <= r <= 10 ->
  otype (get_op ir dst) <> DNone ->
  let t := otype (get_op ir dst) in
  exists m', exec ir m = Ok (ilen ir) m'
    /\ word_outcome m m' r (f a b) (Z.testbit (f a b) (sign_bit t)) (trunc_to t (f a b) =? 0) (too_big t (f a b)) false.
Proof.
  intros Ha R0 R1 Hm Hr Hr10 Ht t. rewrite (std_arm_exec ir m f dst Ha).
  exact (alu_std_sized_final ir f dst r m a b R0 R1 Hm Hr Hr10 Ht).
Qed.

(* ---- BIT sets the N and Z (and clears C) that the AND of the same operands sets ---- *)
Theorem bit_and_same_nz irb ira m a b r :
  (iopcode irb = 56 \/ iopcode irb = 58 \/ iopcode irb = 59) ->
  (iopcode ira = 248 \/ iopcode ira = 250 \/ iopcode ira = 251) ->
  read_op irb 0 m = Ok a m -> read_op irb 1 m = Ok b m -> read_op ira 0 m = Ok a m -> read_op ira 1 m = Ok b m ->
  omode (get_op ira 2) = MRegister -> oreg (get_op ira 2) = Some r -> 0 <= r <= 10 ->
  otype (op1 irb) = otype (get_op ira 2) -> otype (get_op ira 2) <> DNone ->
  exists mb ma, exec irb m = Ok (ilen irb) mb /\ exec ira m = Ok (ilen ira) ma
    /\ flag F_N mb = flag F_N ma /\ flag F_Z mb = flag F_Z ma /\ flag F_C mb = false /\ flag F_C ma = false
    /\ (forall i, 0 <= i <= 15 -> i <> 11 -> R mb i = R m i).
Proof.
  intros Hb Ha B0 B1 A0 A1 Hm Hr Hr10 Et Nn.
  rewrite (exec_bit irb m Hb), B0. cbn [bind]. rewrite B1. cbn [bind].
  destruct (alu_std_sized_final ira Z.land 2 r m a b A0 A1 Hm Hr Hr10 Nn) as [ma [Ea Oa]].
  rewrite (exec_and3 ira m Ha), Ea.
  eexists. exists ma. split; [reflexivity|]. split; [reflexivity|].
  destruct Oa as [_ On Oz _ Oc _ _]. rewrite On, Oz, Oc.
  assert (Nb : otype (op1 irb) <> DNone) by (rewrite Et; exact Nn).
  rewrite set_nz_flags_sized by exact Nb. rewrite Et.
  split; [flags; reflexivity|]. split; [flags; reflexivity|]. split; [flags; reflexivity|]. split; [reflexivity|].
  intros i Hi N. unfold set_v, set_c, set_z, set_n. rewrite !R_setf_other by lia. reflexivity.
Qed.

(* ---- memory destinations (word size, destination in RAM) ---- *)
From Dmd Require Import Proofs.BusProofs Proofs.MachKit Proofs.OperandProofs.

Definition memory_mode (md : addrmode) : Prop :=
  match md with MRegister | MPosLit | MNegLit | MWordImm | MHalfImm | MByteImm => False | _ => True end.

Lemma alu_std_mem_word_final ir f dst a m x y :
  read_op ir 0 m = Ok x m -> read_op ir 1 m = Ok y m ->
  memory_mode (omode (get_op ir dst)) -> effective_address ir dst m = Ok a m ->
  data_type (get_op ir dst) = DWord -> otype (get_op ir dst) = DWord ->
  bus_wf (mbus m) -> in_ram_w a ->
  let res := f x y in
  exists m', alu_std ir f dst m = Ok (ilen ir) m'
    /\ ldw m' a = w32 res
    /\ flag F_N m' = Z.testbit res 31 /\ flag F_Z m' = (res =? 0) /\ flag F_C m' = false /\ flag F_V m' = false
    /\ (forall i, 0 <= i <= 15 -> i <> 11 -> R m' i = R m i)
    /\ (forall b, RAMB <= b -> (b < a \/ a + 4 <= b) -> ramb m' b = ramb m b).
Proof.
  intros R0 R1 Hmode He Hdt Hot W Ha res. unfold alu_std. rewrite R0. cbn [bind]. rewrite R1. cbn [bind].
  rewrite (write_memory_size ir dst (f x y) m a m Hmode He). rewrite Hdt.
  rewrite wr_word_ram by assumption. cbn [bind]. eexists. split; [reflexivity|].
  unfold set_nz_flags, set_v_flag_op. rewrite Hot. rewrite bset_31. fold res.
  pose proof Ha as [A1 [A2 A3]].
  split; [unfold set_v, set_c, set_z, set_n; rewrite !ldw_setf; apply ldw_stw_same; lia|].
  split; [flags; reflexivity|]. split; [flags; reflexivity|]. split; [flags; reflexivity|]. split; [flags; reflexivity|].
  split.
  - intros i Hi N. unfold set_v, set_c, set_z, set_n. rewrite !R_setf_other by lia. apply R_stw.
  - intros b Hb Hd. unfold set_v, set_c, set_z, set_n, ramb. cbn [mbus setf setPSW setR with_regs].
    fold (ramb (stw m a res) b). apply ramb_stw_other; lia.
Qed.

Theorem logic_mul_mem_word_final ir m f dst a x y :
  std_arm (iopcode ir) = Some (f, dst) -> read_op ir 0 m = Ok x m -> read_op ir 1 m = Ok y m ->
  memory_mode (omode (get_op ir dst)) -> effective_address ir dst m = Ok a m ->
  data_type (get_op ir dst) = DWord -> otype (get_op ir dst) = DWord ->
  bus_wf (mbus m) -> in_ram_w a ->
  let res := f x y in
  exists m', exec ir m = Ok (ilen ir) m'
    /\ ldw m' a = w32 res
    /\ flag F_N m' = Z.testbit res 31 /\ flag F_Z m' = (res =? 0) /\ flag F_C m' = false /\ flag F_V m' = false
    /\ (forall i, 0 <= i <= 15 -> i <> 11 -> R m' i = R m i)
    /\ (forall b, RAMB <= b -> (b < a \/ a + 4 <= b) -> ramb m' b = ramb m b).
Proof.
  intros Ha R0 R1 Hm He Hdt Hot W Hr res. rewrite (std_arm_exec ir m f dst Ha).
  exact (alu_std_mem_word_final ir f dst a m x y R0 R1 Hm He Hdt Hot W Hr).
Qed.

(* ---- shifts and rotate, word size, register destination ---- *)
Definition shift_result (opc cnt v : Z) : option Z :=
  let n := Z.land cnt 31 in
  if opc =? 208 then Some (w32 (Z.shiftl v n))            (* LLSW3 *)
  else if opc =? 212 then Some (Z.shiftr v n)              (* LRSW3 *)
  else if opc =? 216 then Some (rotr32 v n)                (* ROTW  *)
  else None.

Lemma exec_shift ir m : iopcode ir = 208 \/ iopcode ir = 212 \/ iopcode ir = 216 ->
  exec ir m =
  (if iopcode ir =? 216
   then bind (read_op ir 0 m) (fun a0 m => bind (read_op ir 1 m) (fun b m =>
          let result := rotr32 b (Z.land a0 31) in
          bind (write_op ir 2 result m) (fun _ m =>
            Ok (ilen ir) (set_v false (set_c false (set_nz_flags result (op2 ir) m))))))
   else bind (read_op ir 1 m) (fun a m => bind (read_op ir 0 m) (fun b m =>
          let result := if iopcode ir =? 208 then w32 (Z.shiftl a (Z.land b 31)) else Z.shiftr a (Z.land b 31) in
          bind (write_op ir 2 result m) (fun _ m =>
            Ok (ilen ir) (set_v_flag_op result (op2 ir) (set_c false (set_nz_flags result (op2 ir) m))))))).
Proof. intros [H|[H|H]]; unfold exec; rewrite H; reflexivity. Qed.

Theorem shift_word_final ir m cnt v r res :
  shift_result (iopcode ir) cnt v = Some res ->
  read_op ir 0 m = Ok cnt m -> read_op ir 1 m = Ok v m ->
  omode (get_op ir 2) = MRegister -> oreg (get_op ir 2) = Some r -> 0 <= r <= 10 -> otype (get_op ir 2) = DWord ->
  exists m', exec ir m = Ok (ilen ir) m'
    /\ word_outcome m m' r res (Z.testbit res 31) (res =? 0) false false.
Proof.
  unfold shift_result. cbv zeta. intros Hs R0 R1 Hm Hr Hr10 Ht.
  assert (Ho : iopcode ir = 208 \/ iopcode ir = 212 \/ iopcode ir = 216).
  { destruct (iopcode ir =? 208) eqn:E1; [lia|]. destruct (iopcode ir =? 212) eqn:E2; [lia|].
    destruct (iopcode ir =? 216) eqn:E3; [lia|discriminate]. }
  rewrite (exec_shift ir m Ho).
  assert (Fin : forall x, exists m', bind (write_op ir 2 x m) (fun _ m0 =>
            Ok (ilen ir) (set_v false (set_c false (set_nz_flags x (op2 ir) m0)))) = Ok (ilen ir) m'
            /\ word_outcome m m' r x (Z.testbit x 31) (x =? 0) false false).
  { intros x. rewrite (write_reg ir 2 r x m Hm Hr). cbn [bind]. eexists. split; [reflexivity|].
    unfold set_nz_flags. change (op2 ir) with (get_op ir 2). rewrite Ht. rewrite bset_31.
    destruct (nzvc_after (Z.testbit x 31) (x =? 0) false false (setR m r x)) as [A [B [C D]]].
    constructor; auto.
    - rewrite R_flags_other by lia. apply R_setR_same.
    - intros i Hi N1 N2. rewrite R_flags_other by lia. apply R_setR_other; lia. }
  destruct (iopcode ir =? 216) eqn:E216.
  - replace (iopcode ir =? 208) with false in Hs by lia. replace (iopcode ir =? 212) with false in Hs by lia.
    injection Hs as <-. rewrite R0. cbn [bind]. rewrite R1. cbn [bind]. cbv zeta. apply Fin.
  - rewrite R1. cbn [bind]. rewrite R0. cbn [bind]. cbv zeta.
    unfold set_v_flag_op. change (op2 ir) with (get_op ir 2). rewrite Ht. change (get_op ir 2) with (op2 ir).
    destruct (iopcode ir =? 208) eqn:E208.
    + injection Hs as <-. apply Fin.
    + replace (iopcode ir =? 212) with true in Hs by lia. injection Hs as <-. apply Fin.
Qed.

(* ---- moves and unary operations at every size, register destination ---- *)
Definition unary_result (opc a : Z) : option Z :=
  if (opc =? 132) || (opc =? 134) || (opc =? 135) then Some a                       (* MOVW / MOVH / MOVB *)
  else if (opc =? 136) || (opc =? 138) || (opc =? 139) then Some (not32 a)           (* MCOMW / H / B *)
  else if (opc =? 140) || (opc =? 142) || (opc =? 143) then Some (w32 (not32 a + 1)) (* MNEGW / H / B *)
  else None.

Lemma exec_mneg ir m : iopcode ir = 140 \/ iopcode ir = 142 \/ iopcode ir = 143 ->
  exec ir m = bind (read_op ir 0 m) (fun a m => bind (write_op ir 1 (w32 (not32 a + 1)) m) (fun _ m =>
    Ok (ilen ir) (set_v_flag_op (w32 (not32 a + 1)) (op1 ir) (set_c false (set_nz_flags (w32 (not32 a + 1)) (op1 ir) m))))).
Proof. intros [H|[H|H]]; unfold exec; rewrite H; reflexivity. Qed.

Theorem unary_sized_final ir m a r res :
  unary_result (iopcode ir) a = Some res -> read_op ir 0 m = Ok a m ->
  omode (get_op ir 1) = MRegister -> oreg (get_op ir 1) = Some r -> 0 <= r <= 10 -> otype (get_op ir 1) <> DNone ->
  let t := otype (get_op ir 1) in
  exists m', exec ir m = Ok (ilen ir) m'
    /\ word_outcome m m' r res (Z.testbit res (sign_bit t)) (trunc_to t res =? 0) (too_big t res) false.
Proof.
  intros Hs R0 Hm Hr Hr10 Ht t. unfold unary_result in Hs.
  assert (Fin : forall x, exists m', bind (write_op ir 1 x m) (fun _ m0 =>
            Ok (ilen ir) (set_v_flag_op x (op1 ir) (set_c false (set_nz_flags x (op1 ir) m0)))) = Ok (ilen ir) m'
            /\ word_outcome m m' r x (Z.testbit x (sign_bit t)) (trunc_to t x =? 0) (too_big t x) false).
  { intros x. rewrite (write_reg ir 1 r x m Hm Hr). cbn [bind]. eexists. split; [reflexivity|].
    change (op1 ir) with (get_op ir 1). rewrite set_nz_flags_sized, set_v_flag_op_sized by exact Ht. fold t.
    destruct (nzvc_after (Z.testbit x (sign_bit t)) (trunc_to t x =? 0) (too_big t x) false (setR m r x)) as [A [B [C D]]].
    constructor; auto.
    - rewrite R_flags_other by lia. apply R_setR_same.
    - intros i Hi N1 N2. rewrite R_flags_other by lia. apply R_setR_other; lia. }
  destruct ((iopcode ir =? 132) || (iopcode ir =? 134) || (iopcode ir =? 135)) eqn:E1.
  - injection Hs as <-. rewrite exec_movx by lia. rewrite R0. cbn [bind]. apply Fin.
  - destruct ((iopcode ir =? 136) || (iopcode ir =? 138) || (iopcode ir =? 139)) eqn:E2.
    + injection Hs as <-. rewrite exec_mcom by lia. rewrite R0. cbn [bind]. apply Fin.
    + destruct ((iopcode ir =? 140) || (iopcode ir =? 142) || (iopcode ir =? 143)) eqn:E3; [|discriminate].
      injection Hs as <-. rewrite exec_mneg by lia. rewrite R0. cbn [bind]. apply Fin.
Qed.

(* CLR: the destination becomes 0, Z = 1, N = C = V = 0 *)
Theorem clr_final ir m r :
  iopcode ir = 128 \/ iopcode ir = 130 \/ iopcode ir = 131 ->
  omode (get_op ir 0) = MRegister -> oreg (get_op ir 0) = Some r -> 0 <= r <= 10 ->
  exists m', exec ir m = Ok (ilen ir) m' /\ word_outcome m m' r 0 false true false false.
Proof.
  intros Ho Hm Hr Hr10. rewrite exec_clr by exact Ho. rewrite (write_reg ir 0 r 0 m Hm Hr). cbn [bind].
  eexists. split; [reflexivity|].
  destruct (nzvc_after false true false false (setR m r 0)) as [A [B [C D]]].
  constructor; auto.
  - rewrite R_flags_other by lia. apply R_setR_same.
  - intros i Hi N1 N2. rewrite R_flags_other by lia. apply R_setR_other; lia.
Qed.

(* CMPW a, b and TSTW a: only the condition codes change; Z = equality, N = signed order, C = unsigned order *)
Theorem cmpw_final ir m a b :
  iopcode ir = 60 -> read_op ir 0 m = Ok a m -> read_op ir 1 m = Ok b m ->
  exists m', exec ir m = Ok (ilen ir) m'
    /\ flag F_Z m' = (b =? a) /\ flag F_N m' = (s32 b <? s32 a) /\ flag F_C m' = (b <? a) /\ flag F_V m' = false
    /\ (forall i, 0 <= i <= 15 -> i <> 11 -> R m' i = R m i) /\ mbus m' = mbus m.
Proof.
  intros Ho R0 R1. rewrite exec_cmpw by exact Ho. rewrite R0. cbn [bind]. rewrite R1. cbn [bind].
  eexists. split; [reflexivity|].
  split; [flags; reflexivity|]. split; [flags; reflexivity|]. split; [flags; reflexivity|]. split; [flags; reflexivity|].
  split; [|reflexivity]. intros i Hi N. unfold set_v, set_c, set_z, set_n. rewrite !R_setf_other by lia. reflexivity.
Qed.

Theorem tstw_final ir m a :
  iopcode ir = 40 -> read_op ir 0 m = Ok a m ->
  exists m', exec ir m = Ok (ilen ir) m'
    /\ flag F_Z m' = (a =? 0) /\ flag F_N m' = (s32 a <? 0) /\ flag F_C m' = false /\ flag F_V m' = false
    /\ (forall i, 0 <= i <= 15 -> i <> 11 -> R m' i = R m i) /\ mbus m' = mbus m.
Proof.
  intros Ho R0. rewrite exec_tstw by exact Ho. rewrite R0. cbn [bind].
  eexists. split; [reflexivity|].
  split; [flags; reflexivity|]. split; [flags; reflexivity|]. split; [flags; reflexivity|]. split; [flags; reflexivity|].
  split; [|reflexivity]. intros i Hi N. unfold set_v, set_c, set_z, set_n. rewrite !R_setf_other by lia. reflexivity.
Qed.

(* ---- divide and remainder, register destination: quotient / remainder of the operands at the operand size, N and Z
   from it, C = 0; a zero divisor faults and changes nothing (C02_div_by_zero_faults) ---- *)
Lemma div_arm_final ir dst oa ob m a b q r :
  read_op ir 0 m = Ok a m -> read_op ir 1 m = Ok b m -> a <> 0 ->
  div_val a b (otype (get_op ir 1)) = Some q ->
  omode (get_op ir dst) = MRegister -> oreg (get_op ir dst) = Some r -> 0 <= r <= 10 ->
  otype (get_op ir dst) <> DNone ->
  let t := otype (get_op ir dst) in
  exists m', div_arm ir dst oa ob m = Ok (ilen ir) m'
    /\ R m' r = q /\ flag F_N m' = Z.testbit q (sign_bit t) /\ flag F_Z m' = (trunc_to t q =? 0) /\ flag F_C m' = false
    /\ (forall i, 0 <= i <= 15 -> i <> r -> i <> 11 -> R m' i = R m i) /\ mbus m' = mbus m.
Proof.
  intros R0 R1 Na Hq Hm Hr Hr10 Ht t. unfold div_arm. rewrite R0. cbn [bind]. rewrite R1. cbn [bind].
  replace (a =? 0) with false by lia. rewrite Hq. rewrite (write_reg ir dst r q m Hm Hr). cbn [bind].
  eexists. split; [reflexivity|]. rewrite set_nz_flags_sized by exact Ht. fold t.
  destruct ((a =? oa) && (b =? ob)).
  - split; [unfold set_c, set_z, set_n, set_v; rewrite !R_setf_other by lia; apply R_setR_same|].
    split; [flags; reflexivity|]. split; [flags; reflexivity|]. split; [flags; reflexivity|].
    split; [|reflexivity]. intros i Hi N1 N2. unfold set_c, set_z, set_n, set_v. rewrite !R_setf_other by lia.
    apply R_setR_other; lia.
  - split; [unfold set_c, set_z, set_n; rewrite !R_setf_other by lia; apply R_setR_same|].
    split; [flags; reflexivity|]. split; [flags; reflexivity|]. split; [flags; reflexivity|].
    split; [|reflexivity]. intros i Hi N1 N2. unfold set_c, set_z, set_n. rewrite !R_setf_other by lia.
    apply R_setR_other; lia.
Qed.

Lemma mod_arm_final ir dst m a b q r :
  read_op ir 0 m = Ok a m -> read_op ir 1 m = Ok b m -> a <> 0 ->
  mod_val a b (otype (get_op ir 1)) = Some q ->
  omode (get_op ir dst) = MRegister -> oreg (get_op ir dst) = Some r -> 0 <= r <= 10 ->
  otype (get_op ir dst) <> DNone ->
  let t := otype (get_op ir dst) in
  exists m', mod_arm ir dst m = Ok (ilen ir) m'
    /\ word_outcome m m' r q (Z.testbit q (sign_bit t)) (trunc_to t q =? 0) (too_big t q) false.
Proof.
  intros R0 R1 Na Hq Hm Hr Hr10 Ht t. unfold mod_arm. rewrite R0. cbn [bind]. rewrite R1. cbn [bind].
  replace (a =? 0) with false by lia. rewrite Hq. rewrite (write_reg ir dst r q m Hm Hr). cbn [bind]. cbv zeta.
  eexists. split; [reflexivity|]. rewrite set_nz_flags_sized, set_v_flag_op_sized by exact Ht. fold t.
  destruct (nzvc_after (Z.testbit q (sign_bit t)) (trunc_to t q =? 0) (too_big t q) false (setR m r q)) as [A [B [C D]]].
  constructor; auto.
  - rewrite R_flags_other by lia. apply R_setR_same.
  - intros i Hi N1 N2. rewrite R_flags_other by lia. apply R_setR_other; lia.
Qed.

(* ---- arithmetic right shifts (ARSW3 / ARSH3 / ARSB3), register destination ---- *)
Definition ars_value (t : dtype) (a n : Z) : Z :=
  match t with
  | DWord => w32 (Z.shiftr (s32 a) n) | DUWord => Z.shiftr a n
  | DHalf => w32 (Z.shiftr (s16 a) n) | DUHalf => Z.shiftr (w16 a) n
  | DByte => Z.shiftr (w8 a) n | DSByte => w32 (Z.shiftr (s8 a) n)
  | DNone => 0
  end.

Lemma exec_ars ir m : iopcode ir = 196 \/ iopcode ir = 198 \/ iopcode ir = 199 ->
  exec ir m = bind (read_op ir 1 m) (fun a m => bind (read_op ir 0 m) (fun b0 m =>
    let result := ars_value (data_type (op0 ir)) a (Z.land b0 31) in
    bind (write_op ir 2 result m) (fun _ m =>
      Ok (ilen ir) (set_v false (set_c false (set_nz_flags result (op2 ir) m)))))).
Proof. intros [H|[H|H]]; unfold exec; rewrite H; reflexivity. Qed.

Theorem ars_final ir m cnt v r :
  iopcode ir = 196 \/ iopcode ir = 198 \/ iopcode ir = 199 ->
  read_op ir 0 m = Ok cnt m -> read_op ir 1 m = Ok v m ->
  omode (get_op ir 2) = MRegister -> oreg (get_op ir 2) = Some r -> 0 <= r <= 10 -> otype (get_op ir 2) <> DNone ->
  let t := otype (get_op ir 2) in
  let res := ars_value (data_type (op0 ir)) v (Z.land cnt 31) in
  exists m', exec ir m = Ok (ilen ir) m'
    /\ word_outcome m m' r res (Z.testbit res (sign_bit t)) (trunc_to t res =? 0) false false.
Proof.
  intros Ho R0 R1 Hm Hr Hr10 Ht t res. rewrite (exec_ars ir m Ho). rewrite R1. cbn [bind]. rewrite R0. cbn [bind].
  cbv zeta. fold res. rewrite (write_reg ir 2 r res m Hm Hr). cbn [bind]. eexists. split; [reflexivity|].
  change (op2 ir) with (get_op ir 2). rewrite set_nz_flags_sized by exact Ht. fold t.
  destruct (nzvc_after (Z.testbit res (sign_bit t)) (trunc_to t res =? 0) false false (setR m r res)) as [A [B [C D]]].
  constructor; auto.
  - rewrite R_flags_other by lia. apply R_setR_same.
  - intros i Hi N1 N2. rewrite R_flags_other by lia. apply R_setR_other; lia.
Qed.

(* ---- halfword and byte compare / test: only the condition codes change ---- *)
Definition cmp_flags (opc a b : Z) : option (bool * bool * bool) :=     (* Z, N, C *)
  if opc =? 62 then Some (w16 b =? w16 a, s16 b <? s16 a, w16 b <? w16 a)
  else if opc =? 63 then Some (w8 b =? w8 a, s8 b <? s8 a, w8 b <? w8 a)
  else None.

Theorem cmp_small_final ir m a b z n c :
  cmp_flags (iopcode ir) a b = Some (z, n, c) -> read_op ir 0 m = Ok a m -> read_op ir 1 m = Ok b m ->
  exists m', exec ir m = Ok (ilen ir) m'
    /\ flag F_Z m' = z /\ flag F_N m' = n /\ flag F_C m' = c /\ flag F_V m' = false
    /\ (forall i, 0 <= i <= 15 -> i <> 11 -> R m' i = R m i) /\ mbus m' = mbus m.
Proof.
  unfold cmp_flags. intros Hf R0 R1.
  destruct (iopcode ir =? 62) eqn:E62; [|destruct (iopcode ir =? 63) eqn:E63; [|discriminate]];
    injection Hf as <- <- <-;
    [assert (Ho : iopcode ir = 62) by lia | assert (Ho : iopcode ir = 63) by lia];
    unfold exec; rewrite Ho; cbn [Z.eqb Pos.eqb orb]; rewrite R0; cbn [bind]; rewrite R1; cbn [bind];
    (eexists; split; [reflexivity|]);
    (split; [flags; reflexivity|]); (split; [flags; reflexivity|]); (split; [flags; reflexivity|]); (split; [flags; reflexivity|]);
    (split; [|reflexivity]); intros i Hi N; unfold set_v, set_c, set_z, set_n; rewrite !R_setf_other by lia; reflexivity.
Qed.
