(* C15: the display window and the dirty flag. *)
From Coq Require Import ZArith Lia Bool List.
From Dmd Require Import Model.Bits Model.Fifo Model.Mem Model.Mouse Model.Duart Model.Bus.
From Dmd Require Import Proofs.BitsLemmas Proofs.MemProofs Proofs.BusProofs.
Open Scope Z_scope.

Definition vid_ok (b : bus) : Prop := 0 <= mget (vid b) 0 < 256 /\ 0 <= mget (vid b) 1 < 256.

Lemma video_start_bound b : vid_ok b -> 0 <= video_start b <= 262140 /\ video_start b mod 4 = 0.
Proof. unfold vid_ok, video_start. intros [H0 H1]. split; [lia|]. apply Z.mod_mul. lia. Qed.

(* mem_slice is the list of bytes at consecutive offsets *)
Lemma mem_slice_length m off n : length (mem_slice m off n) = n.
Proof. revert off; induction n as [|n IH]; intros off; cbn; [reflexivity|]. now rewrite IH. Qed.

Lemma mem_slice_nth m n : forall off i, (i < n)%nat ->
  nth_error (mem_slice m off n) i = Some (mget m (off + Z.of_nat i)).
Proof.
  induction n as [|n IH]; intros off i Hi; [lia|].
  destruct i as [|i]; cbn [mem_slice nth_error].
  - f_equal. f_equal. lia.
  - rewrite IH by lia. f_equal. f_equal. lia.
Qed.

(* the frame handed to the host: exactly the 102,400 RAM bytes from 4 * display-start, flag cleared,
   nothing else changed, and no panic for any of the 65,536 register values *)
Lemma frame_is_window b :
  bus_wf b -> vid_ok b ->
  bus_video_ram b = Ok (mem_slice (ram b) (video_start b) (Z.to_nat 102400)) (with_dirty b false).
Proof.
  intros W Vk. unfold bus_video_ram, VIDEO_LEN.
  pose proof (video_start_bound b Vk) as [Hb _].
  destruct W as [_ _ _ [_ [Hs _]]]. rewrite Hs.
  replace (video_start b + 102400 >? 1048576) with false; [reflexivity|].
  symmetry. rewrite Z.gtb_ltb. apply Z.ltb_ge. lia.
Qed.

(* ---- histories of guest writes and host fetches ---- *)
Inductive vop := VWb (a v : Z) | VWh (a v : Z) | VWw (a v : Z) | VFetch.

Definition apply_res {A} (b : bus) (r : res bus A) : bus :=
  match r with Ok _ b' | Err _ b' => b' | _ => b end.

Definition vstep (o : vop) (b : bus) : bus :=
  match o with
  | VWb a v => apply_res b (bus_write_byte a v b)
  | VWh a v => apply_res b (bus_write_half a v b)
  | VWw a v => apply_res b (bus_write_word a v b)
  | VFetch => apply_res b (bus_video_ram b)
  end.

(* the window in absolute addresses, as the property states it *)
Definition in_window (b : bus) (x : Z) : bool :=
  (7340032 + video_start b <=? x) && (x <? 7340032 + video_start b + 102400).

(* "a successful write some byte of which lies in the window current at that write" *)
Definition lands (b : bus) (o : vop) : bool :=
  match o with
  | VWb a v => is_ok (bus_write_byte a v b) && in_window b a
  | VWh a v => is_ok (bus_write_half a v b) && (in_window b a || in_window b (a + 1))
  | VWw a v => is_ok (bus_write_word a v b)
               && (in_window b a || in_window b (a + 1) || in_window b (a + 2) || in_window b (a + 3))
  | VFetch => false
  end.

Fixpoint ghost_run (ops : list vop) (b : bus) (g : bool) : bus * bool :=
  match ops with
  | [] => (b, g)
  | o :: t => ghost_run t (vstep o b) (match o with VFetch => false | _ => g || lands b o end)
  end.

(* alignment as divisibility *)
Lemma land1_mod a : Z.land a 1 = a mod 2.
Proof. change 1 with (Z.ones 1). rewrite Z.land_ones by lia. reflexivity. Qed.
Lemma land3_mod a : Z.land a 3 = a mod 4.
Proof. change 3 with (Z.ones 2). rewrite Z.land_ones by lia. reflexivity. Qed.

Lemma is_video_ram_spec b a : vid_ok b -> is_video_ram b a = in_window b a.
Proof.
  intros Vk. pose proof (video_start_bound b Vk) as [Hb _].
  unfold is_video_ram, in_window, VIDEO_LEN.
  destruct (7340032 + video_start b <=? a) eqn:E1; destruct (a <? 7340032 + video_start b + 102400) eqn:E2;
    cbn [andb].
  - replace (7340032 <=? a) with true by (symmetry; apply Z.leb_le; lia).
    replace (a <? 8388608) with true by (symmetry; apply Z.ltb_lt; lia).
    replace (video_start b <=? a - 7340032) with true by (symmetry; apply Z.leb_le; lia).
    replace (a - 7340032 <? video_start b + 102400) with true by (symmetry; apply Z.ltb_lt; lia). reflexivity.
  - replace (a - 7340032 <? video_start b + 102400) with false by (symmetry; apply Z.ltb_ge; lia).
    now rewrite !andb_false_r.
  - replace (video_start b <=? a - 7340032) with false by (symmetry; apply Z.leb_gt; lia).
    now rewrite !andb_false_r.
  - replace (video_start b <=? a - 7340032) with false by (symmetry; apply Z.leb_gt; lia).
    now rewrite !andb_false_r.
Qed.

(* aligned accesses are entirely inside or entirely outside the window *)
Lemma window_half_aligned b a : vid_ok b -> a mod 2 = 0 -> in_window b (a + 1) = in_window b a.
Proof.
  intros Vk Ha. pose proof (video_start_bound b Vk) as [Hb Hm]. unfold in_window.
  assert (Hs : (7340032 + video_start b) mod 2 = 0) by lia.
  assert (He : (7340032 + video_start b + 102400) mod 2 = 0) by lia.
  destruct (7340032 + video_start b <=? a) eqn:E1; destruct (a <? 7340032 + video_start b + 102400) eqn:E2.
  - replace (7340032 + video_start b <=? a + 1) with true by (symmetry; apply Z.leb_le; lia).
    replace (a + 1 <? 7340032 + video_start b + 102400) with true by (symmetry; apply Z.ltb_lt; lia). reflexivity.
  - replace (a + 1 <? 7340032 + video_start b + 102400) with false by (symmetry; apply Z.ltb_ge; lia).
    now rewrite andb_false_r.
  - replace (7340032 + video_start b <=? a + 1) with false by (symmetry; apply Z.leb_gt; lia). reflexivity.
  - replace (7340032 + video_start b <=? a + 1) with false by (symmetry; apply Z.leb_gt; lia). reflexivity.
Qed.

Lemma window_word_aligned b a j : vid_ok b -> a mod 4 = 0 -> 0 <= j < 4 -> in_window b (a + j) = in_window b a.
Proof.
  intros Vk Ha Hj. pose proof (video_start_bound b Vk) as [Hb Hm]. unfold in_window.
  assert (Hs : (7340032 + video_start b) mod 4 = 0) by lia.
  assert (He : (7340032 + video_start b + 102400) mod 4 = 0) by lia.
  destruct (7340032 + video_start b <=? a) eqn:E1; destruct (a <? 7340032 + video_start b + 102400) eqn:E2.
  - replace (7340032 + video_start b <=? a + j) with true by (symmetry; apply Z.leb_le; lia).
    replace (a + j <? 7340032 + video_start b + 102400) with true by (symmetry; apply Z.ltb_lt; lia). reflexivity.
  - replace (a + j <? 7340032 + video_start b + 102400) with false by (symmetry; apply Z.ltb_ge; lia).
    now rewrite andb_false_r.
  - replace (7340032 + video_start b <=? a + j) with false by (symmetry; apply Z.leb_gt; lia). reflexivity.
  - replace (7340032 + video_start b <=? a + j) with false by (symmetry; apply Z.leb_gt; lia). reflexivity.
Qed.

(* device writes never touch the flag *)
Lemma dev_write_mem_dirty d b r :
  match dev_write_mem d b r with Ok _ b' | Err _ b' => dirty b' = dirty b | _ => True end.
Proof. unfold dev_write_mem. destruct r; try exact I; try reflexivity. destruct d; reflexivity. Qed.

Lemma dev_write_byte_dirty d a v b :
  match dev_write_byte d a v b with Ok _ b' | Err _ b' => dirty b' = dirty b | _ => True end.
Proof. destruct d; cbn [dev_write_byte]; try apply dev_write_mem_dirty; reflexivity. Qed.
Lemma dev_write_half_dirty d a v b :
  match dev_write_half d a v b with Ok _ b' | Err _ b' => dirty b' = dirty b | _ => True end.
Proof. destruct d; cbn [dev_write_half dev_write_byte]; try apply dev_write_mem_dirty; reflexivity. Qed.
Lemma dev_write_word_dirty d a v b :
  match dev_write_word d a v b with Ok _ b' | Err _ b' => dirty b' = dirty b | _ => True end.
Proof. destruct d; cbn [dev_write_word dev_write_byte]; try apply dev_write_mem_dirty; reflexivity. Qed.

(* a write whose first byte is in the window is a RAM write that succeeds *)
Lemma window_is_ram b a : vid_ok b -> in_window b a = true -> get_device a = Some DRam.
Proof.
  intros Vk H. pose proof (video_start_bound b Vk) as [Hb _]. unfold in_window in H.
  apply andb_true_iff in H as [H1 H2]. apply Z.leb_le in H1. apply Z.ltb_lt in H2.
  unfold get_device.
  replace (a <? 131072) with false by (symmetry; apply Z.ltb_ge; lia).
  replace ((2097152 <=? a) && (a <? 2097216)) with false by (symmetry; apply andb_false_iff; right; apply Z.ltb_ge; lia).
  replace ((4194304 <=? a) && (a <? 4194308)) with false by (symmetry; apply andb_false_iff; right; apply Z.ltb_ge; lia).
  replace ((5242880 <=? a) && (a <? 5242882)) with false by (symmetry; apply andb_false_iff; right; apply Z.ltb_ge; lia).
  replace ((6291456 <=? a) && (a <? 6299648)) with false by (symmetry; apply andb_false_iff; right; apply Z.ltb_ge; lia).
  replace ((7340032 <=? a) && (a <? 8388608)) with true; [reflexivity|].
  symmetry. apply andb_true_iff. rewrite Z.leb_le, Z.ltb_lt. lia.
Qed.

Lemma ram_geom_mark b a : bus_wf b -> mbase (ram (mark_dirty a b)) = 7340032 /\ msize (ram (mark_dirty a b)) = 1048576
                                     /\ mro (ram (mark_dirty a b)) = false.
Proof. intros W. unfold mark_dirty. destruct (is_video_ram b a); cbn; apply W. Qed.

Lemma step_write_byte b a v :
  bus_wf b -> vid_ok b -> dirty (vstep (VWb a v) b) = dirty b || lands b (VWb a v).
Proof.
  intros W Vk. cbn [vstep lands]. unfold bus_write_byte, with_dev, mark_dirty.
  rewrite (is_video_ram_spec b a Vk).
  destruct (in_window b a) eqn:Win.
  - rewrite (window_is_ram b a Vk Win). cbn [dev_write_byte dev_mem ram with_dirty].
    pose proof (window_is_ram b a Vk Win) as Hd. apply get_device_range in Hd.
    destruct W as [_ _ _ [Hb [Hs Hr]]].
    unfold dev_write_mem, mem_write_byte, mend. rewrite Hr, Hb, Hs.
    replace (a >=? 7340032 + 1048576) with false by lia.
    replace (in_vec (ram b) (a - 7340032)) with true by (symmetry; apply in_vec_spec; lia).
    cbn. now rewrite orb_true_r.
  - rewrite andb_false_r, orb_false_r.
    destruct (get_device a) as [d|]; [|reflexivity].
    pose proof (dev_write_byte_dirty d a (w8 v) b) as H.
    destruct (dev_write_byte d a (w8 v) b); cbn [apply_res]; auto.
Qed.

Lemma step_write_half b a v :
  bus_wf b -> vid_ok b -> dirty (vstep (VWh a v) b) = dirty b || lands b (VWh a v).
Proof.
  intros W Vk. cbn [vstep lands]. unfold bus_write_half.
  destruct (Z.land a 1 =? 0) eqn:Al; cbn [negb].
  2:{ cbn. now rewrite orb_false_r. }
  apply Z.eqb_eq in Al. rewrite land1_mod in Al.
  rewrite (window_half_aligned b a Vk Al), orb_diag.
  unfold with_dev, mark_dirty. rewrite (is_video_ram_spec b a Vk).
  destruct (in_window b a) eqn:Win.
  - rewrite (window_is_ram b a Vk Win). cbn [dev_write_half dev_mem ram with_dirty].
    pose proof (window_is_ram b a Vk Win) as Hd. apply get_device_range in Hd.
    destruct W as [_ _ _ [Hb [Hs Hr]]].
    unfold dev_write_mem, mem_write_half, mend. rewrite Hr, Hb, Hs.
    replace (a + 1 >=? 7340032 + 1048576) with false by lia.
    replace (in_vec (ram b) (a - 7340032)) with true by (symmetry; apply in_vec_spec; lia).
    replace (in_vec (ram b) (a - 7340032 + 1)) with true by (symmetry; apply in_vec_spec; lia).
    cbn. now rewrite orb_true_r.
  - rewrite andb_false_r, orb_false_r.
    destruct (get_device a) as [d|]; [|reflexivity].
    pose proof (dev_write_half_dirty d a (w16 v) b) as H.
    destruct (dev_write_half d a (w16 v) b); cbn [apply_res]; auto.
Qed.

Lemma step_write_word b a v :
  bus_wf b -> vid_ok b -> dirty (vstep (VWw a v) b) = dirty b || lands b (VWw a v).
Proof.
  intros W Vk. cbn [vstep lands]. unfold bus_write_word.
  destruct (Z.land a 3 =? 0) eqn:Al; cbn [negb].
  2:{ cbn. now rewrite orb_false_r. }
  apply Z.eqb_eq in Al. rewrite land3_mod in Al.
  rewrite (window_word_aligned b a 1 Vk Al), (window_word_aligned b a 2 Vk Al),
          (window_word_aligned b a 3 Vk Al), !orb_diag by lia.
  unfold with_dev, mark_dirty. rewrite (is_video_ram_spec b a Vk).
  destruct (in_window b a) eqn:Win.
  - rewrite (window_is_ram b a Vk Win). cbn [dev_write_word dev_mem ram with_dirty].
    pose proof (window_is_ram b a Vk Win) as Hd. apply get_device_range in Hd.
    destruct W as [_ _ _ [Hb [Hs Hr]]].
    unfold dev_write_mem, mem_write_word, mend. rewrite Hr, Hb, Hs.
    replace (a + 3 >=? 7340032 + 1048576) with false by lia.
    replace (in_vec (ram b) (a - 7340032)) with true by (symmetry; apply in_vec_spec; lia).
    replace (in_vec (ram b) (a - 7340032 + 3)) with true by (symmetry; apply in_vec_spec; lia).
    cbn. now rewrite orb_true_r.
  - rewrite andb_false_r, orb_false_r.
    destruct (get_device a) as [d|]; [|reflexivity].
    pose proof (dev_write_word_dirty d a (w32 v) b) as H.
    destruct (dev_write_word d a (w32 v) b); cbn [apply_res]; auto.
Qed.

(* ---- invariants are preserved by every operation ---- *)
Definition vinv (b : bus) : Prop := bus_wf b /\ vid_ok b.

Lemma vinv_dirty b v : vinv b -> vinv (with_dirty b v).
Proof. intros [[? ? ? ?] ?]. split; [constructor|]; assumption. Qed.

Lemma vinv_mark a b : vinv b -> vinv (mark_dirty a b).
Proof. intros H. unfold mark_dirty. destruct (is_video_ram b a); [apply vinv_dirty|]; exact H. Qed.

Lemma vinv_duart b d : vinv b -> vinv (with_duart b d).
Proof. intros [[? ? ? ?] ?]. split; [constructor|]; assumption. Qed.

(* a successful memory write keeps geometry and byte range *)
Lemma wbyte_keeps m a v m' : mem_write_byte m a v = ROk m' ->
  mbase m' = mbase m /\ msize m' = msize m /\ mro m' = mro m
  /\ forall x, mbase m <= x -> (0 <= byte_at m x < 256) -> 0 <= byte_at m' x < 256.
Proof.
  intros H. pose proof (write_byte_spec _ _ _ _ H) as (_ & _ & B & S & R & B0 & Fr).
  repeat split; auto; destruct (Z.eq_dec x a) as [->|N]; try (rewrite B0; apply w8_range); rewrite Fr by lia; lia.
Qed.
Lemma whalf_keeps m a v m' : mem_write_half m a v = ROk m' ->
  mbase m' = mbase m /\ msize m' = msize m /\ mro m' = mro m
  /\ forall x, mbase m <= x -> (0 <= byte_at m x < 256) -> 0 <= byte_at m' x < 256.
Proof.
  intros H. pose proof (write_half_spec _ _ _ _ H) as (_ & _ & _ & B & S & R & B0 & B1 & Fr).
  repeat split; auto.
  all: destruct (Z.eq_dec x a) as [->|N]; try (rewrite B0; apply w8_range).
  all: destruct (Z.eq_dec x (a + 1)) as [->|N1]; try (rewrite B1; apply w8_range).
  all: rewrite Fr by lia; lia.
Qed.
Lemma wword_keeps m a v m' : mem_write_word m a v = ROk m' ->
  mbase m' = mbase m /\ msize m' = msize m /\ mro m' = mro m
  /\ forall x, mbase m <= x -> (0 <= byte_at m x < 256) -> 0 <= byte_at m' x < 256.
Proof.
  intros H. pose proof (write_word_spec _ _ _ _ H) as (_ & _ & _ & B & S & R & B0 & B1 & B2 & B3 & Fr).
  repeat split; auto.
  all: destruct (Z.eq_dec x a) as [->|N]; try (rewrite B0; apply w8_range).
  all: destruct (Z.eq_dec x (a + 1)) as [->|N1]; try (rewrite B1; apply w8_range).
  all: destruct (Z.eq_dec x (a + 2)) as [->|N2]; try (rewrite B2; apply w8_range).
  all: destruct (Z.eq_dec x (a + 3)) as [->|N3]; try (rewrite B3; apply w8_range).
  all: rewrite Fr by lia; lia.
Qed.

Lemma vinv_set_dev b d m' :
  vinv b -> is_memdev d = true ->
  mbase m' = mbase (dev_mem b d) -> msize m' = msize (dev_mem b d) -> mro m' = mro (dev_mem b d) ->
  (forall x, mbase (dev_mem b d) <= x -> 0 <= byte_at (dev_mem b d) x < 256 -> 0 <= byte_at m' x < 256) ->
  vinv (set_dev_mem b d m').
Proof.
  intros [[Wr Wv Wn Wm] [V0 V1]] Md B S R Fr.
  destruct d; try discriminate; cbn [dev_mem set_dev_mem] in *.
  - split; [constructor; cbn; try assumption; rewrite B, S, R; assumption | exact (conj V0 V1)].
  - split; [constructor; cbn; try assumption; rewrite B, S, R; assumption |].
    destruct Wv as [Wb _]. unfold vid_ok; cbn [vid with_vid].
    pose proof (Fr (mbase (vid b)) ltac:(lia)) as F0. pose proof (Fr (mbase (vid b) + 1) ltac:(lia)) as F1.
    unfold byte_at in F0, F1. rewrite B in F0, F1.
    replace (mbase (vid b) - mbase (vid b)) with 0 in F0 by lia.
    replace (mbase (vid b) + 1 - mbase (vid b)) with 1 in F1 by lia. split; [apply F0 | apply F1]; assumption.
  - split; [constructor; cbn; try assumption; rewrite B, S, R; assumption | exact (conj V0 V1)].
  - split; [constructor; cbn; try assumption; rewrite B, S, R; assumption | exact (conj V0 V1)].
Qed.

Lemma vinv_write_byte a v b : vinv b -> vinv (apply_res b (bus_write_byte a v b)).
Proof.
  intros I. unfold bus_write_byte, with_dev. pose proof (vinv_mark a b I) as Im.
  destruct (get_device a) as [d|]; [|exact Im].
  destruct d; cbn [dev_write_byte apply_res]; try exact Im; try (apply vinv_duart; exact Im).
  all: unfold dev_write_mem;
    match goal with |- context [mem_write_byte ?m ?x ?y] => destruct (mem_write_byte m x y) as [m'| |] eqn:E end;
    cbn [apply_res]; try exact Im; try exact I;
    pose proof (wbyte_keeps _ _ _ _ E) as (B & S & R & Fr); apply vinv_set_dev; auto.
Qed.
Lemma vinv_write_half a v b : vinv b -> vinv (apply_res b (bus_write_half a v b)).
Proof.
  intros I. unfold bus_write_half, with_dev. destruct (negb _); [exact I|]. pose proof (vinv_mark a b I) as Im.
  destruct (get_device a) as [d|]; [|exact Im].
  destruct d; cbn [dev_write_half dev_write_byte apply_res]; try exact Im; try (apply vinv_duart; exact Im).
  all: unfold dev_write_mem;
    match goal with |- context [mem_write_half ?m ?x ?y] => destruct (mem_write_half m x y) as [m'| |] eqn:E end;
    cbn [apply_res]; try exact Im; try exact I;
    pose proof (whalf_keeps _ _ _ _ E) as (B & S & R & Fr); apply vinv_set_dev; auto.
Qed.
Lemma vinv_write_word a v b : vinv b -> vinv (apply_res b (bus_write_word a v b)).
Proof.
  intros I. unfold bus_write_word, with_dev. destruct (negb _); [exact I|]. pose proof (vinv_mark a b I) as Im.
  destruct (get_device a) as [d|]; [|exact Im].
  destruct d; cbn [dev_write_word dev_write_byte apply_res]; try exact Im; try (apply vinv_duart; exact Im).
  all: unfold dev_write_mem;
    match goal with |- context [mem_write_word ?m ?x ?y] => destruct (mem_write_word m x y) as [m'| |] eqn:E end;
    cbn [apply_res]; try exact Im; try exact I;
    pose proof (wword_keeps _ _ _ _ E) as (B & S & R & Fr); apply vinv_set_dev; auto.
Qed.

Lemma vinv_step o b : vinv b -> vinv (vstep o b).
Proof.
  intros I. destruct o; cbn [vstep].
  - apply vinv_write_byte; exact I.
  - apply vinv_write_half; exact I.
  - apply vinv_write_word; exact I.
  - destruct I as [W Vk]. rewrite (frame_is_window b W Vk). cbn [apply_res]. apply vinv_dirty. split; assumption.
Qed.

Lemma vinv_new now : vinv (bus_new now).
Proof. split; [apply bus_new_wf|]. unfold vid_ok; cbn. lia. Qed.

(* ---- the flag after any history = "some successful write since the last fetch landed in the
        window current at that write"; cleared only by the fetch ---- *)
Lemma dirty_step o b : vinv b ->
  dirty (vstep o b) = match o with VFetch => false | _ => dirty b || lands b o end.
Proof.
  intros [W Vk]. destruct o.
  - apply step_write_byte; assumption.
  - apply step_write_half; assumption.
  - apply step_write_word; assumption.
  - cbn [vstep]. rewrite (frame_is_window b W Vk). reflexivity.
Qed.

Lemma dirty_iff_written ops : forall b, vinv b ->
  dirty (fst (ghost_run ops b (dirty b))) = snd (ghost_run ops b (dirty b)).
Proof.
  induction ops as [|o t IH]; intros b I; cbn [ghost_run fst snd]; [reflexivity|].
  rewrite <- (dirty_step o b I). apply IH. apply vinv_step; exact I.
Qed.

