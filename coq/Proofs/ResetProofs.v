(* Dmd::reset, Cpu::reset, NVRAM host/guest agreement (C16). *)
From Coq Require Import ZArith Lia Bool List ZifyBool.
From Dmd Require Import Model.Bits Model.Types Model.Fifo Model.Mem Model.Mouse Model.Duart Model.Bus
     Model.Decode Model.Cpu Model.Dmd.
From Dmd Require Import Proofs.BitsLemmas Proofs.MemProofs Proofs.BusProofs Proofs.RegKit Proofs.VideoProofs.
Open Scope Z_scope.

(* ---- Mem::load ---- *)
Ltac if_lia :=
  match goal with
  | |- context [if ?c then _ else _] => first [replace c with true by lia | replace c with false by lia]
  end.

Lemma store_list_spec l : forall m off,
  0 <= off -> off + Z.of_nat (length l) <= msize m ->
  exists m', mem_store_list m off l = Some m'
    /\ mbase m' = mbase m /\ msize m' = msize m /\ mro m' = mro m
    /\ forall o, 0 <= o -> mget m' o =
         if (off <=? o) && (o <? off + Z.of_nat (length l))
         then w8 (nth (Z.to_nat (o - off)) l 0) else mget m o.
Proof.
  induction l as [|b t IH]; intros m off H0 H1.
  - exists m. cbn [mem_store_list]. repeat split; auto. intros o Ho. cbn [length]. if_lia. reflexivity.
  - cbn [mem_store_list]. cbn [length] in *. rewrite Nat2Z.inj_succ in *.
    replace (in_vec m off) with true by (symmetry; apply in_vec_spec; lia).
    destruct (IH (mset m off (w8 b)) (off + 1)) as [m' [E [Hb [Hs [Hr Hg]]]]]; [lia | rewrite mset_size; lia |].
    exists m'. rewrite E, Hb, Hs, Hr. repeat split; auto.
    intros o Ho. rewrite Hg by exact Ho.
    destruct (Z.eq_dec o off) as [->|N].
    + if_lia. rewrite mget_mset_same. if_lia. now rewrite Z.sub_diag.
    + destruct ((off + 1 <=? o) && (o <? off + 1 + Z.of_nat (length t))) eqn:C.
      * if_lia. replace (Z.to_nat (o - off)) with (S (Z.to_nat (o - (off + 1)))) by lia. reflexivity.
      * rewrite mget_mset_other by lia. if_lia. reflexivity.
Qed.

(* what a ROM image looks like after loading lo at 0 and hi behind it *)
Definition image_at (lo hi : list Z) (o : Z) : Z := w8 (nth (Z.to_nat o) (lo ++ hi) 0).

Definition same_but_rom (b b' : bus) : Prop :=
  duart_ b' = duart_ b /\ mouse_ b' = mouse_ b /\ vid b' = vid b /\ bbram b' = bbram b /\ ram b' = ram b
  /\ dirty b' = dirty b.

Lemma bus_load_rom a l b :
  bus_wf b -> 0 <= a < 131072 -> a + Z.of_nat (length l) <= 131072 ->
  exists m', bus_load a l b = Ok tt (with_rom b m')
    /\ mbase m' = 0 /\ msize m' = 131072 /\ mro m' = true
    /\ forall o, 0 <= o -> mget m' o =
         if (a <=? o) && (o <? a + Z.of_nat (length l)) then w8 (nth (Z.to_nat (o - a)) l 0) else mget (rom b) o.
Proof.
  intros W Ha Hl. destruct W as [[Rb [Rs Rr]] Wv Wn Wr].
  unfold bus_load, with_dev.
  assert (G : get_device a = Some DRom) by (unfold get_device; if_lia; reflexivity).
  rewrite G. cbn [dev_mem]. unfold mem_load. rewrite Rb, Rs. if_lia.
  destruct (store_list_spec l (rom b) (a - 0)) as [m1 [E1 [B1 [S1 [O1 G1]]]]]; [lia | lia |].
  rewrite E1. cbn [dev_write_mem set_dev_mem]. exists m1.
  split; [reflexivity|]. split; [congruence|]. split; [congruence|]. split; [congruence|].
  intros o Ho. rewrite G1 by exact Ho. rewrite !Z.sub_0_r. reflexivity.
Qed.

Lemma load_images lo hi b :
  bus_wf b -> 0 < Z.of_nat (length lo) < 131072 ->
  Z.of_nat (length lo) + Z.of_nat (length hi) <= 131072 ->
  exists b1 b2,
    bus_load 0 lo b = Ok tt b1 /\ bus_load (Z.of_nat (length lo)) hi b1 = Ok tt b2
    /\ bus_wf b2 /\ same_but_rom b b2
    /\ (forall o, 0 <= o < Z.of_nat (length lo) + Z.of_nat (length hi) -> mget (rom b2) o = image_at lo hi o)
    /\ (forall o, Z.of_nat (length lo) + Z.of_nat (length hi) <= o -> mget (rom b2) o = mget (rom b) o).
Proof.
  intros W Hlo Hsum.
  destruct (bus_load_rom 0 lo b W) as [m1 [E1 [B1 [S1 [O1 G1]]]]]; [lia | lia |].
  assert (W1 : bus_wf (with_rom b m1)) by (destruct W; constructor; cbn; auto).
  destruct (bus_load_rom (Z.of_nat (length lo)) hi (with_rom b m1) W1) as [m2 [E2 [B2 [S2 [O2 G2]]]]]; [lia | lia |].
  exists (with_rom b m1), (with_rom (with_rom b m1) m2).
  split; [exact E1|]. split; [exact E2|].
  split; [destruct W; constructor; cbn; auto|].
  split; [repeat split|]. split.
  - intros o Ho. cbn [rom with_rom]. rewrite G2 by lia. cbn [rom with_rom]. rewrite G1 by lia. unfold image_at.
    destruct ((Z.of_nat (length lo) <=? o) && (o <? Z.of_nat (length lo) + Z.of_nat (length hi))) eqn:C.
    + rewrite app_nth2 by lia. f_equal. f_equal. lia.
    + if_lia. rewrite app_nth1 by lia. rewrite Z.sub_0_r. reflexivity.
  - intros o Ho. cbn [rom with_rom]. rewrite G2 by lia. cbn [rom with_rom]. rewrite G1 by lia.
    if_lia. if_lia. reflexivity.
Qed.

(* ---- Cpu::reset reads only: RAM / NVRAM / ROM / display register are not changed by reads ---- *)
Definition mems_same (b b' : bus) : Prop :=
  rom b' = rom b /\ vid b' = vid b /\ bbram b' = bbram b /\ ram b' = ram b /\ dirty b' = dirty b.

Lemma mems_same_refl b : mems_same b b.
Proof. repeat split. Qed.
Lemma mems_same_trans a b c : mems_same a b -> mems_same b c -> mems_same a c.
Proof. unfold mems_same. intuition congruence. Qed.

Lemma dev_read_byte_mems d a b : match dev_read_byte d a b with Ok _ b' | Err _ b' => mems_same b b' | _ => True end.
Proof.
  destruct d; cbn [dev_read_byte]; unfold lift_r;
    try (destruct (mem_read_byte _ _); try apply mems_same_refl; exact I); try apply mems_same_refl.
  destruct (duart_read_byte _ _) as [[v du]| |]; try apply mems_same_refl; try exact I. repeat split.
Qed.

Lemma read_word_mems a b : match bus_read_word a b with Ok _ b' | Err _ b' => mems_same b b' | _ => True end.
Proof.
  unfold bus_read_word, with_dev. destruct (negb _); [apply mems_same_refl|].
  destruct (get_device a) as [d|]; [|apply mems_same_refl].
  destruct d; cbn [dev_read_word]; unfold lift_r;
    try (destruct (mem_read_word _ _); try apply mems_same_refl; exact I); try apply mems_same_refl.
  apply dev_read_byte_mems.
Qed.

Lemma rd_word_mems a m : match rd_word a m with Ok _ m' | Err _ m' => mems_same (mbus m) (mbus m') /\ mregs m' = mregs m | _ => True end.
Proof.
  unfold rd_word, liftb. pose proof (read_word_mems a (mbus m)) as H.
  destruct (bus_read_word a (mbus m)); cbn; auto.
Qed.

(* the architected reset: registers as a function of the four words read *)
Definition reset_psw (psw : Z) : Z :=
  Z.lor (clr32 (if bset psw F_I then clr32 psw F_I else psw) F_ISC) 24.
Definition reset_pcbp (pcbp psw : Z) : Z := if bset psw F_I then add32 pcbp 12 else pcbp.

Ltac rconst := unfold R_FP, R_AP, R_PSW, R_SP, R_PCBP, R_ISP, R_PC in *.
Ltac rsimp := repeat first [rewrite R_setR_same | rewrite R_setR_other by lia | rewrite R_with_bus].
Ltac rsimp_in H := repeat first [rewrite R_setR_same in H | rewrite R_setR_other in H by lia | rewrite R_with_bus in H].

Lemma cpu_reset_spec m m' :
  cpu_reset m = Ok tt m' ->
  exists pcbp psw pc sp b1 b2 b3,
    bus_read_word 128 (mbus m) = Ok pcbp b1 /\ bus_read_word pcbp b1 = Ok psw b2
    /\ bus_read_word (pcbp + 4) b2 = Ok pc b3 /\ bus_read_word (pcbp + 8) b3 = Ok sp (mbus m')
    /\ R m' R_PC = pc /\ R m' R_SP = sp /\ R m' R_PCBP = reset_pcbp pcbp psw /\ R m' R_PSW = reset_psw psw
    /\ (forall i, 0 <= i <= 10 -> R m' i = R m i) /\ R m' R_ISP = R m R_ISP.
Proof.
  unfold cpu_reset, rd_word, liftb, setPSW, PSW, reset_pcbp, reset_psw. rconst. intros H.
  destruct (bus_read_word 128 (mbus m)) as [pcbp b1| | |] eqn:E1; cbn [bind] in H; try discriminate.
  cbn [mbus setR with_regs with_bus] in H. rsimp_in H.
  destruct (bus_read_word pcbp b1) as [psw b2| | |] eqn:E2; cbn [bind] in H; try discriminate.
  cbn [mbus setR with_regs with_bus] in H. rsimp_in H.
  destruct (bus_read_word (pcbp + 4) b2) as [pc b3| | |] eqn:E3; cbn [bind] in H; try discriminate.
  cbn [mbus setR with_regs with_bus] in H. rsimp_in H.
  destruct (bus_read_word (pcbp + 8) b3) as [sp b4| | |] eqn:E4; cbn [bind] in H; try discriminate.
  rsimp_in H.
  exists pcbp, psw, pc, sp, b1, b2, b3.
  destruct (bset psw F_I) eqn:EI; inversion H; subst m'; clear H; cbn [mbus setR with_regs with_bus];
    (split; [first [reflexivity|assumption]|]); (split; [first [reflexivity|assumption]|]); (split; [first [reflexivity|assumption]|]); (split; [exact E4|]);
    repeat split; rsimp; try reflexivity; intros; rsimp; reflexivity.
Qed.

(* Cpu::reset only reads: whatever it returns, the memories are as before *)
Lemma cpu_reset_mems m :
  match cpu_reset m with Ok _ m' | Err _ m' => mems_same (mbus m) (mbus m') | _ => True end.
Proof.
  unfold cpu_reset.
  pose proof (rd_word_mems 128 m) as K1.
  destruct (rd_word 128 m) as [v1 m1| | |]; cbn [bind]; auto; [|apply K1].
  destruct K1 as [K1 _].
  set (m1' := setR m1 R_PCBP v1).
  pose proof (rd_word_mems (R m1' R_PCBP) m1') as K2.
  destruct (rd_word (R m1' R_PCBP) m1') as [v2 m2| | |]; cbn [bind]; auto;
    [|eapply mems_same_trans; [exact K1|apply K2]].
  destruct K2 as [K2 _].
  set (m2' := setPSW m2 v2).
  pose proof (rd_word_mems (R m2' R_PCBP + 4) m2') as K3.
  destruct (rd_word (R m2' R_PCBP + 4) m2') as [v3 m3| | |]; cbn [bind]; auto;
    [|eapply mems_same_trans; [exact K1|eapply mems_same_trans; [exact K2|apply K3]]].
  destruct K3 as [K3 _].
  set (m3' := setR m3 R_PC v3).
  pose proof (rd_word_mems (R m3' R_PCBP + 8) m3') as K4.
  destruct (rd_word (R m3' R_PCBP + 8) m3') as [v4 m4| | |]; cbn [bind]; auto;
    [|eapply mems_same_trans; [exact K1|eapply mems_same_trans; [exact K2|eapply mems_same_trans; [exact K3|apply K4]]]].
  destruct K4 as [K4 _].
  assert (T : mems_same (mbus m) (mbus m4)).
  { eapply mems_same_trans; [exact K1|]. eapply mems_same_trans; [exact K2|].
    eapply mems_same_trans; [exact K3|exact K4]. }
  destruct (bset _ F_I); cbn [mbus setPSW setR with_regs]; exact T.
Qed.

(* ---- Dmd::reset ---- *)
Section Reset.
Variable LO1 HI1 LO2 HI2 : list Z.
Hypothesis L1 : Z.of_nat (length LO1) = 32768.
Hypothesis H1 : Z.of_nat (length HI1) = 32768.
Hypothesis L2 : Z.of_nat (length LO2) = 65536.
Hypothesis H2 : Z.of_nat (length HI2) = 65536.

Definition sel_lo (v : Z) := if v =? 1 then LO1 else LO2.
Definition sel_hi (v : Z) := if v =? 1 then HI1 else HI2.
Definition image_len (v : Z) : Z := if v =? 1 then 65536 else 131072.

Lemma sel_len v : Z.of_nat (length (sel_lo v)) + Z.of_nat (length (sel_hi v)) = image_len v
                  /\ 0 < Z.of_nat (length (sel_lo v)) < 131072.
Proof. unfold sel_lo, sel_hi, image_len. destruct (v =? 1); lia. Qed.

(* the state after the two loads, before Cpu::reset *)
Lemma dmd_reset_loaded v m :
  bus_wf (mbus m) ->
  exists b2,
    dmd_reset LO1 HI1 LO2 HI2 v m = cpu_reset (with_bus m b2)
    /\ bus_wf b2 /\ same_but_rom (mbus m) b2
    /\ (forall o, 0 <= o < image_len v -> mget (rom b2) o = image_at (sel_lo v) (sel_hi v) o)
    /\ (forall o, image_len v <= o -> mget (rom b2) o = mget (rom (mbus m)) o).
Proof.
  intros W. destruct (sel_len v) as [Hs Hl].
  destruct (load_images (sel_lo v) (sel_hi v) (mbus m) W Hl) as [b1 [b2 [E1 [E2 [W2 [S2 [G2 G2']]]]]]]; [rewrite Hs; unfold image_len; destruct (v =? 1); lia|].
  exists b2. rewrite Hs in *.
  split; [|split; [exact W2|split; [exact S2|split; [exact G2|exact G2']]]].
  unfold dmd_reset. fold (sel_lo v). fold (sel_hi v).
  unfold liftb at 1. rewrite E1. cbn [bind].
  unfold liftb at 1. cbn [mbus with_bus]. rewrite E2. cbn [bind]. reflexivity.
Qed.

(* reset(version) from any state: the ROM holds the selected image, RAM / NVRAM / display register / DUART
   queues are those of before the reset *)
Lemma dmd_reset_image v m :
  bus_wf (mbus m) ->
  match dmd_reset LO1 HI1 LO2 HI2 v m with
  | Ok _ m' | Err _ m' =>
    (forall o, 0 <= o < image_len v -> mget (rom (mbus m')) o = image_at (sel_lo v) (sel_hi v) o)
    /\ (forall o, image_len v <= o -> mget (rom (mbus m')) o = mget (rom (mbus m)) o)
    /\ ram (mbus m') = ram (mbus m) /\ bbram (mbus m') = bbram (mbus m) /\ vid (mbus m') = vid (mbus m)
  | _ => True
  end.
Proof.
  intros W. destruct (dmd_reset_loaded v m W) as [b2 [E [W2 [S2 [G G']]]]]. rewrite E.
  pose proof (cpu_reset_mems (with_bus m b2)) as K. cbn [mbus with_bus] in K.
  destruct S2 as [_ [_ [Sv [Sn [Sr _]]]]].
  destruct (cpu_reset (with_bus m b2)) as [u m'|e m'| |]; auto;
    destruct K as [Kr [Kv [Kn [Kram _]]]]; rewrite Kr; repeat split; auto; congruence.
Qed.

(* resetting twice with the same version: the second reset starts Cpu::reset from a bus with the same ROM image *)
Lemma dmd_reset_image_idempotent v m m1 m2 :
  bus_wf (mbus m) -> bus_wf (mbus m1) ->
  dmd_reset LO1 HI1 LO2 HI2 v m = Ok tt m1 -> dmd_reset LO1 HI1 LO2 HI2 v m1 = Ok tt m2 ->
  forall o, 0 <= o -> mget (rom (mbus m2)) o = mget (rom (mbus m1)) o.
Proof.
  intros W W1 E1 E2 o Ho.
  pose proof (dmd_reset_image v m W) as K1. rewrite E1 in K1.
  pose proof (dmd_reset_image v m1 W1) as K2. rewrite E2 in K2.
  destruct K1 as [A1 [B1 _]]. destruct K2 as [A2 [B2 _]].
  destruct (Z_lt_ge_dec o (image_len v)).
  - rewrite A2, A1 by lia. reflexivity.
  - now rewrite B2 by lia.
Qed.

End Reset.

(* ---- NVRAM: what the host snapshot returns is what the guest reads ---- *)
Lemma mem_slice_nth_z m n : forall off i, 0 <= i < Z.of_nat n ->
  nth (Z.to_nat i) (mem_slice m off n) 0 = mget m (off + i).
Proof.
  intros off i Hi. apply nth_error_nth. rewrite (mem_slice_nth m n off (Z.to_nat i)) by lia. f_equal. f_equal. lia.
Qed.

Lemma nvram_host_guest_agree b i :
  bus_wf b -> 0 <= i < 8192 ->
  bus_read_byte (6291456 + i) b = Ok (nth (Z.to_nat i) (bus_get_nvram b) 0) b.
Proof.
  intros W Hi. destruct W as [_ _ [Nb [Ns Nr]] _].
  unfold bus_read_byte, with_dev.
  assert (G : get_device (6291456 + i) = Some DBbram) by (unfold get_device; repeat if_lia; reflexivity).
  rewrite G. cbn [dev_read_byte dev_mem]. unfold mem_read_byte, mend, lift_r. rewrite Nb, Ns.
  if_lia. replace (in_vec (bbram b) (6291456 + i - 6291456)) with true by (symmetry; apply in_vec_spec; lia).
  unfold bus_get_nvram, NVRAM_SIZE. rewrite mem_slice_nth_z by lia.
  f_equal. f_equal. lia.
Qed.

(* set_nvram: the first 8192 bytes of the image become the NVRAM contents (the rest of the bus is untouched) *)
Lemma set_nvram_from_spec l : forall n m i,
  0 <= i ->
  let m' := set_nvram_from m i l n in
  mbase m' = mbase m /\ msize m' = msize m /\ mro m' = mro m
  /\ forall o, 0 <= o -> mget m' o =
       if (i <=? o) && (o <? i + Z.of_nat (Nat.min n (length l)))
       then w8 (nth (Z.to_nat (o - i)) l 0) else mget m o.
Proof.
  induction l as [|x t IH]; intros n m i Hi; cbn zeta.
  - destruct n; cbn [set_nvram_from length Nat.min]; repeat split; auto; intros o Ho; if_lia; reflexivity.
  - destruct n as [|k]; cbn [set_nvram_from length Nat.min].
    + repeat split; auto. intros o Ho. if_lia. reflexivity.
    + destruct (IH k (mset m i (w8 x)) (i + 1)) as [Hb [Hs [Hr Hg]]]; [lia|].
      rewrite Hb, Hs, Hr. repeat split; auto. intros o Ho. rewrite Hg by exact Ho.
      rewrite Nat2Z.inj_succ.
      destruct (Z.eq_dec o i) as [->|N].
      * if_lia. rewrite mget_mset_same. if_lia. now rewrite Z.sub_diag.
      * destruct ((i + 1 <=? o) && (o <? i + 1 + Z.of_nat (Nat.min k (length t)))) eqn:C.
        -- if_lia. replace (Z.to_nat (o - i)) with (S (Z.to_nat (o - (i + 1)))) by lia. reflexivity.
        -- rewrite mget_mset_other by lia. if_lia. reflexivity.
Qed.

Lemma nvram_restore_visible l b i :
  bus_wf b -> 0 <= i < 8192 -> i < Z.of_nat (length l) ->
  let b' := bus_set_nvram l b in
  bus_wf b' /\ bus_read_byte (6291456 + i) b' = Ok (w8 (nth (Z.to_nat i) l 0)) b'
  /\ rom b' = rom b /\ ram b' = ram b /\ vid b' = vid b /\ duart_ b' = duart_ b.
Proof.
  intros W Hi Hl. cbn zeta.
  destruct (set_nvram_from_spec l (Z.to_nat NVRAM_SIZE) (bbram b) 0 ltac:(lia)) as [Hb [Hs [Hr Hg]]].
  assert (W' : bus_wf (bus_set_nvram l b)).
  { destruct W as [Wr Wv [Nb [Ns Nr]] Wram]. constructor; cbn [bus_set_nvram rom vid bbram ram with_bbram]; auto. rewrite Hb, Hs, Hr. auto. }
  split; [exact W'|]. split.
  - rewrite (nvram_host_guest_agree _ i W' Hi). f_equal.
    unfold bus_get_nvram, NVRAM_SIZE. rewrite mem_slice_nth_z by lia.
    cbn [bbram bus_set_nvram with_bbram]. rewrite Hg by lia. rewrite Z.add_0_l, Z.sub_0_r.
    unfold NVRAM_SIZE. if_lia. reflexivity.
  - repeat split.
Qed.
