(* C07: control blocks with the R flag (register save area).  context_switch_1 into such a block saves PC, PSW, SP and then
   AP, FP, r0-r8 in the old block; RETPS through a block whose saved PSW has R reloads them. *)
From Coq Require Import ZArith Lia Bool List.
From Dmd Require Import Model.Bits Model.Types Model.Mem Model.Bus Model.Decode Model.Cpu.
From Dmd Require Import Proofs.BitsLemmas Proofs.BitKit Proofs.BusProofs Proofs.RegKit Proofs.ResetProofs
  Proofs.MachKit Proofs.ExceptionProofs Proofs.InterruptProofs Proofs.InterruptProofsI.
Import ListNotations.
Open Scope Z_scope.

Definition pcb_in_ram (P : Z) : Prop := RAMB <= P /\ P + 64 <= RAME /\ P mod 4 = 0.

Lemma pcb_word P k : pcb_in_ram P -> 0 <= k <= 60 -> k mod 4 = 0 -> in_ram_w (P + k).
Proof. intros [A [B C]] Hk Hm. unfold in_ram_w. repeat split; lia. Qed.

Lemma add32_pcb P k : pcb_in_ram P -> 0 <= k <= 64 -> add32 P k = P + k.
Proof. intros [A [B C]] Hk. unfold add32, w32. rewrite Z.mod_small; unfold RAMB, RAME in *; lia. Qed.

(* context_switch_1 into a control block with the R flag: PC, PSW, SP and then AP, FP, r0-r8 are saved in the old block *)
Lemma cs1_effect_R N P m :
  bus_wf (mbus m) -> R m R_PCBP = P -> pcb_in_ram P -> in_ram_w N -> (N + 4 <= P \/ P + 64 <= N) ->
  Z.testbit (ldw m N) 8 = true ->
  exists m', context_switch_1 N m = Ok tt m'
    /\ bus_wf (mbus m')
    /\ PSW m' = Z.lor (clr32 (PSW m) F_R) (Z.land (ldw m N) F_R)
    /\ R m' R_FP = P + 52
    /\ (forall i, 0 <= i <= 15 -> i <> 9 -> i <> 11 -> R m' i = R m i)
    /\ ldw m' P = w32 (PSW m') /\ ldw m' (P + 4) = w32 (R m R_PC) /\ ldw m' (P + 8) = w32 (R m R_SP)
    /\ ldw m' (P + 20) = w32 (R m R_AP) /\ ldw m' (P + 24) = w32 (R m R_FP)
    /\ (forall k, 0 <= k <= 8 -> ldw m' (P + 28 + 4 * k) = w32 (R m k))
    /\ (forall a, RAMB <= a -> (a < P \/ P + 64 <= a) -> ramb m' a = ramb m a).
Proof.
  intros W EP HP HN D HR. pose proof HP as [p1 [p2 p3]]. pose proof HN as [n1 [n2 n3]].
  unfold context_switch_1, setPSW, PSW. rconst. rewrite EP.
  rewrite !(add32_pcb P) by (auto; lia).
  rewrite wr_word_ram by (auto; apply pcb_word; auto; lia). cbn [bind]. rewrite !R_stw.
  rewrite rd_word_ram by (first [cbn [mbus setR with_regs]; apply wf_stw; assumption | assumption]). cbn [bind].
  rewrite ldw_setR. rewrite ldw_stw_other by (unfold RAMB in *; lia).
  rewrite !R_setR_same. rewrite !R_setR_other by lia. rewrite !R_stw. rewrite EP.
  set (psw' := Z.lor (clr32 (R m 11) F_R) (Z.land (ldw m N) F_R)).
  assert (QR : bset psw' F_R = true).
  { unfold psw'. rewrite bset_R, Z.lor_spec, testbit_clr32, Z.land_spec, HR. psw_consts. eval_closed_bits.
    now rewrite orb_true_r. }
  Ltac wfs := repeat first [assumption | apply wf_stw | (cbn [mbus setR with_regs]; progress idtac; apply wf_stw)
                             | cbn [mbus setR with_regs] ].
  assert (HP0 : in_ram_w P) by (replace P with (P + 0) by lia; apply pcb_word; [exact HP | lia | reflexivity]).
  Ltac wstep HP EP :=
    rewrite ?R_stw, ?R_setR_same; rewrite ?R_setR_other by lia; rewrite ?R_stw, ?EP;
    rewrite ?(add32_pcb _ _ HP) by lia;
    rewrite wr_word_ram by (first [solve [wfs] | assumption | apply pcb_word; [exact HP | lia | reflexivity]]);
    cbn [bind].
  wstep HP EP. wstep HP EP.
  rewrite ?R_stw, ?R_setR_same. rewrite QR. cbv zeta.
  do 11 (wstep HP EP).
  rewrite ?R_stw, ?R_setR_same; rewrite ?R_setR_other by lia; rewrite ?R_stw, ?EP; rewrite ?(add32_pcb _ _ HP) by lia.
  Ltac ldws := rewrite ?ldw_setR;
    repeat first [rewrite ldw_stw_same by (unfold RAMB in *; lia) | rewrite ldw_stw_other by (unfold RAMB in *; lia) | rewrite ldw_setR].
  Ltac regs := repeat first [rewrite R_setR_same | rewrite R_setR_other by lia | rewrite R_stw].
  eexists. split; [reflexivity|].
  split; [repeat first [assumption | rewrite wf_setR | apply wf_stw]|].
  split; [regs; reflexivity|].
  split; [regs; reflexivity|].
  split; [intros i Hi N9 N11; regs; reflexivity|].
  split; [ldws; regs; reflexivity|].
  split; [ldws; reflexivity|].
  split; [ldws; reflexivity|].
  split; [ldws; reflexivity|].
  split; [ldws; reflexivity|].
  split.
  - intros k Hk. assert (Ek : k = 0 \/ k = 1 \/ k = 2 \/ k = 3 \/ k = 4 \/ k = 5 \/ k = 6 \/ k = 7 \/ k = 8) by lia.
    destruct Ek as [Ek|[Ek|[Ek|[Ek|[Ek|[Ek|[Ek|[Ek|Ek]]]]]]]]; subst k.
    + replace (P + 28 + 4 * 0) with (P + 28) by lia. ldws. reflexivity.
    + replace (P + 28 + 4 * 1) with (P + 32) by lia. ldws. reflexivity.
    + replace (P + 28 + 4 * 2) with (P + 36) by lia. ldws. reflexivity.
    + replace (P + 28 + 4 * 3) with (P + 40) by lia. ldws. reflexivity.
    + replace (P + 28 + 4 * 4) with (P + 44) by lia. ldws. reflexivity.
    + replace (P + 28 + 4 * 5) with (P + 48) by lia. ldws. reflexivity.
    + replace (P + 28 + 4 * 6) with (P + 52) by lia. ldws. reflexivity.
    + replace (P + 28 + 4 * 7) with (P + 56) by lia. ldws. reflexivity.
    + replace (P + 28 + 4 * 8) with (P + 60) by lia. ldws. reflexivity.
  - intros a Ha Hd. rewrite ?ramb_setR. repeat (rewrite ramb_stw_other by (unfold RAMB in *; lia); rewrite ?ramb_setR). reflexivity.
Qed.

(* ---- context_switch_3 with the R flag and an empty block-move list ---- *)
Lemma iter_loop_done_now p body m m' : body m = LDone m' -> iter_loop p body m = LDone m'.
Proof.
  revert m m'. induction p as [q IH|q IH|]; intros m m' H; cbn [iter_loop].
  - rewrite H. reflexivity.
  - rewrite (IH m m' H). reflexivity.
  - exact H.
Qed.

Lemma cs3_loop_empty m : R m 2 = 0 -> cs3_loop m = Ok tt m.
Proof.
  intros H. unfold cs3_loop, run_loop.
  rewrite (iter_loop_done_now loop_fuel cs3_body m m); [reflexivity|].
  unfold cs3_body. rewrite H. reflexivity.
Qed.

Definition after_cs3 (m : mach) (P : Z) : mach :=
  setR (setR (setR (setR m 0 (P + 64)) 2 0) 0 (P + 68)) 0 (P + 72).

Lemma cs3_effect_R_empty m P :
  bus_wf (mbus m) -> R m R_PCBP = P -> in_ram_w (P + 64) -> ldw m (P + 64) = 0 -> bset (PSW m) F_R = true ->
  context_switch_3 m = Ok tt (after_cs3 m P).
Proof.
  intros W EP HP L BR. pose proof HP as [p1 [p2 p3]].
  unfold context_switch_3. rewrite BR. rconst. rewrite EP.
  assert (A64 : add32 P 64 = P + 64) by (unfold add32, w32; rewrite Z.mod_small; unfold RAMB, RAME in *; lia).
  rewrite A64. rewrite R_setR_same.
  rewrite rd_word_ram by (first [rewrite mbus_setR; assumption | assumption]). cbn [bind].
  rewrite ldw_setR, L. rewrite R_setR_other by lia. rewrite R_setR_same.
  assert (A68 : add32 (P + 64) 4 = P + 68) by (unfold add32, w32; rewrite Z.mod_small; unfold RAMB, RAME in *; lia).
  rewrite A68.
  rewrite cs3_loop_empty by (rewrite R_setR_other by lia; apply R_setR_same). cbn [bind].
  rewrite R_setR_same.
  assert (A72 : add32 (P + 68) 4 = P + 72) by (unfold add32, w32; rewrite Z.mod_small; unfold RAMB, RAME in *; lia).
  rewrite A72. reflexivity.
Qed.

(* ---- RETPS from a kernel-level state whose interrupt stack names a control block with R (and without I), whose
   block-move list is empty: PSW, PC, SP and then FP, r0-r8, AP are reloaded from the block ---- *)
Lemma retps_effect_R ir m :
  iopcode ir = 12488 -> is_kernel m = true -> bus_wf (mbus m) ->
  4 <= R m R_ISP < 4294967296 -> in_ram_w (R m R_ISP - 4) ->
  let P := ldw m (R m R_ISP - 4) in
  pcb_in_ram P -> in_ram_w (P + 64) -> ldw m (P + 64) = 0 ->
  let Q := ldw m P in
  Z.testbit Q 8 = true -> Z.testbit Q 7 = false ->
  exists m', exec ir m = Ok 0 m' /\ mbus m' = mbus m
    /\ R m' R_ISP = R m R_ISP - 4 /\ R m' R_PCBP = P /\ PSW m' = clr32 Q F_TM
    /\ R m' R_PC = ldw m (P + 4) /\ R m' R_SP = ldw m (P + 8)
    /\ R m' R_FP = ldw m (P + 24) /\ R m' R_AP = ldw m (P + 20)
    /\ (forall k, 0 <= k <= 8 -> R m' k = ldw m (P + 28 + 4 * k)).
Proof.
  intros Ho K W Hisp Hs P HP H64 L64 Q QR QI.
  assert (HPw : forall k, 0 <= k <= 60 -> k mod 4 = 0 -> in_ram_w (P + k)) by (intros; apply pcb_word; assumption).
  assert (HP0 : in_ram_w P) by (replace P with (P + 0) by lia; apply HPw; [lia | reflexivity]).
  rewrite exec_retps_kernel by assumption.
  unfold irq_pop. rconst.
  assert (E4 : sub32 (R m 14) 4 = R m 14 - 4) by (unfold sub32, w32; rewrite Z.mod_small; lia).
  rewrite E4, R_setR_same.
  rewrite rd_word_ram by (first [rewrite mbus_setR; assumption | assumption]). cbn [bind].
  rewrite ldw_setR. fold P.
  rewrite rd_word_ram by (first [rewrite mbus_setR; assumption | assumption]). cbn [bind].
  rewrite ldw_setR. fold Q. cbv zeta.
  unfold setPSW.
  rewrite cs2_effect; [| rewrite ?mbus_setR; assumption | exact HP0 | apply HPw; [lia|reflexivity] | apply HPw; [lia|reflexivity]
                        | rewrite !ldw_setR; fold Q; exact QI].
  cbn [bind]. rewrite !ldw_setR. fold Q.
  assert (BR : bset (clr32 Q F_TM) F_R = true).
  { rewrite bset_R, testbit_clr32, QR. reflexivity. }
  rewrite (cs3_effect_R_empty _ P);
    [| rewrite ?mbus_setR; assumption
     | rconst; rewrite !R_setR_other by lia; apply R_setR_same
     | exact H64
     | rewrite !ldw_setR; exact L64
     | unfold PSW; rconst; rewrite !R_setR_other by lia; rewrite R_setR_same; exact BR].
  cbn [bind]. unfold after_cs3, PSW. rconst.
  rewrite !R_setR_other by lia. rewrite R_setR_same. rewrite BR.
  pose proof HP as [q1 [q2 q3]].
  assert (AD : forall k, 0 <= k <= 64 -> add32 P k = P + k) by (intros; apply add32_pcb; assumption).
  rewrite !AD by lia.
  Ltac ldstep HPw W :=
    rewrite rd_word_ram by (first [rewrite ?mbus_setR; assumption | apply HPw; [lia | reflexivity]]);
    cbn [bind]; rewrite !ldw_setR.
  do 11 (ldstep HPw W).
  eexists. split; [reflexivity|]. split; [rewrite ?mbus_setR; reflexivity|].
  split; [rewrite !R_setR_other by lia; apply R_setR_same|].
  split; [rewrite !R_setR_other by lia; apply R_setR_same|].
  split; [unfold PSW; rconst; rewrite !R_setR_other by lia; apply R_setR_same|].
  split; [rewrite !R_setR_other by lia; apply R_setR_same|].
  split; [rewrite !R_setR_other by lia; apply R_setR_same|].
  split; [rewrite !R_setR_other by lia; apply R_setR_same|].
  split; [apply R_setR_same|].
  intros k Hk. assert (Ek : k = 0 \/ k = 1 \/ k = 2 \/ k = 3 \/ k = 4 \/ k = 5 \/ k = 6 \/ k = 7 \/ k = 8) by lia.
  destruct Ek as [Ek|[Ek|[Ek|[Ek|[Ek|[Ek|[Ek|[Ek|Ek]]]]]]]]; subst k;
    rewrite ?R_setR_other by lia; rewrite R_setR_same; f_equal; lia.
Qed.

(* ---- interrupt entry through a handler control block with R (and without I), empty block-move list ---- *)
Lemma ldw_frame m m' a : (forall k, 0 <= k <= 3 -> ramb m' (a + k) = ramb m (a + k)) -> ldw m' a = ldw m a.
Proof.
  intros H. unfold ldw. rewrite <- (Z.add_0_r a) at 1 5. rewrite !H by lia. rewrite Z.add_0_r. reflexivity.
Qed.

Lemma on_interrupt_effect_gen_R v m N P S H :
  bus_wf (mbus m) -> 0 <= v -> in_rom_w (140 + 4 * v) ->
  romw m (140 + 4 * v) = N -> R m R_PCBP = P -> R m R_ISP = S -> ldw m N = H ->
  pcb_in_ram N -> in_ram_w (N + 64) -> ldw m (N + 64) = 0 ->
  pcb_in_ram P -> in_ram_w S -> S + 4 < 4294967296 ->
  (P + 64 <= N \/ N + 68 <= P) -> (S + 4 <= P \/ P + 64 <= S) -> (S + 4 <= N \/ N + 68 <= S) ->
  Z.testbit H 8 = true -> Z.testbit H 7 = false ->
  exists m1, on_interrupt v m = Ok tt m1
    /\ bus_wf (mbus m1)
    /\ R m1 R_ISP = S + 4 /\ R m1 R_PCBP = N /\ PSW m1 = handler_psw H
    /\ R m1 R_PC = ldw m (N + 4) /\ R m1 R_SP = ldw m (N + 8)
    /\ ldw m1 S = w32 P /\ ldw m1 P = w32 (saved_psw (PSW m) H)
    /\ ldw m1 (P + 4) = w32 (R m R_PC) /\ ldw m1 (P + 8) = w32 (R m R_SP)
    /\ ldw m1 (P + 20) = w32 (R m R_AP) /\ ldw m1 (P + 24) = w32 (R m R_FP)
    /\ (forall k, 0 <= k <= 8 -> ldw m1 (P + 28 + 4 * k) = w32 (R m k))
    /\ (forall a, RAMB <= a -> (a < S \/ S + 4 <= a) -> (a < P \/ P + 64 <= a) -> ramb m1 a = ramb m a).
Proof.
  intros W Hv Hrom EN EP ES EH HN HN64 LN64 HP HS Hlt D1 D2 D3 HR HI.
  pose proof HN as [n1 [n2 n3]]. pose proof HP as [p1 [p2 p3]]. pose proof HS as [s1 [s2 s3]].
  assert (HN0 : in_ram_w N) by (replace N with (N + 0) by lia; apply pcb_word; [exact HN | lia | reflexivity]).
  assert (HN4 : in_ram_w (N + 4)) by (apply pcb_word; [exact HN | lia | reflexivity]).
  assert (HN8 : in_ram_w (N + 8)) by (apply pcb_word; [exact HN | lia | reflexivity]).
  assert (HS' : in_ram_w (R m R_ISP)) by (rewrite ES; exact HS).
  assert (Hlt' : R m R_ISP + 4 < 4294967296) by (rewrite ES; exact Hlt).
  assert (E0 : on_interrupt v m =
               bind (context_switch_1 N (entry0 m)) (fun _ m => bind (context_switch_2 N m) (fun _ m =>
                 context_switch_3 (psw_enter_2 m)))).
  { unfold on_interrupt. rewrite rd_word_rom by assumption. cbn [bind]. rewrite EN.
    pose proof (entry0_eq m W HS' Hlt') as K.
    destruct (irq_push (R m R_PCBP) m) as [u mx|e mx| |]; cbn [bind] in *; try discriminate.
    assert (K' : psw_enter_1 mx = entry0 m) by congruence. cbv zeta. rewrite K'. reflexivity. }
  rewrite E0. clear E0.
  pose proof (entry0_wf m W) as W0.
  assert (E13 : R (entry0 m) R_PCBP = P) by (rewrite entry0_R by (unfold R_PCBP; lia); exact EP).
  assert (LN : forall a, RAMB <= a -> (a + 4 <= S \/ S + 4 <= a) -> ldw (entry0 m) a = ldw m a).
  { intros a Ha Da. apply entry0_ldw; rewrite ?ES; unfold RAMB in *; lia. }
  assert (LN0 : ldw (entry0 m) N = H) by (rewrite LN by (unfold RAMB in *; lia); exact EH).
  assert (HR0 : Z.testbit (ldw (entry0 m) N) 8 = true) by (rewrite LN0; exact HR).
  assert (D1' : N + 4 <= P \/ P + 64 <= N) by lia.
  destruct (cs1_effect_R N P (entry0 m) W0 E13 HP HN0 D1' HR0)
    as [m5 (E5 & W5 & Psw5 & Fp5 & Rg5 & L0 & L4 & L8 & L20 & L24 & Lk & Fr5)].
  rewrite E5. cbn [bind].
  assert (L5 : forall a, RAMB <= a -> (a + 4 <= P \/ P + 64 <= a) -> ldw m5 a = ldw (entry0 m) a).
  { intros a Ha Da. apply ldw_frame. intros k Hk. apply Fr5; lia. }
  assert (L5N0 : ldw m5 N = H) by (rewrite L5 by (unfold RAMB in *; lia); exact LN0).
  rewrite cs2_effect; [| exact W5 | exact HN0 | exact HN4 | exact HN8 | rewrite L5N0; exact HI].
  cbn [bind]. rewrite L5N0.
  unfold psw_enter_2, setPSW, PSW. rconst. rewrite !R_setR_other by lia. rewrite R_setR_same.
  fold (handler_psw H).
  assert (BR : bset (handler_psw H) F_R = true).
  { unfold handler_psw. rewrite bset_R, !Z.lor_spec, !testbit_clr32, HR. psw_consts. eval_closed_bits. reflexivity. }
  rewrite (cs3_effect_R_empty _ N);
    [| rewrite ?mbus_setR; exact W5
     | rconst; rewrite !R_setR_other by lia; apply R_setR_same
     | exact HN64
     | rewrite !ldw_setR; rewrite L5 by (unfold RAMB in *; lia); rewrite LN by (unfold RAMB in *; lia); exact LN64
     | unfold PSW; rconst; rewrite R_setR_same; exact BR].
  unfold after_cs3.
  eexists. split; [reflexivity|].
  split; [rewrite ?mbus_setR; exact W5|].
  split.
  { unfold R_ISP. rewrite !R_setR_other by lia. rewrite Rg5 by lia. change 14 with R_ISP. rewrite entry0_isp. rconst. lia. }
  split; [unfold R_PCBP; rewrite !R_setR_other by lia; apply R_setR_same|].
  split; [unfold PSW, R_PSW; rewrite !R_setR_other by lia; apply R_setR_same|].
  split; [unfold R_PC; rewrite !R_setR_other by lia; rewrite R_setR_same; rewrite L5 by (unfold RAMB in *; lia); apply LN; unfold RAMB in *; lia|].
  split; [unfold R_SP; rewrite !R_setR_other by lia; rewrite R_setR_same; rewrite L5 by (unfold RAMB in *; lia); apply LN; unfold RAMB in *; lia|].
  rewrite !ldw_setR.
  split.
  { rewrite L5 by (unfold RAMB in *; lia). rewrite <- ES, <- EP. apply entry0_ldw_isp. rconst. rewrite ES. exact s1. }
  split.
  { rewrite L0, Psw5, LN0, entry0_psw. reflexivity. }
  split; [rewrite L4; rewrite entry0_R by (unfold R_PC; lia); reflexivity|].
  split; [rewrite L8; rewrite entry0_R by (unfold R_SP; lia); reflexivity|].
  split; [rewrite L20; rewrite entry0_R by (unfold R_AP; lia); reflexivity|].
  split; [rewrite L24; rewrite entry0_R by (unfold R_FP; lia); reflexivity|].
  split; [intros k Hk; rewrite !ldw_setR; rewrite Lk by lia; rewrite entry0_R by lia; reflexivity|].
  intros a Ha D4 D5. rewrite !ramb_setR. rewrite Fr5 by (try assumption; unfold RAMB in *; lia).
  apply entry0_ramb; rconst; rewrite ?ES; assumption.
Qed.

(* interrupt delivered through a handler control block with the R flag (kernel level, no I, empty block-move lists in
   both blocks); the handler returns at once with RETPS: the interrupted program continues with PC, SP, r0-r8, FP, AP,
   PCBP, ISP, condition codes, priority level and execution level exactly as they were -- although entry and return
   use r0-r2 and FP as scratch, the register save area of the interrupted process's control block brings them back *)
Theorem interrupt_retps_transparent_R ir v m :
  iopcode ir = 12488 ->
  bus_wf (mbus m) -> 0 <= v -> in_rom_w (140 + 4 * v) ->
  let N := romw m (140 + 4 * v) in
  let P := R m R_PCBP in
  let S := R m R_ISP in
  pcb_in_ram N -> in_ram_w (N + 64) -> ldw m (N + 64) = 0 ->
  pcb_in_ram P -> in_ram_w (P + 64) -> ldw m (P + 64) = 0 ->
  in_ram_w S -> S + 4 < 4294967296 ->
  (P + 68 <= N \/ N + 68 <= P) -> (S + 4 <= P \/ P + 68 <= S) -> (S + 4 <= N \/ N + 68 <= S) ->
  let H := ldw m N in
  0 <= H -> Z.testbit H 8 = true -> Z.testbit H 7 = false -> Z.testbit H 11 = false -> Z.testbit H 12 = false ->
  Z.testbit (PSW m) 7 = false ->
  (forall i, 0 <= i <= 15 -> 0 <= R m i < 4294967296) ->
  exists m1 m2,
    on_interrupt v m = Ok tt m1 /\ exec ir m1 = Ok 0 m2
    /\ R m2 R_PC = R m R_PC /\ R m2 R_SP = R m R_SP /\ R m2 R_PCBP = P /\ R m2 R_ISP = S
    /\ (forall i, 0 <= i <= 10 -> R m2 i = R m i)
    /\ (forall k, In k [21; 20; 19; 18; 16; 15; 14; 13; 12; 11; 10; 9; 7] -> Z.testbit (PSW m2) k = Z.testbit (PSW m) k)
    /\ (forall a, RAMB <= a -> (a < S \/ S + 4 <= a) -> (a < P \/ P + 64 <= a) -> ramb m2 a = ramb m a).
Proof.
  intros Ho W Hv Hrom N P S HN HN64 LN64 HP HP64 LP64 HS Hlt D1 D2 D3 H H0 HR HI H11 H12 PI Rg.
  assert (D1' : P + 64 <= N \/ N + 68 <= P) by lia.
  assert (D2' : S + 4 <= P \/ P + 64 <= S) by lia.
  destruct (on_interrupt_effect_gen_R v m N P S H W Hv Hrom eq_refl eq_refl eq_refl eq_refl HN HN64 LN64 HP HS Hlt D1' D2' D3 HR HI)
    as [m1 (E1 & W1 & Isp1 & Pcbp1 & Psw1 & Pc1 & Sp1 & LS & LP & LP4 & LP8 & LP20 & LP24 & LPk & Fr)].
  pose proof HP as [p1 [p2 p3]]. pose proof HS as [s1 [s2 s3]]. pose proof HP64 as [q1 [q2 q3]].
  assert (Pr : 0 <= P < 4294967296) by (unfold RAMB, RAME in *; lia).
  assert (EP : ldw m1 (R m1 R_ISP - 4) = P).
  { rewrite Isp1. replace (S + 4 - 4) with S by lia. rewrite LS. now apply w32_id. }
  assert (L64 : ldw m1 (P + 64) = 0).
  { rewrite <- LP64. apply ldw_frame. intros k Hk. apply Fr; unfold RAMB in *; lia. }
  destruct (retps_effect_R ir m1 Ho) as [m2 (E2 & B2 & Isp2 & Pcbp2 & Psw2 & Pc2 & Sp2 & Fp2 & Ap2 & Rk2)].
  - eapply handler_psw_kernel; eauto.
  - exact W1.
  - rewrite Isp1. unfold RAMB in *. lia.
  - rewrite Isp1. replace (S + 4 - 4) with S by lia. exact HS.
  - rewrite EP. exact HP.
  - rewrite EP. exact HP64.
  - rewrite EP. exact L64.
  - rewrite EP, LP. unfold w32. rewrite Z.mod_pow2_bits_low with (n := 32) by lia.
    unfold saved_psw. rewrite Z.lor_spec, testbit_clr32, Z.land_spec, HR. psw_consts. eval_closed_bits.
    now rewrite orb_true_r.
  - rewrite EP, LP. unfold w32. rewrite Z.mod_pow2_bits_low with (n := 32) by lia.
    unfold saved_psw, psw1. repeat (rewrite Z.lor_spec || rewrite Z.land_spec || rewrite testbit_clr32).
    rewrite PI. psw_consts. eval_closed_bits. rewrite ?andb_false_r, ?andb_true_r, ?orb_false_r. reflexivity.
  - rewrite EP in *. exists m1, m2.
    split; [exact E1|]. split; [exact E2|].
    split; [rewrite Pc2, LP4; apply w32_id; apply Rg; unfold R_PC; lia|].
    split; [rewrite Sp2, LP8; apply w32_id; apply Rg; unfold R_SP; lia|].
    split; [exact Pcbp2|].
    split; [rewrite Isp2, Isp1; lia|].
    split.
    { intros i Hi.
      assert (Ei : 0 <= i <= 8 \/ i = 9 \/ i = 10) by lia. destruct Ei as [Ei|[Ei|Ei]].
      - rewrite (Rk2 i Ei), (LPk i Ei). apply w32_id. apply Rg. lia.
      - subst i. change 9 with R_FP. rewrite Fp2, LP24. apply w32_id. apply Rg. unfold R_FP. lia.
      - subst i. change 10 with R_AP. rewrite Ap2, LP20. apply w32_id. apply Rg. unfold R_AP. lia. }
    split.
    + intros k Hk. rewrite Psw2, LP. now apply saved_psw_keeps_bit.
    + intros a Ha Da Db. unfold ramb. rewrite B2. fold (ramb m1 a). now apply Fr.
Qed.

(* ---- the same with R and I together: context_switch_2 moves PCBP 12 bytes on, so the (empty) block-move list that
   context_switch_3 consults is the one 64 bytes behind the moved pointer ---- *)
Lemma on_interrupt_effect_gen_RI v m N P S H :
  bus_wf (mbus m) -> 0 <= v -> in_rom_w (140 + 4 * v) ->
  romw m (140 + 4 * v) = N -> R m R_PCBP = P -> R m R_ISP = S -> ldw m N = H ->
  pcb_in_ram N -> in_ram_w (N + 76) -> ldw m (N + 76) = 0 ->
  pcb_in_ram P -> in_ram_w S -> S + 4 < 4294967296 ->
  (P + 64 <= N \/ N + 80 <= P) -> (S + 4 <= P \/ P + 64 <= S) -> (S + 4 <= N \/ N + 80 <= S) ->
  Z.testbit H 8 = true -> Z.testbit H 7 = true ->
  exists m1, on_interrupt v m = Ok tt m1
    /\ bus_wf (mbus m1)
    /\ R m1 R_ISP = S + 4 /\ R m1 R_PCBP = N + 12 /\ PSW m1 = handler_psw_I H
    /\ R m1 R_PC = ldw m (N + 4) /\ R m1 R_SP = ldw m (N + 8)
    /\ ldw m1 S = w32 P /\ ldw m1 P = w32 (saved_psw (PSW m) H)
    /\ ldw m1 (P + 4) = w32 (R m R_PC) /\ ldw m1 (P + 8) = w32 (R m R_SP)
    /\ ldw m1 (P + 20) = w32 (R m R_AP) /\ ldw m1 (P + 24) = w32 (R m R_FP)
    /\ (forall k, 0 <= k <= 8 -> ldw m1 (P + 28 + 4 * k) = w32 (R m k))
    /\ (forall a, RAMB <= a -> (a < S \/ S + 4 <= a) -> (a < P \/ P + 64 <= a) -> ramb m1 a = ramb m a).
Proof.
  intros W Hv Hrom EN EP ES EH HN HN64 LN64 HP HS Hlt D1 D2 D3 HR HI.
  pose proof HN as [n1 [n2 n3]]. pose proof HP as [p1 [p2 p3]]. pose proof HS as [s1 [s2 s3]].
  assert (HN0 : in_ram_w N) by (replace N with (N + 0) by lia; apply pcb_word; [exact HN | lia | reflexivity]).
  assert (HN4 : in_ram_w (N + 4)) by (apply pcb_word; [exact HN | lia | reflexivity]).
  assert (HN8 : in_ram_w (N + 8)) by (apply pcb_word; [exact HN | lia | reflexivity]).
  assert (HS' : in_ram_w (R m R_ISP)) by (rewrite ES; exact HS).
  assert (Hlt' : R m R_ISP + 4 < 4294967296) by (rewrite ES; exact Hlt).
  assert (E0 : on_interrupt v m =
               bind (context_switch_1 N (entry0 m)) (fun _ m => bind (context_switch_2 N m) (fun _ m =>
                 context_switch_3 (psw_enter_2 m)))).
  { unfold on_interrupt. rewrite rd_word_rom by assumption. cbn [bind]. rewrite EN.
    pose proof (entry0_eq m W HS' Hlt') as K.
    destruct (irq_push (R m R_PCBP) m) as [u mx|e mx| |]; cbn [bind] in *; try discriminate.
    assert (K' : psw_enter_1 mx = entry0 m) by congruence. cbv zeta. rewrite K'. reflexivity. }
  rewrite E0. clear E0.
  pose proof (entry0_wf m W) as W0.
  assert (E13 : R (entry0 m) R_PCBP = P) by (rewrite entry0_R by (unfold R_PCBP; lia); exact EP).
  assert (LN : forall a, RAMB <= a -> (a + 4 <= S \/ S + 4 <= a) -> ldw (entry0 m) a = ldw m a).
  { intros a Ha Da. apply entry0_ldw; rewrite ?ES; unfold RAMB in *; lia. }
  assert (LN0 : ldw (entry0 m) N = H) by (rewrite LN by (unfold RAMB in *; lia); exact EH).
  assert (HR0 : Z.testbit (ldw (entry0 m) N) 8 = true) by (rewrite LN0; exact HR).
  assert (D1' : N + 4 <= P \/ P + 64 <= N) by lia.
  destruct (cs1_effect_R N P (entry0 m) W0 E13 HP HN0 D1' HR0)
    as [m5 (E5 & W5 & Psw5 & Fp5 & Rg5 & L0 & L4 & L8 & L20 & L24 & Lk & Fr5)].
  rewrite E5. cbn [bind].
  assert (L5 : forall a, RAMB <= a -> (a + 4 <= P \/ P + 64 <= a) -> ldw m5 a = ldw (entry0 m) a).
  { intros a Ha Da. apply ldw_frame. intros k Hk. apply Fr5; lia. }
  assert (L5N0 : ldw m5 N = H) by (rewrite L5 by (unfold RAMB in *; lia); exact LN0).
  rewrite cs2_effect_I; [| exact W5 | exact HN0 | exact HN4 | exact HN8 | rewrite L5N0; exact HI].
  cbn [bind]. rewrite L5N0.
  unfold psw_enter_2, setPSW, PSW. rconst. rewrite !R_setR_other by lia. rewrite R_setR_same.
  fold (handler_psw_I H).
  assert (BR : bset (handler_psw_I H) F_R = true).
  { unfold handler_psw_I. rewrite bset_R, !Z.lor_spec, !testbit_clr32, HR. psw_consts. eval_closed_bits. reflexivity. }
  rewrite (cs3_effect_R_empty _ (N + 12));
    [| rewrite ?mbus_setR; exact W5
     | rconst; rewrite !R_setR_other by lia; apply R_setR_same
     | replace (N + 12 + 64) with (N + 76) by lia; exact HN64
     | replace (N + 12 + 64) with (N + 76) by lia; rewrite !ldw_setR; rewrite L5 by (unfold RAMB in *; lia); rewrite LN by (unfold RAMB in *; lia); exact LN64
     | unfold PSW; rconst; rewrite ?R_setR_other by lia; rewrite R_setR_same; exact BR].
  unfold after_cs3.
  eexists. split; [reflexivity|].
  split; [rewrite ?mbus_setR; exact W5|].
  split.
  { unfold R_ISP. rewrite !R_setR_other by lia. rewrite Rg5 by lia. change 14 with R_ISP. rewrite entry0_isp. rconst. lia. }
  split; [unfold R_PCBP; rewrite !R_setR_other by lia; apply R_setR_same|].
  split; [unfold PSW, R_PSW; rewrite !R_setR_other by lia; apply R_setR_same|].
  split; [unfold R_PC; rewrite !R_setR_other by lia; rewrite R_setR_same; rewrite L5 by (unfold RAMB in *; lia); apply LN; unfold RAMB in *; lia|].
  split; [unfold R_SP; rewrite !R_setR_other by lia; rewrite R_setR_same; rewrite L5 by (unfold RAMB in *; lia); apply LN; unfold RAMB in *; lia|].
  rewrite !ldw_setR.
  split.
  { rewrite L5 by (unfold RAMB in *; lia). rewrite <- ES, <- EP. apply entry0_ldw_isp. rconst. rewrite ES. exact s1. }
  split.
  { rewrite L0, Psw5, LN0, entry0_psw. reflexivity. }
  split; [rewrite L4; rewrite entry0_R by (unfold R_PC; lia); reflexivity|].
  split; [rewrite L8; rewrite entry0_R by (unfold R_SP; lia); reflexivity|].
  split; [rewrite L20; rewrite entry0_R by (unfold R_AP; lia); reflexivity|].
  split; [rewrite L24; rewrite entry0_R by (unfold R_FP; lia); reflexivity|].
  split; [intros k Hk; rewrite !ldw_setR; rewrite Lk by lia; rewrite entry0_R by lia; reflexivity|].
  intros a Ha D4 D5. rewrite !ramb_setR. rewrite Fr5 by (try assumption; unfold RAMB in *; lia).
  apply entry0_ramb; rconst; rewrite ?ES; assumption.
Qed.

Theorem interrupt_retps_transparent_RI ir v m :
  iopcode ir = 12488 ->
  bus_wf (mbus m) -> 0 <= v -> in_rom_w (140 + 4 * v) ->
  let N := romw m (140 + 4 * v) in
  let P := R m R_PCBP in
  let S := R m R_ISP in
  pcb_in_ram N -> in_ram_w (N + 76) -> ldw m (N + 76) = 0 ->
  pcb_in_ram P -> in_ram_w (P + 64) -> ldw m (P + 64) = 0 ->
  in_ram_w S -> S + 4 < 4294967296 ->
  (P + 68 <= N \/ N + 80 <= P) -> (S + 4 <= P \/ P + 68 <= S) -> (S + 4 <= N \/ N + 80 <= S) ->
  let H := ldw m N in
  0 <= H -> Z.testbit H 8 = true -> Z.testbit H 7 = true -> Z.testbit H 11 = false -> Z.testbit H 12 = false ->
  Z.testbit (PSW m) 7 = false ->
  (forall i, 0 <= i <= 15 -> 0 <= R m i < 4294967296) ->
  exists m1 m2,
    on_interrupt v m = Ok tt m1 /\ R m1 R_PCBP = N + 12 /\ exec ir m1 = Ok 0 m2
    /\ R m2 R_PC = R m R_PC /\ R m2 R_SP = R m R_SP /\ R m2 R_PCBP = P /\ R m2 R_ISP = S
    /\ (forall i, 0 <= i <= 10 -> R m2 i = R m i)
    /\ (forall k, In k [21; 20; 19; 18; 16; 15; 14; 13; 12; 11; 10; 9; 7] -> Z.testbit (PSW m2) k = Z.testbit (PSW m) k)
    /\ (forall a, RAMB <= a -> (a < S \/ S + 4 <= a) -> (a < P \/ P + 64 <= a) -> ramb m2 a = ramb m a).
Proof.
  intros Ho W Hv Hrom N P S HN HN64 LN64 HP HP64 LP64 HS Hlt D1 D2 D3 H H0 HR HI H11 H12 PI Rg.
  assert (D1' : P + 64 <= N \/ N + 80 <= P) by lia.
  assert (D2' : S + 4 <= P \/ P + 64 <= S) by lia.
  destruct (on_interrupt_effect_gen_RI v m N P S H W Hv Hrom eq_refl eq_refl eq_refl eq_refl HN HN64 LN64 HP HS Hlt D1' D2' D3 HR HI)
    as [m1 (E1 & W1 & Isp1 & Pcbp1 & Psw1 & Pc1 & Sp1 & LS & LP & LP4 & LP8 & LP20 & LP24 & LPk & Fr)].
  pose proof HP as [p1 [p2 p3]]. pose proof HS as [s1 [s2 s3]]. pose proof HP64 as [q1 [q2 q3]].
  assert (Pr : 0 <= P < 4294967296) by (unfold RAMB, RAME in *; lia).
  assert (EP : ldw m1 (R m1 R_ISP - 4) = P).
  { rewrite Isp1. replace (S + 4 - 4) with S by lia. rewrite LS. now apply w32_id. }
  assert (L64 : ldw m1 (P + 64) = 0).
  { rewrite <- LP64. apply ldw_frame. intros k Hk. apply Fr; unfold RAMB in *; lia. }
  destruct (retps_effect_R ir m1 Ho) as [m2 (E2 & B2 & Isp2 & Pcbp2 & Psw2 & Pc2 & Sp2 & Fp2 & Ap2 & Rk2)].
  - eapply handler_psw_I_kernel; eauto.
  - exact W1.
  - rewrite Isp1. unfold RAMB in *. lia.
  - rewrite Isp1. replace (S + 4 - 4) with S by lia. exact HS.
  - rewrite EP. exact HP.
  - rewrite EP. exact HP64.
  - rewrite EP. exact L64.
  - rewrite EP, LP. unfold w32. rewrite Z.mod_pow2_bits_low with (n := 32) by lia.
    unfold saved_psw. rewrite Z.lor_spec, testbit_clr32, Z.land_spec, HR. psw_consts. eval_closed_bits.
    now rewrite orb_true_r.
  - rewrite EP, LP. unfold w32. rewrite Z.mod_pow2_bits_low with (n := 32) by lia.
    unfold saved_psw, psw1. repeat (rewrite Z.lor_spec || rewrite Z.land_spec || rewrite testbit_clr32).
    rewrite PI. psw_consts. eval_closed_bits. rewrite ?andb_false_r, ?andb_true_r, ?orb_false_r. reflexivity.
  - rewrite EP in *. exists m1, m2.
    split; [exact E1|]. split; [exact Pcbp1|]. split; [exact E2|].
    split; [rewrite Pc2, LP4; apply w32_id; apply Rg; unfold R_PC; lia|].
    split; [rewrite Sp2, LP8; apply w32_id; apply Rg; unfold R_SP; lia|].
    split; [exact Pcbp2|].
    split; [rewrite Isp2, Isp1; lia|].
    split.
    { intros i Hi.
      assert (Ei : 0 <= i <= 8 \/ i = 9 \/ i = 10) by lia. destruct Ei as [Ei|[Ei|Ei]].
      - rewrite (Rk2 i Ei), (LPk i Ei). apply w32_id. apply Rg. lia.
      - subst i. change 9 with R_FP. rewrite Fp2, LP24. apply w32_id. apply Rg. unfold R_FP. lia.
      - subst i. change 10 with R_AP. rewrite Ap2, LP20. apply w32_id. apply Rg. unfold R_AP. lia. }
    split.
    + intros k Hk. rewrite Psw2, LP. now apply saved_psw_keeps_bit.
    + intros a Ha Da Db. unfold ramb. rewrite B2. fold (ramb m1 a). now apply Fr.
Qed.

(* ---- CALLPS into a control block with R ---- *)
Lemma entry_from_effect_R m N P S H :
  bus_wf (mbus m) ->
  R m R_PCBP = P -> R m R_ISP = S -> ldw m N = H ->
  pcb_in_ram N -> in_ram_w (N + 64) -> ldw m (N + 64) = 0 ->
  pcb_in_ram P -> in_ram_w S -> S + 4 < 4294967296 ->
  (P + 64 <= N \/ N + 68 <= P) -> (S + 4 <= P \/ P + 64 <= S) -> (S + 4 <= N \/ N + 68 <= S) ->
  Z.testbit H 8 = true -> Z.testbit H 7 = false ->
  exists m1, entry_from N m = Ok tt m1
    /\ bus_wf (mbus m1)
    /\ R m1 R_ISP = S + 4 /\ R m1 R_PCBP = N /\ PSW m1 = handler_psw H
    /\ R m1 R_PC = ldw m (N + 4) /\ R m1 R_SP = ldw m (N + 8)
    /\ ldw m1 S = w32 P /\ ldw m1 P = w32 (saved_psw (PSW m) H)
    /\ ldw m1 (P + 4) = w32 (R m R_PC) /\ ldw m1 (P + 8) = w32 (R m R_SP)
    /\ ldw m1 (P + 20) = w32 (R m R_AP) /\ ldw m1 (P + 24) = w32 (R m R_FP)
    /\ (forall k, 0 <= k <= 8 -> ldw m1 (P + 28 + 4 * k) = w32 (R m k))
    /\ (forall a, RAMB <= a -> (a < S \/ S + 4 <= a) -> (a < P \/ P + 64 <= a) -> ramb m1 a = ramb m a).
Proof.
  intros W EP ES EH HN HN64 LN64 HP HS Hlt D1 D2 D3 HR HI.
  pose proof HN as [n1 [n2 n3]]. pose proof HP as [p1 [p2 p3]]. pose proof HS as [s1 [s2 s3]].
  assert (HN0 : in_ram_w N) by (replace N with (N + 0) by lia; apply pcb_word; [exact HN | lia | reflexivity]).
  assert (HN4 : in_ram_w (N + 4)) by (apply pcb_word; [exact HN | lia | reflexivity]).
  assert (HN8 : in_ram_w (N + 8)) by (apply pcb_word; [exact HN | lia | reflexivity]).
  assert (HS' : in_ram_w (R m R_ISP)) by (rewrite ES; exact HS).
  assert (Hlt' : R m R_ISP + 4 < 4294967296) by (rewrite ES; exact Hlt).
  unfold entry_from.
  pose proof (entry0_wf m W) as W0.
  assert (E13 : R (entry0 m) R_PCBP = P) by (rewrite entry0_R by (unfold R_PCBP; lia); exact EP).
  assert (LN : forall a, RAMB <= a -> (a + 4 <= S \/ S + 4 <= a) -> ldw (entry0 m) a = ldw m a).
  { intros a Ha Da. apply entry0_ldw; rewrite ?ES; unfold RAMB in *; lia. }
  assert (LN0 : ldw (entry0 m) N = H) by (rewrite LN by (unfold RAMB in *; lia); exact EH).
  assert (HR0 : Z.testbit (ldw (entry0 m) N) 8 = true) by (rewrite LN0; exact HR).
  assert (D1' : N + 4 <= P \/ P + 64 <= N) by lia.
  destruct (cs1_effect_R N P (entry0 m) W0 E13 HP HN0 D1' HR0)
    as [m5 (E5 & W5 & Psw5 & Fp5 & Rg5 & L0 & L4 & L8 & L20 & L24 & Lk & Fr5)].
  rewrite E5. cbn [bind].
  assert (L5 : forall a, RAMB <= a -> (a + 4 <= P \/ P + 64 <= a) -> ldw m5 a = ldw (entry0 m) a).
  { intros a Ha Da. apply ldw_frame. intros k Hk. apply Fr5; lia. }
  assert (L5N0 : ldw m5 N = H) by (rewrite L5 by (unfold RAMB in *; lia); exact LN0).
  rewrite cs2_effect; [| exact W5 | exact HN0 | exact HN4 | exact HN8 | rewrite L5N0; exact HI].
  cbn [bind]. rewrite L5N0.
  unfold psw_enter_2, setPSW, PSW. rconst. rewrite !R_setR_other by lia. rewrite R_setR_same.
  fold (handler_psw H).
  assert (BR : bset (handler_psw H) F_R = true).
  { unfold handler_psw. rewrite bset_R, !Z.lor_spec, !testbit_clr32, HR. psw_consts. eval_closed_bits. reflexivity. }
  rewrite (cs3_effect_R_empty _ N);
    [| rewrite ?mbus_setR; exact W5
     | rconst; rewrite !R_setR_other by lia; apply R_setR_same
     | exact HN64
     | rewrite !ldw_setR; rewrite L5 by (unfold RAMB in *; lia); rewrite LN by (unfold RAMB in *; lia); exact LN64
     | unfold PSW; rconst; rewrite R_setR_same; exact BR].
  unfold after_cs3.
  eexists. split; [reflexivity|].
  split; [rewrite ?mbus_setR; exact W5|].
  split.
  { unfold R_ISP. rewrite !R_setR_other by lia. rewrite Rg5 by lia. change 14 with R_ISP. rewrite entry0_isp. rconst. lia. }
  split; [unfold R_PCBP; rewrite !R_setR_other by lia; apply R_setR_same|].
  split; [unfold PSW, R_PSW; rewrite !R_setR_other by lia; apply R_setR_same|].
  split; [unfold R_PC; rewrite !R_setR_other by lia; rewrite R_setR_same; rewrite L5 by (unfold RAMB in *; lia); apply LN; unfold RAMB in *; lia|].
  split; [unfold R_SP; rewrite !R_setR_other by lia; rewrite R_setR_same; rewrite L5 by (unfold RAMB in *; lia); apply LN; unfold RAMB in *; lia|].
  rewrite !ldw_setR.
  split.
  { rewrite L5 by (unfold RAMB in *; lia). rewrite <- ES, <- EP. apply entry0_ldw_isp. rconst. rewrite ES. exact s1. }
  split.
  { rewrite L0, Psw5, LN0, entry0_psw. reflexivity. }
  split; [rewrite L4; rewrite entry0_R by (unfold R_PC; lia); reflexivity|].
  split; [rewrite L8; rewrite entry0_R by (unfold R_SP; lia); reflexivity|].
  split; [rewrite L20; rewrite entry0_R by (unfold R_AP; lia); reflexivity|].
  split; [rewrite L24; rewrite entry0_R by (unfold R_FP; lia); reflexivity|].
  split; [intros k Hk; rewrite !ldw_setR; rewrite Lk by lia; rewrite entry0_R by lia; reflexivity|].
  intros a Ha D4 D5. rewrite !ramb_setR. rewrite Fr5 by (try assumption; unfold RAMB in *; lia).
  apply entry0_ramb; rconst; rewrite ?ES; assumption.
Qed.

(* CALLPS to a control block with the R flag (kernel level, no I, empty block-move lists) whose code returns at once
   with RETPS: the caller continues after the CALLPS with SP, r0-r10, PCBP, ISP, condition codes, priority and execution
   level as they were *)
Theorem callps_retps_transparent_R irc irr m :
  iopcode irc = 12460 -> iopcode irr = 12488 -> is_kernel m = true ->
  bus_wf (mbus m) ->
  let N := R m 0 in
  let P := R m R_PCBP in
  let S := R m R_ISP in
  pcb_in_ram N -> in_ram_w (N + 64) -> ldw m (N + 64) = 0 ->
  pcb_in_ram P -> in_ram_w (P + 64) -> ldw m (P + 64) = 0 ->
  in_ram_w S -> S + 4 < 4294967296 ->
  (P + 68 <= N \/ N + 68 <= P) -> (S + 4 <= P \/ P + 68 <= S) -> (S + 4 <= N \/ N + 68 <= S) ->
  let H := ldw m N in
  0 <= H -> Z.testbit H 8 = true -> Z.testbit H 7 = false -> Z.testbit H 11 = false -> Z.testbit H 12 = false ->
  Z.testbit (PSW m) 7 = false ->
  (forall i, 0 <= i <= 15 -> 0 <= R m i < 4294967296) ->
  exists m1 m2,
    exec irc m = Ok 0 m1 /\ exec irr m1 = Ok 0 m2
    /\ R m2 R_PC = add32 (R m R_PC) 2 /\ R m2 R_SP = R m R_SP /\ R m2 R_PCBP = P /\ R m2 R_ISP = S
    /\ (forall i, 0 <= i <= 10 -> R m2 i = R m i)
    /\ (forall k, In k [21; 20; 19; 18; 16; 15; 14; 13; 12; 11; 10; 9; 7] -> Z.testbit (PSW m2) k = Z.testbit (PSW m) k)
    /\ (forall a, RAMB <= a -> (a < S \/ S + 4 <= a) -> (a < P \/ P + 64 <= a) -> ramb m2 a = ramb m a).
Proof.
  intros Hc Hr K W N P S HN HN64 LN64 HP HP64 LP64 HS Hlt D1 D2 D3 H H0 HR HI H11 H12 PI Rg.
  set (mc := setR m R_PC (add32 (R m R_PC) 2)).
  assert (Wc : bus_wf (mbus mc)) by exact W.
  assert (Rc : forall i, 0 <= i <= 15 -> i <> 15 -> R mc i = R m i)
    by (intros i Hi Ni; unfold mc; apply R_setR_other; unfold R_PC; lia).
  assert (Lc : forall a, ldw mc a = ldw m a) by (intros a; apply ldw_setR).
  assert (Bc : forall a, ramb mc a = ramb m a) by (intros a; apply ramb_setR).
  assert (D1' : P + 64 <= N \/ N + 68 <= P) by lia.
  assert (D2' : S + 4 <= P \/ P + 64 <= S) by lia.
  destruct (entry_from_effect_R mc N P S H Wc)
    as [m1 (E1 & W1 & Isp1 & Pcbp1 & Psw1 & Pc1 & Sp1 & LS & LP & LP4 & LP8 & LP20 & LP24 & LPk & Fr)];
    try assumption; try (apply Rc; unfold R_PCBP, R_ISP; lia); try apply Lc.
  rewrite (callps_is_entry_from irc m Hc K W HS Hlt). fold N. fold mc. rewrite E1. cbn [bind].
  pose proof HP as [p1 [p2 p3]]. pose proof HS as [s1 [s2 s3]]. pose proof HP64 as [q1 [q2 q3]].
  assert (Pr : 0 <= P < 4294967296) by (unfold RAMB, RAME in *; lia).
  assert (EP : ldw m1 (R m1 R_ISP - 4) = P).
  { rewrite Isp1. replace (S + 4 - 4) with S by lia. rewrite LS. now apply w32_id. }
  assert (PSWc : PSW mc = PSW m) by (unfold PSW; apply Rc; unfold R_PSW; lia).
  assert (L64 : ldw m1 (P + 64) = 0).
  { rewrite <- LP64, <- Lc. apply ldw_frame. intros k Hk. apply Fr; unfold RAMB in *; lia. }
  destruct (retps_effect_R irr m1 Hr) as [m2 (E2 & B2 & Isp2 & Pcbp2 & Psw2 & Pc2 & Sp2 & Fp2 & Ap2 & Rk2)].
  - eapply handler_psw_kernel; eauto.
  - exact W1.
  - rewrite Isp1. unfold RAMB in *. lia.
  - rewrite Isp1. replace (S + 4 - 4) with S by lia. exact HS.
  - rewrite EP. exact HP.
  - rewrite EP. exact HP64.
  - rewrite EP. exact L64.
  - rewrite EP, LP, PSWc. unfold w32. rewrite Z.mod_pow2_bits_low with (n := 32) by lia.
    unfold saved_psw. rewrite Z.lor_spec, testbit_clr32, Z.land_spec, HR. psw_consts. eval_closed_bits.
    now rewrite orb_true_r.
  - rewrite EP, LP, PSWc. unfold w32. rewrite Z.mod_pow2_bits_low with (n := 32) by lia.
    unfold saved_psw, psw1. repeat (rewrite Z.lor_spec || rewrite Z.land_spec || rewrite testbit_clr32).
    rewrite PI. psw_consts. eval_closed_bits. rewrite ?andb_false_r, ?andb_true_r, ?orb_false_r. reflexivity.
  - rewrite EP in *. exists m1, m2.
    split; [reflexivity|]. split; [exact E2|].
    split.
    { rewrite Pc2, LP4. unfold mc. rewrite R_setR_same. unfold add32. unfold w32. now rewrite Z.mod_mod. }
    split; [rewrite Sp2, LP8; rewrite Rc by (unfold R_SP; lia); apply w32_id; apply Rg; unfold R_SP; lia|].
    split; [exact Pcbp2|].
    split; [rewrite Isp2, Isp1; lia|].
    split.
    { intros i Hi.
      assert (Ei : 0 <= i <= 8 \/ i = 9 \/ i = 10) by lia. destruct Ei as [Ei|[Ei|Ei]].
      - rewrite (Rk2 i Ei), (LPk i Ei). rewrite Rc by lia. apply w32_id. apply Rg. lia.
      - subst i. change 9 with R_FP. rewrite Fp2, LP24. rewrite Rc by (unfold R_FP; lia). apply w32_id. apply Rg. unfold R_FP. lia.
      - subst i. change 10 with R_AP. rewrite Ap2, LP20. rewrite Rc by (unfold R_AP; lia). apply w32_id. apply Rg. unfold R_AP. lia. }
    split.
    + intros k Hk. rewrite Psw2, LP, PSWc. now apply saved_psw_keeps_bit.
    + intros a Ha Da Db. unfold ramb. rewrite B2. fold (ramb m1 a). rewrite Fr by assumption. apply Bc.
Qed.

(* ---- the hypotheses are satisfiable ---- *)
(* a concrete machine that meets every hypothesis of interrupt_retps_transparent_R: vector 1 names a handler control
   block at 0x748000 whose PSW word has R set (and priority level 15); the interrupted process's block is at 0x740000,
   the interrupt stack at 0x741000; RAM is otherwise zero (so both block-move lists are empty) *)
Definition ex_rom : mem :=
  mset (mset (mset (mset (rom (bus_new 0)) 144 0) 145 116) 146 128) 147 0.      (* 0x00748000 at 0x90 *)
Definition ex_m : mach :=
  stw (mkMach (mkRegs 1 2 3 4 5 6 7 8 9 7537408 7537664 0 7536640 7602176 7606272 7340288)
              (with_rom (bus_new 0) ex_rom))
      7634944 123136.                                                              (* 0x748000 <- 0x1e100 *)

Example R_block_premises :
  let m := ex_m in let v := 1 in
  bus_wf (mbus m) /\ 0 <= v /\ in_rom_w (140 + 4 * v)
  /\ (let N := romw m (140 + 4 * v) in
      let P := R m R_PCBP in
      let S := R m R_ISP in
      pcb_in_ram N /\ in_ram_w (N + 64) /\ ldw m (N + 64) = 0
      /\ pcb_in_ram P /\ in_ram_w (P + 64) /\ ldw m (P + 64) = 0
      /\ in_ram_w S /\ S + 4 < 4294967296
      /\ (P + 68 <= N \/ N + 68 <= P) /\ (S + 4 <= P \/ P + 68 <= S) /\ (S + 4 <= N \/ N + 68 <= S)
      /\ (let H := ldw m N in
          0 <= H /\ Z.testbit H 8 = true /\ Z.testbit H 7 = false /\ Z.testbit H 11 = false /\ Z.testbit H 12 = false))
  /\ Z.testbit (PSW m) 7 = false
  /\ (forall i, 0 <= i <= 15 -> 0 <= R m i < 4294967296).
Proof.
  cbv zeta.
  split; [constructor; cbn; auto|].
  split; [lia|]. split; [unfold in_rom_w; cbn; lia|].
  split.
  { assert (EN : romw ex_m (140 + 4 * 1) = 7634944) by (vm_compute; reflexivity).
    assert (EP : R ex_m R_PCBP = 7602176) by (vm_compute; reflexivity).
    assert (ES : R ex_m R_ISP = 7606272) by (vm_compute; reflexivity).
    rewrite EN, EP, ES. unfold pcb_in_ram, in_ram_w, RAMB, RAME.
    assert (L1 : ldw ex_m (7634944 + 64) = 0) by (vm_compute; reflexivity).
    assert (L2 : ldw ex_m (7602176 + 64) = 0) by (vm_compute; reflexivity).
    assert (LH : ldw ex_m 7634944 = 123136) by (vm_compute; reflexivity).
    rewrite L1, L2, LH. cbn. repeat split; try lia; try reflexivity. }
  split; [vm_compute; reflexivity|].
  intros i Hi.
  assert (Ei : i = 0 \/ i = 1 \/ i = 2 \/ i = 3 \/ i = 4 \/ i = 5 \/ i = 6 \/ i = 7 \/ i = 8 \/ i = 9 \/ i = 10
               \/ i = 11 \/ i = 12 \/ i = 13 \/ i = 14 \/ i = 15) by lia.
  repeat (destruct Ei as [Ei|Ei]; [subst i; vm_compute; split; [discriminate | reflexivity]|]).
  subst i; vm_compute; split; [discriminate | reflexivity].
Qed.
