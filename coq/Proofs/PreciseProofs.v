(* C13: every data-processing, move and push/pop instruction is precise with respect to bus faults: when exec returns
   a bus error, all sixteen registers (condition codes included) and all four memories are what they were before
   the instruction started.  One walk over the dispatch term, as in SafeCpu.exec_safe. *)
From Coq Require Import ZArith Lia Bool List.
From Dmd Require Import Model.Bits Model.Types Model.Mem Model.Bus Model.Decode Model.Cpu.
From Dmd Require Import Gen.GenOpcodes Gen.GenDispatch.
From Dmd Require Import Proofs.RegKit Proofs.ResetProofs Proofs.ExceptionProofs.
Open Scope Z_scope.

Definition pbus {A} (m : mach) (r : res mach A) : Prop :=
  match r with Err (EBus _) m' => state_kept m m' | _ => True end.
Definition nobus {A} (r : res mach A) : Prop :=
  match r with Err (EBus _) _ => False | _ => True end.

Lemma pbus_bind_keeps {A B} m (r : res mach A) (k : A -> mach -> res mach B) :
  keeps m r -> (forall a m1, state_kept m m1 -> pbus m1 (k a m1)) -> pbus m (bind r k).
Proof.
  destruct r as [a m1|e m1| |]; cbn; auto.
  - intros H K. specialize (K a m1 H). unfold pbus in *. destruct (k a m1) as [? ?|[]? | |]; auto.
    eapply state_kept_trans; eauto.
  - intros H _. destruct e; auto.
Qed.

Lemma pbus_bind_final {A B} m (r : res mach A) (k : A -> mach -> res mach B) :
  keeps_on_err m r -> (forall a m1, nobus (k a m1)) -> pbus m (bind r k).
Proof.
  destruct r as [a m1|e m1| |]; cbn; auto.
  - intros _ K. specialize (K a m1). unfold nobus, pbus in *. destruct (k a m1) as [? ?|[]? | |]; auto. contradiction.
  - intros H _. destruct e; auto.
Qed.

Lemma pbus_bind_tail {A B} m (r : res mach A) (k : A -> mach -> res mach B) :
  pbus m r -> (forall a m1, nobus (k a m1)) -> pbus m (bind r k).
Proof.
  destruct r as [a m1|e m1| |]; cbn; auto.
  intros _ K. specialize (K a m1). unfold nobus, pbus in *. destruct (k a m1) as [? ?|[]? | |]; auto. contradiction.
Qed.

Lemma pbus_if {A} m (c : bool) (a b : res mach A) :
  (c = true -> pbus m a) -> (c = false -> pbus m b) -> pbus m (if c then a else b).
Proof. destruct c; auto. Qed.

Lemma stack_push_err_keeps v m : keeps_on_err m (stack_push v m).
Proof.
  unfold stack_push. pose proof (wr_word_err_keeps (R m R_SP) v m) as K.
  destruct (wr_word (R m R_SP) v m); cbn in *; auto.
Qed.

Section Arms.
Variable ir : instr.

Lemma add_op_pbus a b dst m : pbus m (add_op ir a b dst m).
Proof.
  unfold add_op. cbv zeta. apply pbus_bind_final; [apply write_op_err_keeps|].
  intros u m1. destruct (data_type (get_op ir dst)); cbn; auto.
Qed.
Lemma sub_op_pbus a b dst m : pbus m (sub_op ir a b dst m).
Proof. unfold sub_op. cbv zeta. apply pbus_bind_final; [apply write_op_err_keeps|]. intros; exact I. Qed.

Lemma alu_std_pbus f dst m : pbus m (alu_std ir f dst m).
Proof.
  unfold alu_std.
  apply pbus_bind_keeps; [apply read_op_keeps|]. intros a m1 K1.
  apply pbus_bind_keeps; [apply read_op_keeps|]. intros b m2 K2.
  apply pbus_bind_final; [apply write_op_err_keeps|]. intros; exact I.
Qed.
Lemma div_arm_pbus dst oa ob m : pbus m (div_arm ir dst oa ob m).
Proof.
  unfold div_arm, zerodiv, fail.
  apply pbus_bind_keeps; [apply read_op_keeps|]. intros a m1 K1.
  apply pbus_bind_keeps; [apply read_op_keeps|]. intros b m2 K2.
  destruct (a =? 0); [exact I|]. destruct (div_val a b (otype (get_op ir 1))); [|exact I].
  apply pbus_bind_final; [apply write_op_err_keeps|]. intros; exact I.
Qed.
Lemma mod_arm_pbus dst m : pbus m (mod_arm ir dst m).
Proof.
  unfold mod_arm, zerodiv, fail.
  apply pbus_bind_keeps; [apply read_op_keeps|]. intros a m1 K1.
  apply pbus_bind_keeps; [apply read_op_keeps|]. intros b m2 K2.
  destruct (a =? 0); [exact I|]. destruct (mod_val a b (otype (get_op ir 1))); [|exact I].
  apply pbus_bind_final; [apply write_op_err_keeps|]. intros; exact I.
Qed.

(* the opcodes covered: arithmetic, logic, shifts, rotate, fields, moves, compares, tests, swaps, push / pop *)
Definition precise_opcode (opc : Z) : bool :=
  existsb (Z.eqb opc)
    [op_ADDW2; op_ADDH2; op_ADDB2; op_ADDW3; op_ADDH3; op_ADDB3; op_ALSW3;
     op_ANDW2; op_ANDH2; op_ANDB2; op_ANDW3; op_ANDH3; op_ANDB3; op_BITW; op_BITH; op_BITB;
     op_CLRW; op_CLRH; op_CLRB; op_CMPW; op_CMPH; op_CMPB; op_DECW; op_DECH; op_DECB;
     op_DIVW2; op_DIVH2; op_DIVB2; op_DIVW3; op_DIVH3; op_DIVB3; op_EXTFW; op_EXTFH; op_EXTFB;
     op_INCW; op_INCH; op_INCB; op_INSFW; op_INSFH; op_INSFB; op_LLSW3; op_LLSH3; op_LLSB3;
     op_ARSW3; op_ARSH3; op_ARSB3; op_LRSW3; op_MCOMW; op_MCOMH; op_MCOMB; op_MNEGW; op_MNEGH; op_MNEGB;
     op_SWAPWI; op_SWAPHI; op_SWAPBI; op_ROTW; op_MOVAW; op_MOVB; op_MOVH; op_MOVW;
     op_MODW2; op_MODH2; op_MODB2; op_MODW3; op_MODH3; op_MODB3; op_MULW2; op_MULH2; op_MULB2; op_MULW3; op_MULH3; op_MULB3;
     op_ORW2; op_ORH2; op_ORB2; op_ORW3; op_ORH3; op_ORB3; op_POPW; op_PUSHAW; op_PUSHW;
     op_SUBW2; op_SUBH2; op_SUBB2; op_SUBW3; op_SUBH3; op_SUBB3; op_TSTW; op_TSTH; op_TSTB;
     op_XORW2; op_XORH2; op_XORB2; op_XORW3; op_XORH3; op_XORB3; op_NOP; op_NOP2; op_NOP3].

Ltac rd := apply pbus_bind_keeps;
  [ first [apply read_op_keeps | apply effective_address_keeps | apply rd_word_keeps] | intros ? ? ? ].
Ltac wr := apply pbus_bind_final;
  [ first [apply write_op_err_keeps | apply stack_push_err_keeps] | intros; exact I ].
Ltac arm :=
  repeat first
    [ exact I
    | apply alu_std_pbus | apply div_arm_pbus | apply mod_arm_pbus
    | lazymatch goal with
      | |- pbus _ (bind (add_op _ _ _ _ _) _) =>
        apply pbus_bind_tail; [apply add_op_pbus | intros; exact I]
      | |- pbus _ (bind (sub_op _ _ _ _ _) _) =>
        apply pbus_bind_tail; [apply sub_op_pbus | intros; exact I]
      | |- pbus _ (bind (write_op _ _ _ _) _) => wr
      | |- pbus _ (bind (stack_push _ _) _) => wr
      | |- pbus _ (bind _ _) => rd
      end ].

Lemma precise_no_branch opc a b c d : precise_opcode opc = true -> g_branch_pred opc a b c d = None.
Proof.
  unfold precise_opcode. intros H. apply existsb_exists in H. destruct H as [x [Hin E]]. apply Z.eqb_eq in E. subst x.
  cbn [In] in Hin.
  repeat (destruct Hin as [Hin|Hin]; [subst opc; reflexivity|]). contradiction.
Qed.

(* from `c = true`, where c is a disjunction of opcode tests, and the opcode being a precise one: absurd when the
   arm is not one of the precise ones *)
Ltac kill C H :=
  first [ apply Z.eqb_eq in C; rewrite C in H; vm_compute in H; discriminate H
        | apply orb_true_iff in C; destruct C as [C|C]; kill C H ].

Theorem exec_bus_fault_precise m :
  precise_opcode (iopcode ir) = true -> pbus m (exec ir m).
Proof.
  intros H. unfold exec. cbv zeta. unfold illegalM, fail.
  repeat (apply pbus_if; [ let C := fresh "C" in intros C; first [solve [arm] | kill C H] | intros _ ]).
  rewrite (precise_no_branch _ _ _ _ _ H).
  repeat (apply pbus_if; [ let C := fresh "C" in intros C; first [solve [arm] | kill C H] | intros _ ]).
  exact I.
Qed.
End Arms.

(* in the form of the property: a bus error out of a data-processing / move / push / pop instruction leaves the
   registers and the memories as they were *)
Corollary bus_fault_leaves_state ir m e m' :
  precise_opcode (iopcode ir) = true -> exec ir m = Err (EBus e) m' -> state_kept m m'.
Proof. intros H E. pose proof (exec_bus_fault_precise ir m H) as K. rewrite E in K. exact K. Qed.
