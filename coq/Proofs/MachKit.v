(* Load / store theory for the machine: word and byte accesses to RAM as functions (ldw / stw),
   read-after-write, frames, and how they commute with register updates.  Foundation for C03, C06, C07, C13, C18. *)
From Coq Require Import ZArith Lia Bool List ZifyBool.
From Dmd Require Import Model.Bits Model.Types Model.Mem Model.Mouse Model.Duart Model.Bus Model.Decode Model.Cpu.
From Dmd Require Import Proofs.BitsLemmas Proofs.MemProofs Proofs.BusProofs Proofs.VideoProofs Proofs.RegKit.
Open Scope Z_scope.

Definition RAMB : Z := 7340032.
Definition RAME : Z := 8388608.

(* a word-aligned address whose four bytes lie in RAM *)
Definition in_ram_w (a : Z) : Prop := RAMB <= a /\ a + 4 <= RAME /\ a mod 4 = 0.

Definition ramb (m : mach) (a : Z) : Z := mget (ram (mbus m)) (a - RAMB).
Definition ldw (m : mach) (a : Z) : Z :=
  ramb m a * 16777216 + ramb m (a + 1) * 65536 + ramb m (a + 2) * 256 + ramb m (a + 3).

Definition ram_stw (r : mem) (a v : Z) : mem :=
  let off := a - RAMB in let x := w32 v in
  mset (mset (mset (mset r off (w8 (x / 16777216))) (off + 1) (w8 (x / 65536))) (off + 2) (w8 (x / 256))) (off + 3) (w8 x).

Definition stw (m : mach) (a v : Z) : mach :=
  with_bus m (with_ram (mark_dirty a (mbus m)) (ram_stw (ram (mbus m)) a v)).

Lemma with_bus_eta m : with_bus m (mbus m) = m.
Proof. destruct m; reflexivity. Qed.

Lemma ram_mark_dirty a b : ram (mark_dirty a b) = ram b.
Proof. unfold mark_dirty. destruct (is_video_ram b a); reflexivity. Qed.

Lemma get_device_ram a : RAMB <= a < RAME -> get_device a = Some DRam.
Proof.
  unfold RAMB, RAME, get_device. intros H.
  repeat match goal with |- context [if ?c then _ else _] =>
    first [replace c with true by lia | replace c with false by lia] end. reflexivity.
Qed.

Lemma land3_zero a : a mod 4 = 0 -> (Z.land a 3 =? 0) = true.
Proof. intros H. rewrite land3_mod. lia. Qed.
Lemma land1_zero a : a mod 2 = 0 -> (Z.land a 1 =? 0) = true.
Proof. intros H. rewrite land1_mod. lia. Qed.

Lemma wr_word_ram m a v : bus_wf (mbus m) -> in_ram_w a -> wr_word a v m = Ok tt (stw m a v).
Proof.
  intros W [H1 [H2 H3]]. unfold wr_word, liftb, bus_write_word, stw.
  rewrite (land3_zero a H3). cbn [negb]. unfold with_dev.
  rewrite (get_device_ram a) by (unfold RAME, RAMB in *; lia). cbn [dev_write_word dev_mem].
  rewrite ram_mark_dirty. destruct W as [_ _ _ [Rb [Rs Rr]]].
  unfold mem_write_word, mend. rewrite Rr, Rb, Rs. unfold RAMB, RAME in *.
  replace (a + 3 >=? 7340032 + 1048576) with false by lia.
  replace (in_vec (ram (mbus m)) (a - 7340032)) with true by (symmetry; apply in_vec_spec; lia).
  replace (in_vec (ram (mbus m)) (a - 7340032 + 3)) with true by (symmetry; apply in_vec_spec; lia).
  cbn [andb dev_write_mem set_dev_mem]. unfold ram_stw, RAMB. reflexivity.
Qed.

Lemma rd_word_ram m a : bus_wf (mbus m) -> in_ram_w a -> rd_word a m = Ok (ldw m a) m.
Proof.
  intros W [H1 [H2 H3]]. unfold rd_word, liftb, bus_read_word.
  rewrite (land3_zero a H3). cbn [negb]. unfold with_dev.
  rewrite (get_device_ram a) by (unfold RAME, RAMB in *; lia). cbn [dev_read_word dev_mem].
  destruct W as [_ _ _ [Rb [Rs Rr]]]. unfold mem_read_word, mend, lift_r. rewrite Rb, Rs. unfold RAMB, RAME in *.
  replace (a + 3 >=? 7340032 + 1048576) with false by lia.
  replace (in_vec (ram (mbus m)) (a - 7340032)) with true by (symmetry; apply in_vec_spec; lia).
  replace (in_vec (ram (mbus m)) (a - 7340032 + 3)) with true by (symmetry; apply in_vec_spec; lia).
  cbn [andb]. rewrite with_bus_eta. unfold ldw, ramb, RAMB.
  replace (a + 1 - 7340032) with (a - 7340032 + 1) by lia.
  replace (a + 2 - 7340032) with (a - 7340032 + 2) by lia.
  replace (a + 3 - 7340032) with (a - 7340032 + 3) by lia. reflexivity.
Qed.

(* bytes of RAM after a word store *)
Lemma ramb_stw m a v a' : RAMB <= a -> RAMB <= a' ->
  ramb (stw m a v) a' =
    if a' =? a then w8 (w32 v / 16777216)
    else if a' =? a + 1 then w8 (w32 v / 65536)
    else if a' =? a + 2 then w8 (w32 v / 256)
    else if a' =? a + 3 then w8 (w32 v)
    else ramb m a'.
Proof.
  intros Ha Ha'. unfold ramb, stw. cbn [mbus with_bus ram with_ram]. unfold ram_stw.
  destruct (a' =? a + 3) eqn:E3.
  { replace (a' =? a) with false by lia. replace (a' =? a + 1) with false by lia.
    replace (a' =? a + 2) with false by lia.
    replace (a' - RAMB) with (a - RAMB + 3) by lia. apply mget_mset_same. }
  rewrite mget_mset_other by lia.
  destruct (a' =? a + 2) eqn:E2.
  { replace (a' =? a) with false by lia. replace (a' =? a + 1) with false by lia.
    replace (a' - RAMB) with (a - RAMB + 2) by lia. apply mget_mset_same. }
  rewrite mget_mset_other by lia.
  destruct (a' =? a + 1) eqn:E1.
  { replace (a' =? a) with false by lia.
    replace (a' - RAMB) with (a - RAMB + 1) by lia. apply mget_mset_same. }
  rewrite mget_mset_other by lia.
  destruct (a' =? a) eqn:E0.
  { replace (a' - RAMB) with (a - RAMB) by lia. apply mget_mset_same. }
  rewrite mget_mset_other by lia. reflexivity.
Qed.

Ltac Zify.zify_post_hook ::= Z.div_mod_to_equations.

Lemma bytes_recompose x : 0 <= x < 4294967296 ->
  w8 (x / 16777216) * 16777216 + w8 (x / 65536) * 65536 + w8 (x / 256) * 256 + w8 x = x.
Proof. intros H. unfold w8. lia. Qed.

Lemma ldw_stw_same m a v : RAMB <= a -> ldw (stw m a v) a = w32 v.
Proof.
  intros Ha. unfold ldw. rewrite !ramb_stw by lia.
  replace (a =? a) with true by lia.
  replace (a + 1 =? a) with false by lia. replace (a + 1 =? a + 1) with true by lia.
  replace (a + 2 =? a) with false by lia. replace (a + 2 =? a + 1) with false by lia.
  replace (a + 2 =? a + 2) with true by lia.
  replace (a + 3 =? a) with false by lia. replace (a + 3 =? a + 1) with false by lia.
  replace (a + 3 =? a + 2) with false by lia. replace (a + 3 =? a + 3) with true by lia.
  apply bytes_recompose. apply w32_range.
Qed.

Lemma ramb_stw_other m a v a' : RAMB <= a -> RAMB <= a' -> (a' < a \/ a + 4 <= a') ->
  ramb (stw m a v) a' = ramb m a'.
Proof.
  intros Ha Ha' D. rewrite ramb_stw by lia.
  replace (a' =? a) with false by lia. replace (a' =? a + 1) with false by lia.
  replace (a' =? a + 2) with false by lia. replace (a' =? a + 3) with false by lia. reflexivity.
Qed.

Lemma ldw_stw_other m a v a' : RAMB <= a -> RAMB <= a' -> (a' + 4 <= a \/ a + 4 <= a') ->
  ldw (stw m a v) a' = ldw m a'.
Proof.
  intros Ha Ha' D. unfold ldw. rewrite !ramb_stw_other by lia. reflexivity.
Qed.

(* two distinct aligned words never overlap *)
Lemma aligned_words_disjoint a a' : a mod 4 = 0 -> a' mod 4 = 0 -> a <> a' -> a' + 4 <= a \/ a + 4 <= a'.
Proof. intros. lia. Qed.

Lemma ldw_range m a : (forall o, 0 <= mget (ram (mbus m)) o < 256) -> 0 <= ldw m a < 4294967296.
Proof.
  intros H. unfold ldw, ramb.
  pose proof (H (a - RAMB)). pose proof (H (a + 1 - RAMB)). pose proof (H (a + 2 - RAMB)). pose proof (H (a + 3 - RAMB)). lia.
Qed.

(* what a word store leaves alone *)
Lemma R_stw m a v i : R (stw m a v) i = R m i.
Proof. reflexivity. Qed.
Lemma mregs_stw m a v : mregs (stw m a v) = mregs m.
Proof. reflexivity. Qed.
Lemma PSW_stw m a v : PSW (stw m a v) = PSW m.
Proof. reflexivity. Qed.
Lemma ldw_setR m i x a : ldw (setR m i x) a = ldw m a.
Proof. reflexivity. Qed.
Lemma ramb_setR m i x a : ramb (setR m i x) a = ramb m a.
Proof. reflexivity. Qed.
Lemma ldw_setPSW m x a : ldw (setPSW m x) a = ldw m a.
Proof. reflexivity. Qed.
Lemma ldw_setf mask v m a : ldw (setf mask v m) a = ldw m a.
Proof. reflexivity. Qed.

Lemma bus_wf_mark_dirty a b : bus_wf b -> bus_wf (mark_dirty a b).
Proof. unfold mark_dirty. destruct (is_video_ram b a); intros [? ? ? ?]; constructor; auto. Qed.

Lemma wf_stw m a v : bus_wf (mbus m) -> bus_wf (mbus (stw m a v)).
Proof.
  intros W. unfold stw. cbn [mbus with_bus].
  pose proof (bus_wf_mark_dirty a _ W) as [A B C D]. constructor; cbn; auto.
  destruct W as [_ _ _ D']. exact D'.
Qed.
Lemma wf_setR m i x : bus_wf (mbus (setR m i x)) = bus_wf (mbus m).
Proof. reflexivity. Qed.

Lemma other_devices_stw m a v :
  rom (mbus (stw m a v)) = rom (mbus m) /\ vid (mbus (stw m a v)) = vid (mbus m)
  /\ bbram (mbus (stw m a v)) = bbram (mbus m) /\ duart_ (mbus (stw m a v)) = duart_ (mbus m)
  /\ mouse_ (mbus (stw m a v)) = mouse_ (mbus m).
Proof.
  unfold stw, mark_dirty. cbn [mbus with_bus]. destruct (is_video_ram (mbus m) a); repeat split.
Qed.

(* ---- faulting accesses: no device ---- *)
Lemma rd_word_nodev m a : a mod 4 = 0 -> get_device a = None -> rd_word a m = Err (EBus BNoDevice) m.
Proof.
  intros H G. unfold rd_word, liftb, bus_read_word, with_dev. rewrite G.
  rewrite (land3_zero a H). cbn [negb]. now rewrite with_bus_eta.
Qed.
Lemma wr_word_nodev m a v : a mod 4 = 0 -> get_device a = None -> wr_word a v m = Err (EBus BNoDevice) m.
Proof.
  intros H G. unfold wr_word, liftb, bus_write_word, mark_dirty. rewrite (nodev_not_video a _ G).
  unfold with_dev. rewrite G. rewrite (land3_zero a H). cbn [negb]. now rewrite with_bus_eta.
Qed.

(* symbolic execution helpers *)
Ltac ramw := unfold in_ram_w, RAMB, RAME in *; lia.

(* ---- word reads from ROM ---- *)
Definition in_rom_w (a : Z) : Prop := 0 <= a /\ a + 4 <= 131072 /\ a mod 4 = 0.
Definition romw (m : mach) (a : Z) : Z :=
  mget (rom (mbus m)) a * 16777216 + mget (rom (mbus m)) (a + 1) * 65536
  + mget (rom (mbus m)) (a + 2) * 256 + mget (rom (mbus m)) (a + 3).

Lemma rd_word_rom m a : bus_wf (mbus m) -> in_rom_w a -> rd_word a m = Ok (romw m a) m.
Proof.
  intros W [H1 [H2 H3]]. unfold rd_word, liftb, bus_read_word.
  rewrite (land3_zero a H3). cbn [negb]. unfold with_dev.
  assert (G : get_device a = Some DRom) by (unfold get_device; replace (a <? 131072) with true by lia; reflexivity).
  rewrite G. cbn [dev_read_word dev_mem].
  destruct W as [[Rb [Rs Rr]] _ _ _]. unfold mem_read_word, mend, lift_r. rewrite Rb, Rs.
  replace (a + 3 >=? 0 + 131072) with false by lia.
  replace (in_vec (rom (mbus m)) (a - 0)) with true by (symmetry; apply in_vec_spec; lia).
  replace (in_vec (rom (mbus m)) (a - 0 + 3)) with true by (symmetry; apply in_vec_spec; lia).
  cbn [andb]. rewrite with_bus_eta. unfold romw. rewrite !Z.sub_0_r. reflexivity.
Qed.

Lemma romw_stw m a v x : romw (stw m a v) x = romw m x.
Proof. unfold romw. destruct (other_devices_stw m a v) as [E _]. now rewrite E. Qed.
Lemma romw_setR m i v x : romw (setR m i v) x = romw m x.
Proof. reflexivity. Qed.

(* single PSW bits through the mask operations *)
Lemma testbit_clr32 x c k : Z.testbit (clr32 x c) k = Z.testbit x k && Z.testbit (not32 c) k.
Proof. unfold clr32. apply Z.land_spec. Qed.

(* ---- halfword and byte stores to RAM ---- *)
Definition in_ram_h (a : Z) : Prop := RAMB <= a /\ a + 2 <= RAME /\ a mod 2 = 0.
Definition in_ram_b (a : Z) : Prop := RAMB <= a /\ a + 1 <= RAME.

Definition sth (m : mach) (a v : Z) : mach :=
  let off := a - RAMB in let x := w16 v in
  with_bus m (with_ram (mark_dirty a (mbus m)) (mset (mset (ram (mbus m)) off (w8 (x / 256))) (off + 1) (w8 x))).
Definition stb (m : mach) (a v : Z) : mach :=
  with_bus m (with_ram (mark_dirty a (mbus m)) (mset (ram (mbus m)) (a - RAMB) (w8 (w8 v)))).

Lemma wr_half_ram m a v : bus_wf (mbus m) -> in_ram_h a -> wr_half a v m = Ok tt (sth m a v).
Proof.
  intros W [H1 [H2 H3]]. unfold wr_half, liftb, bus_write_half, sth.
  rewrite (land1_zero a H3). cbn [negb]. unfold with_dev.
  rewrite (get_device_ram a) by (unfold RAME, RAMB in *; lia). cbn [dev_write_half dev_mem].
  rewrite ram_mark_dirty. destruct W as [_ _ _ [Rb [Rs Rr]]].
  unfold mem_write_half, mend. rewrite Rr, Rb, Rs. unfold RAMB, RAME in *.
  replace (a + 1 >=? 7340032 + 1048576) with false by lia.
  replace (in_vec (ram (mbus m)) (a - 7340032)) with true by (symmetry; apply in_vec_spec; lia).
  replace (in_vec (ram (mbus m)) (a - 7340032 + 1)) with true by (symmetry; apply in_vec_spec; lia).
  cbn [andb dev_write_mem set_dev_mem]. reflexivity.
Qed.

Lemma wr_byte_ram m a v : bus_wf (mbus m) -> in_ram_b a -> wr_byte a v m = Ok tt (stb m a v).
Proof.
  intros W [H1 H2]. unfold wr_byte, liftb, bus_write_byte, stb. unfold with_dev.
  rewrite (get_device_ram a) by (unfold RAME, RAMB in *; lia). cbn [dev_write_byte dev_mem].
  rewrite ram_mark_dirty. destruct W as [_ _ _ [Rb [Rs Rr]]].
  unfold mem_write_byte, mend. rewrite Rr, Rb, Rs. unfold RAMB, RAME in *.
  replace (a >=? 7340032 + 1048576) with false by lia.
  replace (in_vec (ram (mbus m)) (a - 7340032)) with true by (symmetry; apply in_vec_spec; lia).
  cbn [dev_write_mem set_dev_mem]. reflexivity.
Qed.

Lemma ramb_sth m a v a' : RAMB <= a -> RAMB <= a' ->
  ramb (sth m a v) a' = if a' =? a then w8 (w16 v / 256) else if a' =? a + 1 then w8 (w16 v) else ramb m a'.
Proof.
  intros Ha Ha'. unfold ramb, sth. cbv zeta. cbn [mbus with_bus ram with_ram].
  destruct (a' =? a + 1) eqn:E1.
  { replace (a' =? a) with false by lia. replace (a' - RAMB) with (a - RAMB + 1) by lia. apply mget_mset_same. }
  rewrite mget_mset_other by lia.
  destruct (a' =? a) eqn:E0.
  { replace (a' - RAMB) with (a - RAMB) by lia. apply mget_mset_same. }
  rewrite mget_mset_other by lia. reflexivity.
Qed.

Lemma ramb_stb m a v a' : RAMB <= a -> RAMB <= a' ->
  ramb (stb m a v) a' = if a' =? a then w8 v else ramb m a'.
Proof.
  intros Ha Ha'. unfold ramb, stb. cbn [mbus with_bus ram with_ram].
  destruct (a' =? a) eqn:E0.
  { replace (a' - RAMB) with (a - RAMB) by lia. rewrite mget_mset_same. unfold w8. now rewrite Z.mod_mod by lia. }
  rewrite mget_mset_other by lia. reflexivity.
Qed.

Lemma mregs_sth m a v : mregs (sth m a v) = mregs m. Proof. reflexivity. Qed.
Lemma mregs_stb m a v : mregs (stb m a v) = mregs m. Proof. reflexivity. Qed.
