(* C18: PUSHW src ; POPW %rd  is  MOVW src,%rd : the same value in rd, the same condition codes, every other
   register (SP included) as before; the only other difference is the dead word above the stack pointer. *)
From Coq Require Import ZArith Lia Bool List.
From Dmd Require Import Model.Bits Model.Types Model.Mem Model.Bus Model.Decode Model.Cpu.
From Dmd Require Import Proofs.BitsLemmas Proofs.BusProofs Proofs.RegKit Proofs.MachKit Proofs.LinkageProofs
  Proofs.ExceptionProofs Proofs.AluFinal.
Open Scope Z_scope.

Theorem push_pop_is_mov irp irq irm m v rd :
  iopcode irp = 160 -> iopcode irq = 32 -> iopcode irm = 132 ->
  bus_wf (mbus m) -> in_ram_w (R m R_SP) -> R m R_SP + 4 < 4294967296 ->
  read_op irp 0 m = Ok v m -> read_op irm 0 m = Ok v m -> 0 <= v < 4294967296 ->
  omode (op0 irq) = MRegister -> oreg (op0 irq) = Some rd -> otype (op0 irq) = DWord ->
  omode (op1 irm) = MRegister -> oreg (op1 irm) = Some rd -> otype (op1 irm) = DWord ->
  0 <= rd <= 10 ->
  exists m1 m2 mm,
    exec irp m = Ok (ilen irp) m1 /\ exec irq m1 = Ok (ilen irq) m2 /\ exec irm m = Ok (ilen irm) mm
    /\ (forall i, 0 <= i <= 15 -> i <> 11 -> R m2 i = R mm i)
    /\ flag F_N m2 = flag F_N mm /\ flag F_Z m2 = flag F_Z mm /\ flag F_C m2 = flag F_C mm /\ flag F_V m2 = flag F_V mm
    /\ (forall a, RAMB <= a -> (a < R m R_SP \/ R m R_SP + 4 <= a) -> ramb m2 a = ramb mm a).
Proof.
  intros Hp Hq Hmv W Hs Hlt Rp Rm Hv Qm Qr Qt Mm Mr Mt Hrd.
  pose proof Hs as [Hs1 [Hs2 Hs3]].
  set (m1 := nz_clear_cv v (op0 irp) (pushed m v)).
  assert (Sp1 : R m1 R_SP = R m R_SP + 4).
  { unfold m1. rewrite R_nz_clear_cv by (unfold R_SP; lia). rewrite R_pushed_sp.
    unfold add32, w32. rewrite Z.mod_small; unfold RAMB in *; lia. }
  assert (W1 : bus_wf (mbus m1)) by (unfold m1; rewrite mbus_nz_clear_cv; now apply wf_pushed).
  assert (L1 : ldw m1 (R m1 R_SP - 4) = v).
  { rewrite Sp1. replace (R m R_SP + 4 - 4) with (R m R_SP) by lia. unfold m1.
    rewrite ldw_nz_clear_cv. rewrite ldw_pushed_top by lia. now apply w32_id. }
  exists m1. eexists. eexists.
  split; [apply pushw_effect; assumption|].
  split.
  { apply (popw_effect_reg irq m1 rd); auto.
    - rewrite Sp1. replace (R m R_SP + 4 - 4) with (R m R_SP) by lia. exact Hs.
    - rewrite Sp1. unfold RAMB in *. lia. }
  split.
  { rewrite exec_mov by tauto. rewrite Rm. cbn [bind].
    unfold write_op. change (get_op irm 1) with (op1 irm). cbv zeta. rewrite Mm, Mr. cbn [bind]. reflexivity. }
  rewrite L1.
  assert (N11 : rd <> 11) by lia. assert (N12 : rd <> 12) by lia.
  split.
  { intros i Hi Ni.
    rewrite R_nz_clear_cv by lia.
    unfold set_v_flag_op, set_nz_flags. rewrite Mt. unfold set_v, set_c, set_z, set_n. rewrite !R_setf_other by lia.
    destruct (Z.eq_dec i 12) as [->|Ns].
    - change 12 with R_SP. rewrite R_setR_same. rewrite R_setR_other by (unfold R_SP; lia). rewrite Sp1.
      rewrite R_setR_other by (unfold R_SP; lia).
      unfold sub32, w32. replace (R m R_SP + 4 - 4) with (R m R_SP) by lia. rewrite Z.mod_small; unfold RAMB in *; lia.
    - rewrite R_setR_other by (unfold R_SP; lia).
      destruct (Z.eq_dec i rd) as [->|Nr].
      + now rewrite !R_setR_same.
      + rewrite !R_setR_other by lia. unfold m1. rewrite R_nz_clear_cv by lia. apply R_pushed_other; lia. }
  unfold nz_clear_cv, set_v_flag_op. rewrite Mt.
  rewrite !set_nz_flags_sized by (rewrite ?Qt, ?Mt; discriminate). rewrite Qt, Mt.
  split; [flags; reflexivity|]. split; [flags; reflexivity|]. split; [flags; reflexivity|]. split; [flags; reflexivity|].
  intros a Ha Hd. unfold set_v, set_c, set_z, set_n, ramb. cbn [mbus setf setPSW setR with_regs].
  fold (ramb m1 a). fold (ramb m a). unfold m1. rewrite ramb_nz_clear_cv. apply ramb_pushed_other; lia.
Qed.
