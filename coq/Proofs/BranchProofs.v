(* C05: branch / return predicates and their effect in the model. *)
From Coq Require Import ZArith Lia Bool List.
From Dmd Require Import Model.Bits Model.Types Model.Bus Model.Cpu Gen.GenOpcodes Gen.GenDispatch Spec.ArchCond.
Open Scope Z_scope.

Lemma branch_preds_architected : branch_preds_ok = true.
Proof. vm_compute. reflexivity. Qed.

Lemma all_flags_complete n z v c : In (n, z, v, c) all_flags.
Proof. destruct n, z, v, c; cbn; auto 20. Qed.

Lemma pred_of_table opc c k n z v cf :
  In (opc, c, k) arch_branch_table ->
  g_branch_pred opc n z v cf = Some (cond_holds c n z v cf)
  /\ exists o, find (fun p => fst p =? opc) g_branch_arms = Some (o, k).
Proof.
  intros Hin. pose proof branch_preds_architected as H. unfold branch_preds_ok in H.
  rewrite forallb_forall in H. specialize (H _ Hin). cbn beta iota in H.
  apply andb_true_iff in H as [H1 H2]. rewrite forallb_forall in H1.
  specialize (H1 _ (all_flags_complete n z v cf)). cbn beta iota in H1.
  split.
  - destruct (g_branch_pred opc n z v cf) as [b|]; [|discriminate]. cbn in H1. apply eqb_prop in H1. now subst.
  - destruct (find _ g_branch_arms) as [[o k']|]; [|discriminate].
    exists o. destruct k, k'; try discriminate; reflexivity.
Qed.

(* the generic shape of the conditional arms in exec, for an opcode that the first eight arms do not claim *)
Definition not_early (opc : Z) : bool :=
  negb ((opc =? op_NOP) || (opc =? op_NOP2) || (opc =? op_NOP3)
        || (opc =? op_ADDW2) || (opc =? op_ADDH2) || (opc =? op_ADDB2)
        || (opc =? op_ADDW3) || (opc =? op_ADDH3) || (opc =? op_ADDB3) || (opc =? op_ALSW3)
        || (opc =? op_ANDW2) || (opc =? op_ANDH2) || (opc =? op_ANDB2)
        || (opc =? op_ANDW3) || (opc =? op_ANDH3) || (opc =? op_ANDB3)).

Lemma table_not_early : forallb (fun e => not_early (fst (fst e))) arch_branch_table = true.
Proof. vm_compute. reflexivity. Qed.

Lemma exec_cond ir m opc c k :
  In (opc, c, k) arch_branch_table -> iopcode ir = opc ->
  let taken := cond_holds c (flag F_N m) (flag F_Z m) (flag F_V m) (flag F_C m) in
  exec ir m =
  match k with
  | BrB => Ok (if taken then sext8 (oemb (op0 ir)) else ilen ir) m
  | BrH => Ok (if taken then sext16 (oemb (op0 ir)) else ilen ir) m
  | Ret => cond_return ir taken m
  end.
Proof.
  intros Hin Ho taken.
  pose proof table_not_early as Hn. rewrite forallb_forall in Hn. specialize (Hn _ Hin). cbn [fst] in Hn.
  unfold not_early in Hn. apply negb_true_iff in Hn. repeat (apply orb_false_iff in Hn as [Hn ?]).
  destruct (pred_of_table opc c k (flag F_N m) (flag F_Z m) (flag F_V m) (flag F_C m) Hin) as (Hp & o & Hf).
  unfold exec. rewrite Ho.
  repeat match goal with H : (opc =? _) = false |- _ => rewrite H; clear H end.
  cbn [orb]. rewrite Hp, Hf. destruct k; reflexivity.
Qed.

(* a taken return pops the return address; an untaken one leaves everything alone *)
Lemma cond_return_spec ir taken m :
  cond_return ir taken m =
  if taken then
    match rd_word (sub32 (R m R_SP) 4) m with
    | Ok v m' => Ok 0 (setR (setR m' R_SP (sub32 (R m' R_SP) 4)) R_PC v)
    | Err e m' => Err e m'
    | Panic => Panic
    | OutOfFuel => OutOfFuel
    end
  else Ok (ilen ir) m.
Proof.
  unfold cond_return, stack_pop. destruct taken; [|reflexivity].
  destruct (rd_word (sub32 (R m R_SP) 4) m); reflexivity.
Qed.

(* unconditional transfers *)
Lemma exec_brb ir m : iopcode ir = 123 -> exec ir m = Ok (sext8 (oemb (op0 ir))) m.
Proof. intros H. unfold exec. rewrite H. reflexivity. Qed.
Lemma exec_brh ir m : iopcode ir = 122 -> exec ir m = Ok (sext16 (oemb (op0 ir))) m.
Proof. intros H. unfold exec. rewrite H. reflexivity. Qed.
Lemma exec_rsb ir m : iopcode ir = 120 -> exec ir m = cond_return ir true m.
Proof. intros H. unfold exec. rewrite H. reflexivity. Qed.
Lemma exec_bsbb ir m : iopcode ir = 55 ->
  exec ir m = bind (stack_push (w32 (R m R_PC + ilen ir)) m) (fun _ m => Ok (sext8 (oemb (op0 ir))) m).
Proof. intros H. unfold exec. rewrite H. reflexivity. Qed.
Lemma exec_bsbh ir m : iopcode ir = 54 ->
  exec ir m = bind (stack_push (w32 (R m R_PC + ilen ir)) m) (fun _ m => Ok (sext16 (oemb (op0 ir))) m).
Proof. intros H. unfold exec. rewrite H. reflexivity. Qed.
Lemma exec_jmp ir m : iopcode ir = 36 ->
  exec ir m = bind (effective_address ir 0 m) (fun a m => Ok 0 (setR m R_PC a)).
Proof. intros H. unfold exec. rewrite H. reflexivity. Qed.
Lemma exec_jsb ir m : iopcode ir = 52 ->
  exec ir m = bind (stack_push (w32 (R m R_PC + ilen ir)) m)
                   (fun _ m => bind (effective_address ir 0 m) (fun a m => Ok 0 (setR m R_PC a))).
Proof. intros H. unfold exec. rewrite H. reflexivity. Qed.
