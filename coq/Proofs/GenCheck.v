(* The constants written into the model are the ones the translator reads from the source on this run. *)
From Coq Require Import ZArith List Bool.
From Dmd Require Import Model.Bits Model.Types Model.Mem Model.Bus Model.Cpu Model.Dmd.
From Dmd Require Import Gen.GenConsts Gen.GenRom Gen.GenCapi.
Open Scope Z_scope.

Lemma psw_fields_match :
  (F_ET, F_TM, F_ISC, F_I, F_R, F_PM, F_CM, F_IPL, F_C, F_V, F_Z, F_N, F_CD, F_QIE, F_CFD)
  = (g_F_ET, g_F_TM, g_F_ISC, g_F_I, g_F_R, g_F_PM, g_F_CM, g_F_IPL, g_F_C, g_F_V, g_F_Z, g_F_N, g_F_CD, g_F_QIE, g_F_CFD).
Proof. reflexivity. Qed.

Lemma reg_numbers_match :
  (R_FP, R_AP, R_PSW, R_SP, R_PCBP, R_ISP, R_PC, WE32100_VERSION)
  = (g_R_FP, g_R_AP, g_R_PSW, g_R_SP, g_R_PCBP, g_R_ISP, g_R_PC, g_WE32100_VERSION).
Proof. reflexivity. Qed.

Lemma ipl_table_match : IPL_TABLE = g_IPL_TABLE.
Proof. reflexivity. Qed.

Definition geom (m : mem) : Z * Z * bool := (mbase m, msize m, mro m).

Lemma device_geometry_match now :
  geom (rom (bus_new now)) = g_dev_rom /\ geom (vid (bus_new now)) = g_dev_vid
  /\ geom (bbram (bus_new now)) = g_dev_bbram /\ geom (ram (bus_new now)) = g_dev_ram
  /\ NVRAM_SIZE = g_NVRAM_SIZE /\ VIDEO_LEN = g_video_len /\ g_video_mul = 4
  /\ g_video_guard = (7340032, 8388608, 7340032).
Proof. repeat split. Qed.

Lemma rom_lengths_match :
  g_LO_ROM_V1_LEN = 32768 /\ g_HI_ROM_V1_LEN = 32768 /\ g_LO_ROM_V2_LEN = 65536 /\ g_HI_ROM_V2_LEN = 65536
  /\ g_reset_shape_ok = true.
Proof. repeat split. Qed.

Lemma return_codes_match : (SUCCESS, ERROR, BUSY) = (g_SUCCESS, g_ERROR, g_BUSY).
Proof. reflexivity. Qed.
