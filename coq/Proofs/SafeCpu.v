(* Safety kit, machine level: from any well-formed machine state (bus geometry, byte-valued cells, 32-bit registers)
   every operand access, every dispatch arm, interrupt entry and the whole of step_with_error complete, fault or
   return an error -- keeping the state well formed and ROM unchanged.  Never Panic.  (C12; also gives
   "ROM is invariant under step" for C11/C16 and "the bus stays well formed at every instruction boundary".) *)
From Coq Require Import ZArith Lia Bool List ZifyBool.
From Dmd Require Import Model.Bits Model.Types Model.Fifo Model.Mem Model.Mouse Model.Duart Model.Bus Model.Decode Model.Cpu.
From Dmd Require Import Gen.GenOpcodes Gen.GenDispatch.
From Dmd Require Import Proofs.BitsLemmas Proofs.MemProofs Proofs.BusProofs Proofs.RegKit Proofs.SafeBus Proofs.DecodeProofs Proofs.LoopTerm.
Open Scope Z_scope.

Definition W32 (x : Z) : Prop := 0 <= x < 4294967296.

Definition regs_ok (r : regs) : Prop :=
  W32 (r0 r) /\ W32 (r1 r) /\ W32 (r2 r) /\ W32 (r3 r) /\ W32 (r4 r) /\ W32 (r5 r) /\ W32 (r6 r) /\ W32 (r7 r)
  /\ W32 (r8 r) /\ W32 (r9 r) /\ W32 (r10 r) /\ W32 (r11 r) /\ W32 (r12 r) /\ W32 (r13 r) /\ W32 (r14 r) /\ W32 (r15 r).

Definition mwf (m : mach) : Prop := bwf (mbus m) /\ regs_ok (mregs m).
Definition st (m0 m : mach) : Prop := mwf m /\ rom (mbus m) = rom (mbus m0).

Definition safe {A} (m0 : mach) (P : A -> Prop) (r : res mach A) : Prop :=
  match r with
  | Ok a m => st m0 m /\ P a
  | Err _ m => st m0 m
  | Panic => False
  | OutOfFuel => False
  end.

Lemma st_refl m : mwf m -> st m m.
Proof. intros. split; auto. Qed.

Lemma rget_range r i : regs_ok r -> W32 (rget r i).
Proof.
  intros H. unfold regs_ok, W32 in *. decompose [and] H. unfold rget.
  repeat (destruct (i =? _); [split; assumption|]). split; assumption.
Qed.
Lemma R_range m0 m i : st m0 m -> W32 (R m i).
Proof. intros [[_ H] _]. now apply rget_range. Qed.

Lemma rset_ok r i v : regs_ok r -> W32 v -> regs_ok (rset r i v).
Proof.
  intros H Hv. unfold regs_ok, W32 in *. decompose [and] H. decompose [and] Hv. unfold rset.
  repeat (destruct (i =? _); [cbn; repeat split; assumption|]). cbn. repeat split; assumption.
Qed.
Lemma st_setR m0 m i v : st m0 m -> W32 v -> st m0 (setR m i v).
Proof.
  intros [[Wb Wr] Hr] Hv. split; [split|]; cbn [mbus mregs setR with_regs]; auto. now apply rset_ok.
Qed.

Lemma safe_bind {A B} m0 (P : A -> Prop) (Q : B -> Prop) (r : res mach A) (k : A -> mach -> res mach B) :
  safe m0 P r -> (forall a m, st m0 m -> P a -> safe m0 Q (k a m)) -> safe m0 Q (bind r k).
Proof. destruct r; cbn; auto. intros [? ?] K. now apply K. Qed.

Lemma safe_weaken {A} m0 (P Q : A -> Prop) r : safe m0 P r -> (forall a, P a -> Q a) -> safe m0 Q r.
Proof. destruct r; cbn; auto. intros [? ?] K. split; auto. Qed.

Lemma safe_ok {A} m0 (P : A -> Prop) a m : st m0 m -> P a -> safe m0 P (Ok a m).
Proof. cbn. auto. Qed.
Lemma safe_err {A} m0 (P : A -> Prop) e m : st m0 m -> safe m0 P (@Err mach A e m).
Proof. cbn. auto. Qed.

Lemma safe_liftb {A} m0 m (P : A -> Prop) (f : bus -> res bus A) :
  st m0 m -> bsafe (mbus m) P (f (mbus m)) -> safe m0 P (liftb f m).
Proof.
  intros [[Wb Wr] Hr] H. unfold liftb. destruct (f (mbus m)); cbn in *; auto.
  - destruct H as [? [? ?]]. split; [split; [split|]|]; cbn; auto; congruence.
  - destruct H as [? ?]. split; [split|]; cbn; auto; congruence.
Qed.

Lemma safe_rd_byte m0 m a : st m0 m -> 0 <= a -> safe m0 (fun v => 0 <= v < 256) (rd_byte a m).
Proof. intros S Ha. apply safe_liftb; auto. apply bus_read_byte_safe; auto. apply S. Qed.
Lemma safe_rd_half m0 m a : st m0 m -> 0 <= a -> safe m0 (fun v => 0 <= v < 65536) (rd_half a m).
Proof. intros S Ha. apply safe_liftb; auto. apply bus_read_half_safe; auto. apply S. Qed.
Lemma safe_rd_word m0 m a : st m0 m -> 0 <= a -> safe m0 W32 (rd_word a m).
Proof. intros S Ha. apply safe_liftb; auto. apply bus_read_word_safe; auto. apply S. Qed.
Lemma safe_wr_byte m0 m a v : st m0 m -> safe m0 (fun _ => True) (wr_byte a v m).
Proof. intros S. apply safe_liftb; auto. apply bus_write_byte_safe. apply S. Qed.
Lemma safe_wr_half m0 m a v : st m0 m -> safe m0 (fun _ => True) (wr_half a v m).
Proof. intros S. apply safe_liftb; auto. apply bus_write_half_safe. apply S. Qed.
Lemma safe_wr_word m0 m a v : st m0 m -> safe m0 (fun _ => True) (wr_word a v m).
Proof. intros S. apply safe_liftb; auto. apply bus_write_word_safe. apply S. Qed.

(* ---- ranges of the datapath operations ---- *)
Lemma testbit_hi x n : W32 x -> 32 <= n -> Z.testbit x n = false.
Proof.
  intros [H0 H1] Hn. destruct (Z.eq_dec x 0) as [->|N0]; [apply Z.bits_0|].
  apply Z.bits_above_log2; [lia|]. apply Z.lt_le_trans with 32; [|lia]. apply Z.log2_lt_pow2; lia.
Qed.
Lemma W32_of_bits x : 0 <= x -> (forall n, 32 <= n -> Z.testbit x n = false) -> W32 x.
Proof.
  intros H0 H. split; [exact H0|]. destruct (Z.eq_dec x 0) as [->|N0]; [lia|].
  destruct (Z.lt_ge_cases x 4294967296) as [L|G]; [exact L|]. exfalso.
  assert (Hl : 32 <= Z.log2 x) by (change 32 with (Z.log2 (2 ^ 32)); apply Z.log2_le_mono; lia).
  specialize (H (Z.log2 x) Hl). rewrite Z.bit_log2 in H by lia. discriminate.
Qed.
Lemma land_W32 a b : W32 a -> W32 b -> W32 (Z.land a b).
Proof.
  intros Ha Hb. apply W32_of_bits; [apply Z.land_nonneg; left; apply Ha|].
  intros n Hn. rewrite Z.land_spec, (testbit_hi a n Ha Hn). reflexivity.
Qed.
Lemma lor_W32 a b : W32 a -> W32 b -> W32 (Z.lor a b).
Proof.
  intros Ha Hb. apply W32_of_bits; [apply Z.lor_nonneg; split; [apply Ha|apply Hb]|].
  intros n Hn. rewrite Z.lor_spec, (testbit_hi a n Ha Hn), (testbit_hi b n Hb Hn). reflexivity.
Qed.
Lemma lxor_W32 a b : W32 a -> W32 b -> W32 (Z.lxor a b).
Proof.
  intros Ha Hb. apply W32_of_bits; [apply Z.lxor_nonneg; split; intros; [apply Hb|apply Ha]|].
  intros n Hn. rewrite Z.lxor_spec, (testbit_hi a n Ha Hn), (testbit_hi b n Hb Hn). reflexivity.
Qed.
Lemma shiftr_W32 a n : W32 a -> 0 <= n -> W32 (Z.shiftr a n).
Proof.
  intros [H0 H1] Hn. rewrite Z.shiftr_div_pow2 by lia. split; [apply Z.div_pos; lia|].
  apply Z.le_lt_trans with a; [|lia]. apply Z.div_le_upper_bound; [lia|]. nia.
Qed.
Lemma not32_W32 a : W32 a -> W32 (not32 a).
Proof. unfold W32, not32. lia. Qed.
Lemma w32_W32 x : W32 (w32 x).
Proof. apply w32_range. Qed.
Lemma sext8_W32 x : W32 (sext8 x).
Proof. apply sext8_range. Qed.
Lemma sext16_W32 x : W32 (sext16 x).
Proof. apply sext16_range. Qed.
Lemma w8_W32 x : W32 (w8 x).
Proof. pose proof (w8_range x). unfold W32. lia. Qed.
Lemma w16_W32 x : W32 (w16 x).
Proof. pose proof (w16_range x). unfold W32. lia. Qed.
Lemma clr32_W32 x c : W32 x -> W32 c -> W32 (clr32 x c).
Proof. intros. unfold clr32. apply land_W32; auto. now apply not32_W32. Qed.
#[export] Hint Resolve land_W32 lor_W32 lxor_W32 not32_W32 w32_W32 sext8_W32 sext16_W32 w8_W32 w16_W32 clr32_W32 : w32.
Ltac w32c := first [assumption | solve [unfold W32; lia] | solve [auto 8 with w32] | solve [unfold W32; cbn; lia]].

(* ---- flags ---- *)
Lemma st_setf m0 m mask v : st m0 m -> W32 mask -> st m0 (setf mask v m).
Proof.
  intros S Hm. unfold setf, setPSW. apply st_setR; auto.
  pose proof (R_range m0 m R_PSW S). unfold PSW. destruct v; w32c.
Qed.
Lemma st_set_c m0 m v : st m0 m -> st m0 (set_c v m).
Proof. intros. apply st_setf; auto. unfold W32, F_C; lia. Qed.
Lemma st_set_v m0 m v : st m0 m -> st m0 (set_v v m).
Proof. intros. apply st_setf; auto. unfold W32, F_V; lia. Qed.
Lemma st_set_z m0 m v : st m0 m -> st m0 (set_z v m).
Proof. intros. apply st_setf; auto. unfold W32, F_Z; lia. Qed.
Lemma st_set_n m0 m v : st m0 m -> st m0 (set_n v m).
Proof. intros. apply st_setf; auto. unfold W32, F_N; lia. Qed.
Lemma st_set_nz m0 m v o : st m0 m -> st m0 (set_nz_flags v o m).
Proof. intros. unfold set_nz_flags. destruct (otype o); auto using st_set_z, st_set_n. Qed.
Lemma st_set_vop m0 m v o : st m0 m -> st m0 (set_v_flag_op v o m).
Proof. intros. unfold set_v_flag_op. destruct (otype o); auto using st_set_v. Qed.
Lemma st_setPSW m0 m v : st m0 m -> W32 v -> st m0 (setPSW m v).
Proof. intros. now apply st_setR. Qed.
#[export] Hint Resolve st_set_c st_set_v st_set_z st_set_n st_set_nz st_set_vop st_setR st_setPSW : safe.

(* ---- operand access ---- *)
Section Exec.
Variable ir : instr.
Definition instr_ok : Prop := forall k, W32 (oemb (get_op ir k)).
Hypothesis IOK : instr_ok.
Variable m0 : mach.

Lemma add_offset_W32 v o : W32 (add_offset v o).
Proof. apply w32_W32. Qed.

Lemma safe_ea k m : st m0 m -> safe m0 W32 (effective_address ir k m).
Proof.
  intros S. unfold effective_address. cbv zeta. pose proof (IOK k) as He.
  assert (Rr : forall r, W32 (R m r)) by (intros; eapply R_range; eauto).
  destruct (omode (get_op ir k)); unfold illegalM, fail, ret; try (apply safe_err; auto);
    try (apply safe_ok; auto; apply add_offset_W32);
    try (destruct (oreg (get_op ir k)); [|apply safe_err; auto]);
    try (apply safe_ok; auto; first [apply Rr | apply add_offset_W32]);
    try (apply safe_rd_word; auto; first [apply He | apply add_offset_W32]).
Qed.

Lemma safe_read_op k m : st m0 m -> safe m0 W32 (read_op ir k m).
Proof.
  intros S. unfold read_op. cbv zeta. pose proof (IOK k) as He.
  assert (Rr : forall r, W32 (R m r)) by (intros; eapply R_range; eauto).
  assert (Mem : safe m0 W32
    (bind (effective_address ir k m) (fun eff m =>
       match data_type (get_op ir k) with
       | DNone => illegalM m
       | DByte => rd_byte eff m
       | DHalf => bind (rd_half eff m) (fun v m0 => Ok (sext16 v) m0)
       | DSByte => bind (rd_byte eff m) (fun v m0 => Ok (sext8 v) m0)
       | DUHalf => rd_half eff m
       | _ => rd_word eff m
       end))).
  { eapply safe_bind; [apply safe_ea; auto|]. intros eff m1 S1 [E0 E1].
    destruct (data_type (get_op ir k)); unfold illegalM, fail.
    - apply safe_err; auto.
    - eapply safe_weaken; [apply safe_rd_byte; auto|]. unfold W32. cbn. intros; lia.
    - eapply safe_bind; [apply safe_rd_half; auto|]. intros. apply safe_ok; auto. apply sext16_W32.
    - apply safe_rd_word; auto.
    - eapply safe_bind; [apply safe_rd_byte; auto|]. intros. apply safe_ok; auto. apply sext8_W32.
    - eapply safe_weaken; [apply safe_rd_half; auto|]. unfold W32. cbn. intros; lia.
    - apply safe_rd_word; auto. }
  destruct (omode (get_op ir k)); try exact Mem;
    try (apply safe_ok; auto; first [apply sext8_W32 | apply sext16_W32 | apply He]).
  destruct (oreg (get_op ir k)); [|apply safe_err; auto].
  destruct (data_type (get_op ir k)); unfold illegalM, fail;
    first [apply safe_err; solve [auto] | apply safe_ok; auto; w32c].
Qed.

Lemma safe_write_op k v m : st m0 m -> W32 v -> safe m0 (fun _ => True) (write_op ir k v m).
Proof.
  intros S Hv. unfold write_op. cbv zeta.
  assert (Mem : safe m0 (fun _ => True)
    (bind (effective_address ir k m) (fun eff m =>
       match data_type (get_op ir k) with
       | DNone => illegalM m
       | DByte | DSByte => wr_byte eff (w8 v) m
       | DHalf | DUHalf => wr_half eff (w16 v) m
       | _ => wr_word eff v m
       end))).
  { eapply safe_bind; [apply safe_ea; auto|]. intros eff m1 S1 _.
    destruct (data_type (get_op ir k)); unfold illegalM, fail;
      first [apply safe_err; solve [auto] | apply safe_wr_byte; auto | apply safe_wr_half; auto | apply safe_wr_word; auto]. }
  destruct (omode (get_op ir k)); try exact Mem; unfold illegalM, fail; try (apply safe_err; auto).
  destruct (oreg (get_op ir k)); [|apply safe_err; auto]. apply safe_ok; auto with safe.
Qed.

(* ---- stack helpers ---- *)
Lemma safe_stack_push v m : st m0 m -> safe m0 (fun _ => True) (stack_push v m).
Proof.
  intros S. unfold stack_push. eapply safe_bind; [apply safe_wr_word; auto|].
  intros _ m1 S1 _. apply safe_ok; auto. apply st_setR; auto. apply w32_W32.
Qed.
Lemma safe_stack_pop m : st m0 m -> safe m0 W32 (stack_pop m).
Proof.
  intros S. unfold stack_pop. eapply safe_bind; [apply safe_rd_word; auto; apply w32_W32|].
  intros v m1 S1 Hv. apply safe_ok; auto. apply st_setR; auto. apply w32_W32.
Qed.
Lemma safe_irq_push v m : st m0 m -> safe m0 (fun _ => True) (irq_push v m).
Proof.
  intros S. unfold irq_push. eapply safe_bind; [apply safe_wr_word; auto|].
  intros _ m1 S1 _. apply safe_ok; auto. apply st_setR; auto. apply w32_W32.
Qed.
Lemma safe_irq_pop m : st m0 m -> safe m0 W32 (irq_pop m).
Proof.
  intros S. unfold irq_pop. cbv zeta.
  assert (S1 : st m0 (setR m R_ISP (sub32 (R m R_ISP) 4))) by (apply st_setR; auto; apply w32_W32).
  apply safe_rd_word; auto. apply (R_range m0 _ R_ISP S1).
Qed.

(* ---- arithmetic helpers ---- *)
Lemma safe_add_op a b dst m : st m0 m -> safe m0 (fun _ => True) (add_op ir a b dst m).
Proof.
  intros S. unfold add_op. cbv zeta. eapply safe_bind; [apply safe_write_op; auto; apply w32_W32|].
  intros _ m1 S1 _. destruct (data_type (get_op ir dst)); unfold illegalM, fail;
    first [apply safe_err; solve [auto with safe] | apply safe_ok; auto 8 with safe].
Qed.
Lemma safe_sub_op a b dst m : st m0 m -> safe m0 (fun _ => True) (sub_op ir a b dst m).
Proof.
  intros S. unfold sub_op. cbv zeta. eapply safe_bind; [apply safe_write_op; auto; apply w32_W32|].
  intros _ m1 S1 _. apply safe_ok; auto 8 with safe.
Qed.

Lemma safe_alu_std (f : Z -> Z -> Z) dst m :
  (forall a b, W32 a -> W32 b -> W32 (f a b)) -> st m0 m -> safe m0 (fun _ => True) (alu_std ir f dst m).
Proof.
  intros Hf S. unfold alu_std.
  eapply safe_bind; [apply safe_read_op; auto|]. intros a m1 S1 Ha.
  eapply safe_bind; [apply safe_read_op; auto|]. intros b m2 S2 Hb.
  eapply safe_bind; [apply safe_write_op; auto|]. intros _ m3 S3 _.
  apply safe_ok; auto 8 with safe.
Qed.

Ltac Zify.zify_post_hook ::= Z.div_mod_to_equations.

Lemma div_val_W32 a b t q : W32 a -> W32 b -> a <> 0 -> div_val a b t = Some q -> W32 q.
Proof.
  intros Ha Hb Na. unfold div_val.
  destruct t; repeat match goal with |- context [if ?c then _ else _] => destruct c eqn:? end;
    intros E; inversion E; subst; try w32c.
  all: unfold W32 in *; try (pose proof (w16_range a); pose proof (w16_range b));
       try (pose proof (w8_range a); pose proof (w8_range b)).
  all: try (split; [apply Z.div_pos; lia | apply Z.div_lt_upper_bound; nia]).
Qed.
Lemma mod_val_W32 a b t q : W32 a -> W32 b -> a <> 0 -> mod_val a b t = Some q -> W32 q.
Proof.
  intros Ha Hb Na. unfold mod_val.
  destruct t; repeat match goal with |- context [if ?c then _ else _] => destruct c eqn:? end;
    intros E; inversion E; subst; try w32c.
  all: unfold W32 in *; try (pose proof (w16_range a); pose proof (w16_range b));
       try (pose proof (w8_range a); pose proof (w8_range b)).
  all: try (assert (0 <= b mod a < a) by (apply Z.mod_pos_bound; lia); lia).
  all: try (assert (0 <= w16 b mod w16 a < w16 a) by (apply Z.mod_pos_bound; lia); lia).
  all: try (assert (0 <= w8 b mod w8 a < w8 a) by (apply Z.mod_pos_bound; lia); lia).
Qed.

Lemma safe_div_arm dst oa ob m : st m0 m -> safe m0 (fun _ => True) (div_arm ir dst oa ob m).
Proof.
  intros S. unfold div_arm, zerodiv, fail.
  eapply safe_bind; [apply safe_read_op; auto|]. intros a m1 S1 Ha.
  eapply safe_bind; [apply safe_read_op; auto|]. intros b m2 S2 Hb.
  destruct (a =? 0) eqn:Ea; [apply safe_err; auto|].
  destruct (div_val a b (otype (get_op ir 1))) as [q|] eqn:Eq; [|apply safe_err; auto].
  assert (Hq : W32 q) by (apply (div_val_W32 a b (otype (get_op ir 1)) q Ha Hb); [lia | exact Eq]).
  eapply safe_bind; [apply safe_write_op; auto|]. intros _ m3 S3 _.
  apply safe_ok; auto. destruct ((a =? oa) && (b =? ob)); auto 8 with safe.
Qed.
Lemma safe_mod_arm dst m : st m0 m -> safe m0 (fun _ => True) (mod_arm ir dst m).
Proof.
  intros S. unfold mod_arm, zerodiv, fail.
  eapply safe_bind; [apply safe_read_op; auto|]. intros a m1 S1 Ha.
  eapply safe_bind; [apply safe_read_op; auto|]. intros b m2 S2 Hb.
  destruct (a =? 0) eqn:Ea; [apply safe_err; auto|].
  destruct (mod_val a b (otype (get_op ir 1))) as [q|] eqn:Eq; [|apply safe_err; auto].
  assert (Hq : W32 q) by (apply (mod_val_W32 a b (otype (get_op ir 1)) q Ha Hb); [lia | exact Eq]).
  eapply safe_bind; [apply safe_write_op; auto|]. intros _ m3 S3 _.
  apply safe_ok; auto 8 with safe.
Qed.

(* ---- loops ---- *)
Definition lsafe (r : lres) : Prop :=
  match r with
  | LDone m | LCont m | LErr _ m => st m0 m
  | LPanic => False
  | LFuel => False
  end.

Lemma iter_loop_safe body : (forall m, st m0 m -> lsafe (body m)) ->
  forall p m, st m0 m -> lsafe (iter_loop p body m).
Proof.
  intros Hb. induction p as [q IH|q IH|]; intros m S; cbn [iter_loop].
  - pose proof (Hb m S) as K. destruct (body m) as [m1|m1|e m1| |]; auto.
    pose proof (IH m1 K) as K1. destruct (iter_loop q body m1) as [m2|m2|e m2| |]; auto.
  - pose proof (IH m S) as K. destruct (iter_loop q body m) as [m1|m1|e m1| |]; auto.
  - auto.
Qed.

Lemma st_R0 m : st m0 m -> 0 <= R m 0 < 4294967296.
Proof. intros S. apply (R_range m0 m 0 S). Qed.

(* a loop whose every further turn moves R0 over at least one successful bus access of stride d ends before the
   iteration bound: the result is never OutOfFuel *)
Lemma run_loop_safe d body m : 1 <= d <= 4 -> (forall m, st m0 m -> lsafe (body m)) ->
  (forall m m', st m0 m -> body m = LCont m' -> exists n, 1 <= n /\ chain d (R m 0) (R m' 0) n) ->
  st m0 m -> safe m0 (fun _ => True) (run_loop body m).
Proof.
  intros Hd Hb Hp S. unfold run_loop. pose proof (iter_loop_safe body Hb loop_fuel m S) as K.
  assert (NC : forall m', iter_loop loop_fuel body m <> LCont m').
  { apply (loop_fuel_suffices d Hd body (st m0) st_R0); auto.
    intros m1 m2 S1 B. split; [|apply Hp; auto]. pose proof (Hb m1 S1) as K1. rewrite B in K1. exact K1. }
  destruct (iter_loop loop_fuel body m) as [m1|m1|e m1| |]; cbn in *; auto. exact (NC m1 eq_refl).
Qed.

Lemma lbind_safe {A} (P : A -> Prop) (r : res mach A) (k : A -> mach -> lres) :
  safe m0 P r -> (forall a m, st m0 m -> P a -> lsafe (k a m)) -> lsafe (lbind r k).
Proof. destruct r; cbn; auto. intros [? ?] K. now apply K. Qed.

Lemma movblw_body_safe m : st m0 m -> lsafe (movblw_body m).
Proof.
  intros S. unfold movblw_body. destruct (R m 2 =? 0); [exact S|].
  eapply lbind_safe; [apply safe_rd_word; auto; apply (R_range m0 m 0 S)|]. intros a m1 S1 Ha.
  eapply lbind_safe; [apply safe_wr_word; auto|]. intros _ m2 S2 _.
  cbn [lsafe]. repeat apply st_setR; auto; apply w32_W32.
Qed.

(* what bus accesses leave of the register file *)
Lemma liftb_R {A} (f : bus -> res bus A) m a m' i : liftb f m = Ok a m' -> R m' i = R m i.
Proof. intros H. apply liftb_ok in H. destruct H as [_ H]. now apply R_of_regs. Qed.

Lemma movblw_progress m m' : st m0 m -> movblw_body m = LCont m' -> exists n, 1 <= n /\ chain 4 (R m 0) (R m' 0) n.
Proof.
  intros S. unfold movblw_body. destruct (R m 2 =? 0); [discriminate|].
  destruct (rd_word (R m 0) m) as [a m1|e m1| |] eqn:E1; cbn [lbind]; try discriminate.
  destruct (wr_word (R m1 1) a m1) as [u m2|e m2| |] eqn:E2; cbn [lbind]; try discriminate.
  intros H. injection H as <-. exists 1. split; [lia|].
  rewrite R_setR_other by lia. rewrite R_setR_same. rewrite R_setR_other by lia.
  unfold wr_word in E2. rewrite (liftb_R _ m1 u m2 0 E2). unfold rd_word in E1. rewrite (liftb_R _ m a m1 0 E1).
  unfold add32. apply chain_one; [|apply (st_R0 m S)]. eapply rd_word_mapped. exact E1.
Qed.

Lemma safe_movblw_loop m : st m0 m -> safe m0 (fun _ => True) (movblw_loop m).
Proof. intros. apply (run_loop_safe 4); auto; [lia | apply movblw_body_safe | apply movblw_progress]. Qed.

(* MOVBLW ends with R0 a whole number of successful word reads further on *)
Lemma movblw_loop_done m m' : st m0 m -> movblw_loop m = Ok tt m' -> exists n, 0 <= n /\ chain 4 (R m 0) (R m' 0) n.
Proof.
  intros S E.
  refine (proj2 (run_loop_done 4 movblw_body (st m0) st_R0 _ _ m m' S E)).
  - intros m1 m2 S1 B. split; [|apply movblw_progress; auto]. pose proof (movblw_body_safe m1 S1) as K. rewrite B in K. exact K.
  - intros m1 m2 S1 B. pose proof (movblw_body_safe m1 S1) as K. rewrite B in K. split; [exact K|].
    unfold movblw_body in B. destruct (R m1 2 =? 0).
    + injection B as <-. exists 0. split; [lia|]. apply chain_zero. apply (st_R0 m1 S1).
    + destruct (rd_word (R m1 0) m1) as [a m3|e m3| |]; cbn [lbind] in B; try discriminate.
      destruct (wr_word (R m3 1) a m3) as [u m4|e m4| |]; cbn [lbind] in B; discriminate.
Qed.

Lemma strend_body_safe m : st m0 m -> lsafe (strend_body m).
Proof.
  intros S. unfold strend_body.
  eapply lbind_safe; [apply safe_rd_byte; auto; apply (R_range m0 m 0 S)|]. intros c m1 S1 Hc.
  destruct (c =? 0); cbn [lsafe]; auto. apply st_setR; auto; apply w32_W32.
Qed.
Lemma strend_progress m m' : st m0 m -> strend_body m = LCont m' -> exists n, 1 <= n /\ chain 1 (R m 0) (R m' 0) n.
Proof.
  intros S. unfold strend_body.
  destruct (rd_byte (R m 0) m) as [c m1|e m1| |] eqn:E1; cbn [lbind]; try discriminate.
  destruct (c =? 0); [discriminate|]. intros H. injection H as <-. exists 1. split; [lia|].
  rewrite R_setR_same. unfold rd_byte in E1. rewrite (liftb_R _ m c m1 0 E1).
  unfold add32. apply chain_one; [|apply (st_R0 m S)]. eapply rd_byte_mapped. exact E1.
Qed.
Lemma safe_strend_loop m : st m0 m -> safe m0 (fun _ => True) (strend_loop m).
Proof. intros. apply (run_loop_safe 1); auto; [lia | apply strend_body_safe | apply strend_progress]. Qed.

Lemma cs3_body_safe m : st m0 m -> lsafe (cs3_body m).
Proof.
  intros S. unfold cs3_body. destruct (R m 2 =? 0); [exact S|].
  eapply lbind_safe; [apply safe_rd_word; auto; apply (R_range m0 m 0 S)|]. intros v m1 S1 Hv.
  eapply lbind_safe; [apply safe_movblw_loop; repeat apply st_setR; auto; apply w32_W32|]. intros _ m2 S2 _.
  eapply lbind_safe; [apply safe_rd_word; auto; apply (R_range m0 m2 0 S2)|]. intros v2 m3 S3 Hv2.
  cbn [lsafe]. repeat apply st_setR; auto; apply w32_W32.
Qed.
Lemma cs3_progress m m' : st m0 m -> cs3_body m = LCont m' -> exists n, 1 <= n /\ chain 4 (R m 0) (R m' 0) n.
Proof.
  intros S. unfold cs3_body. destruct (R m 2 =? 0); [discriminate|].
  pose proof (safe_rd_word m0 m (R m 0) S (proj1 (st_R0 m S))) as K1.
  destruct (rd_word (R m 0) m) as [v m1|e m1| |] eqn:E1; cbn [lbind]; try discriminate.
  destruct K1 as [S1 Hv].
  set (ma := setR (setR m1 1 v) 0 (add32 (R (setR m1 1 v) 0) 4)).
  assert (Sa : st m0 ma) by (unfold ma; repeat apply st_setR; auto; apply w32_W32).
  destruct (movblw_loop ma) as [u m2|e m2| |] eqn:E2; cbn [lbind]; try discriminate.
  destruct u. destruct (movblw_loop_done ma m2 Sa E2) as [n [Hn C2]].
  pose proof (safe_movblw_loop ma Sa) as K2. rewrite E2 in K2. destruct K2 as [S2 _].
  destruct (rd_word (R m2 0) m2) as [v2 m3|e m3| |] eqn:E3; cbn [lbind]; try discriminate.
  intros H. injection H as <-. exists (1 + (n + 1)). split; [lia|].
  rewrite R_setR_same. rewrite R_setR_other by lia. unfold rd_word in E3. rewrite (liftb_R _ m2 v2 m3 0 E3).
  assert (Ea : R ma 0 = w32 (R m 0 + 4)).
  { unfold ma. rewrite R_setR_same. rewrite R_setR_other by lia. unfold rd_word in E1. rewrite (liftb_R _ m v m1 0 E1). reflexivity. }
  eapply chain_app.
  - apply (chain_one 4 (R m 0)); [eapply rd_word_mapped; exact E1 | apply (st_R0 m S)].
  - rewrite <- Ea. eapply chain_app; [exact C2|]. unfold add32.
    apply chain_one; [eapply rd_word_mapped; unfold rd_word; exact E3 | apply (st_R0 m2 S2)].
Qed.
Lemma safe_cs3_loop m : st m0 m -> safe m0 (fun _ => True) (cs3_loop m).
Proof. intros. apply (run_loop_safe 4); auto; [lia | apply cs3_body_safe | apply cs3_progress]. Qed.

(* ---- context switches ---- *)
Ltac sbind := eapply safe_bind; [ | intros ? ? ? ? ].
Ltac rr := match goal with
           | S : st m0 ?m |- W32 (R ?m ?i) => apply (R_range m0 m i S)
           | S : st m0 ?m |- 0 <= R ?m ?i => apply (proj1 (R_range m0 m i S))
           end.
Ltac nn := first [rr | (unfold usub, w64; apply Z.mod_pos_bound; lia) | apply (proj1 (w32_W32 _)) | match goal with H : W32 ?x |- 0 <= ?x => apply (proj1 H) end | unfold W32 in *; lia].
Ltac rdw := apply safe_rd_word; [assumption | first [apply w32_W32 | rr | unfold W32 in *; lia]].

Lemma st_psw_or m v c : st m0 m -> W32 v -> W32 c -> st m0 (setPSW m (Z.lor (PSW m) (Z.land v c))).
Proof. intros S Hv Hc. apply st_setPSW; auto. pose proof (R_range m0 m R_PSW S). unfold PSW. w32c. Qed.
Lemma st_psw_clr m c : st m0 m -> W32 c -> st m0 (setPSW m (clr32 (PSW m) c)).
Proof. intros S Hc. apply st_setPSW; auto. pose proof (R_range m0 m R_PSW S). unfold PSW. w32c. Qed.

Lemma safe_cs1 p m : st m0 m -> W32 p -> safe m0 (fun _ => True) (context_switch_1 p m).
Proof.
  intros S Hp. unfold context_switch_1.
  sbind; [apply safe_wr_word; auto|].
  assert (Sa : st m0 (setPSW m1 (clr32 (PSW m1) F_R))) by (apply st_psw_clr; auto; unfold W32, F_R; lia).
  sbind; [apply safe_rd_word; auto; apply Hp|].
  assert (Sb : st m0 (setPSW m2 (Z.lor (PSW m2) (Z.land a0 F_R)))) by (apply st_psw_or; auto; unfold W32, F_R; lia).
  sbind; [apply safe_wr_word; auto|].
  sbind; [apply safe_wr_word; auto|].
  destruct (bset (PSW m4) F_R); [|apply safe_ok; auto].
  repeat (sbind; [apply safe_wr_word; auto|]).
  apply safe_ok; auto. apply st_setR; auto. apply w32_W32.
Qed.

Lemma safe_cs2 p m : st m0 m -> W32 p -> safe m0 (fun _ => True) (context_switch_2 p m).
Proof.
  intros S Hp. unfold context_switch_2.
  assert (S1 : st m0 (setR m R_PCBP p)) by (apply st_setR; auto).
  sbind; [apply safe_rd_word; auto; nn|].
  assert (S2 : st m0 (setPSW m1 (clr32 a F_TM))) by (apply st_setPSW; auto; apply clr32_W32; auto; unfold W32, F_TM; lia).
  sbind; [apply safe_rd_word; auto; nn|].
  assert (S3 : st m0 (setR m2 R_PC a0)) by (apply st_setR; auto).
  sbind; [apply safe_rd_word; auto; nn|].
  assert (S4 : st m0 (setR m3 R_SP a1)) by (apply st_setR; auto).
  destruct (bset (PSW (setR m3 R_SP a1)) F_I); apply safe_ok; auto.
  apply st_setR; [|apply w32_W32]. apply st_psw_clr; auto. unfold W32, F_I; lia.
Qed.

Lemma safe_cs3 m : st m0 m -> safe m0 (fun _ => True) (context_switch_3 m).
Proof.
  intros S. unfold context_switch_3. destruct (bset (PSW m) F_R); [|apply safe_ok; auto].
  assert (S1 : st m0 (setR m 0 (add32 (R m R_PCBP) 64))) by (apply st_setR; auto; apply w32_W32).
  sbind; [apply safe_rd_word; auto; nn|].
  sbind; [apply safe_cs3_loop; repeat apply st_setR; auto; apply w32_W32|].
  apply safe_ok; auto. apply st_setR; auto; apply w32_W32.
Qed.

Lemma st_psw_enter_1 m : st m0 m -> st m0 (psw_enter_1 m).
Proof.
  intros S. unfold psw_enter_1. apply st_setPSW; auto. pose proof (R_range m0 m R_PSW S). unfold PSW.
  apply lor_W32; [apply clr32_W32; auto; unfold W32, F_ISC, F_TM, F_ET; lia | unfold W32; lia].
Qed.
Lemma st_psw_enter_2 m : st m0 m -> st m0 (psw_enter_2 m).
Proof.
  intros S. unfold psw_enter_2. apply st_setPSW; auto. pose proof (R_range m0 m R_PSW S). unfold PSW.
  repeat apply lor_W32; try (unfold W32; lia). apply clr32_W32; auto; unfold W32, F_ISC, F_TM, F_ET; lia.
Qed.

Lemma safe_cond_return taken m : st m0 m -> safe m0 (fun _ => True) (cond_return ir taken m).
Proof.
  intros S. unfold cond_return. destruct taken; [|apply safe_ok; auto].
  sbind; [apply safe_stack_pop; auto|]. apply safe_ok; auto. apply st_setR; auto.
Qed.

Lemma safe_on_interrupt v m : st m0 m -> 0 <= v -> safe m0 (fun _ => True) (on_interrupt v m).
Proof.
  intros S Hv. unfold on_interrupt.
  sbind; [apply safe_rd_word; auto; lia|].
  sbind; [apply safe_irq_push; auto|].
  sbind; [apply safe_cs1; [apply st_psw_enter_1; auto | auto]|].
  sbind; [apply safe_cs2; auto|].
  apply safe_cs3. apply st_psw_enter_2; auto.
Qed.

Lemma land_W32_l a b : W32 a -> W32 (Z.land a b).
Proof.
  intros Ha. apply W32_of_bits; [apply Z.land_nonneg; left; apply Ha|].
  intros n Hn. rewrite Z.land_spec, (testbit_hi a n Ha Hn). reflexivity.
Qed.
Lemma land31_nonneg b : 0 <= Z.land b 31.
Proof. apply Z.land_nonneg. right. lia. Qed.

Ltac rng :=
  repeat first
    [ assumption | apply w32_W32 | apply sext8_W32 | apply sext16_W32 | apply w8_W32 | apply w16_W32
    | apply lor_W32 | apply lxor_W32 | apply not32_W32 | apply clr32_W32
    | apply shiftr_W32 | apply land31_nonneg | apply land_W32_l | rr | solve [unfold W32; lia] ].

Lemma rotr32_W32 b a : W32 b -> 0 <= a -> W32 (rotr32 b a).
Proof. intros. unfold rotr32. destruct (a =? 0); rng. Qed.

Lemma safe_restore_loop n : forall r c m, st m0 m -> W32 c -> safe m0 (fun _ => True)
  ((fix loop (n : nat) (r c : Z) (m : mach) {struct n} : res mach unit :=
      match n with
      | O => Ok tt m
      | S n' => if r <? R_FP then bind (rd_word c m) (fun v m => loop n' (r + 1) (add32 c 4) (setR m r v)) else Ok tt m
      end) n r c m).
Proof.
  induction n as [|n IH]; intros r c m S Hc.
  - apply safe_ok; auto.
  - destruct (r <? R_FP); [|apply safe_ok; auto].
    eapply safe_bind; [apply safe_rd_word; auto; apply Hc|]. intros v m1 S1 Hv.
    apply IH; [apply st_setR; auto | apply w32_W32].
Qed.

Lemma safe_save_loop n : forall r off m, st m0 m -> 0 <= off -> safe m0 (fun _ => True)
  ((fix loop (n : nat) (r off : Z) (m : mach) {struct n} : res mach unit :=
      match n with
      | O => Ok tt m
      | S n' => if r <? R_FP then bind (wr_word (R m R_SP + off) (R m r) m) (fun _ m => loop n' (r + 1) (off + 4) m) else Ok tt m
      end) n r off m).
Proof.
  induction n as [|n IH]; intros r off m S Ho.
  - apply safe_ok; auto.
  - destruct (r <? R_FP); [|apply safe_ok; auto].
    eapply safe_bind; [apply safe_wr_word; auto|]. intros _ m1 S1 _. apply IH; auto. lia.
Qed.

Lemma safe_if {A} (P : A -> Prop) (c : bool) (X Y : res mach A) :
  safe m0 P X -> safe m0 P Y -> safe m0 P (if c then X else Y).
Proof. destruct c; auto. Qed.

Ltac kconst := unfold W32, WE32100_VERSION, F_ET, F_TM, F_ISC, F_I, F_R, F_PM, F_CM, F_IPL, F_C, F_V, F_Z, F_N, F_CD, F_QIE, F_CFD; cbn; lia.
Ltac rng2 :=
  unfold PSW in *;
  repeat first
    [ assumption | apply w32_W32 | apply sext8_W32 | apply sext16_W32 | apply w8_W32 | apply w16_W32
    | apply lor_W32 | apply lxor_W32 | apply not32_W32 | apply clr32_W32 | apply rotr32_W32
    | apply shiftr_W32 | apply land31_nonneg | apply land_W32_l | rr
    | match goal with |- W32 (match ?d with DNone => _ | _ => _ end) => destruct d end
    | solve [kconst] ].

Ltac stt :=
  repeat first
    [ assumption | apply st_psw_enter_1 | apply st_psw_enter_2
    | apply st_set_c | apply st_set_v | apply st_set_z | apply st_set_n | apply st_set_nz | apply st_set_vop
    | apply st_setPSW; [|solve [rng2]] | apply st_setR; [|solve [rng2]] ].

Ltac prim :=
  lazymatch goal with
  | |- safe _ _ (read_op _ _ _) => apply safe_read_op; solve [stt]
  | |- safe _ _ (effective_address _ _ _) => apply safe_ea; solve [stt]
  | |- safe _ _ (add_op _ _ _ _ _) => apply safe_add_op; solve [stt]
  | |- safe _ _ (sub_op _ _ _ _ _) => apply safe_sub_op; solve [stt]
  | |- safe _ _ (stack_push _ _) => apply safe_stack_push; solve [stt]
  | |- safe _ _ (stack_pop _) => apply safe_stack_pop; solve [stt]
  | |- safe _ _ (irq_push _ _) => apply safe_irq_push; solve [stt]
  | |- safe _ _ (irq_pop _) => apply safe_irq_pop; solve [stt]
  | |- safe _ _ (movblw_loop _) => apply safe_movblw_loop; solve [stt]
  | |- safe _ _ (strend_loop _) => apply safe_strend_loop; solve [stt]
  | |- safe _ _ (context_switch_3 _) => apply safe_cs3; solve [stt]
  | |- safe _ _ (context_switch_1 _ _) => apply safe_cs1; [solve [stt] | solve [rng2]]
  | |- safe _ _ (context_switch_2 _ _) => apply safe_cs2; [solve [stt] | solve [rng2]]
  | |- safe _ _ (write_op _ _ _ _) => apply safe_write_op; [solve [stt] | solve [rng2]]
  | |- safe _ _ (wr_word _ _ _) => apply safe_wr_word; solve [stt]
  | |- safe _ _ (rd_word _ _) => apply safe_rd_word; [solve [stt] | solve [nn | rng2 | (apply (proj1 (w32_W32 _)))] ]
  | |- safe _ _ ((fix loop (n : nat) (r c : Z) (m : mach) {struct n} : res mach unit := _) _ _ _ _) =>
      first [apply safe_restore_loop; [solve [stt] | solve [rng2]] | apply safe_save_loop; [solve [stt] | lia]]
  | |- _ => idtac
  end.

Ltac leaf :=
  first
    [ apply safe_ok; [solve [stt] | exact I]
    | apply (safe_ok m0 (fun _ : unit => True)); [solve [stt] | exact I]
    | apply safe_err; solve [stt] ].

Ltac go :=
  lazymatch goal with
  | |- safe _ _ (if _ then _ else _) => apply safe_if; go
  | |- safe _ _ (Ok _ _) => try leaf
  | |- safe _ _ (Err _ _) => try leaf
  | |- safe _ _ (bind (?f (S ?n) ?r ?c ?mm) _) =>
      sbind; [first [apply safe_restore_loop; [solve [stt] | solve [rng2]] | apply safe_save_loop; [solve [stt] | lia]] | go]
  | |- safe _ _ (bind _ _) => sbind; [try prim | go]
  | |- safe _ _ (match oreg ?o with Some _ => _ | None => _ end) => destruct (oreg o); go
  | |- safe _ _ (alu_std _ _ _ _) => apply safe_alu_std; [intros; rng2 | solve [stt]]
  | |- safe _ _ (div_arm _ _ _ _ _) => apply safe_div_arm; solve [stt]
  | |- safe _ _ (mod_arm _ _ _) => apply safe_mod_arm; solve [stt]
  | |- safe _ _ (cond_return _ _ _) => apply safe_cond_return; solve [stt]
  | |- _ => idtac
  end.

Lemma exec_safe m : st m0 m -> safe m0 (fun _ => True) (exec ir m).
Proof.
  intros S. unfold exec. cbv zeta. unfold illegalM, fail.
  repeat (apply safe_if; [go|]).
  match goal with |- safe _ _ (match ?x with Some _ => _ | None => ?r end) => set (rest := r) end.
  assert (Hrest : safe m0 (fun _ : Z => True) rest).
  { subst rest. repeat (apply safe_if; [go|]). all: go. }
  clearbody rest.
  destruct (g_branch_pred (iopcode ir) (flag F_N m) (flag F_Z m) (flag F_V m) (flag F_C m)) as [taken|]; [|exact Hrest].
  destruct (find (fun p : Z * brkind => fst p =? iopcode ir) g_branch_arms) as [[o k]|]; [|exact Hrest].
  destruct k; go.
Qed.

(* ---- decode on the machine, dispatch, step ---- *)
End Exec.

