(* C06: arbitrary nestings of push / pop, subroutine entry / return, CALL / RET and SAVE / RESTORE.
   Each instruction is summarised by a contract (what it does to SP / FP / AP / r3-r8 and to stack memory); the
   contracts are proved of the dispatch arms (second half of the file); `nest` is the inductive family of balanced
   nestings built from the contracts; `nest_frame_kept` shows by induction on the nesting -- any depth, any order --
   that a balanced nest leaves SP, FP, AP, r3-r8 and every stack byte below the initial SP exactly as they were,
   and the corollaries give the values that come back (return address, popped word, restored registers). *)
From Coq Require Import ZArith Lia Bool List.
From Dmd Require Import Model.Bits Model.Types Model.Mem Model.Bus Model.Decode Model.Cpu.
From Dmd Require Import Proofs.BusProofs Proofs.RegKit Proofs.MachKit Proofs.LinkageProofs.
Open Scope Z_scope.

Definition below_eq (s : Z) (m m' : mach) : Prop := forall a, RAMB <= a -> a < s -> ramb m' a = ramb m a.

Lemma below_eq_refl s m : below_eq s m m.
Proof. intros a _ _. reflexivity. Qed.
Lemma below_eq_trans s a b c : below_eq s a b -> below_eq s b c -> below_eq s a c.
Proof. intros H1 H2 x Hx Hs. rewrite H2, H1; auto. Qed.
Lemma below_eq_weaken s s' a b : s' <= s -> below_eq s a b -> below_eq s' a b.
Proof. intros L H x Hx Hs. apply H; lia. Qed.
Lemma below_eq_ldw s m m' a : below_eq s m m' -> RAMB <= a -> a + 4 <= s -> ldw m' a = ldw m a.
Proof. intros H Ha Hs. unfold ldw. rewrite !H by lia. reflexivity. Qed.
Lemma below_eq_same_bus s m m' : mbus m' = mbus m -> below_eq s m m'.
Proof. intros E a _ _. unfold ramb. now rewrite E. Qed.

(* the registers a callee must preserve *)
Definition keeps_regs (m m' : mach) : Prop :=
  forall i, 3 <= i <= 14 -> i <> 11 -> i <> 12 -> R m' i = R m i.

Record frame_kept (m m' : mach) : Prop := {
  fk_wf : bus_wf (mbus m');
  fk_sp : R m' R_SP = R m R_SP;
  fk_regs : keeps_regs m m';
  fk_below : below_eq (R m R_SP) m m' }.

(* ---- contracts ---- *)
(* instructions that touch only r0-r2, the PSW and the PC *)
Definition leaf (m m' : mach) : Prop := mbus m' = mbus m /\ R m' R_SP = R m R_SP /\ keeps_regs m m'.
(* PUSHW v and the subroutine entries (which push the return address) *)
Definition push_like (m : mach) (v : Z) (m1 : mach) : Prop :=
  bus_wf (mbus m1) /\ R m1 R_SP = R m R_SP + 4 /\ ldw m1 (R m R_SP) = w32 v /\ keeps_regs m m1
  /\ below_eq (R m R_SP) m m1.
(* POPW into r0-r2 and RSB: the word below SP goes to `dst` (a scratch register or the PC) *)
Definition pop_like (m2 : mach) (dst : Z) (m3 : mach) : Prop :=
  mbus m3 = mbus m2 /\ R m3 R_SP = R m2 R_SP - 4 /\ keeps_regs m2 m3 /\ R m3 dst = ldw m2 (R m2 R_SP - 4).
(* CALL a, b *)
Definition call_like (m : mach) (a ret : Z) (m1 : mach) : Prop :=
  bus_wf (mbus m1) /\ R m1 R_SP = R m R_SP + 8 /\ R m1 R_AP = a
  /\ ldw m1 (R m R_SP) = w32 ret /\ ldw m1 (R m R_SP + 4) = R m R_AP
  /\ (forall i, 3 <= i <= 14 -> i <> 10 -> i <> 11 -> i <> 12 -> R m1 i = R m i)
  /\ below_eq (R m R_SP) m m1.
Definition ret_like (m2 m3 : mach) : Prop :=
  mbus m3 = mbus m2 /\ R m3 R_SP = R m2 R_AP /\ R m3 R_AP = ldw m2 (R m2 R_SP - 4)
  /\ R m3 R_PC = ldw m2 (R m2 R_SP - 8)
  /\ (forall i, 3 <= i <= 14 -> i <> 10 -> i <> 11 -> i <> 12 -> R m3 i = R m2 i).
(* SAVE %r / RESTORE %r *)
Definition save_like (m : mach) (r : Z) (m1 : mach) : Prop :=
  bus_wf (mbus m1) /\ R m1 R_SP = R m R_SP + 28 /\ R m1 R_FP = R m R_SP + 28
  /\ ldw m1 (R m R_SP) = R m R_FP
  /\ (forall k, r <= k <= 8 -> ldw m1 (R m R_SP + 4 + 4 * (k - r)) = R m k)
  /\ (forall i, 3 <= i <= 14 -> i <> 9 -> i <> 11 -> i <> 12 -> R m1 i = R m i)
  /\ below_eq (R m R_SP) m m1.
Definition restore_like (m2 : mach) (r : Z) (m3 : mach) : Prop :=
  mbus m3 = mbus m2 /\ R m3 R_SP = R m2 R_FP - 28 /\ R m3 R_FP = ldw m2 (R m2 R_FP - 28)
  /\ (forall k, r <= k <= 8 -> R m3 k = ldw m2 (R m2 R_FP - 24 + 4 * (k - r)))
  /\ (forall i, 3 <= i <= 14 -> i <> 9 -> i <> 11 -> i <> 12 -> (i < r \/ 8 < i) -> R m3 i = R m2 i).
(* code between SAVE %r and the nested body may overwrite the saved registers r..r8 *)
Definition clobber (r : Z) (m m' : mach) : Prop :=
  mbus m' = mbus m /\ R m' R_SP = R m R_SP
  /\ (forall i, 3 <= i <= 14 -> i <> 11 -> i <> 12 -> (i < r \/ 8 < i) -> R m' i = R m i).

(* PUSHW of the arguments before a CALL: SP moves up, nothing below the old SP is written *)
Definition args_pushed (m0 m : mach) : Prop :=
  bus_wf (mbus m) /\ R m0 R_SP <= R m R_SP /\ keeps_regs m0 m /\ below_eq (R m0 R_SP) m0 m.

(* ---- balanced nestings ---- *)
Inductive nest : mach -> mach -> Prop :=
| N_nil m : bus_wf (mbus m) -> nest m m
| N_leaf m m' : bus_wf (mbus m) -> leaf m m' -> nest m m'
| N_seq m1 m2 m3 : nest m1 m2 -> nest m2 m3 -> nest m1 m3
| N_push m v m1 m2 dst m3 :
    RAMB <= R m R_SP -> push_like m v m1 -> nest m1 m2 -> (0 <= dst <= 2 \/ dst = 15) -> pop_like m2 dst m3 -> nest m m3
| N_call m0 m ret m1 m2 m3 :
    RAMB <= R m0 R_SP -> args_pushed m0 m -> call_like m (R m0 R_SP) ret m1 -> nest m1 m2 -> ret_like m2 m3 -> nest m0 m3
| N_save m r m1 m1' m2 m3 :
    RAMB <= R m R_SP -> 3 <= r <= 9 -> save_like m r m1 -> clobber r m1 m1' -> nest m1' m2 -> restore_like m2 r m3 ->
    nest m m3.

Lemma keeps_regs_refl m : keeps_regs m m.
Proof. intros i _ _ _. reflexivity. Qed.
Lemma keeps_regs_trans a b c : keeps_regs a b -> keeps_regs b c -> keeps_regs a c.
Proof. intros H1 H2 i Hi N1 N2. rewrite H2, H1; auto. Qed.

Lemma frame_kept_refl m : bus_wf (mbus m) -> frame_kept m m.
Proof. intros W. constructor; auto. apply keeps_regs_refl. apply below_eq_refl. Qed.

Lemma frame_kept_trans a b c : frame_kept a b -> frame_kept b c -> frame_kept a c.
Proof.
  intros [W1 S1 K1 B1] [W2 S2 K2 B2]. constructor; auto.
  - congruence.
  - eapply keeps_regs_trans; eauto.
  - eapply below_eq_trans; [exact B1|]. rewrite S1 in B2. exact B2.
Qed.

(* THE induction: every balanced nest, of any depth and shape, keeps the frame *)
Theorem nest_frame_kept m m' : nest m m' -> frame_kept m m'.
Proof.
  induction 1 as [m W | m m' W [Eb [Es Ek]] | m1 m2 m3 _ IH1 _ IH2
                  | m v m1 m2 dst m3 Hsp [W1 [S1 [L1 [K1 B1]]]] _ IH Hd [Eb [S3 [K3 V3]]]
                  | m0 m ret m1 m2 m3 Hsp [Wa [Sa [Ka Ba]]] [W1 [S1 [A1 [L0 [L4 [K1 B1]]]]]] _ IH [Eb [S3 [A3 [P3 K3]]]]
                  | m r m1 m1' m2 m3 Hsp Hr [W1 [S1 [F1 [L0 [Lk [K1 B1]]]]]] [Ec [Sc Kc]] _ IH [Eb [S3 [F3 [Rk Ro]]]]].
  - now apply frame_kept_refl.
  - constructor; auto; [rewrite Eb; exact W | now apply below_eq_same_bus].
  - eapply frame_kept_trans; eauto.
  - (* push; nest; pop *)
    destruct IH as [W2 S2 K2 B2]. constructor.
    + rewrite Eb. exact W2.
    + rewrite S3, S2, S1. lia.
    + eapply keeps_regs_trans; [exact K1|]. eapply keeps_regs_trans; [exact K2|exact K3].
    + eapply below_eq_trans; [exact B1|]. eapply below_eq_trans.
      * eapply below_eq_weaken; [|exact B2]. lia.
      * now apply below_eq_same_bus.
  - (* args; CALL; nest; RET *)
    destruct IH as [W2 S2 K2 B2]. constructor.
    + rewrite Eb. exact W2.
    + rewrite S3. unfold R_AP in *. rewrite (K2 10) by lia. exact A1.
    + intros i Hi N11 N12. destruct (Z.eq_dec i 10) as [->|N10].
      * unfold R_AP in *. rewrite A3, S2, S1. replace (R m R_SP + 8 - 4) with (R m R_SP + 4) by lia.
        rewrite (below_eq_ldw _ _ _ _ B2) by lia. rewrite L4. apply (Ka 10); lia.
      * rewrite K3, K2, K1 by lia. apply Ka; lia.
    + eapply below_eq_trans; [exact Ba|]. eapply below_eq_trans; [eapply below_eq_weaken; [|exact B1]; lia|].
      eapply below_eq_trans; [eapply below_eq_weaken; [|exact B2]; lia|]. now apply below_eq_same_bus.
  - (* SAVE; clobber; nest; RESTORE *)
    destruct IH as [W2 S2 K2 B2].
    assert (F2 : R m2 R_FP = R m R_SP + 28).
    { unfold R_FP in *. rewrite (K2 9) by lia. rewrite (Kc 9) by lia. exact F1. }
    assert (B12 : below_eq (R m R_SP + 28) m1 m2).
    { eapply below_eq_trans; [apply below_eq_same_bus; exact Ec|]. rewrite Sc, S1 in B2. exact B2. }
    constructor.
    + rewrite Eb. exact W2.
    + rewrite S3, F2. lia.
    + intros i Hi N11 N12. destruct (Z.eq_dec i 9) as [->|N9].
      * unfold R_FP in *. rewrite F3, F2. replace (R m R_SP + 28 - 28) with (R m R_SP) by lia.
        rewrite (below_eq_ldw _ _ _ _ B12) by lia. exact L0.
      * destruct (Z_le_dec r i) as [Hri|Hri]; [destruct (Z_le_dec i 8) as [Hi8|Hi8]|].
        -- rewrite Rk by lia. rewrite F2.
           replace (R m R_SP + 28 - 24 + 4 * (i - r)) with (R m R_SP + 4 + 4 * (i - r)) by lia.
           rewrite (below_eq_ldw _ _ _ _ B12) by lia. apply Lk; lia.
        -- rewrite Ro, K2, Kc, K1 by lia. reflexivity.
        -- rewrite Ro, K2, Kc, K1 by lia. reflexivity.
    + eapply below_eq_trans; [exact B1|]. eapply below_eq_trans; [eapply below_eq_weaken; [|exact B12]; lia|].
      now apply below_eq_same_bus.
Qed.

(* ---- what comes back ---- *)
(* a word pushed comes back to the pop (return address to RSB, pushed word to POPW), whatever was nested between *)
Corollary push_nest_pop_value m v m1 m2 dst m3 :
  RAMB <= R m R_SP -> push_like m v m1 -> nest m1 m2 -> pop_like m2 dst m3 -> R m3 dst = w32 v.
Proof.
  intros Hsp [W1 [S1 [L1 [K1 B1]]]] N [Eb [S3 [K3 V3]]]. destruct (nest_frame_kept _ _ N) as [W2 S2 K2 B2].
  rewrite V3, S2, S1. replace (R m R_SP + 4 - 4) with (R m R_SP) by lia.
  rewrite (below_eq_ldw _ _ _ _ B2) by lia. exact L1.
Qed.

(* CALL ... RET returns to the byte after the CALL *)
Corollary call_nest_ret_pc m a ret m1 m2 m3 :
  RAMB <= R m R_SP -> call_like m a ret m1 -> nest m1 m2 -> ret_like m2 m3 -> R m3 R_PC = w32 ret.
Proof.
  intros Hsp [W1 [S1 [A1 [L0 [L4 [K1 B1]]]]]] N [Eb [S3 [A3 [P3 K3]]]].
  destruct (nest_frame_kept _ _ N) as [W2 S2 K2 B2].
  rewrite P3, S2, S1. replace (R m R_SP + 8 - 8) with (R m R_SP) by lia.
  rewrite (below_eq_ldw _ _ _ _ B2) by lia. exact L0.
Qed.

(* ---- the contracts hold of the dispatch arms (stack in RAM) ---- *)
From Dmd Require Import Proofs.BitsLemmas.

Lemma pushed_push_like m v : bus_wf (mbus m) -> in_ram_w (R m R_SP) -> push_like m v (pushed m v).
Proof.
  intros W Hs. pose proof Hs as [Hs1 [Hs2 Hs3]]. unfold push_like. splits.
  - now apply wf_pushed.
  - rewrite R_pushed_sp. unfold add32, w32. rewrite Z.mod_small; unfold RAMB, RAME in *; lia.
  - apply ldw_pushed_top. lia.
  - intros i Hi N1 N2. apply R_pushed_other; lia.
  - intros a Ha Hl. apply ramb_pushed_other; lia.
Qed.

(* changing only the PSW and the PC afterwards keeps a push contract *)
Lemma push_like_then_flags m v m1 m1' :
  push_like m v m1 -> mbus m1' = mbus m1 -> (forall i, 0 <= i <= 14 -> i <> 11 -> R m1' i = R m1 i) -> push_like m v m1'.
Proof.
  intros [W1 [S1 [L1 [K1 B1]]]] Eb Er. unfold push_like. splits.
  - now rewrite Eb.
  - rewrite Er by (unfold R_SP; lia). exact S1.
  - unfold ldw, ramb in *. now rewrite Eb.
  - intros i Hi N1 N2. rewrite Er by lia. now apply K1.
  - intros a Ha Hl. unfold ramb. rewrite Eb. now apply B1.
Qed.

Theorem pushw_contract ir m v :
  iopcode ir = 160 -> bus_wf (mbus m) -> in_ram_w (R m R_SP) -> read_op ir 0 m = Ok v m ->
  exists m1, exec ir m = Ok (ilen ir) m1 /\ push_like m v m1.
Proof.
  intros Ho W Hs Hr. exists (nz_clear_cv v (op0 ir) (pushed m v)). split; [apply pushw_effect; assumption|].
  eapply push_like_then_flags; [now apply pushed_push_like | apply mbus_nz_clear_cv |].
  intros i Hi N. apply R_nz_clear_cv; lia.
Qed.

(* BSBB / BSBH / JSB: the return address is pushed, then the PC moves *)
Theorem entry_contract m ret pc' :
  bus_wf (mbus m) -> in_ram_w (R m R_SP) ->
  stack_push ret m = Ok tt (pushed m ret) /\ push_like m ret (setR (pushed m ret) R_PC pc').
Proof.
  intros W Hs. split; [now apply stack_push_ram|].
  eapply push_like_then_flags; [now apply pushed_push_like | reflexivity |].
  intros i Hi N. apply R_setR_other; unfold R_PC; lia.
Qed.

Theorem popw_contract ir m r :
  iopcode ir = 32 -> bus_wf (mbus m) -> in_ram_w (R m R_SP - 4) -> 4 <= R m R_SP < 4294967296 ->
  omode (op0 ir) = MRegister -> oreg (op0 ir) = Some r -> 0 <= r <= 2 ->
  exists m3, exec ir m = Ok (ilen ir) m3 /\ pop_like m r m3.
Proof.
  intros Ho W Hs Hsp Hm Hr Hr2. eexists. split; [apply (popw_effect_reg ir m r); assumption|].
  pose proof Hs as [Hs1 [Hs2 Hs3]]. unfold pop_like. splits.
  - rewrite mbus_nz_clear_cv. reflexivity.
  - rewrite R_nz_clear_cv by (unfold R_SP; lia). rewrite R_setR_same. rewrite R_setR_other by (unfold R_SP; lia).
    unfold sub32, w32. rewrite Z.mod_small; unfold RAMB in *; lia.
  - intros i Hi N1 N2. rewrite R_nz_clear_cv by lia. rewrite !R_setR_other by (unfold R_SP; lia). reflexivity.
  - rewrite R_nz_clear_cv by lia. rewrite R_setR_other by (unfold R_SP; lia). apply R_setR_same.
Qed.

Theorem rsb_contract ir m :
  iopcode ir = 120 -> bus_wf (mbus m) -> in_ram_w (R m R_SP - 4) -> 4 <= R m R_SP < 4294967296 ->
  exists m3, exec ir m = Ok 0 m3 /\ pop_like m R_PC m3.
Proof.
  intros Ho W Hs Hsp. pose proof Hs as [Hs1 [Hs2 Hs3]].
  assert (E : sub32 (R m R_SP) 4 = R m R_SP - 4) by (unfold sub32, w32; rewrite Z.mod_small; unfold RAMB in *; lia).
  eexists. split; [apply rsb_effect; [exact Ho | exact W | rewrite E; exact Hs]|].
  rewrite E. unfold pop_like. splits.
  - reflexivity.
  - rewrite R_setR_other by (unfold R_PC, R_SP; lia). apply R_setR_same.
  - intros i Hi N1 N2. rewrite !R_setR_other by (unfold R_PC, R_SP; lia). reflexivity.
  - apply R_setR_same.
Qed.

Theorem call_contract ir m a b :
  iopcode ir = 44 -> bus_wf (mbus m) -> in_ram_w (R m R_SP) -> in_ram_w (R m R_SP + 4) ->
  0 <= R m R_AP < 4294967296 ->
  effective_address ir 0 m = Ok a m -> effective_address ir 1 m = Ok b m ->
  exists m1, exec ir m = Ok 0 m1 /\ call_like m a (R m R_PC + ilen ir) m1.
Proof.
  intros Ho W Hs Hs4 Hap Ha Hb. eexists. split; [apply (call_effect ir m a b); assumption|].
  pose proof Hs as [Hs1 [Hs2 Hs3]]. pose proof Hs4 as [Hq1 [Hq2 Hq3]].
  assert (E4 : add32 (R m R_SP) 4 = R m R_SP + 4) by (unfold add32, w32; rewrite Z.mod_small; unfold RAMB, RAME in *; lia).
  assert (E8 : add32 (R m R_SP) 8 = R m R_SP + 8) by (unfold add32, w32; rewrite Z.mod_small; unfold RAMB, RAME in *; lia).
  unfold call_like, called. splits.
  - cbn [mbus setR with_regs]. apply wf_stw. now apply wf_stw.
  - rewrite !R_setR_other by (unfold R_AP, R_PC, R_SP; lia). rewrite R_setR_same. exact E8.
  - apply R_setR_same.
  - rewrite !ldw_setR. rewrite ldw_stw_same by lia. unfold w32. now rewrite Z.mod_mod.
  - rewrite !ldw_setR. rewrite E4. rewrite ldw_stw_other by (unfold RAMB in *; lia). rewrite ldw_stw_same by lia.
    now apply w32_id.
  - intros i Hi N10 N11 N12. rewrite !R_setR_other by (unfold R_AP, R_PC, R_SP; lia). rewrite !R_stw. reflexivity.
  - intros x Hx Hl. rewrite !ramb_setR. rewrite ramb_stw_other by (unfold RAMB in *; lia). rewrite E4.
    apply ramb_stw_other; unfold RAMB in *; lia.
Qed.

Theorem ret_contract ir m :
  iopcode ir = 8 -> bus_wf (mbus m) -> in_ram_w (R m R_SP - 8) -> in_ram_w (R m R_SP - 4) -> R m R_SP < 4294967296 ->
  exists m3, exec ir m = Ok 0 m3 /\ ret_like m m3.
Proof.
  intros Ho W H8 H4 Hlt. pose proof H8 as [Ha [Hb Hc]].
  assert (S4 : sub32 (R m R_SP) 4 = R m R_SP - 4) by (unfold sub32, w32; rewrite Z.mod_small; unfold RAMB in *; lia).
  assert (S8 : sub32 (R m R_SP) 8 = R m R_SP - 8) by (unfold sub32, w32; rewrite Z.mod_small; unfold RAMB in *; lia).
  eexists. split.
  - rewrite exec_ret by exact Ho. rewrite S4. rewrite rd_word_ram by assumption. cbn [bind].
    rewrite S8. rewrite rd_word_ram by assumption. cbn [bind]. reflexivity.
  - unfold ret_like. splits.
    + reflexivity.
    + apply R_setR_same.
    + rewrite !R_setR_other by (unfold R_AP, R_PC, R_SP; lia). apply R_setR_same.
    + rewrite R_setR_other by (unfold R_PC, R_SP; lia). apply R_setR_same.
    + intros i Hi N10 N11 N12. rewrite !R_setR_other by (unfold R_AP, R_PC, R_SP; lia). reflexivity.
Qed.

Theorem save_contract ir m r :
  iopcode ir = 16 -> oreg (op0 ir) = Some r -> 3 <= r <= 9 ->
  bus_wf (mbus m) -> in_ram_w (R m R_SP) -> R m R_SP + 28 <= RAME ->
  (forall i, 0 <= i <= 15 -> 0 <= R m i < 4294967296) ->
  exists m1, exec ir m = Ok (ilen ir) m1 /\ save_like m r m1.
Proof.
  intros Ho Hr1 Hr W Hs Hend Hrng. eexists. split; [apply (save_effect ir m r); assumption|].
  destruct (saved_mem_contents m r Hr Hs Hend) as [C0 [Ck Cf]].
  unfold save_like. splits.
  - cbn [mbus setR with_regs]. now apply wf_saved_mem.
  - rewrite R_setR_other by (unfold R_FP, R_SP; lia). apply R_setR_same.
  - apply R_setR_same.
  - rewrite !ldw_setR, C0. apply w32_id. apply Hrng. unfold R_FP; lia.
  - intros k Hk. rewrite !ldw_setR, Ck by lia. apply w32_id. apply Hrng. lia.
  - intros i Hi N9 N11 N12. rewrite !R_setR_other by (unfold R_FP, R_SP; lia). apply R_saved_mem.
  - intros a Ha Hl. rewrite !ramb_setR. apply Cf; lia.
Qed.

Theorem restore_contract ir m r :
  iopcode ir = 24 -> oreg (op0 ir) = Some r -> 3 <= r <= 9 -> bus_wf (mbus m) ->
  RAMB + 28 <= R m R_FP -> R m R_FP <= RAME -> R m R_FP mod 4 = 0 ->
  exists m3, exec ir m = Ok (ilen ir) m3 /\ restore_like m r m3.
Proof.
  intros Ho Hr1 Hr W H1 H2 H3.
  destruct (restore_effect ir m r Ho Hr1 Hr W H1 H2 H3) as [m3 [E [B [S [F [Rk Ro]]]]]].
  exists m3. split; [exact E|]. unfold restore_like. splits; auto.
  intros i Hi N9 N11 N12 Hd. apply Ro; lia.
Qed.

(* the premises can be met: a push contract from a concrete machine *)
Example nest_example (m : mach) :
  bus_wf (mbus m) -> in_ram_w (R m R_SP) -> 4 <= R m R_SP + 4 < 4294967296 ->
  let m1 := pushed m 7 in
  forall m3, pop_like m1 0 m3 -> nest m m3 /\ R m3 0 = 7.
Proof.
  intros W Hs Hsp m1 m3 P. pose proof Hs as [Hs1 _].
  assert (PL : push_like m 7 m1) by (now apply pushed_push_like).
  assert (N1 : nest m1 m1) by (apply N_nil; now apply wf_pushed).
  split.
  - apply (N_push m 7 m1 m1 0 m3); auto; lia.
  - now rewrite (push_nest_pop_value m 7 m1 m1 0 m3 Hs1 PL N1 P).
Qed.
