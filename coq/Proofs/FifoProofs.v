(* The three-slot circular buffer refines a FIFO list of at most three elements. *)
From Coq Require Import ZArith Lia Bool List.
From Dmd Require Import Model.Bits Model.Fifo.
Open Scope Z_scope.

Section FifoProofs.
Context {A : Type}.

Definition fifo_wf (q : fifo A) : Prop :=
  0 <= flen q <= 3 /\ 0 <= frp q < 3 /\ fwp q = (frp q + flen q) mod 3.

Lemma fifo_new_wf d : fifo_wf (@fifo_new A d).
Proof. unfold fifo_wf; cbn. lia. Qed.

Lemma fifo_new_contents d : fifo_contents (@fifo_new A d) = [].
Proof. reflexivity. Qed.

Ltac fifo_cases q :=
  let Hw := fresh "Hw" in
  intros Hw; destruct q as [b0 b1 b2 rp wp len]; unfold fifo_wf in Hw; cbn [flen frp fwp] in Hw;
  destruct Hw as (Hl & Hr & Hwp);
  assert (Cr : rp = 0 \/ rp = 1 \/ rp = 2) by lia;
  assert (Cl : len = 0 \/ len = 1 \/ len = 2 \/ len = 3) by lia;
  destruct Cr as [-> | [-> | ->]]; destruct Cl as [-> | [-> | [-> | ->]]]; subst wp.

Lemma fifo_contents_length (q : fifo A) : fifo_wf q -> Z.of_nat (length (fifo_contents q)) = flen q.
Proof. revert q. intros q. fifo_cases q; reflexivity. Qed.

Lemma fifo_push_full (q : fifo A) (c : A) : flen q = 3 -> fifo_push q c = None.
Proof. intros H. unfold fifo_push. now rewrite H. Qed.

Lemma fifo_push_spec (q : fifo A) (c : A) : fifo_wf q -> flen q < 3 ->
  exists q', fifo_push q c = Some q' /\ fifo_wf q' /\ flen q' = flen q + 1
             /\ fifo_contents q' = fifo_contents q ++ [c].
Proof.
  intros Hw Hlt. revert Hw Hlt. fifo_cases q; intros Hlt; cbn [flen] in Hlt; try lia;
    (eexists; split; [reflexivity|]; unfold fifo_wf; cbn; repeat split; try lia; reflexivity).
Qed.

Lemma fifo_pop_empty (q : fifo A) : flen q = 0 -> fifo_pop q = None.
Proof. intros H. unfold fifo_pop. now rewrite H. Qed.

Lemma fifo_pop_spec (q : fifo A) : fifo_wf q -> 0 < flen q ->
  exists v q', fifo_pop q = Some (v, q') /\ fifo_wf q' /\ flen q' = flen q - 1
               /\ fifo_contents q = v :: fifo_contents q'.
Proof.
  intros Hw Hlt. revert Hw Hlt. fifo_cases q; intros Hlt; cbn [flen] in Hlt; try lia;
    (do 2 eexists; split; [reflexivity|]; unfold fifo_wf; cbn; repeat split; try lia; reflexivity).
Qed.

Lemma fifo_clear_spec (q : fifo A) : fifo_wf (fifo_clear q) /\ fifo_contents (fifo_clear q) = [] /\ flen (fifo_clear q) = 0.
Proof. unfold fifo_wf; cbn. repeat split; lia. Qed.

Lemma fifo_full_spec (q : fifo A) : fifo_full q = true <-> flen q = 3.
Proof. unfold fifo_full. apply Z.eqb_eq. Qed.
Lemma fifo_empty_spec (q : fifo A) : fifo_empty q = true <-> flen q = 0.
Proof. unfold fifo_empty. apply Z.eqb_eq. Qed.

End FifoProofs.
