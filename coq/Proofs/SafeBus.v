(* Safety kit, bus level: on a well-formed bus with byte-valued cells every access of every width at every
   non-negative address completes with a value in range or an error, keeps the bus well formed and leaves ROM alone;
   it never panics.  (Foundation of C12 / C11 / C16 at machine level.) *)
From Coq Require Import ZArith Lia Bool List ZifyBool FSets.FMapPositive.
From Dmd Require Import Model.Bits Model.Types Model.Fifo Model.Mem Model.Mouse Model.Duart Model.Bus.
From Dmd Require Import Proofs.BitsLemmas Proofs.MemProofs Proofs.BusProofs Proofs.VideoProofs Proofs.ResetProofs.
Open Scope Z_scope.

Definition cells_ok (m : mem) : Prop := forall o, 0 <= o -> 0 <= mget m o < 256.

Record bwf (b : bus) : Prop := {
  bw_geo : bus_wf b;
  bw_rom : cells_ok (rom b); bw_vid : cells_ok (vid b); bw_nv : cells_ok (bbram b); bw_ram : cells_ok (ram b);
  bw_mouse : 0 <= mx (mouse_ b) < 65536 /\ 0 <= my (mouse_ b) < 65536 }.

Lemma cells_ok_mset m off v : cells_ok m -> 0 <= off -> cells_ok (mset m off (w8 v)).
Proof.
  intros H Ho o Hp. destruct (Z.eq_dec o off) as [->|N].
  - rewrite mget_mset_same. apply w8_range.
  - rewrite mget_mset_other by lia. now apply H.
Qed.

Lemma bwf_new now : bwf (bus_new now).
Proof.
  constructor; try apply bus_new_wf; try (intros o Ho; unfold bus_new, mem_new, mget; cbn; rewrite PositiveMap.gempty; lia).
  cbn. lia.
Qed.

(* a result that keeps the bus well formed, does not touch ROM, and whose value satisfies P; never Panic *)
Definition bsafe {A} (b0 : bus) (P : A -> Prop) (r : res bus A) : Prop :=
  match r with
  | Ok a b => bwf b /\ rom b = rom b0 /\ P a
  | Err _ b => bwf b /\ rom b = rom b0
  | Panic => False
  | OutOfFuel => False
  end.

Lemma bwf_with_duart b d : bwf b -> bwf (with_duart b d).
Proof. intros [[A B C D] ? ? ? ? ?]. constructor; cbn; auto. constructor; auto. Qed.
Lemma bwf_with_dirty b v : bwf b -> bwf (with_dirty b v).
Proof. intros [[A B C D] ? ? ? ? ?]. constructor; cbn; auto. constructor; auto. Qed.
Lemma bwf_mark_dirty a b : bwf b -> bwf (mark_dirty a b).
Proof. unfold mark_dirty. destruct (is_video_ram b a); auto using bwf_with_dirty. Qed.
Lemma rom_mark_dirty a b : rom (mark_dirty a b) = rom b.
Proof. unfold mark_dirty. destruct (is_video_ram b a); reflexivity. Qed.

(* ---- reads ---- *)
Lemma mem_read_byte_range m a v : cells_ok m -> mem_read_byte m a = ROk v -> 0 <= v < 256.
Proof.
  unfold mem_read_byte. intros H. destruct (a >=? mend m); [discriminate|].
  destruct (in_vec m (a - mbase m)) eqn:E; [|discriminate]. intros K; inversion K. apply H.
  apply in_vec_spec in E. lia.
Qed.
Lemma mem_read_half_range m a v : cells_ok m -> mem_read_half m a = ROk v -> 0 <= v < 65536.
Proof.
  unfold mem_read_half. intros H. destruct (a + 1 >=? mend m); [discriminate|].
  destruct (in_vec m (a - mbase m)) eqn:E; [|discriminate]. apply in_vec_spec in E.
  destruct (in_vec m (a - mbase m + 1)); [|discriminate]. cbn [andb]. intros K; inversion K.
  pose proof (H (a - mbase m) ltac:(lia)). pose proof (H (a - mbase m + 1) ltac:(lia)). lia.
Qed.
Lemma mem_read_word_range m a v : cells_ok m -> mem_read_word m a = ROk v -> 0 <= v < 4294967296.
Proof.
  unfold mem_read_word. intros H. destruct (a + 3 >=? mend m); [discriminate|].
  destruct (in_vec m (a - mbase m)) eqn:E; [|discriminate]. apply in_vec_spec in E.
  destruct (in_vec m (a - mbase m + 3)); [|discriminate]. cbn [andb]. intros K; inversion K.
  pose proof (H (a - mbase m) ltac:(lia)). pose proof (H (a - mbase m + 1) ltac:(lia)).
  pose proof (H (a - mbase m + 2) ltac:(lia)). pose proof (H (a - mbase m + 3) ltac:(lia)). lia.
Qed.

Lemma dev_mem_cells b d : bwf b -> (d = DRom \/ d = DVid \/ d = DBbram \/ d = DRam) -> cells_ok (dev_mem b d).
Proof. intros W [->|[->|[->| ->]]]; cbn; apply W. Qed.

Lemma dev_read_byte_safe d x b : bwf b -> 0 <= x ->
  (match d with DDuart | DMouse => True | _ => mbase (dev_mem b d) <= x end) ->
  bsafe b (fun v => 0 <= v < 256) (dev_read_byte d x b).
Proof.
  intros W Hx Hb. pose proof (dev_read_byte_nocrash b (bw_geo b W) d x Hx Hb) as NC.
  destruct d; cbn [dev_read_byte dev_mem] in *; unfold lift_r in *.
  - destruct (mem_read_byte (rom b) x) eqn:E; cbn in *; auto. split; [auto|]. split; [auto|].
    eapply mem_read_byte_range; eauto. apply W.
  - destruct (duart_read_byte (x - 2097152) (duart_ b)) as [[v du]| |]; cbn in *; auto.
    split; [now apply bwf_with_duart|]. split; [reflexivity|apply w8_range].
  - cbn. auto.
  - destruct (mem_read_byte (vid b) x) eqn:E; cbn in *; auto. split; [auto|]. split; [auto|].
    eapply mem_read_byte_range; eauto. apply W.
  - destruct (mem_read_byte (bbram b) x) eqn:E; cbn in *; auto. split; [auto|]. split; [auto|].
    eapply mem_read_byte_range; eauto. apply W.
  - destruct (mem_read_byte (ram b) x) eqn:E; cbn in *; auto. split; [auto|]. split; [auto|].
    eapply mem_read_byte_range; eauto. apply W.
Qed.

Lemma base_le_of_device a d b : bus_wf b -> 0 <= a -> get_device a = Some d ->
  match d with DDuart | DMouse => True | _ => mbase (dev_mem b d) <= a end.
Proof.
  intros W Ha G. pose proof (get_device_range _ _ G) as Rg.
  destruct W as [[? [? ?]] [? [? ?]] [? [? ?]] [? [? ?]]]. destruct d; cbn [dev_mem]; try exact I; lia.
Qed.

Lemma bus_read_byte_safe a b : bwf b -> 0 <= a -> bsafe b (fun v => 0 <= v < 256) (bus_read_byte a b).
Proof.
  intros W Ha. unfold bus_read_byte, with_dev. destruct (get_device a) as [d|] eqn:G; [|cbn; auto].
  apply dev_read_byte_safe; auto. eapply base_le_of_device; eauto. apply W.
Qed.

Lemma bus_read_half_safe a b : bwf b -> 0 <= a -> bsafe b (fun v => 0 <= v < 65536) (bus_read_half a b).
Proof.
  intros W Ha. pose proof (bus_read_half_nocrash b (bw_geo b W) a Ha) as NC.
  unfold bus_read_half, with_dev in *. destruct (negb _); [cbn; auto|].
  destruct (get_device a) as [d|] eqn:G; [|cbn; auto].
  destruct d; cbn [dev_read_half dev_mem] in *; unfold lift_r in *.
  - destruct (mem_read_half (rom b) a) eqn:E; cbn in *; auto. split; [auto|]. split; [auto|].
    eapply mem_read_half_range; eauto. apply W.
  - pose proof (dev_read_byte_safe DDuart (a + 2) b W ltac:(lia) I) as K.
    destruct (dev_read_byte DDuart (a + 2) b); cbn in *; auto. destruct K as [? [? ?]]. split; [auto|]. split; [auto|]. lia.
  - unfold mouse_read_half in *. pose proof (bw_mouse b W) as [Mx My].
    repeat match goal with |- context [if ?c then _ else _] => destruct c end; cbn; auto;
      try (split; [exact W|split; [reflexivity|lia]]).
  - destruct (mem_read_half (vid b) a) eqn:E; cbn in *; auto. split; [auto|]. split; [auto|].
    eapply mem_read_half_range; eauto. apply W.
  - destruct (mem_read_half (bbram b) a) eqn:E; cbn in *; auto. split; [auto|]. split; [auto|].
    eapply mem_read_half_range; eauto. apply W.
  - destruct (mem_read_half (ram b) a) eqn:E; cbn in *; auto. split; [auto|]. split; [auto|].
    eapply mem_read_half_range; eauto. apply W.
Qed.

Lemma bus_read_word_safe a b : bwf b -> 0 <= a -> bsafe b (fun v => 0 <= v < 4294967296) (bus_read_word a b).
Proof.
  intros W Ha. pose proof (bus_read_word_nocrash b (bw_geo b W) a Ha) as NC.
  unfold bus_read_word, with_dev in *. destruct (negb _); [cbn; auto|].
  destruct (get_device a) as [d|] eqn:G; [|cbn; auto].
  destruct d; cbn [dev_read_word dev_mem] in *; unfold lift_r in *.
  - destruct (mem_read_word (rom b) a) eqn:E; cbn in *; auto. split; [auto|]. split; [auto|].
    eapply mem_read_word_range; eauto. apply W.
  - pose proof (dev_read_byte_safe DDuart (a + 3) b W ltac:(lia) I) as K.
    destruct (dev_read_byte DDuart (a + 3) b); cbn in *; auto. destruct K as [? [? ?]]. split; [auto|]. split; [auto|]. lia.
  - cbn. auto.
  - destruct (mem_read_word (vid b) a) eqn:E; cbn in *; auto. split; [auto|]. split; [auto|].
    eapply mem_read_word_range; eauto. apply W.
  - destruct (mem_read_word (bbram b) a) eqn:E; cbn in *; auto. split; [auto|]. split; [auto|].
    eapply mem_read_word_range; eauto. apply W.
  - destruct (mem_read_word (ram b) a) eqn:E; cbn in *; auto. split; [auto|]. split; [auto|].
    eapply mem_read_word_range; eauto. apply W.
Qed.

(* instruction-stream fetches *)
Lemma bsafe_bind {A B} b0 (P : A -> Prop) (Q : B -> Prop) (r : res bus A) (k : A -> bus -> res bus B) :
  bsafe b0 P r -> (forall a b, bwf b -> rom b = rom b0 -> P a -> bsafe b0 Q (k a b)) -> bsafe b0 Q (bind r k).
Proof. destruct r; cbn; auto. intros [? [? ?]] K. now apply K. Qed.

Lemma bsafe_rebase {A} b0 b1 (P : A -> Prop) r : rom b1 = rom b0 -> bsafe b1 P r -> bsafe b0 P r.
Proof. intros E. destruct r; cbn; auto; intros; intuition congruence. Qed.

Lemma dev_read_byte_safe' d x b0 b : bwf b -> rom b = rom b0 -> 0 <= x ->
  (match d with DDuart | DMouse => True | _ => mbase (dev_mem b d) <= x end) ->
  bsafe b0 (fun v => 0 <= v < 256) (dev_read_byte d x b).
Proof. intros. eapply bsafe_rebase; eauto. now apply dev_read_byte_safe. Qed.

Lemma dev_mem_base_stable d b b' : bwf b -> bwf b' -> mbase (dev_mem b' d) = mbase (dev_mem b d).
Proof.
  intros [[[? ?] [? ?] [? ?] [? ?]] _ _ _ _ _] [[[? ?] [? ?] [? ?] [? ?]] _ _ _ _ _]. destruct d; cbn; congruence.
Qed.

Lemma bus_read_op_half_safe a b : bwf b -> 0 <= a -> bsafe b (fun v => 0 <= v < 65536) (bus_read_op_half a b).
Proof.
  intros W Ha. unfold bus_read_op_half, with_dev. destruct (get_device a) as [d|] eqn:G; [|cbn; auto].
  pose proof (base_le_of_device a d b (bw_geo b W) Ha G) as Hb.
  eapply bsafe_bind; [apply dev_read_byte_safe; auto|]. intros b0 s0 W0 R0 P0.
  eapply bsafe_bind; [apply dev_read_byte_safe'; auto; [lia|]|].
  { destruct d; auto; rewrite (dev_mem_base_stable _ b s0) by assumption; lia. }
  intros b1 s1 W1 R1 P1. cbn beta in *. cbn. split; [auto|]. split; [auto|]. lia.
Qed.

Lemma bus_read_op_word_safe a b : bwf b -> 0 <= a -> bsafe b (fun v => 0 <= v < 4294967296) (bus_read_op_word a b).
Proof.
  intros W Ha. unfold bus_read_op_word, with_dev. destruct (get_device a) as [d|] eqn:G; [|cbn; auto].
  pose proof (base_le_of_device a d b (bw_geo b W) Ha G) as Hb.
  eapply bsafe_bind; [apply dev_read_byte_safe; auto|]. intros b0 s0 W0 R0 P0.
  eapply bsafe_bind; [apply dev_read_byte_safe'; auto; [lia|]|].
  { destruct d; auto; rewrite (dev_mem_base_stable _ b s0) by assumption; lia. }
  intros b1 s1 W1 R1 P1.
  eapply bsafe_bind; [apply dev_read_byte_safe'; auto; [lia|]|].
  { destruct d; auto; rewrite (dev_mem_base_stable _ b s1) by assumption; lia. }
  intros b2 s2 W2 R2 P2.
  eapply bsafe_bind; [apply dev_read_byte_safe'; auto; [lia|]|].
  { destruct d; auto; rewrite (dev_mem_base_stable _ b s2) by assumption; lia. }
  intros b3 s3 W3 R3 P3. cbn beta in *. cbn. split; [auto|]. split; [auto|]. lia.
Qed.

(* ---- writes ---- *)
Lemma set_dev_mem_bwf b d m' :
  bwf b -> (d = DVid \/ d = DBbram \/ d = DRam) ->
  mbase m' = mbase (dev_mem b d) -> msize m' = msize (dev_mem b d) -> mro m' = mro (dev_mem b d) -> cells_ok m' ->
  bwf (set_dev_mem b d m') /\ rom (set_dev_mem b d m') = rom b.
Proof.
  intros [[[? [? ?]] [? [? ?]] [? [? ?]] [? [? ?]]] ? ? ? ? ?] Hd Hb Hs Hr Hc.
  destruct Hd as [->|[->| ->]]; cbn in *; (split; [constructor; cbn; auto; constructor; cbn; auto; repeat split; congruence | reflexivity]).
Qed.

Lemma mem_write_byte_ok m a v m' : cells_ok m -> mem_write_byte m a v = ROk m' ->
  mbase m' = mbase m /\ msize m' = msize m /\ mro m' = mro m /\ cells_ok m'.
Proof.
  unfold mem_write_byte. intros H. destruct (mro m) eqn:Er; [discriminate|]. destruct (a >=? mend m); [discriminate|].
  destruct (in_vec m (a - mbase m)) eqn:E; [|discriminate]. apply in_vec_spec in E. intros K; inversion K.
  subst m'. split; [reflexivity|]. split; [reflexivity|]. split; [cbn; exact Er|]. apply cells_ok_mset; auto; lia.
Qed.
Lemma mem_write_half_ok m a v m' : cells_ok m -> mem_write_half m a v = ROk m' ->
  mbase m' = mbase m /\ msize m' = msize m /\ mro m' = mro m /\ cells_ok m'.
Proof.
  unfold mem_write_half. intros H. destruct (mro m) eqn:Er; [discriminate|]. destruct (a + 1 >=? mend m); [discriminate|].
  destruct (in_vec m (a - mbase m)) eqn:E; [|discriminate]. apply in_vec_spec in E.
  destruct (in_vec m (a - mbase m + 1)); [|discriminate]. cbn [andb]. intros K; inversion K.
  subst m'. split; [reflexivity|]. split; [reflexivity|]. split; [cbn; exact Er|]. repeat apply cells_ok_mset; auto; lia.
Qed.
Lemma mem_write_word_ok m a v m' : cells_ok m -> mem_write_word m a v = ROk m' ->
  mbase m' = mbase m /\ msize m' = msize m /\ mro m' = mro m /\ cells_ok m'.
Proof.
  unfold mem_write_word. intros H. destruct (mro m) eqn:Er; [discriminate|]. destruct (a + 3 >=? mend m); [discriminate|].
  destruct (in_vec m (a - mbase m)) eqn:E; [|discriminate]. apply in_vec_spec in E.
  destruct (in_vec m (a - mbase m + 3)); [|discriminate]. cbn [andb]. intros K; inversion K.
  subst m'. split; [reflexivity|]. split; [reflexivity|]. split; [cbn; exact Er|]. repeat apply cells_ok_mset; auto; lia.
Qed.

Lemma dev_write_mem_safe d b r :
  bwf b -> (d = DRom \/ d = DVid \/ d = DBbram \/ d = DRam) ->
  r <> RPanic ->
  (forall m', r = ROk m' -> d <> DRom /\ mbase m' = mbase (dev_mem b d) /\ msize m' = msize (dev_mem b d)
                            /\ mro m' = mro (dev_mem b d) /\ cells_ok m') ->
  bsafe b (fun _ => True) (dev_write_mem d b r).
Proof.
  intros W Hd NP K. unfold dev_write_mem. destruct r as [m'|e|]; cbn; auto; try congruence.
  destruct (K m' eq_refl) as [Nr [Hb [Hs [Hr Hc]]]].
  assert (Hd' : d = DVid \/ d = DBbram \/ d = DRam) by (destruct Hd as [->|?]; [congruence|auto]).
  destruct (set_dev_mem_bwf b d m' W Hd' Hb Hs Hr Hc) as [A B]. auto.
Qed.

Lemma is_mem_device d : d <> DDuart -> d <> DMouse -> d = DRom \/ d = DVid \/ d = DBbram \/ d = DRam.
Proof. destruct d; intros; auto; congruence. Qed.

Lemma rom_is_ro b : bwf b -> mro (rom b) = true.
Proof. intros [[[? [? ?]] _ _ _] _ _ _ _ _]. auto. Qed.

Lemma bus_write_byte_safe a v b : bwf b -> bsafe b (fun _ => True) (bus_write_byte a v b).
Proof.
  intros W. pose proof (bus_write_byte_nocrash b (bw_geo b W) a v) as NC.
  unfold bus_write_byte, with_dev in *. pose proof (bwf_mark_dirty a b W) as W1.
  destruct (get_device a) as [d|] eqn:G; [|cbn; rewrite rom_mark_dirty; auto].
  eapply bsafe_rebase; [apply (rom_mark_dirty a b)|].
  destruct d; cbn [dev_write_byte] in *.
  3: { cbn. auto. }
  2: { cbn. split; [now apply bwf_with_duart|]. auto. }
  all: apply dev_write_mem_safe; auto;
       [ intros E; rewrite E in NC; exact NC
       | intros m' E; split; [intros Ed; try discriminate; subst;
                              cbn [dev_mem] in E; unfold mem_write_byte in E; rewrite (rom_is_ro _ W1) in E; discriminate|];
         eapply mem_write_byte_ok; eauto; apply dev_mem_cells; auto ].
Qed.

Lemma bus_write_half_safe a v b : bwf b -> bsafe b (fun _ => True) (bus_write_half a v b).
Proof.
  intros W. pose proof (bus_write_half_nocrash b (bw_geo b W) a v) as NC.
  unfold bus_write_half, with_dev in *. destruct (negb _); [cbn; auto|].
  pose proof (bwf_mark_dirty a b W) as W1.
  destruct (get_device a) as [d|] eqn:G; [|cbn; rewrite rom_mark_dirty; auto].
  eapply bsafe_rebase; [apply (rom_mark_dirty a b)|].
  destruct d; cbn [dev_write_half dev_write_byte] in *.
  3: { cbn. auto. }
  2: { cbn. split; [now apply bwf_with_duart|]. auto. }
  all: apply dev_write_mem_safe; auto;
       [ intros E; rewrite E in NC; exact NC
       | intros m' E; split; [intros Ed; try discriminate; subst;
                              cbn [dev_mem] in E; unfold mem_write_half in E; rewrite (rom_is_ro _ W1) in E; discriminate|];
         eapply mem_write_half_ok; eauto; apply dev_mem_cells; auto ].
Qed.

Lemma bus_write_word_safe a v b : bwf b -> bsafe b (fun _ => True) (bus_write_word a v b).
Proof.
  intros W. pose proof (bus_write_word_nocrash b (bw_geo b W) a v) as NC.
  unfold bus_write_word, with_dev in *. destruct (negb _); [cbn; auto|].
  pose proof (bwf_mark_dirty a b W) as W1.
  destruct (get_device a) as [d|] eqn:G; [|cbn; rewrite rom_mark_dirty; auto].
  eapply bsafe_rebase; [apply (rom_mark_dirty a b)|].
  destruct d; cbn [dev_write_word dev_write_byte] in *.
  3: { cbn. auto. }
  2: { cbn. split; [now apply bwf_with_duart|]. auto. }
  all: apply dev_write_mem_safe; auto;
       [ intros E; rewrite E in NC; exact NC
       | intros m' E; split; [intros Ed; try discriminate; subst;
                              cbn [dev_mem] in E; unfold mem_write_word in E; rewrite (rom_is_ro _ W1) in E; discriminate|];
         eapply mem_write_word_ok; eauto; apply dev_mem_cells; auto ].
Qed.

(* device service and interrupt polling only touch the DUART *)
Lemma bus_service_bwf now b : bwf b -> bwf (bus_service now b) /\ rom (bus_service now b) = rom b.
Proof. intros W. unfold bus_service. split; [now apply bwf_with_duart | reflexivity]. Qed.
Lemma bus_get_interrupts_bwf now b : bwf b ->
  bwf (snd (bus_get_interrupts now b)) /\ rom (snd (bus_get_interrupts now b)) = rom b.
Proof.
  intros W. unfold bus_get_interrupts. destruct (get_interrupt now (duart_ b)). cbn.
  split; [now apply bwf_with_duart | reflexivity].
Qed.
