(* Single-bit reasoning for the 8-bit status / interrupt registers. *)
From Coq Require Import ZArith Lia Bool.
From Dmd Require Import Model.Bits.
Open Scope Z_scope.

Lemma land_pow2_testbit x k : 0 <= k -> (Z.land x (2 ^ k) =? 0) = negb (Z.testbit x k).
Proof.
  intros Hk. destruct (Z.testbit x k) eqn:T; cbn [negb].
  - apply Z.eqb_neq. intro E. apply (f_equal (fun z => Z.testbit z k)) in E.
    rewrite Z.land_spec, T, Z.pow2_bits_true, Z.bits_0 in E by lia. discriminate.
  - apply Z.eqb_eq. apply Z.bits_inj'. intros n Hn. rewrite Z.land_spec, Z.bits_0.
    destruct (Z.eq_dec n k) as [->|N]; [now rewrite T|].
    rewrite Z.pow2_bits_false by lia. apply andb_false_r.
Qed.

Lemma bset_pow2 x k : 0 <= k -> bset x (2 ^ k) = Z.testbit x k.
Proof. intros Hk. unfold bset. rewrite land_pow2_testbit by exact Hk. apply negb_involutive. Qed.

Lemma bset_1 x : bset x 1 = Z.testbit x 0.   Proof. exact (bset_pow2 x 0 ltac:(lia)). Qed.
Lemma bset_2 x : bset x 2 = Z.testbit x 1.   Proof. exact (bset_pow2 x 1 ltac:(lia)). Qed.
Lemma bset_4 x : bset x 4 = Z.testbit x 2.   Proof. exact (bset_pow2 x 2 ltac:(lia)). Qed.
Lemma bset_8 x : bset x 8 = Z.testbit x 3.   Proof. exact (bset_pow2 x 3 ltac:(lia)). Qed.
Lemma bset_16 x : bset x 16 = Z.testbit x 4. Proof. exact (bset_pow2 x 4 ltac:(lia)). Qed.
Lemma bset_32 x : bset x 32 = Z.testbit x 5. Proof. exact (bset_pow2 x 5 ltac:(lia)). Qed.
Lemma bset_64 x : bset x 64 = Z.testbit x 6. Proof. exact (bset_pow2 x 6 ltac:(lia)). Qed.
Lemma bset_128 x : bset x 128 = Z.testbit x 7. Proof. exact (bset_pow2 x 7 ltac:(lia)). Qed.

Lemma testbit_clr8 x m k : Z.testbit (clr8 x m) k = Z.testbit x k && Z.testbit (255 - m) k.
Proof. unfold clr8, not8. apply Z.land_spec. Qed.

(* evaluate closed boolean / integer subterms (only syntactically closed ones: vm_compute on an open term
   mentioning large definitions can take unbounded time) *)
Ltac is_pos_num p := lazymatch p with xH => idtac | xO ?q => is_pos_num q | xI ?q => is_pos_num q end.
Ltac closed_z c :=
  lazymatch c with
  | Z0 => idtac
  | Zpos ?p => is_pos_num p
  | Zneg ?p => is_pos_num p
  | Z.add ?a ?b => closed_z a; closed_z b
  | Z.sub ?a ?b => closed_z a; closed_z b
  end.

Ltac eval_closed_bits :=
  repeat match goal with
         | |- context [Z.testbit ?c ?k] =>
           closed_z c; closed_z k;
           let v := eval vm_compute in (Z.testbit c k) in
           match v with
           | true => change (Z.testbit c k) with true
           | false => change (Z.testbit c k) with false
           end
         | H : context [Z.testbit ?c ?k] |- _ =>
           closed_z c; closed_z k;
           let v := eval vm_compute in (Z.testbit c k) in
           match v with
           | true => change (Z.testbit c k) with true in H
           | false => change (Z.testbit c k) with false in H
           end
         end.

Ltac bits_norm :=
  repeat (rewrite ?bset_1, ?bset_2, ?bset_4, ?bset_8, ?bset_16, ?bset_32, ?bset_64, ?bset_128,
          ?testbit_clr8, ?Z.lor_spec, ?Z.land_spec in * );
  eval_closed_bits;
  repeat rewrite ?andb_true_r, ?andb_false_r, ?orb_true_r, ?orb_false_r, ?andb_true_l, ?orb_false_l in *.

Ltac bits_cases :=
  repeat match goal with
         | |- context [Z.testbit ?x ?k] => destruct (Z.testbit x k)
         | H : context [Z.testbit ?x ?k] |- _ => destruct (Z.testbit x k)
         end.

Ltac bits := bits_norm; bits_cases; cbn in *; try reflexivity; try congruence; try discriminate; auto.
