(* The decoder: opcode tables = architected map; never panics, never runs out of fuel, consumes at most 26
   bytes; reserved descriptors are rejected (C04, C12). *)
From Coq Require Import ZArith Lia Bool List ZifyBool.
From Dmd Require Import Model.Bits Model.Types Gen.GenOpcodes Model.Decode Spec.ArchOpcodes.
Open Scope Z_scope.

(* ------------------------------------------------------------------ *)
(* 1. the generated opcode tables are the architected opcode map       *)

Definition kind_of (o : optype) : option okind :=
  match o with OLit => Some KLit | OSrc | ODest => Some KDesc | ONone => None end.
Fixpoint kinds (l : list optype) : list okind :=
  match l with [] => [] | o :: t => match kind_of o with Some k => k :: kinds t | None => kinds t end end.

Definition okind_eqb (a b : okind) : bool := match a, b with KLit, KLit | KDesc, KDesc => true | _, _ => false end.
Fixpoint kinds_eqb (a b : list okind) : bool :=
  match a, b with
  | [], [] => true
  | x :: a', y :: b' => okind_eqb x y && kinds_eqb a' b'
  | _, _ => false
  end.

Lemma kinds_eqb_eq a : forall b, kinds_eqb a b = true -> a = b.
Proof.
  induction a as [|x a IH]; destruct b as [|y b]; cbn; intros H; try discriminate; auto.
  apply andb_true_iff in H. destruct H as [H1 H2]. f_equal; [destruct x, y; cbn in H1; congruence | now apply IH].
Qed.

Lemma dtype_eqb_eq a b : dtype_eqb a b = true -> a = b.
Proof. destruct a, b; cbn; congruence. Qed.

(* what a table row says, as the spec sees it *)
Definition row_view (m : mnemonic) : Z * dtype * list okind := (mn_opcode m, mn_dtype m, kinds (mn_ops m)).

Definition view_eqb (v : option (Z * dtype * list okind)) (opc : Z) (a : option (dtype * list okind)) : bool :=
  match v, a with
  | None, None => true
  | Some (o, dt, ks), Some (dt', ks') => (o =? opc) && dtype_eqb dt dt' && kinds_eqb ks ks'
  | _, _ => false
  end.

Definition byte_row_ok (b1 : Z) : bool :=
  view_eqb (option_map row_view (lookup_mnemonic b1 None)) b1 (arch_lookup arch_opcodes b1)
  && match lookup_mnemonic b1 None with Some m => (length (mn_ops m) =? 4)%nat | None => true end.
Definition half_row_ok (b2 : Z) : bool :=
  view_eqb (option_map row_view (lookup_mnemonic 48 (Some b2))) (12288 + b2) (arch_lookup arch_opcodes (12288 + b2))
  && match lookup_mnemonic 48 (Some b2) with Some m => (length (mn_ops m) =? 4)%nat | None => true end.

Definition bytes256 : list Z := map Z.of_nat (seq 0 256).

Lemma in_bytes256 x : 0 <= x < 256 -> In x bytes256.
Proof.
  intros H. unfold bytes256. apply in_map_iff. exists (Z.to_nat x). split; [lia|]. apply in_seq. lia.
Qed.

Lemma forall_bytes (f : Z -> bool) : forallb f bytes256 = true -> forall x, 0 <= x < 256 -> f x = true.
Proof. intros H x Hx. rewrite forallb_forall in H. apply H. now apply in_bytes256. Qed.

Lemma byte_rows_ok : forallb (fun b => (b =? 48) || byte_row_ok b) bytes256 = true.
Proof. vm_compute. reflexivity. Qed.
Lemma half_rows_ok : forallb half_row_ok bytes256 = true.
Proof. vm_compute. reflexivity. Qed.

Lemma view_eqb_spec v opc a : view_eqb v opc a = true ->
  v = option_map (fun p => (opc, fst p, snd p)) a.
Proof.
  destruct v as [[[o dt] ks]|], a as [[dt' ks']|]; cbn; intros H; try discriminate; auto.
  apply andb_true_iff in H. destruct H as [H H3]. apply andb_true_iff in H. destruct H as [H1 H2].
  apply Z.eqb_eq in H1. apply dtype_eqb_eq in H2. apply kinds_eqb_eq in H3. subst. reflexivity.
Qed.

(* every first byte but the 0x30 escape: opcode, data type and operand kinds are the architected ones, and
   exactly the architected opcodes are defined *)
Lemma byte_table_architected b1 : 0 <= b1 < 256 -> b1 <> 48 ->
  option_map row_view (lookup_mnemonic b1 None)
  = option_map (fun p => (b1, fst p, snd p)) (arch_lookup arch_opcodes b1).
Proof.
  intros H N. pose proof (forall_bytes _ byte_rows_ok b1 H) as K. cbn beta in K.
  replace (b1 =? 48) with false in K by lia. cbn [orb] in K.
  unfold byte_row_ok in K. apply andb_true_iff in K. destruct K as [K _]. now apply view_eqb_spec.
Qed.

Lemma half_table_architected b2 : 0 <= b2 < 256 ->
  option_map row_view (lookup_mnemonic 48 (Some b2))
  = option_map (fun p => (12288 + b2, fst p, snd p)) (arch_lookup arch_opcodes (12288 + b2)).
Proof.
  intros H. pose proof (forall_bytes _ half_rows_ok b2 H) as K.
  unfold half_row_ok in K. apply andb_true_iff in K. destruct K as [K _]. now apply view_eqb_spec.
Qed.

Lemma lookup_four_slots b1 b2 m : 0 <= b1 < 256 -> (b1 = 48 -> exists x, b2 = Some x /\ 0 <= x < 256) ->
  (b1 <> 48 -> b2 = None) ->
  lookup_mnemonic b1 b2 = Some m -> length (mn_ops m) = 4%nat.
Proof.
  intros H1 H48 Hn L.
  destruct (Z.eq_dec b1 48) as [->|N].
  - destruct (H48 eq_refl) as [x [-> Hx]].
    pose proof (forall_bytes _ half_rows_ok x Hx) as K. unfold half_row_ok in K. rewrite L in K.
    apply andb_true_iff in K. destruct K as [_ K]. now apply Nat.eqb_eq in K.
  - rewrite (Hn N) in L.
    pose proof (forall_bytes _ byte_rows_ok b1 H1) as K. cbn beta in K.
    replace (b1 =? 48) with false in K by lia. cbn [orb] in K. unfold byte_row_ok in K. rewrite L in K.
    apply andb_true_iff in K. destruct K as [_ K]. now apply Nat.eqb_eq in K.
Qed.

(* ------------------------------------------------------------------ *)
(* 2. no panic, no fuel exhaustion, length bound -- for any byte source *)

Section Safe.
Variable St : Type.
Variable f1 f2 f4 : Z -> St -> res St Z.
Variable I : St -> Prop.

Definition fetch_safe (f : Z -> St -> res St Z) : Prop :=
  forall off s, I s -> 0 <= off ->
    match f off s with Ok v s' => I s' /\ 0 <= v | Err _ s' => I s' | _ => False end.

Hypothesis F1 : fetch_safe f1.
Hypothesis F2 : fetch_safe f2.
Hypothesis F4 : fetch_safe f4.

(* a result whose consumed length lies in [L, B], in a state satisfying I; errors keep I; nothing else *)
Definition good {X} (L B : Z) (r : res St (X * Z)) : Prop :=
  match r with
  | Ok p s => L <= snd p <= B /\ I s
  | Err _ s => I s
  | _ => False
  end.

Lemma good_weaken {X} L B L' B' (r : res St (X * Z)) : good L B r -> L' <= L -> B <= B' -> good L' B' r.
Proof. destruct r as [[x l] s| | |]; cbn; intros; auto. destruct H. split; [lia|auto]. Qed.

Lemma good_bind {X Y} L B L' B' (r : res St (X * Z)) (k : X * Z -> St -> res St (Y * Z)) :
  good L B r -> (forall p s, I s -> L <= snd p <= B -> good L' B' (k p s)) -> good L' B' (bind r k).
Proof. destruct r as [p s| | |]; cbn; intros H K; auto. destruct H. now apply K. Qed.

Lemma acc_byte_good len s : I s -> 0 <= len < 32 -> good (len + 1) (len + 1) (acc_byte St f1 len s).
Proof.
  intros Hs Hl. unfold acc_byte. pose proof (F1 len s Hs ltac:(lia)) as K.
  destruct (f1 len s); cbn [bind]; auto. replace (len >=? 32) with false by lia. cbn. split; [lia|tauto].
Qed.
Lemma acc_half_good len s : I s -> 0 <= len < 31 -> good (len + 2) (len + 2) (acc_half St f2 len s).
Proof.
  intros Hs Hl. unfold acc_half. pose proof (F2 len s Hs ltac:(lia)) as K.
  destruct (f2 len s); cbn [bind]; auto. replace (len + 1 >=? 32) with false by lia. cbn. split; [lia|tauto].
Qed.
Lemma acc_word_good len s : I s -> 0 <= len < 29 -> good (len + 4) (len + 4) (acc_word St f4 len s).
Proof.
  intros Hs Hl. unfold acc_word. pose proof (F4 len s Hs ltac:(lia)) as K.
  destruct (f4 len s); cbn [bind]; auto. replace (len + 3 >=? 32) with false by lia. cbn. split; [lia|tauto].
Qed.

Lemma literal_good dt len s : I s -> 0 <= len <= 26 ->
  good (len + 1) (len + 4) (decode_literal_operand St f1 f2 f4 dt len s).
Proof.
  intros Hs Hl. unfold decode_literal_operand, illegal. destruct dt; cbn; auto.
  - eapply good_bind; [apply acc_byte_good; [auto|lia]|]. intros p s' Is' Hp. unfold good; cbn [fst snd]; split; [lia|auto].
  - eapply good_bind; [apply acc_half_good; [auto|lia]|]. intros p s' Is' Hp. unfold good; cbn [fst snd]; split; [lia|auto].
  - eapply good_bind; [apply acc_word_good; [auto|lia]|]. intros p s' Is' Hp. unfold good; cbn [fst snd]; split; [lia|auto].
Qed.

Ltac leaf :=
  first
    [ (* plain result *) unfold good; cbn [fst snd]; split; [lia|assumption]
    | (* illegal *) exact ltac:(assumption)
    | (* one more constant *)
      eapply good_bind;
      [ first [apply acc_word_good | apply acc_half_good | apply acc_byte_good]; [assumption|lia]
      | let p := fresh "p" in let s := fresh "s" in let Is := fresh "Is" in let Hp := fresh "Hp" in
        intros p s Is Hp; unfold good; cbn [fst snd]; split; [lia|assumption] ] ].

Lemma descriptor_good_inner fuel dt et len s : (1 <= fuel)%nat -> I s -> 0 <= len <= 27 ->
  good (len + 1) (len + 5) (decode_descriptor St f1 f2 f4 fuel dt et true len s).
Proof.
  intros Hf Hs Hl. destruct fuel as [|fuel]; [lia|]. cbn [decode_descriptor].
  eapply good_bind; [apply acc_byte_good; [auto|lia]|].
  intros [d l1] s1 Is1 Hl1. cbn [fst snd] in *. cbv zeta. unfold illegal. cbn [andb negb].
  destruct (d mod 16 =? 15); cbn [negb];
  repeat match goal with
         | |- good _ _ (if ?c then _ else _) => destruct c
         end; try leaf.
Qed.

Lemma descriptor_good fuel dt et len s : (2 <= fuel)%nat -> I s -> 0 <= len <= 26 ->
  good (len + 1) (len + 6) (decode_descriptor St f1 f2 f4 fuel dt et false len s).
Proof.
  intros Hf Hs Hl. destruct fuel as [|fuel]; [lia|]. cbn [decode_descriptor].
  eapply good_bind; [apply acc_byte_good; [auto|lia]|].
  intros [d l1] s1 Is1 Hl1. cbn [fst snd] in *. cbv zeta. unfold illegal. cbn [andb negb].
  destruct (d mod 16 =? 15); cbn [negb];
  repeat match goal with
         | |- good _ _ (if ?c then _ else _) => destruct c
         | |- good _ _ (match ?c with Some _ => _ | None => _ end) => destruct c
         end; try leaf.
  eapply good_weaken; [apply descriptor_good_inner; [lia|assumption|lia] | lia | lia].
Qed.

Lemma operand_good mn ot et len s : I s -> 0 <= len <= 26 -> ot <> ONone ->
  good (len + 1) (len + 6) (decode_operand St f1 f2 f4 mn ot et len s).
Proof.
  intros Hs Hl N. destruct ot; cbn [decode_operand]; try congruence.
  - eapply good_weaken; [apply literal_good; auto | lia | lia].
  - apply descriptor_good; auto.
  - apply descriptor_good; auto.
Qed.

Lemma ops_good mn ots : forall et len s, I s -> 0 <= len -> len + 6 * Z.of_nat (length ots) <= 32 ->
  good len (len + 6 * Z.of_nat (length ots)) (decode_ops St f1 f2 f4 mn ots et len s).
Proof.
  induction ots as [|ot rest IH]; intros et len s Hs H0 Hl; cbn [decode_ops]; cbn [length] in *.
  - unfold good; cbn [fst snd]; split; [lia|auto].
  - rewrite Nat2Z.inj_succ in *.
    assert (Hrest : forall et' l' s', I s' -> len <= l' <= len + 6 ->
              good len (len + 6 * Z.succ (Z.of_nat (length rest)))
                   (decode_ops St f1 f2 f4 mn rest et' l' s')).
    { intros et' l' s' Is' Hl'. eapply good_weaken; [apply IH; [auto|lia|lia] | lia | lia]. }
    destruct ot.
    + eapply good_bind; [apply operand_good; [auto|lia|congruence]|].
      intros [o l1] s1 Is1 Hl1. cbn [fst snd] in *.
      eapply good_bind; [apply Hrest; [auto|lia]|].
      intros [r l2] s2 Is2 Hl2. cbn [fst snd] in *. unfold good; cbn [fst snd]; split; [lia|auto].
    + eapply good_bind; [apply operand_good; [auto|lia|congruence]|].
      intros [o l1] s1 Is1 Hl1. cbn [fst snd] in *.
      eapply good_bind; [apply Hrest; [auto|lia]|].
      intros [r l2] s2 Is2 Hl2. cbn [fst snd] in *. unfold good; cbn [fst snd]; split; [lia|auto].
    + eapply good_bind; [apply operand_good; [auto|lia|congruence]|].
      intros [o l1] s1 Is1 Hl1. cbn [fst snd] in *.
      eapply good_bind; [apply Hrest; [auto|lia]|].
      intros [r l2] s2 Is2 Hl2. cbn [fst snd] in *. unfold good; cbn [fst snd]; split; [lia|auto].
    + eapply good_bind; [apply Hrest; [auto|lia]|].
      intros [r l2] s2 Is2 Hl2. cbn [fst snd] in *. unfold good; cbn [fst snd]; split; [lia|auto].
Qed.

(* the whole decoder: completes or reports an error; never Panic, never OutOfFuel; at most 26 bytes *)
Definition dec_good (r : res St instr) : Prop :=
  match r with
  | Ok i s => 1 <= ilen i <= 26 /\ I s
  | Err _ s => I s
  | _ => False
  end.

Hypothesis fetch_byte_range : forall off s, I s -> 0 <= off ->
  match f1 off s with Ok v _ => 0 <= v < 256 | _ => True end.

Lemma decode_instruction_good s : I s -> dec_good (decode_instruction St f1 f2 f4 s).
Proof.
  intros Hs. unfold decode_instruction.
  pose proof (acc_byte_good 0 s Hs ltac:(lia)) as G1.
  pose proof (fetch_byte_range 0 s Hs ltac:(lia)) as R1.
  unfold acc_byte in *. destruct (f1 0 s) as [b1 s1| | |]; cbn [bind] in *; auto.
  replace (0 >=? 32) with false in * by lia. cbn [bind fst snd good] in *. destruct G1 as [_ Is1].
  destruct (b1 =? 48) eqn:E48.
  - pose proof (F1 (0 + 1) s1 Is1 ltac:(lia)) as G2.
    pose proof (fetch_byte_range (0 + 1) s1 Is1 ltac:(lia)) as R2.
    destruct (f1 (0 + 1) s1) as [b2 s2| | |]; cbn [bind] in *; auto.
    replace (0 + 1 >=? 32) with false by lia. cbn [bind fst snd].
    destruct (lookup_mnemonic b1 (Some b2)) as [mn|] eqn:L; [|unfold illegal; tauto].
    assert (Len : length (mn_ops mn) = 4%nat).
    { eapply lookup_four_slots; [| | |exact L]; [lia| intros _; exists b2; split; [reflexivity|lia] | lia]. }
    pose proof (ops_good mn (mn_ops mn) None (0 + 1 + 1) s2 (proj1 G2) ltac:(lia) ltac:(rewrite Len; lia)) as G.
    rewrite Len in G.
    destruct (decode_ops St f1 f2 f4 mn (mn_ops mn) None (0 + 1 + 1) s2) as [[ops l] s3| | |]; cbn [bind] in *; auto.
    unfold good, dec_good in *. cbn [fst snd ilen] in *. destruct G. split; [lia|auto].
  - cbn [bind fst snd].
    destruct (lookup_mnemonic b1 None) as [mn|] eqn:L; [|unfold illegal; auto].
    assert (Len : length (mn_ops mn) = 4%nat).
    { eapply lookup_four_slots; [| | |exact L]; [lia| lia | reflexivity]. }
    pose proof (ops_good mn (mn_ops mn) None (0 + 1) s1 Is1 ltac:(lia) ltac:(rewrite Len; lia)) as G.
    rewrite Len in G.
    destruct (decode_ops St f1 f2 f4 mn (mn_ops mn) None (0 + 1) s1) as [[ops l] s3| | |]; cbn [bind] in *; auto.
    unfold good, dec_good in *. cbn [fst snd ilen] in *. destruct G. split; [lia|auto].
Qed.

End Safe.

(* ------------------------------------------------------------------ *)
(* 3. decoding a plain byte string *)

Definition byte_at (bs : list Z) (off : Z) : option Z :=
  if off <? 0 then None else nth_error bs (Z.to_nat off).

Definition bfetch1 (bs : list Z) (off : Z) (s : unit) : res unit Z :=
  match byte_at bs off with Some b => Ok b tt | None => Err (EBus BNoDevice) tt end.
Definition bfetch2 (bs : list Z) (off : Z) (s : unit) : res unit Z :=
  match byte_at bs off, byte_at bs (off + 1) with
  | Some b0, Some b1 => Ok (b0 + b1 * 256) tt | _, _ => Err (EBus BNoDevice) tt end.
Definition bfetch4 (bs : list Z) (off : Z) (s : unit) : res unit Z :=
  match byte_at bs off, byte_at bs (off + 1), byte_at bs (off + 2), byte_at bs (off + 3) with
  | Some b0, Some b1, Some b2, Some b3 => Ok (b0 + b1 * 256 + b2 * 65536 + b3 * 16777216) tt
  | _, _, _, _ => Err (EBus BNoDevice) tt end.

Definition decode_bytes (bs : list Z) : res unit instr :=
  decode_instruction unit (bfetch1 bs) (bfetch2 bs) (bfetch4 bs) tt.

Definition bytes_ok (bs : list Z) : Prop := forall b, In b bs -> 0 <= b < 256.

Lemma byte_at_range bs off b : bytes_ok bs -> byte_at bs off = Some b -> 0 <= b < 256.
Proof.
  unfold byte_at. intros H E. destruct (off <? 0); [discriminate|]. apply nth_error_In in E. now apply H.
Qed.

Lemma decode_bytes_total bs : bytes_ok bs ->
  match decode_bytes bs with
  | Ok i _ => 1 <= ilen i <= 26
  | Err _ _ => True
  | _ => False
  end.
Proof.
  intros Hb.
  pose proof (decode_instruction_good unit (bfetch1 bs) (bfetch2 bs) (bfetch4 bs) (fun _ => True)) as G.
  unfold decode_bytes.
  assert (A1 : fetch_safe unit (fun _ => True) (bfetch1 bs)).
  { intros off s _ _. unfold bfetch1. destruct (byte_at bs off) eqn:E; auto. split; auto.
    pose proof (byte_at_range _ _ _ Hb E). lia. }
  assert (A2 : fetch_safe unit (fun _ => True) (bfetch2 bs)).
  { intros off s _ _. unfold bfetch2. destruct (byte_at bs off) eqn:E; auto.
    destruct (byte_at bs (off + 1)) eqn:E2; auto. split; auto.
    pose proof (byte_at_range _ _ _ Hb E). pose proof (byte_at_range _ _ _ Hb E2). lia. }
  assert (A4 : fetch_safe unit (fun _ => True) (bfetch4 bs)).
  { intros off s _ _. unfold bfetch4. destruct (byte_at bs off) eqn:E; auto.
    destruct (byte_at bs (off + 1)) eqn:E2; auto. destruct (byte_at bs (off + 2)) eqn:E3; auto.
    destruct (byte_at bs (off + 3)) eqn:E4; auto. split; auto.
    pose proof (byte_at_range _ _ _ Hb E). pose proof (byte_at_range _ _ _ Hb E2).
    pose proof (byte_at_range _ _ _ Hb E3). pose proof (byte_at_range _ _ _ Hb E4). lia. }
  specialize (G A1 A2 A4).
  assert (Rg : forall off s, True -> 0 <= off -> match bfetch1 bs off s with Ok v _ => 0 <= v < 256 | _ => True end).
  { intros off s _ _. unfold bfetch1. destruct (byte_at bs off) eqn:E; auto. eapply byte_at_range; eauto. }
  specialize (G Rg tt Logic.I).
  destruct (decode_instruction unit (bfetch1 bs) (bfetch2 bs) (bfetch4 bs) tt); cbn in *; tauto.
Qed.

(* reserved descriptor bytes are rejected: register 11 in the deferred / displacement modes, the reserved
   expanded-type codes, and an expanded-type prefix after an expanded-type prefix *)
Definition reserved_desc (d : Z) : bool :=
  let m := d / 16 in let r := d mod 16 in
  ((m =? 5) || ((8 <=? m) && (m <=? 13))) && (r =? 11)
  || (m =? 14) && negb (r =? 15) && negb ((r =? 0) || (r =? 2) || (r =? 3) || (r =? 4) || (r =? 6) || (r =? 7)).

Lemma reserved_descriptor_rejected bs dt et recur len d :
  byte_at bs len = Some d -> 0 <= len < 32 -> 0 <= d < 256 -> reserved_desc d = true ->
  forall fuel, (1 <= fuel)%nat ->
  decode_descriptor unit (bfetch1 bs) (bfetch2 bs) (bfetch4 bs) fuel dt et recur len tt
  = Err (EExc IllegalOpcode) tt.
Proof.
  intros E Hl Hd R fuel Hf. destruct fuel as [|fuel]; [lia|]. cbn [decode_descriptor].
  unfold acc_byte at 1, bfetch1 at 1. rewrite E. cbn [bind]. replace (len >=? 32) with false by lia.
  cbn [bind fst snd]. cbv zeta. unfold illegal. unfold reserved_desc in R. cbv zeta in R.
  assert (Hm : 0 <= d / 16 <= 15) by (pose proof (Z.div_mod d 16 ltac:(lia)); pose proof (Z.mod_pos_bound d 16 ltac:(lia)); lia).
  assert (Hr : 0 <= d mod 16 < 16) by (apply Z.mod_pos_bound; lia).
  set (m := d / 16) in *. set (r := d mod 16) in *. clearbody m r.
  unfold etype_of.
  assert (Em : m = 0 \/ m = 1 \/ m = 2 \/ m = 3 \/ m = 4 \/ m = 5 \/ m = 6 \/ m = 7 \/ m = 8 \/ m = 9 \/ m = 10
               \/ m = 11 \/ m = 12 \/ m = 13 \/ m = 14 \/ m = 15) by lia.
  assert (Er : r = 0 \/ r = 1 \/ r = 2 \/ r = 3 \/ r = 4 \/ r = 5 \/ r = 6 \/ r = 7 \/ r = 8 \/ r = 9 \/ r = 10
               \/ r = 11 \/ r = 12 \/ r = 13 \/ r = 14 \/ r = 15) by lia.
  repeat (destruct Em as [Em|Em]); subst m; cbn in R; try discriminate;
    repeat (destruct Er as [Er|Er]); subst r; cbn in R; try discriminate; destruct recur; reflexivity.
Qed.

Lemma nested_prefix_rejected bs dt et len d d2 fuel :
  byte_at bs len = Some d -> byte_at bs (len + 1) = Some d2 -> 0 <= len < 31 ->
  0 <= d < 256 -> 0 <= d2 < 256 -> d / 16 = 14 -> d mod 16 <> 15 -> d2 / 16 = 14 -> d2 mod 16 <> 15 ->
  (2 <= fuel)%nat ->
  decode_descriptor unit (bfetch1 bs) (bfetch2 bs) (bfetch4 bs) fuel dt et false len tt
  = Err (EExc IllegalOpcode) tt.
Proof.
  intros E E2 Hl Hd Hd2 M1 R1 M2 R2 Hf.
  destruct fuel as [|[|fuel]]; try lia. cbn [decode_descriptor].
  unfold acc_byte at 1, bfetch1 at 1. rewrite E. cbn [bind]. replace (len >=? 32) with false by lia.
  cbn [bind fst snd]. cbv zeta. rewrite M1. cbn [Z.leb Z.eqb Z.compare Pos.compare Pos.compare_cont Pos.eqb andb negb].
  replace (d mod 16 =? 15) with false by lia. cbn [negb andb].
  destruct (etype_of (d mod 16)); [|reflexivity].
  unfold acc_byte at 1, bfetch1 at 1. rewrite E2. cbn [bind]. replace (len + 1 >=? 32) with false by lia.
  cbn [bind fst snd]. rewrite M2. cbn [Z.leb Z.eqb Z.compare Pos.compare Pos.compare_cont Pos.eqb andb negb].
  replace (d2 mod 16 =? 15) with false by lia. reflexivity.
Qed.
