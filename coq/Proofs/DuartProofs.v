(* DUART-level invariants and interrupt/status theorems (C14, C17, C20). *)
From Coq Require Import ZArith Lia Bool List.
From Dmd Require Import Model.Bits Model.Fifo Model.Mem Model.Duart.
From Dmd Require Import Proofs.BitsLemmas Proofs.BitKit Proofs.FifoProofs Proofs.PortProofs.
Open Scope Z_scope.

Local Arguments bset : simpl never.
Local Arguments clr8 : simpl never.
Local Arguments Z.lor : simpl never.
Local Arguments Z.land : simpl never.
Local Arguments Z.gtb : simpl never.

Definition DInv (d : duart) : Prop := PInv (pa d) /\ PInv (pb d).

Inductive dop :=
| DRead (off : Z) | DWrite (off v : Z) | DSvc (tm : Z) | DGetInt (tm : Z)
| DRxA (c : Z) | DRxB (c : Z) | DTxA | DTxB | DMouseDown (b : Z) | DMouseUp (b : Z).

Definition dstep (o : dop) (d : duart) : duart :=
  match o with
  | DRead off => match duart_read_byte off d with ROk (_, d') => d' | _ => d end
  | DWrite off v => duart_write_byte off v d
  | DSvc tm => duart_service tm d
  | DGetInt tm => snd (get_interrupt tm d)
  | DRxA c => duart_rs232_rx d c
  | DRxB c => duart_keyboard_rx d c
  | DTxA => snd (duart_rs232_tx d)
  | DTxB => snd (duart_keyboard_tx d)
  | DMouseDown b => mouse_down d b
  | DMouseUp b => mouse_up d b
  end.

Lemma dinv_new tm : DInv (duart_new tm).
Proof. split; apply pinv_new. Qed.

Notation pstepz := (@pstep Z is02z).

(* every DUART operation acts on each port through port operations (or not at all) *)
Lemma dstep_ports o d :
  (pa (dstep o d) = pa d \/ exists po, pa (dstep o d) = pstepz po (pa d))
  /\ (pb (dstep o d) = pb d \/ exists po, pb (dstep o d) = pstepz po (pb d)).
Proof.
  destruct o; cbn [dstep].
  - unfold duart_read_byte, isr_clr, ivec_clr, with_isr, with_ivec.
    repeat match goal with |- context [if ?b then _ else _] => destruct b end; cbn.
    all: try (destruct (rx_read_char _) as [o p'] eqn:Er; cbn in Er |- *).
    all: split; auto.
    all: try (right; exists (@PReadMode Z); reflexivity).
    all: try (right; exists (@PRead Z); cbn; rewrite Er; reflexivity).
  - unfold duart_write_byte, handle_command, isr_clr, isr_set, ivec_clr, ivec_set.
    repeat match goal with |- context [if ?b then _ else _] => destruct b eqn:? end; cbn; auto.
    all: try (split; [right; eexists (PWriteMode _); reflexivity | auto]; fail).
    all: try (split; [auto | right; eexists (PWriteMode _); reflexivity]; fail).
    all: try (split; [right; eexists (PSetDelay _); reflexivity | auto]; fail).
    all: try (split; [auto | right; eexists (PSetDelay _); reflexivity]; fail).
    all: try (split; [right; eexists (PCmd _); reflexivity | auto]; fail).
    all: try (split; [auto | right; eexists (PCmd _); reflexivity]; fail).
    all: try (split; [right; eexists (PWriteThr _); reflexivity | auto]; fail).
    all: try (split; [auto | right; eexists (PWriteThr _); reflexivity]; fail).
  - split; right; [exists (PSvc tm false) | exists (PSvc tm true)]; reflexivity.
  - unfold get_interrupt, vertical_blank, isr_set, ivec_set.
    repeat match goal with |- context [if ?b then _ else _] => destruct b end; cbn; auto.
  - split; [right; exists (PEnq c); reflexivity | auto].
  - split; [auto | right; exists (PEnq c); reflexivity].
  - unfold duart_rs232_tx. split; [right; exists (@PPoll Z) | left]; cbn; destruct (host_poll (pa d)); reflexivity.
  - unfold duart_keyboard_tx. split; [left | right; exists (@PPoll Z)]; cbn; destruct (host_poll (pb d)); reflexivity.
  - unfold mouse_down. repeat match goal with |- context [if ?b then _ else _] => destruct b end; cbn; auto.
  - unfold mouse_up. repeat match goal with |- context [if ?b then _ else _] => destruct b end; cbn; auto.
Qed.

Lemma dinv_step o d : DInv d -> DInv (dstep o d).
Proof.
  intros [Ia Ib]. destruct (dstep_ports o d) as [[Ha|[po Ha]] [Hb|[qo Hb]]]; split;
    rewrite ?Ha, ?Hb; auto; apply (@pinv_step Z 0 is02z); assumption.
Qed.

Fixpoint drun (ops : list dop) (d : duart) : duart :=
  match ops with [] => d | o :: t => drun t (dstep o d) end.

Theorem dinv_all_histories ops tm : DInv (drun ops (duart_new tm)).
Proof.
  assert (H : forall d, DInv d -> DInv (drun ops d)).
  { induction ops as [|o t IH]; intros d I; cbn; [exact I | apply IH, dinv_step, I]. }
  apply H, dinv_new.
Qed.

Ltac dbits := unfold STS_RXR, STS_FFL, STS_TXR, STS_TXE, STS_OER, STS_PER, STS_FER, STS_RXB,
              ISTS_TAI, ISTS_RAI, ISTS_DBA, ISTS_TBI, ISTS_RBI, ISTS_DBB, ISTS_IPC,
              KEYBOARD_INT, MOUSE_BLANK_INT, TX_INT, RX_INT, CMD_ERX, CMD_DRX, CMD_ETX, CMD_DTX in *; bits.

Lemma bset_nonzero x m : bset x m = true -> (x =? 0) = false.
Proof.
  unfold bset. intros H. apply negb_true_iff in H. apply Z.eqb_neq in H. apply Z.eqb_neq.
  intro E; subst. apply H. reflexivity.
Qed.

(* ---- C14: no phantom data: RxRDY implies the read returns the oldest really-received byte ---- *)
Lemma rxrdy_no_phantom_a d :
  DInv d -> bset (stat (pa d)) STS_RXR = true ->
  exists v d', duart_read_byte 15 d = ROk (v, d')
               /\ rx_held (pa d) = v :: rx_held (pa d') /\ rx_enabled (pa d) = true.
Proof.
  intros [Ia _] R. unfold duart_read_byte. cbn.
  destruct (rx_read_char_spec 0 is02z (pa d) Ia) as (_ & _ & _ & _ & _ & _ & _ & _ & _ & Hm & Hr & _).
  destruct (rx_read_char (pa d)) as [o p'] eqn:Er. cbn [fst snd] in *.
  destruct o as [v|]; [|exfalso; apply Hr; auto].
  exists v. eexists. split; [reflexivity|]. cbn. split; [exact Hm|]. apply (inv_rxr _ Ia R).
Qed.

Lemma rxrdy_no_phantom_b d :
  DInv d -> bset (stat (pb d)) STS_RXR = true ->
  exists v d', duart_read_byte 47 d = ROk (v, d')
               /\ rx_held (pb d) = v :: rx_held (pb d') /\ rx_enabled (pb d) = true.
Proof.
  intros [_ Ib] R. unfold duart_read_byte. cbn.
  destruct (rx_read_char_spec 0 is02z (pb d) Ib) as (_ & _ & _ & _ & _ & _ & _ & _ & _ & Hm & Hr & _).
  destruct (rx_read_char (pb d)) as [o p'] eqn:Er. cbn [fst snd] in *.
  destruct o as [v|]; [|exfalso; apply Hr; auto].
  exists v. eexists. split; [reflexivity|]. cbn. split; [exact Hm|]. apply (inv_rxr _ Ib R).
Qed.

(* TxRDY is never set while the holding register still holds an undelivered byte *)
Lemma txrdy_implies_thr_empty d : DInv d ->
  (bset (stat (pa d)) STS_TXR = true -> tx_hold (pa d) = None)
  /\ (bset (stat (pb d)) STS_TXR = true -> tx_hold (pb d) = None).
Proof. intros [Ia Ib]. split; [apply (inv_txr _ Ia) | apply (inv_txr _ Ib)]. Qed.

(* ---- get_interrupt in closed form ---- *)
Definition vb_stage (tm : Z) (d : duart) : duart :=
  if tm >? next_vblank d then vertical_blank (with_next_vblank d (tm + VERTICAL_BLANK_DELAY)) else d.

Lemma vb_stage_spec tm d :
  pa (vb_stage tm d) = pa d /\ pb (vb_stage tm d) = pb d
  /\ (ivec (vb_stage tm d) = ivec d \/ ivec (vb_stage tm d) = Z.lor (ivec d) MOUSE_BLANK_INT)
  /\ (isr (vb_stage tm d) = isr d \/ isr (vb_stage tm d) = Z.lor (isr d) ISTS_IPC).
Proof.
  unfold vb_stage, vertical_blank, isr_set, ivec_set.
  destruct (tm >? next_vblank d); [|auto]. cbn. destruct (Z.land _ 4 =? 0); cbn; auto.
Qed.

Definition opt_bit (c : bool) (m : Z) : Z := if c then m else 0.

Lemma get_interrupt_spec tm d :
  let d0 := vb_stage tm d in
  let d' := snd (get_interrupt tm d) in
  pa d' = pa d /\ pb d' = pb d
  /\ ivec d' = Z.lor (Z.lor (Z.lor (ivec d0) (opt_bit (bset (stat (pa d)) STS_RXR) RX_INT))
                            (opt_bit (bset (stat (pb d)) STS_RXR) KEYBOARD_INT))
                     (opt_bit (bset (stat (pa d)) STS_TXR) TX_INT)
  /\ isr d' = Z.lor (Z.lor (Z.lor (isr d0) (opt_bit (bset (stat (pa d)) STS_RXR) ISTS_RAI))
                           (opt_bit (bset (stat (pb d)) STS_RXR) ISTS_RBI))
                    (opt_bit (bset (stat (pa d)) STS_TXR) ISTS_TAI)
  /\ fst (get_interrupt tm d) = (if ivec d' =? 0 then None else Some (ivec d')).
Proof.
  unfold get_interrupt. fold (vb_stage tm d).
  destruct (vb_stage_spec tm d) as (Pa & Pb & _ & _).
  set (d0 := vb_stage tm d) in *. clearbody d0.
  rewrite <- Pa, <- Pb.
  destruct (bset (stat (pa d0)) STS_RXR);
    cbn [opt_bit isr_set ivec_set with_isr with_ivec pa pb ivec isr fst snd];
    (destruct (bset (stat (pb d0)) STS_RXR);
     cbn [opt_bit isr_set ivec_set with_isr with_ivec pa pb ivec isr fst snd];
     (destruct (bset (stat (pa d0)) STS_TXR);
      cbn [opt_bit isr_set ivec_set with_isr with_ivec pa pb ivec isr fst snd];
      rewrite ?Z.lor_0_r; repeat split; reflexivity)).
Qed.

(* ---- no lost wake-up ---- *)
Lemma no_lost_wakeup tm d :
  let v := fst (get_interrupt tm d) in
  let d' := snd (get_interrupt tm d) in
  (bset (stat (pa d)) STS_RXR = true ->
     exists val, v = Some val /\ bset val RX_INT = true /\ bset (isr d') ISTS_RAI = true)
  /\ (bset (stat (pb d)) STS_RXR = true ->
     exists val, v = Some val /\ bset val KEYBOARD_INT = true /\ bset (isr d') ISTS_RBI = true)
  /\ (bset (stat (pa d)) STS_TXR = true ->
     exists val, v = Some val /\ bset val TX_INT = true /\ bset (isr d') ISTS_TAI = true)
  /\ pa d' = pa d /\ pb d' = pb d.
Proof.
  destruct (get_interrupt_spec tm d) as (Pa & Pb & Iv & Is & Fv). cbn zeta.
  rewrite Fv, Is. set (iv := ivec (snd (get_interrupt tm d))) in *.
  repeat split; auto; intros H; rewrite H in *; cbn [opt_bit] in *.
  - assert (B : bset iv RX_INT = true) by (rewrite Iv; dbits).
    rewrite (bset_nonzero _ _ B). exists iv. repeat split; auto. dbits.
  - assert (B : bset iv KEYBOARD_INT = true) by (rewrite Iv; dbits).
    rewrite (bset_nonzero _ _ B). exists iv. repeat split; auto. dbits.
  - assert (B : bset iv TX_INT = true) by (rewrite Iv; dbits).
    rewrite (bset_nonzero _ _ B). exists iv. repeat split; auto. dbits.
Qed.

(* ---- no stuck request: after the read that drains receiver A (B), its request and ISR bit are
        withdrawn and stay withdrawn across interrupt polls until the receiver is ready again ---- *)
Lemma gi_keeps_rx_a tm d : bset (stat (pa d)) STS_RXR = false ->
  bset (ivec (snd (get_interrupt tm d))) RX_INT = bset (ivec d) RX_INT
  /\ bset (isr (snd (get_interrupt tm d))) ISTS_RAI = bset (isr d) ISTS_RAI.
Proof.
  intros R. destruct (get_interrupt_spec tm d) as (_ & _ & Iv & Is & _). rewrite Iv, Is, R. cbn [opt_bit].
  destruct (vb_stage_spec tm d) as (_ & _ & [E1|E1] & [E2|E2]); rewrite E1, E2;
    destruct (bset (stat (pb d)) STS_RXR); destruct (bset (stat (pa d)) STS_TXR); cbn [opt_bit]; split; dbits.
Qed.

Lemma gi_keeps_rx_b tm d : bset (stat (pb d)) STS_RXR = false ->
  bset (ivec (snd (get_interrupt tm d))) KEYBOARD_INT = bset (ivec d) KEYBOARD_INT
  /\ bset (isr (snd (get_interrupt tm d))) ISTS_RBI = bset (isr d) ISTS_RBI.
Proof.
  intros R. destruct (get_interrupt_spec tm d) as (_ & _ & Iv & Is & _). rewrite Iv, Is, R. cbn [opt_bit].
  destruct (vb_stage_spec tm d) as (_ & _ & [E1|E1] & [E2|E2]); rewrite E1, E2;
    destruct (bset (stat (pa d)) STS_RXR); destruct (bset (stat (pa d)) STS_TXR); cbn [opt_bit]; split; dbits.
Qed.

Lemma gi_keeps_tx_a tm d : bset (stat (pa d)) STS_TXR = false ->
  bset (ivec (snd (get_interrupt tm d))) TX_INT = bset (ivec d) TX_INT
  /\ bset (isr (snd (get_interrupt tm d))) ISTS_TAI = bset (isr d) ISTS_TAI.
Proof.
  intros R. destruct (get_interrupt_spec tm d) as (_ & _ & Iv & Is & _). rewrite Iv, Is, R. cbn [opt_bit].
  destruct (vb_stage_spec tm d) as (_ & _ & [E1|E1] & [E2|E2]); rewrite E1, E2;
    destruct (bset (stat (pa d)) STS_RXR); destruct (bset (stat (pb d)) STS_RXR); cbn [opt_bit]; split; dbits.
Qed.

Lemma no_stuck_after_drain_a d tm :
  let d1 := dstep (DRead 15) d in
  bset (stat (pa d1)) STS_RXR = false ->
  bset (ivec d1) RX_INT = false /\ bset (isr d1) ISTS_RAI = false
  /\ bset (ivec (snd (get_interrupt tm d1))) RX_INT = false
  /\ bset (isr (snd (get_interrupt tm d1))) ISTS_RAI = false.
Proof.
  cbn zeta.
  assert (H : bset (ivec (dstep (DRead 15) d)) RX_INT = false /\ bset (isr (dstep (DRead 15) d)) ISTS_RAI = false).
  { cbn [dstep]. unfold duart_read_byte. cbn. unfold isr_clr, ivec_clr. cbn.
    destruct (rx_read_char (pa d)) as [o p']. cbn. split; dbits. }
  intros R. destruct (gi_keeps_rx_a tm _ R) as (E1 & E2). rewrite E1, E2. tauto.
Qed.

Lemma no_stuck_after_drain_b d tm :
  let d1 := dstep (DRead 47) d in
  bset (stat (pb d1)) STS_RXR = false ->
  bset (ivec d1) KEYBOARD_INT = false /\ bset (isr d1) ISTS_RBI = false
  /\ bset (ivec (snd (get_interrupt tm d1))) KEYBOARD_INT = false
  /\ bset (isr (snd (get_interrupt tm d1))) ISTS_RBI = false.
Proof.
  cbn zeta.
  assert (H : bset (ivec (dstep (DRead 47) d)) KEYBOARD_INT = false /\ bset (isr (dstep (DRead 47) d)) ISTS_RBI = false).
  { cbn [dstep]. unfold duart_read_byte. cbn. unfold isr_clr, ivec_clr. cbn.
    destruct (rx_read_char (pb d)) as [o p']. cbn. split; dbits. }
  intros R. destruct (gi_keeps_rx_b tm _ R) as (E1 & E2). rewrite E1, E2. tauto.
Qed.

(* a disable command withdraws the source: status bit, vector bit and ISR bit are clear afterwards and stay
   clear across interrupt polls *)
Lemma disable_rx_withdraws_a d cmd tm :
  bset cmd CMD_DRX = true ->
  let d1 := dstep (DWrite 11 cmd) d in
  bset (stat (pa d1)) STS_RXR = false /\ bset (ivec d1) RX_INT = false /\ bset (isr d1) ISTS_RAI = false
  /\ bset (ivec (snd (get_interrupt tm d1))) RX_INT = false
  /\ bset (isr (snd (get_interrupt tm d1))) ISTS_RAI = false.
Proof.
  intros Hc. cbn zeta.
  assert (H : bset (stat (pa (dstep (DWrite 11 cmd) d))) STS_RXR = false
              /\ bset (ivec (dstep (DWrite 11 cmd) d)) RX_INT = false
              /\ bset (isr (dstep (DWrite 11 cmd) d)) ISTS_RAI = false).
  { cbn [dstep]. unfold duart_write_byte. cbn. unfold handle_command. cbn.
    assert (Hw : bset (w8 cmd) CMD_DRX = true).
    { unfold w8. unfold CMD_DRX in *. rewrite bset_2 in *. change 256 with (2 ^ 8).
      rewrite Z.mod_pow2_bits_low by lia. exact Hc. }
    rewrite Hw. unfold port_command. rewrite Hw. unfold isr_clr, ivec_clr, isr_set, ivec_set, disable_rx, enable_tx, disable_tx.
    repeat match goal with |- context [if ?b then _ else _] => destruct b end; cbn; repeat split; dbits. }
  destruct H as (R & H1 & H2). destruct (gi_keeps_rx_a tm _ R) as (E1 & E2). rewrite E1, E2. tauto.
Qed.

Lemma disable_tx_withdraws_a d cmd tm :
  bset cmd CMD_DTX = true ->
  let d1 := dstep (DWrite 11 cmd) d in
  bset (stat (pa d1)) STS_TXR = false /\ bset (ivec d1) TX_INT = false /\ bset (isr d1) ISTS_TAI = false
  /\ bset (ivec (snd (get_interrupt tm d1))) TX_INT = false
  /\ bset (isr (snd (get_interrupt tm d1))) ISTS_TAI = false.
Proof.
  intros Hc. cbn zeta.
  assert (H : bset (stat (pa (dstep (DWrite 11 cmd) d))) STS_TXR = false
              /\ bset (ivec (dstep (DWrite 11 cmd) d)) TX_INT = false
              /\ bset (isr (dstep (DWrite 11 cmd) d)) ISTS_TAI = false).
  { cbn [dstep]. unfold duart_write_byte. cbn. unfold handle_command. cbn.
    assert (Hw : bset (w8 cmd) CMD_DTX = true).
    { unfold w8. unfold CMD_DTX in *. rewrite bset_8 in *. change 256 with (2 ^ 8).
      rewrite Z.mod_pow2_bits_low by lia. exact Hc. }
    rewrite Hw. unfold port_command. rewrite Hw. unfold isr_clr, ivec_clr, isr_set, ivec_set, disable_rx, enable_rx, disable_tx.
    repeat match goal with |- context [if ?b then _ else _] => destruct b end; cbn; repeat split; dbits. }
  destruct H as (R & H1 & H2). destruct (gi_keeps_tx_a tm _ R) as (E1 & E2). rewrite E1, E2. tauto.
Qed.

