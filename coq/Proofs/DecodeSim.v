(* C04: decoding depends on nothing but the bytes at the program counter.
   1. The decoder run on two byte sources that agree on offsets 0..31 gives the same result (simulation).
   2. On the machine, with the 36 bytes from the PC inside RAM, decoding equals decoding the list of those bytes
      and leaves the machine unchanged -- whatever else the machine state holds. *)
From Coq Require Import ZArith Lia Bool List ZifyBool.
From Dmd Require Import Model.Bits Model.Types Model.Mem Model.Bus Model.Decode Model.Cpu Gen.GenOpcodes.
From Dmd Require Import Proofs.BusProofs Proofs.MemProofs Proofs.DecodeProofs Proofs.RegKit Proofs.MachKit.
Import ListNotations.
Open Scope Z_scope.

Section Sim.
Variables S1 S2 : Type.
Variable f1 f2 f4 : Z -> S1 -> res S1 Z.
Variable g1 g2 g4 : Z -> S2 -> res S2 Z.
Variable Rel : S1 -> S2 -> Prop.

(* the two sources agree on offsets 0..hi, and neither panics there *)
Definition fsim (hi : Z) (f : Z -> S1 -> res S1 Z) (g : Z -> S2 -> res S2 Z) : Prop :=
  forall off s t, 0 <= off <= hi -> Rel s t ->
    match f off s, g off t with
    | Ok v s', Ok w t' => v = w /\ Rel s' t'
    | Err e s', Err e' t' => e = e' /\ Rel s' t'
    | _, _ => False
    end.
Hypothesis F1 : fsim 31 f1 g1.
Hypothesis F2 : fsim 30 f2 g2.
Hypothesis F4 : fsim 28 f4 g4.

(* same outcome, the consumed length within [L, B] *)
Definition simg {X} (L B : Z) (r1 : res S1 (X * Z)) (r2 : res S2 (X * Z)) : Prop :=
  match r1, r2 with
  | Ok p s, Ok q t => p = q /\ L <= snd p <= B /\ Rel s t
  | Err e s, Err e' t => e = e' /\ Rel s t
  | _, _ => False
  end.

Lemma simg_weaken {X} L B L' B' (r1 : res S1 (X * Z)) r2 : simg L B r1 r2 -> L' <= L -> B <= B' -> simg L' B' r1 r2.
Proof. destruct r1 as [[x l] s| | |], r2 as [[y l2] t| | |]; cbn; intros; auto. destruct H as [? [? ?]]. repeat split; auto; lia. Qed.

Lemma simg_bind {X Y} L B L' B' (r1 : res S1 (X * Z)) r2 (k1 : X * Z -> S1 -> res S1 (Y * Z)) k2 :
  simg L B r1 r2 -> (forall p s t, Rel s t -> L <= snd p <= B -> simg L' B' (k1 p s) (k2 p t)) ->
  simg L' B' (bind r1 k1) (bind r2 k2).
Proof.
  destruct r1 as [p s| | |], r2 as [q t| | |]; cbn; intros H K; auto; try contradiction.
  destruct H as [-> [? ?]]. now apply K.
Qed.

Lemma acc_byte_sim len s t : Rel s t -> 0 <= len < 32 ->
  simg (len + 1) (len + 1) (acc_byte S1 f1 len s) (acc_byte S2 g1 len t).
Proof.
  intros R Hl. unfold acc_byte. pose proof (F1 len s t ltac:(lia) R) as K.
  destruct (f1 len s), (g1 len t); cbn [bind]; try contradiction; auto.
  replace (len >=? 32) with false by lia. destruct K as [-> K]. cbn. repeat split; auto; lia.
Qed.
Lemma acc_half_sim len s t : Rel s t -> 0 <= len < 31 ->
  simg (len + 2) (len + 2) (acc_half S1 f2 len s) (acc_half S2 g2 len t).
Proof.
  intros R Hl. unfold acc_half. pose proof (F2 len s t ltac:(lia) R) as K.
  destruct (f2 len s), (g2 len t); cbn [bind]; try contradiction; auto.
  replace (len + 1 >=? 32) with false by lia. destruct K as [-> K]. cbn. repeat split; auto; lia.
Qed.
Lemma acc_word_sim len s t : Rel s t -> 0 <= len < 29 ->
  simg (len + 4) (len + 4) (acc_word S1 f4 len s) (acc_word S2 g4 len t).
Proof.
  intros R Hl. unfold acc_word. pose proof (F4 len s t ltac:(lia) R) as K.
  destruct (f4 len s), (g4 len t); cbn [bind]; try contradiction; auto.
  replace (len + 3 >=? 32) with false by lia. destruct K as [-> K]. cbn. repeat split; auto; lia.
Qed.

Ltac okleaf := unfold simg; cbn [fst snd]; split; [reflexivity | split; [lia | assumption]].
Ltac errleaf := unfold simg, illegal; split; [reflexivity | assumption].
Ltac one_more :=
  eapply simg_bind;
  [ first [apply acc_word_sim | apply acc_half_sim | apply acc_byte_sim]; [assumption | lia]
  | let p := fresh "p" in let s := fresh "s" in let t := fresh "t" in let Rs := fresh "Rs" in let Hp := fresh "Hp" in
    intros p s t Rs Hp; okleaf ].
Ltac leaf := first [okleaf | errleaf | one_more].

Lemma literal_sim dt len s t : Rel s t -> 0 <= len <= 26 ->
  simg (len + 1) (len + 4) (decode_literal_operand S1 f1 f2 f4 dt len s) (decode_literal_operand S2 g1 g2 g4 dt len t).
Proof. intros R Hl. unfold decode_literal_operand. destruct dt; leaf. Qed.

Lemma descriptor_sim_inner fuel dt et len s t : (1 <= fuel)%nat -> Rel s t -> 0 <= len <= 27 ->
  simg (len + 1) (len + 5) (decode_descriptor S1 f1 f2 f4 fuel dt et true len s)
                           (decode_descriptor S2 g1 g2 g4 fuel dt et true len t).
Proof.
  intros Hf R Hl. destruct fuel as [|fuel]; [lia|]. cbn [decode_descriptor].
  eapply simg_bind; [apply acc_byte_sim; [auto|lia]|].
  intros [d l1] s1 t1 R1 Hl1. cbn [fst snd] in *. cbv zeta. cbn [andb negb].
  destruct (d mod 16 =? 15); cbn [negb];
  repeat match goal with
         | |- simg _ _ (if ?c then _ else _) _ => destruct c
         end; try leaf.
Qed.

Lemma descriptor_sim fuel dt et len s t : (2 <= fuel)%nat -> Rel s t -> 0 <= len <= 26 ->
  simg (len + 1) (len + 6) (decode_descriptor S1 f1 f2 f4 fuel dt et false len s)
                           (decode_descriptor S2 g1 g2 g4 fuel dt et false len t).
Proof.
  intros Hf R Hl. destruct fuel as [|fuel]; [lia|]. cbn [decode_descriptor].
  eapply simg_bind; [apply acc_byte_sim; [auto|lia]|].
  intros [d l1] s1 t1 R1 Hl1. cbn [fst snd] in *. cbv zeta. cbn [andb negb].
  destruct (d mod 16 =? 15); cbn [negb];
  repeat match goal with
         | |- simg _ _ (if ?c then _ else _) _ => destruct c
         | |- simg _ _ (match ?c with Some _ => _ | None => _ end) _ => destruct c
         end; try leaf.
  eapply simg_weaken; [apply descriptor_sim_inner; [lia|assumption|lia] | lia | lia].
Qed.

Lemma operand_sim mn ot et len s t : Rel s t -> 0 <= len <= 26 -> ot <> ONone ->
  simg (len + 1) (len + 6) (decode_operand S1 f1 f2 f4 mn ot et len s) (decode_operand S2 g1 g2 g4 mn ot et len t).
Proof.
  intros R Hl N. destruct ot; cbn [decode_operand]; try congruence.
  - eapply simg_weaken; [apply literal_sim; auto | lia | lia].
  - apply descriptor_sim; auto.
  - apply descriptor_sim; auto.
Qed.

Lemma ops_sim mn ots : forall et len s t, Rel s t -> 0 <= len -> len + 6 * Z.of_nat (length ots) <= 32 ->
  simg len (len + 6 * Z.of_nat (length ots)) (decode_ops S1 f1 f2 f4 mn ots et len s) (decode_ops S2 g1 g2 g4 mn ots et len t).
Proof.
  induction ots as [|ot rest IH]; intros et len s t R H0 Hl; cbn [decode_ops]; cbn [length] in *.
  - okleaf.
  - rewrite Nat2Z.inj_succ in *.
    assert (Hrest : forall et' l' s' t', Rel s' t' -> len <= l' <= len + 6 ->
              simg len (len + 6 * Z.succ (Z.of_nat (length rest)))
                   (decode_ops S1 f1 f2 f4 mn rest et' l' s') (decode_ops S2 g1 g2 g4 mn rest et' l' t')).
    { intros et' l' s' t' R' Hl'. eapply simg_weaken; [apply IH; [auto|lia|lia] | lia | lia]. }
    destruct ot.
    1-3: eapply simg_bind; [apply operand_sim; [auto|lia|congruence]|];
      intros [o l1] s1 t1 R1 Hl1; cbn [fst snd] in *;
      eapply simg_bind; [apply Hrest; [auto|lia]|];
      intros [r l2] s2 t2 R2 Hl2; cbn [fst snd] in *; okleaf.
    eapply simg_bind; [apply Hrest; [auto|lia]|].
    intros [r l2] s2 t2 R2 Hl2. cbn [fst snd] in *. okleaf.
Qed.

Definition isim (r1 : res S1 instr) (r2 : res S2 instr) : Prop :=
  match r1, r2 with
  | Ok i s, Ok j t => i = j /\ Rel s t
  | Err e s, Err e' t => e = e' /\ Rel s t
  | _, _ => False
  end.

Hypothesis byte_range : forall off t, match g1 off t with Ok v _ => 0 <= v < 256 | _ => True end.

Theorem decode_instruction_sim s t : Rel s t ->
  isim (decode_instruction S1 f1 f2 f4 s) (decode_instruction S2 g1 g2 g4 t).
Proof.
  intros R. unfold decode_instruction.
  pose proof (acc_byte_sim 0 s t R ltac:(lia)) as K1.
  pose proof (byte_range 0 t) as B1.
  unfold acc_byte at 1 2 in K1. unfold acc_byte at 1 3.
  destruct (f1 0 s) as [b1 s1|e1 s1| |], (g1 0 t) as [c1 t1|e1' t1| |];
    cbn [bind simg] in *; try contradiction; auto.
  replace (0 >=? 32) with false in * by lia. cbn [bind simg fst snd] in *.
  destruct K1 as [E1 [Hl1 R1]]. injection E1 as <-. cbn [fst snd] in *.
  destruct (b1 =? 48) eqn:E48.
  - pose proof (acc_byte_sim (0 + 1) s1 t1 R1 ltac:(lia)) as K2.
    pose proof (byte_range (0 + 1) t1) as B2.
    unfold acc_byte in *.
    destruct (f1 (0 + 1) s1) as [b2 s2|e2 s2| |], (g1 (0 + 1) t1) as [c2 t2|e2' t2| |];
      cbn [bind simg] in *; try contradiction; auto.
    replace (0 + 1 >=? 32) with false in * by lia. cbn [bind simg fst snd] in *.
    destruct K2 as [E2 [Hl2 R2]]. injection E2 as <-. cbn [fst snd] in *.
    destruct (lookup_mnemonic b1 (Some b2)) as [mn|] eqn:L; [|unfold illegal; split; auto].
    assert (Len : length (mn_ops mn) = 4%nat).
    { eapply lookup_four_slots; [| | |exact L]; [lia| intros _; exists b2; split; [reflexivity|lia] | lia]. }
    pose proof (ops_sim mn (mn_ops mn) None (0 + 1 + 1) s2 t2 R2 ltac:(lia) ltac:(rewrite Len; lia)) as G.
    destruct (decode_ops S1 f1 f2 f4 mn (mn_ops mn) None (0 + 1 + 1) s2) as [[ops l] s3|e3 s3| |],
             (decode_ops S2 g1 g2 g4 mn (mn_ops mn) None (0 + 1 + 1) t2) as [[ops' l'] t3|e3' t3| |];
      cbn [bind simg isim] in *; try contradiction; auto.
    destruct G as [E [_ R3]]. injection E as <- <-. cbn [fst snd]. split; auto.
  - cbn [bind fst snd].
    destruct (lookup_mnemonic b1 None) as [mn|] eqn:L; [|unfold illegal; split; auto].
    assert (Len : length (mn_ops mn) = 4%nat).
    { eapply lookup_four_slots; [| | |exact L]; [lia| lia | reflexivity]. }
    pose proof (ops_sim mn (mn_ops mn) None (0 + 1) s1 t1 R1 ltac:(lia) ltac:(rewrite Len; lia)) as G.
    destruct (decode_ops S1 f1 f2 f4 mn (mn_ops mn) None (0 + 1) s1) as [[ops l] s3|e3 s3| |],
             (decode_ops S2 g1 g2 g4 mn (mn_ops mn) None (0 + 1) t1) as [[ops' l'] t3|e3' t3| |];
      cbn [bind simg isim] in *; try contradiction; auto.
    destruct G as [E [_ R3]]. injection E as <- <-. cbn [fst snd]. split; auto.
Qed.
End Sim.

(* ---- the machine against the list of bytes at its program counter ---- *)
Definition code_bytes (m : mach) (n : nat) : list Z :=
  map (fun k => ramb m (R m R_PC + Z.of_nat k)) (seq 0 n).

Lemma byte_at_code m n off : 0 <= off < Z.of_nat n -> byte_at (code_bytes m n) off = Some (ramb m (R m R_PC + off)).
Proof.
  intros H. unfold byte_at. replace (off <? 0) with false by lia. unfold code_bytes.
  rewrite nth_error_map. rewrite (nth_error_nth' (seq 0 n) 0%nat) by (rewrite seq_length; lia).
  rewrite seq_nth by lia. cbn [option_map Nat.add]. f_equal. f_equal. lia.
Qed.

Lemma dev_read_byte_ram b a : bus_wf b -> RAMB <= a < RAME ->
  dev_read_byte DRam a b = Ok (mget (ram b) (a - RAMB)) b.
Proof.
  intros W H. cbn [dev_read_byte dev_mem]. destruct W as [_ _ _ [Rb [Rs Rr]]].
  unfold mem_read_byte, mend, lift_r. rewrite Rb, Rs. unfold RAMB, RAME in *.
  replace (a >=? 7340032 + 1048576) with false by lia.
  replace (in_vec (ram b) (a - 7340032)) with true by (symmetry; apply in_vec_spec; lia). reflexivity.
Qed.

Lemma fetch1_ram m off : bus_wf (mbus m) -> RAMB <= R m R_PC + off < RAME ->
  fetch1 off m = Ok (ramb m (R m R_PC + off)) m.
Proof.
  intros W H. unfold fetch1, rd_byte, liftb, bus_read_byte, with_dev.
  rewrite (get_device_ram _ H). rewrite (dev_read_byte_ram _ _ W H). now rewrite with_bus_eta.
Qed.
Lemma fetch2_ram m off : bus_wf (mbus m) -> RAMB <= R m R_PC + off -> R m R_PC + off + 1 < RAME ->
  fetch2 off m = Ok (ramb m (R m R_PC + off) + ramb m (R m R_PC + off + 1) * 256) m.
Proof.
  intros W H H2. unfold fetch2, liftb, bus_read_op_half, with_dev.
  assert (A0 : RAMB <= R m R_PC + off < RAME) by lia. assert (A1 : RAMB <= R m R_PC + off + 1 < RAME) by lia.
  rewrite (get_device_ram _ A0).
  rewrite (dev_read_byte_ram _ _ W A0). cbn [bind].
  rewrite (dev_read_byte_ram _ _ W A1). cbn [bind]. now rewrite with_bus_eta.
Qed.
Lemma fetch4_ram m off : bus_wf (mbus m) -> RAMB <= R m R_PC + off -> R m R_PC + off + 3 < RAME ->
  fetch4 off m = Ok (ramb m (R m R_PC + off) + ramb m (R m R_PC + off + 1) * 256
                     + ramb m (R m R_PC + off + 2) * 65536 + ramb m (R m R_PC + off + 3) * 16777216) m.
Proof.
  intros W H H2. unfold fetch4, liftb, bus_read_op_word, with_dev.
  assert (A0 : RAMB <= R m R_PC + off < RAME) by lia. assert (A1 : RAMB <= R m R_PC + off + 1 < RAME) by lia.
  assert (A2 : RAMB <= R m R_PC + off + 2 < RAME) by lia. assert (A3 : RAMB <= R m R_PC + off + 3 < RAME) by lia.
  rewrite (get_device_ram _ A0).
  rewrite (dev_read_byte_ram _ _ W A0). cbn [bind].
  rewrite (dev_read_byte_ram _ _ W A1). cbn [bind].
  rewrite (dev_read_byte_ram _ _ W A2). cbn [bind].
  rewrite (dev_read_byte_ram _ _ W A3). cbn [bind]. now rewrite with_bus_eta.
Qed.

Definition same_decode (r1 : res mach instr) (m : mach) (r2 : res unit instr) : Prop :=
  match r1, r2 with
  | Ok i m', Ok j _ => i = j /\ m' = m
  | Err e m', Err e' _ => e = e' /\ m' = m
  | _, _ => False
  end.

(* decoding on the machine = decoding the 36 bytes at the PC; the machine is not changed *)
Theorem decode_is_decode_of_code_bytes m :
  bus_wf (mbus m) -> RAMB <= R m R_PC -> R m R_PC + 36 <= RAME -> (forall a, 0 <= ramb m a < 256) ->
  same_decode (decode m) m (decode_bytes (code_bytes m 36)).
Proof.
  intros W H1 H2 Hb.
  pose proof (decode_instruction_sim mach unit fetch1 fetch2 fetch4
                (bfetch1 (code_bytes m 36)) (bfetch2 (code_bytes m 36)) (bfetch4 (code_bytes m 36))
                (fun m' _ => m' = m)) as K.
  unfold decode, decode_bytes, same_decode.
  assert (K' : isim mach unit (fun m' _ => m' = m) (decode_instruction mach fetch1 fetch2 fetch4 m)
                 (decode_instruction unit (bfetch1 (code_bytes m 36)) (bfetch2 (code_bytes m 36)) (bfetch4 (code_bytes m 36)) tt)).
  { apply K; auto.
    - intros off s t Ho ->. rewrite fetch1_ram by (auto; lia). unfold bfetch1. rewrite byte_at_code by lia. auto.
    - intros off s t Ho ->. rewrite fetch2_ram by (auto; lia). unfold bfetch2. rewrite !byte_at_code by lia.
      replace (R m R_PC + (off + 1)) with (R m R_PC + off + 1) by lia. auto.
    - intros off s t Ho ->. rewrite fetch4_ram by (auto; lia). unfold bfetch4. rewrite !byte_at_code by lia.
      replace (R m R_PC + (off + 1)) with (R m R_PC + off + 1) by lia.
      replace (R m R_PC + (off + 2)) with (R m R_PC + off + 2) by lia.
      replace (R m R_PC + (off + 3)) with (R m R_PC + off + 3) by lia. auto.
    - intros off t. unfold bfetch1. destruct (byte_at (code_bytes m 36) off) eqn:E; auto.
      unfold byte_at in E. destruct (off <? 0); [discriminate|]. apply nth_error_In in E.
      unfold code_bytes in E. apply in_map_iff in E. destruct E as [k [<- _]]. apply Hb. }
  unfold isim in K'.
  destruct (decode_instruction mach fetch1 fetch2 fetch4 m);
    destruct (decode_instruction unit (bfetch1 (code_bytes m 36)) (bfetch2 (code_bytes m 36)) (bfetch4 (code_bytes m 36)) tt); auto.
Qed.

(* so two machines holding the same bytes at their program counters decode the same instruction, whatever their
   registers, other memory, devices or history *)
Corollary decode_depends_only_on_code m1 m2 :
  bus_wf (mbus m1) -> bus_wf (mbus m2) ->
  RAMB <= R m1 R_PC -> R m1 R_PC + 36 <= RAME -> RAMB <= R m2 R_PC -> R m2 R_PC + 36 <= RAME ->
  (forall a, 0 <= ramb m1 a < 256) -> (forall a, 0 <= ramb m2 a < 256) ->
  code_bytes m1 36 = code_bytes m2 36 ->
  match decode m1, decode m2 with
  | Ok i m1', Ok j m2' => i = j /\ m1' = m1 /\ m2' = m2
  | Err e m1', Err e' m2' => e = e' /\ m1' = m1 /\ m2' = m2
  | _, _ => False
  end.
Proof.
  intros W1 W2 A1 A2 B1 B2 C1 C2 E.
  pose proof (decode_is_decode_of_code_bytes m1 W1 A1 A2 C1) as K1.
  pose proof (decode_is_decode_of_code_bytes m2 W2 B1 B2 C2) as K2.
  rewrite E in K1. unfold same_decode in *.
  destruct (decode m1), (decode m2), (decode_bytes (code_bytes m2 36)); try contradiction; intuition congruence.
Qed.
