(* C07, handler control blocks with the I flag (initial context): the PSW / PC / SP are taken from the block, the I
   bit is cleared in the PSW and the PCBP moves past the initial context (N + 12).  Delivery followed by RETPS is
   still transparent to the interrupted program. *)
From Coq Require Import ZArith Lia Bool List.
From Dmd Require Import Model.Bits Model.Types Model.Mem Model.Bus Model.Decode Model.Cpu.
From Dmd Require Import Proofs.BitsLemmas Proofs.BitKit Proofs.BusProofs Proofs.RegKit Proofs.ResetProofs
  Proofs.MachKit Proofs.ExceptionProofs Proofs.InterruptProofs.
Import ListNotations.
Open Scope Z_scope.

Definition handler_psw_I (h : Z) : Z :=
  Z.lor (Z.lor (clr32 (clr32 (clr32 h F_TM) F_I) (F_ISC + F_TM + F_ET)) 56) 3.

Lemma cs2_effect_I N m :
  bus_wf (mbus m) -> in_ram_w N -> in_ram_w (N + 4) -> in_ram_w (N + 8) ->
  Z.testbit (ldw m N) 7 = true ->
  context_switch_2 N m =
  Ok tt (setR (setR (setR (setR (setR (setR m 13 N) 11 (clr32 (ldw m N) F_TM)) 15 (ldw m (N + 4))) 12 (ldw m (N + 8)))
                    11 (clr32 (clr32 (ldw m N) F_TM) F_I)) 13 (N + 12)).
Proof.
  intros W H0 H4 H8 HI. pose proof H4 as [a1 [a2 a3]]. pose proof H8 as [b1 [b2 b3]].
  assert (N4 : add32 N 4 = N + 4) by (unfold add32, w32; rewrite Z.mod_small; unfold RAMB, RAME in *; lia).
  assert (N8 : add32 N 8 = N + 8) by (unfold add32, w32; rewrite Z.mod_small; unfold RAMB, RAME in *; lia).
  assert (N12 : add32 N 12 = N + 12) by (unfold add32, w32; rewrite Z.mod_small; unfold RAMB, RAME in *; lia).
  unfold context_switch_2, setPSW, PSW. rconst. rewrite !R_setR_same.
  rewrite rd_word_ram by (first [cbn [mbus setR with_regs]; assumption | assumption]). cbn [bind].
  rewrite !ldw_setR. rewrite !R_setR_other by lia. rewrite R_setR_same. rewrite N4.
  rewrite rd_word_ram by (first [cbn [mbus setR with_regs]; assumption | assumption]). cbn [bind].
  rewrite !ldw_setR. rewrite !R_setR_other by lia. rewrite R_setR_same. rewrite N8.
  rewrite rd_word_ram by (first [cbn [mbus setR with_regs]; assumption | assumption]). cbn [bind].
  rewrite !ldw_setR. rewrite !R_setR_other by lia. rewrite R_setR_same.
  assert (BI : bset (clr32 (ldw m N) F_TM) F_I = true) by (rewrite bset_I, testbit_clr32, HI; reflexivity).
  rewrite BI. rewrite !R_setR_other by lia. rewrite R_setR_same. rewrite N12. reflexivity.
Qed.

Lemma entry_tail_I N m5 :
  bus_wf (mbus m5) -> in_ram_w N -> in_ram_w (N + 4) -> in_ram_w (N + 8) ->
  Z.testbit (ldw m5 N) 8 = false -> Z.testbit (ldw m5 N) 7 = true ->
  exists m6, bind (context_switch_2 N m5) (fun _ m => context_switch_3 (psw_enter_2 m)) = Ok tt m6
    /\ mbus m6 = mbus m5 /\ R m6 R_PCBP = N + 12 /\ PSW m6 = handler_psw_I (ldw m5 N)
    /\ R m6 R_PC = ldw m5 (N + 4) /\ R m6 R_SP = ldw m5 (N + 8)
    /\ (forall i, 0 <= i <= 10 -> R m6 i = R m5 i) /\ R m6 R_ISP = R m5 R_ISP.
Proof.
  intros W H0 H4 H8 HR HI. rewrite cs2_effect_I by assumption. cbn [bind].
  unfold psw_enter_2, context_switch_3, setPSW, PSW, handler_psw_I. rconst. rsimp.
  assert (BR : bset (Z.lor (Z.lor (clr32 (clr32 (clr32 (ldw m5 N) F_TM) F_I) (F_ISC + F_TM + F_ET)) 56) 3) F_R = false).
  { rewrite bset_R, !Z.lor_spec, !testbit_clr32, HR. reflexivity. }
  rewrite BR. eexists. split; [reflexivity|].
  split; [reflexivity|].
  split; [unfold R_PCBP; rewrite !R_setR_other by lia; apply R_setR_same|].
  split; [apply R_setR_same|].
  split; [unfold R_PC; rewrite !R_setR_other by lia; apply R_setR_same|].
  split; [unfold R_SP; rewrite !R_setR_other by lia; apply R_setR_same|].
  split; [intros i Hi; rewrite !R_setR_other by lia; reflexivity|].
  unfold R_ISP. rewrite !R_setR_other by lia. reflexivity.
Qed.

Lemma on_interrupt_effect_gen_I v m N P S H :
  bus_wf (mbus m) -> 0 <= v -> in_rom_w (140 + 4 * v) ->
  romw m (140 + 4 * v) = N -> R m R_PCBP = P -> R m R_ISP = S -> ldw m N = H ->
  in_ram_w N -> in_ram_w (N + 4) -> in_ram_w (N + 8) ->
  in_ram_w P -> in_ram_w (P + 4) -> in_ram_w (P + 8) -> in_ram_w S -> S + 4 < 4294967296 ->
  (P + 12 <= N \/ N + 12 <= P) -> (S + 4 <= P \/ P + 12 <= S) -> (S + 4 <= N \/ N + 12 <= S) ->
  Z.testbit H 8 = false -> Z.testbit H 7 = true ->
  exists m1, on_interrupt v m = Ok tt m1
    /\ bus_wf (mbus m1)
    /\ R m1 R_ISP = S + 4 /\ R m1 R_PCBP = N + 12 /\ PSW m1 = handler_psw_I H
    /\ R m1 R_PC = ldw m (N + 4) /\ R m1 R_SP = ldw m (N + 8)
    /\ (forall i, 0 <= i <= 10 -> R m1 i = R m i)
    /\ ldw m1 S = w32 P /\ ldw m1 P = w32 (saved_psw (PSW m) H)
    /\ ldw m1 (P + 4) = w32 (R m R_PC) /\ ldw m1 (P + 8) = w32 (R m R_SP)
    /\ (forall a, RAMB <= a -> (a < S \/ S + 4 <= a) -> (a < P \/ P + 12 <= a) -> ramb m1 a = ramb m a).
Proof.
  intros W Hv Hrom EN EP ES EH HN0 HN4 HN8 HP0 HP4 HP8 HS Hlt D1 D2 D3 HR HI.
  pose proof HN0 as [n1 [n2 n3]]. pose proof HP0 as [p1 [p2 p3]]. pose proof HS as [s1 [s2 s3]].
  pose proof HN8 as [n81 [n82 n83]]. pose proof HP8 as [p81 [p82 p83]].
  assert (HS' : in_ram_w (R m R_ISP)) by (rewrite ES; exact HS).
  assert (Hlt' : R m R_ISP + 4 < 4294967296) by (rewrite ES; exact Hlt).
  assert (E0 : on_interrupt v m =
               bind (context_switch_1 N (entry0 m)) (fun _ m => bind (context_switch_2 N m) (fun _ m =>
                 context_switch_3 (psw_enter_2 m)))).
  { unfold on_interrupt. rewrite rd_word_rom by assumption. cbn [bind]. rewrite EN.
    pose proof (entry0_eq m W HS' Hlt') as K.
    destruct (irq_push (R m R_PCBP) m) as [u mx|e mx| |]; cbn [bind] in *; try discriminate.
    assert (K' : psw_enter_1 mx = entry0 m) by congruence. cbv zeta. rewrite K'. reflexivity. }
  rewrite E0. clear E0.
  pose proof (entry0_wf m W) as W0.
  assert (E13 : R (entry0 m) R_PCBP = P) by (rewrite entry0_R by (unfold R_PCBP; lia); exact EP).
  assert (LN : forall k, k = 0 \/ k = 4 \/ k = 8 -> ldw (entry0 m) (N + k) = ldw m (N + k)).
  { intros k Hk. apply entry0_ldw; rewrite ?ES; unfold RAMB in *; lia. }
  assert (LN0 : ldw (entry0 m) N = H) by (replace N with (N + 0) by lia; rewrite LN by lia; rewrite Z.add_0_r; exact EH).
  assert (HR0 : Z.testbit (ldw (entry0 m) N) 8 = false) by (rewrite LN0; exact HR).
  assert (D1' : P + 8 <= N \/ N + 4 <= P + 4) by lia.
  rewrite (cs1_effect_noR N P (entry0 m) W0 E13 HP0 HP4 HP8 HN0 D1' HR0). cbn [bind].
  rewrite LN0, entry0_psw. rewrite !entry0_R by (unfold R_PC, R_SP; lia).
  fold (saved_psw (PSW m) H).
  fold (entry5 (entry0 m) P (saved_psw (PSW m) H) (R m R_PC) (R m R_SP)).
  set (m5 := entry5 (entry0 m) P (saved_psw (PSW m) H) (R m R_PC) (R m R_SP)).
  pose proof (entry5_wf (entry0 m) P (saved_psw (PSW m) H) (R m R_PC) (R m R_SP) W0) as W5. fold m5 in W5.
  assert (L5N : forall k, k = 0 \/ k = 4 \/ k = 8 -> ldw m5 (N + k) = ldw m (N + k)).
  { intros k Hk. unfold m5. rewrite entry5_ldw_other by (unfold RAMB in *; lia). now apply LN. }
  assert (L5N0 : ldw m5 N = H) by (replace N with (N + 0) by lia; rewrite L5N by lia; rewrite Z.add_0_r; exact EH).
  destruct (entry_tail_I N m5 W5 HN0 HN4 HN8) as [m6 [E6 [B6 [Pc6 [Psw6 [PC6 [SP6 [Rg6 Isp6]]]]]]]];
    [rewrite L5N0; assumption | rewrite L5N0; assumption |].
  rewrite E6. exists m6. split; [reflexivity|].
  split; [rewrite B6; exact W5|].
  split.
  { rewrite Isp6. unfold m5, R_ISP. rewrite entry5_R by lia. change 14 with R_ISP. rewrite entry0_isp. lia. }
  split; [exact Pc6|].
  split; [rewrite Psw6, L5N0; reflexivity|].
  split; [rewrite PC6; apply L5N; lia|].
  split; [rewrite SP6; apply L5N; lia|].
  split; [intros i Hi; rewrite Rg6 by lia; unfold m5; rewrite entry5_R by lia; apply entry0_R; lia|].
  assert (LL : forall a, ldw m6 a = ldw m5 a) by (intros a; unfold ldw, ramb; now rewrite B6).
  rewrite !LL. unfold m5.
  split.
  { rewrite entry5_ldw_other by (unfold RAMB in *; lia). rewrite <- ES, <- EP. apply entry0_ldw_isp. rewrite ES. exact s1. }
  split; [apply entry5_ldw0; lia|].
  split; [apply entry5_ldw4; lia|].
  split; [apply entry5_ldw8; lia|].
  intros a Ha D4 D5. unfold ramb at 1. rewrite B6. fold (ramb m5 a). unfold m5. rewrite entry5_ramb by (unfold RAMB in *; lia).
  apply entry0_ramb; rewrite ?ES; assumption.
Qed.

Lemma handler_psw_I_kernel h : 0 <= h -> Z.testbit h 11 = false -> Z.testbit h 12 = false ->
  forall m, PSW m = handler_psw_I h -> is_kernel m = true.
Proof.
  intros Hh H11 H12 m E. rewrite is_kernel_spec.
  - rewrite E. unfold handler_psw_I. rewrite !Z.lor_spec, !testbit_clr32, H11, H12. reflexivity.
  - rewrite E. unfold handler_psw_I. apply Z.lor_nonneg. split; [|lia]. apply Z.lor_nonneg. split; [|lia].
    unfold clr32. apply Z.land_nonneg. left. apply Z.land_nonneg. left. apply Z.land_nonneg. left. exact Hh.
Qed.

(* interrupt delivered to a control block WITH the I flag (kernel level, no R), handler returns at once with RETPS:
   transparent to the interrupted program, exactly as without I *)
Theorem interrupt_retps_transparent_I ir v m :
  iopcode ir = 12488 ->
  bus_wf (mbus m) -> 0 <= v -> in_rom_w (140 + 4 * v) ->
  let N := romw m (140 + 4 * v) in
  let P := R m R_PCBP in
  let S := R m R_ISP in
  in_ram_w N -> in_ram_w (N + 4) -> in_ram_w (N + 8) ->
  in_ram_w P -> in_ram_w (P + 4) -> in_ram_w (P + 8) -> in_ram_w S -> S + 4 < 4294967296 ->
  (P + 12 <= N \/ N + 12 <= P) -> (S + 4 <= P \/ P + 12 <= S) -> (S + 4 <= N \/ N + 12 <= S) ->
  let H := ldw m N in
  0 <= H -> Z.testbit H 8 = false -> Z.testbit H 7 = true -> Z.testbit H 11 = false -> Z.testbit H 12 = false ->
  Z.testbit (PSW m) 7 = false ->
  0 <= R m R_PC < 4294967296 -> 0 <= R m R_SP < 4294967296 ->
  exists m1 m2,
    on_interrupt v m = Ok tt m1 /\ R m1 R_PCBP = N + 12 /\ exec ir m1 = Ok 0 m2
    /\ R m2 R_PC = R m R_PC /\ R m2 R_SP = R m R_SP /\ R m2 R_PCBP = P /\ R m2 R_ISP = S
    /\ (forall i, 0 <= i <= 10 -> R m2 i = R m i)
    /\ (forall k, In k [21; 20; 19; 18; 16; 15; 14; 13; 12; 11; 10; 9; 7] -> Z.testbit (PSW m2) k = Z.testbit (PSW m) k)
    /\ (forall a, RAMB <= a -> (a < S \/ S + 4 <= a) -> (a < P \/ P + 12 <= a) -> ramb m2 a = ramb m a).
Proof.
  intros Ho W Hv Hrom N P S HN0 HN4 HN8 HP0 HP4 HP8 HS Hlt D1 D2 D3 H H0 HR HI H11 H12 PI Hpc Hsp.
  destruct (on_interrupt_effect_gen_I v m N P S H W Hv Hrom eq_refl eq_refl eq_refl eq_refl HN0 HN4 HN8 HP0 HP4 HP8 HS Hlt D1 D2 D3 HR HI)
    as [m1 [E1 [W1 [Isp1 [Pcbp1 [Psw1 [Pc1 [Sp1 [Rg1 [LS [LP [LP4 [LP8 Fr]]]]]]]]]]]]].
  pose proof HP0 as [p1 [p2 p3]]. pose proof HS as [s1 [s2 s3]].
  assert (Pr : 0 <= P < 4294967296) by (unfold RAMB, RAME in *; lia).
  assert (EP : ldw m1 (R m1 R_ISP - 4) = P).
  { rewrite Isp1. replace (S + 4 - 4) with S by lia. rewrite LS. now apply w32_id. }
  destruct (retps_effect ir m1 Ho) as [m2 [E2 [B2 [Isp2 [Pcbp2 [Psw2 [Pc2 [Sp2 Rg2]]]]]]]].
  - eapply handler_psw_I_kernel; eauto.
  - exact W1.
  - rewrite Isp1. unfold RAMB in *. lia.
  - rewrite Isp1. replace (S + 4 - 4) with S by lia. exact HS.
  - rewrite EP. exact HP0.
  - rewrite EP. exact HP4.
  - rewrite EP. exact HP8.
  - rewrite EP, LP. unfold w32. rewrite Z.mod_pow2_bits_low with (n := 32) by lia.
    unfold saved_psw. rewrite Z.lor_spec, testbit_clr32, Z.land_spec, HR. psw_consts. eval_closed_bits.
    now rewrite andb_false_r.
  - rewrite EP, LP. unfold w32. rewrite Z.mod_pow2_bits_low with (n := 32) by lia.
    unfold saved_psw, psw1. repeat (rewrite Z.lor_spec || rewrite Z.land_spec || rewrite testbit_clr32).
    rewrite PI. psw_consts. eval_closed_bits. rewrite ?andb_false_r, ?andb_true_r, ?orb_false_r. reflexivity.
  - rewrite EP in *. exists m1, m2.
    split; [exact E1|]. split; [exact Pcbp1|]. split; [exact E2|].
    split; [rewrite Pc2, LP4; now apply w32_id|].
    split; [rewrite Sp2, LP8; now apply w32_id|].
    split; [exact Pcbp2|].
    split; [rewrite Isp2, Isp1; lia|].
    split; [intros i Hi; rewrite Rg2 by lia; now apply Rg1|].
    split.
    + intros k Hk. rewrite Psw2, LP. now apply saved_psw_keeps_bit.
    + intros a Ha Da Db. unfold ramb. rewrite B2. fold (ramb m1 a). now apply Fr.
Qed.

(* ---- CALLPS: the same entry sequence, with the new control block named by %r0 and the saved PC past the CALLPS ---- *)
Definition entry_from (N : Z) (m : mach) : res mach unit :=
  bind (context_switch_1 N (entry0 m)) (fun _ m => bind (context_switch_2 N m) (fun _ m =>
    context_switch_3 (psw_enter_2 m))).

Lemma entry_from_effect m N P S H :
  bus_wf (mbus m) -> R m R_PCBP = P -> R m R_ISP = S -> ldw m N = H ->
  in_ram_w N -> in_ram_w (N + 4) -> in_ram_w (N + 8) ->
  in_ram_w P -> in_ram_w (P + 4) -> in_ram_w (P + 8) -> in_ram_w S -> S + 4 < 4294967296 ->
  (P + 12 <= N \/ N + 12 <= P) -> (S + 4 <= P \/ P + 12 <= S) -> (S + 4 <= N \/ N + 12 <= S) ->
  Z.testbit H 8 = false -> Z.testbit H 7 = false ->
  exists m1, entry_from N m = Ok tt m1
    /\ bus_wf (mbus m1)
    /\ R m1 R_ISP = S + 4 /\ R m1 R_PCBP = N /\ PSW m1 = handler_psw H
    /\ R m1 R_PC = ldw m (N + 4) /\ R m1 R_SP = ldw m (N + 8)
    /\ (forall i, 0 <= i <= 10 -> R m1 i = R m i)
    /\ ldw m1 S = w32 P /\ ldw m1 P = w32 (saved_psw (PSW m) H)
    /\ ldw m1 (P + 4) = w32 (R m R_PC) /\ ldw m1 (P + 8) = w32 (R m R_SP)
    /\ (forall a, RAMB <= a -> (a < S \/ S + 4 <= a) -> (a < P \/ P + 12 <= a) -> ramb m1 a = ramb m a).
Proof.
  intros W EP ES EH HN0 HN4 HN8 HP0 HP4 HP8 HS Hlt D1 D2 D3 HR HI.
  pose proof HN0 as [n1 [n2 n3]]. pose proof HP0 as [p1 [p2 p3]]. pose proof HS as [s1 [s2 s3]].
  pose proof HN8 as [n81 [n82 n83]]. pose proof HP8 as [p81 [p82 p83]].
  unfold entry_from.
  pose proof (entry0_wf m W) as W0.
  assert (E13 : R (entry0 m) R_PCBP = P) by (rewrite entry0_R by (unfold R_PCBP; lia); exact EP).
  assert (LN : forall k, k = 0 \/ k = 4 \/ k = 8 -> ldw (entry0 m) (N + k) = ldw m (N + k)).
  { intros k Hk. apply entry0_ldw; rewrite ?ES; unfold RAMB in *; lia. }
  assert (LN0 : ldw (entry0 m) N = H) by (replace N with (N + 0) by lia; rewrite LN by lia; rewrite Z.add_0_r; exact EH).
  assert (HR0 : Z.testbit (ldw (entry0 m) N) 8 = false) by (rewrite LN0; exact HR).
  assert (D1' : P + 8 <= N \/ N + 4 <= P + 4) by lia.
  rewrite (cs1_effect_noR N P (entry0 m) W0 E13 HP0 HP4 HP8 HN0 D1' HR0). cbn [bind].
  rewrite LN0, entry0_psw. rewrite !entry0_R by (unfold R_PC, R_SP; lia).
  fold (saved_psw (PSW m) H).
  fold (entry5 (entry0 m) P (saved_psw (PSW m) H) (R m R_PC) (R m R_SP)).
  pose proof (entry5_wf (entry0 m) P (saved_psw (PSW m) H) (R m R_PC) (R m R_SP) W0) as W5.
  assert (L5N : forall k, k = 0 \/ k = 4 \/ k = 8 ->
            ldw (entry5 (entry0 m) P (saved_psw (PSW m) H) (R m R_PC) (R m R_SP)) (N + k) = ldw m (N + k)).
  { intros k Hk. rewrite entry5_ldw_other by (unfold RAMB in *; lia). now apply LN. }
  assert (L5N0 : ldw (entry5 (entry0 m) P (saved_psw (PSW m) H) (R m R_PC) (R m R_SP)) N = H)
    by (replace N with (N + 0) by lia; rewrite L5N by lia; rewrite Z.add_0_r; exact EH).
  rewrite (entry_tail N _ W5 HN0 HN4 HN8) by (rewrite L5N0; assumption).
  rewrite L5N0, !L5N by lia.
  eexists. split; [reflexivity|].
  split; [rewrite !mbus_setR; exact W5|].
  split.
  { unfold R_ISP. rewrite !R_setR_other by lia. rewrite entry5_R by lia. change 14 with R_ISP. rewrite entry0_isp. lia. }
  split; [unfold R_PCBP; rewrite !R_setR_other by lia; apply R_setR_same|].
  split; [unfold PSW, R_PSW; apply R_setR_same|].
  split; [unfold R_PC; rewrite !R_setR_other by lia; apply R_setR_same|].
  split; [unfold R_SP; rewrite !R_setR_other by lia; apply R_setR_same|].
  split; [intros i Hi; rewrite !R_setR_other by lia; rewrite entry5_R by lia; apply entry0_R; lia|].
  rewrite !ldw_setR.
  split.
  { rewrite entry5_ldw_other by (unfold RAMB in *; lia). rewrite <- ES, <- EP. apply entry0_ldw_isp. rewrite ES. exact s1. }
  split; [apply entry5_ldw0; lia|].
  split; [apply entry5_ldw4; lia|].
  split; [apply entry5_ldw8; lia|].
  intros a Ha D4 D5. rewrite !ramb_setR. rewrite entry5_ramb by (unfold RAMB in *; lia).
  apply entry0_ramb; rewrite ?ES; assumption.
Qed.

Lemma exec_callps_kernel ir m : iopcode ir = 12460 -> is_kernel m = true ->
  exec ir m =
  bind (irq_push (R m R_PCBP) m) (fun _ m1 =>
    let m2 := psw_enter_1 (setR m1 R_PC (add32 (R m1 R_PC) 2)) in
    bind (context_switch_1 (R m 0) m2) (fun _ m3 => bind (context_switch_2 (R m 0) m3) (fun _ m4 =>
      bind (context_switch_3 (psw_enter_2 m4)) (fun _ m5 => Ok 0 m5)))).
Proof. intros H K. unfold exec. rewrite H. cbn. rewrite K. reflexivity. Qed.

Lemma callps_is_entry_from ir m :
  iopcode ir = 12460 -> is_kernel m = true ->
  bus_wf (mbus m) -> in_ram_w (R m R_ISP) -> R m R_ISP + 4 < 4294967296 ->
  exec ir m = bind (entry_from (R m 0) (setR m R_PC (add32 (R m R_PC) 2))) (fun _ m5 => Ok 0 m5).
Proof.
  intros Ho K W HS Hlt. rewrite exec_callps_kernel by assumption.
  pose proof HS as [s1 [s2 s3]].
  unfold irq_push. rewrite wr_word_ram by assumption. cbn [bind]. cbv zeta. rewrite R_stw.
  assert (A4 : add32 (R m R_ISP) 4 = R m R_ISP + 4) by (unfold add32, w32; rewrite Z.mod_small; unfold RAMB, RAME in *; lia).
  rewrite A4.
  assert (E : psw_enter_1 (setR (setR (stw m (R m R_ISP) (R m R_PCBP)) R_ISP (R m R_ISP + 4)) R_PC
                (add32 (R (setR (stw m (R m R_ISP) (R m R_PCBP)) R_ISP (R m R_ISP + 4)) R_PC) 2))
              = entry0 (setR m R_PC (add32 (R m R_PC) 2))).
  { unfold psw_enter_1, entry0, psw1, setPSW, PSW. cbv zeta. rconst.
    repeat first [rewrite R_setR_other by lia | rewrite R_stw | rewrite R_setR_same].
    destruct m as [rg bs]. unfold setR, stw, with_regs, with_bus, R. cbn [mregs mbus]. f_equal. }
  rewrite E. unfold entry_from.
  destruct (context_switch_1 (R m 0) (entry0 (setR m R_PC (add32 (R m R_PC) 2)))) as [u m3|e m3| |]; cbn [bind]; auto.
  destruct (context_switch_2 (R m 0) m3) as [u2 m4|e m4| |]; cbn [bind]; auto.
Qed.

(* CALLPS to a control block (kernel level, without R and I) whose code returns at once with RETPS: the caller
   continues after the CALLPS with SP, r0-r10, PCBP, ISP, condition codes, priority and execution level as they were *)
Theorem callps_retps_transparent irc irr m :
  iopcode irc = 12460 -> iopcode irr = 12488 -> is_kernel m = true ->
  bus_wf (mbus m) ->
  let N := R m 0 in
  let P := R m R_PCBP in
  let S := R m R_ISP in
  in_ram_w N -> in_ram_w (N + 4) -> in_ram_w (N + 8) ->
  in_ram_w P -> in_ram_w (P + 4) -> in_ram_w (P + 8) -> in_ram_w S -> S + 4 < 4294967296 ->
  (P + 12 <= N \/ N + 12 <= P) -> (S + 4 <= P \/ P + 12 <= S) -> (S + 4 <= N \/ N + 12 <= S) ->
  let H := ldw m N in
  0 <= H -> Z.testbit H 8 = false -> Z.testbit H 7 = false -> Z.testbit H 11 = false -> Z.testbit H 12 = false ->
  Z.testbit (PSW m) 7 = false ->
  0 <= R m R_SP < 4294967296 ->
  exists m1 m2,
    exec irc m = Ok 0 m1 /\ exec irr m1 = Ok 0 m2
    /\ R m2 R_PC = add32 (R m R_PC) 2 /\ R m2 R_SP = R m R_SP /\ R m2 R_PCBP = P /\ R m2 R_ISP = S
    /\ (forall i, 0 <= i <= 10 -> R m2 i = R m i)
    /\ (forall k, In k [21; 20; 19; 18; 16; 15; 14; 13; 12; 11; 10; 9; 7] -> Z.testbit (PSW m2) k = Z.testbit (PSW m) k)
    /\ (forall a, RAMB <= a -> (a < S \/ S + 4 <= a) -> (a < P \/ P + 12 <= a) -> ramb m2 a = ramb m a).
Proof.
  intros Hc Hr K W N P S HN0 HN4 HN8 HP0 HP4 HP8 HS Hlt D1 D2 D3 H H0 HR HI H11 H12 PI Hsp.
  set (mc := setR m R_PC (add32 (R m R_PC) 2)).
  assert (Wc : bus_wf (mbus mc)) by exact W.
  assert (Rc : forall i, 0 <= i <= 15 -> i <> 15 -> R mc i = R m i)
    by (intros i Hi Ni; unfold mc; apply R_setR_other; unfold R_PC; lia).
  assert (Lc : forall a, ldw mc a = ldw m a) by (intros a; apply ldw_setR).
  assert (Bc : forall a, ramb mc a = ramb m a) by (intros a; apply ramb_setR).
  destruct (entry_from_effect mc N P S H Wc) as [m1 [E1 [W1 [Isp1 [Pcbp1 [Psw1 [Pc1 [Sp1 [Rg1 [LS [LP [LP4 [LP8 Fr]]]]]]]]]]]]];
    try assumption.
  { apply Rc; unfold R_PCBP; lia. } { apply Rc; unfold R_ISP; lia. } { apply Lc. }
  rewrite (callps_is_entry_from irc m Hc K W HS Hlt). fold N. fold mc. rewrite E1. cbn [bind].
  pose proof HP0 as [p1 [p2 p3]]. pose proof HS as [s1 [s2 s3]].
  assert (Pr : 0 <= P < 4294967296) by (unfold RAMB, RAME in *; lia).
  assert (EP : ldw m1 (R m1 R_ISP - 4) = P).
  { rewrite Isp1. replace (S + 4 - 4) with S by lia. rewrite LS. now apply w32_id. }
  assert (PSWc : PSW mc = PSW m) by (unfold PSW; apply Rc; unfold R_PSW; lia).
  destruct (retps_effect irr m1 Hr) as [m2 [E2 [B2 [Isp2 [Pcbp2 [Psw2 [Pc2 [Sp2 Rg2]]]]]]]].
  - eapply handler_psw_kernel; eauto.
  - exact W1.
  - rewrite Isp1. unfold RAMB in *. lia.
  - rewrite Isp1. replace (S + 4 - 4) with S by lia. exact HS.
  - rewrite EP. exact HP0.
  - rewrite EP. exact HP4.
  - rewrite EP. exact HP8.
  - rewrite EP, LP, PSWc. unfold w32. rewrite Z.mod_pow2_bits_low with (n := 32) by lia.
    unfold saved_psw. rewrite Z.lor_spec, testbit_clr32, Z.land_spec, HR. psw_consts. eval_closed_bits.
    now rewrite andb_false_r.
  - rewrite EP, LP, PSWc. unfold w32. rewrite Z.mod_pow2_bits_low with (n := 32) by lia.
    unfold saved_psw, psw1. repeat (rewrite Z.lor_spec || rewrite Z.land_spec || rewrite testbit_clr32).
    rewrite PI. psw_consts. eval_closed_bits. rewrite ?andb_false_r, ?andb_true_r, ?orb_false_r. reflexivity.
  - rewrite EP in *. exists m1, m2.
    split; [reflexivity|]. split; [exact E2|].
    split.
    { rewrite Pc2, LP4. unfold mc. rewrite R_setR_same. unfold add32. unfold w32. now rewrite Z.mod_mod. }
    split; [rewrite Sp2, LP8; rewrite Rc by (unfold R_SP; lia); now apply w32_id|].
    split; [exact Pcbp2|].
    split; [rewrite Isp2, Isp1; lia|].
    split; [intros i Hi; rewrite Rg2 by lia; rewrite Rg1 by lia; apply Rc; lia|].
    split.
    + intros k Hk. rewrite Psw2, LP, PSWc. now apply saved_psw_keeps_bit.
    + intros a Ha Da Db. unfold ramb. rewrite B2. fold (ramb m1 a). rewrite Fr by assumption. apply Bc.
Qed.
