(* Whole-system facts used by C01: what host mouse events can and cannot touch. *)
From Coq Require Import ZArith Lia Bool List.
From Dmd Require Import Model.Bits Model.Types Model.Fifo Model.Mem Model.Mouse Model.Duart Model.Bus.
Open Scope Z_scope.

(* everything in the DUART except the four registers a button event is defined to move *)
Definition duart_rest (d : duart) := (pa d, pb d, acr d, outprt d, imr d, next_vblank d).

Lemma mouse_move_frame x y b :
  let b' := bus_mouse_move x y b in
  rom b' = rom b /\ duart_ b' = duart_ b /\ vid b' = vid b /\ bbram b' = bbram b /\ ram b' = ram b /\ dirty b' = dirty b
  /\ mouse_ b' = mkMouse (w16 x) (w16 y).
Proof. cbv zeta. repeat split. Qed.

Lemma mouse_button_frame bt b :
  (let b' := bus_mouse_down bt b in
   rom b' = rom b /\ mouse_ b' = mouse_ b /\ vid b' = vid b /\ bbram b' = bbram b /\ ram b' = ram b /\ dirty b' = dirty b
   /\ duart_rest (duart_ b') = duart_rest (duart_ b))
  /\ (let b' := bus_mouse_up bt b in
   rom b' = rom b /\ mouse_ b' = mouse_ b /\ vid b' = vid b /\ bbram b' = bbram b /\ ram b' = ram b /\ dirty b' = dirty b
   /\ duart_rest (duart_ b') = duart_rest (duart_ b)).
Proof.
  cbv zeta. unfold bus_mouse_down, bus_mouse_up, mouse_down, mouse_up, duart_rest.
  split; cbn [rom mouse_ vid bbram ram dirty duart_ with_duart];
    repeat match goal with |- context [if ?c then _ else _] => destruct c end; repeat split.
Qed.
