(* The DUART register map of the model against the one translated from /repo/src/duart.rs on every run
   (Gen/GenDuart.v: gd_read_arms, gd_write_arms = the arms of `match (address - START_ADDR) as u8` in read_byte and
   write_byte, each with the channels it names and the interrupt-status bits it clears). *)
From Coq Require Import ZArith Lia Bool List.
From Dmd Require Import Model.Bits Model.Fifo Model.Mem Model.Duart Gen.GenDuart.
From Dmd Require Import Proofs.BitsLemmas Proofs.BitKit Proofs.PortProofs Proofs.DuartProofs Proofs.DeviceRefine.
Import ListNotations.
Open Scope Z_scope.

Local Arguments bset : simpl never.
Local Arguments clr8 : simpl never.
Local Arguments Z.lor : simpl never.
Local Arguments Z.land : simpl never.
Local Arguments delay_rate : simpl never.

Definition arm_offsets (l : list (Z * list Z * Z)) : list Z := map (fun x => fst (fst x)) l.

Ltac eval_arms :=
  match goal with
  | |- context [arm_offsets ?l] =>
    let v := eval vm_compute in (arm_offsets l) in change (arm_offsets l) with v
  end.

(* a register read is answered (not NoDevice) exactly at the offsets the source's read_byte has an arm for *)
Lemma read_decoded off d :
  duart_read_byte off d = RErr BNoDevice <-> ~ In (w8 off) (arm_offsets gd_read_arms).
Proof.
  eval_arms. unfold duart_read_byte. cbv zeta. remember (w8 off) as x eqn:Ex. clear Ex.
  off_cases x;
    repeat match goal with |- context [let (_, _) := ?e in _] => destruct e end;
    (split; [intros H; try discriminate H | intros H]); cbn [In] in *; try (exfalso; apply H; tauto); try reflexivity.
  intros [|[|[|[|[|[|[|[|[|[]]]]]]]]]]; lia.
Qed.

(* a register write at an offset the source's write_byte has no arm for changes nothing *)
Lemma write_undecoded off v d :
  ~ In (w8 off) (arm_offsets gd_write_arms) -> duart_write_byte off v d = d.
Proof.
  eval_arms. unfold duart_write_byte. cbv zeta. remember (w8 off) as x eqn:Ex. clear Ex. intros H.
  off_cases x; cbn [In] in H; try (exfalso; apply H; tauto). reflexivity.
Qed.

Definition chan_no (b : bool) : Z := if b then 1 else 0.

(* an arm acts on a channel's port only if the source arm names that channel (PORT_0 / PORT_1) *)
Lemma read_arm_channel off ports clr b d :
  In (off, ports, clr) gd_read_arms -> chan_op b (DRead off) d <> None -> In (chan_no b) ports.
Proof.
  unfold gd_read_arms. cbn [In]. intros H.
  repeat (destruct H as [H|H]; [inversion H; subst; clear H; destruct b; vm_compute; tauto|]). destruct H.
Qed.

Lemma write_arm_channel off ports clr b v d :
  In (off, ports, clr) gd_write_arms -> chan_op b (DWrite off v) d <> None -> In (chan_no b) ports.
Proof.
  unfold gd_write_arms. cbn [In]. intros H.
  repeat (destruct H as [H|H];
          [inversion H; subst; clear H; destruct b; cbn [chan_op chan_base chan_no]; unfold w8 at 1;
           cbn [Z.modulo Z.div_eucl Z.pos_div_eucl]; intros; cbn [In]; try tauto; try congruence|]).
  destruct H.
Qed.

(* the interrupt-status bits a read arm clears in the source are the ones the model's read clears *)
Lemma read_arm_isr off ports clr d v d' :
  In (off, ports, clr) gd_read_arms -> duart_read_byte off d = ROk (v, d') ->
  isr d' = if clr =? 0 then isr d else clr8 (isr d) clr.
Proof.
  unfold gd_read_arms. cbn [In]. intros H.
  repeat (destruct H as [H|H];
          [inversion H; subst; clear H; unfold duart_read_byte; cbv zeta;
           match goal with |- context [w8 ?n] => let r := eval vm_compute in (w8 n) in change (w8 n) with r end;
           closed_eqb; cbv iota;
           repeat match goal with |- context [let (_, _) := ?e in _] => destruct e end;
           intros E; inversion E; subst; reflexivity|]).
  destruct H.
Qed.

(* ... and the bit a transmit-register write clears (the channel's transmitter-ready interrupt status) likewise *)
Lemma write_arm_isr off ports clr v d :
  In (off, ports, clr) gd_write_arms -> clr <> 0 -> isr (duart_write_byte off v d) = clr8 (isr d) clr.
Proof.
  unfold gd_write_arms. cbn [In]. intros H N.
  repeat (destruct H as [H|H];
          [inversion H; subst; clear H; try (exfalso; apply N; reflexivity);
           unfold duart_write_byte; cbv zeta;
           match goal with |- context [w8 ?n] => closed_z n; let r := eval vm_compute in (w8 n) in change (w8 n) with r end;
           closed_eqb; cbv iota; reflexivity|]).
  destruct H.
Qed.

(* the register offsets and the base address the lifted theorems speak about are the source's constants *)
Lemma register_offsets_are_source_constants :
  chan_base false + 3 = gd_MR12A /\ chan_base false + 7 = gd_CSRA /\ chan_base false + 11 = gd_CRA
  /\ chan_base false + 15 = gd_RHRA /\ chan_base false + 15 = gd_THRA
  /\ chan_base true + 3 = gd_MR12B /\ chan_base true + 7 = gd_CSRB /\ chan_base true + 11 = gd_CRB
  /\ chan_base true + 15 = gd_RHRB /\ chan_base true + 15 = gd_THRB
  /\ gd_PORT_0 = chan_no false /\ gd_PORT_1 = chan_no true.
Proof. vm_compute. repeat split. Qed.

(* every status / configuration / command / interrupt-status / interrupt-vector bit and every command code the model
   and the theorems use is the source's constant of that name *)
Lemma duart_constants_are_source_constants :
  (CNF_ETX, CNF_ERX) = (gd_CNF_ETX, gd_CNF_ERX)
  /\ (STS_RXR, STS_FFL, STS_TXR, STS_TXE, STS_OER, STS_PER, STS_FER, STS_RXB)
     = (gd_STS_RXR, gd_STS_FFL, gd_STS_TXR, gd_STS_TXE, gd_STS_OER, gd_STS_PER, gd_STS_FER, gd_STS_RXB)
  /\ (CMD_ERX, CMD_DRX, CMD_ETX, CMD_DTX) = (gd_CMD_ERX, gd_CMD_DRX, gd_CMD_ETX, gd_CMD_DTX)
  /\ (ISTS_TAI, ISTS_RAI, ISTS_DBA, ISTS_TBI, ISTS_RBI, ISTS_DBB, ISTS_IPC)
     = (gd_ISTS_TAI, gd_ISTS_RAI, gd_ISTS_DBA, gd_ISTS_TBI, gd_ISTS_RBI, gd_ISTS_DBB, gd_ISTS_IPC)
  /\ (KEYBOARD_INT, MOUSE_BLANK_INT, TX_INT, RX_INT) = (gd_KEYBOARD_INT, gd_MOUSE_BLANK_INT, gd_TX_INT, gd_RX_INT)
  /\ (forall c, is_reset_rx c = (Z.land (Z.shiftr c 4) 7 =? gd_CR_RST_RX))
  /\ (forall c, is_reset_tx c = (Z.land (Z.shiftr c 4) 7 =? gd_CR_RST_TX))
  /\ (forall c, is_reset_err c = (Z.land (Z.shiftr c 4) 7 =? gd_CR_RST_ERR))
  /\ (gd_CR_RST_MR, gd_CR_RST_BRK, gd_CR_START_BRK, gd_CR_STOP_BRK) = (1, 5, 6, 7).
Proof. repeat split; reflexivity. Qed.
