(* The opcodes the model's dispatch knows are opcodes the source's dispatch `match` has arms for (the arm patterns
   are translated from cpu.rs on every run into Gen/GenDispatch.v): an instruction whose opcode is in no source arm
   is an illegal opcode in the model, whatever its operands and the machine state. *)
From Coq Require Import ZArith Lia Bool List.
From Dmd Require Import Model.Bits Model.Types Model.Mem Model.Bus Model.Decode Model.Cpu.
From Dmd Require Import Gen.GenOpcodes Gen.GenDispatch.
Open Scope Z_scope.

Definition source_arm_opcodes : list Z := concat g_dispatch_arms.
Definition inb (c : Z) (l : list Z) : bool := existsb (Z.eqb c) l.

Lemma inb_In c l : inb c l = true -> In c l.
Proof. unfold inb. intros H. apply existsb_exists in H. destruct H as [x [Hx E]]. apply Z.eqb_eq in E. now subst. Qed.

Theorem exec_illegal_outside_source_arms ir m :
  ~ In (iopcode ir) source_arm_opcodes -> exec ir m = Err (EExc IllegalOpcode) m.
Proof.
  intros N.
  assert (H : forall c, inb c source_arm_opcodes = true -> (iopcode ir =? c) = false).
  { intros c Hc. apply Z.eqb_neq. intros E. apply N. rewrite E. now apply inb_In. }
  unfold exec. cbv zeta.
  repeat match goal with
         | |- context [iopcode ir =? ?c] => rewrite (H c) by (vm_compute; reflexivity)
         end.
  cbn [orb]. cbv iota.
  unfold g_branch_pred.
  repeat match goal with
         | |- context [iopcode ir =? ?c] => rewrite (H c) by (vm_compute; reflexivity)
         end.
  cbn [orb]. cbv iota. reflexivity.
Qed.

(* the source has arms for 1-byte and 2-byte opcodes only in the architected table: count as a sanity pin *)
Example source_arm_count : (120 <= length source_arm_opcodes <= 200)%nat.
Proof. vm_compute. lia. Qed.
