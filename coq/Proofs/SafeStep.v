(* Safety kit, part 3: the decoder's constants are 32-bit values; decode on the machine; dispatch; step_with_error. *)
From Coq Require Import ZArith Lia Bool List ZifyBool.
From Dmd Require Import Model.Bits Model.Types Model.Fifo Model.Mem Model.Mouse Model.Duart Model.Bus Model.Decode Model.Cpu.
From Dmd Require Import Gen.GenOpcodes Gen.GenDispatch.
From Dmd Require Import Proofs.BitsLemmas Proofs.MemProofs Proofs.BusProofs Proofs.RegKit Proofs.SafeBus Proofs.DecodeProofs Proofs.SafeCpu.
Open Scope Z_scope.

(* ---- the decoder's embedded constants are 32-bit values ---- *)
Section DecodeRange.
Variable St : Type.
Variable f1 f2 f4 : Z -> St -> res St Z.
Variable I : St -> Prop.
Hypothesis R1 : forall off s v s', I s -> 0 <= off -> f1 off s = Ok v s' -> 0 <= v < 256 /\ I s'.
Hypothesis R2 : forall off s v s', I s -> 0 <= off -> f2 off s = Ok v s' -> 0 <= v < 65536 /\ I s'.
Hypothesis R4 : forall off s v s', I s -> 0 <= off -> f4 off s = Ok v s' -> 0 <= v < 4294967296 /\ I s'.

Lemma acc_byte_rng len s v l s' : I s -> 0 <= len -> acc_byte St f1 len s = Ok (v, l) s' -> 0 <= v < 256 /\ I s' /\ l = len + 1.
Proof.
  intros Is Hl. unfold acc_byte. destruct (f1 len s) eqn:E; cbn [bind]; try discriminate.
  destruct (len >=? 32); [discriminate|]. intros H; inversion H; subst. destruct (R1 _ _ _ _ Is Hl E). auto.
Qed.
Lemma acc_half_rng len s v l s' : I s -> 0 <= len -> acc_half St f2 len s = Ok (v, l) s' -> 0 <= v < 65536 /\ I s' /\ l = len + 2.
Proof.
  intros Is Hl. unfold acc_half. destruct (f2 len s) eqn:E; cbn [bind]; try discriminate.
  destruct (len + 1 >=? 32); [discriminate|]. intros H; inversion H; subst. destruct (R2 _ _ _ _ Is Hl E). auto.
Qed.
Lemma acc_word_rng len s v l s' : I s -> 0 <= len -> acc_word St f4 len s = Ok (v, l) s' -> 0 <= v < 4294967296 /\ I s' /\ l = len + 4.
Proof.
  intros Is Hl. unfold acc_word. destruct (f4 len s) eqn:E; cbn [bind]; try discriminate.
  destruct (len + 3 >=? 32); [discriminate|]. intros H; inversion H; subst. destruct (R4 _ _ _ _ Is Hl E). auto.
Qed.

Ltac Zify.zify_post_hook ::= Z.div_mod_to_equations.

(* what an operand decode establishes: 32-bit constant, invariant kept, offset not decreased *)
Definition opd_ok (len : Z) (o : operand) (l : Z) (s' : St) : Prop := W32 (oemb o) /\ I s' /\ len <= l.

Lemma descriptor_emb_rng fuel : forall dt et recur len s o l s', I s -> 0 <= len ->
  decode_descriptor St f1 f2 f4 fuel dt et recur len s = Ok (o, l) s' -> opd_ok len o l s'.
Proof.
  induction fuel as [|fuel IH]; intros dt et recur len s o l s' Is Hl; [discriminate|].
  cbn [decode_descriptor]. cbv zeta.
  destruct (acc_byte St f1 len s) as [[d l1] s1| | |] eqn:Ea; cbn [bind fst snd]; try discriminate.
  destruct (acc_byte_rng _ _ _ _ _ Is Hl Ea) as [Hd [Is1 El1]]. unfold illegal, opd_ok in *.
  assert (Hl1 : 0 <= l1) by lia.
  repeat match goal with
         | |- (if ?c then _ else _) = _ -> _ => destruct c
         | |- match etype_of ?x with Some _ => _ | None => _ end = _ -> _ => destruct (etype_of x)
         end; try discriminate.
  all: try (intros H; injection H as Eo El Es; rewrite <- Eo, <- El, <- Es; cbn [oemb]; unfold W32; repeat split; auto; lia).
  all: try (destruct (acc_word St f4 l1 s1) as [[w l2] s2| | |] eqn:Ew; cbn [bind fst snd]; try discriminate;
       intros H; injection H as Eo El Es; rewrite <- Eo, <- El, <- Es; cbn [oemb fst snd];
       destruct (acc_word_rng _ _ _ _ _ Is1 Hl1 Ew) as [? [? ?]]; unfold W32; repeat split; auto; lia).
  all: try (destruct (acc_half St f2 l1 s1) as [[w l2] s2| | |] eqn:Ew; cbn [bind fst snd]; try discriminate;
       intros H; injection H as Eo El Es; rewrite <- Eo, <- El, <- Es; cbn [oemb fst snd];
       destruct (acc_half_rng _ _ _ _ _ Is1 Hl1 Ew) as [? [? ?]]; unfold W32; repeat split; auto; lia).
  all: try (destruct (acc_byte St f1 l1 s1) as [[w l2] s2| | |] eqn:Ew; cbn [bind fst snd]; try discriminate;
       intros H; injection H as Eo El Es; rewrite <- Eo, <- El, <- Es; cbn [oemb fst snd];
       destruct (acc_byte_rng _ _ _ _ _ Is1 Hl1 Ew) as [? [? ?]]; unfold W32; repeat split; auto; lia).
  all: intros H; pose proof (IH _ _ _ _ _ _ _ _ Is1 Hl1 H) as K; unfold opd_ok in K; destruct K as [K1 [K2 K3]];
       split; [exact K1|]; split; [exact K2|]; lia.
Qed.

Lemma literal_emb_rng dt len s o l s' : I s -> 0 <= len ->
  decode_literal_operand St f1 f2 f4 dt len s = Ok (o, l) s' -> opd_ok len o l s'.
Proof.
  intros Is Hl. unfold decode_literal_operand, illegal, opd_ok. destruct dt; try discriminate.
  - destruct (acc_byte St f1 len s) as [[w l2] s2| | |] eqn:Ew; cbn [bind fst snd]; try discriminate.
    intros H; inversion H; subst; cbn [oemb]. destruct (acc_byte_rng _ _ _ _ _ Is Hl Ew) as [? [? ?]]. unfold W32; repeat split; auto; lia.
  - destruct (acc_half St f2 len s) as [[w l2] s2| | |] eqn:Ew; cbn [bind fst snd]; try discriminate.
    intros H; inversion H; subst; cbn [oemb]. destruct (acc_half_rng _ _ _ _ _ Is Hl Ew) as [? [? ?]]. unfold W32; repeat split; auto; lia.
  - destruct (acc_word St f4 len s) as [[w l2] s2| | |] eqn:Ew; cbn [bind fst snd]; try discriminate.
    intros H; inversion H; subst; cbn [oemb]. destruct (acc_word_rng _ _ _ _ _ Is Hl Ew) as [? [? ?]]. unfold W32; repeat split; auto; lia.
Qed.

Lemma ops_emb_rng mn ots : forall et len s os l s', I s -> 0 <= len ->
  decode_ops St f1 f2 f4 mn ots et len s = Ok (os, l) s' -> forall o, In o os -> W32 (oemb o).
Proof.
  induction ots as [|ot rest IH]; intros et len s os l s' Is Hl H o Ho; cbn [decode_ops] in H.
  - inversion H as [[Eos El]]. rewrite <- Eos in Ho. contradiction.
  - destruct ot.
    1-3: destruct (decode_operand St f1 f2 f4 mn _ et len s) as [[o1 l1] s1| | |] eqn:E1; cbn [bind fst snd] in H; try discriminate;
         destruct (decode_ops St f1 f2 f4 mn rest (oetype o1) l1 s1) as [[r l2] s2| | |] eqn:E2; cbn [bind fst snd] in H; try discriminate;
         inversion H as [[Eos El]]; rewrite <- Eos in Ho; cbn [decode_operand] in E1;
         assert (K : opd_ok len o1 l1 s1) by (first [solve [eapply literal_emb_rng; eauto] | solve [eapply descriptor_emb_rng; eauto]]);
         destruct K as [K1 [K2 K3]]; destruct Ho as [Ho|Ho]; [rewrite <- Ho; exact K1 | eapply (IH _ l1 s1); eauto; lia].
    destruct (decode_ops St f1 f2 f4 mn rest et len s) as [[rr9 l9] s9| | |] eqn:E9; cbn [bind fst snd] in H; try discriminate.
    inversion H as [[Eos El]]. rewrite <- Eos in Ho. destruct Ho as [Ho|Ho]; [rewrite <- Ho; cbn; unfold W32; lia | eapply IH; eauto].
Qed.

Lemma decode_instr_ok s i s' : I s -> decode_instruction St f1 f2 f4 s = Ok i s' -> instr_ok i.
Proof.
  intros Is. unfold decode_instruction, illegal.
  destruct (acc_byte St f1 0 s) as [[b1 l1] s1| | |] eqn:Ea; cbn [bind fst snd]; try discriminate.
  assert (Z0le : 0 <= 0) by lia.
  destruct (acc_byte_rng 0 s b1 l1 s1 Is Z0le Ea) as [Hb1 [Is1 El1]].
  assert (Hl1 : 0 <= l1) by lia.
  destruct (b1 =? 48).
  - destruct (acc_byte St f1 l1 s1) as [[b2 l2] s2| | |] eqn:Eb; cbn [bind fst snd]; try discriminate.
    destruct (acc_byte_rng l1 s1 b2 l2 s2 Is1 Hl1 Eb) as [Hb2 [Is2 El2]].
    assert (Hl2 : 0 <= l2) by lia.
    destruct (lookup_mnemonic b1 (Some b2)) as [mn|]; [|discriminate].
    destruct (decode_ops St f1 f2 f4 mn (mn_ops mn) None l2 s2) as [[os l] s3| | |] eqn:E; cbn [bind fst snd]; try discriminate.
    intros H. injection H as Ei _. rewrite <- Ei. intros k. unfold get_op. cbn [op0 op1 op2 op3].
    assert (A : forall n, W32 (oemb (nth n os operand_clear))).
    { intros n. destruct (nth_in_or_default n os operand_clear) as [Hi|Hd];
        [eapply (ops_emb_rng mn (mn_ops mn) None l2 s2); eauto | rewrite Hd; cbn; unfold W32; lia]. }
    repeat (destruct (k =? _)); apply A.
  - cbn [bind fst snd].
    destruct (lookup_mnemonic b1 None) as [mn|]; [|discriminate].
    destruct (decode_ops St f1 f2 f4 mn (mn_ops mn) None l1 s1) as [[os l] s3| | |] eqn:E; cbn [bind fst snd]; try discriminate.
    intros H. injection H as Ei _. rewrite <- Ei. intros k. unfold get_op. cbn [op0 op1 op2 op3].
    assert (A : forall n, W32 (oemb (nth n os operand_clear))).
    { intros n. destruct (nth_in_or_default n os operand_clear) as [Hi|Hd];
        [eapply (ops_emb_rng mn (mn_ops mn) None l1 s1); eauto | rewrite Hd; cbn; unfold W32; lia]. }
    repeat (destruct (k =? _)); apply A.
Qed.
End DecodeRange.

(* ---- decode on the machine; dispatch; step_with_error ---- *)
Lemma liftb_nofuel {A} (P : A -> Prop) (f : bus -> res bus A) m :
  bsafe (mbus m) P (f (mbus m)) -> liftb f m <> OutOfFuel.
Proof. unfold liftb. destruct (f (mbus m)); cbn; intros; congruence || contradiction. Qed.

Section Step.
Variable m0 : mach.

Lemma fetch1_safe : fetch_safe mach (st m0) fetch1.
Proof.
  intros off m S Ho. unfold fetch1.
  assert (Ha : 0 <= R m R_PC + off) by (pose proof (R_range m0 m R_PC S); unfold W32 in *; lia).
  pose proof (safe_rd_byte m0 m _ S Ha) as K.
  pose proof (liftb_nofuel _ _ m (bus_read_byte_safe (R m R_PC + off) (mbus m) (proj1 (proj1 S)) Ha)) as NF.
  unfold rd_byte in *. destruct (liftb (bus_read_byte (R m R_PC + off)) m); cbn in *; try tauto; try congruence.
  all: try (destruct K as [? [? ?]]; auto).
Qed.
Lemma fetch2_safe : fetch_safe mach (st m0) fetch2.
Proof.
  intros off m S Ho. unfold fetch2.
  assert (Ha : 0 <= R m R_PC + off) by (pose proof (R_range m0 m R_PC S); unfold W32 in *; lia).
  pose proof (bus_read_op_half_safe (R m R_PC + off) (mbus m) (proj1 (proj1 S)) Ha) as B.
  pose proof (safe_liftb m0 m _ _ S B) as K. pose proof (liftb_nofuel _ _ m B) as NF.
  destruct (liftb (bus_read_op_half (R m R_PC + off)) m); cbn in *; try tauto; try congruence.
  all: try (destruct K as [? [? ?]]; auto).
Qed.
Lemma fetch4_safe : fetch_safe mach (st m0) fetch4.
Proof.
  intros off m S Ho. unfold fetch4.
  assert (Ha : 0 <= R m R_PC + off) by (pose proof (R_range m0 m R_PC S); unfold W32 in *; lia).
  pose proof (bus_read_op_word_safe (R m R_PC + off) (mbus m) (proj1 (proj1 S)) Ha) as B.
  pose proof (safe_liftb m0 m _ _ S B) as K. pose proof (liftb_nofuel _ _ m B) as NF.
  destruct (liftb (bus_read_op_word (R m R_PC + off)) m); cbn in *; try tauto; try congruence.
  all: try (destruct K as [? [? ?]]; auto).
Qed.

(* range of what the three fetchers return, whatever the state *)
Lemma fetch1_rng off m v m' : mwf m -> 0 <= R m R_PC + off -> fetch1 off m = Ok v m' -> 0 <= v < 256.
Proof.
  intros W Ha E. pose proof (bus_read_byte_safe (R m R_PC + off) (mbus m) (proj1 W) Ha) as B.
  unfold fetch1, rd_byte, liftb in E. destruct (bus_read_byte (R m R_PC + off) (mbus m)); inversion E; subst. apply B.
Qed.
End Step.

Section Step2.
Variable m0 : mach.

(* the three fetchers as range-returning, invariant-keeping operations *)
Lemma fetch1_R off m v m' : st m0 m -> 0 <= off -> fetch1 off m = Ok v m' -> 0 <= v < 256 /\ st m0 m'.
Proof.
  intros S Ho E. pose proof (fetch1_safe m0 off m S Ho) as K. rewrite E in K. destruct K as [S' _]. split; [|exact S'].
  eapply fetch1_rng; eauto. apply S. pose proof (R_range m0 m R_PC S). unfold W32 in *. lia.
Qed.
Lemma fetch2_R off m v m' : st m0 m -> 0 <= off -> fetch2 off m = Ok v m' -> 0 <= v < 65536 /\ st m0 m'.
Proof.
  intros S Ho E. pose proof (fetch2_safe m0 off m S Ho) as K. rewrite E in K. destruct K as [S' _]. split; [|exact S'].
  assert (Ha : 0 <= R m R_PC + off) by (pose proof (R_range m0 m R_PC S); unfold W32 in *; lia).
  pose proof (bus_read_op_half_safe (R m R_PC + off) (mbus m) (proj1 (proj1 S)) Ha) as B.
  unfold fetch2, liftb in E. destruct (bus_read_op_half (R m R_PC + off) (mbus m)); inversion E; subst. apply B.
Qed.
Lemma fetch4_R off m v m' : st m0 m -> 0 <= off -> fetch4 off m = Ok v m' -> 0 <= v < 4294967296 /\ st m0 m'.
Proof.
  intros S Ho E. pose proof (fetch4_safe m0 off m S Ho) as K. rewrite E in K. destruct K as [S' _]. split; [|exact S'].
  assert (Ha : 0 <= R m R_PC + off) by (pose proof (R_range m0 m R_PC S); unfold W32 in *; lia).
  pose proof (bus_read_op_word_safe (R m R_PC + off) (mbus m) (proj1 (proj1 S)) Ha) as B.
  unfold fetch4, liftb in E. destruct (bus_read_op_word (R m R_PC + off) (mbus m)); inversion E; subst. apply B.
Qed.

(* decoding at the program counter of a well-formed machine: an instruction with 32-bit constants, or an error *)
Lemma decode_safe m : st m0 m ->
  match decode m with
  | Ok i m' => st m0 m' /\ instr_ok i /\ 1 <= ilen i <= 26
  | Err _ m' => st m0 m'
  | _ => False
  end.
Proof.
  intros S. unfold decode.
  pose proof (decode_instruction_good mach fetch1 fetch2 fetch4 (st m0) (fetch1_safe m0) (fetch2_safe m0) (fetch4_safe m0)) as G.
  assert (Rg : forall off s, st m0 s -> 0 <= off -> match fetch1 off s with Ok v _ => 0 <= v < 256 | _ => True end).
  { intros off s Ss Ho. destruct (fetch1 off s) eqn:E; auto. eapply fetch1_R; eauto. }
  specialize (G Rg m S).
  destruct (decode_instruction mach fetch1 fetch2 fetch4 m) as [i m'|e m'| |] eqn:E; cbn in G; auto.
  destruct G as [Hl Sm]. split; [exact Sm|]. split; [|exact Hl].
  refine (decode_instr_ok mach fetch1 fetch2 fetch4 (st m0) _ _ _ m i m' S E); intros.
  - eapply fetch1_R; eauto.
  - eapply fetch2_R; eauto.
  - eapply fetch4_R; eauto.
Qed.

Lemma st_with_bus m b : st m0 m -> bwf b -> rom b = rom (mbus m) -> st m0 (with_bus m b).
Proof. intros [[Wb Wr] Hr] Hb He. split; [split|]; cbn; auto. congruence. Qed.

(* one step through the error-returning interface, from ANY well-formed machine, at any time: completes, or returns
   an error, with the machine still well formed and ROM untouched; it never panics *)
Lemma dispatch_safe now m : st m0 m -> safe m0 (fun _ => True) (dispatch now m).
Proof.
  intros S. unfold dispatch.
  destruct (bus_service_bwf now (mbus m) (proj1 (proj1 S))) as [W1 R1].
  pose proof (bus_get_interrupts_bwf now (bus_service now (mbus m)) W1) as [W2 R2].
  destruct (bus_get_interrupts now (bus_service now (mbus m))) as [o b] eqn:Eg. cbn [snd] in *.
  assert (S1 : st m0 (with_bus m b)) by (apply st_with_bus; auto; congruence).
  eapply safe_bind with (P := fun _ => True).
  - destruct o as [val|]; [|apply safe_ok; auto].
    destruct (_ <? _); [|apply safe_ok; auto].
    apply safe_on_interrupt; auto. apply Z.land_nonneg. right. lia.
  - intros _ m1 S2 _.
    pose proof (decode_safe m1 S2) as D. destruct (decode m1) as [i m2|e m2| |]; cbn [bind]; try contradiction.
    + destruct D as [S3 [Iok _]]. apply exec_safe; auto.
    + apply safe_err; auto.
Qed.

Lemma step_with_error_safe now m : st m0 m -> safe m0 (fun _ => True) (step_with_error now m).
Proof.
  intros S. unfold step_with_error. eapply safe_bind; [apply dispatch_safe; auto|].
  intros i m1 S1 _. apply safe_ok; auto. apply st_setR; auto. apply w32_W32.
Qed.
End Step2.

(* headline: from every well-formed machine state step_with_error never panics, keeps the state well formed
   (so the theorem applies again at the next step) and never changes a ROM byte *)
Theorem step_with_error_never_panics now m :
  mwf m ->
  match step_with_error now m with
  | Ok _ m' | Err _ m' => mwf m' /\ rom (mbus m') = rom (mbus m)
  | Panic => False
  | OutOfFuel => False
  end.
Proof.
  intros W. pose proof (step_with_error_safe m now m (st_refl m W)) as K.
  destruct (step_with_error now m); cbn in K; auto; destruct K as [[? ?] ?] || destruct K; auto.
Qed.

Lemma mwf_new now : mwf (mach_new now).
Proof.
  split; [apply bwf_new|]. unfold mach_new, regs_zero, regs_ok, W32. cbn. repeat split; lia.
Qed.

(* any number of steps at any times, continuing after errors as a host would: no step ever panics and ROM is the
   same at every instruction boundary *)
Inductive trace_end := TGood (m : mach) | TFuel | TPanic.
Fixpoint run_steps_err (nows : list Z) (m : mach) : trace_end :=
  match nows with
  | [] => TGood m
  | now :: t => match step_with_error now m with
                | Ok _ m' | Err _ m' => run_steps_err t m'
                | Panic => TPanic
                | OutOfFuel => TFuel
                end
  end.

Theorem all_steps_never_panic nows : forall m, mwf m ->
  match run_steps_err nows m with
  | TGood m' => mwf m' /\ rom (mbus m') = rom (mbus m)
  | TFuel => False
  | TPanic => False
  end.
Proof.
  induction nows as [|now t IH]; intros m W; cbn [run_steps_err].
  - auto.
  - pose proof (step_with_error_never_panics now m W) as K.
    destruct (step_with_error now m) as [u m'|e m'| |]; auto; destruct K as [W' R'];
      pose proof (IH m' W') as K2; destruct (run_steps_err t m'); auto; destruct K2; split; auto; congruence.
Qed.
