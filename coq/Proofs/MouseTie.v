(* Duart::mouse_down / mouse_up of the model against their statement-by-statement translation from /repo/src/duart.rs
   (Gen/GenMouse.v, regenerated on every run). *)
From Coq Require Import ZArith Bool.
From Dmd Require Import Model.Bits Model.Fifo Model.Mem Model.Duart Gen.GenDuart Gen.GenMouse.
Open Scope Z_scope.

(* Duart::mouse_down and Duart::mouse_up, translated statement by statement from the source (Gen/GenMouse.v), are the
   model's functions *)
Lemma mouse_down_is_source d b : mouse_down d b = g_mouse_down d b.
Proof.
  unfold mouse_down, g_mouse_down, isr_set, ivec_set, gd_ISTS_IPC, gd_MOUSE_BLANK_INT, ISTS_IPC, MOUSE_BLANK_INT. cbv zeta.
  destruct (b =? 0), (b =? 1), (b =? 2); reflexivity.
Qed.
Lemma mouse_up_is_source d b : mouse_up d b = g_mouse_up d b.
Proof.
  unfold mouse_up, g_mouse_up, isr_set, ivec_set, gd_ISTS_IPC, gd_MOUSE_BLANK_INT, ISTS_IPC, MOUSE_BLANK_INT. cbv zeta.
  destruct (b =? 0), (b =? 1), (b =? 2); reflexivity.
Qed.
