(* The condition-code helpers of the model (setf / flag at F_C, F_V, F_Z, F_N) against the bodies of
   Cpu::set_{c,v,z,n}_flag and Cpu::{c,v,z,n}_flag translated from /repo/src/cpu.rs on every run (Gen/GenFlags.v). *)
From Coq Require Import ZArith Lia Bool.
From Dmd Require Import Model.Bits Model.Types Model.Cpu Gen.GenConsts Gen.GenFlags.
From Dmd Require Import Proofs.BitsLemmas Proofs.BitKit.
Open Scope Z_scope.

Lemma setters_are_source m b :
  set_c b m = g_set_c_flag m b /\ set_v b m = g_set_v_flag m b /\ set_z b m = g_set_z_flag m b /\ set_n b m = g_set_n_flag m b.
Proof.
  unfold set_c, set_v, set_z, set_n, setf, setPSW, PSW, g_set_c_flag, g_set_v_flag, g_set_z_flag, g_set_n_flag.
  destruct b; repeat apply conj; reflexivity.
Qed.

Lemma land_pow2_val x k : 0 <= k -> Z.land x (2 ^ k) = if Z.testbit x k then 2 ^ k else 0.
Proof.
  intros Hk. apply Z.bits_inj'. intros n Hn. rewrite Z.land_spec, Z.pow2_bits_eqb by exact Hk.
  destruct (Z.eqb_spec k n) as [->|Ne].
  - destruct (Z.testbit x n); [rewrite Z.pow2_bits_true by exact Hn; reflexivity | rewrite Z.bits_0; reflexivity].
  - rewrite andb_false_r. destruct (Z.testbit x k); [rewrite Z.pow2_bits_false by lia; reflexivity | rewrite Z.bits_0; reflexivity].
Qed.

Lemma shifted_bit x k : 0 <= k -> (Z.shiftr (Z.land x (2 ^ k)) k =? 1) = Z.testbit x k.
Proof.
  intros Hk. rewrite land_pow2_val by exact Hk.
  destruct (Z.testbit x k).
  - rewrite Z.shiftr_div_pow2 by exact Hk. rewrite Z.div_same by (apply Z.pow_nonzero; lia). reflexivity.
  - rewrite Z.shiftr_0_l. reflexivity.
Qed.

Lemma getters_are_source m :
  flag F_C m = g_c_flag m /\ flag F_V m = g_v_flag m /\ flag F_Z m = g_z_flag m /\ flag F_N m = g_n_flag m.
Proof.
  unfold flag, PSW, g_c_flag, g_v_flag, g_z_flag, g_n_flag.
  change g_R_PSW with R_PSW.
  change F_C with (2 ^ 18). change g_F_C with (2 ^ 18). change F_V with (2 ^ 19). change g_F_V with (2 ^ 19).
  change F_Z with (2 ^ 20). change g_F_Z with (2 ^ 20). change F_N with (2 ^ 21). change g_F_N with (2 ^ 21).
  rewrite !bset_pow2 by lia. rewrite !shifted_bit by lia. repeat apply conj; reflexivity.
Qed.
