(* Port-level invariants and the receive/transmit conservation laws (C08, C09, C14). *)
From Coq Require Import ZArith Lia Bool List.
From Dmd Require Import Model.Bits Model.Fifo Model.Mem Model.Duart.
From Dmd Require Import Proofs.BitsLemmas Proofs.BitKit Proofs.FifoProofs.
Open Scope Z_scope.

Section PortProofs.
Context {A : Type}.
Variable dflt : A.
Variable is02 : A -> bool.

Notation port := (port A).
Local Arguments fifo_push : simpl never.
Local Arguments fifo_pop : simpl never.
Local Arguments fifo_full : simpl never.
Local Arguments fifo_empty : simpl never.
Local Arguments fifo_contents : simpl never.
Local Arguments fifo_clear : simpl never.
Local Arguments bset : simpl never.
Local Arguments clr8 : simpl never.
Local Arguments Z.lor : simpl never.
Local Arguments Z.land : simpl never.
Local Arguments Z.add : simpl never.
Local Arguments Z.ltb : simpl never.
Local Arguments Z.geb : simpl never.
Local Arguments Z.eqb : simpl never.

Record PInv (p : port) : Prop := {
  inv_fifo : fifo_wf (rx_fifo p);
  inv_rxr : bset (stat p) STS_RXR = true -> 0 < flen (rx_fifo p) /\ rx_enabled p = true;
  inv_shift : rx_shift p <> None -> flen (rx_fifo p) = 3;
  inv_txr : bset (stat p) STS_TXR = true -> tx_hold p = None }.

Lemma pinv_new now : PInv (port_new dflt now).
Proof.
  constructor; cbn.
  - apply fifo_new_wf.
  - discriminate.
  - congruence.
  - reflexivity.
Qed.

(* changing only the status register *)
Lemma pinv_with_stat p s :
  PInv p ->
  (bset s STS_RXR = true -> bset (stat p) STS_RXR = true \/ (0 < flen (rx_fifo p) /\ rx_enabled p = true)) ->
  (bset s STS_TXR = true -> bset (stat p) STS_TXR = true \/ tx_hold p = None) ->
  PInv (with_stat p s).
Proof.
  intros [F Rx Sh Tx] H1 H2. constructor; cbn [with_stat rx_fifo stat rx_shift tx_hold conf rx_enabled]; auto.
  - intros Hs. destruct (H1 Hs) as [Hr|Hr]; auto.
  - intros Hs. destruct (H2 Hs) as [Hr|Hr]; auto.
Qed.

Lemma pinv_stat_clr p m : PInv p -> PInv (stat_clr p m).
Proof.
  intros I. unfold stat_clr. apply pinv_with_stat; auto; intros H; left; unfold STS_RXR, STS_TXR in *; bits.
Qed.

(* setting bits other than RxRDY / TxRDY *)
Lemma pinv_stat_set_other p m :
  PInv p -> bset m STS_RXR = false -> bset m STS_TXR = false -> PInv (stat_set p m).
Proof.
  intros I M1 M2. unfold stat_set. apply pinv_with_stat; auto; intros H; left; unfold STS_RXR, STS_TXR in *; bits.
Qed.

Lemma pinv_set_rxr p :
  PInv p -> 0 < flen (rx_fifo p) -> rx_enabled p = true -> PInv (stat_set p STS_RXR).
Proof.
  intros I H1 H2. unfold stat_set. apply pinv_with_stat; auto.
  intros H; left; unfold STS_RXR, STS_TXR in *; bits.
Qed.

Lemma pinv_set_txr p : PInv p -> tx_hold p = None -> PInv (stat_set p STS_TXR).
Proof.
  intros I H1. unfold stat_set. apply pinv_with_stat; auto.
  intros H; left; unfold STS_RXR, STS_TXR in *; bits.
Qed.

Lemma pinv_set_txe p : PInv p -> PInv (stat_set p STS_TXE).
Proof. intros I. apply pinv_stat_set_other; auto. Qed.

(* fields that do not occur in the invariant *)
Lemma pinv_with_rxq p l : PInv p -> PInv (with_rxq p l).
Proof. intros [F Rx Sh Tx]. constructor; auto. Qed.
Lemma pinv_with_txq p l : PInv p -> PInv (with_txq p l).
Proof. intros [F Rx Sh Tx]. constructor; auto. Qed.
Lemma pinv_with_next_rx p v : PInv p -> PInv (with_next_rx p v).
Proof. intros [F Rx Sh Tx]. constructor; auto. Qed.
Lemma pinv_with_next_tx p v : PInv p -> PInv (with_next_tx p v).
Proof. intros [F Rx Sh Tx]. constructor; auto. Qed.
Lemma pinv_with_char_delay p v : PInv p -> PInv (with_char_delay p v).
Proof. intros [F Rx Sh Tx]. constructor; auto. Qed.
Lemma pinv_with_mode_ptr p v : PInv p -> PInv (with_mode_ptr p v).
Proof. intros [F Rx Sh Tx]. constructor; auto. Qed.
Lemma pinv_with_mode p i v : PInv p -> PInv (with_mode p i v).
Proof. intros [F Rx Sh Tx]. unfold with_mode. destruct (i =? 0); constructor; auto. Qed.
Lemma pinv_with_tx_shift p v : PInv p -> PInv (with_tx_shift p v).
Proof. intros [F Rx Sh Tx]. constructor; auto. Qed.

(* the receive pipeline in arrival order: FIFO, then the holding register, then the host queue *)
Definition olist (o : option A) : list A := match o with Some c => [c] | None => [] end.
Definition rx_held (p : port) : list A := fifo_contents (rx_fifo p) ++ olist (rx_shift p).
Definition rx_pipe (p : port) : list A := rx_held p ++ rxq p.

(* ---- rx_char ---- *)
Lemma rx_char_spec p c :
  PInv p -> rx_enabled p = true ->
  PInv (rx_char p c)
  /\ bset (stat (rx_char p c)) STS_RXR = true
  /\ rxq (rx_char p c) = rxq p /\ conf (rx_char p c) = conf p /\ mode1 (rx_char p c) = mode1 p
  /\ tx_hold (rx_char p c) = tx_hold p /\ tx_shift (rx_char p c) = tx_shift p /\ txq (rx_char p c) = txq p
  /\ ((rx_shift p = None \/ flen (rx_fifo p) < 3) /\ rx_held (rx_char p c) = rx_held p ++ [c]
      \/ (exists old, rx_shift p = Some old /\ flen (rx_fifo p) = 3
                      /\ rx_held (rx_char p c) = fifo_contents (rx_fifo p) ++ [c]
                      /\ bset (stat (rx_char p c)) STS_OER = true)).
Proof.
  intros I En. pose proof I as [F Rx Sh Tx]. unfold rx_char.
  destruct (fifo_full (rx_fifo p)) eqn:Full; cbn [negb].
  - (* FIFO full: the byte goes to the holding register *)
    apply fifo_full_spec in Full.
    set (p0 := if is_some (rx_shift p) then stat_set p STS_OER else p).
    assert (I0 : PInv p0) by (unfold p0; destruct (is_some _); [apply pinv_stat_set_other|]; auto).
    assert (E0 : rx_fifo p0 = rx_fifo p /\ rxq p0 = rxq p /\ conf p0 = conf p /\ mode1 p0 = mode1 p
                 /\ tx_hold p0 = tx_hold p /\ tx_shift p0 = tx_shift p /\ txq p0 = txq p /\ rx_shift p0 = rx_shift p)
      by (unfold p0; destruct (is_some _); cbn; auto 10).
    destruct E0 as (Ef & Eq & Ec & Em & Eh & Es & Et & Esh).
    assert (Eoer : forall old, rx_shift p = Some old -> bset (stat p0) STS_OER = true).
    { intros old Ho. unfold p0. rewrite Ho. cbn. unfold STS_OER. bits. }
    clearbody p0.
    set (p1 := with_rx_shift p0 (Some c)).
    assert (I1 : PInv p1).
    { destruct I0 as [F0 Rx0 Sh0 Tx0]. constructor; cbn; auto. intros _. now rewrite Ef. }
    assert (I2 : PInv (stat_set p1 STS_RXR)).
    { apply pinv_set_rxr; auto; cbn; [rewrite Ef; lia|]. unfold rx_enabled in *; cbn. now rewrite Ec. }
    split; [exact I2|]. split; [cbn; unfold STS_RXR; bits|].
    cbn [stat_set with_stat with_rx_shift rxq conf mode1 tx_hold tx_shift txq p1].
    repeat (split; [assumption|]).
    destruct (rx_shift p) as [old|] eqn:Eo.
    + right. exists old. repeat split; auto.
      * unfold rx_held; cbn. now rewrite Ef.
      * pose proof (Eoer old eq_refl) as Ho. cbn. unfold STS_OER, STS_RXR in *. bits.
    + left. split; [auto|]. unfold rx_held; cbn. rewrite Ef, Eo. cbn. now rewrite app_nil_r.
  - (* room in the FIFO *)
    assert (Hl : flen (rx_fifo p) < 3).
    { destruct F as [Hl _]. destruct (Z.eq_dec (flen (rx_fifo p)) 3) as [E|E]; [|lia].
      apply fifo_full_spec in E. congruence. }
    destruct (fifo_push_spec (rx_fifo p) c F Hl) as (q' & Ep & Fq & Lq & Cq). rewrite Ep.
    assert (Shn : rx_shift p = None).
    { destruct (rx_shift p) eqn:E; [|reflexivity]. assert (flen (rx_fifo p) = 3) by (apply Sh; congruence). lia. }
    set (p0 := with_fifo p q').
    assert (I0 : PInv p0).
    { constructor; cbn; auto. - intros H. destruct (Rx H). split; [lia|assumption]. - intros H. congruence. }
    assert (E0 : rx_fifo p0 = q' /\ rxq p0 = rxq p /\ conf p0 = conf p /\ mode1 p0 = mode1 p
                 /\ tx_hold p0 = tx_hold p /\ tx_shift p0 = tx_shift p /\ txq p0 = txq p /\ rx_shift p0 = rx_shift p)
      by (cbn; auto 10).
    clearbody p0.
    set (p1 := if fifo_full (rx_fifo p0) then stat_set p0 STS_FFL else p0).
    assert (I1 : PInv p1) by (unfold p1; destruct (fifo_full (rx_fifo p0)); [apply pinv_stat_set_other|]; auto).
    assert (E1 : rx_fifo p1 = q' /\ rxq p1 = rxq p /\ conf p1 = conf p /\ mode1 p1 = mode1 p
                 /\ tx_hold p1 = tx_hold p /\ tx_shift p1 = tx_shift p /\ txq p1 = txq p /\ rx_shift p1 = rx_shift p)
      by (unfold p1; destruct (fifo_full (rx_fifo p0)); cbn; exact E0).
    destruct E1 as (Ef & Eq & Ec & Em & Eh & Es & Et & Esh). clearbody p1.
    pose proof F as (Fl & _).
    assert (I2 : PInv (stat_set p1 STS_RXR)).
    { apply pinv_set_rxr; auto; [rewrite Ef; lia|]. unfold rx_enabled in *. now rewrite Ec. }
    split; [exact I2|]. split; [cbn; unfold STS_RXR; bits|].
    cbn [stat_set with_stat rxq conf mode1 tx_hold tx_shift txq].
    repeat (split; [assumption|]).
    left. split; [auto|]. unfold rx_held. cbn [stat_set with_stat rx_fifo rx_shift]. rewrite Ef, Esh, Cq, Shn.
    cbn. now rewrite !app_nil_r.
Qed.

(* ---- rx_read_char ---- *)
Lemma rx_read_char_spec p :
  PInv p ->
  let o := fst (rx_read_char p) in
  let p' := snd (rx_read_char p) in
  PInv p'
  /\ rxq p' = rxq p /\ conf p' = conf p /\ mode1 p' = mode1 p
  /\ tx_hold p' = tx_hold p /\ tx_shift p' = tx_shift p /\ txq p' = txq p
  /\ bset (stat p') STS_TXR = bset (stat p) STS_TXR
  /\ bset (stat p') STS_OER = bset (stat p) STS_OER
  /\ match o with
     | Some v => rx_held p = v :: rx_held p'
     | None => rx_held p' = rx_held p
     end
  /\ (bset (stat p) STS_RXR = true -> o <> None)
  /\ (rx_held p' = [] -> o <> None -> bset (stat p') STS_RXR = false).
Proof.
  intros I. pose proof I as [F Rx Sh Tx].
  destruct p as [m0 m1 mp st cf ff sh th ts rq tq cd nt nr].
  cbn [rx_fifo stat rx_shift tx_hold conf rx_enabled] in *.
  unfold rx_read_char, rx_enabled. cbn [conf rx_fifo].
  destruct (bset cf CNF_ERX) eqn:En; cbn [negb fst snd].
  2:{ split; [exact I|]. repeat (split; [reflexivity|]). split.
      - intros H. destruct (Rx H) as [_ H']. unfold rx_enabled in H'. cbn in H'. congruence.
      - intros _ H. congruence. }
  pose proof F as (Fl & _).
  destruct (Z.eq_dec (flen ff) 0) as [E0|E0].
  - (* empty FIFO *)
    rewrite (fifo_pop_empty ff E0). cbn [fst snd].
    split; [apply (pinv_stat_clr _ _ I)|].
    cbn.
    repeat (split; [reflexivity|]).
    split; [unfold STS_TXR, STS_PER, STS_RXB; bits|].
    split; [unfold STS_OER, STS_PER, STS_RXB; bits|].
    split; [reflexivity|].
    split; [intros H; destruct (Rx H); lia | intros _ H; congruence].
  - destruct (fifo_pop_spec ff F ltac:(lia)) as (v & q' & Ep & Fq & Lq & Cq). rewrite Ep.
    destruct sh as [c|].
    + (* the held byte moves into the FIFO *)
      assert (L3 : flen ff = 3) by (apply Sh; congruence).
      destruct (fifo_push_spec q' c Fq ltac:(lia)) as (q2 & Ep2 & Fq2 & Lq2 & Cq2).
      assert (Ef : fifo_full q2 = true) by (apply fifo_full_spec; lia).
      assert (Ee : fifo_empty q2 = false).
      { destruct (fifo_empty q2) eqn:E; [|reflexivity]. apply fifo_empty_spec in E. lia. }
      cbn. rewrite Ep2. cbn. rewrite Ef. cbn. rewrite Ee. cbn.
      split.
      { constructor; cbn; auto; try congruence.
          all: try (intros _; split; [lia | exact En]).
          all: try (intros H; exfalso; unfold STS_RXR, STS_FFL, STS_PER, STS_RXB in *; bits; fail).
          all: try (intros H; apply Tx; unfold STS_TXR, STS_RXR, STS_FFL, STS_PER, STS_RXB in *; bits). }
      repeat (split; [reflexivity|]).
      split; [unfold STS_TXR, STS_RXR, STS_FFL, STS_PER, STS_RXB; bits|].
      split; [unfold STS_OER, STS_RXR, STS_FFL, STS_PER, STS_RXB; bits|].
      split; [unfold rx_held; cbn; rewrite Cq, Cq2, app_nil_r; reflexivity|].
      split; [congruence|].
      unfold rx_held; cbn. rewrite Cq2, app_nil_r. intros H.
      apply (f_equal (@length A)) in H. rewrite app_length in H. cbn in H. lia.
    + cbn.
      destruct (fifo_empty q') eqn:Ee; cbn.
      * apply fifo_empty_spec in Ee.
        split.
        { constructor; cbn; auto; try congruence.
          all: try (intros _; split; [lia | exact En]).
          all: try (intros H; exfalso; unfold STS_RXR, STS_FFL, STS_PER, STS_RXB in *; bits; fail).
          all: try (intros H; apply Tx; unfold STS_TXR, STS_RXR, STS_FFL, STS_PER, STS_RXB in *; bits). }
        repeat (split; [reflexivity|]).
        split; [unfold STS_TXR, STS_RXR, STS_FFL, STS_PER, STS_RXB; bits|].
        split; [unfold STS_OER, STS_RXR, STS_FFL, STS_PER, STS_RXB; bits|].
        split; [unfold rx_held; cbn; rewrite Cq, !app_nil_r; reflexivity|].
        split; [congruence|]. intros _ _. unfold STS_RXR, STS_FFL, STS_PER, STS_RXB. bits.
      * assert (Lp : 0 < flen q').
        { destruct Fq as (Fl' & _). destruct (Z.eq_dec (flen q') 0) as [E|E]; [|lia].
          apply fifo_empty_spec in E. congruence. }
        split.
        { constructor; cbn; auto; try congruence.
          all: try (intros _; split; [lia | exact En]).
          all: try (intros H; exfalso; unfold STS_RXR, STS_FFL, STS_PER, STS_RXB in *; bits; fail).
          all: try (intros H; apply Tx; unfold STS_TXR, STS_RXR, STS_FFL, STS_PER, STS_RXB in *; bits). }
        repeat (split; [reflexivity|]).
        split; [unfold STS_TXR, STS_RXR, STS_FFL, STS_PER, STS_RXB; bits|].
        split; [unfold STS_OER, STS_RXR, STS_FFL, STS_PER, STS_RXB; bits|].
        split; [unfold rx_held; cbn; rewrite Cq, !app_nil_r; reflexivity|].
        split; [congruence|].
        unfold rx_held; cbn. rewrite app_nil_r. intros H.
        pose proof (fifo_contents_length q' Fq) as HL. rewrite H in HL. cbn in HL. lia.
Qed.

(* ---- rx_service (receiver not in loop-back) ---- *)
Lemma rx_service_spec now p :
  PInv p -> loopback p = false ->
  let p' := rx_service now p in
  PInv p'
  /\ conf p' = conf p /\ mode1 p' = mode1 p
  /\ tx_hold p' = tx_hold p /\ tx_shift p' = tx_shift p /\ txq p' = txq p
  /\ bset (stat p') STS_TXR = bset (stat p) STS_TXR
  /\ (bset (stat p) STS_OER = true -> bset (stat p') STS_OER = true)
  /\ (rx_pipe p' = rx_pipe p
      \/ exists old c rest, rx_shift p = Some old /\ rxq p = c :: rest
                            /\ rx_pipe p' = fifo_contents (rx_fifo p) ++ c :: rest
                            /\ bset (stat p') STS_OER = true)
  /\ (rxq p' <> rxq p -> now >= next_rx p /\ next_rx p' = now + char_delay p /\ rx_enabled p = true)
  /\ (rx_enabled p = true -> rxq p <> [] -> now >= next_rx p ->
      exists c rest, rxq p = c :: rest /\ rxq p' = rest /\ bset (stat p') STS_RXR = true).
Proof.
  intros I Lb. unfold rx_service. rewrite Lb. cbn [negb].
  destruct (rx_enabled p) eqn:En; cbn [andb negb].
  2:{ split; [exact I|]. repeat (split; [reflexivity|]). split; [auto|]. split; [left; reflexivity|].
      split; [congruence | intros H; congruence]. }
  destruct (rxq p) as [|c rest] eqn:Eq; cbn [andb negb].
  { split; [exact I|]. repeat (split; [reflexivity|]). split; [auto|]. split; [left; reflexivity|].
    split; [congruence | intros _ H; congruence]. }
  destruct (now >=? next_rx p) eqn:Due; cbn [negb].
  2:{ split; [exact I|]. repeat (split; [reflexivity|]). split; [auto|]. split; [left; reflexivity|].
      split; [congruence|]. intros _ _ H. assert (now >=? next_rx p = true) by (apply Z.geb_le; lia). congruence. }
  set (p0 := with_rxq p rest).
  assert (I0 : PInv p0) by (apply pinv_with_rxq; exact I).
  assert (En0 : rx_enabled p0 = true) by exact En.
  destruct (rx_char_spec p0 c I0 En0) as (I1 & Rdy & Q1 & C1 & M1 & H1 & S1 & T1 & Cases).
  cbn [with_next_rx conf mode1 tx_hold tx_shift txq stat rxq next_rx char_delay].
  split; [apply pinv_with_next_rx; exact I1|].
  rewrite C1, M1, H1, S1, T1. repeat (split; [reflexivity|]).
  assert (Stx : bset (stat (rx_char p0 c)) STS_TXR = bset (stat p) STS_TXR).
  { unfold rx_char, p0. cbn. repeat match goal with |- context [if ?b then _ else _] => destruct b end;
      try destruct (fifo_push _ _); cbn; unfold STS_TXR, STS_RXR, STS_FFL, STS_OER; bits. }
  assert (Soer : bset (stat p) STS_OER = true -> bset (stat (rx_char p0 c)) STS_OER = true).
  { unfold rx_char, p0. cbn. repeat match goal with |- context [if ?b then _ else _] => destruct b end;
      try destruct (fifo_push _ _); cbn; unfold STS_TXR, STS_RXR, STS_FFL, STS_OER; intros H; bits. }
  split; [exact Stx|]. split; [exact Soer|].
  split.
  { unfold rx_pipe. cbn [with_next_rx rxq]. rewrite Q1. cbn [p0 with_rxq rxq].
    destruct Cases as [[_ Hh]|(old & Ho & Lf & Hh & Ov)].
    - left. unfold rx_held in *. cbn [with_next_rx rx_fifo rx_shift] in *. rewrite Hh. cbn [p0 with_rxq rx_fifo rx_shift].
      rewrite Eq, <- !app_assoc. reflexivity.
    - right. exists old, c, rest. repeat split; auto.
      unfold rx_held in *. cbn [with_next_rx rx_fifo rx_shift] in *. rewrite Hh. cbn [p0 with_rxq rx_fifo].
      rewrite <- app_assoc. reflexivity. }
  split.
  { intros _. split; [apply Z.geb_le in Due; lia|]. split; [|reflexivity].
    unfold rx_char, p0. cbn. repeat match goal with |- context [if ?b then _ else _] => destruct b end;
      try destruct (fifo_push _ _); reflexivity. }
  intros _ _ _. exists c, rest. split; [reflexivity|]. split; [cbn [with_next_rx rxq]; rewrite Q1; reflexivity|]. exact Rdy.
Qed.

(* the transmit pipeline in the order bytes will reach the host *)
Definition tx_pipe (p : port) : list A := txq p ++ olist (tx_shift p) ++ olist (tx_hold p).

Ltac stat_bits := unfold STS_RXR, STS_FFL, STS_TXR, STS_TXE, STS_OER, STS_PER, STS_FER, STS_RXB in *; bits.

(* ---- tx_service, transmitter not in loop-back: the receive side is untouched, the transmit pipeline is conserved ---- *)
Lemma tx_service_spec now kbd p :
  PInv p -> loopback p = false ->
  let p' := tx_service is02 now kbd p in
  PInv p'
  /\ conf p' = conf p /\ mode1 p' = mode1 p
  /\ rx_fifo p' = rx_fifo p /\ rx_shift p' = rx_shift p /\ rxq p' = rxq p /\ next_rx p' = next_rx p
  /\ char_delay p' = char_delay p
  /\ bset (stat p') STS_RXR = bset (stat p) STS_RXR
  /\ bset (stat p') STS_OER = bset (stat p) STS_OER
  /\ tx_pipe p' = tx_pipe p
  /\ (bset (stat p) STS_TXR = true -> bset (stat p') STS_TXR = true).
Proof.
  intros I Lb. pose proof I as [F Rx Sh Tx].
  destruct p as [m0 m1 mp st cf ff sh th ts rq tq cd nt nr].
  unfold tx_service, tx_pipe. rewrite Lb. cbn in *.
  destruct th as [h|]; destruct ts as [s|]; cbn.
  all: destruct (now >=? nt) eqn:Due; cbn.
  all: try (split; [exact I|]; repeat (split; [reflexivity|]); auto; fail).
  all: repeat match goal with |- context [if ?b then _ else _] => destruct b eqn:? end; cbn.
  all: split; [constructor; cbn; auto; try congruence; try (intros H; exfalso; stat_bits; fail);
               try (intros H; apply Rx; stat_bits) |].
  all: repeat split; try reflexivity.
  all: try (intros H; stat_bits; fail).
  all: try (stat_bits; fail).
  all: try (cbn; rewrite ?app_nil_r; repeat rewrite <- app_assoc; cbn; reflexivity).
Qed.

(* ---- tx_service in local loop-back: the byte goes to the port's own receiver, never to the host ---- *)
Lemma rx_char_keeps (p : port) (c : A) :
  tx_hold (rx_char p c) = tx_hold p /\ tx_shift (rx_char p c) = tx_shift p /\ txq (rx_char p c) = txq p
  /\ rxq (rx_char p c) = rxq p /\ conf (rx_char p c) = conf p /\ mode1 (rx_char p c) = mode1 p
  /\ bset (stat (rx_char p c)) STS_TXR = bset (stat p) STS_TXR.
Proof.
  unfold rx_char. repeat match goal with |- context [if ?b then _ else _] => destruct b end;
    try destruct (fifo_push _ _); cbn; repeat split; stat_bits.
Qed.

Definition tx_tail (p0 : port) (tm : Z) : port :=
  let p1 := (let pb := with_tx_shift p0 None in
             if negb (is_some (tx_hold pb)) then stat_set (stat_set pb STS_TXR) STS_TXE else pb) in
  match tx_hold p1 with
  | Some c => with_next_tx (with_tx_hold (with_tx_shift p1 (Some c)) None) (tm + char_delay p1)
  | None => p1 end.

Lemma tx_tail_spec (p0 : port) (tm : Z) :
  PInv p0 ->
  PInv (tx_tail p0 tm) /\ txq (tx_tail p0 tm) = txq p0 /\ rxq (tx_tail p0 tm) = rxq p0
  /\ conf (tx_tail p0 tm) = conf p0 /\ mode1 (tx_tail p0 tm) = mode1 p0
  /\ rx_held (tx_tail p0 tm) = rx_held p0 /\ tx_shift (tx_tail p0 tm) = tx_hold p0.
Proof.
  intros I. unfold tx_tail. cbn [with_tx_shift tx_hold].
  destruct (tx_hold p0) as [h|] eqn:Eh; cbn [is_some negb with_tx_shift tx_hold stat_set with_stat].
  - rewrite Eh. split; [destruct I as [F1 R1 Sh1 Tx1]; constructor; cbn; auto|]. cbn. repeat split; auto.
  - rewrite Eh. split; [apply pinv_set_txe; apply pinv_set_txr; [apply pinv_with_tx_shift; exact I | exact Eh]|].
    cbn. repeat split; auto.
Qed.

Lemma tx_service_loopback_inv tm kbd p :
  PInv p -> loopback p = true ->
  let p' := tx_service is02 tm kbd p in
  PInv p' /\ txq p' = txq p /\ rxq p' = rxq p /\ conf p' = conf p /\ mode1 p' = mode1 p.
Proof.
  intros I Lb. unfold tx_service. rewrite Lb.
  destruct (negb (is_some (tx_hold p)) && negb (is_some (tx_shift p))); [split; [exact I|]; repeat split; auto|].
  destruct (tm >=? next_tx p); [|split; [exact I|]; repeat split; auto].
  destruct (tx_shift p) as [s|] eqn:Es.
  - destruct (rx_enabled p) eqn:En.
    + destruct (rx_char_spec p s I En) as (I1 & _).
      destruct (rx_char_keeps p s) as (K1 & K2 & K3 & K4 & K5 & K6 & _).
      destruct (tx_tail_spec (rx_char p s) tm I1) as (T0 & T1 & T2 & T3 & T4 & _).
      change (PInv (tx_tail (rx_char p s) tm) /\ txq (tx_tail (rx_char p s) tm) = txq p
              /\ rxq (tx_tail (rx_char p s) tm) = rxq p /\ conf (tx_tail (rx_char p s) tm) = conf p
              /\ mode1 (tx_tail (rx_char p s) tm) = mode1 p).
      rewrite T1, T2, T3, T4, K3, K4, K5, K6. auto.
    + destruct (tx_tail_spec p tm I) as (T0 & T1 & T2 & T3 & T4 & _).
      change (PInv (tx_tail p tm) /\ txq (tx_tail p tm) = txq p /\ rxq (tx_tail p tm) = rxq p
              /\ conf (tx_tail p tm) = conf p /\ mode1 (tx_tail p tm) = mode1 p). auto.
  - split.
    + destruct (tx_hold p) as [h|] eqn:Eh; [|exact I].
      destruct I as [F1 R1 Sh1 Tx1]. constructor; cbn; auto.
    + destruct (tx_hold p); cbn; repeat split; auto.
Qed.

Lemma tx_loopback_delivers tm kbd p c :
  PInv p -> loopback p = true -> tx_shift p = Some c -> tm >= next_tx p -> rx_enabled p = true ->
  (rx_shift p = None \/ flen (rx_fifo p) < 3) ->
  rx_held (tx_service is02 tm kbd p) = rx_held p ++ [c] /\ txq (tx_service is02 tm kbd p) = txq p
  /\ tx_shift (tx_service is02 tm kbd p) = tx_hold p.
Proof.
  intros I Lb Es Due En Room. unfold tx_service. rewrite Lb, Es, En.
  replace (tm >=? next_tx p) with true by (symmetry; apply Z.geb_le; lia).
  cbn [is_some negb andb]. rewrite andb_false_r.
  destruct (rx_char_spec p c I En) as (I1 & _ & _ & _ & _ & _ & _ & _ & Cases).
  destruct (rx_char_keeps p c) as (K1 & K2 & K3 & K4 & K5 & K6 & _).
  assert (Hh : rx_held (rx_char p c) = rx_held p ++ [c]).
  { destruct Cases as [[_ Hh]|(old & Ho & Lf & _)]; [exact Hh|]. destruct Room; [congruence|lia]. }
  destruct (tx_tail_spec (rx_char p c) tm I1) as (T0 & T1 & T2 & T3 & T4 & T5 & T6).
  change (rx_held (tx_tail (rx_char p c) tm) = rx_held p ++ [c] /\ txq (tx_tail (rx_char p c) tm) = txq p
          /\ tx_shift (tx_tail (rx_char p c) tm) = tx_hold p).
  rewrite T5, T1, T6, Hh, K3, K1. auto.
Qed.

(* ---- commands, THR writes, mode registers, host side ---- *)
Ltac conf_bits := unfold rx_enabled, CNF_ETX, CNF_ERX in *; cbn in *; bits.

Lemma port_command_inv cmd p : PInv p -> PInv (port_command cmd p).
Proof.
  intros I. pose proof I as [F Rx Sh Tx].
  destruct p as [m0 m1 mp st cf ff sh th ts rq tq cd nt nr].
  unfold port_command, enable_tx, disable_tx, enable_rx, disable_rx, loopback. cbn in *.
  repeat match goal with |- context [if ?b then _ else _] => destruct b eqn:? end; cbn.
  all: constructor; cbn; auto; try congruence; try apply fifo_clear_spec.
  all: try (intros H; exfalso; stat_bits; fail).
  all: try (intros H; apply Tx; stat_bits; fail).
  all: try (intros H; reflexivity).
  all: try (intros H; assert (Hr : bset st STS_RXR = true) by stat_bits; destruct (Rx Hr) as [R1 R2];
            split; [exact R1 | unfold rx_enabled, CNF_ERX, CNF_ETX in *; cbn in *; bits]).
  all: try (intros _; destruct (fifo_clear_spec ff) as (_ & _ & L); exact L).
  all: try (intros _; destruct th; cbn in *; congruence).
Qed.

Lemma write_thr_inv p a : PInv p -> PInv (write_thr p a).
Proof.
  intros [F Rx Sh Tx]. unfold write_thr. constructor; cbn; auto.
  - intros H. apply Rx. stat_bits.
  - intros H. exfalso. stat_bits.
Qed.

Lemma rx_service_lb_inv tm p : PInv p -> loopback p = true ->
  PInv (rx_service tm p) /\ rx_held (rx_service tm p) = rx_held p /\ rxq (rx_service tm p) = rxq p
  /\ txq (rx_service tm p) = txq p /\ conf (rx_service tm p) = conf p /\ mode1 (rx_service tm p) = mode1 p.
Proof.
  intros I Lb. unfold rx_service. rewrite Lb. cbn [negb].
  destruct (negb _); [auto 10|]. split; [apply pinv_with_next_rx; exact I|]. cbn. auto 10.
Qed.

(* ---- histories of port operations ---- *)
Inductive pop :=
| PEnq (a : A) | PSvc (tm : Z) (kbd : bool) | PRead | PCmd (c : Z) | PWriteMode (v : Z) | PReadMode
| PSetDelay (d : Z) | PWriteThr (a : A) | PPoll.

Definition pstep (o : pop) (p : port) : port :=
  match o with
  | PEnq a => host_enqueue p a
  | PSvc tm kbd => rx_service tm (tx_service is02 tm kbd p)
  | PRead => snd (rx_read_char p)
  | PCmd c => port_command c p
  | PWriteMode v => write_mode p v
  | PReadMode => snd (read_mode p)
  | PSetDelay d => with_char_delay p d
  | PWriteThr a => write_thr p a
  | PPoll => snd (host_poll p)
  end.

Lemma pinv_step o p : PInv p -> PInv (pstep o p).
Proof.
  intros I. destruct o; cbn [pstep].
  - apply pinv_with_rxq; exact I.
  - destruct (loopback p) eqn:Lb.
    + destruct (tx_service_loopback_inv tm kbd p I Lb) as (I1 & _ & _ & _ & M1).
      apply rx_service_lb_inv; [exact I1|]. unfold loopback in *. now rewrite M1.
    + destruct (tx_service_spec tm kbd p I Lb) as (I1 & _ & M1 & _).
      apply rx_service_spec; [exact I1|]. unfold loopback in *. now rewrite M1.
  - apply (rx_read_char_spec p I).
  - apply port_command_inv; exact I.
  - unfold write_mode. apply pinv_with_mode_ptr, pinv_with_mode; exact I.
  - unfold read_mode. cbn. apply pinv_with_mode_ptr; exact I.
  - apply pinv_with_char_delay; exact I.
  - apply write_thr_inv; exact I.
  - unfold host_poll. destruct (txq p); cbn; [exact I | apply pinv_with_txq; exact I].
Qed.

(* in-order subsequence (each element used at most once, positionally) *)
Inductive subseq : list A -> list A -> Prop :=
| sub_nil : subseq [] []
| sub_skip x l1 l2 : subseq l1 l2 -> subseq l1 (x :: l2)
| sub_take x l1 l2 : subseq l1 l2 -> subseq (x :: l1) (x :: l2).

Lemma subseq_refl l : subseq l l.
Proof. induction l; [constructor | apply sub_take; auto]. Qed.
Lemma subseq_nil l : subseq [] l.
Proof. induction l; [constructor | apply sub_skip; auto]. Qed.
Lemma subseq_snoc l E a : subseq l E -> subseq (l ++ [a]) (E ++ [a]).
Proof. induction 1; cbn; [apply sub_take; constructor | apply sub_skip; assumption | apply sub_take; assumption]. Qed.
Lemma subseq_drop l1 x l2 E : subseq (l1 ++ x :: l2) E -> subseq (l1 ++ l2) E.
Proof.
  remember (l1 ++ x :: l2) as l eqn:El. intros H. revert l1 El.
  induction H as [|y m1 m2 H IH|y m1 m2 H IH]; intros l1 El.
  - destruct l1; discriminate.
  - apply sub_skip. apply IH; exact El.
  - destruct l1 as [|z l1]; cbn in El.
    + inversion El; subst. apply sub_skip. exact H.
    + inversion El; subst. cbn. apply sub_take. apply IH. reflexivity.
Qed.
Lemma subseq_drop_mid l1 m l2 E : subseq (l1 ++ m ++ l2) E -> subseq (l1 ++ l2) E.
Proof.
  revert l1. induction m as [|x m IH]; intros l1 H; [exact H|].
  apply IH. cbn in H. apply (subseq_drop l1 x (m ++ l2)). exact H.
Qed.

Definition no_lb_op (o : pop) : bool :=
  match o with PWriteMode v => negb (Z.land v 192 =? 128) | _ => true end.

Lemma loopback_step o p : loopback p = false -> no_lb_op o = true -> PInv p -> loopback (pstep o p) = false.
Proof.
  intros Lb Ok I. destruct o; cbn [pstep]; unfold loopback in *.
  - exact Lb.
  - destruct (tx_service_spec tm kbd p I Lb) as (I1 & _ & M1 & _).
    assert (Lb1 : loopback (tx_service is02 tm kbd p) = false) by (unfold loopback; now rewrite M1).
    destruct (rx_service_spec tm _ I1 Lb1) as (_ & _ & M2 & _). rewrite M2, M1. exact Lb.
  - destruct (rx_read_char_spec p I) as (_ & _ & _ & M & _). now rewrite M.
  - unfold port_command, enable_tx, disable_tx, enable_rx, disable_rx, Duart.loopback.
    repeat match goal with |- context [if ?b then _ else _] => destruct b end; cbn; exact Lb.
  - unfold write_mode, with_mode. cbn in Ok. destruct (mode_ptr p =? 0); cbn; [exact Lb|].
    destruct (Z.land v 192 =? 128); [discriminate|reflexivity].
  - exact Lb.
  - exact Lb.
  - exact Lb.
  - unfold host_poll. destruct (txq p); exact Lb.
Qed.

(* ghost run: E = everything the host queued so far, D = bytes the guest read while RxRDY was set *)
Fixpoint rx_run (ops : list pop) (p : port) (E D : list A) : port * list A * list A :=
  match ops with
  | [] => (p, E, D)
  | o :: t =>
    let E' := match o with PEnq a => E ++ [a] | _ => E end in
    let D' := match o with
              | PRead => if bset (stat p) STS_RXR then D ++ olist (fst (rx_read_char p)) else D
              | _ => D end in
    rx_run t (pstep o p) E' D'
  end.

Lemma port_command_rx c p :
  rxq (port_command c p) = rxq p /\ (rx_held (port_command c p) = rx_held p \/ rx_held (port_command c p) = []).
Proof.
  unfold port_command, enable_tx, disable_tx, enable_rx, disable_rx, Duart.loopback, rx_held.
  repeat match goal with |- context [if ?b then _ else _] => destruct b end; cbn; auto.
Qed.

Lemma rx_step_subseq o p E D :
  PInv p -> loopback p = false -> no_lb_op o = true -> subseq (D ++ rx_pipe p) E ->
  subseq ((match o with
           | PRead => if bset (stat p) STS_RXR then D ++ olist (fst (rx_read_char p)) else D
           | _ => D end) ++ rx_pipe (pstep o p))
         (match o with PEnq a => E ++ [a] | _ => E end).
Proof.
  intros I Lb Ok H. destruct o; cbn [pstep].
  - unfold rx_pipe, host_enqueue in *. cbn. rewrite !app_assoc. apply subseq_snoc. rewrite <- !app_assoc. exact H.
  - destruct (tx_service_spec tm kbd p I Lb) as (I1 & _ & M1 & F1 & S1 & Q1 & _).
    assert (Lb1 : loopback (tx_service is02 tm kbd p) = false) by (unfold loopback in *; now rewrite M1).
    destruct (rx_service_spec tm _ I1 Lb1) as (_ & _ & _ & _ & _ & _ & _ & _ & Cases & _).
    assert (Ep : rx_pipe (tx_service is02 tm kbd p) = rx_pipe p) by (unfold rx_pipe, rx_held; now rewrite F1, S1, Q1).
    destruct Cases as [Hc|(old & c & rest & Ho & Hq & Hc & _)].
    + rewrite Hc, Ep. exact H.
    + rewrite Hc. rewrite <- Ep in H. unfold rx_pipe, rx_held in H. rewrite Ho, Hq in H. cbn in H.
      rewrite F1 in *. rewrite app_assoc in H. rewrite <- app_assoc in H.
      rewrite app_assoc. apply (subseq_drop _ old). rewrite <- app_assoc. cbn. rewrite <- app_assoc in H. exact H.
  - destruct (rx_read_char_spec p I) as (_ & Q & _ & _ & _ & _ & _ & _ & _ & Hm & Hr & _).
    unfold rx_pipe in *. rewrite Q.
    destruct (fst (rx_read_char p)) as [v|] eqn:Eo.
    + rewrite Hm in H. destruct (bset (stat p) STS_RXR).
      * cbn. rewrite <- app_assoc. cbn. exact H.
      * apply (subseq_drop D v). exact H.
    + rewrite Hm. destruct (bset (stat p) STS_RXR); cbn; rewrite ?app_nil_r; exact H.
  - destruct (port_command_rx c p) as (Q & [Hh|Hh]); unfold rx_pipe in *; rewrite Q, Hh; [exact H|].
    cbn. apply (subseq_drop_mid D (rx_held p)). exact H.
  - replace (rx_pipe (write_mode p v)) with (rx_pipe p); [exact H|].
    unfold write_mode, with_mode. destruct (mode_ptr p =? 0); reflexivity.
  - exact H.
  - exact H.
  - exact H.
  - unfold host_poll. destruct (txq p); exact H.
Qed.

Theorem rx_in_order_once ops : forall p E D,
  PInv p -> loopback p = false -> forallb no_lb_op ops = true -> subseq (D ++ rx_pipe p) E ->
  let '(p', E', D') := rx_run ops p E D in subseq (D' ++ rx_pipe p') E'.
Proof.
  induction ops as [|o t IH]; intros p E D I Lb Ok H; cbn [rx_run]; [exact H|].
  cbn in Ok. apply andb_true_iff in Ok as [Ok1 Ok2].
  apply IH; auto.
  - apply pinv_step; exact I.
  - apply loopback_step; auto.
  - apply rx_step_subseq; auto.
Qed.

Lemma subseq_app_l l1 l2 E : subseq (l1 ++ l2) E -> subseq l1 E.
Proof. intros H. rewrite <- (app_nil_r l1). apply (subseq_drop_mid l1 l2 []). now rewrite app_nil_r. Qed.

Corollary rx_delivered_subseq ops tm :
  forallb no_lb_op ops = true ->
  let '(_, E', D') := rx_run ops (port_new dflt tm) [] [] in subseq D' E'.
Proof.
  intros Ok.
  pose proof (rx_in_order_once ops (port_new dflt tm) [] [] (pinv_new tm) eq_refl Ok) as H.
  destruct (rx_run ops (port_new dflt tm) [] []) as [[p' E'] D'].
  apply (subseq_app_l D' (rx_pipe p')). apply H. cbn. constructor.
Qed.

(* ---- a queued byte leaves the pipeline undelivered only by a flagged overrun, a receiver
        reset, or a read made while the receiver was not ready ---- *)
Definition is_reset_rx (c : Z) : bool := Z.land (Z.shiftr c 4) 7 =? 2.
Definition is_reset_err (c : Z) : bool := Z.land (Z.shiftr c 4) 7 =? 4.

Lemma rx_loss_only_flagged o p :
  PInv p -> loopback p = false -> no_lb_op o = true ->
  let dD := match o with
            | PRead => if bset (stat p) STS_RXR then olist (fst (rx_read_char p)) else []
            | _ => [] end in
  let dE := match o with PEnq a => [a] | _ => [] end in
  dD ++ rx_pipe (pstep o p) = rx_pipe p ++ dE
  \/ (exists tm k, o = PSvc tm k /\ bset (stat (pstep o p)) STS_OER = true)
  \/ (exists c, o = PCmd c /\ is_reset_rx c = true)
  \/ (o = PRead /\ bset (stat p) STS_RXR = false).
Proof.
  intros I Lb Ok. destruct o; cbn [pstep].
  - left. unfold rx_pipe, host_enqueue. cbn. now rewrite app_assoc.
  - destruct (tx_service_spec tm kbd p I Lb) as (I1 & _ & M1 & F1 & S1 & Q1 & _).
    assert (Lb1 : loopback (tx_service is02 tm kbd p) = false) by (unfold loopback in *; now rewrite M1).
    destruct (rx_service_spec tm _ I1 Lb1) as (_ & _ & _ & _ & _ & _ & _ & _ & Cases & _).
    assert (Ep : rx_pipe (tx_service is02 tm kbd p) = rx_pipe p) by (unfold rx_pipe, rx_held; now rewrite F1, S1, Q1).
    destruct Cases as [Hc|(old & c & rest & _ & _ & _ & Ov)].
    + left. cbn. rewrite Hc, Ep. now rewrite app_nil_r.
    + right. left. exists tm, kbd. split; [reflexivity | exact Ov].
  - destruct (rx_read_char_spec p I) as (_ & Q & _ & _ & _ & _ & _ & _ & _ & Hm & Hr & _).
    destruct (bset (stat p) STS_RXR) eqn:Rdy.
    + left. unfold rx_pipe. rewrite Q, app_nil_r.
      destruct (fst (rx_read_char p)) as [v|] eqn:Eo; [|exfalso; apply Hr; auto].
      cbn. rewrite Hm. reflexivity.
    + right. right. right. auto.
  - unfold rx_pipe. destruct (port_command_rx c p) as (Q & _).
    destruct (is_reset_rx c) eqn:Rr; [right; right; left; exists c; auto|].
    left. cbn. rewrite app_nil_r, Q. f_equal.
    unfold is_reset_rx in Rr. unfold port_command, enable_tx, disable_tx, enable_rx, disable_rx, Duart.loopback, rx_held.
    rewrite Rr.
    repeat match goal with |- context [if ?b then _ else _] => destruct b end; cbn; auto.
  - left. cbn. rewrite app_nil_r. unfold write_mode, with_mode. destruct (mode_ptr p =? 0); reflexivity.
  - left. cbn. now rewrite app_nil_r.
  - left. cbn. now rewrite app_nil_r.
  - left. cbn. now rewrite app_nil_r.
  - left. cbn. rewrite app_nil_r. unfold host_poll. destruct (txq p); reflexivity.
Qed.

(* the overrun flag stays set until the guest issues reset-error *)
Lemma oer_sticky o p :
  PInv p -> bset (stat p) STS_OER = true ->
  (forall c, o = PCmd c -> is_reset_err c = false) ->
  bset (stat (pstep o p)) STS_OER = true.
Proof.
  intros I H Hc. destruct o; cbn [pstep].
  - exact H.
  - unfold rx_service, tx_service, rx_char.
    repeat match goal with
           | |- context [if ?b then _ else _] => destruct b
           | |- context [match ?x with _ => _ end] => destruct x
           end; cbn; stat_bits.
  - destruct (rx_read_char_spec p I) as (_ & _ & _ & _ & _ & _ & _ & _ & Ho & _). now rewrite Ho.
  - specialize (Hc c eq_refl). unfold is_reset_err in Hc.
    unfold port_command, enable_tx, disable_tx, enable_rx, disable_rx, Duart.loopback. rewrite Hc.
    repeat match goal with |- context [if ?b then _ else _] => destruct b end; cbn; stat_bits.
  - unfold write_mode, with_mode. destruct (mode_ptr p =? 0); exact H.
  - exact H.
  - exact H.
  - unfold write_thr. cbn. stat_bits.
  - unfold host_poll. destruct (txq p); exact H.
Qed.

(* ---- transmit path: every byte written while TxRDY reaches the host queue once, in order ---- *)
Definition is_reset_tx (c : Z) : bool := Z.land (Z.shiftr c 4) 7 =? 3.

Definition tx_ok_op (p : port) (o : pop) : bool :=
  match o with
  | PWriteThr _ => bset (stat p) STS_TXR
  | PCmd c => negb (is_reset_tx c)
  | PWriteMode v => negb (Z.land v 192 =? 128)
  | _ => true end.

(* ghost run: W = bytes written (while ready), Q = bytes handed to the host by polls *)
Fixpoint tx_run (ops : list pop) (p : port) (W Q : list A) : option (port * list A * list A) :=
  match ops with
  | [] => Some (p, W, Q)
  | o :: t =>
    if tx_ok_op p o then
      let W' := match o with PWriteThr a => W ++ [a] | _ => W end in
      let Q' := match o with PPoll => Q ++ olist (fst (host_poll p)) | _ => Q end in
      tx_run t (pstep o p) W' Q'
    else None
  end.

Lemma port_command_tx c p : is_reset_tx c = false -> tx_pipe (port_command c p) = tx_pipe p.
Proof.
  intros H. unfold is_reset_tx in H.
  unfold port_command, enable_tx, disable_tx, enable_rx, disable_rx, Duart.loopback, tx_pipe. rewrite H.
  repeat match goal with |- context [if ?b then _ else _] => destruct b end; cbn; auto.
Qed.

Lemma tx_step_exact o p W Q :
  PInv p -> loopback p = false -> tx_ok_op p o = true -> Q ++ tx_pipe p = W ->
  (match o with PPoll => Q ++ olist (fst (host_poll p)) | _ => Q end) ++ tx_pipe (pstep o p)
  = (match o with PWriteThr a => W ++ [a] | _ => W end).
Proof.
  intros I Lb Ok H. destruct o; cbn [pstep].
  - exact H.
  - destruct (tx_service_spec tm kbd p I Lb) as (I1 & _ & M1 & _ & _ & _ & _ & _ & _ & _ & Tp & _).
    assert (Lb1 : loopback (tx_service is02 tm kbd p) = false) by (unfold loopback in *; now rewrite M1).
    destruct (rx_service_spec tm _ I1 Lb1) as (_ & _ & _ & H1 & S1 & T1 & _).
    unfold tx_pipe in *. rewrite H1, S1, T1, Tp. exact H.
  - destruct (rx_read_char_spec p I) as (_ & _ & _ & _ & H1 & S1 & T1 & _).
    unfold tx_pipe in *. rewrite H1, S1, T1. exact H.
  - cbn in Ok. apply negb_true_iff in Ok. rewrite (port_command_tx c p Ok). exact H.
  - replace (tx_pipe (write_mode p v)) with (tx_pipe p); [exact H|].
    unfold write_mode, with_mode. destruct (mode_ptr p =? 0); reflexivity.
  - exact H.
  - exact H.
  - cbn in Ok. pose proof (inv_txr p I Ok) as Hn. unfold write_thr, tx_pipe in *. cbn. rewrite Hn in H. cbn in H.
    rewrite <- H. rewrite <- !app_assoc. cbn. rewrite ?app_nil_r. reflexivity.
  - unfold host_poll, tx_pipe in *. destruct (txq p) as [|c t] eqn:Et; cbn in *; [rewrite ?app_nil_r, ?Et; exact H|].
    rewrite <- H. rewrite <- !app_assoc. reflexivity.
Qed.

Theorem tx_exactly_once_in_order ops : forall p W Q,
  PInv p -> loopback p = false -> Q ++ tx_pipe p = W ->
  match tx_run ops p W Q with
  | Some (p', W', Q') => Q' ++ tx_pipe p' = W'
  | None => True
  end.
Proof.
  induction ops as [|o t IH]; intros p W Q I Lb H; cbn [tx_run]; [exact H|].
  destruct (tx_ok_op p o) eqn:Ok; [|exact Logic.I].
  apply IH.
  - apply pinv_step; exact I.
  - apply loopback_step; auto. destruct o; auto.
  - apply tx_step_exact; auto.
Qed.

(* the host poll returns nothing exactly when nothing is pending *)
Lemma poll_none_iff_empty (p : port) : fst (host_poll p) = None <-> txq p = [].
Proof. unfold host_poll. destruct (txq p); cbn; split; congruence. Qed.

End PortProofs.
