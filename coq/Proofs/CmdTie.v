(* Duart::handle_command of the model (handle_command + port_command) against its statement-by-statement translation
   from /repo/src/duart.rs (Gen/GenCmd.v, regenerated on every run). *)
From Coq Require Import ZArith Lia Bool.
From Dmd Require Import Model.Bits Model.Fifo Model.Mem Model.Duart Gen.GenDuart Gen.GenPort Gen.GenCmd.
From Dmd Require Import Proofs.BitKit.
Open Scope Z_scope.

Ltac closed_eqb' :=
  repeat match goal with
         | |- context [Z.eqb ?a ?c] =>
           closed_z a; closed_z c;
           let v := eval vm_compute in (Z.eqb a c) in change (Z.eqb a c) with v
         end.

Ltac xsplit X tac :=
  destruct (Z.eqb_spec X 1) as [->|?]; [tac|]; destruct (Z.eqb_spec X 2) as [->|?]; [tac|];
  destruct (Z.eqb_spec X 3) as [->|?]; [tac|]; destruct (Z.eqb_spec X 4) as [->|?]; [tac|];
  destruct (Z.eqb_spec X 5) as [->|?]; [tac|]; destruct (Z.eqb_spec X 6) as [->|?]; [tac|];
  destruct (Z.eqb_spec X 7) as [->|?]; [tac|]; tac.

(* the port half *)
Lemma port_command_is_source {A} cmd pn (p : port A) : port_command cmd p = g_cmd_port cmd pn p.
Proof.
  unfold port_command, g_cmd_port.
  unfold g_disable_tx, g_enable_tx, g_disable_rx, g_enable_rx, g_loopback, disable_tx, enable_tx, disable_rx, enable_rx,
         loopback, stat_set, stat_clr, bset.
  unfold gd_CMD_DTX, gd_CMD_ETX, gd_CMD_DRX, gd_CMD_ERX,
         gd_CR_RST_MR, gd_CR_RST_RX, gd_CR_RST_TX, gd_CR_RST_ERR, gd_CR_RST_BRK, gd_CR_START_BRK, gd_CR_STOP_BRK,
         gd_STS_RXR, gd_STS_TXR, gd_STS_TXE, gd_STS_RXB, gd_STS_FER, gd_STS_PER, gd_STS_OER, gd_CNF_ERX, gd_CNF_ETX,
         CMD_DTX, CMD_ETX, CMD_DRX, CMD_ERX, STS_RXR, STS_TXR, STS_TXE, STS_RXB, STS_FER, STS_PER, STS_OER, CNF_ERX, CNF_ETX.
  remember (Z.land (Z.shiftr cmd 4) 7) as X eqn:EX. clear EX.
  destruct p as [m0 m1 mp st cf ff rs th ts rq tq cd nt nr].
  destruct (pn =? gd_PORT_0);
  xsplit X ltac:(closed_eqb'; cbv zeta;
                 destruct (Z.land cmd 8 =? 0); destruct (Z.land cmd 4 =? 0); destruct (Z.land cmd 2 =? 0);
                 destruct (Z.land cmd 1 =? 0);
                 cbv beta iota zeta delta [with_stat with_conf with_fifo with_rx_shift with_tx_hold with_tx_shift with_mode_ptr mode0 mode1 mode_ptr stat conf rx_fifo rx_shift tx_hold tx_shift rxq txq char_delay next_tx next_rx is_some negb];
                 repeat match goal with |- context [if ?c then _ else _] => destruct c end;
                 reflexivity).
Qed.

(* the Duart half, with the port half left folded *)
Lemma handle_command_duart_half cmd pn d :
  handle_command cmd pn d =
  (let p := if pn =? 0 then pa d else pb d in
   let d1 := g_cmd_duart cmd pn (loopback p) d in
   if pn =? 0 then with_pa d1 (port_command cmd p) else with_pb d1 (port_command cmd p)).
Proof.
  unfold handle_command, g_cmd_duart, bset.
  unfold gd_PORT_0, gd_CMD_DTX, gd_CMD_ETX, gd_CMD_DRX, gd_CMD_ERX,
         gd_CR_RST_MR, gd_CR_RST_RX, gd_CR_RST_TX, gd_CR_RST_ERR, gd_CR_RST_BRK, gd_CR_START_BRK, gd_CR_STOP_BRK,
         CMD_DTX, CMD_ETX, CMD_DRX, CMD_ERX.
  remember (Z.land (Z.shiftr cmd 4) 7) as X eqn:EX. clear EX.
  destruct d as [pa0 pb0 ac ip inp ou is im iv nv]. cbn [pa pb].
  destruct (pn =? 0).
  - generalize (port_command cmd pa0). intros P'. destruct (loopback pa0).
    + xsplit X ltac:(closed_eqb'; destruct (Z.land cmd 8 =? 0); destruct (Z.land cmd 4 =? 0); destruct (Z.land cmd 2 =? 0);
                     destruct (Z.land cmd 1 =? 0); reflexivity).
    + xsplit X ltac:(closed_eqb'; destruct (Z.land cmd 8 =? 0); destruct (Z.land cmd 4 =? 0); destruct (Z.land cmd 2 =? 0);
                     destruct (Z.land cmd 1 =? 0); reflexivity).
  - generalize (port_command cmd pb0). intros P'. destruct (loopback pb0).
    + xsplit X ltac:(closed_eqb'; destruct (Z.land cmd 8 =? 0); destruct (Z.land cmd 4 =? 0); destruct (Z.land cmd 2 =? 0);
                     destruct (Z.land cmd 1 =? 0); reflexivity).
    + xsplit X ltac:(closed_eqb'; destruct (Z.land cmd 8 =? 0); destruct (Z.land cmd 4 =? 0); destruct (Z.land cmd 2 =? 0);
                     destruct (Z.land cmd 1 =? 0); reflexivity).
Qed.

Theorem handle_command_is_source cmd pn d : handle_command cmd pn d = g_handle_command cmd pn d.
Proof.
  rewrite handle_command_duart_half. unfold g_handle_command, gd_PORT_0. cbv zeta.
  rewrite <- !(port_command_is_source cmd pn). reflexivity.
Qed.
