(* Bus faults: the normal-exception path, RETG, and precision of faulting ALU / move instructions (C13). *)
From Coq Require Import ZArith Lia Bool List ZifyBool.
From Dmd Require Import Model.Bits Model.Types Model.Mem Model.Bus Model.Decode Model.Cpu.
From Dmd Require Import Gen.GenOpcodes Gen.GenDispatch.
From Dmd Require Import Proofs.BitsLemmas Proofs.BitKit Proofs.MemProofs Proofs.BusProofs Proofs.VideoProofs
     Proofs.RegKit Proofs.MachKit Proofs.LinkageProofs Proofs.ResetProofs.
Open Scope Z_scope.

(* ---- PSW values along the exception path ---- *)
(* the PSW that is pushed: ET = 0, ISC = 3, everything else as at the fault *)
Definition exc_psw_pushed (psw : Z) : Z :=
  Z.lor (clr32 (Z.lor (Z.lor (clr32 (clr32 psw F_ET) F_ISC) 3) 40) (F_ET + F_ISC)) 24.

(* the PSW the gate installs: flags etc. from the table entry p; PM := old CM; IPL and R kept; ISC 7, TM 1, ET 3 *)
Definition gate_psw (p cur : Z) : Z :=
  let p := clr32 p (F_PM + F_IPL + F_R + F_ISC + F_TM + F_ET) in
  let p := Z.lor p (Z.shiftr (Z.land cur F_CM) 2) in
  let p := Z.lor p (Z.land cur F_IPL) in
  let p := Z.lor p (Z.land cur F_R) in
  Z.lor (Z.lor (Z.lor p 56) 4) 3.

(* the PSW RETG installs from the popped word and the current PSW *)
Definition retg_psw (new_psw cur : Z) : Z :=
  let keep := F_IPL + F_CFD + F_QIE + F_CD + F_R in
  let p := clr32 new_psw (keep + F_ISC + F_TM + F_ET) in
  let p := Z.lor p (Z.land cur F_IPL) in
  let p := Z.lor p (Z.land cur F_CFD) in
  let p := Z.lor p (Z.land cur F_QIE) in
  let p := Z.lor p (Z.land cur F_CD) in
  let p := Z.lor p (Z.land cur F_R) in
  Z.lor (Z.lor p 56) 3.

Ltac psw_consts := unfold F_ET, F_TM, F_ISC, F_I, F_R, F_PM, F_CM, F_IPL, F_C, F_V, F_Z, F_N, F_CD, F_QIE, F_CFD, not32 in *.

(* N Z V C (bits 21 20 19 18), CM (12 11), PM (10 9), I (7) of the pushed PSW are those at the fault *)
Lemma pushed_keeps_bit psw k :
  In k [21; 20; 19; 18; 12; 11; 10; 9; 7; 8; 13; 14; 15; 16] ->
  Z.testbit (exc_psw_pushed psw) k = Z.testbit psw k.
Proof.
  intros Hk. unfold exc_psw_pushed. cbn [In] in Hk.
  repeat (destruct Hk as [Hk|Hk]; [subst k; rewrite ?Z.lor_spec, ?testbit_clr32, ?Z.lor_spec, ?testbit_clr32; psw_consts;
                                   eval_closed_bits; rewrite ?andb_true_r, ?orb_false_r; reflexivity|]).
  contradiction.
Qed.

(* RETG: N Z V C, CM, PM, I come from the popped word; IPL from the current PSW *)
Lemma retg_takes_bit new_psw cur k :
  In k [21; 20; 19; 18; 12; 11; 10; 9; 7] ->
  Z.testbit (retg_psw new_psw cur) k = Z.testbit new_psw k.
Proof.
  intros Hk. unfold retg_psw. cbv zeta. cbn [In] in Hk.
  repeat (destruct Hk as [Hk|Hk]; [subst k; rewrite ?Z.lor_spec, ?Z.land_spec, ?testbit_clr32; psw_consts;
                                   eval_closed_bits; rewrite ?andb_true_r, ?andb_false_r, ?orb_false_r; reflexivity|]).
  contradiction.
Qed.

Lemma retg_keeps_ipl new_psw cur k :
  In k [13; 14; 15; 16] -> Z.testbit (retg_psw new_psw cur) k = Z.testbit cur k.
Proof.
  intros Hk. unfold retg_psw. cbv zeta. cbn [In] in Hk.
  repeat (destruct Hk as [Hk|Hk]; [subst k; rewrite ?Z.lor_spec, ?Z.land_spec, ?testbit_clr32; psw_consts;
                                   eval_closed_bits; rewrite ?andb_true_r, ?andb_false_r, ?orb_false_r, ?orb_false_l; reflexivity|]).
  contradiction.
Qed.

(* ---- the dispatch arm of RETG ---- *)
Lemma exec_retg ir m : iopcode ir = 12357 ->
  exec ir m = bind (rd_word (usub (R m R_SP) 4) m) (fun new_psw m => bind (rd_word (usub (R m R_SP) 8) m) (fun new_pc m =>
    let m := setPSW m (retg_psw new_psw (PSW m)) in
    let m := setR m R_PC new_pc in
    Ok 0 (setR m R_SP (sub32 (R m R_SP) 8)))).
Proof. intros H. unfold exec. rewrite H. reflexivity. Qed.

Lemma retg_effect ir m :
  iopcode ir = 12357 -> bus_wf (mbus m) -> 8 <= R m R_SP < 4294967296 ->
  in_ram_w (R m R_SP - 4) -> in_ram_w (R m R_SP - 8) ->
  exists m', exec ir m = Ok 0 m' /\ mbus m' = mbus m
    /\ R m' R_PC = ldw m (R m R_SP - 8) /\ R m' R_SP = R m R_SP - 8
    /\ PSW m' = retg_psw (ldw m (R m R_SP - 4)) (PSW m)
    /\ (forall i, 0 <= i <= 14 -> i <> 11 -> i <> 12 -> R m' i = R m i).
Proof.
  intros Ho W Hsp H4 H8. rewrite exec_retg by exact Ho.
  assert (E4 : usub (R m R_SP) 4 = R m R_SP - 4) by (unfold usub, w64; rewrite Z.mod_small; lia).
  assert (E8 : usub (R m R_SP) 8 = R m R_SP - 8) by (unfold usub, w64; rewrite Z.mod_small; lia).
  rewrite E4. rewrite rd_word_ram by assumption. cbn [bind]. rewrite E8. rewrite rd_word_ram by assumption.
  cbn [bind]. cbv zeta. eexists. split; [reflexivity|]. split; [reflexivity|].
  unfold setPSW, PSW. rconst.
  split; [rewrite R_setR_other by lia; apply R_setR_same|].
  split; [rewrite R_setR_same; rewrite !R_setR_other by lia; unfold sub32, w32; rewrite Z.mod_small; lia|].
  split; [rewrite !R_setR_other by lia; apply R_setR_same|].
  intros i Hi N11 N12. rewrite !R_setR_other by lia. reflexivity.
Qed.

(* ---- on_exception ---- *)
Lemma on_exception_effect m :
  bus_wf (mbus m) -> in_ram_w (R m R_SP) -> in_ram_w (R m R_SP + 4) ->
  let g := romw m 0 in
  in_ram_w (g + 40) -> in_ram_w (g + 44) ->
  (g + 48 <= R m R_SP \/ R m R_SP + 8 <= g + 40) ->
  exists m', on_exception m = Ok tt m'
    /\ R m' R_SP = R m R_SP + 8
    /\ R m' R_PC = ldw m (g + 44)
    /\ PSW m' = gate_psw (ldw m (g + 40)) (exc_psw_pushed (PSW m))
    /\ ldw m' (R m R_SP) = w32 (R m R_PC)
    /\ ldw m' (R m R_SP + 4) = w32 (exc_psw_pushed (PSW m))
    /\ (forall i, 0 <= i <= 14 -> i <> 11 -> i <> 12 -> R m' i = R m i)
    /\ bus_wf (mbus m')
    /\ (forall a, RAMB <= a -> (a < R m R_SP \/ R m R_SP + 8 <= a) -> ramb m' a = ramb m a).
Proof.
  intros W Hs Hs4 g Hg0 Hg4 Hd. pose proof Hs as [Hs1 [Hs2 Hs3]]. pose proof Hs4 as [Hq1 [Hq2 Hq3]].
  pose proof Hg0 as [Ha1 [Ha2 Ha3]]. pose proof Hg4 as [Hb1 [Hb2 Hb3]].
  unfold on_exception, gate, setPSW, PSW. rconst.
  rewrite !R_setR_other by lia. rewrite wr_word_ram by (cbn [mbus setR with_regs]; assumption).
  cbn [bind]. rewrite !R_stw, !R_setR_same. rewrite !R_setR_other by lia. rewrite !R_stw, !R_setR_other by lia.
  rewrite wr_word_ram by (first [cbn [mbus setR with_regs]; apply wf_stw; assumption | assumption]).
  cbn [bind].
  assert (Wf : forall x y z p1 p2, bus_wf (mbus (stw (setR (stw (setR m 11 p1) x y) 11 p2) z p2))).
  { intros. apply wf_stw. cbn [mbus setR with_regs]. apply wf_stw. exact W. }
  rewrite rd_word_rom; [| apply Wf | unfold in_rom_w; lia]. cbn [bind].
  rewrite !romw_stw, !romw_setR, !romw_stw, !romw_setR. fold g.
  replace (g + 40 + 4) with (g + 44) by lia.
  rewrite rd_word_ram; [| apply Wf | exact Hg0]. cbn [bind].
  rewrite rd_word_ram; [| apply Wf | exact Hg4]. cbn [bind].
  rewrite !R_stw, !R_setR_same.
  eexists. split; [reflexivity|].
  assert (E8 : add32 (R m 12) 8 = R m 12 + 8) by (unfold add32, w32; rewrite Z.mod_small; unfold RAMB, RAME in *; lia).
  split.
  { rewrite R_setR_same. rewrite !R_setR_other by lia. rewrite !R_stw. rewrite !R_setR_other by lia. exact E8. }
  split.
  { rewrite !R_setR_other by lia. rewrite R_setR_same.
    rewrite ldw_stw_other by (unfold RAMB in *; lia). rewrite ldw_setR.
    rewrite ldw_stw_other by (unfold RAMB in *; lia). reflexivity. }
  split.
  { rewrite R_setR_other by lia. rewrite R_setR_same. unfold gate_psw, exc_psw_pushed. cbv zeta. rconst.
    rewrite ldw_stw_other by (unfold RAMB in *; lia). rewrite ldw_setR.
    rewrite ldw_stw_other by (unfold RAMB in *; lia). rewrite ldw_setR. reflexivity. }
  split.
  { rewrite !ldw_setR. rewrite ldw_stw_other by (unfold RAMB in *; lia). rewrite ldw_setR.
    now rewrite ldw_stw_same by lia. }
  split.
  { rewrite !ldw_setR. rewrite ldw_stw_same by lia. unfold exc_psw_pushed. rconst. reflexivity. }
  split.
  { intros i Hi N11 N12. rewrite !R_setR_other by lia. rewrite !R_stw. rewrite !R_setR_other by lia.
    rewrite !R_stw. rewrite !R_setR_other by lia. reflexivity. }
  split.
  { cbn [mbus setR with_regs]. apply Wf. }
  intros a Ha Hda. rewrite !ramb_setR. rewrite ramb_stw_other by (unfold RAMB in *; lia). rewrite ramb_setR.
  rewrite ramb_stw_other by (unfold RAMB in *; lia). reflexivity.
Qed.

(* step(): a NoDevice / Read / Write bus error from the instruction enters on_exception with the state the
   instruction left (PC not advanced) *)
Lemma step_bus_error now m e m1 :
  dispatch now m = Err (EBus e) m1 -> (e = BNoDevice \/ e = BRead \/ e = BWrite) ->
  step now m = match on_exception m1 with
               | Ok _ m' => Ok tt m'
               | Err _ _ => Panic
               | Panic => Panic
               | OutOfFuel => OutOfFuel
               end.
Proof. intros H He. unfold step. rewrite H. destruct He as [->|[->| ->]]; reflexivity. Qed.

(* the whole round trip: fault -> handler entry -> (handler leaves SP and the two stacked words alone) -> RETG *)
Lemma fault_retg_roundtrip ir m :
  iopcode ir = 12357 ->
  bus_wf (mbus m) -> in_ram_w (R m R_SP) -> in_ram_w (R m R_SP + 4) -> R m R_SP + 8 < 4294967296 ->
  0 <= R m R_PC < 4294967296 ->
  let g := romw m 0 in
  in_ram_w (g + 40) -> in_ram_w (g + 44) -> (g + 48 <= R m R_SP \/ R m R_SP + 8 <= g + 40) ->
  exists m1 m2,
    on_exception m = Ok tt m1 /\ exec ir m1 = Ok 0 m2
    /\ R m2 R_PC = R m R_PC /\ R m2 R_SP = R m R_SP
    /\ (forall k, In k [21; 20; 19; 18; 12; 11; 10; 9; 7] -> Z.testbit (PSW m2) k = Z.testbit (PSW m) k)
    /\ (forall i, 0 <= i <= 10 -> R m2 i = R m i).
Proof.
  intros Ho W Hs Hs4 Hlt Hpc g Hg0 Hg4 Hd.
  destruct (on_exception_effect m W Hs Hs4 Hg0 Hg4 Hd) as [m1 [E1 [Sp1 [Pc1 [Psw1 [L0 [L4 [Ro [W1 Fr]]]]]]]]].
  pose proof Hs as [Hs1 [Hs2 Hs3]].
  destruct (retg_effect ir m1 Ho W1) as [m2 [E2 [B2 [Pc2 [Sp2 [Psw2 Ro2]]]]]].
  { rewrite Sp1. unfold RAMB in *. lia. }
  { rewrite Sp1. replace (R m R_SP + 8 - 4) with (R m R_SP + 4) by lia. exact Hs4. }
  { rewrite Sp1. replace (R m R_SP + 8 - 8) with (R m R_SP) by lia. exact Hs. }
  exists m1, m2. split; [exact E1|]. split; [exact E2|].
  rewrite Sp1 in *. replace (R m R_SP + 8 - 8) with (R m R_SP) in * by lia.
  replace (R m R_SP + 8 - 4) with (R m R_SP + 4) in * by lia.
  split; [rewrite Pc2, L0; now apply w32_id|]. split; [lia|]. split.
  - intros k Hk. rewrite Psw2, L4. rewrite retg_takes_bit by exact Hk.
    unfold w32. rewrite Z.mod_pow2_bits_low with (n := 32).
    + apply pushed_keeps_bit. cbn [In] in *. intuition.
    + cbn [In] in Hk. intuition lia.
  - intros i Hi. rewrite Ro2 by lia. apply Ro; lia.
Qed.

(* ---- precision: a faulting two-source ALU instruction changes neither registers nor memories ---- *)
Definition state_kept (m m' : mach) : Prop :=
  mregs m' = mregs m /\ rom (mbus m') = rom (mbus m) /\ vid (mbus m') = vid (mbus m)
  /\ bbram (mbus m') = bbram (mbus m) /\ ram (mbus m') = ram (mbus m).

Lemma state_kept_refl m : state_kept m m.
Proof. repeat split. Qed.
Lemma state_kept_trans a b c : state_kept a b -> state_kept b c -> state_kept a c.
Proof. unfold state_kept. intuition congruence. Qed.

Definition keeps {A} (m : mach) (r : res mach A) : Prop :=
  match r with Ok _ m' | Err _ m' => state_kept m m' | _ => True end.

Lemma mems_to_kept m m' : mems_same (mbus m) (mbus m') -> mregs m' = mregs m -> state_kept m m'.
Proof. unfold mems_same, state_kept. intuition. Qed.

Lemma read_byte_mems a b : match bus_read_byte a b with Ok _ b' | Err _ b' => mems_same b b' | _ => True end.
Proof.
  unfold bus_read_byte, with_dev. destruct (get_device a) as [d|]; [|apply mems_same_refl].
  apply dev_read_byte_mems.
Qed.
Lemma read_half_mems a b : match bus_read_half a b with Ok _ b' | Err _ b' => mems_same b b' | _ => True end.
Proof.
  unfold bus_read_half, with_dev. destruct (negb _); [apply mems_same_refl|].
  destruct (get_device a) as [d|]; [|apply mems_same_refl].
  destruct d; cbn [dev_read_half]; unfold lift_r;
    try (destruct (mem_read_half _ _); try apply mems_same_refl; exact I); try apply mems_same_refl.
  - apply dev_read_byte_mems.
  - destruct (Mouse.mouse_read_half _ _); try apply mems_same_refl; exact I.
Qed.

Lemma liftb_keeps {A} (f : bus -> res bus A) m :
  (match f (mbus m) with Ok _ b' | Err _ b' => mems_same (mbus m) b' | _ => True end) -> keeps m (liftb f m).
Proof.
  unfold liftb, keeps. destruct (f (mbus m)); auto; intros H; apply mems_to_kept; cbn; auto.
Qed.
Lemma rd_byte_keeps a m : keeps m (rd_byte a m).
Proof. apply liftb_keeps. apply read_byte_mems. Qed.
Lemma rd_half_keeps a m : keeps m (rd_half a m).
Proof. apply liftb_keeps. apply read_half_mems. Qed.
Lemma rd_word_keeps a m : keeps m (rd_word a m).
Proof. apply liftb_keeps. apply read_word_mems. Qed.

Lemma keeps_bind {A B} m (r : res mach A) (k : A -> mach -> res mach B) :
  keeps m r -> (forall a m', state_kept m m' -> keeps m' (k a m')) -> keeps m (bind r k).
Proof.
  destruct r as [a m'|e m'| |]; cbn; auto. intros H K. specialize (K a m' H).
  unfold keeps in *. destruct (k a m'); auto; eapply state_kept_trans; eauto.
Qed.

Lemma effective_address_keeps ir k m : keeps m (effective_address ir k m).
Proof.
  unfold effective_address. cbv zeta.
  destruct (omode (get_op ir k)); unfold illegalM, fail, ret;
    try (cbn; apply state_kept_refl); try apply rd_word_keeps;
    destruct (oreg (get_op ir k)); try (cbn; apply state_kept_refl); try apply rd_word_keeps.
Qed.

Lemma read_op_keeps ir k m : keeps m (read_op ir k m).
Proof.
  unfold read_op. cbv zeta.
  destruct (omode (get_op ir k)) eqn:Em;
    try (cbn; apply state_kept_refl);
    try (apply keeps_bind; [apply effective_address_keeps|];
         intros eff m' Hk; destruct (data_type (get_op ir k)); unfold illegalM, fail;
         try (cbn; apply state_kept_refl); try apply rd_word_keeps; try apply rd_half_keeps; try apply rd_byte_keeps;
         (apply keeps_bind; [first [apply rd_half_keeps | apply rd_byte_keeps]|]; intros; cbn; apply state_kept_refl)).
  destruct (oreg (get_op ir k)); [|cbn; apply state_kept_refl].
  destruct (data_type (get_op ir k)); unfold illegalM, fail; cbn; apply state_kept_refl.
Qed.

(* a bus write that returns an error has changed no memory (the dirty flag is not memory) *)
Lemma write_err_mems_byte a v b e b' : bus_write_byte a v b = Err e b' ->
  rom b' = rom b /\ vid b' = vid b /\ bbram b' = bbram b /\ ram b' = ram b.
Proof.
  unfold bus_write_byte, with_dev, mark_dirty.
  destruct (is_video_ram b a); destruct (get_device a) as [d|]; try (intros H; inversion H; subst; cbn; auto; fail);
    destruct d; cbn [dev_write_byte]; unfold dev_write_mem;
    try (intros H; inversion H; subst; cbn; auto; fail);
    try (destruct (mem_write_byte _ _ _); intros H; inversion H; subst; cbn; auto).
Qed.
Lemma write_err_mems_half a v b e b' : bus_write_half a v b = Err e b' ->
  rom b' = rom b /\ vid b' = vid b /\ bbram b' = bbram b /\ ram b' = ram b.
Proof.
  unfold bus_write_half, with_dev, mark_dirty. destruct (negb _); [intros H; inversion H; subst; auto|].
  destruct (is_video_ram b a); destruct (get_device a) as [d|]; try (intros H; inversion H; subst; cbn; auto; fail);
    destruct d; cbn [dev_write_half dev_write_byte]; unfold dev_write_mem;
    try (intros H; inversion H; subst; cbn; auto; fail);
    try (destruct (mem_write_half _ _ _); intros H; inversion H; subst; cbn; auto).
Qed.
Lemma write_err_mems_word a v b e b' : bus_write_word a v b = Err e b' ->
  rom b' = rom b /\ vid b' = vid b /\ bbram b' = bbram b /\ ram b' = ram b.
Proof.
  unfold bus_write_word, with_dev, mark_dirty. destruct (negb _); [intros H; inversion H; subst; auto|].
  destruct (is_video_ram b a); destruct (get_device a) as [d|]; try (intros H; inversion H; subst; cbn; auto; fail);
    destruct d; cbn [dev_write_word dev_write_byte]; unfold dev_write_mem;
    try (intros H; inversion H; subst; cbn; auto; fail);
    try (destruct (mem_write_word _ _ _); intros H; inversion H; subst; cbn; auto).
Qed.

Definition keeps_on_err {A} (m : mach) (r : res mach A) : Prop :=
  match r with Err _ m' => state_kept m m' | _ => True end.

Lemma liftb_write_err {A} (f : bus -> res bus A) m :
  (forall e b', f (mbus m) = Err e b' ->
     rom b' = rom (mbus m) /\ vid b' = vid (mbus m) /\ bbram b' = bbram (mbus m) /\ ram b' = ram (mbus m)) ->
  keeps_on_err m (liftb f m).
Proof.
  intros H. unfold liftb, keeps_on_err. destruct (f (mbus m)) eqn:E; auto.
  destruct (H _ _ eq_refl) as [? [? [? ?]]]. repeat split; cbn; auto.
Qed.

Lemma wr_byte_err_keeps a v m : keeps_on_err m (wr_byte a v m).
Proof. apply liftb_write_err. intros. eapply write_err_mems_byte; eauto. Qed.
Lemma wr_half_err_keeps a v m : keeps_on_err m (wr_half a v m).
Proof. apply liftb_write_err. intros. eapply write_err_mems_half; eauto. Qed.
Lemma wr_word_err_keeps a v m : keeps_on_err m (wr_word a v m).
Proof. apply liftb_write_err. intros. eapply write_err_mems_word; eauto. Qed.

Lemma keeps_then_err {A B} m (r : res mach A) (k : A -> mach -> res mach B) :
  keeps m r -> (forall a m1, state_kept m m1 -> keeps_on_err m1 (k a m1)) -> keeps_on_err m (bind r k).
Proof.
  destruct r as [a m1|e m1| |]; cbn; auto. intros H K. specialize (K a m1 H).
  unfold keeps_on_err in *. destruct (k a m1); auto. eapply state_kept_trans; eauto.
Qed.

Lemma write_op_err_keeps ir k v m : keeps_on_err m (write_op ir k v m).
Proof.
  unfold write_op. cbv zeta.
  destruct (omode (get_op ir k)); unfold illegalM, fail;
    try (cbn; apply state_kept_refl);
    try (destruct (oreg (get_op ir k)); cbn; try exact I; apply state_kept_refl);
    (apply keeps_then_err; [apply effective_address_keeps|];
     intros eff m1 Hk; destruct (data_type (get_op ir k)); unfold illegalM, fail;
     try (cbn; apply state_kept_refl);
     first [apply wr_word_err_keeps | apply wr_half_err_keeps | apply wr_byte_err_keeps]).
Qed.

(* AND OR XOR MUL ALS (alu_std shape): on any error the registers (PSW included) and all memories are untouched *)
Lemma alu_std_fault_precise ir f dst m e m' :
  alu_std ir f dst m = Err e m' -> state_kept m m'.
Proof.
  unfold alu_std. intros H.
  pose proof (read_op_keeps ir 0 m) as K0.
  destruct (read_op ir 0 m) as [a m1|e1 m1| |]; cbn [bind keeps] in *; try discriminate;
    [|inversion H; subst; exact K0].
  pose proof (read_op_keeps ir 1 m1) as K1.
  destruct (read_op ir 1 m1) as [b m2|e2 m2| |]; cbn [bind keeps] in *; try discriminate;
    [|inversion H; subst; eapply state_kept_trans; eauto].
  pose proof (write_op_err_keeps ir dst (f a b) m2) as K2.
  destruct (write_op ir dst (f a b) m2) as [u m3|e3 m3| |]; cbn [bind keeps_on_err] in *; try discriminate.
  inversion H; subst. eapply state_kept_trans; [exact K0|]. eapply state_kept_trans; eauto.
Qed.

(* MOVB / MOVH / MOVW *)
Lemma exec_mov ir m : iopcode ir = 135 \/ iopcode ir = 134 \/ iopcode ir = 132 ->
  exec ir m = bind (read_op ir 0 m) (fun v m => bind (write_op ir 1 v m) (fun _ m =>
              Ok (ilen ir) (set_v_flag_op v (op1 ir) (set_c false (set_nz_flags v (op1 ir) m))))).
Proof. intros [H|[H|H]]; unfold exec; rewrite H; reflexivity. Qed.

Lemma mov_fault_precise ir m e m' :
  iopcode ir = 135 \/ iopcode ir = 134 \/ iopcode ir = 132 -> exec ir m = Err e m' -> state_kept m m'.
Proof.
  intros Ho H. rewrite exec_mov in H by exact Ho.
  pose proof (read_op_keeps ir 0 m) as K0.
  destruct (read_op ir 0 m) as [a m1|e1 m1| |]; cbn [bind keeps] in *; try discriminate;
    [|inversion H; subst; exact K0].
  pose proof (write_op_err_keeps ir 1 a m1) as K2.
  destruct (write_op ir 1 a m1) as [u m3|e3 m3| |]; cbn [bind keeps_on_err] in *; try discriminate.
  inversion H; subst. eapply state_kept_trans; eauto.
Qed.

(* ADD / SUB / INC / DEC (the add_op / sub_op helpers): a bus fault leaves registers and memories untouched *)
Lemma add_op_fault_precise ir a b dst m e m' : add_op ir a b dst m = Err (EBus e) m' -> state_kept m m'.
Proof.
  unfold add_op. cbv zeta. intros H.
  pose proof (write_op_err_keeps ir dst (w32 (a + b)) m) as K.
  destruct (write_op ir dst (w32 (a + b)) m) as [u m1|e1 m1| |]; cbn [bind keeps_on_err] in *; try discriminate.
  - destruct (data_type (get_op ir dst)); unfold illegalM, fail in H; discriminate.
  - inversion H; subst. exact K.
Qed.
Lemma sub_op_fault_precise ir a b dst m e m' : sub_op ir a b dst m = Err e m' -> state_kept m m'.
Proof.
  unfold sub_op. cbv zeta. intros H.
  pose proof (write_op_err_keeps ir dst (w32 (a - b)) m) as K.
  destruct (write_op ir dst (w32 (a - b)) m) as [u m1|e1 m1| |]; cbn [bind keeps_on_err] in *; try discriminate.
  inversion H; subst. exact K.
Qed.

Lemma add2_fault_precise ir m e m' :
  iopcode ir = 156 \/ iopcode ir = 158 \/ iopcode ir = 159 -> exec ir m = Err (EBus e) m' -> state_kept m m'.
Proof.
  intros Ho H.
  assert (E : exec ir m = bind (read_op ir 0 m) (fun a m => bind (read_op ir 1 m) (fun b m =>
              bind (add_op ir a b 1 m) (fun _ m => Ok (ilen ir) m))))
    by (destruct Ho as [Ho|[Ho|Ho]]; unfold exec; rewrite Ho; reflexivity).
  rewrite E in H. clear E.
  pose proof (read_op_keeps ir 0 m) as K0.
  destruct (read_op ir 0 m) as [a m1|e1 m1| |]; cbn [bind keeps] in *; try discriminate;
    [|inversion H; subst; exact K0].
  pose proof (read_op_keeps ir 1 m1) as K1.
  destruct (read_op ir 1 m1) as [b m2|e2 m2| |]; cbn [bind keeps] in *; try discriminate;
    [|inversion H; subst; eapply state_kept_trans; eauto].
  destruct (add_op ir a b 1 m2) as [u m3|e3 m3| |] eqn:E3; cbn [bind] in *; try discriminate.
  inversion H; subst. eapply state_kept_trans; [exact K0|]. eapply state_kept_trans; [exact K1|].
  eapply add_op_fault_precise; eauto.
Qed.
