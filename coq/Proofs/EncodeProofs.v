(* C04: the decoder against the architected operand encoding.  `amode` is the WE32100 operand syntax, `enc_mode`
   the byte encoding the architecture manual gives for it (descriptor byte, then the constant least significant
   byte first), `enc_opnd` adds the optional expanded-type prefix.  The theorems say that on any byte source that
   holds the encoding at the current offset the decoder returns exactly that operand -- mode, register, constant,
   type, expanded type -- and the offset advanced by exactly the length of the encoding. *)
From Coq Require Import ZArith Lia Bool List ZifyBool.
From Dmd Require Import Model.Bits Model.Types Model.Decode Gen.GenOpcodes.
From Dmd Require Import Proofs.DecodeProofs.
Import ListNotations.
Open Scope Z_scope.
Ltac Zify.zify_post_hook ::= Z.div_mod_to_equations.

Inductive dispsz := DispW | DispH | DispB.

Inductive amode :=
| A_PosLit (v : Z)                 (* &v, 0..63 *)
| A_NegLit (v : Z)                 (* &v-256, descriptor byte v = 0xF0..0xFF *)
| A_Reg (r : Z)                    (* %r *)
| A_RegDef (r : Z)                 (* (%r) *)
| A_FpShort (o : Z)                (* o(%fp), 0..14 *)
| A_ApShort (o : Z)                (* o(%ap), 0..14 *)
| A_WordImm (w : Z) | A_HalfImm (h : Z) | A_ByteImm (b : Z)
| A_Abs (w : Z)                    (* $addr *)
| A_AbsDef (w : Z)                 (* *$addr *)
| A_Disp (sz : dispsz) (deferred : bool) (r : Z) (c : Z).    (* c(%r) and *c(%r) *)

Definition le2 (h : Z) : list Z := [h mod 256; h / 256].
Definition le4 (w : Z) : list Z := [w mod 256; (w / 256) mod 256; (w / 65536) mod 256; w / 16777216].

Definition wf_amode (a : amode) : Prop :=
  match a with
  | A_PosLit v => 0 <= v < 64
  | A_NegLit v => 240 <= v < 256
  | A_Reg r => 0 <= r < 15
  | A_RegDef r => 0 <= r < 15 /\ r <> 11
  | A_FpShort o | A_ApShort o => 0 <= o < 15
  | A_WordImm w | A_Abs w | A_AbsDef w => 0 <= w < 4294967296
  | A_HalfImm h => 0 <= h < 65536
  | A_ByteImm b => 0 <= b < 256
  | A_Disp sz _ r c => 0 <= r < 16 /\ r <> 11 /\
      match sz with DispW => 0 <= c < 4294967296 | DispH => 0 <= c < 65536 | DispB => 0 <= c < 256 end
  end.

Definition disp_nibble (sz : dispsz) (deferred : bool) : Z :=
  match sz with DispW => 8 | DispH => 10 | DispB => 12 end + (if deferred then 1 else 0).
Definition disp_bytes (sz : dispsz) (c : Z) : list Z :=
  match sz with DispW => le4 c | DispH => le2 c | DispB => [c] end.

Definition enc_mode (a : amode) : list Z :=
  match a with
  | A_PosLit v | A_NegLit v => [v]
  | A_Reg r => [64 + r]
  | A_RegDef r => [80 + r]
  | A_FpShort o => [96 + o]
  | A_ApShort o => [112 + o]
  | A_WordImm w => 79 :: le4 w
  | A_HalfImm h => 95 :: le2 h
  | A_ByteImm b => [111; b]
  | A_Abs w => 127 :: le4 w
  | A_AbsDef w => 239 :: le4 w
  | A_Disp sz def r c => (16 * disp_nibble sz def + r) :: disp_bytes sz c
  end.

(* what the decoder must report: addressing mode, register, embedded constant *)
Definition arch_mode (a : amode) : addrmode * option Z * Z :=
  match a with
  | A_PosLit v => (MPosLit, None, v)
  | A_NegLit v => (MNegLit, None, v)
  | A_Reg r => (MRegister, Some r, 0)
  | A_RegDef r => (MRegDeferred, Some r, 0)
  | A_FpShort o => (MFpShort, Some 9, o)
  | A_ApShort o => (MApShort, Some 10, o)
  | A_WordImm w => (MWordImm, None, w)
  | A_HalfImm h => (MHalfImm, None, h)
  | A_ByteImm b => (MByteImm, None, b)
  | A_Abs w => (MAbsolute, None, w)
  | A_AbsDef w => (MAbsoluteDeferred, None, w)
  | A_Disp DispW false r c => (MWordDisp, Some r, c)
  | A_Disp DispW true r c => (MWordDispDef, Some r, c)
  | A_Disp DispH false r c => (MHalfDisp, Some r, c)
  | A_Disp DispH true r c => (MHalfDispDef, Some r, c)
  | A_Disp DispB false r c => (MByteDisp, Some r, c)
  | A_Disp DispB true r c => (MByteDispDef, Some r, c)
  end.

Definition opnd_is (o : operand) (a : amode) (dt : dtype) (et : option dtype) : Prop :=
  (omode o, oreg o, oemb o) = arch_mode a /\ otype o = dt /\ oetype o = et.

(* the byte source holds `enc` at offset `len` *)
Definition window (bs : list Z) (len : Z) (enc : list Z) : Prop :=
  forall i, (i < length enc)%nat -> byte_at bs (len + Z.of_nat i) = Some (nth i enc 0).

Lemma window_0 bs len d t : window bs len (d :: t) -> byte_at bs len = Some d.
Proof. intros W. specialize (W 0%nat ltac:(cbn; lia)). now replace (len + Z.of_nat 0) with len in W by lia. Qed.
Lemma window_tl bs len d t : window bs len (d :: t) -> window bs (len + 1) t.
Proof.
  intros W i Hi. specialize (W (S i) ltac:(cbn; lia)). cbn [nth] in W.
  now replace (len + Z.of_nat (S i)) with (len + 1 + Z.of_nat i) in W by lia.
Qed.

Section OnBytes.
Variable bs : list Z.
Notation dd := (decode_descriptor unit (bfetch1 bs) (bfetch2 bs) (bfetch4 bs)).

Lemma acc_byte_at len d : byte_at bs len = Some d -> 0 <= len < 32 ->
  acc_byte unit (bfetch1 bs) len tt = Ok (d, len + 1) tt.
Proof. intros E H. unfold acc_byte, bfetch1. rewrite E. cbn [bind]. now replace (len >=? 32) with false by lia. Qed.

Lemma acc_half_at len h : window bs len (le2 h) -> 0 <= h < 65536 -> 0 <= len -> len + 2 <= 32 ->
  acc_half unit (bfetch2 bs) len tt = Ok (h, len + 2) tt.
Proof.
  intros W Hh H0 H. pose proof (window_0 _ _ _ _ W) as E0. pose proof (window_0 _ _ _ _ (window_tl _ _ _ _ W)) as E1.
  unfold acc_half, bfetch2. rewrite E0, E1. cbn [bind]. replace (len + 1 >=? 32) with false by lia.
  f_equal. f_equal. lia.
Qed.

Lemma acc_word_at len w : window bs len (le4 w) -> 0 <= w < 4294967296 -> 0 <= len -> len + 4 <= 32 ->
  acc_word unit (bfetch4 bs) len tt = Ok (w, len + 4) tt.
Proof.
  intros W Hw H0 H. pose proof (window_0 _ _ _ _ W) as E0.
  pose proof (window_tl _ _ _ _ W) as W1. pose proof (window_0 _ _ _ _ W1) as E1.
  pose proof (window_tl _ _ _ _ W1) as W2. pose proof (window_0 _ _ _ _ W2) as E2.
  pose proof (window_tl _ _ _ _ W2) as W3. pose proof (window_0 _ _ _ _ W3) as E3.
  replace (len + 1 + 1) with (len + 2) in * by lia. replace (len + 2 + 1) with (len + 3) in * by lia.
  unfold acc_word, bfetch4. rewrite E0, E1, E2, E3. cbn [bind]. replace (len + 3 >=? 32) with false by lia.
  f_equal. f_equal. lia.
Qed.

Ltac nib m r :=
  match goal with |- context [?d / 16] =>
    replace (d / 16) with m by lia; replace (d mod 16) with r by lia end.
Ltac konst := cbn [Z.leb Z.eqb Z.compare Pos.compare Pos.compare_cont Pos.eqb andb negb orb Z.add Pos.add Pos.succ].
Ltac fin := unfold opnd_is; cbn [omode oreg oemb otype oetype arch_mode fst snd]; auto.

(* one descriptor (no prefix), at either recursion level *)
Lemma decode_mode a dt et recur len fuel :
  wf_amode a -> window bs len (enc_mode a) -> 0 <= len -> len + Z.of_nat (length (enc_mode a)) <= 32 ->
  exists o, dd (S fuel) dt et recur len tt = Ok (o, len + Z.of_nat (length (enc_mode a))) tt /\ opnd_is o a dt et.
Proof.
  intros Wf W H0 Hl. cbn [decode_descriptor].
  destruct a as [v|v|r|r|o|o|w|h|b|w|w|sz def r c]; cbn [enc_mode length] in *; cbn [wf_amode] in Wf.
  - (* positive literal *)
    rewrite (acc_byte_at len v (window_0 _ _ _ _ W)) by lia. cbn [bind fst snd]. cbv zeta.
    replace (v / 16 <=? 3) with true by lia. eexists; split; [reflexivity|fin].
  - (* negative literal *)
    rewrite (acc_byte_at len v (window_0 _ _ _ _ W)) by lia. cbn [bind fst snd]. cbv zeta.
    replace (v / 16) with 15 by lia. konst. eexists; split; [reflexivity|fin].
  - rewrite (acc_byte_at len _ (window_0 _ _ _ _ W)) by lia. cbn [bind fst snd]. cbv zeta.
    nib 4 r. konst. replace (r =? 15) with false by lia. eexists; split; [reflexivity|fin].
  - rewrite (acc_byte_at len _ (window_0 _ _ _ _ W)) by lia. cbn [bind fst snd]. cbv zeta.
    nib 5 r. konst. replace (r =? 15) with false by lia. replace (r =? 11) with false by lia.
    eexists; split; [reflexivity|fin].
  - rewrite (acc_byte_at len _ (window_0 _ _ _ _ W)) by lia. cbn [bind fst snd]. cbv zeta.
    nib 6 o. konst. replace (o =? 15) with false by lia. eexists; split; [reflexivity|fin].
  - rewrite (acc_byte_at len _ (window_0 _ _ _ _ W)) by lia. cbn [bind fst snd]. cbv zeta.
    nib 7 o. konst. replace (o =? 15) with false by lia. eexists; split; [reflexivity|fin].
  - (* word immediate *)
    rewrite (acc_byte_at len _ (window_0 _ _ _ _ W)) by lia. cbn [bind fst snd]. cbv zeta.
    change (79 / 16) with 4. change (79 mod 16) with 15. konst.
    rewrite (acc_word_at (len + 1) w (window_tl _ _ _ _ W)) by (cbn in Hl; lia). cbn [bind fst snd].
    eexists; split; [f_equal; f_equal; cbn; lia|fin].
  - rewrite (acc_byte_at len _ (window_0 _ _ _ _ W)) by lia. cbn [bind fst snd]. cbv zeta.
    change (95 / 16) with 5. change (95 mod 16) with 15. konst.
    rewrite (acc_half_at (len + 1) h (window_tl _ _ _ _ W)) by (cbn in Hl; lia). cbn [bind fst snd].
    eexists; split; [f_equal; f_equal; cbn; lia|fin].
  - rewrite (acc_byte_at len _ (window_0 _ _ _ _ W)) by lia. cbn [bind fst snd]. cbv zeta.
    change (111 / 16) with 6. change (111 mod 16) with 15. konst.
    rewrite (acc_byte_at (len + 1) b (window_0 _ _ _ _ (window_tl _ _ _ _ W))) by (cbn in Hl; lia). cbn [bind fst snd].
    eexists; split; [f_equal; f_equal; cbn; lia|fin].
  - rewrite (acc_byte_at len _ (window_0 _ _ _ _ W)) by lia. cbn [bind fst snd]. cbv zeta.
    change (127 / 16) with 7. change (127 mod 16) with 15. konst.
    rewrite (acc_word_at (len + 1) w (window_tl _ _ _ _ W)) by (cbn in Hl; lia). cbn [bind fst snd].
    eexists; split; [f_equal; f_equal; cbn; lia|fin].
  - (* absolute deferred: 0xEF is not a prefix *)
    rewrite (acc_byte_at len _ (window_0 _ _ _ _ W)) by lia. cbn [bind fst snd]. cbv zeta.
    change (239 / 16) with 14. change (239 mod 16) with 15. konst. rewrite andb_false_r.
    rewrite (acc_word_at (len + 1) w (window_tl _ _ _ _ W)) by (cbn in Hl; lia). cbn [bind fst snd].
    eexists; split; [f_equal; f_equal; cbn; lia|fin].
  - (* displacement modes *)
    destruct Wf as [Hr [Hr11 Hc]].
    rewrite (acc_byte_at len _ (window_0 _ _ _ _ W)) by lia. cbn [bind fst snd]. cbv zeta.
    pose proof (window_tl _ _ _ _ W) as W1.
    destruct sz, def; unfold disp_nibble, disp_bytes in *.
    + nib 9 r. konst. replace (r =? 11) with false by lia.
      rewrite (acc_word_at (len + 1) c W1) by (cbn in Hl; lia). cbn [bind fst snd].
      eexists; split; [f_equal; f_equal; cbn; lia|fin].
    + nib 8 r. konst. replace (r =? 11) with false by lia.
      rewrite (acc_word_at (len + 1) c W1) by (cbn in Hl; lia). cbn [bind fst snd].
      eexists; split; [f_equal; f_equal; cbn; lia|fin].
    + nib 11 r. konst. replace (r =? 11) with false by lia.
      rewrite (acc_half_at (len + 1) c W1) by (cbn in Hl; lia). cbn [bind fst snd].
      eexists; split; [f_equal; f_equal; cbn; lia|fin].
    + nib 10 r. konst. replace (r =? 11) with false by lia.
      rewrite (acc_half_at (len + 1) c W1) by (cbn in Hl; lia). cbn [bind fst snd].
      eexists; split; [f_equal; f_equal; cbn; lia|fin].
    + nib 13 r. konst. replace (r =? 11) with false by lia.
      rewrite (acc_byte_at (len + 1) c (window_0 _ _ _ _ W1)) by (cbn in Hl; lia). cbn [bind fst snd].
      eexists; split; [f_equal; f_equal; cbn; lia|fin].
    + nib 12 r. konst. replace (r =? 11) with false by lia.
      rewrite (acc_byte_at (len + 1) c (window_0 _ _ _ _ W1)) by (cbn in Hl; lia). cbn [bind fst snd].
      eexists; split; [f_equal; f_equal; cbn; lia|fin].
Qed.
End OnBytes.

(* ---- the expanded-type prefix ---- *)
Definition etype_code (t : dtype) : option Z :=
  match t with
  | DUWord => Some 0 | DUHalf => Some 2 | DByte => Some 3 | DWord => Some 4 | DHalf => Some 6 | DSByte => Some 7
  | DNone => None
  end.

Lemma etype_of_code t c : etype_code t = Some c -> etype_of c = Some t /\ 0 <= c <= 7.
Proof. destruct t; cbn; intros H; inversion H; subst; cbn; split; auto; lia. Qed.

Definition enc_opnd (t : option dtype) (a : amode) : list Z :=
  match t with
  | Some t => match etype_code t with Some c => (224 + c) :: enc_mode a | None => [] end
  | None => enc_mode a
  end.
Definition wf_opnd (t : option dtype) (a : amode) : Prop :=
  wf_amode a /\ match t with Some t => etype_code t <> None | None => True end.
Definition et_after (t et : option dtype) : option dtype := match t with Some t => Some t | None => et end.

Section OnBytes2.
Variable bs : list Z.
Notation dd := (decode_descriptor unit (bfetch1 bs) (bfetch2 bs) (bfetch4 bs)).

Theorem decode_opnd t a dt et len fuel :
  wf_opnd t a -> window bs len (enc_opnd t a) -> 0 <= len -> len + Z.of_nat (length (enc_opnd t a)) <= 32 ->
  (2 <= fuel)%nat ->
  exists o, dd fuel dt et false len tt = Ok (o, len + Z.of_nat (length (enc_opnd t a))) tt
            /\ opnd_is o a dt (et_after t et).
Proof.
  intros [Wa Wt] W H0 Hl Hf. destruct fuel as [|[|fuel]]; try lia.
  destruct t as [t|]; cbn [enc_opnd et_after] in *.
  - destruct (etype_code t) as [c|] eqn:Ec; [|congruence].
    destruct (etype_of_code t c Ec) as [Eo Hc].
    cbn [length] in Hl.
    destruct (decode_mode bs a dt (Some t) true (len + 1) fuel Wa (window_tl _ _ _ _ W) ltac:(lia) ltac:(lia)) as [o [E O]].
    exists o. split; [|exact O].
    remember (S fuel) as f1 eqn:Hf1.
    cbn [decode_descriptor]. rewrite (acc_byte_at bs len _ (window_0 _ _ _ _ W)) by lia. cbn [bind fst snd]. cbv zeta.
    replace ((224 + c) / 16) with 14 by lia. replace ((224 + c) mod 16) with c by lia.
    cbn [Z.leb Z.eqb Z.compare Pos.compare Pos.compare_cont Pos.eqb andb negb].
    replace (c =? 15) with false by lia. rewrite Eo.
    rewrite E. f_equal. f_equal. cbn [length]. lia.
  - apply decode_mode; auto.
Qed.

(* ---- whole instructions ---- *)
Inductive aarg := ArgLit (v : Z) | ArgOp (t : option dtype) (a : amode).

Definition lit_bytes (dt : dtype) (v : Z) : list Z :=
  match dt with DByte => [v] | DHalf => le2 v | DWord => le4 v | _ => [] end.
Definition wf_lit (dt : dtype) (v : Z) : Prop :=
  match dt with DByte => 0 <= v < 256 | DHalf => 0 <= v < 65536 | DWord => 0 <= v < 4294967296 | _ => False end.

(* encoding of the operand list of an instruction whose table row has operand kinds `ots` *)
Fixpoint enc_args (dt : dtype) (ots : list optype) (args : list aarg) : list Z :=
  match ots with
  | [] => []
  | ONone :: rest => enc_args dt rest args
  | OLit :: rest => match args with ArgLit v :: more => lit_bytes dt v ++ enc_args dt rest more | _ => [] end
  | _ :: rest => match args with ArgOp t a :: more => enc_opnd t a ++ enc_args dt rest more | _ => [] end
  end.

Fixpoint args_fit (dt : dtype) (ots : list optype) (args : list aarg) : Prop :=
  match ots with
  | [] => args = []
  | ONone :: rest => args_fit dt rest args
  | OLit :: rest => match args with ArgLit v :: more => wf_lit dt v /\ args_fit dt rest more | _ => False end
  | _ :: rest => match args with ArgOp t a :: more => wf_opnd t a /\ args_fit dt rest more | _ => False end
  end.

(* what the decoded operand slots must be *)
Fixpoint ops_are (dt : dtype) (et : option dtype) (ots : list optype) (args : list aarg) (os : list operand) : Prop :=
  match ots with
  | [] => os = []
  | ONone :: rest => match os with o :: os' => o = operand_clear /\ ops_are dt et rest args os' | [] => False end
  | OLit :: rest =>
      match args, os with
      | ArgLit v :: more, o :: os' =>
          (omode o = MNone /\ oemb o = v /\ otype o = dt /\ oetype o = None /\ oreg o = None) /\ ops_are dt None rest more os'
      | _, _ => False end
  | _ :: rest =>
      match args, os with
      | ArgOp t a :: more, o :: os' => opnd_is o a dt (et_after t et) /\ ops_are dt (et_after t et) rest more os'
      | _, _ => False end
  end.

Lemma window_app_l len x y : window bs len (x ++ y) -> window bs len x.
Proof.
  intros W i Hi. specialize (W i ltac:(rewrite app_length; lia)). now rewrite app_nth1 in W by lia.
Qed.
Lemma window_app_r len x y : window bs len (x ++ y) -> window bs (len + Z.of_nat (length x)) y.
Proof.
  intros W i Hi. specialize (W (length x + i)%nat ltac:(rewrite app_length; lia)).
  rewrite app_nth2 in W by lia. replace (length x + i - length x)%nat with i in W by lia.
  now replace (len + Z.of_nat (length x + i)) with (len + Z.of_nat (length x) + Z.of_nat i) in W by lia.
Qed.

Lemma decode_literal_enc dt v len :
  wf_lit dt v -> window bs len (lit_bytes dt v) -> 0 <= len -> len + Z.of_nat (length (lit_bytes dt v)) <= 32 ->
  exists o, decode_literal_operand unit (bfetch1 bs) (bfetch2 bs) (bfetch4 bs) dt len tt
            = Ok (o, len + Z.of_nat (length (lit_bytes dt v))) tt
            /\ omode o = MNone /\ oemb o = v /\ otype o = dt /\ oetype o = None /\ oreg o = None.
Proof.
  intros Wf W H0 Hl. destruct dt; cbn [wf_lit] in Wf; try contradiction; cbn [lit_bytes decode_literal_operand] in *.
  - rewrite (acc_byte_at bs len v (window_0 _ _ _ _ W)) by (cbn in Hl; lia). cbn [bind fst snd].
    eexists; split; [f_equal; f_equal; cbn; lia|cbn; auto].
  - rewrite (acc_half_at bs len v W) by (cbn in Hl; lia). cbn [bind fst snd].
    eexists; split; [f_equal; f_equal; cbn; lia|cbn; auto].
  - rewrite (acc_word_at bs len v W) by (cbn in Hl; lia). cbn [bind fst snd].
    eexists; split; [f_equal; f_equal; cbn; lia|cbn; auto].
Qed.

Lemma decode_ops_enc mn : forall ots args et len,
  args_fit (mn_dtype mn) ots args -> window bs len (enc_args (mn_dtype mn) ots args) -> 0 <= len ->
  len + Z.of_nat (length (enc_args (mn_dtype mn) ots args)) <= 32 ->
  exists os, decode_ops unit (bfetch1 bs) (bfetch2 bs) (bfetch4 bs) mn ots et len tt
             = Ok (os, len + Z.of_nat (length (enc_args (mn_dtype mn) ots args))) tt
             /\ ops_are (mn_dtype mn) et ots args os.
Proof.
  induction ots as [|ot rest IH]; intros args et len F W H0 Hl.
  - cbn in *. exists []. split; [f_equal; f_equal; lia|reflexivity].
  - destruct ot; cbn [enc_args args_fit] in *.
    + (* literal *)
      destruct args as [|[v|t a] more]; try contradiction. destruct F as [Wv F].
      rewrite app_length in Hl.
      destruct (decode_literal_enc (mn_dtype mn) v len Wv (window_app_l _ _ _ W) H0 ltac:(lia)) as [o [E O]].
      destruct (IH more None _ F (window_app_r _ _ _ W) ltac:(lia) ltac:(lia)) as [os [E2 O2]].
      exists (o :: os). cbn [decode_ops decode_operand]. rewrite E. cbn [bind fst snd].
      replace (oetype o) with (@None dtype) by (symmetry; tauto). rewrite E2. cbn [bind fst snd].
      split; [f_equal; f_equal; rewrite app_length; lia|]. cbn [ops_are]. split; auto.
    + (* source *)
      destruct args as [|[v|t a] more]; try contradiction. destruct F as [Wo F].
      rewrite app_length in Hl.
      destruct (decode_opnd t a (mn_dtype mn) et len 3 Wo (window_app_l _ _ _ W) H0 ltac:(lia) ltac:(lia)) as [o [E O]].
      destruct (IH more (et_after t et) _ F (window_app_r _ _ _ W) ltac:(lia) ltac:(lia)) as [os [E2 O2]].
      exists (o :: os). cbn [decode_ops decode_operand]. rewrite E. cbn [bind fst snd].
      replace (oetype o) with (et_after t et) by (symmetry; apply O). rewrite E2. cbn [bind fst snd].
      split; [f_equal; f_equal; rewrite app_length; lia|]. cbn [ops_are]. split; auto.
    + (* destination *)
      destruct args as [|[v|t a] more]; try contradiction. destruct F as [Wo F].
      rewrite app_length in Hl.
      destruct (decode_opnd t a (mn_dtype mn) et len 3 Wo (window_app_l _ _ _ W) H0 ltac:(lia) ltac:(lia)) as [o [E O]].
      destruct (IH more (et_after t et) _ F (window_app_r _ _ _ W) ltac:(lia) ltac:(lia)) as [os [E2 O2]].
      exists (o :: os). cbn [decode_ops decode_operand]. rewrite E. cbn [bind fst snd].
      replace (oetype o) with (et_after t et) by (symmetry; apply O). rewrite E2. cbn [bind fst snd].
      split; [f_equal; f_equal; rewrite app_length; lia|]. cbn [ops_are]. split; auto.
    + (* unused slot *)
      destruct (IH args et len F W H0 Hl) as [os [E2 O2]].
      exists (operand_clear :: os). cbn [decode_ops]. rewrite E2. cbn [bind fst snd]. split; auto. cbn [ops_are]. auto.
Qed.

(* the instruction: opcode byte(s) from the architected table, then the operands *)
Definition opcode_bytes (mn : mnemonic) : list Z :=
  if mn_opcode mn <? 256 then [mn_opcode mn] else [48; mn_opcode mn mod 256].
Definition enc_instr (mn : mnemonic) (args : list aarg) : list Z :=
  opcode_bytes mn ++ enc_args (mn_dtype mn) (mn_ops mn) args.

Definition in_table (mn : mnemonic) : Prop :=
  (0 <= mn_opcode mn < 256 /\ mn_opcode mn <> 48 /\ lookup_mnemonic (mn_opcode mn) None = Some mn)
  \/ (12288 <= mn_opcode mn < 12544 /\ lookup_mnemonic 48 (Some (mn_opcode mn mod 256)) = Some mn).

Theorem decode_encoded_instruction mn args :
  in_table mn -> args_fit (mn_dtype mn) (mn_ops mn) args -> window bs 0 (enc_instr mn args) ->
  Z.of_nat (length (enc_instr mn args)) <= 32 ->
  exists i, decode_bytes bs = Ok i tt
    /\ iopcode i = mn_opcode mn
    /\ ilen i = Z.of_nat (length (enc_instr mn args))
    /\ exists os, ops_are (mn_dtype mn) None (mn_ops mn) args os
         /\ op0 i = nth 0 os operand_clear /\ op1 i = nth 1 os operand_clear
         /\ op2 i = nth 2 os operand_clear /\ op3 i = nth 3 os operand_clear.
Proof.
  intros T F W Hl. unfold decode_bytes, decode_instruction. unfold enc_instr in *. rewrite app_length in Hl.
  destruct T as [[Ho [N48 L]]|[Ho L]]; unfold opcode_bytes in *.
  - replace (mn_opcode mn <? 256) with true in * by lia. cbn [length app] in *.
    rewrite (acc_byte_at bs 0 _ (window_0 _ _ _ _ W)) by lia. cbn [bind fst snd].
    replace (mn_opcode mn =? 48) with false by lia. cbn [bind fst snd]. rewrite L.
    destruct (decode_ops_enc mn (mn_ops mn) args None (0 + 1) F (window_tl _ _ _ _ W) ltac:(lia) ltac:(lia)) as [os [E O]].
    rewrite E. cbn [bind fst snd]. eexists. split; [reflexivity|]. cbn [iopcode ilen op0 op1 op2 op3].
    split; [reflexivity|]. split; [lia|]. exists os. auto.
  - replace (mn_opcode mn <? 256) with false in * by lia. cbn [length app] in *.
    rewrite (acc_byte_at bs 0 _ (window_0 _ _ _ _ W)) by lia. cbn [bind fst snd].
    change (48 =? 48) with true. cbv iota.
    rewrite (acc_byte_at bs (0 + 1) _ (window_0 _ _ _ _ (window_tl _ _ _ _ W))) by lia. cbn [bind fst snd]. rewrite L.
    destruct (decode_ops_enc mn (mn_ops mn) args None (0 + 1 + 1) F (window_tl _ _ _ _ (window_tl _ _ _ _ W)) ltac:(lia) ltac:(lia)) as [os [E O]].
    rewrite E. cbn [bind fst snd]. eexists. split; [reflexivity|]. cbn [iopcode ilen op0 op1 op2 op3].
    split; [reflexivity|]. split; [lia|]. exists os. auto.
Qed.
End OnBytes2.

(* the premises are met, e.g.  ADDW3 {sbyte}4(%r1), $0x12345678, *$0x700100  : 15 bytes *)
Example encoded_instruction_example :
  let mn := mkMn 220 DWord 0 [OSrc; OSrc; ODest; ONone] in
  let args := [ArgOp (Some DSByte) (A_Disp DispB false 1 4); ArgOp None (A_Abs 305419896); ArgOp None (A_AbsDef 7340288)] in
  args_fit DWord (mn_ops mn) args
  /\ enc_instr mn args = [220; 231; 193; 4; 127; 120; 86; 52; 18; 239; 0; 1; 112; 0].
Proof. cbv zeta. split; [cbn; repeat split; try lia; discriminate | reflexivity]. Qed.
