(* The DUART's register file refines two independent ports (C08, C09 at the device's register interface).
   `chan_op` is the register map read as a function: which port operation a device operation performs on a
   channel (if any).  `dstep_chan` shows the device does exactly that to the channel's port and nothing else, for
   every operation (every offset, every value, host side calls, mouse events, interrupt polls).  The port-level
   theorems then lift to arbitrary device histories in which the two channels, the mouse and the interrupt logic
   interleave freely. *)
From Coq Require Import ZArith Lia Bool List.
From Dmd Require Import Model.Bits Model.Fifo Model.Mem Model.Duart.
From Dmd Require Import Proofs.BitsLemmas Proofs.BitKit Proofs.FifoProofs Proofs.PortProofs Proofs.DuartProofs.
Import ListNotations.
Open Scope Z_scope.

Local Arguments bset : simpl never.
Local Arguments clr8 : simpl never.
Local Arguments Z.lor : simpl never.
Local Arguments Z.land : simpl never.
Local Arguments Z.gtb : simpl never.
Local Arguments delay_rate : simpl never.

Notation pstepz := (@pstep Z is02z).
Notation popz := (@pop Z).

(* b = false: channel A (RS-232, registers 0x03..0x0f); b = true: channel B (keyboard, registers 0x23..0x2f) *)
Definition chan_base (b : bool) : Z := if b then 32 else 0.
Definition port_of (b : bool) (d : duart) : port Z := if b then pb d else pa d.

Definition chan_op (b : bool) (o : dop) (d : duart) : option popz :=
  match o with
  | DRead off =>
    let off := w8 off in
    if off =? chan_base b + 3 then Some (@PReadMode Z)
    else if off =? chan_base b + 15 then Some (@PRead Z) else None
  | DWrite off v =>
    let off := w8 off in let v := w8 v in
    if off =? chan_base b + 3 then Some (PWriteMode v)
    else if off =? chan_base b + 7 then Some (PSetDelay (delay_rate v (acr d)))
    else if off =? chan_base b + 11 then Some (PCmd v)
    else if off =? chan_base b + 15 then Some (PWriteThr v)
    else None
  | DSvc tm => Some (PSvc tm b)
  | DGetInt _ => None
  | DRxA c => if b then None else Some (PEnq c)
  | DRxB c => if b then Some (PEnq c) else None
  | DTxA => if b then None else Some (@PPoll Z)
  | DTxB => if b then Some (@PPoll Z) else None
  | DMouseDown _ | DMouseUp _ => None
  end.

Ltac closed_eqb :=
  repeat match goal with
         | |- context [Z.eqb ?a ?c] =>
           closed_z a; closed_z c;
           let v := eval vm_compute in (Z.eqb a c) in change (Z.eqb a c) with v
         end.

Ltac off_cases x :=
  repeat match goal with
         | |- context [x =? ?n] => destruct (Z.eqb_spec x n) as [->|?]; closed_eqb; cbv iota
         end.

(* the register map: each device operation is one port operation on a channel, or leaves that channel's port alone *)
Lemma dstep_chan b o d :
  port_of b (dstep o d) = match chan_op b o d with Some po => pstepz po (port_of b d) | None => port_of b d end.
Proof.
  destruct o; cbn [dstep chan_op].
  - unfold duart_read_byte. cbv zeta. remember (w8 off) as x eqn:Ex. clear Ex.
    destruct b; unfold chan_base; cbn [Z.add Pos.add Pos.succ port_of];
      off_cases x; try lia; cbn [port_of pstep];
      repeat match goal with |- context [let (_, _) := ?e in _] => destruct e eqn:? end;
      cbn; try reflexivity;
      repeat match goal with H : _ = (_, _) |- _ => cbn in H; rewrite H; clear H end; reflexivity.
  - unfold duart_write_byte. cbv zeta. remember (w8 off) as x eqn:Ex. clear Ex.
    destruct b; unfold chan_base; cbn [Z.add Pos.add Pos.succ port_of];
      off_cases x; try lia; cbn [port_of pstep]; try reflexivity;
      unfold handle_command, isr_clr, isr_set, ivec_clr, ivec_set; closed_eqb; cbv iota zeta;
      repeat match goal with |- context [if ?c then _ else _] => destruct c end; reflexivity.
  - destruct b; reflexivity.
  - unfold get_interrupt, vertical_blank, isr_set, ivec_set.
    repeat match goal with |- context [if ?c then _ else _] => destruct c end; destruct b; reflexivity.
  - destruct b; reflexivity.
  - destruct b; reflexivity.
  - unfold duart_rs232_tx. destruct b; cbn; destruct (host_poll (pa d)); reflexivity.
  - unfold duart_keyboard_tx. destruct b; cbn; destruct (host_poll (pb d)); reflexivity.
  - unfold mouse_down. repeat match goal with |- context [if ?c then _ else _] => destruct c end; destruct b; reflexivity.
  - unfold mouse_up. repeat match goal with |- context [if ?c then _ else _] => destruct c end; destruct b; reflexivity.
Qed.

(* an operation addressed to one channel leaves the other channel's port exactly as it was *)
Lemma other_channel_untouched b o d :
  chan_op b o d = None -> port_of b (dstep o d) = port_of b d.
Proof. intros H. rewrite dstep_chan, H. reflexivity. Qed.

Lemma dinv_port b d : DInv d -> PInv (port_of b d).
Proof. intros [Ia Ib]. destruct b; assumption. Qed.

(* the whole history of a channel's port is the history of the port operations the register map assigns to it *)
Fixpoint chan_ops (b : bool) (ops : list dop) (d : duart) : list popz :=
  match ops with
  | [] => []
  | o :: t => (match chan_op b o d with Some po => [po] | None => [] end) ++ chan_ops b t (dstep o d)
  end.

Lemma drun_chan b ops d :
  port_of b (drun ops d) = fold_left (fun p po => pstepz po p) (chan_ops b ops d) (port_of b d).
Proof.
  revert d. induction ops as [|o t IH]; intros d; cbn [drun chan_ops]; [reflexivity|].
  rewrite fold_left_app, IH, dstep_chan. destruct (chan_op b o d); reflexivity.
Qed.

(* ---- C08 at the register interface ---- *)
Definition read_val (off : Z) (d : duart) : Z :=
  match duart_read_byte off d with ROk (v, _) => v | _ => 0 end.

(* mode writes that would select local loop-back on this channel are excluded (C08 is about host traffic) *)
Definition dev_no_lb (b : bool) (o : dop) : bool :=
  match o with
  | DWrite off v => negb ((w8 off =? chan_base b + 3) && (Z.land (w8 v) 192 =? 128))
  | _ => true
  end.

(* ghost run: E = bytes the host queued for this channel, D = bytes the guest read from this channel's receive
   register while its status register showed RxRDY *)
Fixpoint drx_run (b : bool) (ops : list dop) (d : duart) (E D : list Z) : duart * list Z * list Z :=
  match ops with
  | [] => (d, E, D)
  | o :: t =>
    let E' := match o with
              | DRxA c => if b then E else E ++ [c]
              | DRxB c => if b then E ++ [c] else E
              | _ => E end in
    let D' := match o with
              | DRead off => if (w8 off =? chan_base b + 15) && bset (stat (port_of b d)) STS_RXR
                             then D ++ [read_val off d] else D
              | _ => D end in
    drx_run b t (dstep o d) E' D'
  end.

Lemma w8_idem x : w8 (w8 x) = w8 x.
Proof. unfold w8. apply Z.mod_mod. lia. Qed.

Lemma read_val_rhr b off d :
  DInv d -> w8 off = chan_base b + 15 -> bset (stat (port_of b d)) STS_RXR = true ->
  [read_val off d] = olist (fst (rx_read_char (port_of b d))).
Proof.
  intros I Eo Rx. pose proof (dinv_port b d I) as Ip.
  destruct (rx_read_char_spec 0 is02z (port_of b d) Ip) as (_ & _ & _ & _ & _ & _ & _ & _ & _ & _ & Hr & _).
  specialize (Hr Rx).
  unfold read_val, duart_read_byte. cbv zeta. rewrite Eo.
  destruct b; unfold chan_base; cbn [Z.add Pos.add Pos.succ]; closed_eqb; cbv iota; cbn [port_of] in *.
  - change (pb (ivec_clr (isr_clr d ISTS_RBI) KEYBOARD_INT)) with (pb d).
    destruct (rx_read_char (pb d)) as [[c|] p']; cbn in *; [reflexivity | congruence].
  - change (pa (ivec_clr (isr_clr d ISTS_RAI) RX_INT)) with (pa d).
    destruct (rx_read_char (pa d)) as [[c|] p']; cbn in *; [reflexivity | congruence].
Qed.

Lemma drx_step b o d E D :
  DInv d -> loopback (port_of b d) = false -> dev_no_lb b o = true ->
  subseq (D ++ rx_pipe (port_of b d)) E ->
  let E' := match o with
            | DRxA c => if b then E else E ++ [c]
            | DRxB c => if b then E ++ [c] else E
            | _ => E end in
  let D' := match o with
            | DRead off => if (w8 off =? chan_base b + 15) && bset (stat (port_of b d)) STS_RXR
                           then D ++ [read_val off d] else D
            | _ => D end in
  subseq (D' ++ rx_pipe (port_of b (dstep o d))) E' /\ loopback (port_of b (dstep o d)) = false.
Proof.
  intros I Lb Ok H. pose proof (dinv_port b d I) as Ip. cbv zeta.
  rewrite dstep_chan.
  assert (Step : forall po, no_lb_op po = true ->
            subseq ((match po with
                     | PRead => if bset (stat (port_of b d)) STS_RXR
                                then D ++ olist (fst (rx_read_char (port_of b d))) else D
                     | _ => D end) ++ rx_pipe (pstepz po (port_of b d)))
                   (match po with PEnq a => E ++ [a] | _ => E end)
            /\ loopback (pstepz po (port_of b d)) = false).
  { intros po Hpo. split; [apply (rx_step_subseq 0 is02z); assumption | apply (loopback_step 0 is02z); assumption]. }
  destruct o; cbn [chan_op dev_no_lb] in *.
  - remember (w8 off) as x eqn:Ex.
    destruct (Z.eqb_spec x (chan_base b + 3)) as [E3|N3].
    + assert (N15 : (x =? chan_base b + 15) = false) by (apply Z.eqb_neq; lia).
      rewrite N15. cbn [andb]. exact (Step (@PReadMode Z) eq_refl).
    + destruct (Z.eqb_spec x (chan_base b + 15)) as [E15|N15]; cbn [andb].
      * destruct (bset (stat (port_of b d)) STS_RXR) eqn:Rx.
        -- rewrite (read_val_rhr b off d I) by (try assumption; congruence).
           pose proof (Step (@PRead Z) eq_refl) as S. cbv iota in S. exact S.
        -- pose proof (Step (@PRead Z) eq_refl) as S. cbv iota in S. exact S.
      * split; assumption.
  - remember (w8 off) as x eqn:Ex.
    destruct (Z.eqb_spec x (chan_base b + 3)) as [E3|N3].
    + cbn [andb] in Ok. apply (Step (PWriteMode (w8 v))). cbn. exact Ok.
    + destruct (Z.eqb_spec x (chan_base b + 7)); [exact (Step (PSetDelay _) eq_refl)|].
      destruct (Z.eqb_spec x (chan_base b + 11)); [exact (Step (PCmd _) eq_refl)|].
      destruct (Z.eqb_spec x (chan_base b + 15)); [exact (Step (PWriteThr _) eq_refl)|].
      split; assumption.
  - exact (Step (PSvc tm b) eq_refl).
  - split; assumption.
  - destruct b; [split; assumption | exact (Step (PEnq c) eq_refl)].
  - destruct b; [exact (Step (PEnq c) eq_refl) | split; assumption].
  - destruct b; [split; assumption | exact (Step (@PPoll Z) eq_refl)].
  - destruct b; [exact (Step (@PPoll Z) eq_refl) | split; assumption].
  - split; assumption.
  - split; assumption.
Qed.

(* every history of device operations -- register reads and writes at any offset with any value, service at any
   times, interrupt polls, host enqueues and polls on both channels, mouse events -- keeps, per channel:
   bytes read while ready ++ bytes still in the pipeline  is an in-order subsequence of  bytes the host queued *)
Theorem device_rx_in_order_once b ops d E D :
  DInv d -> loopback (port_of b d) = false -> forallb (dev_no_lb b) ops = true ->
  subseq (D ++ rx_pipe (port_of b d)) E ->
  let '(d', E', D') := drx_run b ops d E D in subseq (D' ++ rx_pipe (port_of b d')) E'.
Proof.
  revert d E D. induction ops as [|o t IH]; intros d E D I Lb Ok H; cbn [drx_run]; [exact H|].
  cbn [forallb] in Ok. apply andb_true_iff in Ok as [Ok1 Ok2].
  destruct (drx_step b o d E D I Lb Ok1 H) as [S L].
  apply IH; [apply dinv_step; exact I | exact L | exact Ok2 | exact S].
Qed.

Lemma subseq_app_l (D P E : list Z) : subseq (D ++ P) E -> subseq D E.
Proof.
  intros H. rewrite <- (app_nil_r D). apply (subseq_drop_mid D P []). rewrite app_nil_r. exact H.
Qed.

Theorem device_rx_delivered_subseq b ops tm :
  forallb (dev_no_lb b) ops = true ->
  let '(_, E', D') := drx_run b ops (duart_new tm) [] [] in subseq D' E'.
Proof.
  intros Ok.
  pose proof (device_rx_in_order_once b ops (duart_new tm) [] [] (dinv_new tm)) as H.
  destruct (drx_run b ops (duart_new tm) [] []) as [[d' E'] D'].
  apply (subseq_app_l D' (rx_pipe (port_of b d'))). apply H.
  - destruct b; reflexivity.
  - exact Ok.
  - destruct b; cbn; constructor.
Qed.

(* ---- C09 at the register interface ---- *)
Definition dev_tx_ok (b : bool) (d : duart) (o : dop) : bool :=
  match o with
  | DWrite off v =>
    let off := w8 off in let v := w8 v in
    if off =? chan_base b + 3 then negb (Z.land v 192 =? 128)
    else if off =? chan_base b + 11 then negb (is_reset_tx v)
    else if off =? chan_base b + 15 then bset (stat (port_of b d)) STS_TXR
    else true
  | _ => true
  end.

(* ghost run: W = bytes the guest wrote to this channel's transmit register (while TxRDY), Q = bytes the host's
   polls of this channel returned *)
Fixpoint dtx_run (b : bool) (ops : list dop) (d : duart) (W Q : list Z) : option (duart * list Z * list Z) :=
  match ops with
  | [] => Some (d, W, Q)
  | o :: t =>
    if dev_tx_ok b d o then
      let W' := match o with
                | DWrite off v => if w8 off =? chan_base b + 15 then W ++ [w8 v] else W
                | _ => W end in
      let Q' := match o with
                | DTxA => if b then Q else Q ++ olist (fst (duart_rs232_tx d))
                | DTxB => if b then Q ++ olist (fst (duart_keyboard_tx d)) else Q
                | _ => Q end in
      dtx_run b t (dstep o d) W' Q'
    else None
  end.

Lemma dtx_step b o d W Q :
  DInv d -> loopback (port_of b d) = false -> dev_tx_ok b d o = true -> Q ++ tx_pipe (port_of b d) = W ->
  let W' := match o with
            | DWrite off v => if w8 off =? chan_base b + 15 then W ++ [w8 v] else W
            | _ => W end in
  let Q' := match o with
            | DTxA => if b then Q else Q ++ olist (fst (duart_rs232_tx d))
            | DTxB => if b then Q ++ olist (fst (duart_keyboard_tx d)) else Q
            | _ => Q end in
  Q' ++ tx_pipe (port_of b (dstep o d)) = W' /\ loopback (port_of b (dstep o d)) = false.
Proof.
  intros I Lb Ok H. pose proof (dinv_port b d I) as Ip. cbv zeta.
  rewrite dstep_chan.
  assert (Step : forall po, tx_ok_op (port_of b d) po = true ->
            (match po with PPoll => Q ++ olist (fst (host_poll (port_of b d))) | _ => Q end)
              ++ tx_pipe (pstepz po (port_of b d))
            = (match po with PWriteThr a => W ++ [a] | _ => W end)
            /\ loopback (pstepz po (port_of b d)) = false).
  { intros po Hpo. split; [apply (tx_step_exact 0 is02z); assumption|].
    apply (loopback_step 0 is02z); try assumption.
    destruct po; try reflexivity. cbn in Hpo |- *. exact Hpo. }
  destruct o; cbn [chan_op dev_tx_ok] in *.
  - remember (w8 off) as x eqn:Ex.
    destruct (Z.eqb_spec x (chan_base b + 3)); [exact (Step (@PReadMode Z) eq_refl)|].
    destruct (Z.eqb_spec x (chan_base b + 15)); [exact (Step (@PRead Z) eq_refl)|].
    split; assumption.
  - cbv zeta in Ok. remember (w8 off) as x eqn:Ex.
    destruct (Z.eqb_spec x (chan_base b + 3)) as [E3|N3].
    + assert (N15 : (x =? chan_base b + 15) = false) by (apply Z.eqb_neq; lia). rewrite N15.
      apply (Step (PWriteMode (w8 v))). cbn. exact Ok.
    + destruct (Z.eqb_spec x (chan_base b + 7)) as [E7|N7].
      { assert (N15 : (x =? chan_base b + 15) = false) by (apply Z.eqb_neq; lia). rewrite N15.
        exact (Step (PSetDelay _) eq_refl). }
      destruct (Z.eqb_spec x (chan_base b + 11)) as [E11|N11].
      { assert (N15 : (x =? chan_base b + 15) = false) by (apply Z.eqb_neq; lia). rewrite N15.
        apply (Step (PCmd (w8 v))). cbn. exact Ok. }
      destruct (Z.eqb_spec x (chan_base b + 15)) as [E15|N15].
      { apply (Step (PWriteThr (w8 v))). cbn. exact Ok. }
      split; assumption.
  - exact (Step (PSvc tm b) eq_refl).
  - split; assumption.
  - destruct b; [split; assumption | exact (Step (PEnq c) eq_refl)].
  - destruct b; [exact (Step (PEnq c) eq_refl) | split; assumption].
  - destruct b; [split; assumption|].
    pose proof (Step (@PPoll Z) eq_refl) as S. cbv iota in S. unfold duart_rs232_tx.
    cbn [port_of] in *. destruct (host_poll (pa d)); exact S.
  - destruct b; [|split; assumption].
    pose proof (Step (@PPoll Z) eq_refl) as S. cbv iota in S. unfold duart_keyboard_tx.
    cbn [port_of] in *. destruct (host_poll (pb d)); exact S.
  - split; assumption.
  - split; assumption.
Qed.

(* every device history whose transmit-register writes on this channel are made while its status shows TxRDY,
   without reset-transmitter and loop-back on this channel, and with anything at all happening on the other channel,
   the mouse and the interrupt logic:  polled bytes ++ pipeline = written bytes, exactly *)
Theorem device_tx_exactly_once_in_order b ops d W Q :
  DInv d -> loopback (port_of b d) = false -> Q ++ tx_pipe (port_of b d) = W ->
  match dtx_run b ops d W Q with
  | Some (d', W', Q') => Q' ++ tx_pipe (port_of b d') = W'
  | None => True
  end.
Proof.
  revert d W Q. induction ops as [|o t IH]; intros d W Q I Lb H; cbn [dtx_run]; [exact H|].
  destruct (dev_tx_ok b d o) eqn:Ok; [|exact Logic.I].
  destruct (dtx_step b o d W Q I Lb Ok H) as [S L].
  apply IH; [apply dinv_step; exact I | exact L | exact S].
Qed.

(* the premises are satisfiable and the runs are not trivial: a concrete history on each channel *)
Example device_runs_nontrivial :
  (let '(_, E, D) := drx_run false [DWrite 11 1; DRxA 65; DRxA 66; DSvc 2000000; DSvc 4000000; DRead 15; DRxB 9; DRead 15]
                               (duart_new 0) [] [] in (E, D)) = ([65; 66], [65; 66])
  /\ (match dtx_run true [DWrite 43 4; DWrite 47 65; DSvc 2000000; DSvc 4000000; DMouseDown 1; DTxB]
                    (duart_new 0) [] [] with Some (_, W, Q) => Some (W, Q) | None => None end) = Some ([65], [65]).
Proof. vm_compute. split; reflexivity. Qed.
