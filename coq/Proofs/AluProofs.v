(* C02: the arithmetic the ALU arms perform, against mathematical definitions on Z. *)
From Coq Require Import ZArith Lia Bool List.
From Dmd Require Import Model.Bits Model.Types Model.Bus Model.Cpu Gen.GenOpcodes Gen.GenDispatch.
From Dmd Require Import Proofs.BitsLemmas Proofs.BitKit.
Open Scope Z_scope.

(* ---- results ---- *)
Lemma add_result_mod a b : w32 (a + b) = (a + b) mod 2 ^ 32.
Proof. reflexivity. Qed.
Lemma sub_result_mod a b : w32 (a - b) = (a - b) mod 2 ^ 32.
Proof. reflexivity. Qed.
Lemma mul_result_mod a b : w32 (a * b) = (a * b) mod 2 ^ 32.
Proof. reflexivity. Qed.

(* the low `size` bits of a 32-bit result are the result modulo 2^size: what a memory store of that size keeps *)
Lemma low_bits_of_sum a b : w8 (w32 (a + b)) = (a + b) mod 256 /\ w16 (w32 (a + b)) = (a + b) mod 65536.
Proof. unfold w8, w16, w32. split; lia. Qed.
Lemma low_bits_of_diff a b : w8 (w32 (a - b)) = (a - b) mod 256 /\ w16 (w32 (a - b)) = (a - b) mod 65536.
Proof. unfold w8, w16, w32. split; lia. Qed.
Lemma low_bits_of_prod a b : w8 (w32 (a * b)) = (a * b) mod 256 /\ w16 (w32 (a * b)) = (a * b) mod 65536.
Proof. unfold w8, w16, w32. split; lia. Qed.

(* ---- carry / borrow ---- *)
Lemma add_carry_word a b : 0 <= a < 2 ^ 32 -> 0 <= b < 2 ^ 32 ->
  (a + b >? 4294967295) = true <-> 2 ^ 32 <= a + b.
Proof. intros. rewrite Z.gtb_lt. lia. Qed.
Lemma add_carry_byte a b : 0 <= a < 256 -> 0 <= b < 256 ->
  (a + b >? 255) = true <-> 256 <= a + b.
Proof. intros. rewrite Z.gtb_lt. lia. Qed.

(* sub / cmp: C = (b > a) is the unsigned borrow of a - b; for halfword operands (sign-extended to 32 bits by
   read_op) the order of the extended values is the unsigned order of the halfwords *)
Lemma sext16_unsigned_order x y :
  (sext16 y >? sext16 x) = (w16 y >? w16 x).
Proof.
  pose proof (w16_range x). pose proof (w16_range y).
  destruct (Z.gtb_spec (sext16 y) (sext16 x)) as [G|G]; destruct (Z.gtb_spec (w16 y) (w16 x)) as [G'|G']; auto;
    exfalso; unfold sext16 in G;
    destruct (w16 x <? 32768) eqn:Ex; destruct (w16 y <? 32768) eqn:Ey;
    try (apply Z.ltb_lt in Ex); try (apply Z.ltb_ge in Ex); try (apply Z.ltb_lt in Ey); try (apply Z.ltb_ge in Ey); lia.
Qed.

Lemma sub_borrow_word a b : (b >? a) = true <-> a - b < 0.
Proof. rewrite Z.gtb_lt. lia. Qed.

(* CMP: the three flags at each size *)
Lemma cmp_word a b : 0 <= a < 2 ^ 32 -> 0 <= b < 2 ^ 32 ->
  ((b =? a) = true <-> b = a) /\ ((s32 b <? s32 a) = true <-> s32 b < s32 a) /\ ((b <? a) = true <-> b < a).
Proof. intros. rewrite Z.eqb_eq, !Z.ltb_lt. tauto. Qed.
Lemma cmp_half a b :
  ((w16 b =? w16 a) = true <-> b mod 65536 = a mod 65536)
  /\ ((s16 b <? s16 a) = true <-> s16 b < s16 a) /\ ((w16 b <? w16 a) = true <-> b mod 65536 < a mod 65536).
Proof. unfold w16. rewrite Z.eqb_eq, !Z.ltb_lt. tauto. Qed.
Lemma cmp_byte a b :
  ((w8 b =? w8 a) = true <-> b mod 256 = a mod 256)
  /\ ((w8 b <? w8 a) = true <-> b mod 256 < a mod 256).
Proof. unfold w8. rewrite Z.eqb_eq, !Z.ltb_lt. tauto. Qed.

(* ---- signed overflow of word additions: the (a ^ ~b) & (a ^ r) formula ---- *)
Ltac Zify.zify_post_hook ::= Z.div_mod_to_equations.

Lemma testbit31_spec x : 0 <= x < 4294967296 -> Z.testbit x 31 = (2147483648 <=? x).
Proof.
  intros H. rewrite Z.testbit_odd, Z.shiftr_div_pow2 by lia. change (2 ^ 31) with 2147483648.
  destruct (2147483648 <=? x) eqn:E.
  - apply Z.leb_le in E. assert (x / 2147483648 = 1) as -> by lia. reflexivity.
  - apply Z.leb_gt in E. assert (x / 2147483648 = 0) as -> by lia. reflexivity.
Qed.

Lemma not32_testbit x k : 0 <= x < 4294967296 -> 0 <= k < 32 -> Z.testbit (not32 x) k = negb (Z.testbit x k).
Proof.
  intros Hx Hk. unfold not32. replace (4294967295 - x) with (Z.lnot x + 1 * 2 ^ 32) by (unfold Z.lnot; lia).
  rewrite <- Z.mod_pow2_bits_low with (n := 32) by lia.
  rewrite Z.mod_add by lia. rewrite Z.mod_pow2_bits_low by lia. apply Z.lnot_spec. lia.
Qed.

Lemma add_overflow_word a b :
  0 <= a < 4294967296 -> 0 <= b < 4294967296 ->
  bset (Z.land (Z.lxor a (not32 b)) (Z.lxor a (w32 (a + b)))) 2147483648
  = negb ((-2147483648 <=? s32 a + s32 b) && (s32 a + s32 b <? 2147483648)).
Proof.
  intros Ha Hb. change 2147483648 with (2 ^ 31) at 1. rewrite bset_pow2 by lia.
  rewrite Z.land_spec, !Z.lxor_spec, not32_testbit by lia.
  pose proof (w32_range (a + b)) as Hr.
  rewrite !testbit31_spec by lia.
  assert (Hw : w32 (a + b) = a + b \/ w32 (a + b) = a + b - 4294967296).
  { unfold w32. destruct (Z_lt_le_dec (a + b) 4294967296).
    - left. apply Z.mod_small. lia.
    - right. symmetry. apply Z.mod_unique with (q := 1); lia. }
  unfold s32.
  destruct (a <? 2147483648) eqn:Ea; destruct (b <? 2147483648) eqn:Eb;
    destruct (2147483648 <=? a) eqn:Ea'; destruct (2147483648 <=? b) eqn:Eb';
    destruct (2147483648 <=? w32 (a + b)) eqn:Er; cbn [negb xorb andb];
    try (apply Z.ltb_lt in Ea); try (apply Z.ltb_ge in Ea); try (apply Z.ltb_lt in Eb); try (apply Z.ltb_ge in Eb);
    try (apply Z.leb_le in Ea'); try (apply Z.leb_gt in Ea'); try (apply Z.leb_le in Eb'); try (apply Z.leb_gt in Eb');
    try (apply Z.leb_le in Er); try (apply Z.leb_gt in Er); try lia;
    symmetry; rewrite ?negb_true_iff, ?negb_false_iff, ?andb_true_iff, ?andb_false_iff, ?Z.leb_le, ?Z.leb_gt, ?Z.ltb_lt, ?Z.ltb_ge; lia.
Qed.

(* ---- division and remainder ---- *)
Lemma div_word_spec a b q : div_val a b DWord = Some q ->
  s32 a <> 0 /\ q = w32 (Z.quot (s32 b) (s32 a)).
Proof.
  unfold div_val. destruct (s32 a =? 0) eqn:E; [discriminate|]. intros H; inversion H.
  apply Z.eqb_neq in E. auto.
Qed.
Lemma mod_word_spec a b q : mod_val a b DWord = Some q ->
  s32 a <> 0 /\ q = w32 (Z.rem (s32 b) (s32 a)).
Proof.
  unfold mod_val. destruct (s32 a =? 0) eqn:E; [discriminate|]. intros H; inversion H.
  apply Z.eqb_neq in E. auto.
Qed.
Lemma div_half_spec a b q : div_val a b DHalf = Some q ->
  s16 a <> 0 /\ q = sext16 (w16 (Z.quot (s16 b) (s16 a))).
Proof.
  unfold div_val. destruct (s16 a =? 0) eqn:E; [discriminate|]. intros H; inversion H.
  apply Z.eqb_neq in E. auto.
Qed.
Lemma div_byte_spec a b q : div_val a b DByte = Some q -> w8 a <> 0 /\ q = w8 b / w8 a.
Proof.
  unfold div_val. destruct (w8 a =? 0) eqn:E; [discriminate|]. intros H; inversion H.
  apply Z.eqb_neq in E. auto.
Qed.

(* the most negative value divided by minus one wraps (no failure) *)
Lemma min_div_minus_one_wraps :
  div_val 4294967295 2147483648 DWord = Some 2147483648
  /\ mod_val 4294967295 2147483648 DWord = Some 0
  /\ div_val 4294967295 4294934528 DHalf = Some 4294934528
  /\ mod_val 4294967295 4294934528 DHalf = Some 0.
Proof. vm_compute. auto. Qed.

(* a zero divisor (at the operand size) is reported, never computed with *)
Lemma div_zero_none a b t : (match t with DWord => s32 a | DHalf => s16 a | DSByte => s8 a | DUHalf => w16 a
                                     | DByte => w8 a | _ => a end) = 0 ->
  div_val a b t = None /\ mod_val a b t = None.
Proof. intros H. unfold div_val, mod_val. destruct t; rewrite H; auto. Qed.

(* ---- shifts ---- *)
Lemma lls_spec a n : 0 <= n -> w32 (Z.shiftl a n) = (a * 2 ^ n) mod 2 ^ 32.
Proof. intros. unfold w32. now rewrite Z.shiftl_mul_pow2. Qed.
Lemma lrs_spec a n : 0 <= n -> Z.shiftr a n = a / 2 ^ n.
Proof. intros. now rewrite Z.shiftr_div_pow2. Qed.
Lemma ars_word_spec a n : 0 <= n -> w32 (Z.shiftr (s32 a) n) = (s32 a / 2 ^ n) mod 2 ^ 32.
Proof. intros. unfold w32. now rewrite Z.shiftr_div_pow2. Qed.
Lemma ars_half_spec a n : 0 <= n -> w32 (Z.shiftr (s16 a) n) = (s16 a / 2 ^ n) mod 2 ^ 32.
Proof. intros. unfold w32. now rewrite Z.shiftr_div_pow2. Qed.
Lemma ars_byte_unsigned_spec a n : 0 <= n -> Z.shiftr (w8 a) n = (a mod 256) / 2 ^ n.
Proof. intros. unfold w8. now rewrite Z.shiftr_div_pow2. Qed.

(* ---- which arm each data-processing opcode takes ---- *)
Ltac arm := intros H; unfold exec; rewrite H; reflexivity.

Lemma exec_and2 ir m : iopcode ir = 184 \/ iopcode ir = 186 \/ iopcode ir = 187 -> exec ir m = alu_std ir Z.land 1 m.
Proof. intros [H|[H|H]]; unfold exec; rewrite H; reflexivity. Qed.
Lemma exec_and3 ir m : iopcode ir = 248 \/ iopcode ir = 250 \/ iopcode ir = 251 -> exec ir m = alu_std ir Z.land 2 m.
Proof. intros [H|[H|H]]; unfold exec; rewrite H; reflexivity. Qed.
Lemma exec_or2 ir m : iopcode ir = 176 \/ iopcode ir = 178 \/ iopcode ir = 179 -> exec ir m = alu_std ir Z.lor 1 m.
Proof. intros [H|[H|H]]; unfold exec; rewrite H; reflexivity. Qed.
Lemma exec_or3 ir m : iopcode ir = 240 \/ iopcode ir = 242 \/ iopcode ir = 243 -> exec ir m = alu_std ir Z.lor 2 m.
Proof. intros [H|[H|H]]; unfold exec; rewrite H; reflexivity. Qed.
Lemma exec_xor2 ir m : iopcode ir = 180 \/ iopcode ir = 182 \/ iopcode ir = 183 -> exec ir m = alu_std ir Z.lxor 1 m.
Proof. intros [H|[H|H]]; unfold exec; rewrite H; reflexivity. Qed.
Lemma exec_xor3 ir m : iopcode ir = 244 \/ iopcode ir = 246 \/ iopcode ir = 247 -> exec ir m = alu_std ir Z.lxor 2 m.
Proof. intros [H|[H|H]]; unfold exec; rewrite H; reflexivity. Qed.
Lemma exec_mul2 ir m : iopcode ir = 168 \/ iopcode ir = 170 \/ iopcode ir = 171 ->
  exec ir m = alu_std ir (fun a b => w32 (a * b)) 1 m.
Proof. intros [H|[H|H]]; unfold exec; rewrite H; reflexivity. Qed.
Lemma exec_mul3 ir m : iopcode ir = 232 \/ iopcode ir = 234 \/ iopcode ir = 235 ->
  exec ir m = alu_std ir (fun a b => w32 (a * b)) 2 m.
Proof. intros [H|[H|H]]; unfold exec; rewrite H; reflexivity. Qed.
Lemma exec_add2 ir m : iopcode ir = 156 \/ iopcode ir = 158 \/ iopcode ir = 159 ->
  exec ir m = bind (read_op ir 0 m) (fun a m => bind (read_op ir 1 m) (fun b m =>
              bind (add_op ir a b 1 m) (fun _ m => Ok (ilen ir) m))).
Proof. intros [H|[H|H]]; unfold exec; rewrite H; reflexivity. Qed.
Lemma exec_add3 ir m : iopcode ir = 220 \/ iopcode ir = 222 \/ iopcode ir = 223 ->
  exec ir m = bind (read_op ir 0 m) (fun a m => bind (read_op ir 1 m) (fun b m =>
              bind (add_op ir a b 2 m) (fun _ m => Ok (ilen ir) m))).
Proof. intros [H|[H|H]]; unfold exec; rewrite H; reflexivity. Qed.
Lemma exec_sub2 ir m : iopcode ir = 188 \/ iopcode ir = 190 \/ iopcode ir = 191 ->
  exec ir m = bind (read_op ir 1 m) (fun a m => bind (read_op ir 0 m) (fun b m =>
              bind (sub_op ir a b 1 m) (fun _ m => Ok (ilen ir) m))).
Proof. intros [H|[H|H]]; unfold exec; rewrite H; reflexivity. Qed.
Lemma exec_sub3 ir m : iopcode ir = 252 \/ iopcode ir = 254 \/ iopcode ir = 255 ->
  exec ir m = bind (read_op ir 1 m) (fun a m => bind (read_op ir 0 m) (fun b m =>
              bind (sub_op ir a b 2 m) (fun _ m => Ok (ilen ir) m))).
Proof. intros [H|[H|H]]; unfold exec; rewrite H; reflexivity. Qed.
Lemma exec_inc ir m : iopcode ir = 144 \/ iopcode ir = 146 \/ iopcode ir = 147 ->
  exec ir m = bind (read_op ir 0 m) (fun a m => bind (add_op ir a 1 0 m) (fun _ m => Ok (ilen ir) m)).
Proof. intros [H|[H|H]]; unfold exec; rewrite H; reflexivity. Qed.
Lemma exec_dec ir m : iopcode ir = 148 \/ iopcode ir = 150 \/ iopcode ir = 151 ->
  exec ir m = bind (read_op ir 0 m) (fun a m => bind (sub_op ir a 1 0 m) (fun _ m => Ok (ilen ir) m)).
Proof. intros [H|[H|H]]; unfold exec; rewrite H; reflexivity. Qed.
Lemma exec_div ir m :
  (iopcode ir = 172 -> exec ir m = div_arm ir 1 4294967295 2147483648 m)
  /\ (iopcode ir = 174 -> exec ir m = div_arm ir 1 65535 32768 m)
  /\ (iopcode ir = 175 -> exec ir m = div_arm ir 1 255 128 m)
  /\ (iopcode ir = 236 -> exec ir m = div_arm ir 2 4294967295 2147483648 m)
  /\ (iopcode ir = 238 -> exec ir m = div_arm ir 2 65535 32768 m)
  /\ (iopcode ir = 239 -> exec ir m = div_arm ir 2 255 128 m).
Proof. repeat split; arm. Qed.
Lemma exec_mod ir m :
  (iopcode ir = 164 \/ iopcode ir = 166 \/ iopcode ir = 167 -> exec ir m = mod_arm ir 1 m)
  /\ (iopcode ir = 228 \/ iopcode ir = 230 \/ iopcode ir = 231 -> exec ir m = mod_arm ir 2 m).
Proof. split; intros [H|[H|H]]; unfold exec; rewrite H; reflexivity. Qed.

(* division or remainder by zero: an integer-zero-divide fault; registers, PSW and memory are those the operand
   reads left (reads of plain registers and memory change nothing) *)
Lemma div_by_zero_faults ir m dst oa ob m1 m2 b :
  read_op ir 0 m = Ok 0 m1 -> read_op ir 1 m1 = Ok b m2 ->
  div_arm ir dst oa ob m = Err (EExc IntegerZeroDivide) m2 /\ mod_arm ir dst m = Err (EExc IntegerZeroDivide) m2.
Proof. intros H0 H1. unfold div_arm, mod_arm, bind. rewrite H0, H1. cbn. auto. Qed.
