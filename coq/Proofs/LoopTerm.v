(* Termination of the interpreter's data-driven loops (MOVBLW, STREND, the block-move list of a context switch)
   within the model's iteration bound.  The argument: every iteration reads the bus at consecutive addresses
   (stride 1 or 4) starting from R0; every mapped region of the 32-bit address space is followed by unmapped
   addresses, so a run of successful reads is at most 1 MiB long (the RAM region); the bound is larger. *)
From Coq Require Import ZArith Lia Bool List ZifyBool.
From Dmd Require Import Model.Bits Model.Types Model.Mem Model.Bus Model.Cpu.
From Dmd Require Import Proofs.RegKit.
Open Scope Z_scope.
Ltac Zify.zify_post_hook ::= Z.div_mod_to_equations.

Definition mapped (a : Z) : Prop := get_device a <> None.

Lemma with_dev_ok_mapped {A} a b (k : device -> res bus A) v b' : with_dev a b k = Ok v b' -> mapped a.
Proof. unfold with_dev, mapped. destruct (get_device a); [congruence|discriminate]. Qed.

Lemma rd_word_mapped a m v m' : rd_word a m = Ok v m' -> mapped a.
Proof.
  unfold rd_word, liftb. destruct (bus_read_word a (mbus m)) eqn:E; try discriminate. intros _.
  unfold bus_read_word in E. destruct (negb _); [discriminate|]. eapply with_dev_ok_mapped; eauto.
Qed.
Lemma rd_byte_mapped a m v m' : rd_byte a m = Ok v m' -> mapped a.
Proof.
  unfold rd_byte, liftb. destruct (bus_read_byte a (mbus m)) eqn:E; try discriminate. intros _.
  unfold bus_read_byte in E. eapply with_dev_ok_mapped; eauto.
Qed.

(* the holes of the memory map *)
Lemma get_device_none x :
  131072 <= x < 2097152 \/ 2097216 <= x < 4194304 \/ 4194308 <= x < 5242880 \/ 5242882 <= x < 6291456
  \/ 6299648 <= x < 7340032 \/ 8388608 <= x -> get_device x = None.
Proof.
  intros H. unfold get_device.
  repeat match goal with |- context [if ?c then _ else _] => destruct c eqn:? end; try reflexivity; lia.
Qed.

(* from any address, stepping by d in {1..4}, an unmapped address is reached within 1 MiB / d steps *)
Lemma gap_ahead d a : 1 <= d <= 4 -> 0 <= a < 4294967296 ->
  exists k, 0 <= k /\ d * k <= 1048576 + 3 /\ ~ mapped (w32 (a + d * k)).
Proof.
  intros Hd Ha. unfold mapped.
  assert (K : forall hi, a < hi -> hi - a <= 1048576 -> hi + 4 <= 4294967296 ->
              (forall x, hi <= x < hi + 4 -> get_device x = None) ->
              exists k, 0 <= k /\ d * k <= 1048576 + 3 /\ ~ get_device (w32 (a + d * k)) <> None).
  { intros hi H1 H2 H3 H4. exists ((hi - a + d - 1) / d).
    assert (E : hi <= a + d * ((hi - a + d - 1) / d) < hi + d) by lia.
    split; [lia|]. split; [lia|]. unfold w32. rewrite Z.mod_small by lia. rewrite H4 by lia. tauto. }
  destruct (get_device a) eqn:G.
  2:{ exists 0. replace (a + d * 0) with a by lia. unfold w32. rewrite Z.mod_small by lia. rewrite G. split; [lia|]. split; [lia|tauto]. }
  unfold get_device in G.
  destruct (a <? 131072) eqn:C1; [apply (K 131072); try lia; intros; apply get_device_none; lia|].
  destruct ((2097152 <=? a) && (a <? 2097216)) eqn:C2; [apply (K 2097216); try lia; intros; apply get_device_none; lia|].
  destruct ((4194304 <=? a) && (a <? 4194308)) eqn:C3; [apply (K 4194308); try lia; intros; apply get_device_none; lia|].
  destruct ((5242880 <=? a) && (a <? 5242882)) eqn:C4; [apply (K 5242882); try lia; intros; apply get_device_none; lia|].
  destruct ((6291456 <=? a) && (a <? 6299648)) eqn:C5; [apply (K 6299648); try lia; intros; apply get_device_none; lia|].
  destruct ((7340032 <=? a) && (a <? 8388608)) eqn:C6; [apply (K 8388608); try lia; intros; apply get_device_none; lia|].
  discriminate.
Qed.

(* a run of n successful accesses at a, a+d, ..., ending with the pointer at b *)
Definition chain (d a b n : Z) : Prop :=
  0 <= n /\ b = w32 (a + d * n) /\ forall j, 0 <= j < n -> mapped (w32 (a + d * j)).

Lemma chain_zero d a : 0 <= a < 4294967296 -> chain d a a 0.
Proof. intros Ha. split; [lia|]. split; [|intros; lia]. unfold w32. rewrite Z.mod_small; lia. Qed.

Lemma chain_one d a : mapped a -> 0 <= a < 4294967296 -> chain d a (w32 (a + d)) 1.
Proof.
  intros M Ha. split; [lia|]. split; [f_equal; lia|]. intros j Hj. replace j with 0 by lia.
  replace (a + d * 0) with a by lia. unfold w32. rewrite Z.mod_small; auto.
Qed.

Lemma chain_app d a b c n k : chain d a b n -> chain d b c k -> chain d a c (n + k).
Proof.
  intros [Hn [Eb Mn]] [Hk [Ec Mk]]. split; [lia|]. split.
  - rewrite Ec, Eb. unfold w32. rewrite Zplus_mod_idemp_l. f_equal. lia.
  - intros j Hj. destruct (Z_lt_ge_dec j n) as [L|G]; [apply Mn; lia|].
    specialize (Mk (j - n) ltac:(lia)). rewrite Eb in Mk. unfold w32 in *. rewrite Zplus_mod_idemp_l in Mk.
    replace (a + d * n + d * (j - n)) with (a + d * j) in Mk by lia. exact Mk.
Qed.

Lemma chain_bound d a b n : 1 <= d <= 4 -> 0 <= a < 4294967296 -> chain d a b n -> d * n <= 1048576 + 3.
Proof.
  intros Hd Ha [Hn [_ M]]. destruct (gap_ahead d a Hd Ha) as [k [Hk [Hk2 U]]].
  destruct (Z_lt_ge_dec k n) as [L|G]; [exfalso; apply U; apply M; lia|]. nia.
Qed.

(* ---- the binary-fuel iteration is n-fold iteration ---- *)
Fixpoint iterN (n : nat) (body : mach -> lres) (m : mach) : lres :=
  match n with
  | O => LCont m
  | S k => match body m with LCont m1 => iterN k body m1 | r => r end
  end.

Lemma iterN_add a b body m :
  iterN (a + b) body m = match iterN a body m with LCont m' => iterN b body m' | r => r end.
Proof.
  revert m. induction a as [|a IH]; intros m; cbn [iterN Nat.add]; [reflexivity|].
  destruct (body m); auto.
Qed.

Lemma iterN_one body m : iterN 1 body m = body m.
Proof. cbn. destruct (body m); reflexivity. Qed.

Lemma iter_loop_iterN p body m : iter_loop p body m = iterN (Pos.to_nat p) body m.
Proof.
  revert m. induction p as [q IH|q IH|]; intros m; cbn [iter_loop].
  - rewrite Pos2Nat.inj_xI. replace (S (2 * Pos.to_nat q)) with (1 + (Pos.to_nat q + Pos.to_nat q))%nat by lia.
    rewrite iterN_add, iterN_one. destruct (body m) as [m1|m1|e m1| |]; auto.
    rewrite iterN_add, <- IH. destruct (iter_loop q body m1); auto.
  - rewrite Pos2Nat.inj_xO. replace (2 * Pos.to_nat q)%nat with (Pos.to_nat q + Pos.to_nat q)%nat by lia.
    rewrite iterN_add, <- IH. destruct (iter_loop q body m); auto.
  - rewrite Pos2Nat.inj_1, iterN_one. reflexivity.
Qed.

Section Progress.
Variable d : Z.
Hypothesis Hd : 1 <= d <= 4.
Variable body : mach -> lres.
Variable I : mach -> Prop.
Hypothesis I_range : forall m, I m -> 0 <= R m 0 < 4294967296.
(* one more turn of the loop: the invariant is kept and the pointer in R0 moved over n >= 1 successful accesses *)
Hypothesis body_cont : forall m m', I m -> body m = LCont m' ->
  I m' /\ exists n, 1 <= n /\ chain d (R m 0) (R m' 0) n.

Lemma iterN_chain : forall N m m', I m -> iterN N body m = LCont m' ->
  I m' /\ exists n, Z.of_nat N <= n /\ chain d (R m 0) (R m' 0) n.
Proof.
  induction N as [|N IH]; intros m m' Im E; cbn [iterN] in E.
  - injection E as <-. split; auto. exists 0. split; [lia|]. apply chain_zero; auto.
  - destruct (body m) as [m1|m1|e m1| |] eqn:B; try discriminate.
    destruct (body_cont m m1 Im B) as [I1 [n1 [H1 C1]]].
    destruct (IH m1 m' I1 E) as [I' [n2 [H2 C2]]].
    split; auto. exists (n1 + n2). split; [lia|]. eapply chain_app; eauto.
Qed.

(* the loop bound is never what stops a loop *)
Theorem loop_fuel_suffices m : I m -> forall m', iter_loop loop_fuel body m <> LCont m'.
Proof.
  intros Im m' E. rewrite iter_loop_iterN in E.
  destruct (iterN_chain _ m m' Im E) as [_ [n [Hn C]]].
  pose proof (chain_bound d _ _ n Hd (I_range m Im) C) as B.
  unfold loop_fuel in Hn. lia.
Qed.

(* where the pointer is when the loop ends normally *)
Hypothesis body_done : forall m m', I m -> body m = LDone m' -> I m' /\ exists n, 0 <= n /\ chain d (R m 0) (R m' 0) n.

Lemma iterN_done : forall N m m', I m -> iterN N body m = LDone m' ->
  I m' /\ exists n, 0 <= n /\ chain d (R m 0) (R m' 0) n.
Proof.
  induction N as [|N IH]; intros m m' Im E; cbn [iterN] in E; [discriminate|].
  destruct (body m) as [m1|m1|e m1| |] eqn:B; try discriminate.
  - injection E as <-. apply (body_done m m1 Im B).
  - destruct (body_cont m m1 Im B) as [I1 [n1 [H1 C1]]].
    destruct (IH m1 m' I1 E) as [I' [n2 [H2 C2]]].
    split; auto. exists (n1 + n2). split; [lia|]. eapply chain_app; eauto.
Qed.

Lemma run_loop_done m m' : I m -> run_loop body m = Ok tt m' ->
  I m' /\ exists n, 0 <= n /\ chain d (R m 0) (R m' 0) n.
Proof.
  intros Im. unfold run_loop. destruct (iter_loop loop_fuel body m) as [m1|m1|e m1| |] eqn:E; try discriminate.
  intros H. injection H as <-. rewrite iter_loop_iterN in E. eapply iterN_done; eauto.
Qed.
End Progress.
