(* dmd.rs: the machine, its host API, and the C interface as a transition system.
   Also the operation language shared by the correspondence harness. *)
From Dmd Require Import Model.Bits Model.Types Model.Fifo Model.Mem Model.Mouse Model.Duart Model.Bus
     Model.Decode Model.Cpu.

Section Dmd.
(* the four firmware arrays (rom_lo.rs / rom_hi.rs) *)
Variable LO1 HI1 LO2 HI2 : list Z.

Definition dmd_new (now : Z) : mach := mach_new now.

(* Dmd::reset *)
Definition dmd_reset (version : Z) : M unit := fun m =>
  let lo := if version =? 1 then LO1 else LO2 in
  let hi := if version =? 1 then HI1 else HI2 in
  let* (_, m) := liftb (bus_load 0 lo) m in
  let* (_, m) := liftb (bus_load (Z.of_nat (length lo)) hi) m in
  cpu_reset m.

Definition dmd_get_register (m : mach) (reg : Z) : Z := R m (Z.land reg 15).

(* Dmd::read_byte / read_word: Option, the error (and any side effect before it) is dropped... the
   state change of a failed access is kept, as in the code *)
Definition dmd_read_word (a : Z) (m : mach) : res mach (option Z) :=
  match rd_word a m with
  | Ok v m => Ok (Some v) m | Err _ m => Ok None m | Panic => Panic | OutOfFuel => OutOfFuel end.
Definition dmd_read_byte (a : Z) (m : mach) : res mach (option Z) :=
  match rd_byte a m with
  | Ok v m => Ok (Some v) m | Err _ m => Ok None m | Panic => Panic | OutOfFuel => OutOfFuel end.

(* ---------------------------------------------------------------- *)
(* operation language of the harness *)

Inductive op :=
| OpTime (t : Z) | OpTick (k : Z)
| OpRb (a : Z) | OpRh (a : Z) | OpRw (a : Z) | OpOh (a : Z) | OpOw (a : Z)
| OpWb (a v : Z) | OpWh (a v : Z) | OpWw (a v : Z)
| OpLoad (a : Z) (bytes : list Z)
| OpSetReg (i v : Z) | OpStep | OpStepX | OpDecode | OpReset (v : Z)
| OpGetRegs | OpGetReg (i : Z) | OpGetPc | OpDmdRb (a : Z) | OpDmdRw (a : Z)
| OpVideo | OpDirty | OpNvGet | OpNvSet (bytes : list Z)
| OpMouseMove (x y : Z) | OpMouseDown (b : Z) | OpMouseUp (b : Z)
| OpService | OpGetInt | OpQa (c : Z) | OpQb (c : Z) | OpPa | OpPb | OpDuartOut.

Inductive obs :=
| ObNone | ObOk | ObVal (v : Z) | ObErr (e : err) | ObPanic | ObFuel
| ObRegs (r : regs) | ObIr (i : instr) | ObBytes (l : list Z) | ObOpt (o : option Z)
| ObBool (b : bool) | ObPc (pc psw ap : Z).

Record hstate := mkH { hm : mach; hnow : Z; htick : Z }.
Definition h_new : hstate := mkH (dmd_new 0) 0 0.
Definition with_m (h : hstate) (m : mach) : hstate := mkH m (hnow h) (htick h).

(* a finished operation: new state (None after a panic: the case ends) and observation *)
Definition fin {A} (h : hstate) (r : res mach A) (f : A -> obs) : option hstate * obs :=
  match r with
  | Ok a m => (Some (with_m h m), f a)
  | Err e m => (Some (with_m h m), ObErr e)
  | Panic => (None, ObPanic)
  | OutOfFuel => (None, ObFuel)
  end.

Definition busop {A} (h : hstate) (f : bus -> res bus A) (g : A -> obs) :=
  fin h (liftb f (hm h)) g.
Definition pure (h : hstate) (m : mach) (o : obs) : option hstate * obs := (Some (with_m h m), o).
Definition onbus (h : hstate) (f : bus -> bus) : option hstate * obs :=
  pure h (with_bus (hm h) (f (mbus (hm h)))) ObNone.

Definition run_op (o : op) (h : hstate) : option hstate * obs :=
  let m := hm h in
  match o with
  | OpTime t => (Some (mkH m t (htick h)), ObNone)
  | OpTick k => (Some (mkH m (hnow h) k), ObNone)
  | OpRb a => busop h (bus_read_byte a) ObVal
  | OpRh a => busop h (bus_read_half a) ObVal
  | OpRw a => busop h (bus_read_word a) ObVal
  | OpOh a => busop h (bus_read_op_half a) ObVal
  | OpOw a => busop h (bus_read_op_word a) ObVal
  | OpWb a v => busop h (bus_write_byte a v) (fun _ => ObOk)
  | OpWh a v => busop h (bus_write_half a v) (fun _ => ObOk)
  | OpWw a v => busop h (bus_write_word a v) (fun _ => ObOk)
  | OpLoad a l => busop h (bus_load a l) (fun _ => ObOk)
  | OpSetReg i v => pure h (setR m (Z.land i 15) (w32 v)) ObNone
  | OpStep =>
    let now := hnow h + htick h in
    let h := mkH m now (htick h) in
    fin h (step_with_error now m) (fun _ => ObOk)
  | OpStepX =>
    let now := hnow h + htick h in
    let h := mkH m now (htick h) in
    fin h (step now m) (fun _ => ObOk)
  | OpDecode => fin h (decode m) ObIr
  | OpReset v => fin h (dmd_reset (w8 v) m) (fun _ => ObOk)
  | OpGetRegs => pure h m (ObRegs (mregs m))
  | OpGetReg i => pure h m (ObVal (dmd_get_register m (w8 i)))
  | OpGetPc => pure h m (ObPc (R m R_PC) (R m R_PSW) (R m R_AP))
  | OpDmdRb a => fin h (dmd_read_byte a m) ObOpt
  | OpDmdRw a => fin h (dmd_read_word a m) ObOpt
  | OpVideo => busop h bus_video_ram ObBytes
  | OpDirty => pure h m (ObBool (dirty (mbus m)))
  | OpNvGet => pure h m (ObBytes (bus_get_nvram (mbus m)))
  | OpNvSet l => onbus h (bus_set_nvram l)
  | OpMouseMove x y => onbus h (bus_mouse_move x y)
  | OpMouseDown b => onbus h (bus_mouse_down b)
  | OpMouseUp b => onbus h (bus_mouse_up b)
  | OpService => onbus h (bus_service (hnow h))
  | OpGetInt => let (o, b) := bus_get_interrupts (hnow h) (mbus m) in pure h (with_bus m b) (ObOpt o)
  | OpQa c => onbus h (bus_rs232_rx c)
  | OpQb c => onbus h (bus_keyboard_rx c)
  | OpPa => let (o, b) := bus_rs232_tx (mbus m) in pure h (with_bus m b) (ObOpt o)
  | OpPb => let (o, b) := bus_keyboard_tx (mbus m) in pure h (with_bus m b) (ObOpt o)
  | OpDuartOut => pure h m (ObVal (output_port (duart_ (mbus m))))
  end.

(* a whole case: stops at the first panic *)
Fixpoint run_ops (l : list op) (h : hstate) : option hstate * list obs :=
  match l with
  | [] => (Some h, [])
  | o :: t =>
    match run_op o h with
    | (Some h', ob) => let (r, obs) := run_ops t h' in (r, ob :: obs)
    | (None, ob) => (None, [ob])
    end
  end.

(* ---------------------------------------------------------------- *)
(* the C interface: each call runs atomically on the global machine (mutex held
   for the whole body); a panic inside poisons the mutex *)

Inductive ccall :=
| CInit (v : Z) | CVideoRam | CVideoDirty | CStep | CStepLoop (n : nat)
| CGetPc | CGetReg (r : Z) | CReadWord (a : Z) | CReadByte (a : Z) | CDuartOut
| CMouseMove (x y : Z) | CMouseDown (b : Z) | CMouseUp (b : Z)
| CRs232Rx (c : Z) | CKeyboardRx (c : Z) | CRs232Tx | CKeyboardTx
| CSetNvram (img : list Z) | CGetNvram.

(* result: return code (-1 stands for the null pointer of dmd_video_ram), and the
   out-parameter if it was written *)
Inductive cout := CoNone | CoVal (v : Z) | CoBytes (l : list Z).
Record cres := mkCres { crc : Z; cout_ : cout }.

Inductive gstate := GLive (m : mach) | GPoisoned.

Definition SUCCESS := 0. Definition ERROR := 1. Definition BUSY := 2.

Fixpoint run_steps (n : nat) (now : Z) (m : mach) : res mach unit :=
  match n with
  | O => Ok tt m
  | S k => let* (_, m) := step now m in run_steps k now m
  end.

Definition cfin {A} (r : res mach A) (ok : A -> mach -> gstate * cres) (onerr : mach -> gstate * cres)
  : gstate * cres :=
  match r with
  | Ok a m => ok a m
  | Err _ m => onerr m
  | Panic | OutOfFuel => (GPoisoned, mkCres 99 CoNone)   (* 99: the call itself unwinds (no return value); the mutex is poisoned *)
  end.

Definition capi_step (now : Z) (c : ccall) (g : gstate) : gstate * cres :=
  match g with
  | GPoisoned =>
    (GPoisoned, mkCres (match c with CVideoRam => -1 | CVideoDirty => 0 | _ => ERROR end) CoNone)
  | GLive m =>
    let ok m := (GLive m, mkCres SUCCESS CoNone) in
    match c with
    | CInit v => cfin (dmd_reset (w8 v) m) (fun _ m => ok m) (fun m => (GLive m, mkCres ERROR CoNone))
    | CVideoRam => cfin (liftb bus_video_ram m) (fun l m => (GLive m, mkCres SUCCESS (CoBytes l)))
                        (fun m => (GLive m, mkCres ERROR CoNone))
    | CVideoDirty => (GLive m, mkCres (if dirty (mbus m) then 1 else 0) CoNone)
    | CStep => cfin (step now m) (fun _ m => ok m) (fun m => ok m)
    | CStepLoop n => cfin (run_steps n now m) (fun _ m => ok m) (fun m => ok m)
    | CGetPc => (GLive m, mkCres SUCCESS (CoVal (R m R_PC)))
    | CGetReg r => (GLive m, mkCres SUCCESS (CoVal (dmd_get_register m (w8 r))))
    | CReadWord a => cfin (dmd_read_word (w32 a) m)
                          (fun o m => match o with Some v => (GLive m, mkCres SUCCESS (CoVal v))
                                                 | None => (GLive m, mkCres ERROR CoNone) end)
                          (fun m => (GLive m, mkCres ERROR CoNone))
    | CReadByte a => cfin (dmd_read_byte (w32 a) m)
                          (fun o m => match o with Some v => (GLive m, mkCres SUCCESS (CoVal v))
                                                 | None => (GLive m, mkCres ERROR CoNone) end)
                          (fun m => (GLive m, mkCres ERROR CoNone))
    | CDuartOut => (GLive m, mkCres SUCCESS (CoVal (output_port (duart_ (mbus m)))))
    | CMouseMove x y => ok (with_bus m (bus_mouse_move x y (mbus m)))
    | CMouseDown b => ok (with_bus m (bus_mouse_down b (mbus m)))
    | CMouseUp b => ok (with_bus m (bus_mouse_up b (mbus m)))
    | CRs232Rx c => ok (with_bus m (bus_rs232_rx c (mbus m)))
    | CKeyboardRx c => ok (with_bus m (bus_keyboard_rx c (mbus m)))
    | CRs232Tx => let (o, b) := bus_rs232_tx (mbus m) in
                  (GLive (with_bus m b),
                   match o with Some c => mkCres SUCCESS (CoVal c) | None => mkCres BUSY CoNone end)
    | CKeyboardTx => let (o, b) := bus_keyboard_tx (mbus m) in
                  (GLive (with_bus m b),
                   match o with Some c => mkCres SUCCESS (CoVal c) | None => mkCres BUSY CoNone end)
    | CSetNvram img => ok (with_bus m (bus_set_nvram img (mbus m)))
    | CGetNvram => (GLive m, mkCres SUCCESS (CoBytes (bus_get_nvram (mbus m))))
    end
  end.

End Dmd.
