(* utils.rs FifoQueue: three slots, read/write pointers, length.  Polymorphic in the payload. *)
From Dmd Require Import Model.Bits.

Section Fifo.
Context {A : Type}.

Record fifo := mkFifo { fb0 : A; fb1 : A; fb2 : A; frp : Z; fwp : Z; flen : Z }.

Definition fifo_new (d : A) : fifo := mkFifo d d d 0 0 0.

Definition fget (q : fifo) (i : Z) : A :=
  if i =? 0 then fb0 q else if i =? 1 then fb1 q else fb2 q.

Definition fput (q : fifo) (i : Z) (c : A) : fifo :=
  if i =? 0 then mkFifo c (fb1 q) (fb2 q) (frp q) (fwp q) (flen q)
  else if i =? 1 then mkFifo (fb0 q) c (fb2 q) (frp q) (fwp q) (flen q)
  else mkFifo (fb0 q) (fb1 q) c (frp q) (fwp q) (flen q).

Definition fifo_full (q : fifo) : bool := flen q =? 3.
Definition fifo_empty (q : fifo) : bool := flen q =? 0.

(* push: Err(Overflow) is None *)
Definition fifo_push (q : fifo) (c : A) : option fifo :=
  if flen q =? 3 then None
  else let q1 := fput q (fwp q) c in
       Some (mkFifo (fb0 q1) (fb1 q1) (fb2 q1) (frp q1) ((fwp q1 + 1) mod 3) (flen q1 + 1)).

Definition fifo_pop (q : fifo) : option (A * fifo) :=
  if flen q =? 0 then None
  else Some (fget q (frp q),
             mkFifo (fb0 q) (fb1 q) (fb2 q) ((frp q + 1) mod 3) (fwp q) (flen q - 1)).

Definition fifo_clear (q : fifo) : fifo := mkFifo (fb0 q) (fb1 q) (fb2 q) 0 0 0.

(* abstract contents in pop order *)
Definition fifo_contents (q : fifo) : list A :=
  if flen q =? 0 then []
  else if flen q =? 1 then [fget q (frp q)]
  else if flen q =? 2 then [fget q (frp q); fget q ((frp q + 1) mod 3)]
  else [fget q (frp q); fget q ((frp q + 1) mod 3); fget q ((frp q + 2) mod 3)].

End Fifo.
Arguments fifo A : clear implicits.
