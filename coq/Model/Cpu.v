(* cpu.rs: registers, operand access, the dispatch arms, interrupts, exceptions, step. *)
From Dmd Require Import Model.Bits Model.Types Model.Fifo Model.Mem Model.Mouse Model.Duart Model.Bus Model.Decode.
From Dmd Require Import Gen.GenOpcodes Gen.GenDispatch.

(* PSW fields and register numbers (checked against the source by Proofs/GenCheck.v) *)
Definition F_ET := 3.          Definition F_TM := 4.          Definition F_ISC := 120.
Definition F_I := 128.         Definition F_R := 256.         Definition F_PM := 1536.
Definition F_CM := 6144.       Definition F_IPL := 122880.    Definition F_C := 262144.
Definition F_V := 524288.      Definition F_Z := 1048576.     Definition F_N := 2097152.
Definition F_CD := 8388608.    Definition F_QIE := 16777216.  Definition F_CFD := 33554432.
Definition R_FP := 9.  Definition R_AP := 10. Definition R_PSW := 11. Definition R_SP := 12.
Definition R_PCBP := 13. Definition R_ISP := 14. Definition R_PC := 15.
Definition WE32100_VERSION := 26.
Definition IPL_TABLE : list Z :=
  [0; 14; 14; 14; 14; 14; 14; 14; 15; 15; 15; 15; 15; 15; 15; 15; 15; 15; 15; 15; 15; 15; 15; 15;
   15; 15; 15; 15; 15; 15; 15; 15; 15; 15; 15; 15; 15; 15; 15; 15; 15; 15; 15; 15; 15; 15; 15; 15;
   15; 15; 15; 15; 15; 15; 15; 15; 15; 15; 15; 15; 15; 15; 15; 15].

Record regs := mkRegs { r0 : Z; r1 : Z; r2 : Z; r3 : Z; r4 : Z; r5 : Z; r6 : Z; r7 : Z; r8 : Z; r9 : Z; r10 : Z; r11 : Z; r12 : Z; r13 : Z; r14 : Z; r15 : Z }.

Definition regs_zero : regs := mkRegs 0 0 0 0 0 0 0 0 0 0 0 0 0 0 0 0.

Definition rget (r : regs) (i : Z) : Z :=
  if i =? 0 then r0 r else
  if i =? 1 then r1 r else
  if i =? 2 then r2 r else
  if i =? 3 then r3 r else
  if i =? 4 then r4 r else
  if i =? 5 then r5 r else
  if i =? 6 then r6 r else
  if i =? 7 then r7 r else
  if i =? 8 then r8 r else
  if i =? 9 then r9 r else
  if i =? 10 then r10 r else
  if i =? 11 then r11 r else
  if i =? 12 then r12 r else
  if i =? 13 then r13 r else
  if i =? 14 then r14 r else
  r15 r.

Definition rset (r : regs) (i v : Z) : regs :=
  if i =? 0 then mkRegs v (r1 r) (r2 r) (r3 r) (r4 r) (r5 r) (r6 r) (r7 r) (r8 r) (r9 r) (r10 r) (r11 r) (r12 r) (r13 r) (r14 r) (r15 r) else
  if i =? 1 then mkRegs (r0 r) v (r2 r) (r3 r) (r4 r) (r5 r) (r6 r) (r7 r) (r8 r) (r9 r) (r10 r) (r11 r) (r12 r) (r13 r) (r14 r) (r15 r) else
  if i =? 2 then mkRegs (r0 r) (r1 r) v (r3 r) (r4 r) (r5 r) (r6 r) (r7 r) (r8 r) (r9 r) (r10 r) (r11 r) (r12 r) (r13 r) (r14 r) (r15 r) else
  if i =? 3 then mkRegs (r0 r) (r1 r) (r2 r) v (r4 r) (r5 r) (r6 r) (r7 r) (r8 r) (r9 r) (r10 r) (r11 r) (r12 r) (r13 r) (r14 r) (r15 r) else
  if i =? 4 then mkRegs (r0 r) (r1 r) (r2 r) (r3 r) v (r5 r) (r6 r) (r7 r) (r8 r) (r9 r) (r10 r) (r11 r) (r12 r) (r13 r) (r14 r) (r15 r) else
  if i =? 5 then mkRegs (r0 r) (r1 r) (r2 r) (r3 r) (r4 r) v (r6 r) (r7 r) (r8 r) (r9 r) (r10 r) (r11 r) (r12 r) (r13 r) (r14 r) (r15 r) else
  if i =? 6 then mkRegs (r0 r) (r1 r) (r2 r) (r3 r) (r4 r) (r5 r) v (r7 r) (r8 r) (r9 r) (r10 r) (r11 r) (r12 r) (r13 r) (r14 r) (r15 r) else
  if i =? 7 then mkRegs (r0 r) (r1 r) (r2 r) (r3 r) (r4 r) (r5 r) (r6 r) v (r8 r) (r9 r) (r10 r) (r11 r) (r12 r) (r13 r) (r14 r) (r15 r) else
  if i =? 8 then mkRegs (r0 r) (r1 r) (r2 r) (r3 r) (r4 r) (r5 r) (r6 r) (r7 r) v (r9 r) (r10 r) (r11 r) (r12 r) (r13 r) (r14 r) (r15 r) else
  if i =? 9 then mkRegs (r0 r) (r1 r) (r2 r) (r3 r) (r4 r) (r5 r) (r6 r) (r7 r) (r8 r) v (r10 r) (r11 r) (r12 r) (r13 r) (r14 r) (r15 r) else
  if i =? 10 then mkRegs (r0 r) (r1 r) (r2 r) (r3 r) (r4 r) (r5 r) (r6 r) (r7 r) (r8 r) (r9 r) v (r11 r) (r12 r) (r13 r) (r14 r) (r15 r) else
  if i =? 11 then mkRegs (r0 r) (r1 r) (r2 r) (r3 r) (r4 r) (r5 r) (r6 r) (r7 r) (r8 r) (r9 r) (r10 r) v (r12 r) (r13 r) (r14 r) (r15 r) else
  if i =? 12 then mkRegs (r0 r) (r1 r) (r2 r) (r3 r) (r4 r) (r5 r) (r6 r) (r7 r) (r8 r) (r9 r) (r10 r) (r11 r) v (r13 r) (r14 r) (r15 r) else
  if i =? 13 then mkRegs (r0 r) (r1 r) (r2 r) (r3 r) (r4 r) (r5 r) (r6 r) (r7 r) (r8 r) (r9 r) (r10 r) (r11 r) (r12 r) v (r14 r) (r15 r) else
  if i =? 14 then mkRegs (r0 r) (r1 r) (r2 r) (r3 r) (r4 r) (r5 r) (r6 r) (r7 r) (r8 r) (r9 r) (r10 r) (r11 r) (r12 r) (r13 r) v (r15 r) else
  mkRegs (r0 r) (r1 r) (r2 r) (r3 r) (r4 r) (r5 r) (r6 r) (r7 r) (r8 r) (r9 r) (r10 r) (r11 r) (r12 r) (r13 r) (r14 r) v.

Record mach := mkMach { mregs : regs; mbus : bus }.
Definition mach_new (now : Z) : mach := mkMach regs_zero (bus_new now).
Definition with_regs (m : mach) (r : regs) : mach := mkMach r (mbus m).
Definition with_bus (m : mach) (b : bus) : mach := mkMach (mregs m) b.

Definition R (m : mach) (i : Z) : Z := rget (mregs m) i.
Definition setR (m : mach) (i v : Z) : mach := with_regs m (rset (mregs m) i v).
Definition PSW (m : mach) : Z := R m R_PSW.
Definition setPSW (m : mach) (v : Z) : mach := setR m R_PSW v.

Definition M (A : Type) := mach -> res mach A.
Definition ret {A} (a : A) : M A := fun m => Ok a m.
Definition fail {A} (e : err) : M A := fun m => Err e m.
Definition illegalM {A} : M A := fail (EExc IllegalOpcode).

(* lift a bus operation *)
Definition liftb {A} (f : bus -> res bus A) : M A :=
  fun m => match f (mbus m) with
           | Ok a b => Ok a (with_bus m b)
           | Err e b => Err e (with_bus m b)
           | Panic => Panic
           | OutOfFuel => OutOfFuel end.

Definition rd_byte (a : Z) : M Z := liftb (bus_read_byte a).
Definition rd_half (a : Z) : M Z := liftb (bus_read_half a).
Definition rd_word (a : Z) : M Z := liftb (bus_read_word a).
Definition wr_byte (a v : Z) : M unit := liftb (bus_write_byte a v).
Definition wr_half (a v : Z) : M unit := liftb (bus_write_half a v).
Definition wr_word (a v : Z) : M unit := liftb (bus_write_word a v).

(* flags *)
Definition setf (mask : Z) (v : bool) (m : mach) : mach :=
  setPSW m (if v then Z.lor (PSW m) mask else clr32 (PSW m) mask).
Definition flag (mask : Z) (m : mach) : bool := bset (PSW m) mask.
Definition set_c := setf F_C.  Definition set_v := setf F_V.
Definition set_z := setf F_Z.  Definition set_n := setf F_N.

Definition set_nz_flags (val : Z) (o : operand) (m : mach) : mach :=
  match otype o with
  | DWord | DUWord => set_z (val =? 0) (set_n (bset val 2147483648) m)
  | DHalf | DUHalf => set_z (w16 val =? 0) (set_n (bset val 32768) m)
  | DByte | DSByte => set_z (w8 val =? 0) (set_n (bset val 128) m)
  | DNone => m
  end.

Definition set_v_flag_op (val : Z) (o : operand) (m : mach) : mach :=
  match otype o with
  | DWord | DUWord => set_v false m
  | DHalf | DUHalf => set_v (val >? 65535) m
  | DByte | DSByte => set_v (val >? 255) m
  | DNone => m
  end.

Definition is_kernel (m : mach) : bool := Z.land (Z.shiftr (Z.land (PSW m) F_CM) 11) 3 =? 0.

Section Exec.
Variable ir : instr.

(* effective_address *)
Definition effective_address (k : Z) : M Z := fun m =>
  let o := get_op ir k in
  let emb := oemb o in
  let withreg (f : Z -> M Z) : res mach Z :=
      match oreg o with Some r => f (R m r) m | None => illegalM m end in
  match omode o with
  | MRegDeferred => withreg (fun v => ret v)
  | MAbsolute => Ok emb m
  | MAbsoluteDeferred => rd_word emb m
  | MFpShort => Ok (add_offset (R m R_FP) (sext8 emb)) m
  | MApShort => Ok (add_offset (R m R_AP) (sext8 emb)) m
  | MWordDisp => withreg (fun v => ret (add_offset v emb))
  | MWordDispDef => withreg (fun v => rd_word (add_offset v emb))
  | MHalfDisp => withreg (fun v => ret (add_offset v (sext16 emb)))
  | MHalfDispDef => withreg (fun v => rd_word (add_offset v (sext16 emb)))
  | MByteDisp => withreg (fun v => ret (add_offset v (sext8 emb)))
  | MByteDispDef => withreg (fun v => rd_word (add_offset v (sext8 emb)))
  | _ => illegalM m
  end.

(* read_op *)
Definition read_op (k : Z) : M Z := fun m =>
  let o := get_op ir k in
  match omode o with
  | MRegister =>
    match oreg o with
    | Some r =>
      let v := R m r in
      match data_type o with
      | DWord | DUWord => Ok v m
      | DHalf => Ok (sext16 v) m
      | DUHalf => Ok (w16 v) m
      | DByte => Ok (w8 v) m
      | DSByte => Ok (sext8 v) m
      | DNone => illegalM m
      end
    | None => illegalM m
    end
  | MPosLit | MNegLit => Ok (sext8 (oemb o)) m
  | MWordImm => Ok (oemb o) m
  | MHalfImm => Ok (sext16 (oemb o)) m
  | MByteImm => Ok (sext8 (oemb o)) m
  | _ =>
    let* (eff, m) := effective_address k m in
    match data_type o with
    | DWord | DUWord => rd_word eff m
    | DHalf => let* (v, m) := rd_half eff m in Ok (sext16 v) m
    | DUHalf => rd_half eff m
    | DByte => rd_byte eff m
    | DSByte => let* (v, m) := rd_byte eff m in Ok (sext8 v) m
    | DNone => illegalM m
    end
  end.

(* write_op *)
Definition write_op (k : Z) (val : Z) : M unit := fun m =>
  let o := get_op ir k in
  match omode o with
  | MRegister =>
    match oreg o with Some r => Ok tt (setR m r val) | None => illegalM m end
  | MNegLit | MPosLit | MByteImm | MHalfImm | MWordImm => illegalM m
  | _ =>
    let* (eff, m) := effective_address k m in
    match data_type o with
    | DWord | DUWord => wr_word eff val m
    | DHalf | DUHalf => wr_half eff (w16 val) m
    | DByte | DSByte => wr_byte eff (w8 val) m
    | DNone => illegalM m
    end
  end.

Definition stack_push (val : Z) : M unit := fun m =>
  let* (_, m) := wr_word (R m R_SP) val m in
  Ok tt (setR m R_SP (add32 (R m R_SP) 4)).
Definition stack_pop : M Z := fun m =>
  let* (v, m) := rd_word (sub32 (R m R_SP) 4) m in
  Ok v (setR m R_SP (sub32 (R m R_SP) 4)).
Definition irq_push (val : Z) : M unit := fun m =>
  let* (_, m) := wr_word (R m R_ISP) val m in
  Ok tt (setR m R_ISP (add32 (R m R_ISP) 4)).
Definition irq_pop : M Z := fun m =>
  let m := setR m R_ISP (sub32 (R m R_ISP) 4) in
  rd_word (R m R_ISP) m.

(* add / sub helpers *)
Definition add_op (a b dst : Z) : M unit := fun m =>
  let result := a + b in
  let r32 := w32 result in
  let* (_, m) := write_op dst r32 m in
  let o := get_op ir dst in
  let m := set_nz_flags r32 o m in
  let vbits := Z.land (Z.lxor a (not32 b)) (Z.lxor a r32) in
  match data_type o with
  | DWord | DUWord => Ok tt (set_v (bset vbits 2147483648) (set_c (result >? 4294967295) m))
  | DHalf | DUHalf => Ok tt (set_v (bset vbits 32768) (set_c (result >? 65535) m))
  | DByte | DSByte => Ok tt (set_v (bset vbits 128) (set_c (result >? 255) m))
  | DNone => illegalM m
  end.

Definition sub_op (a b dst : Z) : M unit := fun m =>
  let r32 := w32 (a - b) in
  let* (_, m) := write_op dst r32 m in
  let o := get_op ir dst in
  Ok tt (set_v_flag_op r32 o (set_c (b >? a) (set_nz_flags r32 o m))).

(* div / modulo: on the *declared* type of operand `dst` (not the expanded one) *)
Definition div_val (a b : Z) (t : dtype) : option Z :=
  match t with
  | DWord => if s32 a =? 0 then None else Some (w32 (Z.quot (s32 b) (s32 a)))
  | DHalf => if s16 a =? 0 then None else Some (sext16 (w16 (Z.quot (s16 b) (s16 a))))
  | DSByte => if s8 a =? 0 then None else Some (sext8 (w8 (Z.quot (s8 b) (s8 a))))
  | DUHalf => if w16 a =? 0 then None else Some (w16 b / w16 a)
  | DByte => if w8 a =? 0 then None else Some (w8 b / w8 a)
  | _ => if a =? 0 then None else Some (b / a)
  end.
Definition mod_val (a b : Z) (t : dtype) : option Z :=
  match t with
  | DWord => if s32 a =? 0 then None else Some (w32 (Z.rem (s32 b) (s32 a)))
  | DHalf => if s16 a =? 0 then None else Some (sext16 (w16 (Z.rem (s16 b) (s16 a))))
  | DSByte => if s8 a =? 0 then None else Some (sext8 (w8 (Z.rem (s8 b) (s8 a))))
  | DUHalf => if w16 a =? 0 then None else Some (w16 b mod w16 a)
  | DByte => if w8 a =? 0 then None else Some (w8 b mod w8 a)
  | _ => if a =? 0 then None else Some (b mod a)
  end.

Definition zerodiv {A} : M A := fail (EExc IntegerZeroDivide).

(* two-source ALU arms that share the shape: read 0, read 1, f, write dst, NZ, C:=0, V by size *)
Definition alu_std (f : Z -> Z -> Z) (dst : Z) : M Z := fun m =>
  let* (a, m) := read_op 0 m in
  let* (b, m) := read_op 1 m in
  let result := f a b in
  let* (_, m) := write_op dst result m in
  let o := get_op ir dst in
  Ok (ilen ir) (set_v_flag_op result o (set_c false (set_nz_flags result o m))).

Definition div_arm (dst : Z) (ovf_a ovf_b : Z) : M Z := fun m =>
  let* (a, m) := read_op 0 m in
  let* (b, m) := read_op 1 m in
  if a =? 0 then zerodiv m else
  match div_val a b (otype (get_op ir 1)) with
  | None => zerodiv m
  | Some result =>
    let* (_, m) := write_op dst result m in
    let m := if (a =? ovf_a) && (b =? ovf_b) then set_v true m else m in
    Ok (ilen ir) (set_c false (set_nz_flags result (get_op ir dst) m))
  end.

Definition mod_arm (dst : Z) : M Z := fun m =>
  let* (a, m) := read_op 0 m in
  let* (b, m) := read_op 1 m in
  if a =? 0 then zerodiv m else
  match mod_val a b (otype (get_op ir 1)) with
  | None => zerodiv m
  | Some result =>
    let* (_, m) := write_op dst result m in
    let o := get_op ir dst in
    Ok (ilen ir) (set_v_flag_op result o (set_c false (set_nz_flags result o m)))
  end.

Definition rotr32 (b a : Z) : Z :=
  if a =? 0 then b else Z.lor (Z.shiftr b a) (w32 (Z.shiftl b (32 - a))).

Definition field_mask (width : Z) : Z :=
  if width >=? 32 then 4294967295 else Z.shiftl 1 width - 1.

(* loops: `while cond { body }` as binary-fuel iteration.  The body returns
   LCont to go round again, LDone when the loop condition failed. *)
Inductive lres := LDone (m : mach) | LCont (m : mach) | LErr (e : err) (m : mach) | LPanic | LFuel.

Fixpoint iter_loop (p : positive) (body : mach -> lres) (m : mach) : lres :=
  match p with
  | xH => body m
  | xO q => match iter_loop q body m with LCont m' => iter_loop q body m' | r => r end
  | xI q => match body m with
            | LCont m1 => match iter_loop q body m1 with LCont m2 => iter_loop q body m2 | r => r end
            | r => r end
  end.

Definition loop_fuel : positive := 1048600%positive.

Definition run_loop (body : mach -> lres) (m : mach) : res mach unit :=
  match iter_loop loop_fuel body m with
  | LDone m => Ok tt m
  | LCont _ => OutOfFuel
  | LErr e m => Err e m
  | LPanic => Panic
  | LFuel => OutOfFuel
  end.

Definition lbind {A} (r : res mach A) (k : A -> mach -> lres) : lres :=
  match r with Ok a m => k a m | Err e m => LErr e m | Panic => LPanic | OutOfFuel => LFuel end.

Definition movblw_body (m : mach) : lres :=
  if R m 2 =? 0 then LDone m else
  lbind (rd_word (R m 0) m) (fun a m =>
  lbind (wr_word (R m 1) a m) (fun _ m =>
    let m := setR m 2 (sub32 (R m 2) 1) in
    let m := setR m 0 (add32 (R m 0) 4) in
    LCont (setR m 1 (add32 (R m 1) 4)))).
Definition movblw_loop : M unit := run_loop movblw_body.

Definition strend_body (m : mach) : lres :=
  lbind (rd_byte (R m 0) m) (fun c m =>
    if c =? 0 then LDone m else LCont (setR m 0 (add32 (R m 0) 1))).
Definition strend_loop : M unit := run_loop strend_body.

Definition cs3_body (m : mach) : lres :=
  if R m 2 =? 0 then LDone m else
  lbind (rd_word (R m 0) m) (fun v m =>
    let m := setR m 1 v in
    let m := setR m 0 (add32 (R m 0) 4) in
    lbind (movblw_loop m) (fun _ m =>
    lbind (rd_word (R m 0) m) (fun v m =>
      let m := setR m 2 v in
      LCont (setR m 0 (add32 (R m 0) 4))))).
Definition cs3_loop : M unit := run_loop cs3_body.

Definition context_switch_1 (new_pcbp : Z) : M unit := fun m =>
  let* (_, m) := wr_word (add32 (R m R_PCBP) 4) (R m R_PC) m in
  let m := setPSW m (clr32 (PSW m) F_R) in
  let* (v, m) := rd_word new_pcbp m in
  let m := setPSW m (Z.lor (PSW m) (Z.land v F_R)) in
  let* (_, m) := wr_word (R m R_PCBP) (PSW m) m in
  let* (_, m) := wr_word (add32 (R m R_PCBP) 8) (R m R_SP) m in
  if bset (PSW m) F_R then
    let p := R m R_PCBP in
    let* (_, m) := wr_word (add32 p 24) (R m R_FP) m in
    let* (_, m) := wr_word (add32 p 28) (R m 0) m in
    let* (_, m) := wr_word (add32 p 32) (R m 1) m in
    let* (_, m) := wr_word (add32 p 36) (R m 2) m in
    let* (_, m) := wr_word (add32 p 40) (R m 3) m in
    let* (_, m) := wr_word (add32 p 44) (R m 4) m in
    let* (_, m) := wr_word (add32 p 48) (R m 5) m in
    let* (_, m) := wr_word (add32 p 52) (R m 6) m in
    let* (_, m) := wr_word (add32 p 56) (R m 7) m in
    let* (_, m) := wr_word (add32 p 60) (R m 8) m in
    let* (_, m) := wr_word (add32 p 20) (R m R_AP) m in
    Ok tt (setR m R_FP (add32 (R m R_PCBP) 52))
  else Ok tt m.

Definition context_switch_2 (new_pcbp : Z) : M unit := fun m =>
  let m := setR m R_PCBP new_pcbp in
  let* (v, m) := rd_word (R m R_PCBP) m in
  let m := setPSW m (clr32 v F_TM) in
  let* (v, m) := rd_word (add32 (R m R_PCBP) 4) m in
  let m := setR m R_PC v in
  let* (v, m) := rd_word (add32 (R m R_PCBP) 8) m in
  let m := setR m R_SP v in
  if bset (PSW m) F_I then
    Ok tt (setR (setPSW m (clr32 (PSW m) F_I)) R_PCBP (add32 (R m R_PCBP) 12))
  else Ok tt m.

Definition context_switch_3 : M unit := fun m =>
  if bset (PSW m) F_R then
    let m := setR m 0 (add32 (R m R_PCBP) 64) in
    let* (v, m) := rd_word (R m 0) m in
    let m := setR m 2 v in
    let m := setR m 0 (add32 (R m 0) 4) in
    let* (_, m) := cs3_loop m in
    Ok tt (setR m 0 (add32 (R m 0) 4))
  else Ok tt m.

Definition psw_enter_1 (m : mach) : mach :=
  setPSW m (Z.lor (clr32 (PSW m) (F_ISC + F_TM + F_ET)) 1).
Definition psw_enter_2 (m : mach) : mach :=
  setPSW m (Z.lor (Z.lor (clr32 (PSW m) (F_ISC + F_TM + F_ET)) 56) 3).

Definition cond_return (taken : bool) : M Z := fun m =>
  if taken then
    let* (v, m) := stack_pop m in Ok 0 (setR m R_PC v)
  else Ok (ilen ir) m.

(* the body of the big `match self.ir.opcode`, returning pc_increment (mod 2^32) *)
Definition exec : M Z := fun m =>
  let opc := iopcode ir in
  let len := ilen ir in
  let is (c : Z) := opc =? c in
  let e0 := oemb (op0 ir) in
  let fn := flag F_N m in let fz := flag F_Z m in let fv := flag F_V m in let fc := flag F_C m in
  if is op_NOP then Ok 1 m
  else if is op_NOP2 then Ok 2 m
  else if is op_NOP3 then Ok 3 m
  else if is op_ADDW2 || is op_ADDH2 || is op_ADDB2 then
    let* (a, m) := read_op 0 m in let* (b, m) := read_op 1 m in
    let* (_, m) := add_op a b 1 m in Ok len m
  else if is op_ADDW3 || is op_ADDH3 || is op_ADDB3 then
    let* (a, m) := read_op 0 m in let* (b, m) := read_op 1 m in
    let* (_, m) := add_op a b 2 m in Ok len m
  else if is op_ALSW3 then
    alu_std (fun a b => w32 (Z.shiftl b (Z.land a 31))) 2 m
  else if is op_ANDW2 || is op_ANDH2 || is op_ANDB2 then alu_std Z.land 1 m
  else if is op_ANDW3 || is op_ANDH3 || is op_ANDB3 then alu_std Z.land 2 m
  else
  (* conditional branches and returns: predicate and kind as translated from the source *)
  match g_branch_pred opc fn fz fv fc, find (fun p => fst p =? opc) g_branch_arms with
  | Some taken, Some (_, BrH) => Ok (if taken then sext16 e0 else len) m
  | Some taken, Some (_, BrB) => Ok (if taken then sext8 e0 else len) m
  | Some taken, Some (_, Ret) => cond_return taken m
  | _, _ =>
  if is op_BITW || is op_BITH || is op_BITB then
    let* (a, m) := read_op 0 m in let* (b, m) := read_op 1 m in
    Ok len (set_v false (set_c false (set_nz_flags (Z.land a b) (op1 ir) m)))
  else if is op_BPT || is op_HALT then illegalM m
  else if is op_BRH then Ok (sext16 e0) m
  else if is op_BRB then Ok (sext8 e0) m
  else if is op_BSBH then
    let* (_, m) := stack_push (w32 (R m R_PC + len)) m in Ok (sext16 e0) m
  else if is op_BSBB then
    let* (_, m) := stack_push (w32 (R m R_PC + len)) m in Ok (sext8 e0) m
  else if is op_CALL then
    let* (a, m) := effective_address 0 m in
    let* (b, m) := effective_address 1 m in
    let return_pc := w32 (R m R_PC + len) in
    let* (_, m) := wr_word (add32 (R m R_SP) 4) (R m R_AP) m in
    let* (_, m) := wr_word (R m R_SP) return_pc m in
    let m := setR m R_SP (add32 (R m R_SP) 8) in
    let m := setR m R_PC b in
    Ok 0 (setR m R_AP a)
  else if is op_CFLUSH then Ok len m
  else if is op_CALLPS then
    if is_kernel m then
      let a := R m 0 in
      let* (_, m) := irq_push (R m R_PCBP) m in
      let m := setR m R_PC (add32 (R m R_PC) 2) in
      let m := psw_enter_1 m in
      let* (_, m) := context_switch_1 a m in
      let* (_, m) := context_switch_2 a m in
      let m := psw_enter_2 m in
      let* (_, m) := context_switch_3 m in
      Ok 0 m
    else fail (EExc PrivilegedOpcode) m
  else if is op_CLRW || is op_CLRH || is op_CLRB then
    let* (_, m) := write_op 0 0 m in
    Ok len (set_v false (set_c false (set_z true (set_n false m))))
  else if is op_CMPW then
    let* (a, m) := read_op 0 m in let* (b, m) := read_op 1 m in
    Ok len (set_v false (set_c (b <? a) (set_n (s32 b <? s32 a) (set_z (b =? a) m))))
  else if is op_CMPH then
    let* (a, m) := read_op 0 m in let* (b, m) := read_op 1 m in
    Ok len (set_v false (set_c (w16 b <? w16 a) (set_n (s16 b <? s16 a) (set_z (w16 b =? w16 a) m))))
  else if is op_CMPB then
    let* (a, m) := read_op 0 m in let* (b, m) := read_op 1 m in
    Ok len (set_v false (set_c (w8 b <? w8 a) (set_n (s8 b <? s8 a) (set_z (w8 b =? w8 a) m))))
  else if is op_DECW || is op_DECH || is op_DECB then
    let* (a, m) := read_op 0 m in
    let* (_, m) := sub_op a 1 0 m in Ok len m
  else if is op_DIVW2 then div_arm 1 4294967295 2147483648 m
  else if is op_DIVH2 then div_arm 1 65535 32768 m
  else if is op_DIVB2 then div_arm 1 255 128 m
  else if is op_DIVW3 then div_arm 2 4294967295 2147483648 m
  else if is op_DIVH3 then div_arm 2 65535 32768 m
  else if is op_DIVB3 then div_arm 2 255 128 m
  else if is op_MVERNO then Ok len (setR m 0 WE32100_VERSION)
  else if is op_ENBVJMP || is op_DISVJMP then
    if is_kernel m then Ok 0 (setR m R_PC (R m 0)) else fail (EExc PrivilegedOpcode) m
  else if is op_EXTFW || is op_EXTFH || is op_EXTFB then
    let* (w, m) := read_op 0 m in
    let width := Z.land w 31 + 1 in
    let* (o, m) := read_op 1 m in
    let offset := Z.land o 31 in
    let mask0 := w32 (Z.shiftl (field_mask width) offset) in
    let mask := if width + offset >? 32
                then Z.lor mask0 (Z.shiftl 1 (width + offset - 32) - 1) else mask0 in
    let* (a, m) := read_op 2 m in
    let a := Z.shiftr (Z.land a mask) offset in
    let* (_, m) := write_op 3 a m in
    Ok len (set_v_flag_op a (op3 ir) (set_c false (set_nz_flags a (op3 ir) m)))
  else if is op_INCW || is op_INCH || is op_INCB then
    let* (a, m) := read_op 0 m in
    let* (_, m) := add_op a 1 0 m in Ok len m
  else if is op_INSFW || is op_INSFH || is op_INSFB then
    let* (w, m) := read_op 0 m in
    let width := Z.land w 31 + 1 in
    let* (o, m) := read_op 1 m in
    let offset := Z.land o 31 in
    let mask := field_mask width in
    let* (a, m) := read_op 2 m in
    let a := Z.land a mask in
    let* (b, m) := read_op 3 m in
    let b := Z.land b (not32 (w32 (Z.shiftl mask offset))) in
    let b := Z.lor b (w32 (Z.shiftl a offset)) in
    let* (_, m) := write_op 3 b m in
    Ok len (set_v_flag_op b (op3 ir) (set_c false (set_nz_flags b (op3 ir) m)))
  else if is op_JMP then
    let* (a, m) := effective_address 0 m in Ok 0 (setR m R_PC a)
  else if is op_JSB then
    let* (_, m) := stack_push (w32 (R m R_PC + len)) m in
    let* (a, m) := effective_address 0 m in Ok 0 (setR m R_PC a)
  else if is op_LLSW3 || is op_LLSH3 || is op_LLSB3 then
    let* (a, m) := read_op 1 m in
    let* (b, m) := read_op 0 m in
    let result := w32 (Z.shiftl a (Z.land b 31)) in
    let* (_, m) := write_op 2 result m in
    Ok len (set_v_flag_op result (op2 ir) (set_c false (set_nz_flags result (op2 ir) m)))
  else if is op_ARSW3 || is op_ARSH3 || is op_ARSB3 then
    let* (a, m) := read_op 1 m in
    let* (b0, m) := read_op 0 m in
    let b := Z.land b0 31 in
    let result := match data_type (op0 ir) with
                  | DWord => w32 (Z.shiftr (s32 a) b)
                  | DUWord => Z.shiftr a b
                  | DHalf => w32 (Z.shiftr (s16 a) b)
                  | DUHalf => Z.shiftr (w16 a) b
                  | DByte => Z.shiftr (w8 a) b
                  | DSByte => w32 (Z.shiftr (s8 a) b)
                  | DNone => 0 end in
    let* (_, m) := write_op 2 result m in
    Ok len (set_v false (set_c false (set_nz_flags result (op2 ir) m)))
  else if is op_LRSW3 then
    let* (a, m) := read_op 1 m in
    let* (b, m) := read_op 0 m in
    let result := Z.shiftr a (Z.land b 31) in
    let* (_, m) := write_op 2 result m in
    Ok len (set_v_flag_op result (op2 ir) (set_c false (set_nz_flags result (op2 ir) m)))
  else if is op_MCOMW || is op_MCOMH || is op_MCOMB then
    let* (a, m) := read_op 0 m in
    let result := not32 a in
    let* (_, m) := write_op 1 result m in
    Ok len (set_v_flag_op result (op1 ir) (set_c false (set_nz_flags result (op1 ir) m)))
  else if is op_MNEGW || is op_MNEGH || is op_MNEGB then
    let* (a, m) := read_op 0 m in
    let result := w32 (not32 a + 1) in
    let* (_, m) := write_op 1 result m in
    Ok len (set_v_flag_op result (op1 ir) (set_c false (set_nz_flags result (op1 ir) m)))
  else if is op_MOVBLW then
    let* (_, m) := movblw_loop m in Ok len m
  else if is op_STREND then
    let* (_, m) := strend_loop m in Ok len m
  else if is op_SWAPWI || is op_SWAPHI || is op_SWAPBI then
    let* (a, m) := read_op 0 m in
    let* (_, m) := write_op 0 (R m 0) m in
    let m := setR m 0 a in
    Ok len (set_v false (set_c false (set_z (a =? 0) (set_n (s32 a <? 0) m))))
  else if is op_ROTW then
    let* (a0, m) := read_op 0 m in
    let* (b, m) := read_op 1 m in
    let result := rotr32 b (Z.land a0 31) in
    let* (_, m) := write_op 2 result m in
    Ok len (set_v false (set_c false (set_nz_flags result (op2 ir) m)))
  else if is op_MOVAW then
    let* (a, m) := effective_address 0 m in
    let* (_, m) := write_op 1 a m in Ok len m
  else if is op_MOVB || is op_MOVH || is op_MOVW then
    let* (v, m) := read_op 0 m in
    let* (_, m) := write_op 1 v m in
    Ok len (set_v_flag_op v (op1 ir) (set_c false (set_nz_flags v (op1 ir) m)))
  else if is op_MOVTRW then
    let* (v, m) := effective_address 0 m in
    let* (_, m) := write_op 1 v m in
    Ok len (set_v_flag_op v (op1 ir) (set_c false (set_nz_flags v (op1 ir) m)))
  else if is op_MODW2 || is op_MODH2 || is op_MODB2 then mod_arm 1 m
  else if is op_MODW3 || is op_MODH3 || is op_MODB3 then mod_arm 2 m
  else if is op_MULW2 || is op_MULH2 || is op_MULB2 then alu_std (fun a b => w32 (a * b)) 1 m
  else if is op_MULW3 || is op_MULH3 || is op_MULB3 then alu_std (fun a b => w32 (a * b)) 2 m
  else if is op_ORW2 || is op_ORH2 || is op_ORB2 then alu_std Z.lor 1 m
  else if is op_ORW3 || is op_ORH3 || is op_ORB3 then alu_std Z.lor 2 m
  else if is op_POPW then
    let* (v, m) := rd_word (usub (R m R_SP) 4) m in
    let* (_, m) := write_op 0 v m in
    let m := setR m R_SP (sub32 (R m R_SP) 4) in
    Ok len (set_v false (set_c false (set_nz_flags v (op0 ir) m)))
  else if is op_PUSHAW then
    let* (v, m) := effective_address 0 m in
    let* (_, m) := stack_push v m in
    Ok len (set_v false (set_c false (set_nz_flags v (op0 ir) m)))
  else if is op_PUSHW then
    let* (v, m) := read_op 0 m in
    let* (_, m) := stack_push v m in
    Ok len (set_v false (set_c false (set_nz_flags v (op0 ir) m)))
  else if is op_RESTORE then
    let a := sub32 (R m R_FP) 28 in
    let* (b, m) := rd_word a m in
    let c := sub32 (R m R_FP) 24 in
    match oreg (op0 ir) with
    | None => illegalM m
    | Some r =>
      let fix loop (n : nat) (r c : Z) (m : mach) : res mach unit :=
          match n with
          | O => Ok tt m
          | S n' => if r <? R_FP then
                      let* (v, m) := rd_word c m in
                      loop n' (r + 1) (add32 c 4) (setR m r v)
                    else Ok tt m
          end in
      let* (_, m) := loop 9%nat r c m in
      Ok len (setR (setR m R_FP b) R_SP a)
    end
  else if is op_RETG then
    let* (new_psw, m) := rd_word (usub (R m R_SP) 4) m in
    let* (new_pc, m) := rd_word (usub (R m R_SP) 8) m in
    let keep := F_IPL + F_CFD + F_QIE + F_CD + F_R in
    let p := clr32 new_psw (keep + F_ISC + F_TM + F_ET) in
    let p := Z.lor p (Z.land (PSW m) F_IPL) in
    let p := Z.lor p (Z.land (PSW m) F_CFD) in
    let p := Z.lor p (Z.land (PSW m) F_QIE) in
    let p := Z.lor p (Z.land (PSW m) F_CD) in
    let p := Z.lor p (Z.land (PSW m) F_R) in
    let p := Z.lor (Z.lor p 56) 3 in
    let m := setPSW m p in
    let m := setR m R_PC new_pc in
    Ok 0 (setR m R_SP (sub32 (R m R_SP) 8))
  else if is op_RSB then
    let* (v, m) := stack_pop m in Ok 0 (setR m R_PC v)
  else if is op_RET then
    let a := R m R_AP in
    let* (b, m) := rd_word (sub32 (R m R_SP) 4) m in
    let* (c, m) := rd_word (sub32 (R m R_SP) 8) m in
    Ok 0 (setR (setR (setR m R_AP b) R_PC c) R_SP a)
  else if is op_RETPS then
    if is_kernel m then
      let* (new_pcbp, m) := irq_pop m in
      let* (new_psw, m) := rd_word new_pcbp m in
      let m := setPSW m (Z.lor (clr32 (PSW m) F_R) (Z.land new_psw F_R)) in
      let* (_, m) := context_switch_2 new_pcbp m in
      let* (_, m) := context_switch_3 m in
      if bset (PSW m) F_R then
        let* (v, m) := rd_word (add32 new_pcbp 24) m in let m := setR m R_FP v in
        let* (v, m) := rd_word (add32 new_pcbp 28) m in let m := setR m 0 v in
        let* (v, m) := rd_word (add32 new_pcbp 32) m in let m := setR m 1 v in
        let* (v, m) := rd_word (add32 new_pcbp 36) m in let m := setR m 2 v in
        let* (v, m) := rd_word (add32 new_pcbp 40) m in let m := setR m 3 v in
        let* (v, m) := rd_word (add32 new_pcbp 44) m in let m := setR m 4 v in
        let* (v, m) := rd_word (add32 new_pcbp 48) m in let m := setR m 5 v in
        let* (v, m) := rd_word (add32 new_pcbp 52) m in let m := setR m 6 v in
        let* (v, m) := rd_word (add32 new_pcbp 56) m in let m := setR m 7 v in
        let* (v, m) := rd_word (add32 new_pcbp 60) m in let m := setR m 8 v in
        let* (v, m) := rd_word (add32 new_pcbp 20) m in let m := setR m R_AP v in
        Ok 0 m
      else Ok 0 m
    else fail (EExc PrivilegedOpcode) m
  else if is op_SAVE then
    let* (_, m) := wr_word (R m R_SP) (R m R_FP) m in
    match oreg (op0 ir) with
    | None => illegalM m
    | Some r =>
      let fix loop (n : nat) (r off : Z) (m : mach) : res mach unit :=
          match n with
          | O => Ok tt m
          | S n' => if r <? R_FP then
                      let* (_, m) := wr_word (R m R_SP + off) (R m r) m in
                      loop n' (r + 1) (off + 4) m
                    else Ok tt m
          end in
      let* (_, m) := loop 9%nat r 4 m in
      let m := setR m R_SP (add32 (R m R_SP) 28) in
      Ok len (setR m R_FP (R m R_SP))
    end
  else if is op_SUBW2 || is op_SUBH2 || is op_SUBB2 then
    let* (a, m) := read_op 1 m in let* (b, m) := read_op 0 m in
    let* (_, m) := sub_op a b 1 m in Ok len m
  else if is op_SUBW3 || is op_SUBH3 || is op_SUBB3 then
    let* (a, m) := read_op 1 m in let* (b, m) := read_op 0 m in
    let* (_, m) := sub_op a b 2 m in Ok len m
  else if is op_TSTW then
    let* (a, m) := read_op 0 m in
    Ok len (set_v false (set_c false (set_z (a =? 0) (set_n (s32 a <? 0) m))))
  else if is op_TSTH then
    let* (a, m) := read_op 0 m in
    Ok len (set_v false (set_c false (set_z (a =? 0) (set_n (s16 a <? 0) m))))
  else if is op_TSTB then
    let* (a, m) := read_op 0 m in
    Ok len (set_v false (set_c false (set_z (a =? 0) (set_n (s8 a <? 0) m))))
  else if is op_XORW2 || is op_XORH2 || is op_XORB2 then alu_std Z.lxor 1 m
  else if is op_XORW3 || is op_XORH3 || is op_XORB3 then alu_std Z.lxor 2 m
  else illegalM m
  end.

End Exec.

(* instruction fetch through the bus at PC + offset (usize arithmetic, no 32-bit wrap) *)
Definition fetch1 (off : Z) : M Z := fun m => rd_byte (R m R_PC + off) m.
Definition fetch2 (off : Z) : M Z := fun m => liftb (bus_read_op_half (R m R_PC + off)) m.
Definition fetch4 (off : Z) : M Z := fun m => liftb (bus_read_op_word (R m R_PC + off)) m.

Definition decode : M instr := decode_instruction mach fetch1 fetch2 fetch4.

Definition on_interrupt (vector : Z) : M unit := fun m =>
  let* (new_pcbp, m) := rd_word (140 + 4 * vector) m in
  let* (_, m) := irq_push (R m R_PCBP) m in
  let m := psw_enter_1 m in
  let* (_, m) := context_switch_1 new_pcbp m in
  let* (_, m) := context_switch_2 new_pcbp m in
  let m := psw_enter_2 m in
  context_switch_3 m.

(* dispatch: service devices, poll interrupts, decode, execute *)
Definition dispatch (now : Z) : M Z := fun m =>
  let b := bus_service now (mbus m) in
  let (o, b) := bus_get_interrupts now b in
  let m := with_bus m b in
  let* (_, m) :=
     match o with
     | Some val =>
       let cpu_ipl := Z.land (Z.shiftr (PSW m) 13) 15 in
       if cpu_ipl <? nth (Z.to_nat (Z.land val 63)) IPL_TABLE 0
       then on_interrupt (Z.land (not8 val) 63) m else Ok tt m
     | None => Ok tt m
     end in
  let* (ir, m) := decode m in
  exec ir m.

Definition step_with_error (now : Z) : M unit := fun m =>
  let* (i, m) := dispatch now m in
  Ok tt (setR m R_PC (w32 (R m R_PC + i))).

Definition gate (index1 index2 : Z) : M unit := fun m =>
  let* (g, m) := rd_word index1 m in
  let gate_l2 := g + index2 in
  let* (p, m) := rd_word gate_l2 m in
  let p := clr32 p (F_PM + F_IPL + F_R + F_ISC + F_TM + F_ET) in
  let p := Z.lor p (Z.shiftr (Z.land (PSW m) F_CM) 2) in
  let p := Z.lor p (Z.land (PSW m) F_IPL) in
  let p := Z.lor p (Z.land (PSW m) F_R) in
  let p := Z.lor (Z.lor (Z.lor p 56) 4) 3 in
  let* (pc, m) := rd_word (gate_l2 + 4) m in
  Ok tt (setPSW (setR m R_PC pc) p).

(* on_exception(ExternalMemory): et = 3, isc = 5 *)
Definition on_exception : M unit := fun m =>
  let m := setPSW m (Z.lor (Z.lor (clr32 (clr32 (PSW m) F_ET) F_ISC) 3) 40) in
  let* (_, m) := wr_word (R m R_SP) (R m R_PC) m in
  let m := setPSW m (Z.lor (clr32 (PSW m) (F_ET + F_ISC)) 24) in
  let* (_, m) := wr_word (R m R_SP + 4) (PSW m) m in
  let* (_, m) := gate 0 40 m in
  Ok tt (setR m R_SP (add32 (R m R_SP) 8)).

(* step(): bus errors NoDevice/Read/Write enter the exception handler (unwrap:
   a failure there is a panic); every other error is a panic *)
Definition step (now : Z) (m : mach) : res mach unit :=
  match dispatch now m with
  | Ok i m => Ok tt (setR m R_PC (w32 (R m R_PC + i)))
  | Err (EBus BNoDevice) m | Err (EBus BRead) m | Err (EBus BWrite) m =>
    match on_exception m with
    | Ok _ m => Ok tt m
    | Err _ _ => Panic
    | Panic => Panic
    | OutOfFuel => OutOfFuel
    end
  | Err _ _ => Panic
  | Panic => Panic
  | OutOfFuel => OutOfFuel
  end.

(* Cpu::reset *)
Definition cpu_reset : M unit := fun m =>
  let* (v, m) := rd_word 128 m in let m := setR m R_PCBP v in
  let* (v, m) := rd_word (R m R_PCBP) m in let m := setPSW m v in
  let* (v, m) := rd_word (R m R_PCBP + 4) m in let m := setR m R_PC v in
  let* (v, m) := rd_word (R m R_PCBP + 8) m in let m := setR m R_SP v in
  let m := if bset (PSW m) F_I
           then setR (setPSW m (clr32 (PSW m) F_I)) R_PCBP (add32 (R m R_PCBP) 12) else m in
  Ok tt (setPSW m (Z.lor (clr32 (PSW m) F_ISC) 24)).
