(* mouse.rs: x/y, halfword reads only. *)
From Dmd Require Import Model.Bits Model.Mem.

Record mouse := mkMouse { mx : Z; my : Z }.
Definition mouse_new : mouse := mkMouse 0 0.

Definition mouse_read_half (m : mouse) (addr : Z) : rres Z :=
  let off := addr - 4194304 in
  if off =? 0 then ROk (my m) else if off =? 2 then ROk (mx m) else RErr BNoDevice.
