(* cpu.rs decode_instruction / decode_operand / decode_descriptor_operand /
   decode_literal_operand, generic in the byte source so that the same
   definition runs on the bus (Cpu.v) and on a plain byte list (C04). *)
From Dmd Require Import Model.Bits Model.Types Gen.GenOpcodes.

Section Decode.
Variable St : Type.
(* fetchers take the offset from the start of the instruction *)
Variable fetch1 : Z -> St -> res St Z.
Variable fetch2 : Z -> St -> res St Z.   (* little-endian halfword *)
Variable fetch4 : Z -> St -> res St Z.   (* little-endian word *)

(* accumulate_instruction_*: the fetch comes first, then the store into the
   32-byte buffer (index panic when it does not fit), then len += k *)
Definition acc_byte (len : Z) (s : St) : res St (Z * Z) :=
  let* (v, s) := fetch1 len s in
  if len >=? 32 then Panic else Ok (v, len + 1) s.
Definition acc_half (len : Z) (s : St) : res St (Z * Z) :=
  let* (v, s) := fetch2 len s in
  if len + 1 >=? 32 then Panic else Ok (v, len + 2) s.
Definition acc_word (len : Z) (s : St) : res St (Z * Z) :=
  let* (v, s) := fetch4 len s in
  if len + 3 >=? 32 then Panic else Ok (v, len + 4) s.

Definition illegal {B} (s : St) : res St B := Err (EExc IllegalOpcode) s.

Definition decode_literal_operand (dt : dtype) (len : Z) (s : St) : res St (operand * Z) :=
  match dt with
  | DByte => let* (r, s) := acc_byte len s in
             Ok (mkOperand 1 MNone DByte None None (fst r), snd r) s
  | DHalf => let* (r, s) := acc_half len s in
             Ok (mkOperand 2 MNone DHalf None None (fst r), snd r) s
  | DWord => let* (r, s) := acc_word len s in
             Ok (mkOperand 4 MNone DWord None None (fst r), snd r) s
  | _ => illegal s
  end.

Definition etype_of (r : Z) : option dtype :=
  if r =? 0 then Some DUWord else if r =? 2 then Some DUHalf else if r =? 3 then Some DByte
  else if r =? 4 then Some DWord else if r =? 6 then Some DHalf else if r =? 7 then Some DSByte
  else None.

(* decode_descriptor_operand; `fuel` bounds the recursion through expanded-type prefixes *)
Fixpoint decode_descriptor (fuel : nat) (dt : dtype) (et : option dtype) (recur : bool)
         (len : Z) (s : St) : res St (operand * Z) :=
  match fuel with
  | O => OutOfFuel
  | S fuel' =>
    let* (r0, s) := acc_byte len s in
    let d := fst r0 in let len := snd r0 in
    let m := d / 16 in
    let r := d mod 16 in
    let dsize := if recur then 2 else 1 in
    let wordop (mode : addrmode) (reg : option Z) :=
        let* (w, s) := acc_word len s in Ok (mkOperand (dsize + 4) mode dt et reg (fst w), snd w) s in
    let halfop (mode : addrmode) (reg : option Z) :=
        let* (w, s) := acc_half len s in Ok (mkOperand (dsize + 2) mode dt et reg (fst w), snd w) s in
    let byteop (mode : addrmode) (reg : option Z) :=
        let* (w, s) := acc_byte len s in Ok (mkOperand (dsize + 1) mode dt et reg (fst w), snd w) s in
    if m <=? 3 then Ok (mkOperand dsize MPosLit dt et None d, len) s
    else if m =? 4 then
      (if r =? 15 then wordop MWordImm None
       else Ok (mkOperand dsize MRegister dt et (Some r) 0, len) s)
    else if m =? 5 then
      (if r =? 15 then halfop MHalfImm None
       else if r =? 11 then illegal s
       else Ok (mkOperand dsize MRegDeferred dt et (Some r) 0, len) s)
    else if m =? 6 then
      (if r =? 15 then byteop MByteImm None
       else Ok (mkOperand dsize MFpShort dt et (Some 9) r, len) s)
    else if m =? 7 then
      (if r =? 15 then wordop MAbsolute None
       else Ok (mkOperand dsize MApShort dt et (Some 10) r, len) s)
    else if m =? 8 then (if r =? 11 then illegal s else wordop MWordDisp (Some r))
    else if m =? 9 then (if r =? 11 then illegal s else wordop MWordDispDef (Some r))
    else if m =? 10 then (if r =? 11 then illegal s else halfop MHalfDisp (Some r))
    else if m =? 11 then (if r =? 11 then illegal s else halfop MHalfDispDef (Some r))
    else if m =? 12 then (if r =? 11 then illegal s else byteop MByteDisp (Some r))
    else if m =? 13 then (if r =? 11 then illegal s else byteop MByteDispDef (Some r))
    else if m =? 14 then
      (if recur && negb (r =? 15) then illegal s
       else if r =? 15 then wordop MAbsoluteDeferred None
       else match etype_of r with
            | Some t => decode_descriptor fuel' dt (Some t) true len s
            | None => illegal s
            end)
    else Ok (mkOperand 1 MNegLit dt et None d, len) s
  end.

Definition decode_operand (mn : mnemonic) (ot : optype) (et : option dtype) (len : Z) (s : St)
  : res St (operand * Z) :=
  match ot with
  | OLit => decode_literal_operand (mn_dtype mn) len s
  | OSrc | ODest => decode_descriptor 3 (mn_dtype mn) et false len s
  | ONone => Ok (operand_clear, len) s       (* not used: None slots are cleared by the caller *)
  end.

(* the loop over mn.ops: a None slot is cleared and leaves etype alone *)
Fixpoint decode_ops (mn : mnemonic) (ots : list optype) (et : option dtype) (len : Z) (s : St)
  : res St (list operand * Z) :=
  match ots with
  | [] => Ok ([], len) s
  | ONone :: rest =>
    let* (r, s) := decode_ops mn rest et len s in
    Ok (operand_clear :: fst r, snd r) s
  | ot :: rest =>
    let* (o, s) := decode_operand mn ot et len s in
    let* (r, s) := decode_ops mn rest (oetype (fst o)) (snd o) s in
    Ok (fst o :: fst r, snd r) s
  end.

Fixpoint find_halfword (l : list (option mnemonic)) (opcode : Z) : option mnemonic :=
  match l with
  | [] => None
  | Some m :: t => if mn_opcode m =? opcode then Some m else find_halfword t opcode
  | None :: t => find_halfword t opcode
  end.

Definition lookup_mnemonic (b1 : Z) (b2 : option Z) : option mnemonic :=
  match b2 with
  | Some b2 => find_halfword g_halfword_mnemonics (b1 * 256 + b2)
  | None => nth (Z.to_nat b1) g_byte_mnemonics None
  end.

Definition decode_instruction (s : St) : res St instr :=
  let* (r1, s) := acc_byte 0 s in
  let b1 := fst r1 in
  let* (r2, s) := (if b1 =? 48
                   then (let* (r, s) := acc_byte (snd r1) s in Ok (Some (fst r), snd r) s)
                   else Ok (None, snd r1) s) in
  match lookup_mnemonic b1 (fst r2) with
  | Some mn =>
    let* (r, s) := decode_ops mn (mn_ops mn) None (snd r2) s in
    let o k := nth k (fst r) operand_clear in
    Ok (mkInstr (mn_opcode mn) (snd r) (o 0%nat) (o 1%nat) (o 2%nat) (o 3%nat)) s
  | None => illegal s
  end.

End Decode.
