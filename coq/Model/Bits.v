(* Machine integers as Z with every wrap written out.  Model file: no proofs here. *)
From Coq Require Export ZArith Bool List.
Export ListNotations.
Open Scope Z_scope.

Definition w8  (x : Z) : Z := x mod 256.
Definition w16 (x : Z) : Z := x mod 65536.
Definition w32 (x : Z) : Z := x mod 4294967296.
Definition w64 (x : Z) : Z := x mod 18446744073709551616.

(* sign_extend_byte / sign_extend_halfword: u8/u16 -> u32 through i8/i16 *)
Definition sext8 (x : Z) : Z := let b := w8 x in if b <? 128 then b else b + 4294967040.
Definition sext16 (x : Z) : Z := let h := w16 x in if h <? 32768 then h else h + 4294901760.

(* signed views of an unsigned value already in range *)
Definition s32 (x : Z) : Z := if x <? 2147483648 then x else x - 4294967296.
Definition s16 (x : Z) : Z := let h := w16 x in if h <? 32768 then h else h - 65536.
Definition s8  (x : Z) : Z := let b := w8 x in if b <? 128 then b else b - 256.

Definition add32 (a b : Z) : Z := w32 (a + b).
Definition sub32 (a b : Z) : Z := w32 (a - b).
(* add_offset: (val as i32).wrapping_add(offset as i32) as u32 *)
Definition add_offset (v off : Z) : Z := w32 (v + off).
Definition not32 (x : Z) : Z := 4294967295 - x.
Definition not8 (x : Z) : Z := 255 - x.

(* x & !m  for u8 / u32 *)
Definition clr8 (x m : Z) : Z := Z.land x (not8 m).
Definition clr32 (x m : Z) : Z := Z.land x (not32 m).
Definition bset (x m : Z) : bool := negb (Z.land x m =? 0).

(* usize arithmetic that can wrap (64-bit host) *)
Definition usub (a b : Z) : Z := w64 (a - b).

Inductive buserr := BInit | BRead | BWrite | BNoDevice | BRange | BPermission | BAlignment.
Inductive cpuexc := IllegalOpcode | InvalidDescriptor | PrivilegedOpcode | IntegerZeroDivide.
Inductive err := EBus (e : buserr) | EExc (e : cpuexc).

(* Outcome of an operation on a state of type S.  Err carries the state at the
   point of the early return (partial effects stay visible). *)
Inductive res (S A : Type) : Type :=
| Ok (a : A) (s : S)
| Err (e : err) (s : S)
| Panic
| OutOfFuel.
Arguments Ok {S A} a s.
Arguments Err {S A} e s.
Arguments Panic {S A}.
Arguments OutOfFuel {S A}.

Definition bind {S A B} (m : res S A) (f : A -> S -> res S B) : res S B :=
  match m with
  | Ok a s => f a s
  | Err e s => Err e s
  | Panic => Panic
  | OutOfFuel => OutOfFuel
  end.

Notation "'let*' ( a , s ) := m 'in' k" := (bind m (fun a s => k))
  (at level 200, a name, s name, m at level 100, k at level 200, right associativity).

Definition is_ok {S A} (m : res S A) : bool := match m with Ok _ _ => true | _ => false end.
