(* duart.rs.  Port is polymorphic in the payload type so that theorems about
   the receive/transmit paths hold for tagged bytes; the DUART itself uses Z.
   Host deques are lists in delivery order: head = next element delivered
   (VecDeque::pop_back), enqueue appends at the end (push_front). *)
From Dmd Require Import Model.Bits Model.Fifo Model.Mem.

(* constants (checked against the source by Gen/GenDuart.v) *)
Definition CNF_ETX := 1.  Definition CNF_ERX := 2.
Definition STS_RXR := 1.  Definition STS_FFL := 2.  Definition STS_TXR := 4.  Definition STS_TXE := 8.
Definition STS_OER := 16. Definition STS_PER := 32. Definition STS_FER := 64. Definition STS_RXB := 128.
Definition CMD_ERX := 1.  Definition CMD_DRX := 2.  Definition CMD_ETX := 4.  Definition CMD_DTX := 8.
Definition ISTS_TAI := 1. Definition ISTS_RAI := 2. Definition ISTS_DBA := 4.
Definition ISTS_TBI := 16. Definition ISTS_RBI := 32. Definition ISTS_DBB := 64. Definition ISTS_IPC := 128.
Definition KEYBOARD_INT := 4. Definition MOUSE_BLANK_INT := 2. Definition TX_INT := 16. Definition RX_INT := 32.
Definition VERTICAL_BLANK_DELAY := 16666666.
Definition BAUD_RATES_A : list Z := [50; 110; 135; 200; 300; 600; 1200; 1050; 2400; 4800; 7200; 9600; 38400].
Definition BAUD_RATES_B : list Z := [75; 110; 135; 150; 300; 600; 1200; 2000; 2400; 4800; 1800; 9600; 19200].

Section Port.
Context {A : Type}.
Variable dflt : A.
Variable is02 : A -> bool.

Record port := mkPort {
  mode0 : Z; mode1 : Z; mode_ptr : Z; stat : Z; conf : Z;
  rx_fifo : fifo A; rx_shift : option A; tx_hold : option A; tx_shift : option A;
  rxq : list A; txq : list A;
  char_delay : Z; next_tx : Z; next_rx : Z }.

Definition port_new (now : Z) : port :=
  mkPort 0 0 0 0 0 (fifo_new dflt) None None None [] [] 1000000 now now.

Definition with_stat (p : port) (v : Z) : port :=
  mkPort (mode0 p) (mode1 p) (mode_ptr p) v (conf p) (rx_fifo p) (rx_shift p) (tx_hold p)
         (tx_shift p) (rxq p) (txq p) (char_delay p) (next_tx p) (next_rx p).
Definition with_conf (p : port) (v : Z) : port :=
  mkPort (mode0 p) (mode1 p) (mode_ptr p) (stat p) v (rx_fifo p) (rx_shift p) (tx_hold p)
         (tx_shift p) (rxq p) (txq p) (char_delay p) (next_tx p) (next_rx p).
Definition with_fifo (p : port) (v : fifo A) : port :=
  mkPort (mode0 p) (mode1 p) (mode_ptr p) (stat p) (conf p) v (rx_shift p) (tx_hold p)
         (tx_shift p) (rxq p) (txq p) (char_delay p) (next_tx p) (next_rx p).
Definition with_rx_shift (p : port) (v : option A) : port :=
  mkPort (mode0 p) (mode1 p) (mode_ptr p) (stat p) (conf p) (rx_fifo p) v (tx_hold p)
         (tx_shift p) (rxq p) (txq p) (char_delay p) (next_tx p) (next_rx p).
Definition with_tx_hold (p : port) (v : option A) : port :=
  mkPort (mode0 p) (mode1 p) (mode_ptr p) (stat p) (conf p) (rx_fifo p) (rx_shift p) v
         (tx_shift p) (rxq p) (txq p) (char_delay p) (next_tx p) (next_rx p).
Definition with_tx_shift (p : port) (v : option A) : port :=
  mkPort (mode0 p) (mode1 p) (mode_ptr p) (stat p) (conf p) (rx_fifo p) (rx_shift p) (tx_hold p)
         v (rxq p) (txq p) (char_delay p) (next_tx p) (next_rx p).
Definition with_rxq (p : port) (v : list A) : port :=
  mkPort (mode0 p) (mode1 p) (mode_ptr p) (stat p) (conf p) (rx_fifo p) (rx_shift p) (tx_hold p)
         (tx_shift p) v (txq p) (char_delay p) (next_tx p) (next_rx p).
Definition with_txq (p : port) (v : list A) : port :=
  mkPort (mode0 p) (mode1 p) (mode_ptr p) (stat p) (conf p) (rx_fifo p) (rx_shift p) (tx_hold p)
         (tx_shift p) (rxq p) v (char_delay p) (next_tx p) (next_rx p).
Definition with_char_delay (p : port) (v : Z) : port :=
  mkPort (mode0 p) (mode1 p) (mode_ptr p) (stat p) (conf p) (rx_fifo p) (rx_shift p) (tx_hold p)
         (tx_shift p) (rxq p) (txq p) v (next_tx p) (next_rx p).
Definition with_next_tx (p : port) (v : Z) : port :=
  mkPort (mode0 p) (mode1 p) (mode_ptr p) (stat p) (conf p) (rx_fifo p) (rx_shift p) (tx_hold p)
         (tx_shift p) (rxq p) (txq p) (char_delay p) v (next_rx p).
Definition with_next_rx (p : port) (v : Z) : port :=
  mkPort (mode0 p) (mode1 p) (mode_ptr p) (stat p) (conf p) (rx_fifo p) (rx_shift p) (tx_hold p)
         (tx_shift p) (rxq p) (txq p) (char_delay p) (next_tx p) v.
Definition with_mode_ptr (p : port) (v : Z) : port :=
  mkPort (mode0 p) (mode1 p) v (stat p) (conf p) (rx_fifo p) (rx_shift p) (tx_hold p)
         (tx_shift p) (rxq p) (txq p) (char_delay p) (next_tx p) (next_rx p).
Definition with_mode (p : port) (i v : Z) : port :=
  if i =? 0
  then mkPort v (mode1 p) (mode_ptr p) (stat p) (conf p) (rx_fifo p) (rx_shift p) (tx_hold p)
         (tx_shift p) (rxq p) (txq p) (char_delay p) (next_tx p) (next_rx p)
  else mkPort (mode0 p) v (mode_ptr p) (stat p) (conf p) (rx_fifo p) (rx_shift p) (tx_hold p)
         (tx_shift p) (rxq p) (txq p) (char_delay p) (next_tx p) (next_rx p).

Definition stat_set (p : port) (m : Z) : port := with_stat p (Z.lor (stat p) m).
Definition stat_clr (p : port) (m : Z) : port := with_stat p (clr8 (stat p) m).

Definition loopback (p : port) : bool := Z.land (mode1 p) 192 =? 128.
Definition rx_enabled (p : port) : bool := bset (conf p) CNF_ERX.
Definition is_some {B} (o : option B) : bool := match o with Some _ => true | None => false end.

(* rx_read_char *)
Definition rx_read_char (p : port) : option A * port :=
  if negb (rx_enabled p) then (None, p)
  else match fifo_pop (rx_fifo p) with
       | Some (v, f1) =>
         let p1 := stat_clr (with_fifo p f1) STS_FFL in
         let p2 := match rx_shift p1 with
                   | Some c =>
                     let p1a := with_rx_shift p1 None in
                     let p1b := match fifo_push (rx_fifo p1a) c with
                                | Some f2 => with_fifo p1a f2
                                | None => p1a end in
                     let p1c := stat_set p1b STS_RXR in
                     if fifo_full (rx_fifo p1c) then stat_set p1c STS_FFL else p1c
                   | None => p1 end in
         let p3 := if fifo_empty (rx_fifo p2) then stat_clr p2 STS_RXR else p2 in
         (Some v, stat_clr p3 (STS_PER + STS_RXB))
       | None => (None, stat_clr p (STS_PER + STS_RXB))
       end.

(* rx_char *)
Definition rx_char (p : port) (c : A) : port :=
  let p1 :=
    if negb (fifo_full (rx_fifo p)) then
      let p0 := match fifo_push (rx_fifo p) c with Some f => with_fifo p f | None => p end in
      if fifo_full (rx_fifo p0) then stat_set p0 STS_FFL else p0
    else
      let p0 := if is_some (rx_shift p) then stat_set p STS_OER else p in
      with_rx_shift p0 (Some c) in
  stat_set p1 STS_RXR.

(* rx_service *)
Definition rx_service (now : Z) (p : port) : port :=
  let needed := rx_enabled p && negb (match rxq p with [] => true | _ => false end)
                && (now >=? next_rx p) in
  if negb needed then p
  else
    let p1 := if negb (loopback p)
              then match rxq p with
                   | c :: t => rx_char (with_rxq p t) c
                   | [] => p end
              else p in
    with_next_rx p1 (now + char_delay p1).

(* tx_service *)
Definition tx_service (now : Z) (keyboard : bool) (p : port) : port :=
  if negb (is_some (tx_hold p)) && negb (is_some (tx_shift p)) then p
  else if now >=? next_tx p then
    let p1 := match tx_shift p with
              | Some c =>
                let pa := if loopback p
                          then (if rx_enabled p then rx_char p c else p)
                          else let pk := if keyboard && is02 c then stat_set p STS_PER else p in
                               with_txq pk (txq pk ++ [c]) in
                let pb := with_tx_shift pa None in
                if negb (is_some (tx_hold pb)) then stat_set (stat_set pb STS_TXR) STS_TXE else pb
              | None => p end in
    match tx_hold p1 with
    | Some c => with_next_tx (with_tx_hold (with_tx_shift p1 (Some c)) None) (now + char_delay p1)
    | None => p1
    end
  else p.

Definition enable_tx (p : port) : port :=
  let p1 := with_conf p (Z.lor (conf p) CNF_ETX) in
  let p2 := if negb (is_some (tx_hold p1)) then stat_set p1 STS_TXR else p1 in
  if negb (is_some (tx_shift p2)) then stat_set p2 STS_TXE else p2.
Definition disable_tx (p : port) : port :=
  stat_clr (with_conf p (clr8 (conf p) CNF_ETX)) (STS_TXR + STS_TXE).
Definition enable_rx (p : port) : port :=
  stat_clr (with_conf p (Z.lor (conf p) CNF_ERX)) STS_RXR.
Definition disable_rx (p : port) : port :=
  stat_clr (with_conf p (clr8 (conf p) CNF_ERX)) STS_RXR.

(* the part of handle_command that acts on the port; the ISR/vector part is in
   Duart below.  `brk` reports whether a start/stop-break sets delta-break. *)
Definition port_command (cmd : Z) (p : port) : port :=
  let p1 := if bset cmd CMD_DTX then disable_tx p
            else if bset cmd CMD_ETX then enable_tx p else p in
  let p2 := if bset cmd CMD_DRX then disable_rx p1
            else if bset cmd CMD_ERX then enable_rx p1 else p1 in
  let x := Z.land (Z.shiftr cmd 4) 7 in
  if x =? 1 then with_mode_ptr p2 0
  else if x =? 2 then
    with_rx_shift (with_fifo (with_conf (stat_clr p2 STS_RXR) (clr8 (conf p2) CNF_ERX))
                             (fifo_clear (rx_fifo p2))) None
  else if x =? 3 then
    with_tx_shift (with_tx_hold (with_conf (stat_clr p2 (STS_TXR + STS_TXE)) (clr8 (conf p2) CNF_ETX))
                                None) None
  else if x =? 4 then stat_clr p2 (STS_RXB + STS_FER + STS_PER + STS_OER)
  else if x =? 6 then (if loopback p2 then stat_set p2 (STS_RXB + STS_PER) else p2)
  else p2.

(* THR write *)
Definition write_thr (p : port) (c : A) : port :=
  stat_clr (with_tx_hold p (Some c)) (STS_TXR + STS_TXE).

(* mode register read / write through the auto-incrementing pointer *)
Definition read_mode (p : port) : Z * port :=
  ((if mode_ptr p =? 0 then mode0 p else mode1 p), with_mode_ptr p ((mode_ptr p + 1) mod 2)).
Definition write_mode (p : port) (v : Z) : port :=
  with_mode_ptr (with_mode p (mode_ptr p) v) ((mode_ptr p + 1) mod 2).

(* host side *)
Definition host_enqueue (p : port) (c : A) : port := with_rxq p (rxq p ++ [c]).
Definition host_poll (p : port) : option A * port :=
  match txq p with [] => (None, p) | c :: t => (Some c, with_txq p t) end.

End Port.
Arguments port A : clear implicits.

(* ------------------------------------------------------------------ *)

Record duart := mkDuart {
  pa : port Z; pb : port Z;
  acr : Z; ipcr : Z; inprt : Z; outprt : Z; isr : Z; imr : Z; ivec : Z; next_vblank : Z }.

Definition is02z (c : Z) : bool := c =? 2.
Definition zport_new := @port_new Z 0.

Definition duart_new (now : Z) : duart :=
  mkDuart (zport_new now) (zport_new now) 0 64 11 0 0 0 0 (now + VERTICAL_BLANK_DELAY).

Definition with_pa (d : duart) (p : port Z) : duart :=
  mkDuart p (pb d) (acr d) (ipcr d) (inprt d) (outprt d) (isr d) (imr d) (ivec d) (next_vblank d).
Definition with_pb (d : duart) (p : port Z) : duart :=
  mkDuart (pa d) p (acr d) (ipcr d) (inprt d) (outprt d) (isr d) (imr d) (ivec d) (next_vblank d).
Definition with_acr (d : duart) (v : Z) : duart :=
  mkDuart (pa d) (pb d) v (ipcr d) (inprt d) (outprt d) (isr d) (imr d) (ivec d) (next_vblank d).
Definition with_ipcr (d : duart) (v : Z) : duart :=
  mkDuart (pa d) (pb d) (acr d) v (inprt d) (outprt d) (isr d) (imr d) (ivec d) (next_vblank d).
Definition with_inprt (d : duart) (v : Z) : duart :=
  mkDuart (pa d) (pb d) (acr d) (ipcr d) v (outprt d) (isr d) (imr d) (ivec d) (next_vblank d).
Definition with_outprt (d : duart) (v : Z) : duart :=
  mkDuart (pa d) (pb d) (acr d) (ipcr d) (inprt d) v (isr d) (imr d) (ivec d) (next_vblank d).
Definition with_isr (d : duart) (v : Z) : duart :=
  mkDuart (pa d) (pb d) (acr d) (ipcr d) (inprt d) (outprt d) v (imr d) (ivec d) (next_vblank d).
Definition with_imr (d : duart) (v : Z) : duart :=
  mkDuart (pa d) (pb d) (acr d) (ipcr d) (inprt d) (outprt d) (isr d) v (ivec d) (next_vblank d).
Definition with_ivec (d : duart) (v : Z) : duart :=
  mkDuart (pa d) (pb d) (acr d) (ipcr d) (inprt d) (outprt d) (isr d) (imr d) v (next_vblank d).
Definition with_next_vblank (d : duart) (v : Z) : duart :=
  mkDuart (pa d) (pb d) (acr d) (ipcr d) (inprt d) (outprt d) (isr d) (imr d) (ivec d) v.

Definition isr_set d m := with_isr d (Z.lor (isr d) m).
Definition isr_clr d m := with_isr d (clr8 (isr d) m).
Definition ivec_set d m := with_ivec d (Z.lor (ivec d) m).
Definition ivec_clr d m := with_ivec d (clr8 (ivec d) m).

(* delay_rate *)
Definition delay_rate (csr_bits acr_bits : Z) : Z :=
  let baud_bits := Z.min (Z.land (Z.shiftr csr_bits 4) 15) 12 in
  let rate := nth (Z.to_nat baud_bits)
                  (if Z.land acr_bits 128 =? 0 then BAUD_RATES_A else BAUD_RATES_B) 1 in
  1000000000 / (rate / 8).

Definition vertical_blank (d : duart) : duart :=
  let d1 := isr_set (with_ipcr (ivec_set d MOUSE_BLANK_INT) (Z.lor (ipcr d) 64)) ISTS_IPC in
  if Z.land (inprt d1) 4 =? 0 then with_ipcr d1 (Z.lor (ipcr d1) 64)
  else with_inprt d1 (clr8 (inprt d1) 4).

Definition get_interrupt (now : Z) (d : duart) : option Z * duart :=
  let d0 := if now >? next_vblank d
            then vertical_blank (with_next_vblank d (now + VERTICAL_BLANK_DELAY)) else d in
  let d1 := if bset (stat (pa d0)) STS_RXR then isr_set (ivec_set d0 RX_INT) ISTS_RAI else d0 in
  let d2 := if bset (stat (pb d1)) STS_RXR then isr_set (ivec_set d1 KEYBOARD_INT) ISTS_RBI else d1 in
  let d3 := if bset (stat (pa d2)) STS_TXR then isr_set (ivec_set d2 TX_INT) ISTS_TAI else d2 in
  ((if ivec d3 =? 0 then None else Some (ivec d3)), d3).

Definition duart_service (now : Z) (d : duart) : duart :=
  let a1 := rx_service now (tx_service is02z now false (pa d)) in
  let b1 := rx_service now (tx_service is02z now true (pb d)) in
  with_pb (with_pa d a1) b1.

Definition output_port (d : duart) : Z := not8 (outprt d).

Definition duart_rs232_rx (d : duart) (c : Z) : duart := with_pa d (host_enqueue (pa d) c).
Definition duart_keyboard_rx (d : duart) (c : Z) : duart := with_pb d (host_enqueue (pb d) c).
Definition duart_rs232_tx (d : duart) : option Z * duart :=
  let (o, p) := host_poll (pa d) in (o, with_pa d p).
Definition duart_keyboard_tx (d : duart) : option Z * duart :=
  let (o, p) := host_poll (pb d) in (o, with_pb d p).

Definition mouse_down (d : duart) (button : Z) : duart :=
  let d1 := ivec_set (isr_set (with_inprt (with_ipcr d 0) (Z.lor (inprt d) 11)) ISTS_IPC) MOUSE_BLANK_INT in
  if button =? 0 then with_inprt (with_ipcr d1 (Z.lor (ipcr d1) 128)) (clr8 (inprt d1) 8)
  else if button =? 1 then with_inprt (with_ipcr d1 (Z.lor (ipcr d1) 32)) (clr8 (inprt d1) 2)
  else if button =? 2 then with_inprt (with_ipcr d1 (Z.lor (ipcr d1) 16)) (clr8 (inprt d1) 1)
  else d1.

Definition mouse_up (d : duart) (button : Z) : duart :=
  let d1 := ivec_set (isr_set (with_inprt (with_ipcr d 0) (Z.lor (inprt d) 11)) ISTS_IPC) MOUSE_BLANK_INT in
  if button =? 0 then with_ipcr d1 (Z.lor (ipcr d1) 128)
  else if button =? 1 then with_ipcr d1 (Z.lor (ipcr d1) 32)
  else if button =? 2 then with_ipcr d1 (Z.lor (ipcr d1) 16)
  else d1.

(* handle_command: port_no 0 = A, otherwise B *)
Definition handle_command (cmd port_no : Z) (d : duart) : duart :=
  let isA := port_no =? 0 in
  let tx_ists := if isA then ISTS_TAI else ISTS_TBI in
  let rx_ists := if isA then ISTS_RAI else ISTS_RBI in
  let dbk_ists := if isA then ISTS_DBA else ISTS_DBB in
  let p := if isA then pa d else pb d in
  let lb_after := loopback p in      (* mode registers are not touched by commands *)
  let p' := port_command cmd p in
  let d0 := if isA then with_pa d p' else with_pb d p' in
  let d1 := if bset cmd CMD_DTX then isr_clr (ivec_clr d0 TX_INT) tx_ists
            else if bset cmd CMD_ETX then isr_set (ivec_set d0 TX_INT) tx_ists else d0 in
  let d2 := if bset cmd CMD_DRX
            then (if isA then isr_clr (ivec_clr (isr_clr d1 rx_ists) RX_INT) ISTS_RAI
                  else isr_clr (ivec_clr (isr_clr d1 rx_ists) KEYBOARD_INT) ISTS_RBI)
            else d1 in
  let x := Z.land (Z.shiftr cmd 4) 7 in
  if x =? 5 then isr_clr d2 dbk_ists
  else if (x =? 6) || (x =? 7) then (if lb_after then isr_set d2 dbk_ists else d2)
  else d2.

(* register file: off = address - 0x200000 (after `as u8`; always < 256 here) *)
Definition duart_read_byte (off : Z) (d : duart) : rres (Z * duart) :=
  let off := w8 off in
  if off =? 3 then let (v, p) := read_mode (pa d) in ROk (v, with_pa d p)
  else if off =? 7 then ROk (stat (pa d), d)
  else if off =? 15 then
    let d1 := ivec_clr (isr_clr d ISTS_RAI) RX_INT in
    let (o, p) := rx_read_char (pa d1) in
    ROk ((match o with Some c => c | None => 0 end), with_pa d1 p)
  else if off =? 19 then
    ROk (ipcr d, isr_clr (with_ivec (with_ipcr d (clr8 (ipcr d) 15)) 0) ISTS_IPC)
  else if off =? 23 then ROk (isr d, d)
  else if off =? 35 then let (v, p) := read_mode (pb d) in ROk (v, with_pb d p)
  else if off =? 39 then ROk (stat (pb d), d)
  else if off =? 47 then
    let d1 := ivec_clr (isr_clr d ISTS_RBI) KEYBOARD_INT in
    let (o, p) := rx_read_char (pb d1) in
    ROk ((match o with Some c => c | None => 0 end), with_pb d1 p)
  else if off =? 55 then ROk (inprt d, d)
  else RErr BNoDevice.

Definition duart_write_byte (off v : Z) (d : duart) : duart :=
  let off := w8 off in
  let v := w8 v in
  if off =? 3 then with_pa d (write_mode (pa d) v)
  else if off =? 7 then with_pa d (with_char_delay (pa d) (delay_rate v (acr d)))
  else if off =? 11 then handle_command v 0 d
  else if off =? 15 then isr_clr (with_pa d (write_thr (pa d) v)) ISTS_TAI
  else if off =? 19 then with_acr d v
  else if off =? 23 then with_imr d v
  else if off =? 35 then with_pb d (write_mode (pb d) v)
  else if off =? 39 then with_pb d (with_char_delay (pb d) (delay_rate v (acr d)))
  else if off =? 43 then handle_command v 1 d
  else if off =? 47 then isr_clr (with_pb d (write_thr (pb d) v)) ISTS_TBI
  else if off =? 59 then with_outprt d (Z.lor (outprt d) v)
  else if off =? 63 then with_outprt d (clr8 (outprt d) v)
  else d.
